(* Proofs for Model/BridgeDeps.v: what ValidateFilterRefs / ValidateFix (the
   C15/C16 model, Model/Config.v) make of Integration.Dependencies, and what
   that gives the task layer (C05) and the row builder (C11/C12). *)
From Coq Require Import String List NArith Bool Lia ZifyBool ZifyN ZifyNat.
From Shovel Require Import Base.Outcome Model.Config Model.BridgeDeps Proofs.ConfigP.
From Shovel Require Model.Filter Model.Rows Model.Sql.
From Shovel Require Model.TaskTypes Model.TaskDb Model.Task Model.TaskNode Model.TaskSys Model.TaskSpec.
From Shovel Require Proofs.C04P Proofs.C05P Proofs.C05SysP.
Import ListNotations.
Open Scope N_scope.

(* ================= the Go map igs: last-wins search ================= *)
Lemma find_last_from_spec : forall name igs i acc k,
  find_last_from name igs i acc = Some k ->
  (acc = Some k) \/
  ((i <= k)%nat /\ (k < i + length igs)%nat /\ ig_name (nth (k - i) igs dummy_ig) = name).
Proof.
  intros name igs. induction igs as [|g r IH]; intros i acc k H; cbn [find_last_from] in H.
  - left. exact H.
  - apply IH in H. destruct H as [H | (H1 & H2 & H3)].
    + destruct (str_eqb (ig_name g) name) eqn:E.
      * inversion H; subst k. right. split; [lia|]. split; [cbn [length]; lia|].
        replace (i - i)%nat with O by lia. cbn [nth]. apply str_eqb_eq. exact E.
      * left. exact H.
    + right. split; [lia|]. split; [cbn [length]; lia|].
      replace (k - i)%nat with (S (k - S i)) by lia. cbn [nth]. exact H3.
Qed.

Lemma find_last_ig_spec : forall name igs k,
  find_last_ig name igs = Some k ->
  (k < length igs)%nat /\ ig_name (nth k igs dummy_ig) = name /\ In (nth k igs dummy_ig) igs.
Proof.
  intros name igs k H. unfold find_last_ig in H. apply find_last_from_spec in H.
  destruct H as [H | (H1 & H2 & H3)]; [discriminate|].
  replace (k - 0)%nat with k in H3 by lia. split; [lia|]. split; [exact H3|].
  apply nth_In. lia.
Qed.

(* names, table names kept position by position; columns only grow *)
Definition shape_rel (g g' : integ) : Prop :=
  ig_name g' = ig_name g /\ t_name (ig_table g') = t_name (ig_table g)
  /\ incl (col_names (ig_table g)) (col_names (ig_table g')).

Lemma shape_rel_refl : forall g, shape_rel g g.
Proof. intros g. split; [reflexivity|]. split; [reflexivity|apply incl_refl]. Qed.
Lemma shape_rel_trans : forall a b c, shape_rel a b -> shape_rel b c -> shape_rel a c.
Proof.
  intros a b c (A1 & A2 & A3) (B1 & B2 & B3). split; [congruence|]. split; [congruence|].
  eapply incl_tran; eassumption.
Qed.

Lemma find_last_from_shape : forall name l l', Forall2 shape_rel l l' ->
  forall i acc, find_last_from name l' i acc = find_last_from name l i acc.
Proof.
  intros name l l' H. induction H as [|g g' l l' (Hn & _) _ IH]; intros i acc; [reflexivity|].
  cbn [find_last_from]. rewrite Hn. apply IH.
Qed.

Lemma nth_shape : forall l l', Forall2 shape_rel l l' ->
  forall k, t_name (ig_table (nth k l' dummy_ig)) = t_name (ig_table (nth k l dummy_ig)).
Proof.
  intros l l' H. induction H as [|g g' l l' (_ & Ht & _) _ IH]; intros k; [destruct k; reflexivity|].
  destruct k as [|k]; cbn [nth]; [exact Ht|apply IH].
Qed.

Lemma ref_table_of_shape : forall l l' R, Forall2 shape_rel l l' -> ref_table_of l' R = ref_table_of l R.
Proof.
  intros l l' R H. unfold ref_table_of, find_last_ig. rewrite (find_last_from_shape R l l' H).
  destruct (find_last_from R l 0 None); [|reflexivity]. rewrite (nth_shape l l' H). reflexivity.
Qed.

Lemma cols_of_table_shape : forall l l' tn x, Forall2 shape_rel l l' ->
  In x (cols_of_table l tn) -> In x (cols_of_table l' tn).
Proof.
  intros l l' tn x H. unfold cols_of_table.
  induction H as [|g g' l l' (_ & Ht & Hc) _ IH]; intros Hin; [exact Hin|].
  cbn [flat_map] in *. apply in_app_or in Hin. apply in_or_app. destruct Hin as [Hin|Hin].
  - left. rewrite Ht. destruct (str_eqb (t_name (ig_table g)) tn); [apply Hc; exact Hin|destruct Hin].
  - right. apply IH. exact Hin.
Qed.

Lemma ref_resolved_shape : forall l l' f, Forall2 shape_rel l l' -> ref_resolved l f -> ref_resolved l' f.
Proof.
  intros l l' f H. unfold ref_resolved. destruct (is_nil (r_ig (f_ref f))); [exact (fun x => x)|].
  intros (A & B & C). split; [rewrite (ref_table_of_shape l l' _ H); exact A|]. split; [exact B|].
  apply In_mem. apply (cols_of_table_shape l l' _ _ H). apply mem_In. exact C.
Qed.

(* ================= ValidateFilterRefs ================= *)
Lemma is_nil_false : forall {A} (l : list A), is_nil l = false -> l <> [].
Proof. intros A l H E. subst l. discriminate. Qed.

Lemma fix_filter_spec : forall igs0 f f' d a,
  fix_filter igs0 f = Some (f', d, a) ->
  d = ref_name f /\ ref_name f' = ref_name f /\ ref_resolved igs0 f'
  /\ f_op f' = f_op f /\ f_arg f' = f_arg f.
Proof.
  intros igs0 f f' d a H. unfold fix_filter, check_ref in H. unfold ref_name, ref_resolved.
  destruct (is_nil (r_ig (f_ref f))) eqn:Eig; cbn [negb] in H.
  - destruct (is_nil (r_table (f_ref f))) eqn:Et; cbn [negb orb] in H; [|discriminate].
    destruct (is_nil (r_col (f_ref f))) eqn:Ec; cbn [negb] in H; [|discriminate].
    inversion H; subst f' d a. rewrite Eig. split; [reflexivity|]. split; [reflexivity|].
    split; [|split; reflexivity].
    destruct (r_table (f_ref f)); [|discriminate]. destruct (r_col (f_ref f)); [|discriminate]. split; reflexivity.
  - destruct (find_last_ig (r_ig (f_ref f)) igs0) as [k|] eqn:Ef; [|discriminate].
    destruct (is_nil (r_col (f_ref f))) eqn:Ec; [discriminate|].
    destruct (mem (r_col (f_ref f)) (cols_of_table igs0 (t_name (ig_table (nth k igs0 dummy_ig))))) eqn:Em;
      [|discriminate].
    inversion H; subst f' d a. cbn [f_ref r_ig r_table r_col f_op f_arg]. rewrite Eig.
    split; [reflexivity|]. split; [reflexivity|]. split; [|split; reflexivity].
    split; [unfold ref_table_of; rewrite Ef; reflexivity|]. split; [apply is_nil_false; exact Ec|exact Em].
Qed.

(* the walk over the inputs and their components (parent first) *)
Lemma input_refs_app : forall a b, input_refs (a ++ b) = input_refs a ++ input_refs b.
Proof. intros. unfold input_refs. apply flat_map_app. Qed.

Lemma fix_input_spec : forall igs0 i i' ds a,
  fix_input igs0 i = Some (i', ds, a) ->
  ds = input_refs (flat_input i) /\ input_refs (flat_input i') = input_refs (flat_input i)
  /\ Forall (fun x => ref_resolved igs0 (i_flt x)) (flat_input i').
Proof.
  intros igs0. induction i as [ix n c f cs IH] using input_ind'. intros i' ds a H.
  rewrite fix_input_eq in H.
  destruct (fix_filter igs0 f) as [[[f' d1] a1]|] eqn:Ef; [|discriminate].
  destruct (fix_inputs igs0 cs) as [[[cs' dc] ac]|] eqn:Ec; [|discriminate].
  inversion H; subst i' ds a; clear H.
  destruct (fix_filter_spec _ _ _ _ _ Ef) as (F1 & F2 & F3 & _).
  assert (Hrec : dc = input_refs (flat_map flat_input cs)
                 /\ input_refs (flat_map flat_input cs') = input_refs (flat_map flat_input cs)
                 /\ Forall (fun x => ref_resolved igs0 (i_flt x)) (flat_map flat_input cs')).
  { clear Ef F1 F2 F3. revert cs' dc ac Ec. induction cs as [|x r IHr]; intros cs' dc ac Ec; cbn [fix_inputs] in Ec.
    - inversion Ec; subst. repeat split; constructor.
    - apply Forall_cons_iff in IH as [IHx IHrest].
      destruct (fix_input igs0 x) as [[[x' dx] ax]|] eqn:Ex; [|discriminate].
      destruct (fix_inputs igs0 r) as [[[r' dr] ar]|] eqn:Er; [|discriminate].
      inversion Ec; subst cs' dc ac; clear Ec.
      destruct (IHx _ _ _ eq_refl) as (X1 & X2 & X3). destruct (IHr IHrest _ _ _ eq_refl) as (R1 & R2 & R3).
      cbn [flat_map]. rewrite !input_refs_app. subst dx dr.
      split; [reflexivity|]. split; [rewrite X2, R2; reflexivity|]. apply Forall_app. split; assumption. }
  destruct Hrec as (C1 & C2 & C3). cbn [flat_input]. unfold input_refs in *. cbn [flat_map i_flt]. subst d1 dc.
  split; [reflexivity|]. split; [rewrite F2, C2; reflexivity|]. constructor; [exact F3|exact C3].
Qed.

Lemma fix_inputs_spec : forall igs0 l l' ds a,
  fix_inputs igs0 l = Some (l', ds, a) ->
  ds = input_refs (all_inputs l) /\ input_refs (all_inputs l') = input_refs (all_inputs l)
  /\ Forall (fun i => ref_resolved igs0 (i_flt i)) (all_inputs l').
Proof.
  intros igs0 l. induction l as [|x r IH]; intros l' ds a H; cbn [fix_inputs] in H.
  - inversion H; subst. repeat split; constructor.
  - destruct (fix_input igs0 x) as [[[x' dx] ax]|] eqn:Ex; [|discriminate].
    destruct (fix_inputs igs0 r) as [[[r' dr] ar]|] eqn:Er; [|discriminate].
    inversion H; subst l' ds a. destruct (IH _ _ _ eq_refl) as (A & B & C).
    destruct (fix_input_spec _ _ _ _ _ Ex) as (X1 & X2 & X3).
    unfold all_inputs in *. cbn [flat_map]. rewrite !input_refs_app. subst dx dr.
    split; [reflexivity|]. split; [rewrite X2, B; reflexivity|]. apply Forall_app. split; assumption.
Qed.

Lemma fix_block_spec : forall igs0 l l' ds a,
  fix_block igs0 l = Some (l', ds, a) ->
  ds = block_refs l /\ block_refs l' = block_refs l
  /\ Forall (fun b => ref_resolved igs0 (bd_flt b)) l'.
Proof.
  intros igs0 l. induction l as [|b r IH]; intros l' ds a H; cbn [fix_block] in H.
  - inversion H; subst. repeat split; constructor.
  - destruct (fix_filter igs0 (bd_flt b)) as [[[f' d1] a1]|] eqn:Ef; [|discriminate].
    destruct (fix_block igs0 r) as [[[r' ds'] as']|] eqn:Er; [|discriminate].
    inversion H; subst l' ds a. destruct (IH _ _ _ eq_refl) as (A & B & C).
    destruct (fix_filter_spec _ _ _ _ _ Ef) as (F1 & F2 & F3 & _).
    unfold block_refs in *. cbn [flat_map bd_flt]. subst d1 ds'.
    split; [reflexivity|]. split; [rewrite F2, B; reflexivity|]. constructor; [exact F3|exact C].
Qed.

(* everything one pass establishes about one integration, [igs] being the
   configuration the references are resolved in *)
Definition filters_resolved (igs : list integ) (g : integ) : Prop :=
  Forall (fun i => ref_resolved igs (i_flt i)) (all_inputs (ig_inputs g))
  /\ Forall (fun b => ref_resolved igs (bd_flt b)) (ig_block g).

Lemma fix_ig_spec : forall igs0 g g' a,
  fix_ig igs0 g = Some (g', a) ->
  deps_rel g g' /\ ig_table g' = ig_table g /\ filters_resolved igs0 g'.
Proof.
  intros igs0 g g' a H. unfold fix_ig in H.
  destruct (fix_inputs igs0 (ig_inputs g)) as [[[ins d1] a1]|] eqn:Ei; [|discriminate].
  destruct (fix_block igs0 (ig_block g)) as [[[bl d2] a2]|] eqn:Eb; [|discriminate].
  inversion H; subst g' a.
  destruct (fix_inputs_spec _ _ _ _ _ Ei) as (A1 & A2 & A3).
  destruct (fix_block_spec _ _ _ _ _ Eb) as (B1 & B2 & B3).
  unfold deps_rel, declared_refs, filters_resolved. cbn [ig_name ig_deps ig_inputs ig_block ig_table].
  subst d1 d2. rewrite A2, B2. repeat split; try reflexivity; assumption.
Qed.

Lemma fix_igs_spec : forall igs0 l l' a,
  fix_igs igs0 l = Some (l', a) ->
  Forall2 (fun g g' => deps_rel g g' /\ ig_table g' = ig_table g /\ filters_resolved igs0 g') l l'.
Proof.
  intros igs0 l. induction l as [|g r IH]; intros l' a H; cbn [fix_igs] in H.
  - inversion H; subst. constructor.
  - destruct (fix_ig igs0 g) as [[g' a1]|] eqn:Eg; [|discriminate].
    destruct (fix_igs igs0 r) as [[r' a2]|] eqn:Er; [|discriminate].
    inversion H; subst l' a. constructor; [exact (fix_ig_spec _ _ _ _ Eg)|exact (IH _ _ eq_refl)].
Qed.

(* the index requests touch Table.Index only *)
Lemma apply_adds_spec : forall adds l k,
  Forall2 (fun g g' => ig_name g' = ig_name g /\ ig_deps g' = ig_deps g /\ ig_inputs g' = ig_inputs g
                       /\ ig_block g' = ig_block g /\ t_name (ig_table g') = t_name (ig_table g)
                       /\ t_cols (ig_table g') = t_cols (ig_table g))
          l (apply_adds adds k l).
Proof.
  intros adds l. induction l as [|g r IH]; intros k; cbn [apply_adds]; constructor; [|apply IH].
  repeat split; reflexivity.
Qed.

Lemma Forall2_compose : forall {A} (P Q R : A -> A -> Prop) l1 l2 l3,
  (forall a b c, P a b -> Q b c -> R a c) -> Forall2 P l1 l2 -> Forall2 Q l2 l3 -> Forall2 R l1 l3.
Proof.
  intros A P Q R l1 l2 l3 HR H. revert l3. induction H as [|a b l1 l2 Hab _ IH]; intros l3 H3.
  - inversion H3; subst. constructor.
  - inversion H3 as [|? c ? l3' Hbc H3']; subst. constructor; [exact (HR _ _ _ Hab Hbc)|exact (IH _ H3')].
Qed.

Lemma Forall2_weaken : forall {A B} (P Q : A -> B -> Prop) l l',
  (forall a b, P a b -> Q a b) -> Forall2 P l l' -> Forall2 Q l l'.
Proof. intros A B P Q l l' HPQ H. induction H; constructor; auto. Qed.

Lemma Forall2_in_r : forall {A B} (P : A -> B -> Prop) l l' b,
  Forall2 P l l' -> In b l' -> exists a, In a l /\ P a b.
Proof.
  intros A B P l l' b H. induction H as [|x y l l' Hxy _ IH]; intros Hin; [destruct Hin|].
  destruct Hin as [E|Hin]; [subst y; exists x; split; [left; reflexivity|exact Hxy]|].
  destruct (IH Hin) as (a & Ha & HP). exists a. split; [right; exact Ha|exact HP].
Qed.

Definition vfr_rel (igs0 : list integ) (g g' : integ) : Prop :=
  deps_rel g g' /\ shape_rel g g' /\ filters_resolved igs0 g'.

Lemma validate_filter_refs_spec : forall igs0 igs1,
  validate_filter_refs igs0 = Some igs1 -> Forall2 (vfr_rel igs0) igs0 igs1.
Proof.
  intros igs0 igs1 H. unfold validate_filter_refs in H.
  destruct (fix_igs igs0 igs0) as [[l adds]|] eqn:E; [|discriminate]. inversion H; subst igs1.
  eapply Forall2_compose; [|exact (fix_igs_spec _ _ _ _ E)|exact (apply_adds_spec adds l 0)].
  intros a b c0 Hab Hbc. cbn beta in Hab, Hbc.
  destruct Hab as ((D1 & D2 & D3) & Ht & (R1 & R2)). destruct Hbc as (N1 & N2 & N3 & N4 & N5 & N6).
  unfold vfr_rel, deps_rel, shape_rel, filters_resolved, declared_refs, col_names in *.
  rewrite N1, N2, N3, N4, N5, N6, Ht. repeat split; try assumption; try reflexivity. apply incl_refl.
Qed.

(* ================= ValidateFix: the second loop ================= *)
(* what fix_one keeps: name, dependencies, inputs, table name; block fields
   and columns are only extended, the new block fields carry no filter *)
Definition keeps (g g' : integ) : Prop :=
  ig_name g' = ig_name g /\ ig_deps g' = ig_deps g /\ ig_inputs g' = ig_inputs g
  /\ t_name (ig_table g') = t_name (ig_table g)
  /\ incl (col_names (ig_table g)) (col_names (ig_table g'))
  /\ exists ex, ig_block g' = ig_block g ++ ex /\ Forall (fun b => bd_flt b = no_filter) ex.

Lemma keeps_refl : forall g, keeps g g.
Proof.
  intros g. repeat split; try reflexivity; [apply incl_refl|]. exists []. split; [symmetry; apply app_nil_r|constructor].
Qed.
Lemma keeps_trans : forall a b c, keeps a b -> keeps b c -> keeps a c.
Proof.
  intros a b c (A1 & A2 & A3 & A4 & A5 & (e1 & A6 & A7)) (B1 & B2 & B3 & B4 & B5 & (e2 & B6 & B7)).
  repeat split; try congruence; [eapply incl_tran; eassumption|].
  exists (e1 ++ e2). split; [rewrite B6, A6, app_assoc; reflexivity|apply Forall_app; split; assumption].
Qed.

Lemma add_field_keeps : forall n t g, keeps g (add_field n t g).
Proof.
  intros n t g. unfold add_field, keeps, col_names. cbn [ig_name ig_deps ig_inputs ig_table ig_block t_name t_cols].
  repeat split; try reflexivity.
  - destruct (has_col n (ig_table g)); [apply incl_refl|]. rewrite map_app. apply incl_appl, incl_refl.
  - destruct (has_bd n g).
    + exists []. split; [symmetry; apply app_nil_r|constructor].
    + eexists. split; [reflexivity|]. constructor; [reflexivity|constructor].
Qed.

Lemma add_required_fields_keeps : forall req g, keeps g (add_required_fields req g).
Proof.
  unfold add_required_fields. intros req. induction req as [|[[gd n] t] r IH]; intros g; cbn [fold_left].
  - apply keeps_refl.
  - eapply keeps_trans; [|apply IH]. destruct (guard_holds gd g); [apply add_field_keeps|apply keeps_refl].
Qed.

Lemma fix_one_keeps : forall G g g', fix_one G g = Some g' -> keeps g g'.
Proof.
  intros G g g' H. unfold fix_one in H.
  destruct (negb _); [discriminate|]. destruct (validate_col_refs _); [|discriminate]. inversion H; subst g'; clear H.
  set (a := if is_nil (ig_agg g) then s_or else ig_agg g).
  eapply keeps_trans; [|eapply keeps_trans; [apply (add_required_fields_keeps (g_required G) (with_agg g a))|]].
  - unfold with_agg, keeps, col_names. cbn. repeat split; try reflexivity; [apply incl_refl|].
    exists []. split; [symmetry; apply app_nil_r|constructor].
  - set (g1 := add_required_fields (g_required G) (with_agg g a)).
    unfold with_table, keeps, col_names. cbn [ig_name ig_deps ig_inputs ig_table ig_block].
    assert (E : t_name (add_unique_index (g_possible G) (ig_table g1)) = t_name (ig_table g1)
                /\ t_cols (add_unique_index (g_possible G) (ig_table g1)) = t_cols (ig_table g1)).
    { unfold add_unique_index. cbv zeta. destruct (negb (is_nil (t_unique (ig_table g1)))); [split; reflexivity|].
      destruct (is_nil (filter _ _)); split; reflexivity. }
    destruct E as [E1 E2]. rewrite E1, E2. repeat split; try reflexivity; [apply incl_refl|].
    exists []. split; [symmetry; apply app_nil_r|constructor].
Qed.

Lemma fix_all_keeps : forall G l l', fix_all G l = Some l' -> Forall2 keeps l l'.
Proof.
  intros G l. induction l as [|g r IH]; intros l' H; cbn [fix_all] in H.
  - inversion H; subst. constructor.
  - destruct (fix_one G g) as [g'|] eqn:Eg; [|discriminate].
    destruct (fix_all G r) as [r'|] eqn:Er; [|discriminate]. inversion H; subst l'.
    constructor; [exact (fix_one_keeps _ _ _ Eg)|exact (IH _ eq_refl)].
Qed.

Lemma block_refs_app : forall a b, block_refs (a ++ b) = block_refs a ++ block_refs b.
Proof. intros a b. unfold block_refs. apply flat_map_app. Qed.
Lemma block_refs_nofilter : forall ex, Forall (fun b => bd_flt b = no_filter) ex -> block_refs ex = [].
Proof.
  intros ex H. induction H as [|b r Hb _ IH]; [reflexivity|].
  unfold block_refs in *. cbn [flat_map]. rewrite IH, Hb. reflexivity.
Qed.

Lemma keeps_declared_refs : forall g g', keeps g g' -> declared_refs g' = declared_refs g.
Proof.
  intros g g' (_ & _ & Hi & _ & _ & (ex & Hb & Hex)). unfold declared_refs.
  rewrite Hi, Hb, block_refs_app, (block_refs_nofilter _ Hex), app_nil_r. reflexivity.
Qed.

Lemma ref_resolved_nofilter : forall igs, ref_resolved igs no_filter.
Proof. intros igs. unfold ref_resolved. cbn. split; reflexivity. Qed.

Lemma keeps_resolved : forall igs g g', keeps g g' -> filters_resolved igs g -> filters_resolved igs g'.
Proof.
  intros igs g g' (_ & _ & Hi & _ & _ & (ex & Hb & Hex)) (R1 & R2). unfold filters_resolved.
  rewrite Hi, Hb. split; [exact R1|]. apply Forall_app. split; [exact R2|].
  eapply Forall_impl; [|exact Hex]. intros b E. cbn beta in E. rewrite E. apply ref_resolved_nofilter.
Qed.

(* the whole pass, position by position: [g] as written, [g'] as validated *)
Definition vf_rel (igs' : list integ) (g g' : integ) : Prop :=
  deps_rel g g' /\ shape_rel g g' /\ filters_resolved igs' g'.

Lemma validate_fix_spec : forall U G c c',
  validate_fix U G c = Some c' -> Forall2 (vf_rel (integs c')) (integs c) (integs c').
Proof.
  intros U G c c' H. unfold validate_fix in H.
  destruct (negb _); [discriminate|].
  destruct (validate_filter_refs (integs c)) as [igs1|] eqn:E1; [|discriminate].
  destruct (fix_all G igs1) as [igs2|] eqn:E2; [|discriminate]. inversion H; subst c'. cbn [integs].
  pose proof (validate_filter_refs_spec _ _ E1) as H1. pose proof (fix_all_keeps _ _ _ E2) as H2.
  (* shapes from the input to the output *)
  assert (S02 : Forall2 shape_rel (integs c) igs2).
  { eapply Forall2_compose; [|exact H1|exact H2]. intros a b c0 Hab Hbc.
    destruct Hab as (_ & S & _). destruct Hbc as (K1 & _ & _ & K4 & K5 & _).
    eapply shape_rel_trans; [exact S|]. split; [exact K1|]. split; [exact K4|exact K5]. }
  eapply Forall2_compose; [|exact H1|exact H2]. intros a b c0 Hab Hbc.
  destruct Hab as ((D1 & D2 & D3) & S & R). pose proof Hbc as (K1 & K2 & K3 & K4 & K5 & K6).
  split; [|split].
  - split; [congruence|]. split; [congruence|]. rewrite (keeps_declared_refs _ _ Hbc). exact D3.
  - eapply shape_rel_trans; [exact S|]. split; [exact K1|]. split; [exact K4|exact K5].
  - apply (keeps_resolved _ _ _ Hbc). destruct R as [R1 R2]. split.
    + eapply Forall_impl; [|exact R1]. intros i0. apply ref_resolved_shape. exact S02.
    + eapply Forall_impl; [|exact R2]. intros b0. apply ref_resolved_shape. exact S02.
Qed.

(* ================= (2) Dependencies = declared references ================= *)
Lemma ref_name_in : forall f R, In R (ref_name f) -> is_nil (r_ig (f_ref f)) = false /\ r_ig (f_ref f) = R.
Proof.
  intros f R H. unfold ref_name in H. destruct (is_nil (r_ig (f_ref f))); [destruct H|].
  destruct H as [H|[]]. split; [reflexivity|exact H].
Qed.

(* a declared reference comes from the filter of an input (component at any depth) or of a block field *)
Lemma declared_ref_filter : forall g R, In R (declared_refs g) ->
  exists f, ((exists i, In i (all_inputs (ig_inputs g)) /\ f = i_flt i) \/ (exists b, In b (ig_block g) /\ f = bd_flt b))
            /\ is_nil (r_ig (f_ref f)) = false /\ r_ig (f_ref f) = R.
Proof.
  intros g R H. unfold declared_refs, input_refs, block_refs in H. apply in_app_or in H.
  destruct H as [H|H]; apply in_flat_map in H; destruct H as (x & Hx & HR); apply ref_name_in in HR.
  - exists (i_flt x). split; [left; exists x; split; [exact Hx|reflexivity]|exact HR].
  - exists (bd_flt x). split; [right; exists x; split; [exact Hx|reflexivity]|exact HR].
Qed.

Lemma resolved_filter_of : forall igs g f, filters_resolved igs g ->
  ((exists i, In i (all_inputs (ig_inputs g)) /\ f = i_flt i) \/ (exists b, In b (ig_block g) /\ f = bd_flt b)) ->
  ref_resolved igs f.
Proof.
  intros igs g f (R1 & R2) [(i & Hi & ->)|(b & Hb & ->)].
  - rewrite Forall_forall in R1. exact (R1 _ Hi).
  - rewrite Forall_forall in R2. exact (R2 _ Hb).
Qed.

Lemma ref_table_of_some : forall igs R t, ref_table_of igs R = Some t ->
  exists k, In k igs /\ ig_name k = R /\ t_name (ig_table k) = t.
Proof.
  intros igs R t H. unfold ref_table_of in H. destruct (find_last_ig R igs) as [k|] eqn:E; [|discriminate].
  inversion H; subst t. destruct (find_last_ig_spec _ _ _ E) as (_ & Hn & Hin).
  exists (nth k igs dummy_ig). split; [exact Hin|]. split; [exact Hn|reflexivity].
Qed.

(* every declared reference of an integration whose filters are resolved in
   [igs] names an integration of [igs] *)
Lemma declared_refs_configured : forall igs g R, filters_resolved igs g -> In R (declared_refs g) ->
  exists k t, In k igs /\ ig_name k = R /\ ref_table_of igs R = Some t /\ t_name (ig_table k) = t.
Proof.
  intros igs g R Hres HR. destruct (declared_ref_filter _ _ HR) as (f & Hf & Hn & <-).
  pose proof (resolved_filter_of _ _ _ Hres Hf) as Hr. unfold ref_resolved in Hr. rewrite Hn in Hr.
  destruct Hr as (Ht & _ & _). destruct (ref_table_of_some _ _ _ Ht) as (k & A & B & C).
  exists k, (r_table (f_ref f)). repeat split; assumption.
Qed.

Lemma vf_rel_deps : forall igs' l l', Forall2 (vf_rel igs') l l' -> Forall2 deps_rel l l'.
Proof. intros igs' l l'. apply Forall2_weaken. intros a b (D & _). exact D. Qed.

Lemma dependencies_are_declared_refs_l : forall U G c c',
  validate_fix U G c = Some c' ->
  Forall2 deps_rel (integs c) (integs c')
  /\ (user_deps_empty c -> forall g', In g' (integs c') -> ig_deps g' = declared_refs g')
  /\ (forall g' R, In g' (integs c') -> In R (declared_refs g') ->
        In R (ig_deps g')
        /\ exists k t, In k (integs c') /\ ig_name k = R
                       /\ ref_table_of (integs c') R = Some t /\ t_name (ig_table k) = t).
Proof.
  intros U G c c' H. pose proof (validate_fix_spec _ _ _ _ H) as HS. split; [exact (vf_rel_deps _ _ _ HS)|]. split.
  - intros He g' Hin. destruct (Forall2_in_r _ _ _ _ HS Hin) as (g & Hg & (_ & D2 & D3) & _).
    unfold user_deps_empty in He. rewrite Forall_forall in He. rewrite D2, (He _ Hg), D3. reflexivity.
  - intros g' R Hin HR. destruct (Forall2_in_r _ _ _ _ HS Hin) as (g & Hg & (_ & D2 & D3) & _ & Hres).
    split; [rewrite D2; apply in_or_app; right; rewrite <- D3; exact HR|].
    exact (declared_refs_configured _ _ _ Hres HR).
Qed.

(* the same for ValidateFilterRefs alone (its output is not yet the
   configuration the tasks run on: AddRequiredFields etc. follow) *)
Lemma validate_filter_refs_deps_l : forall igs0 igs1,
  validate_filter_refs igs0 = Some igs1 ->
  Forall2 deps_rel igs0 igs1
  /\ forall g' R, In g' igs1 -> In R (declared_refs g') -> exists k, In k igs1 /\ ig_name k = R.
Proof.
  intros igs0 igs1 H. pose proof (validate_filter_refs_spec _ _ H) as HS. split.
  - eapply Forall2_weaken; [|exact HS]. intros a b (D & _). exact D.
  - intros g' R Hin HR. destruct (Forall2_in_r _ _ _ _ HS Hin) as (g & _ & _ & _ & Hres).
    assert (S01 : Forall2 shape_rel igs0 igs1).
    { eapply Forall2_weaken; [|exact HS]. intros a b (_ & S & _). exact S. }
    assert (Hres' : filters_resolved igs1 g').
    { destruct Hres as [R1 R2]. split; (eapply Forall_impl; [|eassumption]); intros x; apply ref_resolved_shape; exact S01. }
    destruct (declared_refs_configured _ _ _ Hres' HR) as (k & _ & A & B & _). exists k. split; assumption.
Qed.

(* ---- the premises are needed / observations about the code ---- *)
Lemma ex_dependencies_l :
  option_map (fun c' => map ig_deps (integs c')) (validate_fix U_ascii ex_G ex_root)
  = Some [[]; [s2r "a"]; []; [s2r "c"]]
  /\ option_map (map ig_deps) (validate_filter_refs (integs ex_root)) = Some [[]; [s2r "a"]; []; [s2r "c"]]
  /\ map declared_refs (integs ex_root) = [[]; [s2r "a"]; []; [s2r "c"]]
  /\ ex_aliased_deps <> map declared_refs (integs ex_root).
Proof. vm_compute. repeat split; try reflexivity. intros H; discriminate H. Qed.

(* the error cases: unknown integration, table without integration, missing
   column, undeclared column are refused; a table given together with an
   integration is overwritten by the integration's table *)
Lemma ex_refused_l :
  validate_filter_refs (integs (ex_root_with ex_r_unknown)) = None
  /\ validate_filter_refs (integs (ex_root_with ex_r_usertable)) = None
  /\ validate_filter_refs (integs (ex_root_with ex_r_nocol)) = None
  /\ validate_filter_refs (integs (ex_root_with ex_r_badcol)) = None
  /\ option_map (map (fun g => (ig_deps g, map (fun i => r_table (f_ref (i_flt i))) (ig_inputs g))))
                (validate_filter_refs (integs (ex_root_with ex_r_overwritten)))
     = Some [([], [[]]); ([s2r "a"], [s2r "ta"])].
Proof. vm_compute. repeat split; reflexivity. Qed.

(* ValidateFix accepts an integration whose filter references its own table;
   Dependencies then contains the integration itself *)
Lemma self_reference_accepted_l :
  option_map (fun c' => map (fun g => (ig_name g, ig_deps g)) (integs c')) (validate_fix U_ascii ex_G ex_self_root)
  = Some [(s2r "s", [s2r "s"])].
Proof. vm_compute. reflexivity. Qed.

(* a "dependencies" key of the configuration file survives validation *)
Lemma user_supplied_dependencies_kept_l :
  option_map (fun c' => map ig_deps (integs c')) (validate_fix U_ascii ex_G ex_userdeps_root)
  = Some [[]; [s2r "ghost"; s2r "a"]]
  /\ map declared_refs (integs ex_userdeps_root) = [[]; [s2r "a"]].
Proof. vm_compute. split; reflexivity. Qed.

(* ================= (4) reference lookups ================= *)
(* ---- configuration level: the statements of Sql.accepts_of ---- *)
Lemma map_flat_map : forall {A B C} (f : B -> C) (g : A -> list B) l,
  map f (flat_map g l) = flat_map (fun x => map f (g x)) l.
Proof. intros A B C f g l. induction l as [|x r IH]; [reflexivity|]. cbn [flat_map]. rewrite map_app, IH. reflexivity. Qed.

Lemma accept_sql_lookup : forall pt pc f, Sql.accept_sql pt pc f = map (lookup_stmt pt pc) (cf_lookup f).
Proof.
  intros pt pc f. unfold Sql.accept_sql, cf_lookup.
  destruct (is_nil (f_arg f) && is_nil (r_ig (f_ref f))); [reflexivity|].
  destruct (has_suffix Sql.s_contains (f_op f) && negb (is_nil (r_table (f_ref f)))); reflexivity.
Qed.

Lemma accepts_of_are_cfg_lookups_l : forall g,
  Sql.accepts_of g
  = map (lookup_stmt Sql.P_irt Sql.P_irc) (input_lookups (selected (ig_inputs g)))
    ++ map (lookup_stmt Sql.P_brt Sql.P_brc) (block_lookups (ig_block g)).
Proof.
  intros g. unfold Sql.accepts_of, input_lookups, block_lookups. rewrite !map_flat_map. f_equal.
  - apply flat_map_ext. intros i. apply accept_sql_lookup.
  - apply flat_map_ext. intros b. apply accept_sql_lookup.
Qed.

Lemma resolved_lookup : forall igs f t col, ref_resolved igs f -> In (t, col) (cf_lookup f) ->
  In (r_ig (f_ref f)) (ref_name f) /\ ref_table_of igs (r_ig (f_ref f)) = Some t
  /\ mem col (cols_of_table igs t) = true.
Proof.
  intros igs f t col Hr Hin. unfold ref_resolved in Hr. unfold cf_lookup in Hin. unfold ref_name.
  destruct (is_nil (r_ig (f_ref f))) eqn:En.
  - destruct Hr as [Ht _]. rewrite Ht in Hin. cbn [is_nil negb] in Hin. rewrite andb_false_r in Hin.
    destruct (is_nil (f_arg f) && true); destruct Hin.
  - rewrite andb_false_r in Hin. destruct (has_suffix Sql.s_contains (f_op f) && negb (is_nil (r_table (f_ref f))));
      [|destruct Hin].
    destruct Hin as [E|[]]. inversion E; subst t col. destruct Hr as (A & _ & C).
    split; [left; reflexivity|]. split; [exact A|exact C].
Qed.

Lemma all_inputs_flat : forall l, forallb (fun i => is_nil (i_comps i)) l = true -> all_inputs l = l.
Proof.
  induction l as [|[ix n c f cs] r IH]; intros H; [reflexivity|]. cbn [forallb i_comps] in H.
  apply andb_prop in H. destruct H as [Hc Hr]. destruct cs; [|discriminate].
  unfold all_inputs in *. cbn [flat_map flat_input app]. rewrite (IH Hr). reflexivity.
Qed.

(* a lookup of an integration with resolved filters and no components goes to
   the table of a declared reference *)
Lemma lookups_of_resolved : forall igs g t col,
  filters_resolved igs g -> flat g = true -> In (t, col) (cfg_lookups g) ->
  exists R, In R (declared_refs g) /\ ref_table_of igs R = Some t /\ mem col (cols_of_table igs t) = true.
Proof.
  intros igs g t col (R1 & R2) Hflat Hin. unfold cfg_lookups, input_lookups, block_lookups in Hin.
  apply in_app_or in Hin. destruct Hin as [Hin|Hin]; apply in_flat_map in Hin; destruct Hin as (x & Hx & Hl).
  - apply selected_sub in Hx.
    rewrite Forall_forall in R1. destruct (resolved_lookup _ _ _ _ (R1 _ Hx) Hl) as (A & B & C).
    exists (r_ig (f_ref (i_flt x))). split; [|split; assumption].
    unfold declared_refs, input_refs. apply in_or_app. left. apply in_flat_map. exists x. split; assumption.
  - rewrite Forall_forall in R2. destruct (resolved_lookup _ _ _ _ (R2 _ Hx) Hl) as (A & B & C).
    exists (r_ig (f_ref (bd_flt x))). split; [|split; assumption].
    unfold declared_refs, block_refs. apply in_or_app. right. apply in_flat_map. exists x. split; assumption.
Qed.

Lemma validated_resolved : forall U G c c' g, validate_fix U G c = Some c' -> In g (integs c') ->
  filters_resolved (integs c') g /\ forall R, In R (declared_refs g) -> In R (ig_deps g).
Proof.
  intros U G c c' g H Hin. pose proof (validate_fix_spec _ _ _ _ H) as HS.
  destruct (Forall2_in_r _ _ _ _ HS Hin) as (g0 & _ & (_ & D2 & D3) & _ & Hres). split; [exact Hres|].
  intros R HR. rewrite D2. apply in_or_app. right. rewrite <- D3. exact HR.
Qed.

Lemma cfg_lookups_only_in_dependencies_l : forall U G c c' g,
  validate_fix U G c = Some c' -> In g (integs c') -> flat g = true ->
  forall t col, In (t, col) (cfg_lookups g) ->
    exists R, In R (declared_refs g) /\ In R (ig_deps g)
              /\ ref_table_of (integs c') R = Some t /\ mem col (cols_of_table (integs c') t) = true.
Proof.
  intros U G c c' g H Hin Hflat t col Hl. destruct (validated_resolved _ _ _ _ _ H Hin) as [Hres Hd].
  destruct (lookups_of_resolved _ _ _ _ Hres Hflat Hl) as (R & A & B & C).
  exists R. split; [exact A|]. split; [exact (Hd _ A)|]. split; assumption.
Qed.

(* BEFORE the repair (legacy_validate_fix): a filter_ref on a component was
   accepted, no dependency recorded, the lookup issued -- with the
   user-supplied table *)
Lemma legacy_nested_ref_escapes_l :
  match legacy_validate_fix U_ascii ex_G ex_nested_root with
  | Some c' =>
      map (fun g => (ig_deps g, legacy_declared_refs g, declared_refs_deep g, cfg_lookups g)) (integs c')
      = [([], [], [], []); ([], [], [s2r "a"], [(s2r "ta", s2r "addr")])]
  | None => False
  end.
Proof. vm_compute. reflexivity. Qed.

(* AFTER the repair the component's reference is validated like a top-level
   one: the dependency is recorded *)
Lemma nested_ref_validated_l :
  match validate_fix U_ascii ex_G ex_nested_root with
  | Some c' =>
      map (fun g => (ig_deps g, declared_refs g, cfg_lookups g)) (integs c')
      = [([], [], []); ([s2r "a"], [s2r "a"], [(s2r "ta", s2r "addr")])]
  | None => False
  end.
Proof. vm_compute. reflexivity. Qed.

(* ---- row-builder level ---- *)
Lemma has_prefix_same : forall p s, Filter.has_prefix p s = has_prefix p s.
Proof.
  induction p as [|a p IH]; intros s; [reflexivity|]. destruct s as [|b s]; [reflexivity|].
  cbn [Filter.has_prefix has_prefix]. rewrite IH. reflexivity.
Qed.
Lemma is_nil_same : forall {A} (l : list A), Filter.is_nil l = is_nil l.
Proof. intros A l. destruct l; reflexivity. Qed.

Lemma flt_lookup_of : forall f, flt_lookup (flt_of f) = cf_lookup f.
Proof.
  intros f. unfold flt_lookup, cf_lookup, flt_of, Filter.has_suffix, has_suffix.
  cbn [Filter.f_args Filter.f_ref_ig Filter.f_op Filter.f_ref_table Filter.f_ref_col].
  rewrite !is_nil_same, has_prefix_same. reflexivity.
Qed.

Lemma flt_lookup_nofilter : flt_lookup Filter.no_filter = [].
Proof. reflexivity. Qed.

Lemma input_coldefs_lookups : forall cols ins n tc,
  In tc (flat_map cd_lookups (Rows.input_coldefs cols ins n)) ->
  exists ri, In ri ins /\ In tc (flt_lookup (Rows.i_filter ri)).
Proof.
  intros cols ins. induction ins as [|i r IH]; intros n tc H; cbn [Rows.input_coldefs] in H; [destruct H|].
  destruct (Rows.selected i).
  - cbn [flat_map] in H. apply in_app_or in H. destruct H as [H|H].
    + unfold cd_lookups in H. cbn [Rows.cd_input Rows.cd_bd] in H. apply in_app_or in H. destruct H as [H|H].
      * exists i. split; [left; reflexivity|exact H].
      * destruct H.
    + destruct (IH _ _ H) as (ri & A & B). exists ri. split; [right; exact A|exact B].
  - destruct (IH _ _ H) as (ri & A & B). exists ri. split; [right; exact A|exact B].
Qed.

Lemma bd_coldefs_lookups : forall cols bl tc,
  In tc (flat_map cd_lookups (map (Rows.bd_coldef cols) bl)) ->
  exists rb, In rb bl /\ In tc (flt_lookup (Rows.bd_filter rb)).
Proof.
  intros cols bl. induction bl as [|b r IH]; intros tc H; [destruct H|].
  cbn [map flat_map] in H. apply in_app_or in H. destruct H as [H|H].
  - unfold cd_lookups in H. cbn [Rows.bd_coldef Rows.cd_input Rows.cd_bd] in H. apply in_app_or in H.
    destruct H as [H|H]; [destruct H|]. exists b. split; [left; reflexivity|exact H].
  - destruct (IH _ H) as (rb & A & B). exists rb. split; [right; exact A|exact B].
Qed.

(* whatever Rows.insert can read of [dbs] for d is a reference query of g *)
Lemma consulted_sub : forall g d tc, same_filters g d -> In tc (consulted d) ->
  (exists i, In i (ig_inputs g) /\ In tc (cf_lookup (i_flt i)))
  \/ (exists b, In b (ig_block g) /\ In tc (cf_lookup (bd_flt b))).
Proof.
  intros g d tc (_ & Hi & Hb) H. unfold consulted, Rows.coldefs in H. rewrite flat_map_app in H.
  apply in_app_or in H. destruct H as [H|H].
  - destruct (input_coldefs_lookups _ _ _ _ H) as (ri & A & B).
    destruct (Forall2_in_r _ _ _ _ Hi A) as (ci & Hci & E). cbn beta in E. rewrite E, flt_lookup_of in B.
    left. exists ci. split; assumption.
  - destruct (bd_coldefs_lookups _ _ _ H) as (rb & A & B).
    destruct (Forall2_in_r _ _ _ _ Hb A) as (cb & Hcb & E). cbn beta in E. rewrite E, flt_lookup_of in B.
    right. exists cb. split; assumption.
Qed.

Lemma consulted_of_resolved : forall igs g d t col,
  filters_resolved igs g -> same_filters g d -> In (t, col) (consulted d) ->
  exists R, In R (declared_refs g) /\ ref_table_of igs R = Some t /\ mem col (cols_of_table igs t) = true.
Proof.
  intros igs g d t col (R1 & R2) Hs Hin. destruct (consulted_sub _ _ _ Hs Hin) as [(x & Hx & Hl)|(x & Hx & Hl)].
  - apply top_in_all in Hx. rewrite Forall_forall in R1. destruct (resolved_lookup _ _ _ _ (R1 _ Hx) Hl) as (A & B & C).
    exists (r_ig (f_ref (i_flt x))). split; [|split; assumption].
    unfold declared_refs, input_refs. apply in_or_app. left. apply in_flat_map. exists x. split; assumption.
  - rewrite Forall_forall in R2. destruct (resolved_lookup _ _ _ _ (R2 _ Hx) Hl) as (A & B & C).
    exists (r_ig (f_ref (bd_flt x))). split; [|split; assumption].
    unfold declared_refs, block_refs. apply in_or_app. right. apply in_flat_map. exists x. split; assumption.
Qed.

(* Rows.insert reads [dbs] only at [consulted d] *)
Lemma bind_ext : forall {A B} (o : outcome A) (f g : A -> outcome B), (forall a, f a = g a) -> bind o f = bind o g.
Proof. intros A B o f g H. destruct o; cbn [bind]; [apply H|reflexivity|reflexivity]. Qed.

Lemma accept_agree : forall is_and d1 d2 f v fr,
  agree_on (flt_lookup f) d1 d2 -> Filter.accept is_and d1 f v fr = Filter.accept is_and d2 f v fr.
Proof.
  intros is_and d1 d2 f v fr H. unfold agree_on, flt_lookup in H. unfold Filter.accept.
  destruct (Filter.is_nil (Filter.f_args f) && Filter.is_nil (Filter.f_ref_ig f)); [reflexivity|].
  destruct v; try reflexivity.
  destruct (Filter.has_suffix (Filter.s2b "contains") (Filter.f_op f)); [|reflexivity]. cbn [andb] in H.
  destruct (negb (Filter.is_nil (Filter.f_ref_table f))); [|reflexivity].
  rewrite (H _ _ (or_introl eq_refl)). reflexivity.
Qed.

Lemma agree_on_app : forall a b d1 d2, agree_on (a ++ b) d1 d2 -> agree_on a d1 d2 /\ agree_on b d1 d2.
Proof.
  intros a b d1 d2 H. split; intros t c Hin; apply H; apply in_or_app; [left|right]; exact Hin.
Qed.

Lemma data_cells_agree : forall vr is_and d1 d2 e topics srow i cds,
  agree_on (flat_map cd_lookups cds) d1 d2 ->
  forall ictr actr fr,
    Rows.data_cells vr is_and d1 e topics srow i cds ictr actr fr
    = Rows.data_cells vr is_and d2 e topics srow i cds ictr actr fr.
Proof.
  intros vr is_and d1 d2 e topics srow i cds. induction cds as [|cd rest IH]; intros H ictr actr fr; [reflexivity|].
  cbn [flat_map] in H. apply agree_on_app in H. destruct H as [Hcd Hrest]. specialize (IH Hrest).
  unfold cd_lookups in Hcd. apply agree_on_app in Hcd. destruct Hcd as [Hi Hb].
  cbn [Rows.data_cells].
  destruct (Rows.i_indexed (Rows.cd_input cd)).
  - destruct (nth_error topics _); [|reflexivity]. rewrite (accept_agree _ d1 d2 _ _ _ Hi).
    apply bind_ext. intros fr'. rewrite IH. reflexivity.
  - destruct (Rows.cd_is_bd cd).
    + destruct (Rows.fld _ _).
      * rewrite IH. reflexivity.
      * apply bind_ext. intros v. rewrite (accept_agree _ d1 d2 _ _ _ Hb). apply bind_ext. intros fr'.
        rewrite IH. reflexivity.
    + destruct (nth_error srow actr); [|reflexivity]. rewrite (accept_agree _ d1 d2 _ _ _ Hi).
      apply bind_ext. intros fr'. rewrite IH. reflexivity.
Qed.

Lemma nodata_cells_agree : forall vr is_and d1 d2 e topics cds,
  agree_on (flat_map cd_lookups cds) d1 d2 ->
  forall j fr, Rows.nodata_cells vr is_and d1 e topics cds j fr = Rows.nodata_cells vr is_and d2 e topics cds j fr.
Proof.
  intros vr is_and d1 d2 e topics cds. induction cds as [|cd rest IH]; intros H j fr; [reflexivity|].
  cbn [flat_map] in H. apply agree_on_app in H. destruct H as [Hcd Hrest]. specialize (IH Hrest).
  unfold cd_lookups in Hcd. apply agree_on_app in Hcd. destruct Hcd as [Hi Hb].
  cbn [Rows.nodata_cells].
  destruct (Rows.i_indexed (Rows.cd_input cd)).
  - destruct (nth_error topics _); [|reflexivity]. rewrite (accept_agree _ d1 d2 _ _ _ Hi).
    apply bind_ext. intros fr'. rewrite IH. reflexivity.
  - destruct (Rows.cd_is_bd cd); [|reflexivity].
    apply bind_ext. intros v. rewrite (accept_agree _ d1 d2 _ _ _ Hb). apply bind_ext. intros fr'.
    rewrite IH. reflexivity.
Qed.

Lemma tx_cells_agree : forall is_and d1 d2 e cds,
  agree_on (flat_map cd_lookups cds) d1 d2 ->
  forall fr, Rows.tx_cells is_and d1 e cds fr = Rows.tx_cells is_and d2 e cds fr.
Proof.
  intros is_and d1 d2 e cds. induction cds as [|cd rest IH]; intros H fr; [reflexivity|].
  cbn [flat_map] in H. apply agree_on_app in H. destruct H as [Hcd Hrest]. specialize (IH Hrest).
  unfold cd_lookups in Hcd. apply agree_on_app in Hcd. destruct Hcd as [Hi Hb].
  cbn [Rows.tx_cells]. destruct (Rows.cd_is_bd cd); [|reflexivity].
  apply bind_ext. intros v. rewrite (accept_agree _ d1 d2 _ _ _ Hb). apply bind_ext. intros fr'.
  rewrite IH. reflexivity.
Qed.

Lemma concatM_i_ext : forall {A B} (f g : nat -> A -> outcome (list B)) l i,
  (forall i x, f i x = g i x) -> Rows.concatM_i f i l = Rows.concatM_i g i l.
Proof.
  intros A B f g l. induction l as [|x r IH]; intros i H; [reflexivity|].
  cbn [Rows.concatM_i]. rewrite H. apply bind_ext. intros a. rewrite (IH _ H). reflexivity.
Qed.
Lemma concatM_ext : forall {A B} (f g : A -> outcome (list B)) l,
  (forall x, f x = g x) -> Rows.concatM f l = Rows.concatM g l.
Proof. intros A B f g l H. unfold Rows.concatM. apply concatM_i_ext. intros _ x. apply H. Qed.

Lemma process_log_agree : forall vr d d1 d2 e l, agree_on (consulted d) d1 d2 ->
  Rows.process_log vr d d1 e l = Rows.process_log vr d d2 e l.
Proof.
  intros vr d d1 d2 e l H. unfold Rows.process_log, consulted in *. cbv zeta.
  destruct (negb (Rows.gate d l)); [reflexivity|]. destruct (negb (Filter.is_nil (Rows.l_data l))).
  - apply bind_ext. intros srows. apply concatM_i_ext. intros i srow.
    rewrite (data_cells_agree _ _ d1 d2 _ _ _ _ _ H). reflexivity.
  - rewrite (nodata_cells_agree _ _ d1 d2 _ _ _ H). reflexivity.
Qed.

Lemma process_tx_agree : forall d d1 d2 e, agree_on (consulted d) d1 d2 ->
  Rows.process_tx d d1 e = Rows.process_tx d d2 e.
Proof.
  intros d d1 d2 e H. unfold Rows.process_tx, consulted in *.
  destruct (Nat.ltb 0 (Rows.num_selected d)); [reflexivity|]. destruct (Nat.ltb 0 (Rows.num_bd d)); [|reflexivity].
  rewrite (tx_cells_agree _ d1 d2 _ _ H). reflexivity.
Qed.

Lemma insert_agree : forall vr d c d1 d2 blocks, agree_on (consulted d) d1 d2 ->
  Rows.insert vr d c d1 blocks = Rows.insert vr d c d2 blocks.
Proof.
  intros vr d c d1 d2 blocks H. unfold Rows.insert. destruct (Rows.indexing vr d).
  - apply concatM_ext. intros b. apply concatM_ext. intros t. apply process_tx_agree. exact H.
  - apply concatM_ext. intros b. apply concatM_ext. intros t. apply concatM_ext. intros a.
    apply process_tx_agree. exact H.
  - apply concatM_ext. intros b. apply concatM_ext. intros t. apply concatM_ext. intros l.
    apply process_log_agree. exact H.
Qed.

Lemma lookups_only_in_dependencies_l : forall U G c c' g d,
  validate_fix U G c = Some c' -> In g (integs c') -> same_filters g d ->
  (forall t col, In (t, col) (consulted d) ->
     exists R, In R (declared_refs g) /\ In R (ig_deps g)
               /\ ref_table_of (integs c') R = Some t /\ mem col (cols_of_table (integs c') t) = true)
  /\ (forall vr ctx dbs1 dbs2 blocks,
        (forall R t col, In R (ig_deps g) -> ref_table_of (integs c') R = Some t ->
                         Filter.db_lookup dbs1 t col = Filter.db_lookup dbs2 t col) ->
        Rows.insert vr d ctx dbs1 blocks = Rows.insert vr d ctx dbs2 blocks).
Proof.
  intros U G c c' g d H Hin Hs. destruct (validated_resolved _ _ _ _ _ H Hin) as [Hres Hd].
  assert (A : forall t col, In (t, col) (consulted d) ->
     exists R, In R (declared_refs g) /\ In R (ig_deps g)
               /\ ref_table_of (integs c') R = Some t /\ mem col (cols_of_table (integs c') t) = true).
  { intros t col Hl. destruct (consulted_of_resolved _ _ _ _ _ Hres Hs Hl) as (R & A & B & C).
    exists R. split; [exact A|]. split; [exact (Hd _ A)|]. split; assumption. }
  split; [exact A|]. intros vr ctx dbs1 dbs2 blocks Hagree. apply insert_agree.
  intros t col Hl. destruct (A _ _ Hl) as (R & _ & HR & Ht & _). exact (Hagree _ _ col HR Ht).
Qed.

(* the lookups are real: with the referenced table of a holding the address,
   b's row is emitted; with the table empty it is not (non-vacuity of agree) *)
Lemma ex_same_filters_l : forall tys sig g, flat g = true -> same_filters g (decl_of_cfg g tys sig).
Proof.
  intros tys sig g Hf. split; [exact Hf|]. split.
  - unfold decl_of_cfg. cbn [Rows.d_inputs]. generalize tys. induction (ig_inputs g) as [|i r IH]; intros tys0; constructor;
      [reflexivity|apply IH].
  - unfold decl_of_cfg. cbn [Rows.d_block]. induction (ig_block g) as [|b r IH]; constructor; [reflexivity|exact IH].
Qed.

Lemma ex_lookup_real_l :
  same_filters (ex_validated 1) ex_decl_b
  /\ consulted ex_decl_b = [(s2r "ta", s2r "addr")]
  /\ (exists row, Rows.insert Rows.fixed ex_decl_b ex_ctx (ex_dbs [ex_addr5]) [ex_blk] = Ok [row])
  /\ Rows.insert Rows.fixed ex_decl_b ex_ctx (ex_dbs []) [ex_blk] = Ok []
  /\ Rows.insert Rows.fixed ex_decl_b ex_ctx [] [ex_blk] = Err.
Proof.
  split; [apply ex_same_filters_l; vm_compute; reflexivity|].
  split; [vm_compute; reflexivity|]. split; [eexists; vm_compute; reflexivity|]. split; vm_compute; reflexivity.
Qed.

(* ================= (3) the task layer ================= *)
From Shovel Require Proofs.BridgeManagerTaskP Model.BridgeSystem Proofs.BridgeRowsTaskP.
Section TaskLayer.
Import Model.TaskTypes Model.TaskDb Model.Task Model.TaskNode Model.TaskSys Model.TaskSpec.

Lemma task_cfg_ok : forall enc g c, injective enc -> sizes_ok c -> task_of_integ enc g c ->
  ~ In (ig_name g) (ig_deps g) -> cfg_ok c.
Proof.
  intros enc g c Hinj (A & B & C & D & E) (Hig & Hd) Hns. unfold cfg_ok.
  split; [exact A|]. split; [exact B|]. split; [exact C|]. split; [exact D|]. split; [exact E|].
  rewrite Hig, Hd. intro Hin. apply in_map_iff in Hin. destruct Hin as (x & Ex & Hx).
  apply Hinj in Ex. subst x. exact (Hns Hx).
Qed.

Lemma map_not_nil : forall {A B} (f : A -> B) l, l <> [] -> map f l <> [].
Proof. intros A B f l H E. destruct l; [exact (H eq_refl)|discriminate E]. Qed.

Lemma validated_dependent_never_ahead_l : forall U G cf cf' enc g c,
  validate_fix U G cf = Some cf' -> user_deps_empty cf -> injective enc ->
  In g (integs cf') -> no_self_ref g -> sizes_ok c -> task_of_integ enc g c ->
  declared_refs g <> [] ->
  forall d s, TaskInv c d -> Forall unforced s -> trace_sat reply_ok (step c s d) ->
  r_out (step c s d) = Fin OConverged ->
  t_deps c = map enc (declared_refs g)
  /\ exists p q bs dn dh,
    pv c d = render c (p ++ q) /\ pv c (r_db (step c s d)) = render c (p ++ [bs]) /\ bs <> []
    /\ dep_query (t_src c) (map enc (declared_refs g)) (d_curs d) = Some (dn, dh, ndeps c)
    /\ (forall x, In x bs -> b_num x <= dn)
    /\ (forall R, In R (declared_refs g) ->
          (exists k, In k (integs cf') /\ ig_name k = R)
          /\ exists n h, newest (t_src c) (enc R) (d_curs d) = Some (n, h) /\ dn <= n).
Proof.
  intros U G cf cf' enc g c Hv He Hinj Hg Hns Hsz Ht Hne d s Hinv Hu Htr Hout.
  destruct (dependencies_are_declared_refs_l _ _ _ _ Hv) as (_ & Hd & Hk). specialize (Hd He g Hg).
  assert (Hdeps : t_deps c = map enc (declared_refs g)) by (destruct Ht as [_ Ht]; rewrite Ht, Hd; reflexivity).
  assert (Hok : cfg_ok c).
  { apply (task_cfg_ok enc g c Hinj Hsz Ht). rewrite Hd. exact Hns. }
  assert (Hn : t_deps c <> []) by (rewrite Hdeps; apply map_not_nil; exact Hne).
  destruct (C05P.dep_bounded c Hok d s Hinv Hu Htr Hn Hout) as (p & q & bs & dn & dh & A & B & C & D & E & F).
  split; [exact Hdeps|]. exists p, q, bs, dn, dh. rewrite Hdeps in D, F.
  split; [exact A|]. split; [exact B|]. split; [exact C|]. split; [exact D|]. split; [exact E|].
  intros R HR. split.
  - destruct (Hk g R Hg HR) as (_ & k & _ & K1 & K2 & _). exists k. split; assumption.
  - apply F. apply in_map. exact HR.
Qed.

Lemma sys_states_cfgs : forall sch s st, C04P.sys_ok s -> In st (sys_states sch s) ->
  map ts_cfg (s_tasks st) = map ts_cfg (s_tasks s).
Proof.
  induction sch as [|m sch IH]; intros s st Hok Hin; cbn [sys_states] in Hin.
  - destruct Hin as [<-|[]]. reflexivity.
  - destruct Hin as [<-|Hin]; [reflexivity|]. destruct (C04P.sys_step_ok s m Hok) as (A & B & _).
    rewrite (IH _ _ A Hin). exact B.
Qed.

Lemma validated_system_never_ahead_l : forall U G cf cf' enc cfgs d sch,
  validate_fix U G cf = Some cf' -> user_deps_empty cf -> injective enc ->
  tasks_of_config enc cf' cfgs ->
  Forall (fun m => unforced (snd m)) sch -> sched_ok sch (sys_init cfgs d) ->
  forall st t cur a b n k,
  In st (sys_states sch (sys_init cfgs d)) -> In t (s_tasks st) ->
  ts_prog t = Some (Op (InsCursor cur a b n) k) ->
  exists g, In g (integs cf') /\ task_of_integ enc g (ts_cfg t)
    /\ t_deps (ts_cfg t) = map enc (declared_refs g)
    /\ (declared_refs g <> [] ->
        exists dn dh d_r,
          In (QLatestDep (t_src (ts_cfg t)) (map enc (declared_refs g)),
              RDep (Some (dn, dh, ndeps (ts_cfg t))), d_r) (ts_hist t)
          /\ In d_r (map s_db (sys_states sch (sys_init cfgs d)))
          /\ c_num cur <= dn
          /\ forall R, In R (declared_refs g) ->
               (exists k0, In k0 (integs cf') /\ ig_name k0 = R)
               /\ exists n' h', newest (t_src (ts_cfg t)) (enc R) (d_curs d_r) = Some (n', h') /\ dn <= n').
Proof.
  intros U G cf cf' enc cfgs d sch Hv He Hinj Htc Hu Hs st t cur a b n k Hst Ht Hp.
  destruct (dependencies_are_declared_refs_l _ _ _ _ Hv) as (_ & Hd & Hk). specialize (Hd He).
  unfold tasks_of_config in Htc. rewrite Forall_forall in Htc.
  assert (Hoks : Forall cfg_ok cfgs).
  { apply Forall_forall. intros c Hc. destruct (Htc c Hc) as (Hsz & g & Hg & Hns & Hto).
    apply (task_cfg_ok enc g c Hinj Hsz Hto). rewrite (Hd g Hg). exact Hns. }
  assert (Hin : In (ts_cfg t) cfgs).
  { pose proof (sys_states_cfgs sch _ st (C04P.sys_init_ok cfgs d) Hst) as E.
    apply (in_map ts_cfg) in Ht. rewrite E in Ht. unfold sys_init in Ht. cbn [s_tasks] in Ht.
    rewrite map_map in Ht. cbn in Ht. rewrite map_id in Ht. exact Ht. }
  destruct (Htc _ Hin) as (_ & g & Hg & _ & Hto). exists g. split; [exact Hg|]. split; [exact Hto|].
  assert (Hdeps : t_deps (ts_cfg t) = map enc (declared_refs g))
    by (destruct Hto as [_ Hto2]; rewrite Hto2, (Hd g Hg); reflexivity).
  split; [exact Hdeps|]. intros Hne.
  assert (Hn : t_deps (ts_cfg t) <> []) by (rewrite Hdeps; apply map_not_nil; exact Hne).
  destruct (C05SysP.system_dep_lemma cfgs d sch Hoks Hu Hs st t cur a b n k Hst Ht Hn Hp)
    as (dn & dh & d_r & A & B & C & _ & F).
  exists dn, dh, d_r. rewrite Hdeps in A, F. split; [exact A|]. split; [exact B|]. split; [exact C|].
  intros R HR. split.
  - destruct (Hk g R Hg HR) as (_ & k0 & _ & K1 & K2 & _). exists k0. split; assumption.
  - apply F. apply in_map. exact HR.
Qed.

(* the task configurations of Proofs/BridgeManagerTaskP.to_tcfg and of
   Model/BridgeSystem.sys_cfg are tasks of the integration they name when their
   dependency field is the encoded Dependencies *)
Lemma to_tcfg_task_of_integ_l : forall enc rest t g,
  Manager.t_ig t = ig_name g -> BridgeManagerTaskP.x_deps (rest t) = map enc (ig_deps g) ->
  task_of_integ enc g (BridgeManagerTaskP.to_tcfg enc rest t).
Proof.
  intros enc rest t g E1 E2. unfold task_of_integ, BridgeManagerTaskP.to_tcfg. cbn [t_ig t_deps].
  rewrite E1, E2. split; reflexivity.
Qed.
Lemma sys_cfg_task_of_integ_l : forall w t g,
  Manager.t_ig t = ig_name g -> BridgeSystem.w_deps w t = map (BridgeSystem.w_enc w) (ig_deps g) ->
  task_of_integ (BridgeSystem.w_enc w) g (BridgeSystem.sys_cfg w t).
Proof.
  intros w t g E1 E2. unfold task_of_integ, BridgeSystem.sys_cfg. cbn [t_ig t_deps].
  rewrite E1, E2. split; reflexivity.
Qed.

(* the premises are satisfiable: the task of b *)
Lemma ex_task_premises_l :
  injective ex_enc /\ In (ex_validated 1) (match validate_fix U_ascii ex_G ex_root with Some c' => integs c' | None => [] end)
  /\ user_deps_empty ex_root /\ no_self_ref (ex_validated 1) /\ sizes_ok ex_task_b
  /\ task_of_integ ex_enc (ex_validated 1) ex_task_b /\ declared_refs (ex_validated 1) <> []
  /\ cfg_ok ex_task_b.
Proof.
  assert (Hinj : injective ex_enc) by (intros a b H; exact (BridgeRowsTaskP.hid_inj a b H)).
  assert (Hsz : sizes_ok ex_task_b) by (vm_compute; repeat split; intros H; discriminate H).
  assert (Hto : task_of_integ ex_enc (ex_validated 1) ex_task_b) by (vm_compute; split; reflexivity).
  assert (Hns : no_self_ref (ex_validated 1)).
  { vm_compute. intros [H|[]]. discriminate H. }
  split; [exact Hinj|]. split; [vm_compute; right; left; reflexivity|].
  split; [repeat constructor|]. split; [exact Hns|]. split; [exact Hsz|]. split; [exact Hto|].
  split; [vm_compute; intros H; discriminate H|].
  apply (task_cfg_ok ex_enc (ex_validated 1) ex_task_b Hinj Hsz Hto). vm_compute. intros [H|[]]. discriminate H.
Qed.
End TaskLayer.
