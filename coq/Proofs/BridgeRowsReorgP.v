(* Bridge rows -> task on reorg histories: proofs for Model/BridgeRowsReorg.v.
   1. position-wise reading of the instantiation; agreeing prefixes
      instantiate to the same task-level blocks;
   2. the instantiated history satisfies C03's [history_ok]; C03's
      [hash_identifies] follows from its rows-level reading and fails without it;
   3. TaskInvH over the instantiated history: the table is the declared rows
      of a hash-linked run of blocks of versions of the history;
   4. the canonical-table theorem and settled_converges instantiated;
   5. the concrete reorg. *)
From Coq Require Import List NArith ZArith Bool Lia ZifyBool ZifyN ZifyNat.
From Shovel Require Import Model.TaskTypes Model.TaskDb Model.Task Model.TaskNode Model.TaskSys
  Model.TaskSpec Model.TaskWitness Proofs.TaskDbP Proofs.TaskChainP Proofs.TaskLegacyP Proofs.C01P
  Proofs.C03P Proofs.TaskLiveP Proofs.C03LiveP.
(* imported last: unqualified b_num, b_hash, db, outcome ... are the ROWS-level
   ones; the task-level ones are written qualified *)
From Shovel Require Import Base.Outcome Model.Hex Model.Filter Model.Rows Proofs.RowsP
  Model.BridgeRowsTask Proofs.BridgeRowsTaskP Model.BridgeRowsReorg.
Import ListNotations.
Open Scope N_scope.

Section Reorg.
Variable dcl : decl.
Variable ctx : ctxr.
Variable dbs : db.
Notation ichain := (inst_chain dcl ctx dbs).
Notation ifrom := (inst_from dcl ctx dbs).
Notation iblk := (inst_blk dcl ctx dbs).
Notation ihist := (inst_history dcl ctx dbs).
Notation drows c := (declared_rows c dcl ctx dbs).

(* ================= 1. the instantiation, position by position ================= *)
Lemma inst_from_nth : forall bs p n,
  nth_error (ifrom p bs) n
  = option_map (iblk (match n with O => p | S _ => parent_id bs n end)) (nth_error bs n).
Proof.
  induction bs as [|b r IH]; intros p n; [destruct n; reflexivity|].
  destruct n as [|n]; [reflexivity|]. cbn [inst_from nth_error]. rewrite IH.
  destruct n as [|n]; reflexivity.
Qed.

Lemma inst_chain_nth : forall v n,
  nth_error (ichain v) n = option_map (iblk (parent_id v n)) (nth_error v n).
Proof. intros v n. unfold inst_chain. rewrite inst_from_nth. destruct n; reflexivity. Qed.

(* the block of the instantiated version at number [n] is the instantiation of
   the version's block at position [n], its parent the hash id of position n-1 *)
Lemma inst_blk_at : forall v n x, blk_at (ichain v) n = Some x ->
  exists b, nth_error v (N.to_nat n) = Some b /\ x = iblk (parent_id v (N.to_nat n)) b.
Proof.
  intros v n x Hx. unfold blk_at in Hx. rewrite inst_chain_nth in Hx.
  destruct (nth_error v (N.to_nat n)) as [b|]; [|discriminate Hx].
  injection Hx as <-. exists b. split; reflexivity.
Qed.

(* two versions agreeing on their first [n] rows-level blocks instantiate to
   the same first [n] task-level blocks (numbers, hash ids, PARENT ids, rows) *)
Lemma inst_chain_prefix : forall n v v',
  firstn n v = firstn n v' -> firstn n (ichain v) = firstn n (ichain v').
Proof.
  intros n v v' E. unfold inst_chain. rewrite !(firstn_inst dcl ctx dbs), E. reflexivity.
Qed.

Lemma nth_error_firstn_lt {A} : forall n k (l : list A), (k < n)%nat ->
  nth_error (firstn n l) k = nth_error l k.
Proof.
  induction n as [|n IH]; intros k l Hk; [lia|]. destruct l as [|a l]; [reflexivity|].
  destruct k as [|k]; [reflexivity|]. cbn [firstn nth_error]. apply IH. lia.
Qed.

(* ... and the block after a shared prefix has the same parent id in both *)
Lemma parent_id_prefix : forall n v v', firstn n v = firstn n v' -> parent_id v n = parent_id v' n.
Proof.
  intros [|k] v v' E; [reflexivity|]. unfold parent_id, prev_hash.
  assert (Hk : nth_error v k = nth_error v' k).
  { rewrite <- (nth_error_firstn_lt (S k) k v) by lia. rewrite <- (nth_error_firstn_lt (S k) k v') by lia.
    rewrite E. reflexivity. }
  rewrite Hk. reflexivity.
Qed.

Lemma inst_prefix_both : forall n v v', firstn n v = firstn n v' ->
  firstn n (ichain v) = firstn n (ichain v') /\ parent_id v n = parent_id v' n.
Proof. intros n v v' E. split; [apply inst_chain_prefix, E|apply parent_id_prefix, E]. Qed.

(* ================= 2. history_ok, hash_identifies ================= *)
Lemma inst_history_in : forall RH ch, In ch (ihist RH) -> exists v, In v RH /\ ch = ichain v.
Proof.
  intros RH ch H. apply in_map_iff in H. destruct H as [v [E Hv]]. exists v. split; [exact Hv|]. symmetry. exact E.
Qed.

Lemma inst_history_ok : forall RH, rows_history_wf RH -> history_ok (ihist RH).
Proof.
  intros RH Hw ch Hin. destruct (inst_history_in _ _ Hin) as [v [Hv ->]]. destruct (Hw v Hv) as [A B].
  split; [apply inst_chain_wf, A|]. rewrite inst_chain_height. exact B.
Qed.

Lemma inst_hash_identifies : forall RH, rows_hash_identifies RH -> hash_identifies (ihist RH).
Proof.
  intros RH Hid ch ch' x x' Hc Hc' Hx Hx' Hh.
  destruct (inst_history_in _ _ Hc) as [v [Hv ->]]. destruct (inst_history_in _ _ Hc') as [v' [Hv' ->]].
  apply In_nth_error in Hx. destruct Hx as [i Hi]. rewrite inst_chain_nth in Hi.
  destruct (nth_error v i) as [b|] eqn:Eb; [|discriminate Hi]. injection Hi as <-.
  apply In_nth_error in Hx'. destruct Hx' as [j Hj]. rewrite inst_chain_nth in Hj.
  destruct (nth_error v' j) as [b'|] eqn:Eb'; [|discriminate Hj]. injection Hj as <-.
  cbn [inst_blk TaskTypes.b_hash] in Hh. unfold bhash_id in Hh. apply hid_inj in Hh.
  destruct (Hid v v' i j b b' Hv Hv' Eb Eb' Hh) as [-> Hp]. unfold parent_id. rewrite Hp. reflexivity.
Qed.

(* what [rows_hash_identifies] says about the shape of a well-formed history:
   versions sharing a block hash share the whole prefix up to that block *)
Lemma numbered_from_nth : forall v n i b, numbered_from n v -> nth_error v i = Some b ->
  b_num b = n + N.of_nat i /\ ob (b_hash b) <> [].
Proof.
  induction v as [|a r IH]; intros n i b H Hi; [destruct i; discriminate Hi|].
  destruct H as [Hn [Hh Hr]]. destruct i as [|i].
  - injection Hi as <-. split; [lia|exact Hh].
  - cbn [nth_error] in Hi. destruct (IH _ _ _ Hr Hi) as [A B]. split; [lia|exact B].
Qed.

Lemma rows_hash_identifies_prefix : forall RH, rows_history_wf RH -> rows_hash_identifies RH ->
  forall v v' i j b b', In v RH -> In v' RH ->
  nth_error v i = Some b -> nth_error v' j = Some b' -> ob (b_hash b) = ob (b_hash b') ->
  i = j /\ firstn (S i) v = firstn (S i) v'.
Proof.
  intros RH Hw Hid v v' i j b b' Hv Hv' Hi Hj Hh.
  destruct (Hw v Hv) as [[_ Nv] _]. destruct (Hw v' Hv') as [[_ Nv'] _].
  assert (Eij : i = j).
  { destruct (Hid _ _ _ _ _ _ Hv Hv' Hi Hj Hh) as [E _]. subst b'.
    destruct (numbered_from_nth _ _ _ _ Nv Hi) as [A _]. destruct (numbered_from_nth _ _ _ _ Nv' Hj) as [B _]. lia. }
  subst j. split; [reflexivity|]. clear Hw. revert b b' Hi Hj Hh.
  induction i as [|i IH]; intros b b' Hi Hj Hh.
  - destruct (Hid _ _ _ _ _ _ Hv Hv' Hi Hj Hh) as [E _]. subst b'.
    destruct v as [|a r]; [discriminate Hi|]. destruct v' as [|a' r']; [discriminate Hj|].
    cbn in Hi, Hj. injection Hi as ->. injection Hj as ->. reflexivity.
  - destruct (Hid _ _ _ _ _ _ Hv Hv' Hi Hj Hh) as [E Hp]. subst b'.
    cbn [prev_hash] in Hp.
    destruct (nth_error v i) as [p|] eqn:Ep.
    2:{ apply nth_error_None in Ep. assert (X : nth_error v (S i) = None) by (apply nth_error_None; lia). congruence. }
    destruct (nth_error v' i) as [p'|] eqn:Ep'.
    2:{ apply nth_error_None in Ep'. assert (X : nth_error v' (S i) = None) by (apply nth_error_None; lia). congruence. }
    pose proof (IH p p' eq_refl eq_refl Hp) as IHp.
    assert (Sv : forall (w : list blockr) x, nth_error w (S i) = Some x -> firstn (S (S i)) w = firstn (S i) w ++ [x]).
    { clear. induction i as [|i IHi]; intros w x Hx.
      - destruct w as [|a [|a' w']]; try discriminate Hx. cbn in Hx. injection Hx as ->. reflexivity.
      - destruct w as [|a w]; [discriminate Hx|]. cbn [nth_error] in Hx.
        change (firstn (S (S (S i))) (a :: w)) with (a :: firstn (S (S i)) w).
        rewrite (IHi _ _ Hx). reflexivity. }
    rewrite (Sv v b Hi), (Sv v' b Hj), IHp. reflexivity.
Qed.

(* ================= 3. TaskInvH over the instantiated history ================= *)
Lemma in_history_inst : forall RH x, in_history (ihist RH) x ->
  exists vb, rblock_of RH (fst vb) (snd vb) /\ src_of dcl ctx dbs x vb.
Proof.
  intros RH x (ch & Hin & Hx). destruct (inst_history_in _ _ Hin) as [v [Hv ->]].
  destruct (inst_blk_at _ _ _ Hx) as [b [Eb E]].
  assert (Hn : TaskTypes.b_num x = b_num b) by (rewrite E; reflexivity).
  rewrite Hn in Eb, E. exists (v, b). split; [split; [exact Hv|exact Eb]|exact E].
Qed.

Lemma history_sources : forall RH l, Forall (in_history (ihist RH)) l ->
  exists bl, Forall2 (src_of dcl ctx dbs) l bl /\ Forall (fun vb => rblock_of RH (fst vb) (snd vb)) bl.
Proof.
  intros RH l H. induction H as [|x l Hx _ IH]; [exists []; split; constructor|].
  destruct IH as [bl [A B]]. destruct (in_history_inst _ _ Hx) as [vb [C D]].
  exists (vb :: bl). split; constructor; assumption.
Qed.

Lemma rows_of_sources : forall (c : tcfg) l bl, Forall2 (src_of dcl ctx dbs) l bl ->
  rows_of c l = concat (map (fun vb => drows c (snd vb)) bl).
Proof.
  intros c l bl H. induction H as [|x vb l bl Hx _ IH]; [reflexivity|].
  rewrite rows_of_cons. cbn [map concat]. rewrite IH. f_equal.
  unfold src_of in Hx. rewrite Hx. exact (proj_inst dcl ctx dbs c true _ _).
Qed.

(* task-level linkage (parent = predecessor's hash) read at rows level *)
Lemma strong_sources : forall RH l bl, Forall2 (src_of dcl ctx dbs) l bl ->
  Forall (fun vb => rblock_of RH (fst vb) (snd vb)) bl ->
  forall prev pvb, src_of dcl ctx dbs prev pvb -> strong_from prev l -> rlinked_from pvb bl.
Proof.
  intros RH l bl H. induction H as [|x vb l bl Hx _ IH]; intros Hb prev pvb Hp Hs; [exact I|].
  inversion Hb as [|? ? Hvb Hb']; subst. cbn [strong_from] in Hs. destruct Hs as (Hn & Hpar & Hs).
  cbn [rlinked_from]. split; [|apply (IH Hb' x vb Hx Hs)].
  destruct vb as [v2 b2]. destruct pvb as [v1 b1]. unfold src_of in Hx, Hp. cbn [fst snd] in *.
  rewrite Hx, Hp in Hn, Hpar. cbn [inst_blk TaskTypes.b_num TaskTypes.b_hash b_parent] in Hn, Hpar.
  unfold rlinks. cbn [fst snd]. split; [exact Hn|].
  destruct Hvb as [_ E2]. rewrite Hn in Hpar, E2.
  replace (N.to_nat (b_num b1 + 1)) with (S (N.to_nat (b_num b1))) in Hpar, E2 by lia.
  unfold parent_id, bhash_id in Hpar. apply hid_inj in Hpar. cbn [prev_hash] in Hpar.
  destruct (nth_error v2 (N.to_nat (b_num b1))) as [p|] eqn:Ep.
  - exists p. split; [reflexivity|exact Hpar].
  - exfalso. apply nth_error_None in Ep.
    assert (X : nth_error v2 (S (N.to_nat (b_num b1))) = None) by (apply nth_error_None; lia). congruence.
Qed.

(* Insert over any blocks on each of which it returns Ok: the concatenation,
   whose encodings are the values of the declared rows *)
Lemma blocks_declared : forall (c : tcfg) bs,
  (forall b, In b bs -> exists rows, insert fixed dcl ctx dbs [b] = Ok rows) ->
  exists rows, insert fixed dcl ctx dbs bs = Ok rows
    /\ map r_val (concat (map (drows c) bs)) = map enc_row rows.
Proof.
  intros c bs Hok. destruct (concatM_all_ok (fun b => insert fixed dcl ctx dbs [b]) bs Hok) as [outs [E F]].
  exists (concat outs). split; [rewrite insert_per_block; exact E|].
  apply (declared_rows_vals_all dcl ctx dbs c), F.
Qed.

(* a stored row of a block's declared rows is a declared row of that block *)
Lemma declared_rows_in : forall (c : tcfg) b r, In r (drows c b) ->
  exists k gr, r = trow_of c (b_num b) (k, gr) /\ declared_row dcl ctx dbs b k gr.
Proof.
  intros c b r Hr. unfold declared_rows, block_krows in Hr.
  destruct (kinsert dcl ctx dbs b) as [krs| |] eqn:Ek; try (destruct Hr).
  apply in_map_iff in Hr. destruct Hr as [[k gr] [<- Hkr]]. exists k, gr.
  split; [reflexivity|]. apply (kinsert_declared _ _ _ _ _ _ _ Ek Hkr).
Qed.

Lemma rblock_of_in : forall RH v b, rblock_of RH v b -> In v RH /\ In b v.
Proof. intros RH v b [Hv Hb]. split; [exact Hv|]. eapply nth_error_In. exact Hb. Qed.

(* (2) the table of ANY state the C03 safety theorems allow *)
Lemma reorg_declared_table : forall RH (c : tcfg) (d : TaskTypes.db),
  rows_history_wf RH -> rows_inserts_ok dcl ctx dbs RH ->
  TaskInvH c (ihist RH) d -> declared_table c dcl ctx dbs RH d.
Proof.
  intros RH c d Hw Hok (g & Hpv & Hg & Hb).
  pose proof (inst_history_ok RH Hw) as HH.
  destruct (history_sources RH _ Hb) as [bl [Hsrc Hbl]].
  assert (Hrows : d_rows (pv c d) = concat (map (fun vb => drows c (snd vb)) bl)).
  { rewrite Hpv. cbn [render d_rows]. apply rows_of_sources, Hsrc. }
  assert (Hlink : rlinked bl).
  { destruct Hg as (_ & Hch & _). destruct Hsrc as [|x vb l bl' Hx Hsrc]; [exact I|].
    inversion Hb as [|? ? Hbx Hbl0]; subst. inversion Hbl as [|? ? _ Hbl']; subst.
    cbn [rlinked]. apply (strong_sources RH l bl' Hsrc Hbl' x vb Hx).
    apply (weak_strong (ihist RH) HH); assumption. }
  destruct (blocks_declared c (map snd bl)) as [rows [Eins Evals]].
  { intros b Hbin. apply in_map_iff in Hbin. destruct Hbin as [[v b'] [E Hvb]]. cbn [snd] in E. subst b'.
    rewrite Forall_forall in Hbl. destruct (rblock_of_in _ _ _ (Hbl _ Hvb)) as [Hv Hbv].
    apply (Hok v Hv b Hbv). }
  rewrite map_map in Evals.
  exists bl, rows. split; [exact Hbl|]. split; [exact Hlink|]. split; [exact Hrows|].
  split; [exact Eins|]. split; [rewrite Hrows; exact Evals|].
  intros r Hr. rewrite Hrows in Hr. apply in_concat in Hr. destruct Hr as [rs [Hrs Hr]].
  apply in_map_iff in Hrs. destruct Hrs as [[v b] [<- Hvb]]. cbn [snd] in Hr.
  destruct (declared_rows_in c b r Hr) as [k [gr [E D]]]. exists v, b, k, gr.
  rewrite Forall_forall in Hbl. split; [exact Hvb|]. split; [exact (Hbl _ Hvb)|]. split; assumption.
Qed.

(* ... in every committed state of a step under any faults, every answer of
   the node taken from any version (C03 indexed_in_history composed) *)
Lemma reorg_step_declared : forall RH (c : tcfg),
  cfg_ok c -> rows_history_wf RH -> rows_inserts_ok dcl ctx dbs RH -> forall g (d : TaskTypes.db) s,
  pv c d = render c g -> wf_ghost c g -> Forall (in_history (ihist RH)) (concat g) ->
  trace_sat (node_ans true (ihist RH)) (step c s d) ->
  Forall (fun e => declared_table c dcl ctx dbs RH (snd e)) (r_trace (step c s d))
  /\ declared_table c dcl ctx dbs RH (r_db (step c s d)).
Proof.
  intros RH c Hc Hw Hok g d s Hpv Hg Hb Ht.
  destruct (hist_all c (ihist RH) Hc (inst_history_ok RH Hw) g d s Hpv Hg Hb Ht) as [A B].
  split; [|apply (reorg_declared_table RH c _ Hw Hok B)].
  eapply Forall_impl; [|exact A]. intros e He. apply (reorg_declared_table RH c _ Hw Hok He).
Qed.

(* ... and over whole runs (C03 indexed_in_history_runs composed) *)
Lemma reorg_runs_declared : forall RH (c : tcfg),
  cfg_ok c -> rows_history_wf RH -> rows_inserts_ok dcl ctx dbs RH -> forall ss (d : TaskTypes.db),
  TaskInvH c (ihist RH) d -> runs_sat (node_ans true (ihist RH)) c ss d ->
  Forall (declared_table c dcl ctx dbs RH) (run_dbs c ss d)
  /\ declared_table c dcl ctx dbs RH (run_end c ss d).
Proof.
  intros RH c Hc Hw Hok ss d Hi Hs.
  destruct (hist_runs c (ihist RH) Hc (inst_history_ok RH Hw) ss d Hi Hs) as [A B].
  split; [|apply (reorg_declared_table RH c _ Hw Hok B)].
  eapply Forall_impl; [|exact A]. intros e He. apply (reorg_declared_table RH c _ Hw Hok He).
Qed.

(* ================= 4. canonical table; settled_converges ================= *)
Lemma segment_declared : forall (c : tcfg) rch m k, inserts_ok dcl ctx dbs rch ->
  exists rows, insert fixed dcl ctx dbs (rsegment rch m k) = Ok rows
    /\ map r_val (concat (map (drows c) (rsegment rch m k))) = map enc_row rows.
Proof.
  intros c rch m k Hok. apply blocks_declared. intros b Hb. apply Hok, (rsegment_incl _ _ _ _ Hb).
Qed.

(* whenever the newest cursor carries the hash of the final version's block at
   that number, the whole table is the declared rows of a range of the FINAL
   version ending there: nothing of an orphaned version is left
   (C03 cursor_on_chain_implies_table_canonical instantiated) *)
Lemma reorg_canonical_declared : forall RH rch (c : tcfg) (d : TaskTypes.db) n b,
  rows_history_wf RH -> In rch RH -> rows_hash_identifies RH -> inserts_ok dcl ctx dbs rch ->
  TaskInvH c (ihist RH) d ->
  newest (t_src c) (t_ig c) (d_curs d) = Some (n, bhash_id b) -> nth_error rch (N.to_nat n) = Some b ->
  exists m k rows, 1 <= k /\ m + k = n + 1 /\ m + k <= N.of_nat (length rch)
    /\ d_rows (pv c d) = concat (map (drows c) (rsegment rch m k))
    /\ insert fixed dcl ctx dbs (rsegment rch m k) = Ok rows
    /\ map r_val (d_rows (pv c d)) = map enc_row rows.
Proof.
  intros RH rch c d n b Hw Hin Hid Hok Hi Hnew Hb.
  assert (Hx : blk_at (ichain rch) n = Some (iblk (parent_id rch (N.to_nat n)) b)).
  { unfold blk_at. rewrite inst_chain_nth, Hb. reflexivity. }
  destruct (canonical_lemma c (ihist RH) (inst_history_ok RH Hw) (ichain rch) (in_map _ _ _ Hin)
              (inst_hash_identifies RH Hid) d n (bhash_id b) _ Hi Hnew Hx eq_refl)
    as (m & k & Hrows & Hk & Hmk & Hle).
  rewrite inst_chain_height in Hle.
  destruct (segment_inst dcl ctx dbs rch m k) as [q Eseg].
  rewrite Eseg in Hrows. change (ifrom q (rsegment rch m k)) with (view true (ifrom q (rsegment rch m k))) in Hrows.
  rewrite (rows_of_inst dcl ctx dbs c true) in Hrows.
  destruct (segment_declared c rch m k Hok) as [rows [Eins Evals]].
  exists m, k, rows. split; [exact Hk|]. split; [exact Hmk|]. split; [exact Hle|].
  split; [exact Hrows|]. split; [exact Eins|]. rewrite Hrows. exact Evals.
Qed.

(* (3) C03 settled_converges instantiated: premises verbatim for
   H = the instantiated history, ch = the instantiated final version *)
Lemma settled_declared : forall RH rch (c : tcfg) ss (d0 : TaskTypes.db),
  let H := ihist RH in
  let ch := ichain rch in
  cfg_ok c -> rows_history_wf RH -> In rch RH -> rows_hash_identifies RH ->
  t_deps c = [] -> Forall wf_items rch -> inserts_ok dcl ctx dbs rch -> t_hashes c = true ->
  TaskInvH c H d0 -> runs_sat (node_ans true H) c ss d0 ->
  let d := run_end c ss d0 in
  (forall x, In x (d_curs (pv c d)) -> TaskTypes.c_num x < clip c (height ch - 1)) ->
  (length (d_curs (pv c d)) <= 1000)%nat ->
  0 < t_start c -> t_start c - 1 < clip c (height ch - 1) ->
  exists F ln,
    let x1 := exec_honest F (t_uniq c) (t_hashes c) ch (converge c) d None in
    r_out x1 = Fin OConverged
    /\ exists n m k h rows,
         let dfin := iter (hstepf c ch) n (r_db x1) in
         (n <= N.to_nat (clip c (height ch - 1) - ln))%nat
         /\ 1 <= k /\ m + k = clip c (height ch - 1) + 1 /\ m + k <= N.of_nat (length rch)
         /\ newest (t_src c) (t_ig c) (d_curs dfin) = Some (clip c (height ch - 1), h)
         /\ (exists b, nth_error rch (N.to_nat (clip c (height ch - 1))) = Some b /\ h = bhash_id b)
         /\ d_rows (pv c dfin) = concat (map (drows c) (rsegment rch m k))
         /\ insert fixed dcl ctx dbs (rsegment rch m k) = Ok rows
         /\ map r_val (d_rows (pv c dfin)) = map enc_row rows
         /\ outside c dfin = outside c d.
Proof.
  intros RH rch c ss d0 H ch Hc Hw Hin Hid Hdeps Hit Hok Hhs Hi Hs d Hcur Hlen Hs0 Hs1.
  assert (Hkeys : forall b, In b ch -> NoDup (map fst (b_rows b))).
  { intros b Hb. apply (inst_from_keys dcl ctx dbs rch 0 Hit b Hb). }
  destruct (settled_full_lemma c H ch ss d0 Hc (inst_history_ok RH Hw) (in_map _ _ _ Hin)
              (inst_hash_identifies RH Hid) Hdeps Hkeys Hhs Hi Hs Hcur Hlen Hs0 Hs1)
    as (F & ln & Hout & n & g' & Hn & Hpv' & Hw' & Hon' & (h & Hg') & Houts).
  fold d in Hout, Hpv', Houts.
  exists F, ln. split; [exact Hout|].
  set (dfin := iter (hstepf c ch) n (r_db (exec_honest F (t_uniq c) (t_hashes c) ch (converge c) d None))) in *.
  assert (Hinv : TaskInvG c ch dfin).
  { exists g'. split; [exact Hpv'|]. split; [exact Hw'|exact Hon']. }
  assert (Hnew : newest (t_src c) (t_ig c) (d_curs dfin) = Some (clip c (height ch - 1), h)).
  { rewrite <- newest_pv, Hpv', <- Hg'. apply newest_render, Hw'. }
  assert (Hh : exists b, nth_error rch (N.to_nat (clip c (height ch - 1))) = Some b /\ h = bhash_id b).
  { unfold gpos in Hg'. destruct (rev g') as [|lb r] eqn:Er; [discriminate Hg'|]. injection Hg' as Hn1 Hh1.
    apply (f_equal (@rev _)) in Er. rewrite rev_involutive in Er. cbn [rev] in Er.
    pose proof Hw' as (Hne & _). rewrite Forall_forall in Hne.
    assert (Hlb : lb <> []) by (apply Hne; rewrite Er; apply in_or_app; right; left; reflexivity).
    assert (Hl : In (last_blk lb) (concat g')).
    { rewrite Er. apply (in_concat_batch _ lb); [apply in_or_app; right; left; reflexivity|apply last_blk_in; exact Hlb]. }
    rewrite Forall_forall in Hon'. destruct (Hon' _ Hl) as (x & Hx & Ex). rewrite Hhs in Ex. cbn [vblk] in Ex. subst x.
    rewrite Hn1 in Hx. destruct (inst_blk_at rch _ _ Hx) as [b [Eb E]]. exists b. split; [exact Eb|].
    rewrite <- Hh1, E. reflexivity. }
  destruct (Hw rch Hin) as [_ Hsmall].
  destruct (declared_projection dcl ctx dbs rch c dfin Hok Hsmall Hinv)
    as [[_ L]|(m & k & n' & h' & rows & Hk & Hmk & Hnew' & Hnn & Hrows & Hins & Hvals)].
  - exfalso. rewrite <- newest_pv, L in Hnew. discriminate Hnew.
  - rewrite Hnew in Hnew'. injection Hnew' as <- <-.
    exists n, m, k, h, rows. cbv zeta. fold dfin.
    split; [exact Hn|]. split; [exact Hk|]. split; [lia|]. split; [exact Hmk|]. split; [exact Hnew|].
    split; [exact Hh|]. split; [exact Hrows|]. split; [exact Hins|]. split; [exact Hvals|exact Houts].
Qed.
End Reorg.

(* ================= 5. the precondition rows_hash_identifies ================= *)
(* it is not implied by well-formedness of the versions, and C03's premise
   fails without it: two versions give block 2 the same hash above different
   blocks 1 *)
Lemma hash_identifies_unconditional_refuted : ~ hash_identifies_unconditional.
Proof.
  intros H. specialize (H ex_decl ex_ctx [] [ex_rchain_goodfork; ex_rchain_badfork]).
  assert (Hw : rows_history_wf [ex_rchain_goodfork; ex_rchain_badfork]).
  { intros v [<-|[<-|[]]]; (split; [split; [discriminate|apply numbered_fromb_ok; vm_compute; reflexivity]|
                                    unfold nmax; cbn; lia]). }
  specialize (H Hw (inst_chain ex_decl ex_ctx [] ex_rchain_goodfork) (inst_chain ex_decl ex_ctx [] ex_rchain_badfork)
                (Blk 2 (hid [4]) (hid [2]) []) (Blk 2 (hid [4]) (hid [9]) [])).
  assert (E : Blk 2 (hid [4]) (hid [2]) [] = Blk 2 (hid [4]) (hid [9]) []).
  { apply H; [left; reflexivity|right; left; reflexivity| | |reflexivity];
      vm_compute; right; right; left; reflexivity. }
  vm_compute in E. discriminate E.
Qed.

(* a history of two versions forking after a common prefix of two blocks, all
   hashes distinct, satisfies it *)
Lemma nodup5 {A} (a b c d e : A) : NoDup [a; b; c; d; e] ->
  a <> b /\ a <> c /\ a <> d /\ a <> e /\ b <> c /\ b <> d /\ b <> e /\ c <> d /\ c <> e /\ d <> e.
Proof.
  intros H.
  repeat match goal with X : NoDup (_ :: _) |- _ => inversion X; clear X; subst end.
  cbn [In] in *. repeat split; intros E; subst; tauto.
Qed.

Lemma fork2_hash_identifies : forall b0 b1 b2 c2 c3 : blockr,
  NoDup (map (fun b => ob (b_hash b)) [b0; b1; b2; c2; c3]) ->
  rows_hash_identifies [[b0; b1; b2]; [b0; b1; c2; c3]].
Proof.
  intros b0 b1 b2 c2 c3 Hnd. cbn [map] in Hnd. apply nodup5 in Hnd.
  destruct Hnd as (N1 & N2 & N3 & N4 & N5 & N6 & N7 & N8 & N9 & N10).
  intros v v' i j b b' Hv Hv' Hi Hj Hh.
  destruct Hv as [<-|[<-|[]]]; destruct Hv' as [<-|[<-|[]]];
    destruct i as [|[|[|[|i]]]]; cbn [nth_error] in Hi; try discriminate Hi;
    try (destruct i; discriminate Hi); injection Hi as <-;
    destruct j as [|[|[|[|j]]]]; cbn [nth_error] in Hj; try discriminate Hj;
    try (destruct j; discriminate Hj); injection Hj as <-;
    try congruence; try (symmetry in Hh; congruence); split; reflexivity.
Qed.

(* ================= 6. the concrete reorg ================= *)
Lemma ex_reorg_hyps :
  cfg_ok (ex_task 1 1) /\ rows_history_wf ex_rhist /\ rows_hash_identifies ex_rhist
  /\ rows_inserts_ok ex_decl ex_ctx [] ex_rhist /\ Forall wf_items ex_rchainB
  /\ In ex_rchainB ex_rhist.
Proof.
  split; [apply cfg_okb_sound; vm_compute; reflexivity|].
  split.
  { intros v [<-|[<-|[]]]; (split; [split; [discriminate|apply numbered_fromb_ok; vm_compute; reflexivity]|
                                    unfold nmax; cbn; lia]). }
  split.
  { set (dflt := {| b_hash := None; b_num := 0; b_time := 0; b_txs := [] |}).
    exact (fork2_hash_identifies (nth 0 ex_rchain dflt) (nth 1 ex_rchain dflt) (nth 2 ex_rchain dflt)
             (nth 2 ex_rchainB dflt) (nth 3 ex_rchainB dflt)
             ltac:(vm_compute; repeat constructor; cbn; intros F;
                   repeat (destruct F as [F|F]; try discriminate F); exact F)). }
  split.
  { intros v [<-|[<-|[]]] b Hb; vm_compute in Hb;
      repeat (destruct Hb as [<-|Hb]; [eexists; vm_compute; reflexivity|]); destruct Hb. }
  split; [|right; left; reflexivity].
  repeat constructor; cbn; intros F; repeat (destruct F as [F|F]; try discriminate F); exact F.
Qed.

(* batch 1: two steps on version A index blocks 1 and 2 (block 2's row a = 6,
   v = 10); the next step, served version B, unwinds block 2 and indexes B's
   block 2, the one after it block 3.  The table then is the declared rows of
   B's blocks 1..3 -- what ONE Insert over them returns -- and the row of A's
   block 2 is gone. *)
Lemma ex_reorg_run_ok :
  let c := ex_task 1 1 in
  (let r := ex_reorg_run 1 1 2 0 in
   snd r = [Fin OConverged; Fin OConverged]
   /\ d_rows (fst r) = map (fun x => trow_of c (fst x) (snd x)) ex_expected
   /\ d_curs (fst r) = [Cur 1 2 1 (hid [2]); Cur 1 2 2 (hid [3])])
  /\ (let r := ex_reorg_run 1 1 2 1 in
      snd r = [Fin OConverged; Fin OConverged; Fin OConverged]
      /\ d_rows (fst r) = map (fun x => trow_of c (fst x) (snd x)) (firstn 2 ex_expectedB)
      /\ d_curs (fst r) = [Cur 1 2 1 (hid [2]); Cur 1 2 2 (hid [4])])
  /\ (let r := ex_reorg_run 1 1 2 3 in
      snd r = [Fin OConverged; Fin OConverged; Fin OConverged; Fin OConverged; Fin ONothingNew]
      /\ d_rows (fst r) = map (fun x => trow_of c (fst x) (snd x)) ex_expectedB
      /\ d_rows (fst r) = concat (map (declared_rows c ex_decl ex_ctx []) (rsegment ex_rchainB 1 3))
      /\ d_curs (fst r) = [Cur 1 2 1 (hid [2]); Cur 1 2 2 (hid [4]); Cur 1 2 3 (hid [5])]
      /\ insert fixed ex_decl ex_ctx [] (rsegment ex_rchainB 1 3)
         = Ok (map (fun x => snd (snd x)) ex_expectedB)).
Proof. vm_compute. repeat split; reflexivity. Qed.

(* the premises of settled_declared hold in the state reached on version A --
   it holds the row of A's block 2, which B orphans -- with final version B *)
Lemma ex_settle_hyps :
  let c := ex_task 1 1 in
  let H := inst_history ex_decl ex_ctx [] ex_rhist in
  let d0 := fst (ex_reorg_run 1 1 2 0) in
  TaskInvH c H d0 /\ runs_sat (node_ans true H) c [] d0
  /\ (forall x, In x (d_curs (pv c (run_end c [] d0))) -> TaskTypes.c_num x < clip c (height ex_chainB - 1))
  /\ (length (d_curs (pv c (run_end c [] d0))) <= 1000)%nat
  /\ 0 < t_start c /\ t_start c - 1 < clip c (height ex_chainB - 1)
  /\ t_deps c = [] /\ t_hashes c = true.
Proof.
  cbv zeta. split.
  { exists [segment ex_chain 1 1; segment ex_chain 2 1].
    split; [vm_compute; reflexivity|]. split; [apply wf_ghostb_sound; vm_compute; reflexivity|].
    repeat constructor; (exists ex_chain; split; [left; reflexivity|vm_compute; reflexivity]). }
  split; [exact I|].
  split.
  { intros x Hx. vm_compute in Hx. destruct Hx as [<-|[<-|[]]]; vm_compute; reflexivity. }
  split; [vm_compute; lia|]. repeat split; vm_compute; reflexivity.
Qed.

(* batch 5 x concurrency 3: the whole batch [1, 2] of version A is unwound in
   one step (the fork lies INSIDE the batch) and blocks 1..3 of B are indexed *)
Lemma ex_reorg_run_batch :
  let r := ex_reorg_run 5 3 1 1 in
  snd r = [Fin OConverged; Fin OConverged]
  /\ d_rows (fst r) = map (fun x => trow_of (ex_task 5 3) (fst x) (snd x)) ex_expectedB
  /\ d_curs (fst r) = [Cur 1 2 3 (hid [5])].
Proof. vm_compute. repeat split; reflexivity. Qed.
