(* C01: every block in range indexed exactly once -- growth-only histories.
   Safety part: the indexed blocks are always a contiguous run of the canonical
   chain (so the table is its projection), a successful step appends exactly
   the next k blocks, 1 <= k <= batch, and never unwinds. *)
From Coq Require Import List NArith Bool Lia ZifyBool ZifyN ZifyNat.
From Shovel Require Import Model.TaskTypes Model.TaskDb Model.Task Model.TaskNode Model.TaskSys
  Model.TaskSpec Proofs.TaskArithP Proofs.TaskDbP Proofs.TaskExecP Proofs.TaskLoadP Proofs.TaskInvP
  Proofs.TaskLegacyP Proofs.TaskStepP Proofs.TaskChainP.
Import ListNotations.
Open Scope N_scope.

Section Growth.
Variable c : tcfg.
Variable canon : chain.
Hypothesis Hc : cfg_ok c.
Hypothesis Hcanon : wf_chain canon.
Hypothesis Hsmall : height canon < nmax.

Notation hs := (t_hashes c).
Notation Gg := (growth_reply hs canon).
Notation BPg := (on_chain hs canon).
Definition HPg (n h : N) : Prop := exists b, blk_at canon n = Some b /\ b_hash b = h.
Definition HDg (n : N) : Prop := n < height canon.
Definition RJg (_ : list batch) : Prop := False.

Lemma Gg_ok : forall i r, Gg i r -> reply_ok i r.
Proof.
  intros i r H. destruct i, r; try exact I; cbn in *.
  - destruct H as (b & Hb & _). apply blk_at_height in Hb. lia.
  - induction H as [|p sr ps rs Hp _ IH]; constructor; [|exact IH].
    destruct sr as [bs|k]; [|exact I]. cbn in *. destruct Hp as [Hh ->].
    replace (snd p) with (N.of_nat (N.to_nat (snd p))) at 1 by lia.
    apply segment_facts; [exact Hcanon|lia].
Qed.

Lemma Gg_bp : forall ps rs, Gg (RGet ps) (RSegs rs) -> Forall BPg (concat (map seg_blocks rs)).
Proof.
  intros ps rs H. cbn in H. induction H as [|p sr ps rs Hp _ IH]; [constructor|].
  cbn [map concat]. apply Forall_app. split; [|exact IH].
  destruct sr as [bs|k]; [|constructor]. cbn in *. destruct Hp as [Hh ->].
  replace (snd p) with (N.of_nat (N.to_nat (snd p))) by lia.
  apply segment_facts; [exact Hcanon|lia].
Qed.

Lemma Gg_hp : forall n h, Gg (RHash n) (RHashV h) -> HPg n h.
Proof. intros n h H. exact H. Qed.
Lemma Gg_hd : forall k n h, Gg (RLatest k) (RHead n h) -> HDg n.
Proof. intros k n h (b & Hb & _). apply blk_at_height in Hb. exact Hb. Qed.

(* on a growing chain the parent check can never fail *)
Lemma no_reorg : forall p ln lh f,
  W c BPg p -> pos_of c HPg HDg p ln lh -> BPg f -> b_num f = ln + 1 -> b_parent f <> 0 ->
  lh <> b_parent f -> RJg p.
Proof.
  intros p ln lh f Hw Hpos (x & Hx & Ef) Hn Hp Hl. unfold RJg. apply Hl. clear Hl.
  rewrite Hn in Hx. destruct (blk_at_prev canon ln x Hx) as (y & Hy).
  destruct (wf_chain_at canon (ln + 1) x Hcanon Hx) as (_ & _ & Hpar).
  replace (ln + 1 - 1) with ln in Hpar by lia. specialize (Hpar y ltac:(lia) Hy).
  assert (Ehs : hs = true).
  { destruct hs; [reflexivity|]. subst f. cbn in Hp. congruence. }
  rewrite Ehs in Ef. cbn in Ef. subst f. rewrite Hpar.
  unfold pos_of in Hpos. destruct (gpos p) as [[n h]|] eqn:Gp.
  - destruct Hpos as [-> ->]. unfold gpos in Gp. destruct (rev p) as [|b r] eqn:Er; [discriminate|].
    inversion Gp; subst. apply (f_equal (@rev _)) in Er. rewrite rev_involutive in Er. cbn [rev] in Er.
    subst p. destruct Hw as [(Hne & _ & _) Hb]. rewrite Forall_forall in Hne, Hb.
    assert (Hbn : b <> []) by (apply Hne; apply in_or_app; right; left; reflexivity).
    assert (Hin : In (last_blk b) (concat (rev r ++ [b]))).
    { apply (in_concat_batch _ b); [apply in_or_app; right; left; reflexivity|apply last_blk_in; exact Hbn]. }
    destruct (Hb _ Hin) as (z & Hz & Ez). rewrite Hy in Hz. inversion Hz; subst z.
    rewrite Ez. apply vblk_hash.
  - destruct Hpos as [(z & Hz & <-) _]. rewrite Hy in Hz. inversion Hz. reflexivity.
Qed.

Lemma no_reorg' : forall p ln lh ps segs f,
  W c BPg p -> pos_of c HPg HDg p ln lh -> Gg (RGet ps) (RSegs segs) -> In f (concat (map seg_blocks segs)) ->
  b_num f = ln + 1 -> b_parent f <> 0 -> lh <> b_parent f -> RJg p.
Proof.
  intros p ln lh ps segs f Hw Hpos Hg Hin. apply (no_reorg p ln lh f Hw Hpos).
  pose proof (Gg_bp ps segs Hg) as Hb. rewrite Forall_forall in Hb. apply Hb. exact Hin.
Qed.

Lemma unw_false : forall g p, unw RJg g p -> p = g.
Proof. intros g p H. induction H as [|p b _ _ F]; [reflexivity|destruct F]. Qed.

(* ghost on the chain = one segment of it *)
Lemma ghost_segment : forall g, wf_ghost c g -> Forall BPg (concat g) ->
  match concat g with
  | [] => True
  | f :: _ => concat g = view hs (segment canon (b_num f) (N.of_nat (length (concat g))))
              /\ b_num f + N.of_nat (length (concat g)) <= height canon
  end.
Proof.
  intros g (_ & Hch & _) Hb. destruct (concat g) as [|f l] eqn:E; [exact I|].
  pose proof (chain_nums f l Hch) as Hn.
  destruct (on_chain_run hs canon _ _ _ Hb Hn) as [A B]. split; [exact A|apply B; discriminate].
Qed.

Section OneStep.
Variables (g : list batch) (d : db) (s : list ans).
Hypothesis Hpv : pv c d = render c g.
Hypothesis Hw : wf_ghost c g.
Hypothesis Hon : Forall BPg (concat g).
Hypothesis Ht : trace_sat Gg (step c s d).

Lemma growth_all :
  Forall (fun e => TaskInvG c canon (snd e)) (r_trace (step c s d))
  /\ TaskInvG c canon (r_db (step c s d)).
Proof.
  destruct (step_all c Gg (fun _ => True) True BPg HPg HDg RJg Hc Gg_ok Gg_bp Gg_hp Gg_hd (fun _ _ => I) no_reorg' g d s Hpv
                     (conj Hw Hon) (Forall_True s) Ht) as (A & B & _).
  assert (K : forall x, Inv c True BPg HPg HDg RJg g (outside c d) d x -> TaskInvG c canon x).
  { intros x (_ & [(p & _ & [Hwp Hbp] & E)|(p & bs & _ & _ & [Hwp Hbp] & E)] & _);
      (eexists; split; [exact E|split; assumption]). }
  split; [|apply K; exact B]. eapply Forall_impl; [|exact A]. intros e. apply K.
Qed.

(* a successful step appends exactly the next k blocks of the chain *)
Lemma growth_converged : r_out (step c s d) = Fin OConverged ->
  exists ln lh k,
    pos_of c HPg HDg g ln lh /\ 1 <= k /\ k <= t_batch c
    /\ ln + k < height canon
    /\ pv c (r_db (step c s d)) = render c (g ++ [view hs (segment canon (ln + 1) k)])
    /\ outside c (r_db (step c s d)) = outside c d.
Proof.
  intros Ho.
  destruct (step_converged c Gg (fun _ => True) True BPg HPg HDg RJg Hc Gg_ok Gg_bp Gg_hp Gg_hd (fun _ _ => I) no_reorg' g d s Hpv
                           (conj Hw Hon) (Forall_True s) Ht Ho)
    as (p & q & bs & ln & lh & Eg & Hu & Hp & [Hwf Hbf] & Hpos & Hn & Hne & Hlen & _).
  apply unw_false in Hu. subst p.
  destruct (step_all c Gg (fun _ => True) True BPg HPg HDg RJg Hc Gg_ok Gg_bp Gg_hp Gg_hd (fun _ _ => I) no_reorg' g d s Hpv
                     (conj Hw Hon) (Forall_True s) Ht) as (_ & (Ho' & _) & _).
  rewrite concat_snoc in Hbf. apply Forall_app in Hbf. destruct Hbf as [_ Hbs].
  destruct (on_chain_run hs canon _ _ _ Hbs Hn) as [A B].
  exists ln, lh, (N.of_nat (length bs)).
  assert (Hl : length bs <> O) by (destruct bs; [congruence|discriminate]).
  specialize (B Hl). split; [exact Hpos|]. split; [lia|]. split; [exact Hlen|]. split; [lia|].
  split; [rewrite <- A; exact Hp|exact Ho'].
Qed.

(* any other outcome leaves the pair untouched (no unwind on a growing chain) *)
Lemma growth_not_converged : forall o,
  (forall i r, Gg i r -> r <> RFail KDropAfter) ->
  r_out (step c s d) = Fin o -> o <> OConverged -> pv c (r_db (step c s d)) = pv c d.
Proof.
  intros o Hnda Ho Hne.
  destruct (step_not_converged c Gg (fun _ => True) True BPg HPg HDg RJg Hc Gg_ok Gg_bp Gg_hp Gg_hd (fun _ _ => I) no_reorg' g d s Hpv
                               (conj Hw Hon) (Forall_True s) Ht o Hnda Ho Hne) as (p & q & _ & Hu & Hp).
  apply unw_false in Hu. subst p. rewrite Hp, Hpv. reflexivity.
Qed.
End OneStep.

(* all steps of a run, from the empty pair *)
Lemma growth_runs : forall ss d,
  TaskInvG c canon d -> runs_sat Gg c ss d ->
  Forall (TaskInvG c canon) (run_dbs c ss d) /\ TaskInvG c canon (run_end c ss d).
Proof.
  induction ss as [|s ss IH]; intros d Hi Hs; [split; [constructor|exact Hi]|].
  destruct Hs as [Ht Hs]. destruct Hi as (g & Hpv & Hw & Hon).
  destruct (growth_all g d s Hpv Hw Hon Ht) as [A B].
  destruct (IH _ B Hs) as [C D]. split.
  - cbn [run_dbs]. apply Forall_app. split; [|exact C].
    apply Forall_forall. intros x Hx. apply in_map_iff in Hx. destruct Hx as (e & <- & He).
    rewrite Forall_forall in A. apply (A e He).
  - unfold run_end in *. cbn [run_steps]. fold (step c s d).
    destruct (run_steps repaired c ss (r_db (step c s d))) as [d' os] eqn:E. cbn [fst] in *. exact D.
Qed.

(* the table is the projection of a contiguous run of the canonical chain that
   ends at the recorded position *)
Lemma growth_projection : forall d, TaskInvG c canon d ->
  (d_rows (pv c d) = [] /\ d_curs (pv c d) = [])
  \/ exists m k n h,
       d_rows (pv c d) = rows_of c (view hs (segment canon m k))
       /\ 1 <= k /\ m + k <= height canon
       /\ newest (t_src c) (t_ig c) (d_curs d) = Some (n, h) /\ n + 1 = m + k.
Proof.
  intros d (g & Hpv & Hw & Hon). pose proof (ghost_segment g Hw Hon) as Hs.
  destruct (concat g) as [|f l] eqn:E.
  - left. rewrite Hpv. cbn [render d_rows d_curs]. rewrite E. split; [reflexivity|].
    destruct g as [|b g']; [reflexivity|]. destruct Hw as (Hne & _). inversion Hne as [|? ? Hb _]; subst.
    cbn in E. apply app_eq_nil in E. destruct E. congruence.
  - right. destruct Hs as [Hs Hh].
    destruct (gpos g) as [[n h]|] eqn:Gp.
    2:{ unfold gpos in Gp. destruct (rev g) eqn:Er; [|discriminate].
        apply (f_equal (@rev _)) in Er. rewrite rev_involutive in Er. subst g. discriminate. }
    exists (b_num f), (N.of_nat (length (f :: l))), n, h.
    split; [rewrite Hpv; cbn [render d_rows]; rewrite E, <- Hs; reflexivity|].
    split; [cbn [length]; lia|]. split; [exact Hh|].
    split; [rewrite <- newest_pv, Hpv, <- Gp; apply newest_render; exact Hw|].
    (* the position is the number of the last block *)
    unfold gpos in Gp. destruct (rev g) as [|b r] eqn:Er; [discriminate|]. inversion Gp; subst.
    apply (f_equal (@rev _)) in Er. rewrite rev_involutive in Er. cbn [rev] in Er. subst g.
    destruct Hw as (Hne & Hch & _). rewrite Forall_forall in Hne.
    assert (Hb : b <> []) by (apply Hne; apply in_or_app; right; left; reflexivity).
    rewrite <- (last_blk_concat_snoc (rev r) b Hb), E.
    pose proof (chain_nums f l (eq_ind _ (fun z => chain_ok z = true) Hch _ E)) as Hn.
    destruct (length (f :: l)) as [|k] eqn:El; [discriminate|].
    rewrite (nums_from_last k (b_num f) (f :: l) Hn). lia.
Qed.

End Growth.
