(* Lemmas about Model/Schema.v, part 3: config.DDL (the schema printed by
   -print-schema) holds one table per name whose columns contain the columns
   of every integration that uses the name. *)
From Coq Require Import List NArith Bool String Ascii Lia.
From Shovel Require Import Base.Outcome Model.Config Model.Sql Model.Schema Proofs.ConfigP.
Import ListNotations.
Open Scope N_scope.

Definition covers (acc : list table) (g : integ) : Prop :=
  exists t, In t acc /\ t_name t = t_name (ig_table g) /\
            forall c, In c (col_names (ig_table g)) -> In c (col_names t).

Lemma NoDup_map_filter : forall {A B} (f : A -> B) (p : A -> bool) l,
  NoDup (map f l) -> NoDup (map f (List.filter p l)).
Proof.
  induction l as [|x l IH]; simpl; intros H; [constructor|]. inversion H; subst.
  destruct (p x); simpl; [constructor|]; auto.
  intro Hin. apply H2. apply in_map_iff in Hin as [y [Hy Hin]]. apply filter_In in Hin as [Hin _].
  rewrite <- Hy. apply in_map. exact Hin.
Qed.
Lemma NoDup_map_inj : forall {A B} (f : A -> B) l a b,
  NoDup (map f l) -> In a l -> In b l -> f a = f b -> a = b.
Proof.
  induction l as [|x l IH]; simpl; intros a b H Ha Hb E; [contradiction|]. inversion H; subst.
  destruct Ha as [Ha|Ha]; destruct Hb as [Hb|Hb]; subst; auto.
  - exfalso. apply H2. rewrite E. apply in_map. exact Hb.
  - exfalso. apply H2. rewrite <- E. apply in_map. exact Ha.
Qed.

Lemma union_cols_left : forall a b c, In c (map c_name a) -> In c (map c_name (union_cols a b)).
Proof. intros a b c H. unfold union_cols. rewrite map_app. apply in_or_app. left. exact H. Qed.
Lemma union_cols_right : forall a b c, In c (map c_name b) -> In c (map c_name (union_cols a b)).
Proof.
  intros a b c H. unfold union_cols. rewrite map_app. destruct (mem c (map c_name a)) eqn:E.
  - apply in_or_app. left. apply mem_In. exact E.
  - apply in_or_app. right. apply in_map_iff in H as [x [Hx Hin]]. apply in_map_iff. exists x. split; [exact Hx|].
    apply filter_In. split; [exact Hin|]. rewrite Hx, E. reflexivity.
Qed.

Lemma ddl_tables_covers : forall igs acc seen,
  NoDup (map t_name acc) -> (forall g, In g seen -> covers acc g) ->
  NoDup (map t_name (ddl_tables igs acc)) /\
  forall g, In g (seen ++ igs) -> covers (ddl_tables igs acc) g.
Proof.
  induction igs as [|g0 igs IH]; intros acc seen Hnd Hcov; simpl.
  - split; [exact Hnd|]. intros g Hg. rewrite app_nil_r in Hg. auto.
  - set (nt := ig_table g0).
    set (nt' := match find (fun t => str_eqb (t_name t) (t_name nt)) acc with
                | Some et => {| t_name := t_name nt; t_cols := union_cols (t_cols nt) (t_cols et);
                                t_unique := t_unique nt; t_index := t_index nt |}
                | None => nt end).
    set (rest := List.filter (fun t => negb (str_eqb (t_name t) (t_name nt))) acc).
    assert (Hname : t_name nt' = t_name nt).
    { unfold nt'. destruct (find _ acc); reflexivity. }
    assert (Hnd' : NoDup (map t_name (nt' :: rest))).
    { simpl. constructor; [|apply NoDup_map_filter; exact Hnd].
      intro Hin. apply in_map_iff in Hin as [t [Ht Hin]]. apply filter_In in Hin as [_ Hne].
      rewrite Ht, Hname, str_eqb_refl in Hne. discriminate. }
    assert (Hcov' : forall g, In g (seen ++ [g0]) -> covers (nt' :: rest) g).
    { intros g Hg. apply in_app_or in Hg as [Hg|[Hg|[]]].
      - destruct (Hcov g Hg) as [t [Ht [Hn Hc]]].
        destruct (str_eqb (t_name t) (t_name nt)) eqn:E.
        + apply str_eqb_eq in E. exists nt'. split; [left; reflexivity|]. split; [congruence|].
          intros c Hcin. unfold nt'.
          destruct (find (fun t0 => str_eqb (t_name t0) (t_name nt)) acc) as [et|] eqn:Ef.
          * apply find_some in Ef as [Hein Hen]. apply str_eqb_eq in Hen.
            assert (et = t) by (apply (NoDup_map_inj t_name acc); auto; congruence). subst et.
            unfold col_names. simpl. apply union_cols_right. apply Hc. exact Hcin.
          * exfalso. apply (find_none _ _ Ef) in Ht. rewrite E, str_eqb_refl in Ht. discriminate.
        + exists t. split; [right; apply filter_In; split; [exact Ht|rewrite E; reflexivity]|]. split; assumption.
      - subst g. exists nt'. split; [left; reflexivity|]. split; [exact Hname|].
        intros c Hcin. unfold nt'. destruct (find _ acc); [|exact Hcin].
        unfold col_names. simpl. apply union_cols_left. exact Hcin. }
    destruct (IH (nt' :: rest) (seen ++ [g0]) Hnd' Hcov') as [H1 H2]. split; [exact H1|].
    intros g Hg. apply H2. rewrite <- app_assoc. exact Hg.
Qed.

(* every integration's declared columns are in the printed table of its name *)
Theorem ddl_union_lemma : forall igs g, In g igs -> covers (ddl_tables igs []) g.
Proof.
  intros igs g Hg. destruct (ddl_tables_covers igs [] [] (NoDup_nil _) (fun _ H => match H with end)) as [_ H].
  apply H. exact Hg.
Qed.
