(* The sequential Client.Get of Model/CGet.v ([cget], the function the
   correspondence run compares with the implementation) is a run of the
   fine-grained system of the same file ([gstep], the system the composition
   theorem quantifies over): LOOKUP, READ, then one attach step per operation
   of the caller, all of them honest. *)
From Coq Require Import List NArith Bool Arith Lia ZifyBool ZifyN ZifyNat.
From Shovel Require Import Model.Cache Model.LogAttach Model.CGet
  Proofs.CacheP Proofs.LogAttachP Proofs.CGetP.
Import ListNotations.
Open Scope N_scope.

Fixpoint grun (s : sys (list blk)) (tr : list gev) : option (sys (list blk)) :=
  match tr with
  | [] => Some s
  | e :: r => match gstep s e with Some s1 => grun s1 r | None => None end
  end.

Lemma grun_app s a b :
  grun s (a ++ b) = match grun s a with Some s1 => grun s1 b | None => None end.
Proof.
  revert s; induction a as [|e r IH]; intros s; simpl; auto.
  destruct (gstep s e); auto.
Qed.

(* the attach events of a caller holding segment sid *)
Definition attach_events (sid : nat) (n : N) (ops : list aop) : list gev := map (GAttach sid n) ops.
Definition all_attach_events (ch : chain) (x : extra) (f : list N) (k : key) (sid : nat) : list gev :=
  flat_map (fun n => attach_events sid n (caller_ops ch x f n)) (krange k).

Lemma set_data_heap sid bs c sg :
  nth_error (c_heap c) sid = Some sg ->
  nth_error (c_heap (set_data sid bs c)) sid = Some (mkSeg (sg_key sg) (sg_nreads sg) (Some bs))
  /\ c_map (set_data sid bs c) = c_map c /\ c_max (set_data sid bs c) = c_max c.
Proof.
  intros H. unfold set_data. rewrite H. simpl. split; auto.
  apply nth_error_upd_eq. eapply nth_error_lt; eauto.
Qed.

Lemma upd_upd {A} (l : list A) i x y : upd (upd l i x) i y = upd l i y.
Proof. revert i; induction l as [|a r IH]; intros [|i]; simpl; auto. rewrite IH. reflexivity. Qed.

Lemma set_data_twice sid a b c sg :
  nth_error (c_heap c) sid = Some sg ->
  set_data sid b (set_data sid a c) = set_data sid b c.
Proof.
  intros H. destruct (set_data_heap sid a c sg H) as (H1 & _ & _).
  unfold set_data at 1. rewrite H1. simpl. unfold set_data. rewrite H. simpl.
  rewrite upd_upd. reflexivity.
Qed.

Lemma grun_attach_ops sid n ops : forall c pend sg bs,
  nth_error (c_heap c) sid = Some sg -> sg_data sg = Some bs ->
  grun (mkSys c pend) (attach_events sid n ops)
  = Some (mkSys (set_data sid (attach_ops n ops bs) c) pend).
Proof.
  induction ops as [|op r IH]; intros c pend sg bs N0 Dd; simpl.
  - unfold set_data. rewrite N0. f_equal. f_equal. destruct c as [mx m h]. simpl in *. f_equal.
    clear -N0 Dd. revert sid N0. induction h as [|a t IHh]; intros [|sid] H; simpl in *; try discriminate.
    + inversion H; subst. destruct sg; simpl in *; subst; reflexivity.
    + f_equal. apply IHh. auto.
  - unfold attach_at. rewrite N0, Dd.
    destruct (set_data_heap sid (blks_apply n (fun b => a_step b op) bs) c sg N0) as (H1 & _ & _).
    erewrite IH; [|exact H1|reflexivity].
    rewrite (set_data_twice _ _ _ _ _ N0). reflexivity.
Qed.

Lemma grun_attach_all ch x f sid ns : forall c pend sg bs,
  nth_error (c_heap c) sid = Some sg -> sg_data sg = Some bs ->
  grun (mkSys c pend) (flat_map (fun n => attach_events sid n (caller_ops ch x f n)) ns)
  = Some (mkSys (set_data sid (fold_left (fun bs n => attach_ops n (caller_ops ch x f n) bs) ns bs) c) pend).
Proof.
  induction ns as [|n r IH]; intros c pend sg bs N0 Dd; simpl.
  - apply (grun_attach_ops sid 0 [] c pend sg bs N0 Dd).
  - rewrite grun_app. rewrite (grun_attach_ops sid n _ c pend sg bs N0 Dd).
    destruct (set_data_heap sid (attach_ops n (caller_ops ch x f n) bs) c sg N0) as (H1 & _ & _).
    erewrite IH; [|exact H1|reflexivity].
    rewrite (set_data_twice _ _ _ _ _ N0). reflexivity.
Qed.

(* one sequential Get on cache kind b = this run of the fine-grained system *)
Lemma cget_is_grun ch op cl cl' r nb nx b :
  g_base op = Some b ->
  cget ch op cl = Some (cl', r, nb, nx) ->
  exists sid tr,
    grun (mkSys (pick b cl) []) tr = Some (mkSys (pick b cl') [])
    /\ (forall bs, r = GOk bs ->
          (exists sg, nth_error (c_heap (pick b cl')) sid = Some sg /\ sg_data sg = Some bs)
          /\ forall n o, In n (krange (g_key op)) -> In o (caller_ops ch (g_extra op) (g_filter op) n) ->
                         In (GAttach sid n o) tr)
    /\ (forall sid' d, In (GCache (ERead sid' (Some d))) tr -> d = fresh ch (Some b) (g_key op))
    /\ (forall sid' n o, In (GAttach sid' n o) tr ->
          In n (krange (g_key op)) /\ In o (caller_ops ch (g_extra op) (g_filter op) n)).
Proof.
  intros Hb H. unfold cget in H. rewrite Hb in H.
  destruct (lookup (g_key op) (g_kept op) (pick b cl)) as [[[c1 sid] cr]|] eqn:L; [|discriminate].
  set (res := if g_failb op then None else Some (fresh ch (Some b) (g_key op))) in *.
  destruct (read sid res c1) as [[[c2 ret] asked]|] eqn:Rd; [|discriminate].
  assert (PP : forall c, pick b (put b c cl) = c) by (intros; destruct b; reflexivity).
  assert (BASE : grun (mkSys (pick b cl) []) [GCache (ELookup (g_key op) (g_kept op)); GCache (ERead sid res)]
                 = Some (mkSys c2 [])).
  { simpl. rewrite L. simpl. rewrite Nat.eqb_refl, Rd. reflexivity. }
  assert (RES : forall sid' d, In (GCache (ERead sid' (Some d)))
                 [GCache (ELookup (g_key op) (g_kept op)); GCache (ERead sid res)] ->
                 d = fresh ch (Some b) (g_key op)).
  { intros sid' d [Hin|[Hin|[]]]; [discriminate|]. inversion Hin. unfold res in *.
    destruct (g_failb op); [discriminate|]. congruence. }
  destruct ret as [bs|].
  - destruct (read_spec _ _ _ _ _ _ Rd) as (sg & N0 & _ & _ & R3 & R4 & R5).
    assert (N2 : exists sg2, nth_error (c_heap c2) sid = Some sg2 /\ sg_data sg2 = Some bs).
    { rewrite R3. eexists. split; [apply nth_error_upd_eq; eapply nth_error_lt; eauto|]. simpl.
      destruct asked; [destruct (R5 eq_refl); congruence|destruct (R4 eq_refl); congruence]. }
    destruct N2 as (sg2 & N2 & D2).
    destruct (g_extra op) eqn:X.
    + (* no extra request *)
      inversion H; subst cl' r nb nx. clear H.
      exists sid, [GCache (ELookup (g_key op) (g_kept op)); GCache (ERead sid res)].
      rewrite PP. split; [|split; [|split]].
      * rewrite BASE. f_equal. f_equal. unfold set_data. rewrite N2.
        destruct c2 as [mx m h]. simpl in *. f_equal.
        clear -N2 D2. revert sid N2. induction h as [|a t IHh]; intros [|sid] Hn; simpl in *; try discriminate.
        -- inversion Hn; subst. destruct sg2; simpl in *; subst; reflexivity.
        -- f_equal. apply IHh. auto.
      * intros bs0 E. inversion E; subst bs0. split.
        -- destruct (set_data_heap sid bs c2 sg2 N2) as (H1 & _ & _). eexists. split; [exact H1|reflexivity].
        -- intros n o _ [].
      * exact RES.
      * intros sid' n o [Hin|[Hin|[]]]; discriminate.
    + (* logs *)
      destruct (g_failx op) eqn:FX.
      * inversion H; subst cl' r nb nx. clear H.
        exists sid, [GCache (ELookup (g_key op) (g_kept op)); GCache (ERead sid res)].
        rewrite PP. split; [exact BASE|]. split; [intros bs0 E; discriminate|]. split; [exact RES|].
        intros sid' n o [Hin|[Hin|[]]]; discriminate.
      * inversion H; subst cl' r nb nx. clear H.
        exists sid, ([GCache (ELookup (g_key op) (g_kept op)); GCache (ERead sid res)]
                     ++ all_attach_events ch XLogs (g_filter op) (g_key op) sid).
        rewrite PP, grun_app, BASE. split; [|split; [|split]].
        -- unfold all_attach_events. rewrite (grun_attach_all ch XLogs (g_filter op) sid _ c2 [] sg2 bs N2 D2).
           reflexivity.
        -- intros bs0 E. inversion E; subst bs0. split.
           ++ destruct (set_data_heap sid (attach_all ch XLogs (g_filter op) (g_key op) bs) c2 sg2 N2) as (H1 & _ & _).
              eexists. split; [exact H1|reflexivity].
           ++ intros n o Hn Ho. apply in_or_app. right. unfold all_attach_events.
              apply in_flat_map. exists n. split; auto. unfold attach_events. apply in_map. auto.
        -- intros sid' d Hin. apply in_app_or in Hin. destruct Hin as [Hin|Hin]; [eauto|].
           unfold all_attach_events in Hin. apply in_flat_map in Hin. destruct Hin as (n & _ & Hin).
           apply in_map_iff in Hin. destruct Hin as (o & E & _). discriminate.
        -- intros sid' n o Hin. apply in_app_or in Hin. destruct Hin as [[Hin|[Hin|[]]]|Hin]; try discriminate.
           unfold all_attach_events in Hin. apply in_flat_map in Hin. destruct Hin as (n' & Hn & Hin).
           apply in_map_iff in Hin. destruct Hin as (o' & E & Ho). inversion E; subst. auto.
    + (* receipts *)
      destruct (g_failx op) eqn:FX.
      * inversion H; subst cl' r nb nx. clear H.
        exists sid, [GCache (ELookup (g_key op) (g_kept op)); GCache (ERead sid res)].
        rewrite PP. split; [exact BASE|]. split; [intros bs0 E; discriminate|]. split; [exact RES|].
        intros sid' n o [Hin|[Hin|[]]]; discriminate.
      * inversion H; subst cl' r nb nx. clear H.
        exists sid, ([GCache (ELookup (g_key op) (g_kept op)); GCache (ERead sid res)]
                     ++ all_attach_events ch XReceipts (g_filter op) (g_key op) sid).
        rewrite PP, grun_app, BASE. split; [|split; [|split]].
        -- unfold all_attach_events. rewrite (grun_attach_all ch XReceipts (g_filter op) sid _ c2 [] sg2 bs N2 D2).
           reflexivity.
        -- intros bs0 E. inversion E; subst bs0. split.
           ++ destruct (set_data_heap sid (attach_all ch XReceipts (g_filter op) (g_key op) bs) c2 sg2 N2) as (H1 & _ & _).
              eexists. split; [exact H1|reflexivity].
           ++ intros n o Hn Ho. apply in_or_app. right. unfold all_attach_events.
              apply in_flat_map. exists n. split; auto. unfold attach_events. apply in_map. auto.
        -- intros sid' d Hin. apply in_app_or in Hin. destruct Hin as [Hin|Hin]; [eauto|].
           unfold all_attach_events in Hin. apply in_flat_map in Hin. destruct Hin as (n & _ & Hin).
           apply in_map_iff in Hin. destruct Hin as (o & E & _). discriminate.
        -- intros sid' n o Hin. apply in_app_or in Hin. destruct Hin as [[Hin|[Hin|[]]]|Hin]; try discriminate.
           unfold all_attach_events in Hin. apply in_flat_map in Hin. destruct Hin as (n' & Hn & Hin).
           apply in_map_iff in Hin. destruct Hin as (o' & E & Ho). inversion E; subst. auto.
  - (* the base fetch failed *)
    inversion H; subst cl' r nb nx. clear H.
    exists sid, [GCache (ELookup (g_key op) (g_kept op)); GCache (ERead sid res)].
    rewrite PP. split; [exact BASE|]. split; [intros bs0 E; discriminate|]. split; [exact RES|].
    intros sid' n o [Hin|[Hin|[]]]; discriminate.
Qed.

(* ---------- every key in the map points to a segment of that key ---------- *)
Definition map_ok (c : cache (list blk)) : Prop :=
  forall k sid, In (k, sid) (c_map c) ->
    exists sg, nth_error (c_heap c) sid = Some sg /\ sg_key sg = k.

Lemma map_ok_lookup k kept c c' sid cr :
  map_ok c -> lookup k kept c = Some (c', sid, cr) ->
  map_ok c' /\ exists sg, nth_error (c_heap c') sid = Some sg /\ sg_key sg = k.
Proof.
  intros M L. destruct (lookup_spec _ _ _ _ _ _ L) as (_ & _ & L3 & L4 & L5 & _).
  assert (NEW : exists sg, nth_error (c_heap c') sid = Some sg /\ sg_key sg = k).
  { destruct cr.
    - destruct (L4 eq_refl) as [-> ->]. exists (mkSeg k 0 None). split; auto.
      rewrite nth_error_app2 by lia. rewrite Nat.sub_diag. reflexivity.
    - destruct (L3 eq_refl) as (Hh & Hin & _). rewrite Hh. apply M; auto. }
  split; auto. intros k0 sid0 Hin. apply L5 in Hin. destruct Hin as [Hin|[-> Hin]].
  - destruct (M _ _ Hin) as (sg & H1 & H2). exists sg. split; auto.
    destruct cr.
    + destruct (L4 eq_refl) as [-> _]. apply nth_error_app_old; auto.
    + destruct (L3 eq_refl) as [-> _]. auto.
  - inversion Hin; subst. exact NEW.
Qed.

Lemma map_ok_upd_samekey c sid sg n d :
  map_ok c -> nth_error (c_heap c) sid = Some sg ->
  map_ok (mkCache (c_max c) (c_map c) (upd (c_heap c) sid (mkSeg (sg_key sg) n d))).
Proof.
  intros M N0 k sid0 Hin. simpl in *. destruct (M _ _ Hin) as (sg0 & H1 & H2).
  destruct (Nat.eq_dec sid sid0) as [<-|Hne].
  - rewrite nth_error_upd_eq by (eapply nth_error_lt; eauto). eexists. split; [reflexivity|]. simpl. congruence.
  - rewrite nth_error_upd_neq by auto. eauto.
Qed.

Lemma map_ok_read sid res c c' ret asked :
  map_ok c -> read sid res c = Some (c', ret, asked) -> map_ok c'.
Proof.
  intros M R. destruct (read_spec _ _ _ _ _ _ R) as (sg & N0 & R1 & R2 & R3 & _).
  pose proof (map_ok_upd_samekey c sid sg (sg_nreads sg + 1) (if asked then res else sg_data sg) M N0) as H.
  intros k sid0 Hin. rewrite R2 in Hin. specialize (H k sid0 Hin). simpl in H. rewrite R3. exact H.
Qed.

Lemma map_ok_set_data sid bs c : map_ok c -> map_ok (set_data sid bs c).
Proof.
  intros M. unfold set_data. destruct (nth_error (c_heap c) sid) as [sg|] eqn:N0; auto.
  apply map_ok_upd_samekey; auto.
Qed.

Lemma map_ok_gstep s e s' : map_ok (sy_cache s) -> gstep s e = Some s' -> map_ok (sy_cache s').
Proof.
  intros M S. destruct e as [[k kept|sid res]|sid n op]; simpl in S.
  - destruct (lookup k kept (sy_cache s)) as [[[c' sid] cr]|] eqn:L; [|discriminate].
    inversion S; subst. simpl. apply (map_ok_lookup _ _ _ _ _ _ M L).
  - destruct (remove_one sid (sy_pend s)); [|discriminate].
    destruct (read sid res (sy_cache s)) as [[[c' ret] asked]|] eqn:R; [|discriminate].
    inversion S; subst. simpl. eapply map_ok_read; eauto.
  - unfold attach_at in S. destruct (nth_error (c_heap (sy_cache s)) sid) as [sg|]; [|discriminate].
    destruct (sg_data sg); [|discriminate]. inversion S; subst. simpl. apply map_ok_set_data; auto.
Qed.

Lemma greach_map_ok ch b mx s tr : greach ch b mx s tr -> map_ok (sy_cache s).
Proof.
  induction 1.
  - intros k sid [].
  - eapply map_ok_gstep; eauto.
Qed.


Lemma greach_grun_attach ch b mx evs : forall s0 tr0 sf,
  greach ch b mx s0 tr0 -> grun s0 evs = Some sf ->
  (forall e, In e evs -> exists sid n o, e = GAttach sid n o /\ op_ok ch n o) ->
  greach ch b mx sf (tr0 ++ evs).
Proof.
  induction evs as [|e r IH]; intros s0 tr0 sf R G H; simpl in G.
  - inversion G; subst. rewrite app_nil_r. auto.
  - destruct (gstep s0 e) as [s1|] eqn:S; [|discriminate].
    replace (tr0 ++ e :: r) with ((tr0 ++ [e]) ++ r) by (rewrite <- app_assoc; reflexivity).
    eapply IH; eauto.
    + econstructor; eauto. destruct (H e (or_introl eq_refl)) as (sid & n & o & -> & Hok). exact Hok.
    + intros e' He'. apply H. right; auto.
Qed.

Lemma put_other b b' c cl : b <> b' -> pick b (put b' c cl) = pick b cl.
Proof. destruct b, b'; simpl; congruence. Qed.
Lemma pick_put b c cl : pick b (put b c cl) = c.
Proof. destruct b; reflexivity. Qed.

Lemma set_data_same sid bs c sg :
  nth_error (c_heap c) sid = Some sg -> sg_data sg = Some bs -> set_data sid bs c = c.
Proof.
  intros N0 Dd. unfold set_data. rewrite N0. destruct c as [mx m h]. simpl in *. f_equal.
  revert sid N0. induction h as [|a t IH]; intros [|sid] H; simpl in *; try discriminate.
  - inversion H; subst. destruct sg; simpl in *; subst; reflexivity.
  - f_equal. apply IH. auto.
Qed.

(* one Get on cache kind b extends a reachable history of that cache *)
Lemma cget_extends ch mx op cl cl' r nb nx b tr :
  chain_wf ch -> g_base op = Some b ->
  greach ch b mx (mkSys (pick b cl) []) tr ->
  cget ch op cl = Some (cl', r, nb, nx) ->
  exists tr', greach ch b mx (mkSys (pick b cl') []) tr'
    /\ forall bs, r = GOk bs ->
         Forall2 (same_view (g_extra op) (g_filter op)) bs
                 (uget ch (Some b) (g_extra op) (g_filter op) (g_key op)).
Proof.
  intros W Hb R H.
  pose proof (greach_map_ok _ _ _ _ _ R) as M. simpl in M.
  unfold cget in H. rewrite Hb in H.
  destruct (lookup (g_key op) (g_kept op) (pick b cl)) as [[[c1 sid] cr]|] eqn:L; [|discriminate].
  destruct (map_ok_lookup _ _ _ _ _ _ M L) as (M1 & sg1 & N1 & K1).
  set (res := if g_failb op then None else Some (fresh ch (Some b) (g_key op))) in *.
  destruct (read sid res c1) as [[[c2 ret] asked]|] eqn:Rd; [|discriminate].
  assert (S1 : gstep (mkSys (pick b cl) []) (GCache (ELookup (g_key op) (g_kept op))) = Some (mkSys c1 [sid])).
  { simpl. rewrite L. reflexivity. }
  assert (S2 : gstep (mkSys c1 [sid]) (GCache (ERead sid res)) = Some (mkSys c2 [])).
  { simpl. rewrite Nat.eqb_refl, Rd. reflexivity. }
  assert (R1 : greach ch b mx (mkSys c1 [sid]) (tr ++ [GCache (ELookup (g_key op) (g_kept op))])).
  { econstructor; eauto. simpl. exact I. }
  set (tr2 := (tr ++ [GCache (ELookup (g_key op) (g_kept op))]) ++ [GCache (ERead sid res)]).
  assert (R2 : greach ch b mx (mkSys c2 []) tr2).
  { econstructor; eauto. simpl. unfold res. destruct (g_failb op); [exact I|].
    unfold seg_key_of. rewrite N1, K1. reflexivity. }
  destruct (read_spec _ _ _ _ _ _ Rd) as (sg & N0 & _ & _ & R3 & R4 & R5).
  assert (SG : sg = sg1) by congruence. subst sg1.
  (* the generic attach phase *)
  assert (ATT : forall x bs, g_extra op = x -> ret = Some bs ->
            exists tr', greach ch b mx (mkSys (set_data sid (attach_all ch x (g_filter op) (g_key op) bs) c2) []) tr'
              /\ Forall2 (same_view x (g_filter op)) (attach_all ch x (g_filter op) (g_key op) bs)
                         (uget ch (Some b) x (g_filter op) (g_key op))).
  { intros x bs X Er. subst ret.
    assert (N2 : exists sg2, nth_error (c_heap c2) sid = Some sg2 /\ sg_data sg2 = Some bs /\ sg_key sg2 = g_key op).
    { rewrite R3. eexists. split; [apply nth_error_upd_eq; eapply nth_error_lt; eauto|]. simpl. split; auto.
      destruct asked; [destruct (R5 eq_refl); congruence|destruct (R4 eq_refl); congruence]. }
    destruct N2 as (sg2 & N2 & D2 & K2).
    set (evs := all_attach_events ch x (g_filter op) (g_key op) sid).
    assert (G : grun (mkSys c2 []) evs = Some (mkSys (set_data sid (attach_all ch x (g_filter op) (g_key op) bs) c2) [])).
    { unfold evs, all_attach_events. rewrite (grun_attach_all ch x (g_filter op) sid _ c2 [] sg2 bs N2 D2). reflexivity. }
    assert (HON : forall e, In e evs -> exists sid' n o, e = GAttach sid' n o /\ op_ok ch n o).
    { intros e He. unfold evs, all_attach_events in He. apply in_flat_map in He. destruct He as (n & Hn & He).
      apply in_map_iff in He. destruct He as (o & <- & Ho). exists sid, n, o. split; auto.
      eapply caller_ops_ok; eauto. }
    pose proof (greach_grun_attach ch b mx evs _ _ _ R2 G HON) as R4'.
    exists (tr2 ++ evs). split; auto.
    destruct (set_data_heap sid (attach_all ch x (g_filter op) (g_key op) bs) c2 sg2 N2) as (H1 & _ & _).
    pose proof (cached_equiv_uncached ch b mx _ _ W R4' sid _ _ x (g_filter op) H1 eq_refl) as CE.
    simpl in CE. rewrite K2 in CE. apply CE.
    intros n o Hn Ho. apply in_or_app. right. unfold evs, all_attach_events.
    apply in_flat_map. exists n. split; auto. apply in_map. auto. }
  destruct ret as [bs|].
  - destruct (g_extra op) eqn:X.
    + (* no extra request: attach_all with XNone is the identity *)
      inversion H; subst cl' r nb nx. clear H. rewrite pick_put.
      destruct (ATT XNone bs eq_refl eq_refl) as (tr' & Rf & V).
      assert (ID : attach_all ch XNone (g_filter op) (g_key op) bs = bs).
      { unfold attach_all. simpl. generalize bs as l. induction (krange (g_key op)) as [|n t IHt]; intros l; simpl; auto. }
      rewrite ID in *. exists tr'. split; auto. intros bs0 E. inversion E; subst. auto.
    + destruct (g_failx op).
      * inversion H; subst cl' r nb nx. clear H. rewrite pick_put. exists tr2. split; auto. intros bs0 E; discriminate.
      * inversion H; subst cl' r nb nx. clear H. rewrite pick_put.
        destruct (ATT XLogs bs eq_refl eq_refl) as (tr' & Rf & V).
        exists tr'. split; auto. intros bs0 E. inversion E; subst. auto.
    + destruct (g_failx op).
      * inversion H; subst cl' r nb nx. clear H. rewrite pick_put. exists tr2. split; auto. intros bs0 E; discriminate.
      * inversion H; subst cl' r nb nx. clear H. rewrite pick_put.
        destruct (ATT XReceipts bs eq_refl eq_refl) as (tr' & Rf & V).
        exists tr'. split; auto. intros bs0 E. inversion E; subst. auto.
  - inversion H; subst cl' r nb nx. clear H. rewrite pick_put. exists tr2. split; auto. intros bs0 E; discriminate.
Qed.

(* a Get that does not use cache kind b leaves it alone *)
Lemma cget_other ch op cl cl' r nb nx b :
  g_base op <> Some b -> cget ch op cl = Some (cl', r, nb, nx) -> pick b cl' = pick b cl.
Proof.
  intros Hb H. unfold cget in H. destruct (g_base op) as [b'|] eqn:E.
  - assert (b <> b') by congruence.
    destruct (lookup (g_key op) (g_kept op) (pick b' cl)) as [[[c1 sid] cr]|]; [|discriminate].
    destruct (read sid _ c1) as [[[c2 ret] asked]|]; [|discriminate].
    destruct ret as [bs|].
    + destruct (g_extra op); [inversion H; subst; apply put_other; auto| |];
        (destruct (g_failx op); inversion H; subst; apply put_other; auto).
    + inversion H; subst. apply put_other; auto.
  - destruct (g_extra op); [inversion H; subst; reflexivity| |];
      (destruct (g_failx op); inversion H; subst; reflexivity).
Qed.

Lemma cget_nocache ch op cl cl' r nb nx bs :
  g_base op = None -> cget ch op cl = Some (cl', r, nb, nx) -> r = GOk bs ->
  bs = uget ch None (g_extra op) (g_filter op) (g_key op).
Proof.
  intros Hb H E. subst r. unfold cget in H. rewrite Hb in H. unfold uget.
  destruct (g_extra op) eqn:X.
  - inversion H; subst. unfold attach_all. simpl.
    generalize (fresh ch None (g_key op)) as l.
    induction (krange (g_key op)) as [|n t IHt]; intros l; simpl; auto.
  - destruct (g_failx op); inversion H; subst. reflexivity.
  - destruct (g_failx op); inversion H; subst. reflexivity.
Qed.

Lemma cget_run_transparent_gen ch mx : chain_wf ch ->
  forall ops cl cl' outs,
  (forall b, exists tr, greach ch b mx (mkSys (pick b cl) []) tr) ->
  cget_run ch cl ops = Some (cl', outs) ->
  Forall2 (fun op out => transparent_result ch op (fst (fst out))) ops outs.
Proof.
  intros W. induction ops as [|op r IH]; intros cl cl' outs HR H; simpl in H.
  - inversion H; subst. constructor.
  - destruct (cget ch op cl) as [[[[cl1 res] nb] nx]|] eqn:G; [|discriminate].
    destruct (cget_run ch cl1 r) as [[cl2 outs']|] eqn:RR; [|discriminate].
    inversion H; subst cl' outs. clear H. constructor.
    + simpl. intros bs E. destruct (g_base op) as [b|] eqn:Hb.
      * destruct (HR b) as (tr & Rb). destruct (cget_extends ch mx op cl cl1 res nb nx b tr W Hb Rb G) as (tr' & _ & V).
        auto.
      * eapply cget_nocache; eauto.
    + apply (IH cl1 cl2 outs'); [|exact RR]. intros b. destruct (HR b) as (tr & Rb).
      destruct (g_base op) as [b'|] eqn:Hb.
      * assert (Dk : {b = b'} + {b <> b'}) by (destruct b, b'; (left; reflexivity) || (right; discriminate)).
        destruct Dk as [<-|Hne].
        -- destruct (cget_extends ch mx op cl cl1 res nb nx b tr W Hb Rb G) as (tr' & R' & _). eauto.
        -- rewrite (cget_other ch op cl cl1 res nb nx b); [eauto|congruence|auto].
      * rewrite (cget_other ch op cl cl1 res nb nx b); [eauto|congruence|auto].
Qed.

Lemma cget_run_transparent ch mx ops cl outs :
  chain_wf ch -> cget_run ch (new_client mx) ops = Some (cl, outs) ->
  Forall2 (fun op out => transparent_result ch op (fst (fst out))) ops outs.
Proof.
  intros W H. eapply cget_run_transparent_gen; eauto.
  intros b. exists []. destruct b; apply gr_init.
Qed.
