(* The sequential Client.Get of Model/CGet.v ([cget], the function the
   correspondence run compares with the implementation) is a run of the
   fine-grained system of the same file ([gstep], the system the composition
   theorem quantifies over): LOOKUP, READ, then one attach step per operation
   of the caller, all of them honest. *)
From Coq Require Import List NArith Bool Arith Lia ZifyBool ZifyN ZifyNat.
From Shovel Require Import Model.Cache Model.LogAttach Model.CGet
  Proofs.CacheP Proofs.LogAttachP Proofs.CGetP.
Import ListNotations.
Open Scope N_scope.

Fixpoint grun (s : sys (list blk)) (tr : list gev) : option (sys (list blk)) :=
  match tr with
  | [] => Some s
  | e :: r => match gstep s e with Some s1 => grun s1 r | None => None end
  end.

Lemma grun_app s a b :
  grun s (a ++ b) = match grun s a with Some s1 => grun s1 b | None => None end.
Proof.
  revert s; induction a as [|e r IH]; intros s; simpl; auto.
  destruct (gstep s e); auto.
Qed.

(* the attach events of a caller holding segment sid *)
Definition pair_events (sid : nat) (ps : list (N * aop)) : list gev :=
  map (fun p => GAttach sid (fst p) (snd p)) ps.

Lemma set_data_heap sid bs c sg :
  nth_error (c_heap c) sid = Some sg ->
  nth_error (c_heap (set_data sid bs c)) sid = Some (mkSeg (sg_key sg) (sg_nreads sg) (Some bs))
  /\ c_map (set_data sid bs c) = c_map c /\ c_max (set_data sid bs c) = c_max c.
Proof.
  intros H. unfold set_data. rewrite H. simpl. split; auto.
  apply nth_error_upd_eq. eapply nth_error_lt; eauto.
Qed.

Lemma upd_upd {A} (l : list A) i x y : upd (upd l i x) i y = upd l i y.
Proof. revert i; induction l as [|a r IH]; intros [|i]; simpl; auto. rewrite IH. reflexivity. Qed.

Lemma set_data_twice sid a b c sg :
  nth_error (c_heap c) sid = Some sg ->
  set_data sid b (set_data sid a c) = set_data sid b c.
Proof.
  intros H. destruct (set_data_heap sid a c sg H) as (H1 & _ & _).
  unfold set_data at 1. rewrite H1. simpl. unfold set_data. rewrite H. simpl.
  rewrite upd_upd. reflexivity.
Qed.

Lemma set_data_same sid bs c sg :
  nth_error (c_heap c) sid = Some sg -> sg_data sg = Some bs -> set_data sid bs c = c.
Proof.
  intros N0 Dd. unfold set_data. rewrite N0. destruct c as [mx m h]. simpl in *. f_equal.
  revert sid N0. induction h as [|a t IH]; intros [|sid] H; simpl in *; try discriminate.
  - inversion H; subst. destruct sg; simpl in *; subst; reflexivity.
  - f_equal. apply IH. auto.
Qed.

Lemma grun_attach_pairs sid ps : forall c pend sg bs,
  nth_error (c_heap c) sid = Some sg -> sg_data sg = Some bs ->
  grun (mkSys c pend) (pair_events sid ps)
  = Some (mkSys (set_data sid (attach_pairs ps bs) c) pend).
Proof.
  induction ps as [|p r IH]; intros c pend sg bs N0 Dd; simpl.
  - rewrite (set_data_same _ _ _ _ N0 Dd). reflexivity.
  - unfold attach_at. rewrite N0, Dd.
    destruct (set_data_heap sid (blks_apply (fst p) (fun b => a_step b (snd p)) bs) c sg N0) as (H1 & _ & _).
    erewrite IH; [|exact H1|reflexivity].
    rewrite (set_data_twice _ _ _ _ _ N0). reflexivity.
Qed.

(* ---------- what one Get attaches ---------- *)
Lemma trace_stop_ok ch ft ns : forall i j, trace_stop ch ft i ns = (j, true) -> j = length ns.
Proof.
  induction ns as [|n r IH]; intros i j H; simpl in H.
  - inversion H; reflexivity.
  - destruct (_ || _); [discriminate|].
    destruct (trace_stop ch ft (S i) r) as [j' ok] eqn:E. inversion H; subst. simpl. f_equal. eapply IH; eauto.
Qed.

Lemma in_pairs_of (F : N -> list aop) ns n o : In (n, o) (pairs_of F ns) <-> In n ns /\ In o (F n).
Proof.
  unfold pairs_of. rewrite in_flat_map. split.
  - intros (m & Hm & Hin). apply in_map_iff in Hin. destruct Hin as (o' & E & Ho). inversion E; subst. auto.
  - intros [Hn Ho]. exists n. split; auto. apply in_map. auto.
Qed.

Lemma call_plan_spec ch op ps ok nx nt :
  chain_wf ch -> call_plan ch op = (ps, ok, nx, nt) ->
  (forall n o, In (n, o) ps -> In n (krange (g_key op)) /\ op_ok ch n o)
  /\ (ok = true -> forall n o, In n (krange (g_key op)) ->
        In o (caller_ops ch (g_extra op) (g_traces op) (g_filter op) n) -> In (n, o) ps).
Proof.
  intros W H. unfold call_plan in H.
  set (k := g_key op) in *.
  assert (S1 : forall n o, In (n, o) (pairs_of (stage1_ops ch (g_extra op) (g_filter op)) (krange k)) ->
                           In n (krange k) /\ op_ok ch n o).
  { intros n o Hin. apply in_pairs_of in Hin. destruct Hin. split; auto. eapply stage1_ops_ok; eauto. }
  assert (T1 : forall j n o, In (n, o) (pairs_of (trace_ops ch) (firstn j (krange k))) ->
                           In n (krange k) /\ op_ok ch n o).
  { intros j n o Hin. apply in_pairs_of in Hin. destruct Hin as [Hn Ho]. split.
    - rewrite <- (firstn_skipn j (krange k)). apply in_or_app. auto.
    - eapply trace_ops_ok; eauto. }
  destruct (stage1_plan ch op) as [[ps1 ok1] nx1] eqn:E1.
  assert (E1' : (ps1 = [] /\ (g_extra op = XNone \/ ok1 = false))
                \/ (ps1 = pairs_of (stage1_ops ch (g_extra op) (g_filter op)) (krange k) /\ ok1 = true)).
  { unfold stage1_plan in E1. destruct (g_extra op); [inversion E1; auto| |];
      (destruct (g_failx op); inversion E1; auto). }
  assert (P1 : forall n o, In (n, o) ps1 -> In n (krange k) /\ op_ok ch n o).
  { destruct E1' as [[-> _]|[-> _]]; [intros n o []|exact S1]. }
  assert (P2 : ok1 = true -> forall n o, In n (krange k) ->
               In o (stage1_ops ch (g_extra op) (g_filter op) n) -> In (n, o) ps1).
  { intros Hok n o Hn Ho. destruct E1' as [[-> [Hx|Hx]]|[-> _]].
    - rewrite Hx in Ho. contradiction.
    - congruence.
    - apply in_pairs_of. auto. }
  destruct (ok1 && g_traces op) eqn:Et.
  - apply andb_true_iff in Et. destruct Et as [-> Et].
    destruct (trace_stop ch (g_failt op) 0 (krange k)) as [j ok2] eqn:Es.
    inversion H; subst ps ok nx nt. clear H. split.
    + intros n o Hin. apply in_app_or in Hin. destruct Hin; eauto.
    + intros -> n o Hn Ho. apply trace_stop_ok in Es. subst j. rewrite firstn_all.
      unfold caller_ops in Ho. rewrite Et in Ho. apply in_or_app. apply in_app_or in Ho. destruct Ho as [Ho|Ho].
      * left. apply P2; auto.
      * right. apply in_pairs_of. auto.
  - inversion H; subst ps ok nx nt. clear H. split; auto.
    intros -> n o Hn Ho. rewrite andb_true_l in Et. unfold caller_ops in Ho. rewrite Et, app_nil_r in Ho.
    apply P2; auto.
Qed.

(* ---------- every key in the map points to a segment of that key ---------- *)
Definition map_ok (c : cache (list blk)) : Prop :=
  forall k sid, In (k, sid) (c_map c) ->
    exists sg, nth_error (c_heap c) sid = Some sg /\ sg_key sg = k.

Lemma map_ok_lookup k kept c c' sid cr :
  map_ok c -> lookup k kept c = Some (c', sid, cr) ->
  map_ok c' /\ exists sg, nth_error (c_heap c') sid = Some sg /\ sg_key sg = k.
Proof.
  intros M L. destruct (lookup_spec _ _ _ _ _ _ L) as (_ & _ & L3 & L4 & L5 & _).
  assert (NEW : exists sg, nth_error (c_heap c') sid = Some sg /\ sg_key sg = k).
  { destruct cr.
    - destruct (L4 eq_refl) as [-> ->]. exists (mkSeg k 0 None). split; auto.
      rewrite nth_error_app2 by lia. rewrite Nat.sub_diag. reflexivity.
    - destruct (L3 eq_refl) as (Hh & Hin & _). rewrite Hh. apply M; auto. }
  split; auto. intros k0 sid0 Hin. apply L5 in Hin. destruct Hin as [Hin|[-> Hin]].
  - destruct (M _ _ Hin) as (sg & H1 & H2). exists sg. split; auto.
    destruct cr.
    + destruct (L4 eq_refl) as [-> _]. apply nth_error_app_old; auto.
    + destruct (L3 eq_refl) as [-> _]. auto.
  - inversion Hin; subst. exact NEW.
Qed.

Lemma map_ok_upd_samekey c sid sg n d :
  map_ok c -> nth_error (c_heap c) sid = Some sg ->
  map_ok (mkCache (c_max c) (c_map c) (upd (c_heap c) sid (mkSeg (sg_key sg) n d))).
Proof.
  intros M N0 k sid0 Hin. simpl in *. destruct (M _ _ Hin) as (sg0 & H1 & H2).
  destruct (Nat.eq_dec sid sid0) as [<-|Hne].
  - rewrite nth_error_upd_eq by (eapply nth_error_lt; eauto). eexists. split; [reflexivity|]. simpl. congruence.
  - rewrite nth_error_upd_neq by auto. eauto.
Qed.

Lemma map_ok_read sid res c c' ret asked :
  map_ok c -> read sid res c = Some (c', ret, asked) -> map_ok c'.
Proof.
  intros M R. destruct (read_spec _ _ _ _ _ _ R) as (sg & N0 & R1 & R2 & R3 & _).
  pose proof (map_ok_upd_samekey c sid sg (sg_nreads sg + 1) (if asked then res else sg_data sg) M N0) as H.
  intros k sid0 Hin. rewrite R2 in Hin. specialize (H k sid0 Hin). simpl in H. rewrite R3. exact H.
Qed.

Lemma map_ok_set_data sid bs c : map_ok c -> map_ok (set_data sid bs c).
Proof.
  intros M. unfold set_data. destruct (nth_error (c_heap c) sid) as [sg|] eqn:N0; auto.
  apply map_ok_upd_samekey; auto.
Qed.

Lemma map_ok_gstep s e s' : map_ok (sy_cache s) -> gstep s e = Some s' -> map_ok (sy_cache s').
Proof.
  intros M S. destruct e as [[k kept|sid res]|sid n op]; simpl in S.
  - destruct (lookup k kept (sy_cache s)) as [[[c' sid] cr]|] eqn:L; [|discriminate].
    inversion S; subst. simpl. apply (map_ok_lookup _ _ _ _ _ _ M L).
  - destruct (remove_one sid (sy_pend s)); [|discriminate].
    destruct (read sid res (sy_cache s)) as [[[c' ret] asked]|] eqn:R; [|discriminate].
    inversion S; subst. simpl. eapply map_ok_read; eauto.
  - unfold attach_at in S. destruct (nth_error (c_heap (sy_cache s)) sid) as [sg|]; [|discriminate].
    destruct (sg_data sg); [|discriminate]. inversion S; subst. simpl. apply map_ok_set_data; auto.
Qed.

Lemma greach_map_ok ch b mx s tr : greach ch b mx s tr -> map_ok (sy_cache s).
Proof.
  induction 1.
  - intros k sid [].
  - eapply map_ok_gstep; eauto.
Qed.


Lemma greach_grun_attach ch b mx evs : forall s0 tr0 sf,
  greach ch b mx s0 tr0 -> grun s0 evs = Some sf ->
  (forall e, In e evs -> exists sid n o, e = GAttach sid n o /\ op_ok ch n o) ->
  greach ch b mx sf (tr0 ++ evs).
Proof.
  induction evs as [|e r IH]; intros s0 tr0 sf R G H; simpl in G.
  - inversion G; subst. rewrite app_nil_r. auto.
  - destruct (gstep s0 e) as [s1|] eqn:S; [|discriminate].
    replace (tr0 ++ e :: r) with ((tr0 ++ [e]) ++ r) by (rewrite <- app_assoc; reflexivity).
    eapply IH; eauto.
    + econstructor; eauto. destruct (H e (or_introl eq_refl)) as (sid & n & o & -> & Hok). exact Hok.
    + intros e' He'. apply H. right; auto.
Qed.

Lemma put_other b b' c cl : b <> b' -> pick b (put b' c cl) = pick b cl.
Proof. destruct b, b'; simpl; congruence. Qed.
Lemma pick_put b c cl : pick b (put b c cl) = c.
Proof. destruct b; reflexivity. Qed.

(* One Get on cache kind b = a run of the fine-grained system: LOOKUP, READ
   whose answer (if any) is the chain's blocks of the key, then exactly the
   operations of [call_plan], all honest; it extends a reachable history; a
   successful result is the data of the segment it was handed and has the view
   of the uncached result. *)
Lemma cget_extends ch mx op cl cl' r nb nx nt b tr :
  chain_wf ch -> g_base op = Some b ->
  greach ch b mx (mkSys (pick b cl) []) tr ->
  cget ch op cl = Some (cl', r, nb, nx, nt) ->
  exists sid evs,
    grun (mkSys (pick b cl) []) evs = Some (mkSys (pick b cl') [])
    /\ greach ch b mx (mkSys (pick b cl') []) (tr ++ evs)
    /\ (forall sid' d, In (GCache (ERead sid' (Some d))) evs -> d = fresh ch (Some b) (g_key op))
    /\ (forall sid' n o, In (GAttach sid' n o) evs -> sid' = sid /\ In n (krange (g_key op)) /\ op_ok ch n o)
    /\ forall bs, r = GOk bs ->
         (exists sg, nth_error (c_heap (pick b cl')) sid = Some sg /\ sg_data sg = Some bs)
         /\ (forall n o, In n (krange (g_key op)) ->
               In o (caller_ops ch (g_extra op) (g_traces op) (g_filter op) n) -> In (GAttach sid n o) evs)
         /\ Forall2 (same_view (g_extra op) (g_traces op) (g_filter op)) bs
                    (uget ch (Some b) (g_extra op) (g_traces op) (g_filter op) (g_key op)).
Proof.
  intros W Hb R H.
  pose proof (greach_map_ok _ _ _ _ _ R) as M. simpl in M.
  unfold cget in H. destruct (call_plan ch op) as [[[ps ok] nx0] nt0] eqn:CP. rewrite Hb in H.
  destruct (call_plan_spec ch op ps ok nx0 nt0 W CP) as [CP1 CP2].
  destruct (lookup (g_key op) (g_kept op) (pick b cl)) as [[[c1 sid] cr]|] eqn:L; [|discriminate].
  destruct (map_ok_lookup _ _ _ _ _ _ M L) as (M1 & sg1 & N1 & K1).
  set (res := if g_failb op then None else Some (fresh ch (Some b) (g_key op))) in *.
  destruct (read sid res c1) as [[[c2 ret] asked]|] eqn:Rd; [|discriminate].
  set (ev1 := GCache (ELookup (g_key op) (g_kept op))). set (ev2 := GCache (ERead sid res)).
  assert (S1 : gstep (mkSys (pick b cl) []) ev1 = Some (mkSys c1 [sid])).
  { simpl. rewrite L. reflexivity. }
  assert (S2 : gstep (mkSys c1 [sid]) ev2 = Some (mkSys c2 [])).
  { simpl. rewrite Nat.eqb_refl, Rd. reflexivity. }
  assert (R1 : greach ch b mx (mkSys c1 [sid]) (tr ++ [ev1])).
  { econstructor; eauto. simpl. exact I. }
  assert (R2 : greach ch b mx (mkSys c2 []) ((tr ++ [ev1]) ++ [ev2])).
  { econstructor; eauto. simpl. unfold res. destruct (g_failb op); [exact I|].
    unfold seg_key_of. rewrite N1, K1. reflexivity. }
  assert (BASE : grun (mkSys (pick b cl) []) [ev1; ev2] = Some (mkSys c2 [])).
  { unfold grun. rewrite S1, S2. reflexivity. }
  assert (RES : forall sid' d, In (GCache (ERead sid' (Some d))) [ev1; ev2] -> d = fresh ch (Some b) (g_key op)).
  { intros sid' d [Hin|[Hin|[]]]; [discriminate|]. inversion Hin. unfold res in *.
    destruct (g_failb op); [discriminate|]. congruence. }
  destruct (read_spec _ _ _ _ _ _ Rd) as (sg & N0 & _ & _ & R3 & R4 & R5).
  assert (SG : sg = sg1) by congruence. subst sg1.
  destruct ret as [bs|].
  - assert (N2 : exists sg2, nth_error (c_heap c2) sid = Some sg2 /\ sg_data sg2 = Some bs /\ sg_key sg2 = g_key op).
    { rewrite R3. eexists. split; [apply nth_error_upd_eq; eapply nth_error_lt; eauto|]. simpl. split; auto.
      destruct asked; [destruct (R5 eq_refl); congruence|destruct (R4 eq_refl); congruence]. }
    destruct N2 as (sg2 & N2 & D2 & K2).
    inversion H; subst cl' r nb nx nt. clear H. rewrite pick_put.
    set (evs := pair_events sid ps).
    assert (G : grun (mkSys c2 []) evs = Some (mkSys (set_data sid (attach_pairs ps bs) c2) [])).
    { apply (grun_attach_pairs sid ps c2 [] sg2 bs N2 D2). }
    assert (EV : forall sid' n o, In (GAttach sid' n o) evs -> sid' = sid /\ In (n, o) ps).
    { intros sid' n o Hin. unfold evs, pair_events in Hin. apply in_map_iff in Hin.
      destruct Hin as ([n' o'] & E & Hp). inversion E; subst. auto. }
    assert (HON : forall e, In e evs -> exists sid' n o, e = GAttach sid' n o /\ op_ok ch n o).
    { intros e He. unfold evs, pair_events in He. apply in_map_iff in He. destruct He as ([n o] & <- & Hp).
      exists sid, n, o. split; auto. apply (CP1 n o Hp). }
    pose proof (greach_grun_attach ch b mx evs _ _ _ R2 G HON) as R4'.
    exists sid, ([ev1; ev2] ++ evs). split; [|split; [|split; [|split]]].
    + rewrite grun_app, BASE. exact G.
    + replace (tr ++ [ev1; ev2] ++ evs) with (((tr ++ [ev1]) ++ [ev2]) ++ evs); [exact R4'|].
      rewrite <- !app_assoc. reflexivity.
    + intros sid' d Hin. apply in_app_or in Hin. destruct Hin as [Hin|Hin]; [eauto|].
      unfold evs, pair_events in Hin. apply in_map_iff in Hin. destruct Hin as (p & E & _). discriminate.
    + intros sid' n o Hin. apply in_app_or in Hin. destruct Hin as [[Hin|[Hin|[]]]|Hin]; try discriminate.
      destruct (EV _ _ _ Hin) as [-> Hp]. destruct (CP1 n o Hp). auto.
    + intros bs0 E. destruct ok; [|discriminate]. inversion E; subst bs0. clear E.
      destruct (set_data_heap sid (attach_pairs ps bs) c2 sg2 N2) as (H1 & _ & _).
      assert (ALL : forall n o, In n (krange (g_key op)) ->
                In o (caller_ops ch (g_extra op) (g_traces op) (g_filter op) n) ->
                In (GAttach sid n o) ([ev1; ev2] ++ evs)).
      { intros n o Hn Ho. apply in_or_app. right. unfold evs, pair_events.
        apply in_map_iff. exists (n, o). split; auto. }
      split; [eexists; split; [exact H1|reflexivity]|]. split; [exact ALL|].
      pose proof (cached_equiv_uncached ch b mx _ _ W R4' sid _ _ (g_extra op) (g_traces op) (g_filter op) H1 eq_refl) as CE.
      simpl in CE. rewrite K2 in CE. apply CE.
      intros n o Hn Ho. apply in_or_app. right. unfold evs, pair_events.
      apply in_map_iff. exists (n, o). split; auto.
  - inversion H; subst cl' r nb nx nt. clear H. rewrite pick_put.
    exists sid, [ev1; ev2]. split; [exact BASE|]. split; [|split; [exact RES|split]].
    + replace (tr ++ [ev1; ev2]) with ((tr ++ [ev1]) ++ [ev2]); [exact R2|]. rewrite <- app_assoc. reflexivity.
    + intros sid' n o [Hin|[Hin|[]]]; discriminate.
    + intros bs0 E; discriminate.
Qed.

(* a Get that does not use cache kind b leaves it alone *)
Lemma cget_other ch op cl cl' r nb nx nt b :
  g_base op <> Some b -> cget ch op cl = Some (cl', r, nb, nx, nt) -> pick b cl' = pick b cl.
Proof.
  intros Hb H. unfold cget in H. destruct (call_plan ch op) as [[[ps ok] nx0] nt0].
  destruct (g_base op) as [b'|] eqn:E.
  - assert (b <> b') by congruence.
    destruct (lookup (g_key op) (g_kept op) (pick b' cl)) as [[[c1 sid] cr]|]; [|discriminate].
    destruct (read sid _ c1) as [[[c2 ret] asked]|]; [|discriminate].
    destruct ret as [bs|]; inversion H; subst; apply put_other; auto.
  - inversion H; subst. reflexivity.
Qed.

Lemma call_plan_ok_all ch op ps nx nt :
  call_plan ch op = (ps, true, nx, nt) ->
  ps = pairs_of (stage1_ops ch (g_extra op) (g_filter op)) (krange (g_key op))
       ++ (if g_traces op then pairs_of (trace_ops ch) (krange (g_key op)) else []).
Proof.
  unfold call_plan. intros H.
  destruct (stage1_plan ch op) as [[ps1 ok1] nx1] eqn:E1.
  assert (P : ok1 = true -> ps1 = pairs_of (stage1_ops ch (g_extra op) (g_filter op)) (krange (g_key op))).
  { intros ->. unfold stage1_plan in E1. destruct (g_extra op).
    - inversion E1; subst. unfold pairs_of. simpl. clear. induction (krange (g_key op)); simpl; auto.
    - destruct (g_failx op); inversion E1; auto.
    - destruct (g_failx op); inversion E1; auto. }
  destruct ok1; simpl in H.
  - destruct (g_traces op).
    + destruct (trace_stop ch (g_failt op) 0 (krange (g_key op))) as [j ok2] eqn:Es.
      inversion H; subst. apply trace_stop_ok in Es. subst j. rewrite firstn_all. rewrite P; auto.
    + inversion H; subst. rewrite app_nil_r. auto.
  - inversion H.
Qed.

Lemma cget_nocache ch op cl cl' r nb nx nt bs :
  g_base op = None -> cget ch op cl = Some (cl', r, nb, nx, nt) -> r = GOk bs ->
  bs = uget ch None (g_extra op) (g_traces op) (g_filter op) (g_key op).
Proof.
  intros Hb H E. subst r. unfold cget in H.
  destruct (call_plan ch op) as [[[ps ok] nx0] nt0] eqn:CP. rewrite Hb in H.
  destruct ok; inversion H; subst. unfold uget.
  rewrite (call_plan_ok_all _ _ _ _ _ CP). reflexivity.
Qed.

Lemma cget_run_transparent_gen ch mx : chain_wf ch ->
  forall ops cl cl' outs,
  (forall b, exists tr, greach ch b mx (mkSys (pick b cl) []) tr) ->
  cget_run ch cl ops = Some (cl', outs) ->
  Forall2 (fun op out => transparent_result ch op (fst (fst (fst out)))) ops outs.
Proof.
  intros W. induction ops as [|op r IH]; intros cl cl' outs HR H; simpl in H.
  - inversion H; subst. constructor.
  - destruct (cget ch op cl) as [[[[[cl1 res] nb] nx] nt]|] eqn:G; [|discriminate].
    destruct (cget_run ch cl1 r) as [[cl2 outs']|] eqn:RR; [|discriminate].
    inversion H; subst cl' outs. clear H. constructor.
    + simpl. intros bs E. destruct (g_base op) as [b|] eqn:Hb.
      * destruct (HR b) as (tr & Rb).
        destruct (cget_extends ch mx op cl cl1 res nb nx nt b tr W Hb Rb G) as (sid & evs & _ & _ & _ & _ & V).
        apply (V bs E).
      * eapply cget_nocache; eauto.
    + apply (IH cl1 cl2 outs'); [|exact RR]. intros b. destruct (HR b) as (tr & Rb).
      destruct (g_base op) as [b'|] eqn:Hb.
      * assert (Dk : {b = b'} + {b <> b'}) by (destruct b, b'; (left; reflexivity) || (right; discriminate)).
        destruct Dk as [<-|Hne].
        -- destruct (cget_extends ch mx op cl cl1 res nb nx nt b tr W Hb Rb G) as (sid & evs & _ & R' & _). eauto.
        -- rewrite (cget_other ch op cl cl1 res nb nx nt b); [eauto|congruence|auto].
      * rewrite (cget_other ch op cl cl1 res nb nx nt b); [eauto|congruence|auto].
Qed.

Lemma cget_run_transparent ch mx ops cl outs :
  chain_wf ch -> cget_run ch (new_client mx) ops = Some (cl, outs) ->
  Forall2 (fun op out => transparent_result ch op (fst (fst (fst out)))) ops outs.
Proof.
  intros W H. eapply cget_run_transparent_gen; eauto.
  intros b. exists []. destruct b; apply gr_init.
Qed.
