(* Proofs about part (ii) of Model/Manager.v, continued: the generation that a
   completed Restart leaves behind really runs -- in the repaired code the
   restart channel of the generation that owns the lock is closed ONLY while a
   Run started by Restart is queued behind it; once every Restart call has
   returned the channel is open, so every runner that reaches its select goes
   on into Converge (C20).  [waiting] must therefore be given back by every
   Run that took the lock, also by one whose loadTasks fails. *)
From Coq Require Import List Arith PeanoNat NArith Bool Lia.
From Shovel Require Import Base.Outcome Model.Manager
  Proofs.ManagerRunP Proofs.ManagerRunP2 Proofs.ManagerRunP3 Proofs.ManagerRunP4.
Import ListNotations.

Record InvC (s : state) : Prop := {
  C_cur : cur s < nch s;
  C_fresh : Forall (fun c => c < nch s) (closed s);
  C_open : forall h x, lock s = Some h -> nth_error (runs s) h = Some x ->
           owns_channel Fixed (r_pc x) = true -> is_closed s (cur s) = true -> 0 < nq s;
  C_rst : forall r x, nth_error (runs s) r = Some x -> r_restarted x = true ->
          exists k y, nth_error (rsts s) k = Some y /\ rst_run y = Some r
}.

Lemma is_closed_in : forall s c, is_closed s c = true -> In c (closed s).
Proof.
  intros s c H. unfold is_closed in H. apply existsb_exists in H. destruct H as [x [Hin He]].
  apply Nat.eqb_eq in He. subst. exact Hin.
Qed.

Lemma invc_init : InvC init.
Proof.
  constructor; simpl; try lia; try constructor.
  - intros h x H. discriminate.
  - intros [|r] x H Hr; [inversion H; subst; discriminate | destruct r; discriminate].
Qed.

(* the lock owner moves between two program points; channel, closed set and
   the queue are untouched *)
Lemma invc_move : forall s s' r x x',
  Inv s -> InvC s -> nth_error (runs s) r = Some x -> holding (r_pc x) = true ->
  runs s' = upd (runs s) r x' -> rsts s' = rsts s -> lock s' = lock s \/ lock s' = None ->
  cur s' = cur s -> nch s' = nch s -> closed s' = closed s ->
  queued x = false -> queued x' = false -> r_restarted x' = r_restarted x ->
  (owns_channel Fixed (r_pc x') = true -> owns_channel Fixed (r_pc x) = true) ->
  InvC s'.
Proof.
  intros s s' r x x' HI [Hc Hf Ho Hr] Hx Hh Er Ek El Ec En Ecl Hq Hq' Ers Hown.
  assert (Hlock : lock s = Some r) by (apply (I_hold s HI _ _ Hx Hh)).
  assert (Hnq : nq s' = nq s).
  { unfold nq. rewrite Er. pose proof (count_upd_qr (runs s) r x x' Hx) as Hcu.
    rewrite Hq, Hq' in Hcu. simpl in Hcu. lia. }
  constructor.
  - rewrite Ec, En. exact Hc.
  - rewrite Ecl, En. exact Hf.
  - intros h y Hl Hy Hoy Hcl. destruct El as [El | El]; [|congruence].
    rewrite El, Hlock in Hl. inversion Hl; subst h.
    rewrite Er, (nth_upd_eq _ _ _ _ Hx) in Hy. inversion Hy; subst y.
    rewrite Hnq. apply (Ho r x Hlock Hx (Hown Hoy)).
    unfold is_closed in *. rewrite Ecl, Ec in Hcl. exact Hcl.
  - intros r0 x0 H0 Hr0. rewrite Er in H0. rewrite Ek. apply nth_upd_cases in H0.
    destruct H0 as [[E1 E2] | [N H0]]; [subst; apply (Hr r x Hx); congruence | apply (Hr _ _ H0 Hr0)].
Qed.

Lemma invc_step : forall s a, Inv s -> InvW s -> InvC s -> InvC (step Fixed s a).
Proof.
  intros s a HI HW HC. unfold step. destruct (crashed s); [exact HC|].
  destruct a as [| |k|k|r|r|r res|r|r|r|t|t dn].
  - destruct HC as [Hc Hf Ho Hr]. constructor; assumption.
  - destruct HC as [Hc Hf Ho Hr]. constructor; try assumption. simpl.
    intros r x Hx Hrx. destruct (Hr _ _ Hx Hrx) as [k [y [Hk Hy]]]. exists k, y. split; [apply nth_snoc_old; exact Hk | exact Hy].
  - (* ARestartClose *)
    destruct (nth_error (rsts s) k) as [[[| |] kv]|] eqn:Hk; try exact HC.
    destruct HC as [Hc Hf Ho Hr].
    assert (Hgrow : forall s', cur s' = cur s -> nch s' = nch s ->
              (closed s' = closed s \/ closed s' = cur s :: closed s) ->
              runs s' = runs s ++ [new_run s true] ->
              rsts s' = upd (rsts s) k {| k_pc := KWaiting (List.length (runs s)); k_ver := kv |} -> InvC s').
    { intros s' Ec En Ecl Er Ek. constructor.
      - rewrite Ec, En. exact Hc.
      - rewrite En. destruct Ecl as [E | E]; rewrite E; [exact Hf | constructor; [exact Hc | exact Hf]].
      - intros h x _ _ _ _. unfold nq. rewrite Er, count_snoc. simpl. lia.
      - intros r x Hx Hrx. rewrite Er in Hx. rewrite Ek. apply nth_snoc_cases in Hx. destruct Hx as [Hx | [E1 E2]].
        + destruct (Hr _ _ Hx Hrx) as [k0 [y [Hk0 Hy]]].
          assert (Hne : k0 <> k) by (intro E; subst k0; rewrite Hk in Hk0; inversion Hk0; subst y; discriminate).
          exists k0, y. split; [rewrite nth_upd_neq by congruence; exact Hk0 | exact Hy].
        + subst r. exists k. eexists. split; [apply (nth_upd_eq _ _ _ _ Hk) | reflexivity]. }
    destruct (is_closed s (cur s)); apply Hgrow; try reflexivity; [left | right]; reflexivity.
  - (* ARestartReturn *)
    destruct (nth_error (rsts s) k) as [[[|r|] kv]|] eqn:Hk; try exact HC.
    destruct (nth_error (runs s) r) as [x|] eqn:Hx; try exact HC.
    destruct (r_ec x) as [ok|]; try exact HC.
    destruct HC as [Hc Hf Ho Hr]. constructor; try assumption. simpl.
    intros r0 x0 H0 Hr0. destruct (Hr _ _ H0 Hr0) as [k0 [y [Hk0 Hy]]].
    destruct (Nat.eq_dec k0 k) as [E | N].
    + subst k0. rewrite Hk in Hk0. inversion Hk0; subst y. exists k. eexists. split; [apply (nth_upd_eq _ _ _ _ Hk) | exact Hy].
    + exists k0, y. split; [rewrite nth_upd_neq by congruence; exact Hk0 | exact Hy].
  - (* ALock *)
    destruct (lock s) eqn:Hlk; [exact HC|].
    destruct (nth_error (runs s) r) as [x|] eqn:Hx; [|exact HC].
    destruct (r_pc x) eqn:Hpc; try exact HC.
    destruct HC as [Hc Hf Ho Hr]. constructor; simpl; try assumption.
    + intros h y Hl Hy Hoy. inversion Hl; subst h. rewrite (nth_upd_eq _ _ _ _ Hx) in Hy. inversion Hy; subst y. discriminate.
    + intros r0 x0 H0 Hr0. apply nth_upd_cases in H0.
      destruct H0 as [[E1 E2] | [N H0]]; [subst; apply (Hr r x Hx); exact Hr0 | apply (Hr _ _ H0 Hr0)].
  - (* AReplace *)
    destruct (nth_error (runs s) r) as [x|] eqn:Hx; [|exact HC].
    cbv zeta. destruct (r_pc x) eqn:Hpc; try exact HC.
    assert (Hlock : lock s = Some r) by (apply (I_hold s HI _ _ Hx); rewrite Hpc; reflexivity).
    destruct HW as [HWc HS]. destruct HC as [Hc Hf Ho Hr].
    assert (Hnq : forall s', runs s' = upd (runs s) r (with_pc x RLoad) -> nq s' = nq s).
    { intros s' Er. unfold nq. rewrite Er. pose proof (count_upd_qr (runs s) r x (with_pc x RLoad) Hx) as Hcu.
      unfold queued in Hcu. simpl in Hcu. rewrite Hpc in Hcu. simpl in Hcu. lia. }
    assert (Hp : pend s = b2n (r_restarted x)).
    { unfold pend. rewrite Hlock, Hx, Hpc. simpl. destruct (r_restarted x); reflexivity. }
    unfold replace_chan.
    set (w := if r_restarted x then Nat.pred (waiting s) else waiting s).
    assert (Hw : w = nq s) by (unfold w; rewrite HWc, Hp; destruct (r_restarted x); simpl; lia).
    constructor; simpl.
    + lia.
    + assert (Hf' : Forall (fun c => c < S (nch s)) (closed s)).
      { apply (Forall_impl _ (fun c (H : c < nch s) => Nat.lt_lt_succ_r _ _ H) Hf). }
      destruct (Nat.ltb 0 w); [constructor; [lia | exact Hf'] | exact Hf'].
    + intros h y Hl Hy Hoy Hcl. rewrite Hnq by reflexivity. rewrite <- Hw.
      destruct (Nat.ltb 0 w) eqn:Hlt; [apply Nat.ltb_lt; exact Hlt|].
      exfalso. unfold is_closed in Hcl. simpl in Hcl. apply existsb_exists in Hcl. destruct Hcl as [c [Hin He]].
      apply Nat.eqb_eq in He. subst c. rewrite Forall_forall in Hf. specialize (Hf _ Hin). lia.
    + intros r0 x0 H0 Hr0. apply nth_upd_cases in H0.
      destruct H0 as [[E1 E2] | [N H0]]; [subst; apply (Hr r x Hx); exact Hr0 | apply (Hr _ _ H0 Hr0)].
  - (* ALoad *)
    destruct (nth_error (runs s) r) as [x|] eqn:Hx; [|exact HC].
    destruct (r_pc x) eqn:Hpc; try exact HC.
    eapply (invc_move s _ r x); [exact HI | exact HC | exact Hx | rewrite Hpc; reflexivity | reflexivity | reflexivity
      | left; reflexivity | reflexivity | reflexivity | reflexivity | | | | ];
      unfold queued; rewrite ?Hpc; simpl; try reflexivity; destruct res; reflexivity.
  - (* ASignal *)
    destruct (nth_error (runs s) r) as [x|] eqn:Hx; [|exact HC].
    destruct (r_pc x) eqn:Hpc; try exact HC;
      (eapply (invc_move s _ r x); [exact HI | exact HC | exact Hx | rewrite Hpc; reflexivity | reflexivity | reflexivity
        | left; reflexivity | reflexivity | reflexivity | reflexivity | | | | ]);
      unfold queued; rewrite ?Hpc; simpl; try reflexivity; try discriminate.
  - (* ASpawn *)
    destruct (nth_error (runs s) r) as [x|] eqn:Hx; [|exact HC].
    destruct (r_pc x) eqn:Hpc; try exact HC.
    eapply (invc_move s _ r x); [exact HI | exact HC | exact Hx | rewrite Hpc; reflexivity | reflexivity | reflexivity
      | left; reflexivity | reflexivity | reflexivity | reflexivity | | | | ];
      unfold queued; rewrite ?Hpc; simpl; reflexivity.
  - (* AUnlock *)
    destruct (nth_error (runs s) r) as [x|] eqn:Hx; [|exact HC].
    assert (Hrel : holding (r_pc x) = true -> queued x = false ->
              InvC {| lock := None; cur := cur s; nch := nch s; closed := closed s; waiting := waiting s;
                      crashed := false; ver := ver s; lv := lv s;
                      runs := upd (runs s) r (with_pc x RDone); rsts := rsts s; tasks := tasks s |}).
    { intros Hh Hq. eapply (invc_move s _ r x); [exact HI | exact HC | exact Hx | exact Hh | reflexivity | reflexivity
        | right; reflexivity | reflexivity | reflexivity | reflexivity | exact Hq | reflexivity | reflexivity | ].
      simpl. discriminate. }
    destruct (r_pc x) eqn:Hpc; try exact HC.
    + destruct (all_exited s r); [|exact HC]. apply Hrel; unfold queued; rewrite ?Hpc; reflexivity.
    + apply Hrel; unfold queued; rewrite ?Hpc; reflexivity.
  - destruct (nth_error (tasks s) t) as [[g [| |]]|]; try exact HC.
    destruct HC as [Hc Hf Ho Hr]. constructor; assumption.
  - destruct (nth_error (tasks s) t) as [[g [| |]]|]; try exact HC.
    destruct HC as [Hc Hf Ho Hr]. constructor; assumption.
Qed.

Lemma reach_all : forall sched,
  let s := exec Fixed init sched in Inv s /\ Inv2 s /\ InvW s /\ InvC s.
Proof.
  intro sched.
  assert (H : forall s, Inv s -> Inv2 s -> InvW s -> InvC s ->
            Inv (exec Fixed s sched) /\ Inv2 (exec Fixed s sched) /\ InvW (exec Fixed s sched) /\ InvC (exec Fixed s sched)).
  { induction sched as [|a sched IH]; intros s H1 H2 HW HC; simpl; [split; [exact H1 | split; [exact H2 | split; [exact HW | exact HC]]]|].
    apply IH; [apply inv_step; exact H1 | apply inv2_step; assumption | apply invw_step; assumption | apply invc_step; assumption]. }
  apply (H init inv_init inv2_init invw_init invc_init).
Qed.

(* the channel of the generation that owns the lock is closed only while a Run
   started by Restart is queued behind it *)
Lemma channel_closed_only_if_queued_l : forall sched h x,
  let s := exec Fixed init sched in
  lock s = Some h -> nth_error (runs s) h = Some x -> owns_channel Fixed (r_pc x) = true ->
  (is_closed s (cur s) = true <-> 0 < nq s).
Proof.
  intros sched h x s Hl Hx Ho. destruct (reach_all sched) as [_ [_ [[_ HS] HC]]]. fold s in HS, HC. split.
  - apply (C_open s HC h x Hl Hx Ho).
  - apply (HS h x Hl Hx Ho).
Qed.

(* Once every Restart call has returned (in particular right after the last
   one returned nil), the generation that owns the lock has an OPEN restart
   channel: every runner that reaches its select goes on into Converge
   (ATaskCheck takes it to TStep), and none of them returns unless it finishes
   by itself. *)
Lemma loaded_generation_runs_l : forall sched h x,
  let s := exec Fixed init sched in
  all_returned s = true ->
  lock s = Some h -> nth_error (runs s) h = Some x -> owns_channel Fixed (r_pc x) = true ->
  is_closed s (cur s) = false
  /\ forall t g, nth_error (tasks s) t = Some g -> g_pc g = TCheck ->
       nth_error (tasks (step Fixed s (ATaskCheck t))) t = Some {| g_gen := g_gen g; g_pc := TStep |}.
Proof.
  intros sched h x s Hall Hl Hx Ho.
  destruct (reach_all sched) as [HI [H2 [HW HC]]]. fold s in HI, H2, HW, HC.
  assert (Hopen : is_closed s (cur s) = false).
  { destruct (is_closed s (cur s)) eqn:Hcl; [|reflexivity]. exfalso.
    pose proof (C_open s HC h x Hl Hx Ho Hcl) as Hq.
    destruct (nq_pos_exists s Hq) as [r [y [Hy [Hqy Hry]]]].
    destruct (C_rst s HC _ _ Hy Hry) as [k [z [Hk Hz]]].
    unfold all_returned in Hall. rewrite forallb_forall in Hall. specialize (Hall z (nth_error_In _ _ Hk)).
    destruct z as [[|r'|r' ok] kv]; simpl in Hall, Hz; try discriminate. inversion Hz; subst r'.
    destruct (V_ret s H2 _ _ _ _ Hk) as [y' [Hy' Hec]]. rewrite Hy in Hy'. inversion Hy'; subst y'.
    assert (Hn : r_ec y = None).
    { apply (V_noec s H2 _ _ Hy). unfold queued in Hqy. destruct (r_pc y); try discriminate. reflexivity. }
    congruence. }
  split; [exact Hopen|].
  intros t g Hg Hp. unfold step.
  assert (Hc : crashed s = false) by (apply restart_never_crashes_l).
  rewrite Hc, Hg. destruct g as [gg gp]. simpl in Hp. subst gp. simpl. rewrite Hopen.
  apply (nth_upd_eq _ _ _ _ Hg).
Qed.
