(* C08 x C07: caching never lets a rejected reply through and never weakens
   validation (Model/CacheClient.v over Model/Client.v and Model/Cache.v). *)
From Coq Require Import List Arith NArith Bool Lia.
From Shovel Require Import Base.Outcome Model.Cache Model.Client Model.ClientSpec Model.CacheClient
  Proofs.CacheP Proofs.ClientP.
Import ListNotations.
Open Scope N_scope.

(* ---------- the step lists are Client.v's loops ---------- *)
Lemma rsteps_spec s l es : forall i bs bs',
  receipts_loop repaired s l i es bs = Ok bs' <-> run_steps (rsteps s l i es) bs = (bs', true).
Proof.
  induction es as [|e r IH]; intros i bs bs'; simpl.
  - split; intros H; inversion H; reflexivity.
  - destruct (receipts_elem repaired s l i e bs) as [bs1| |]; simpl.
    + apply IH.
    + split; discriminate.
    + split; discriminate.
Qed.

Lemma gsteps_spec gs : forall bs bs',
  logs_groups repaired gs bs = Ok bs' <-> run_steps (gsteps gs) bs = (bs', true).
Proof.
  induction gs as [|[k g] r IH]; intros bs bs'; simpl.
  - split; intros H; inversion H; reflexivity.
  - destruct (on_block (fst k) (log_group repaired (snd k) g) bs) as [bs1| |]; simpl.
    + apply IH.
    + split; discriminate.
    + split; discriminate.
Qed.

Lemma tsteps_spec s n : forall i rs bs bs',
  traces_loop repaired s i n rs bs = Ok bs' <-> run_steps (tsteps s i n rs) bs = (bs', true).
Proof.
  induction n as [|n IH]; intros i rs bs bs'; simpl.
  - split; intros H; inversion H; reflexivity.
  - destruct rs as [|r rest]; simpl; [split; discriminate|].
    destruct (traces_elem repaired s i r bs) as [bs1| |]; simpl.
    + apply IH.
    + split; discriminate.
    + split; discriminate.
Qed.

Lemma receipts_p_spec s l r bs bs' :
  receipts repaired s l r bs = Ok bs' <-> receipts_p s l r bs = (bs', true).
Proof.
  unfold receipts, receipts_p. destruct r as [|es]; [split; discriminate|].
  destruct (existsb re_err es); [split; discriminate|]. simpl.
  destruct (length es <? N.to_nat l)%nat; [split; discriminate|]. apply rsteps_spec.
Qed.

Lemma logs_p_spec s l r bs bs' :
  logs repaired s l r bs = Ok bs' <-> logs_p s l r bs = (bs', true).
Proof.
  unfold logs, logs_p. destruct r as [|lb]; [split; discriminate|]. simpl.
  destruct (lb_len lb <? 2)%nat; [split; discriminate|].
  destruct (lb_herr lb); [split; discriminate|]. destruct (lb_lerr lb); [split; discriminate|].
  destruct (lb_hdr lb) as [h|]; [|split; discriminate].
  destruct (lb_logs lb) as [ls|]; [|split; discriminate].
  destruct (hdr_skew (s + l - 1) h bs); [split; discriminate|].
  destruct (logs_scan repaired s l ls) as [ok| |]; simpl; [apply gsteps_spec|split; discriminate|split; discriminate].
Qed.

Lemma traces_p_spec s l rs bs bs' :
  traces repaired s l rs bs = Ok bs' <-> traces_p s l rs bs = (bs', true).
Proof. unfold traces, traces_p. apply tsteps_spec. Qed.

(* the attach phase succeeds exactly when Client.v's does, with the same result *)
Lemma attach_p_spec p s l w bs bs' :
  attach repaired p s l w bs = Ok bs' <-> attach_p p s l w bs = (bs', true).
Proof.
  unfold attach, attach_p, attach1, attach2. rewrite does_traces_repaired.
  assert (T : forall bs1, (if use_traces p then traces repaired s l (w_traces w) bs1 else Ok bs1) = Ok bs'
                          <-> (if use_traces p then traces_p s l (w_traces w) bs1 else (bs1, true)) = (bs', true)).
  { intros bs1. destruct (use_traces p); [apply traces_p_spec|]. split; intros H; inversion H; reflexivity. }
  destruct (use_receipts p); [|destruct (use_logs p)].
  - destruct (receipts repaired s l (w_receipts w) bs) as [bs1| |] eqn:E; simpl.
    + apply receipts_p_spec in E. rewrite E. apply T.
    + destruct (receipts_p s l (w_receipts w) bs) as [b1 [|]] eqn:E2.
      * apply receipts_p_spec in E2. congruence.
      * split; discriminate.
    + destruct (receipts_p s l (w_receipts w) bs) as [b1 [|]] eqn:E2.
      * apply receipts_p_spec in E2. congruence.
      * split; discriminate.
  - destruct (logs repaired s l (w_logs w) bs) as [bs1| |] eqn:E; simpl.
    + apply logs_p_spec in E. rewrite E. apply T.
    + destruct (logs_p s l (w_logs w) bs) as [b1 [|]] eqn:E2.
      * apply logs_p_spec in E2. congruence.
      * split; discriminate.
    + destruct (logs_p s l (w_logs w) bs) as [b1 [|]] eqn:E2.
      * apply logs_p_spec in E2. congruence.
      * split; discriminate.
  - simpl. apply T.
Qed.

(* ---------- every step leaves the headers alone ---------- *)
Definition hdr_safe (s : N) (f : bstep) : Prop :=
  forall bs bs', numbered s bs -> hashes_known bs -> f bs = Ok bs' -> map hdr bs' = map hdr bs.

Lemma map_hdr_num bs' bs : map hdr bs' = map hdr bs -> map b_num bs' = map b_num bs.
Proof.
  revert bs; induction bs' as [|x r IH]; intros [|y q] H; simpl in *; try discriminate; auto.
  inversion H as [[H1 H2]]. f_equal; auto.
Qed.

Lemma log_group_hdr_nonempty ti g b b' :
  b_hash b <> [] -> log_group repaired ti g b = Ok b' -> hdr b' = hdr b.
Proof.
  unfold log_group. intros Hne H. apply bind_ok in H. destruct H as [b1 [Hh Hb]]. inversion Hb; subst b'. clear Hb.
  simpl in Hh. apply set_hashes_spec in Hh. destruct Hh as [h [-> [H1 _]]]. unfold hdr. simpl.
  destruct H1 as [H1|H1]; congruence.
Qed.

Lemma on_block_hdr_safe s n f :
  (forall b b', b_hash b <> [] -> f b = Ok b' -> hdr b' = hdr b) -> hdr_safe s (on_block n f).
Proof.
  intros Hf bs bs' Hn Hk H. eapply on_block_proj; [|exact H]. intros b b' Hin Hb. apply Hf; auto.
Qed.

Lemma receipts_elem_hdr_safe s l i e : hdr_safe s (receipts_elem repaired s l i e).
Proof.
  intros bs bs' Hn Hk H. unfold receipts_elem in H. simpl in H.
  destruct (re_res e) as [[|r0 rs]|]; [inversion H; reflexivity| |discriminate].
  destruct (forallb _ (r0 :: rs)); [|discriminate].
  eapply (on_block_hdr_safe s); eauto. intros b b'. apply rcpt_block_hdr_nonempty.
Qed.

Lemma traces_elem_hdr_safe s i r : hdr_safe s (traces_elem repaired s i r).
Proof.
  intros bs bs' Hn Hk H. unfold traces_elem in H. simpl in H.
  destruct r as [|e]; [discriminate|]. destruct (te_err e); [discriminate|].
  destruct (te_res e) as [[|t0 ts]|]; try discriminate.
  destruct (forallb _ (t0 :: ts)); [|discriminate].
  eapply (on_block_hdr_safe s); eauto. intros b b'. apply trace_block_hdr_nonempty.
Qed.

Lemma run_steps_hdr s st : Forall (hdr_safe s) st ->
  forall bs bs' ok, numbered s bs -> hashes_known bs -> run_steps st bs = (bs', ok) -> map hdr bs' = map hdr bs.
Proof.
  induction 1 as [|f r Hf Hr IH]; intros bs bs' ok Hn Hk H; simpl in H.
  - inversion H; reflexivity.
  - destruct (f bs) as [bs1| |] eqn:E; try (inversion H; reflexivity).
    pose proof (Hf _ _ Hn Hk E) as H1.
    rewrite (IH _ _ _ (numbered_proj _ _ _ (map_hdr_num _ _ H1) Hn) (hashes_hdr _ _ H1 Hk) H). exact H1.
Qed.

Lemma rsteps_safe s l es : forall i, Forall (hdr_safe s) (rsteps s l i es).
Proof. induction es; intros i; simpl; constructor; auto. apply receipts_elem_hdr_safe. Qed.
Lemma gsteps_safe s gs : Forall (hdr_safe s) (gsteps gs).
Proof.
  induction gs as [|[k g] r IH]; simpl; constructor; auto.
  apply on_block_hdr_safe. intros b b'. apply log_group_hdr_nonempty.
Qed.
Lemma tsteps_safe s n : forall i rs, Forall (hdr_safe s) (tsteps s i n rs).
Proof.
  induction n; intros i rs; simpl; [constructor|]. destruct rs; constructor; auto.
  - intros bs bs' _ _ H. discriminate.
  - apply traces_elem_hdr_safe.
Qed.

(* whatever the attach phase does, and however far it gets, the headers stay *)
Lemma attach_p_hdr p s l w bs bs' ok :
  numbered s bs -> hashes_known bs -> attach_p p s l w bs = (bs', ok) -> map hdr bs' = map hdr bs.
Proof.
  intros Hn Hk H. unfold attach_p in H.
  assert (S1 : forall bs1 ok1,
            (if use_receipts p then receipts_p s l (w_receipts w) bs
             else if use_logs p then logs_p s l (w_logs w) bs else (bs, true)) = (bs1, ok1) ->
            map hdr bs1 = map hdr bs).
  { intros bs1 ok1 E. destruct (use_receipts p); [|destruct (use_logs p)].
    - unfold receipts_p in E. destruct (w_receipts w) as [|es]; [inversion E; reflexivity|].
      destruct (existsb re_err es); [inversion E; reflexivity|].
      destruct (length es <? N.to_nat l)%nat; [inversion E; reflexivity|].
      eapply (run_steps_hdr s _ (rsteps_safe s l _ _)); eauto.
    - unfold logs_p in E. destruct (w_logs w) as [|lb]; [inversion E; reflexivity|].
      destruct (lb_len lb <? 2)%nat; [inversion E; reflexivity|].
      destruct (lb_herr lb); [inversion E; reflexivity|]. destruct (lb_lerr lb); [inversion E; reflexivity|].
      destruct (lb_hdr lb); [|inversion E; reflexivity]. destruct (lb_logs lb); [|inversion E; reflexivity].
      destruct (hdr_skew _ _ _); [inversion E; reflexivity|].
      destruct (logs_scan repaired s l l0); try (inversion E; reflexivity).
      eapply (run_steps_hdr s _ (gsteps_safe s _)); eauto.
    - inversion E; reflexivity. }
  destruct (if use_receipts p then _ else _) as [bs1 ok1] eqn:E1.
  pose proof (S1 _ _ eq_refl) as H1.
  destruct ok1; [|inversion H; subst; exact H1].
  destruct (use_traces p); [|inversion H; subst; exact H1].
  unfold traces_p in H.
  rewrite (run_steps_hdr s _ (tsteps_safe s _ _ _) _ _ _
             (numbered_proj _ _ _ (map_hdr_num _ _ H1) Hn) (hashes_hdr _ _ H1 Hk) H). exact H1.
Qed.

(* what an accepted attach phase did, by C07 *)
Lemma attach_ok_faithful p s l w base bs :
  numbered s base -> length base = N.to_nat l -> attach repaired p s l w base = Ok bs ->
  numbered s bs /\ length bs = N.to_nat l /\ attach_faithful p s l w base bs.
Proof.
  intros Hn Hl Ha. unfold attach in Ha. apply bind_ok in Ha. destruct Ha as [mid [H1 H2]].
  assert (S1 : numbered s mid /\ length mid = length base /\ stage1_faithful p s l w base mid).
  { unfold attach1 in H1. unfold stage1_faithful, attach_kind.
    destruct (use_receipts p); [|destruct (use_logs p)].
    - destruct (receipts_top_spec _ _ _ _ _ Hn Hl H1) as [A1 [A2 A3]]. auto.
    - destruct (logs_top_spec _ _ _ _ _ Hn Hl H1) as [A1 [A2 A3]]. auto.
    - inversion H1; subst mid. auto. }
  destruct S1 as [Hnm [Hlm S1]].
  unfold attach2 in H2. rewrite does_traces_repaired in H2.
  assert (S2 : numbered s bs /\ length bs = length mid /\ stage2_faithful p s l w mid bs).
  { unfold stage2_faithful. destruct (use_traces p).
    - destruct (traces_top_spec _ _ _ _ _ Hnm H2) as [A1 [A2 A3]]. auto.
    - inversion H2; subst bs. auto. }
  destruct S2 as [Hnb [Hlb S2]].
  split; [exact Hnb|]. split; [congruence|]. exists mid. auto.
Qed.

(* ---------- the cache hands out the segment of the key ---------- *)
Section MapOk.
Context {D : Type}.
Definition map_okD (c : cache D) : Prop :=
  forall k sid, In (k, sid) (c_map c) -> exists sg, nth_error (c_heap c) sid = Some sg /\ sg_key sg = k.

Lemma map_okD_lookup k kept (c c' : cache D) sid cr :
  map_okD c -> lookup k kept c = Some (c', sid, cr) ->
  map_okD c' /\ (exists sg, nth_error (c_heap c') sid = Some sg /\ sg_key sg = k)
  /\ forall i sg, nth_error (c_heap c) i = Some sg -> nth_error (c_heap c') i = Some sg.
Proof.
  intros M L. destruct (lookup_spec _ _ _ _ _ _ L) as (_ & _ & L3 & L4 & L5 & _).
  assert (OLD : forall i sg, nth_error (c_heap c) i = Some sg -> nth_error (c_heap c') i = Some sg).
  { intros i sg H. destruct cr.
    - destruct (L4 eq_refl) as [-> _]. apply nth_error_app_old; auto.
    - destruct (L3 eq_refl) as [-> _]. auto. }
  assert (NEW : exists sg, nth_error (c_heap c') sid = Some sg /\ sg_key sg = k).
  { destruct cr.
    - destruct (L4 eq_refl) as [-> ->]. exists (mkSeg k 0 None). split; auto.
      rewrite nth_error_app2 by lia. rewrite Nat.sub_diag. reflexivity.
    - destruct (L3 eq_refl) as (Hh & Hin & _). rewrite Hh. apply M; auto. }
  split; [|split; auto]. intros k0 sid0 Hin. apply L5 in Hin. destruct Hin as [Hin|[-> Hin]].
  - destruct (M _ _ Hin) as (sg & H1 & H2). exists sg. split; auto.
  - inversion Hin; subst. exact NEW.
Qed.

Lemma map_okD_upd (c : cache D) sid sg n d :
  map_okD c -> nth_error (c_heap c) sid = Some sg ->
  map_okD (mkCache (c_max c) (c_map c) (upd (c_heap c) sid (mkSeg (sg_key sg) n d))).
Proof.
  intros M N0 k sid0 Hin. simpl in *. destruct (M _ _ Hin) as (sg0 & H1 & H2).
  destruct (Nat.eq_dec sid sid0) as [<-|Hne].
  - rewrite nth_error_upd_eq by (eapply nth_error_lt; eauto). eexists. split; [reflexivity|]. simpl. congruence.
  - rewrite nth_error_upd_neq by auto. eauto.
Qed.
End MapOk.

(* ---------- the invariant of one cache ---------- *)
(* every filled segment holds, header by header, the blocks of a reply to its
   own key that passed validation, out of the reply families seen so far *)
Definition seg_ok (rep : world -> reply (list belem)) (ws : list world) (c : cache (list block)) : Prop :=
  forall sid sg bs, nth_error (c_heap c) sid = Some sg -> sg_data sg = Some bs ->
    exists w0 fb, In w0 ws
      /\ fetch_blocks repaired (fst (sg_key sg)) (snd (sg_key sg)) (rep w0) = Ok fb
      /\ map hdr bs = map hdr fb.

Lemma seg_ok_more rep ws ws' c : seg_ok rep ws c -> incl ws ws' -> seg_ok rep ws' c.
Proof.
  intros H I sid sg bs N0 Dd. destruct (H _ _ _ N0 Dd) as (w0 & fb & Hin & F & E). exists w0, fb. auto.
Qed.

Lemma fetched_facts s l r fb base :
  fetch_blocks repaired s l r = Ok fb -> map hdr base = map hdr fb ->
  blocks_reply_ok s l r fb /\ numbered s base /\ length base = N.to_nat l /\ linked base /\ hashes_known base.
Proof.
  intros F E. destruct (fetch_blocks_spec _ _ _ _ F) as (R & Hn & Hl & Hk).
  assert (Len : length fb = N.to_nat l) by (destruct R as (es & _ & _ & _ & _ & L & _); exact L).
  split; auto. split; [eapply numbered_proj; [apply map_hdr_num; exact E|exact Hn]|].
  split; [rewrite <- Len, <- (map_length hdr base), E, map_length; reflexivity|].
  split; [eapply linked_hdr; eauto|eapply hashes_hdr; eauto].
Qed.

(* one Get through a cache: the invariants are kept and a successful result is validated *)
Lemma via_cache_ok op rep ws c c' res :
  (block_reply (cc_plan op) (cc_world op) = rep (cc_world op)) -> fetches (cc_plan op) = true ->
  (forall w0, block_reply (cc_plan op) w0 = rep w0) ->
  map_okD c -> seg_ok rep ws c ->
  via_cache op (rep (cc_world op)) c = Some (c', res) ->
  map_okD c' /\ seg_ok rep (ws ++ [cc_world op]) c'
  /\ forall bs, res = Ok bs -> validated op (ws ++ [cc_world op]) bs.
Proof.
  intros _ Hf Hrep M S H. unfold via_cache in H.
  set (p := cc_plan op) in *. set (s := cc_s op) in *. set (l := cc_l op) in *. set (w := cc_world op) in *.
  destruct (lookup (s, l) (cc_kept op) c) as [[[c1 sid] cr]|] eqn:L; [|discriminate].
  destruct (map_okD_lookup _ _ _ _ _ _ M L) as (M1 & (sg1 & N1 & K1) & OLD).
  assert (S1 : seg_ok rep ws c1).
  { intros i sg bs N0 Dd. destruct (lookup_spec _ _ _ _ _ _ L) as (_ & _ & L3 & L4 & _ & _).
    destruct cr.
    - destruct (L4 eq_refl) as [Hh Hs]. rewrite Hh in N0.
      destruct (Nat.lt_ge_cases i (length (c_heap c))) as [Hlt|Hge].
      + rewrite nth_error_app1 in N0 by auto. eapply S; eauto.
      + rewrite nth_error_app2 in N0 by auto. destruct (i - length (c_heap c))%nat as [|j]; simpl in N0.
        * inversion N0; subst sg. discriminate.
        * destruct j; discriminate.
    - destruct (L3 eq_refl) as [Hh _]. rewrite Hh in N0. eapply S; eauto. }
  unfold read_f in H.
  destruct (read sid (fetch_value (getter_outcome s l (rep w))) c1) as [[[c2 ret] asked]|] eqn:Rd; [|discriminate].
  destruct (read_spec _ _ _ _ _ _ Rd) as (sg & N0 & R1 & R2 & R3 & R4 & R5).
  assert (SG : sg = sg1) by congruence. subst sg1.
  assert (LT : (sid < length (c_heap c1))%nat) by (eapply nth_error_lt; eauto).
  assert (M2 : map_okD c2).
  { pose proof (map_okD_upd c1 sid sg (sg_nreads sg + 1)
                 (if asked then fetch_value (getter_outcome s l (rep w)) else sg_data sg) M1 N0) as Hm.
    intros k sid0 Hin. rewrite R2 in Hin. specialize (Hm k sid0 Hin). simpl in Hm. rewrite R3. exact Hm. }
  (* what the segment holds after READ *)
  assert (S2 : seg_ok rep (ws ++ [w]) c2).
  { intros i sg0 bs N2 Dd. rewrite R3 in N2. destruct (Nat.eq_dec sid i) as [<-|Hne].
    - rewrite nth_error_upd_eq in N2 by auto. inversion N2; subst sg0. simpl in *.
      destruct asked.
      + unfold getter_outcome in Dd. destruct (fetch_blocks repaired s l (rep w)) as [fb| |] eqn:F; try discriminate.
        simpl in Dd. inversion Dd; subst bs. exists w, fb. rewrite K1. simpl.
        split; [apply in_or_app; right; left; reflexivity|]. split; auto.
      + destruct (S1 _ _ _ N0 Dd) as (w0 & fb & Hin & F & E). exists w0, fb.
        split; [apply in_or_app; left; auto|]. auto.
    - rewrite nth_error_upd_neq in N2 by auto. destruct (S1 _ _ _ N2 Dd) as (w0 & fb & Hin & F & E).
      exists w0, fb. split; [apply in_or_app; left; auto|]. auto. }
  destruct ret as [bs|].
  - assert (N2 : exists sg2, nth_error (c_heap c2) sid = Some sg2 /\ sg_data sg2 = Some bs /\ sg_key sg2 = (s, l)).
    { rewrite R3. eexists. split; [apply nth_error_upd_eq; auto|]. simpl. split; auto.
      destruct asked; [destruct (R5 eq_refl); congruence|destruct (R4 eq_refl); congruence]. }
    destruct N2 as (sg2 & N2 & D2 & K2).
    destruct (S2 _ _ _ N2 D2) as (w0 & fb & Hin & F & E). rewrite K2 in F. simpl in F.
    destruct (fetched_facts _ _ _ _ _ F E) as (RO & Hn & Hl & Hlk & Hk).
    destruct (attach_p p s l w bs) as [bs' ok] eqn:A. inversion H; subst c' res. clear H.
    pose proof (attach_p_hdr _ _ _ _ _ _ _ Hn Hk A) as HH.
    split; [|split].
    + unfold set_seg_data. rewrite N2. apply map_okD_upd; auto.
    + intros i sg0 bs0 N3 Dd. unfold set_seg_data in N3. rewrite N2 in N3. simpl in N3.
      destruct (Nat.eq_dec sid i) as [<-|Hne].
      * rewrite nth_error_upd_eq in N3 by (eapply nth_error_lt; eauto). inversion N3; subst sg0. simpl in *.
        inversion Dd; subst bs0. exists w0, fb. rewrite K2. simpl. split; auto. split; auto. congruence.
      * rewrite nth_error_upd_neq in N3 by auto. eapply S2; eauto.
    + intros bs0 E0. destruct ok; [|discriminate]. inversion E0; subst bs0. clear E0.
      apply attach_p_spec in A.
      destruct (attach_ok_faithful _ _ _ _ _ _ Hn Hl A) as (Hn' & Hl' & AF).
      unfold validated. fold p s l w. split; [|split].
      * unfold numbered in Hn'. rewrite Hn', Hl'. reflexivity.
      * intros _. split; [eapply linked_hdr; eauto|eapply hashes_hdr; eauto].
      * exists bs. split; auto. split; auto. split; [intros Hx; congruence|].
        intros _. exists w0, fb. rewrite Hrep. auto.
  - inversion H; subst c' res. clear H. split; auto. split; auto. intros bs0 E0; discriminate.
Qed.

(* plans that use no cache: the same, on the bare numbers *)
Lemma nocache_ok op ws bs' ok :
  fetches (cc_plan op) = false ->
  attach_p (cc_plan op) (cc_s op) (cc_l op) (cc_world op) (numbers (cc_s op) (cc_l op)) = (bs', ok) ->
  ok = true -> validated op (ws ++ [cc_world op]) bs'.
Proof.
  intros Hf A ->. apply attach_p_spec in A.
  destruct (numbers_spec (cc_s op) (cc_l op)) as [Hn Hl].
  destruct (attach_ok_faithful _ _ _ _ _ _ Hn Hl A) as (Hn' & Hl' & AF).
  unfold validated. split; [|split].
  - unfold numbered in Hn'. rewrite Hn', Hl'. reflexivity.
  - intros Hx; congruence.
  - exists (numbers (cc_s op) (cc_l op)). split; auto. split; auto. split; auto. intros Hx; congruence.
Qed.

Record cc_inv (ws : list world) (cl : cclient) : Prop := {
  ci_bm : map_okD (cc_b cl); ci_hm : map_okD (cc_h cl);
  ci_bs : seg_ok w_blocks ws (cc_b cl); ci_hs : seg_ok w_headers ws (cc_h cl)
}.

Lemma ccget_ok op ws cl cl' res :
  cc_inv ws cl -> ccget op cl = Some (cl', res) ->
  cc_inv (ws ++ [cc_world op]) cl' /\ forall bs, res = Ok bs -> validated op (ws ++ [cc_world op]) bs.
Proof.
  intros [Bm Hm Bs Hs] H. unfold ccget in H.
  assert (INC : incl ws (ws ++ [cc_world op])) by (intros x Hx; apply in_or_app; auto).
  destruct (use_blocks (cc_plan op)) eqn:Ub.
  - destruct (via_cache op (w_blocks (cc_world op)) (cc_b cl)) as [[c r]|] eqn:V; [|discriminate].
    inversion H; subst cl' res. clear H.
    destruct (via_cache_ok op w_blocks ws (cc_b cl) c r) as (M' & S' & VV); auto.
    + unfold block_reply. rewrite Ub. reflexivity.
    + unfold fetches. rewrite Ub. reflexivity.
    + intros w0. unfold block_reply. rewrite Ub. reflexivity.
    + split; [constructor; simpl; auto; eapply seg_ok_more; eauto|exact VV].
  - destruct (use_headers (cc_plan op)) eqn:Uh.
    + destruct (via_cache op (w_headers (cc_world op)) (cc_h cl)) as [[c r]|] eqn:V; [|discriminate].
      inversion H; subst cl' res. clear H.
      destruct (via_cache_ok op w_headers ws (cc_h cl) c r) as (M' & S' & VV); auto.
      * unfold block_reply. rewrite Ub. reflexivity.
      * unfold fetches. rewrite Ub, Uh. reflexivity.
      * intros w0. unfold block_reply. rewrite Ub. reflexivity.
      * split; [constructor; simpl; auto; eapply seg_ok_more; eauto|exact VV].
    + destruct (attach_p _ _ _ _ _) as [bs' ok] eqn:A. inversion H; subst cl' res. clear H.
      split; [constructor; auto; eapply seg_ok_more; eauto|].
      intros bs E. destruct ok; [|discriminate]. inversion E; subst bs.
      eapply nocache_ok; eauto. unfold fetches. rewrite Ub, Uh. reflexivity.
Qed.

(* For every sequence of Gets through the caching client against ANY source
   (every call its own reply family, of any corruption class): each successful
   result satisfies C07's post-conditions. *)
Fixpoint worlds_upto (ws : list world) (ops : list ccop) : list (list world) :=
  match ops with
  | [] => []
  | op :: r => (ws ++ [cc_world op]) :: worlds_upto (ws ++ [cc_world op]) r
  end.

Lemma ccrun_validated_gen ops : forall ws cl cl' outs,
  cc_inv ws cl -> ccrun cl ops = Some (cl', outs) ->
  Forall2 (fun op_ws out => forall bs, out = Ok bs -> validated (fst op_ws) (snd op_ws) bs)
          (combine ops (worlds_upto ws ops)) outs.
Proof.
  induction ops as [|op r IH]; intros ws cl cl' outs I H; simpl in H.
  - inversion H; subst. constructor.
  - destruct (ccget op cl) as [[cl1 res]|] eqn:G; [|discriminate].
    destruct (ccrun cl1 r) as [[cl2 outs']|] eqn:R; [|discriminate].
    inversion H; subst cl' outs. clear H.
    destruct (ccget_ok _ _ _ _ _ I G) as [I1 V]. simpl. constructor; [exact V|].
    eapply IH; eauto.
Qed.

Lemma cc_inv_init mx : cc_inv [] (new_cclient mx).
Proof.
  constructor; simpl.
  - intros k sid [].
  - intros k sid [].
  - intros sid sg bs H. destruct sid; discriminate.
  - intros sid sg bs H. destruct sid; discriminate.
Qed.

Lemma ccrun_validated mx ops cl outs :
  ccrun (new_cclient mx) ops = Some (cl, outs) ->
  Forall2 (fun op_ws out => forall bs, out = Ok bs -> validated (fst op_ws) (snd op_ws) bs)
          (combine ops (worlds_upto [] ops)) outs.
Proof. apply ccrun_validated_gen. apply cc_inv_init. Qed.


(* a reply to the blocks / headers batch that blocks()/headers() reject gives
   the cache nothing to store, whatever blocks come back with the error *)
Lemma getter_rejected s l r :
  (forall bs, fetch_blocks repaired s l r <> Ok bs) -> fetch_value (getter_outcome s l r) = None.
Proof.
  intros H. unfold getter_outcome. destruct (fetch_blocks repaired s l r) as [bs| |]; auto.
  exfalso. apply (H bs). reflexivity.
Qed.

Lemma getter_accepted s l r bs :
  fetch_value (getter_outcome s l r) = Some bs -> fetch_blocks repaired s l r = Ok bs.
Proof.
  unfold getter_outcome. destruct (fetch_blocks repaired s l r) as [bs0| |]; simpl; intros H; inversion H; auto.
Qed.
