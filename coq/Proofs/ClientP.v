(* C07 — proofs about Model/Client.v (the repaired client). *)
From Coq Require Import List Arith NArith Bool Lia ZifyBool ZifyN ZifyNat.
From Shovel Require Import Base.Outcome Model.Client Model.ClientSpec.
Import ListNotations.
Open Scope N_scope.

Arguments N.add : simpl never.
Arguments N.sub : simpl never.
Arguments N.ltb : simpl never.
Arguments N.leb : simpl never.
Arguments N.eqb : simpl never.

(* ---------------------------------------------------------------- basics *)
Lemma bytes_eqb_eq : forall a b : bytes, bytes_eqb a b = true <-> a = b.
Proof.
  unfold bytes_eqb. induction a as [|x a IH]; destruct b as [|y b]; simpl; split; intros H; try congruence; try discriminate.
  - apply andb_true_iff in H. destruct H as [H1 H2]. apply N.eqb_eq in H1. apply IH in H2. congruence.
  - inversion H; subst. apply andb_true_iff. split; [apply N.eqb_refl | apply IH; reflexivity].
Qed.

Lemma bytes_eqb_refl : forall a, bytes_eqb a a = true.
Proof. intros. apply bytes_eqb_eq. reflexivity. Qed.

Lemma is_nil_true : forall {A} (l : list A), is_nil l = true <-> l = [].
Proof. destruct l; simpl; split; congruence. Qed.
Lemma is_nil_false : forall {A} (l : list A), is_nil l = false <-> l <> [].
Proof. destruct l; simpl; split; congruence. Qed.

Lemma key_eqb_eq : forall a b, key_eqb a b = true <-> a = b.
Proof.
  intros [a1 a2] [b1 b2]. unfold key_eqb. simpl. rewrite andb_true_iff, !N.eqb_eq.
  split; [intros [-> ->]; reflexivity | intros H; inversion H; auto].
Qed.
Lemma key_eqb_refl : forall a, key_eqb a a = true.
Proof. intros. apply key_eqb_eq. reflexivity. Qed.
Lemma key_eqb_neq : forall a b, key_eqb a b = false <-> a <> b.
Proof.
  intros. split; intros H.
  - intros E. apply key_eqb_eq in E. congruence.
  - destruct (key_eqb a b) eqn:E; [apply key_eqb_eq in E; contradiction | reflexivity].
Qed.

Lemma bind_ok : forall {A B} (o : outcome A) (f : A -> outcome B) b,
  bind o f = Ok b -> exists a, o = Ok a /\ f a = Ok b.
Proof. intros A B [a| |] f b H; simpl in H; try discriminate. eauto. Qed.

Lemma seqN_S : forall s n, seqN s (S n) = s :: seqN (s + 1) n.
Proof.
  intros. unfold seqN. simpl. f_equal. { f_equal. lia. }
  rewrite <- seq_shift, map_map. apply map_ext. intros. lia.
Qed.
Lemma seqN_length : forall s n, length (seqN s n) = n.
Proof. intros. unfold seqN. rewrite map_length, seq_length. reflexivity. Qed.
Lemma seqN_nth : forall n s i, (i < n)%nat -> nth_error (seqN s n) i = Some (s + N.of_nat i).
Proof.
  intros. unfold seqN. rewrite nth_error_map, nth_error_nth' with (d := 0%nat) by (rewrite seq_length; lia).
  rewrite seq_nth by lia. reflexivity.
Qed.

Lemma numbered_cons : forall s b r, numbered s (b :: r) <-> b_num b = s /\ numbered (s + 1) r.
Proof.
  intros. unfold numbered. simpl length. rewrite seqN_S. simpl. split.
  - intros H. inversion H. auto.
  - intros [-> ->]. reflexivity.
Qed.

Lemma numbered_nth : forall bs s i b, numbered s bs -> nth_error bs i = Some b -> b_num b = s + N.of_nat i.
Proof.
  induction bs as [|x r IH]; intros s i b Hn Hi; [destruct i; discriminate|].
  apply numbered_cons in Hn. destruct Hn as [Hx Hr]. destruct i; simpl in Hi.
  - inversion Hi; subst. lia.
  - rewrite (IH _ _ _ Hr Hi). lia.
Qed.

(* ---------------------------------------------------------------- blockmap *)
Lemma bm_get_num : forall bs n b, bm_get n bs = Some b -> b_num b = n.
Proof.
  induction bs as [|x r IH]; simpl; intros n b H; [discriminate|].
  destruct (bm_get n r) eqn:E.
  - inversion H; subst. eapply IH; eauto.
  - destruct (b_num x =? n) eqn:Ex; [|discriminate]. inversion H; subst. apply N.eqb_eq in Ex. exact Ex.
Qed.

Lemma bm_get_In : forall bs n b, bm_get n bs = Some b -> In b bs.
Proof.
  induction bs as [|x r IH]; simpl; intros n b H; [discriminate|].
  destruct (bm_get n r) eqn:E.
  - inversion H; subst. right. eapply IH; eauto.
  - destruct (b_num x =? n); [|discriminate]. inversion H; subst. left. reflexivity.
Qed.

Lemma bm_set_proj : forall {X} (g : block -> X) bs n b b',
  bm_get n bs = Some b -> g b' = g b -> map g (bm_set n b' bs) = map g bs.
Proof.
  induction bs as [|x r IH]; simpl; intros n b b' H Hg; [reflexivity|].
  destruct (bm_get n r) eqn:E.
  - inversion H; subst. simpl. f_equal. eapply IH; eauto.
  - destruct (b_num x =? n); [|discriminate]. inversion H; subst. simpl. f_equal. exact Hg.
Qed.

Lemma bm_get_below : forall bs s n, numbered s bs -> n < s -> bm_get n bs = None.
Proof.
  induction bs as [|x r IH]; simpl; intros s n Hn Hlt; [reflexivity|].
  apply numbered_cons in Hn. destruct Hn as [Hx Hr].
  rewrite (IH (s + 1) n Hr) by lia.
  destruct (b_num x =? n) eqn:E; [apply N.eqb_eq in E; lia | reflexivity].
Qed.

Lemma bm_get_numbered : forall bs s j b, numbered s bs -> nth_error bs j = Some b ->
  bm_get (s + N.of_nat j) bs = Some b.
Proof.
  induction bs as [|x r IH]; intros s j b Hn Hj; [destruct j; discriminate|].
  apply numbered_cons in Hn. destruct Hn as [Hx Hr]. simpl. destruct j; simpl in Hj.
  - inversion Hj; subst. rewrite (bm_get_below r (b_num b + 1)) by (auto; lia).
    replace (b_num b + N.of_nat 0) with (b_num b) by lia. rewrite N.eqb_refl. reflexivity.
  - replace (s + N.of_nat (S j)) with (s + 1 + N.of_nat j) by lia. rewrite (IH _ _ _ Hr Hj). reflexivity.
Qed.

(* on a numbered list the block found for n is the one at index n - s, and
   storing replaces exactly that position *)
Lemma bm_numbered : forall bs s n b0, numbered s bs -> bm_get n bs = Some b0 ->
  exists j, n = s + N.of_nat j /\ nth_error bs j = Some b0 /\
    forall b', length (bm_set n b' bs) = length bs /\
      forall i, nth_error (bm_set n b' bs) i = if (i =? j)%nat then Some b' else nth_error bs i.
Proof.
  induction bs as [|x r IH]; simpl; intros s n b0 Hn H; [discriminate|].
  apply numbered_cons in Hn. destruct Hn as [Hx Hr].
  destruct (bm_get n r) eqn:E.
  - inversion H; subst. destruct (IH _ _ _ Hr E) as [j [Hj [Hnth Hset]]].
    exists (S j). split; [lia|]. split; [exact Hnth|]. intros b'. destruct (Hset b') as [Hl Hi]. split.
    + simpl. rewrite Hl. reflexivity.
    + intros [|i]; simpl; [reflexivity | apply Hi].
  - destruct (b_num x =? n) eqn:Ex; [|discriminate]. inversion H; subst. apply N.eqb_eq in Ex.
    exists 0%nat. split; [lia|]. split; [reflexivity|]. intros b'. split; [reflexivity|].
    intros [|i]; reflexivity.
Qed.

Lemma on_block_ok : forall n f bs bs', on_block n f bs = Ok bs' ->
  exists b b', bm_get n bs = Some b /\ f b = Ok b' /\ bs' = bm_set n b' bs.
Proof.
  unfold on_block. intros n f bs bs' H. destruct (bm_get n bs) as [b|] eqn:E; [|discriminate].
  apply bind_ok in H. destruct H as [b' [Hf Hs]]. inversion Hs; subst. eauto.
Qed.

Lemma on_block_proj : forall {X} (g : block -> X) n f bs bs',
  (forall b b', In b bs -> f b = Ok b' -> g b' = g b) ->
  on_block n f bs = Ok bs' -> map g bs' = map g bs.
Proof.
  intros X g n f bs bs' Hf H. apply on_block_ok in H. destruct H as [b [b' [Hg [Hfb ->]]]].
  eapply bm_set_proj; eauto. apply Hf; auto. eapply bm_get_In; eauto.
Qed.

Lemma numbered_proj : forall s bs bs', map b_num bs' = map b_num bs -> numbered s bs -> numbered s bs'.
Proof.
  unfold numbered. intros s bs bs' H Hn. rewrite H, Hn.
  f_equal. rewrite <- (map_length b_num bs'), H, map_length. reflexivity.
Qed.

(* localisation of one on_block step on a numbered list *)
Lemma on_block_local : forall s n f bs bs', numbered s bs -> on_block n f bs = Ok bs' ->
  exists j b b', n = s + N.of_nat j /\ nth_error bs j = Some b /\ f b = Ok b' /\ length bs' = length bs /\
    forall i, nth_error bs' i = if (i =? j)%nat then Some b' else nth_error bs i.
Proof.
  intros s n f bs bs' Hn H. apply on_block_ok in H. destruct H as [b [b' [Hg [Hf ->]]]].
  destruct (bm_numbered _ _ _ _ Hn Hg) as [j [Hj [Hnth Hset]]]. destruct (Hset b') as [Hl Hi].
  exists j, b, b'. repeat split; auto.
Qed.

(* ---------------------------------------------------------------- setHash *)
Lemma check_hashes_spec : forall hs cur h, check_hashes cur hs = Some h ->
  (cur = [] \/ h = cur) /\ (hs = [] -> h = cur) /\ forall x, In x hs -> x = h \/ (x = [] /\ cur = []).
Proof.
  induction hs as [|x r IH]; simpl; intros cur h H.
  - inversion H; subst. repeat split; auto. intros x [].
  - destruct (is_nil cur || bytes_eqb cur x) eqn:C; [|discriminate].
    destruct (IH _ _ H) as [H1 [H2 H3]].
    assert (Hc : cur = [] \/ cur = x).
    { apply orb_true_iff in C. destruct C as [C|C]; [left; apply is_nil_true; exact C | right; apply bytes_eqb_eq; exact C]. }
    split; [|split].
    + destruct Hc as [Hc|Hc]; [left; exact Hc|]. rewrite Hc. exact H1.
    + intros E; discriminate.
    + intros y [Hy|Hy].
      * subst y. destruct H1 as [H1|H1]; [|left; auto]. right. split; [exact H1|].
        destruct Hc as [Hc|Hc]; [exact Hc | congruence].
      * destruct (H3 y Hy) as [Hy1|[Hy1 Hy2]]; [left; exact Hy1|]. right. split; [exact Hy1|].
        destruct Hc as [Hc|Hc]; [exact Hc | congruence].
Qed.

Lemma set_hashes_spec : forall b hs b', set_hashes repaired b hs = Ok b' ->
  exists h, b' = with_hash b h /\ (b_hash b = [] \/ h = b_hash b) /\ (hs = [] -> h = b_hash b)
    /\ forall x, In x hs -> x = h \/ (x = [] /\ b_hash b = []).
Proof.
  unfold set_hashes. simpl. intros b hs b' H.
  destruct (check_hashes (b_hash b) hs) as [h|] eqn:E; [|discriminate]. inversion H; subst.
  exists h. split; [reflexivity|]. apply check_hashes_spec. exact E.
Qed.

Lemma set_hashes_no_panic : forall fx b hs, set_hashes fx b hs <> Panic.
Proof. unfold set_hashes. intros. destruct (fx_hash fx); [destruct (check_hashes _ _)|]; discriminate. Qed.

(* ---------------------------------------------------------------- Block.Tx *)
Lemma upd_txs_In : forall txs idx f t, In t (upd_txs txs idx f) ->
  In t txs \/ exists t0, (In t0 txs \/ t0 = new_tx idx) /\ t_idx t0 = idx /\ t = f t0.
Proof.
  induction txs as [|x r IH]; simpl; intros idx f t H.
  - destruct H as [H|[]]. right. exists (new_tx idx). auto.
  - destruct (t_idx x =? idx) eqn:E.
    + destruct H as [H|H]; [|left; right; exact H]. right. exists x. apply N.eqb_eq in E. auto.
    + destruct H as [H|H]; [left; left; exact H|]. destruct (IH _ _ _ H) as [H1|[t0 [H1 [H2 H3]]]].
      * left. right. exact H1.
      * right. exists t0. split; [|auto]. destruct H1; auto.
Qed.

Lemma upd_txs_has : forall txs idx f, (forall t, t_idx (f t) = t_idx t) ->
  exists t t0, In t (upd_txs txs idx f) /\ t_idx t = idx /\ (In t0 txs \/ t0 = new_tx idx) /\ t_idx t0 = idx /\ t = f t0.
Proof.
  induction txs as [|x r IH]; simpl; intros idx f Hf.
  - exists (f (new_tx idx)), (new_tx idx). rewrite Hf. simpl. repeat split; auto.
  - destruct (t_idx x =? idx) eqn:E.
    + apply N.eqb_eq in E. exists (f x), x. rewrite Hf. simpl. repeat split; auto.
    + destruct (IH idx f Hf) as [t [t0 [H1 [H2 [H3 [H4 H5]]]]]]. exists t, t0. simpl.
      repeat split; auto. destruct H3; auto.
Qed.

Lemma upd_txs_other : forall txs idx f t, In t txs -> t_idx t <> idx -> In t (upd_txs txs idx f).
Proof.
  induction txs as [|x r IH]; simpl; intros idx f t H Hne; [contradiction|].
  destruct (t_idx x =? idx) eqn:E.
  - destruct H as [H|H]; [subst; apply N.eqb_eq in E; contradiction | right; exact H].
  - destruct H as [H|H]; [left; exact H | right; apply IH; auto].
Qed.

(* ---------------------------------------------------------------- receipts of one block *)
Definition rcpt_step (txs : list tx) (r : rcpt) : list tx := upd_txs txs (r_txidx r) (apply_rcpt r).

Lemma attach_rcpts_eq : forall rs b, attach_rcpts b rs = with_txs b (fold_left rcpt_step rs (b_txs b)).
Proof.
  unfold attach_rcpts. induction rs as [|r rs IH]; intros b; simpl.
  - destruct b; reflexivity.
  - rewrite IH. reflexivity.
Qed.

Lemma rcpt_of_apply : forall r t0, t_idx t0 = r_txidx r -> rcpt_of r (apply_rcpt r t0).
Proof. intros r t0 H. unfold rcpt_of, apply_rcpt. simpl. auto. Qed.

Lemma rcpt_fold_spec : forall rs base,
  (forall r, In r rs -> exists t r', In t (fold_left rcpt_step rs base) /\ In r' rs /\ r_txidx r' = r_txidx r /\ rcpt_of r' t) /\
  (forall t, In t (fold_left rcpt_step rs base) ->
     In t base \/ exists r t0, In r rs /\ rcpt_of r t /\ t_body t = t_body t0 /\ t_traces t = t_traces t0
                               /\ t_idx t0 = t_idx t /\ (In t0 base \/ t0 = new_tx (t_idx t))).
Proof.
  induction rs as [|x rs IH] using rev_ind; intros base.
  - simpl. split; [intros r []|]. intros t H. left. exact H.
  - rewrite fold_left_app. simpl. destruct (IH base) as [IH1 IH2]. set (txs := fold_left rcpt_step rs base) in *.
    change (rcpt_step txs x) with (upd_txs txs (r_txidx x) (apply_rcpt x)). split.
    + intros r Hr. destruct (N.eq_dec (r_txidx r) (r_txidx x)) as [E|E].
      * destruct (upd_txs_has txs (r_txidx x) (apply_rcpt x)) as [t [t0 [H1 [H2 [H3 [H4 H5]]]]]]; [reflexivity|].
        exists t, x. split; [exact H1|]. split; [apply in_or_app; right; left; reflexivity|]. split; [auto|].
        subst t. apply rcpt_of_apply. exact H4.
      * apply in_app_or in Hr. destruct Hr as [Hr|[Hr|[]]]; [|subst; contradiction].
        destruct (IH1 r Hr) as [t [r' [H1 [H2 [H3 H4]]]]]. exists t, r'. split.
        { apply upd_txs_other; [exact H1|]. destruct H4 as [H4 _]. congruence. }
        split; [apply in_or_app; left; exact H2 | auto].
    + intros t Ht. apply upd_txs_In in Ht. destruct Ht as [Ht|[t0 [H1 [H2 H3]]]].
      * destruct (IH2 t Ht) as [H|[r [t0 [H1 H2]]]]; [left; exact H|]. right. exists r, t0.
        split; [apply in_or_app; left; exact H1 | exact H2].
      * right. subst t. assert (Hin : In x (rs ++ [x])) by (apply in_or_app; right; left; reflexivity).
        destruct H1 as [H1|H1].
        { destruct (IH2 t0 H1) as [H|[r [t00 [Hr [Hof [Hb [Ht [Hi Hfrom]]]]]]]].
          - exists x, t0. split; [exact Hin|]. split; [apply rcpt_of_apply; exact H2|]. simpl. auto.
          - exists x, t00. split; [exact Hin|]. split; [apply rcpt_of_apply; exact H2|]. simpl.
            repeat split; auto. }
        { subst t0. exists x, (new_tx (r_txidx x)). split; [exact Hin|]. split; [apply rcpt_of_apply; reflexivity|].
          simpl. auto. }
Qed.

Lemma rcpt_block_spec : forall rs b b', rs <> [] -> rcpt_block repaired rs b = Ok b' ->
  b_num b' = b_num b /\ b_parent b' = b_parent b /\ b_hpl b' = b_hpl b
  /\ (b_hash b = [] \/ b_hash b' = b_hash b)
  /\ (forall r, In r rs -> r_bhash r = b_hash b' \/ (r_bhash r = [] /\ b_hash b = []))
  /\ (forall r, In r rs -> exists t r', In t (b_txs b') /\ In r' rs /\ r_txidx r' = r_txidx r /\ rcpt_of r' t)
  /\ (forall t, In t (b_txs b') ->
        In t (b_txs b)
        \/ exists r t0, In r rs /\ rcpt_of r t /\ t_body t = t_body t0 /\ t_traces t = t_traces t0
                        /\ t_idx t0 = t_idx t /\ (In t0 (b_txs b) \/ t0 = new_tx (t_idx t))).
Proof.
  unfold rcpt_block. intros rs b b' Hne H. apply bind_ok in H. destruct H as [b1 [Hh Hb]]. inversion Hb; subst b'. clear Hb.
  apply set_hashes_spec in Hh. destruct Hh as [h [-> [H1 [_ H3]]]].
  rewrite attach_rcpts_eq. simpl. destruct (rcpt_fold_spec rs (b_txs b)) as [F1 F2].
  repeat split; auto.
  intros r Hr. apply H3. apply in_map. exact Hr.
Qed.

Lemma rcpt_block_hdr_nonempty : forall rs b b', b_hash b <> [] -> rcpt_block repaired rs b = Ok b' -> hdr b' = hdr b.
Proof.
  unfold rcpt_block. intros rs b b' Hne H. apply bind_ok in H. destruct H as [b1 [Hh Hb]]. inversion Hb; subst b'. clear Hb.
  apply set_hashes_spec in Hh. destruct Hh as [h [-> [H1 _]]]. rewrite attach_rcpts_eq. unfold hdr. simpl.
  destruct H1 as [H1|H1]; [contradiction | rewrite H1; reflexivity].
Qed.

Lemma rcpt_block_num : forall fx rs b b', rcpt_block fx rs b = Ok b' -> b_num b' = b_num b.
Proof.
  unfold rcpt_block. intros fx rs b b' H. apply bind_ok in H. destruct H as [b1 [Hh Hb]]. inversion Hb; subst b'.
  rewrite attach_rcpts_eq. simpl. unfold set_hashes in Hh.
  destruct (fx_hash fx); [destruct (check_hashes _ _); [|discriminate]|]; inversion Hh; reflexivity.
Qed.

(* ---------------------------------------------------------------- receipts loop *)
Lemma nth_error_if_same : forall {A} (bs' bs : list A) j (b' : A),
  (forall i, nth_error bs' i = if (i =? j)%nat then Some b' else nth_error bs i) ->
  nth_error bs' j = Some b' /\ forall i, i <> j -> nth_error bs' i = nth_error bs i.
Proof.
  intros A bs' bs j b' H. split.
  - rewrite H, Nat.eqb_refl. reflexivity.
  - intros i Hi. rewrite H. destruct (i =? j)%nat eqn:E; [apply Nat.eqb_eq in E; contradiction | reflexivity].
Qed.

Lemma receipts_elem_spec : forall s l i e bs bs',
  numbered s bs -> re_err e = false -> receipts_elem repaired s l i e bs = Ok bs' ->
  numbered s bs' /\ length bs' = length bs
  /\ (forall j, j <> i -> nth_error bs' j = nth_error bs j)
  /\ receipts_elem_ok (s + N.of_nat i) e (nth_error bs i) (nth_error bs' i).
Proof.
  intros s l i e bs bs' Hn He H. unfold receipts_elem in H. simpl in H.
  destruct (re_res e) as [rs|] eqn:Er; [|discriminate].
  destruct rs as [|r0 rs0].
  - inversion H; subst bs'. repeat split; auto. exists []. repeat split; auto; try contradiction.
  - set (rs := r0 :: rs0) in *.
    destruct (forallb (fun r => r_bnum r =? s + N.of_nat i) rs) eqn:Ef; [|discriminate].
    assert (Hall : forall r, In r rs -> r_bnum r = s + N.of_nat i).
    { intros r Hr. rewrite forallb_forall in Ef. apply N.eqb_eq. apply Ef. exact Hr. }
    pose proof H as H0.
    apply (on_block_local s) in H; [|exact Hn]. destruct H as [j [b [b' [Hj [Hb [Hf [Hl Hi]]]]]]].
    assert (j = i) by lia. subst j.
    apply nth_error_if_same in Hi. destruct Hi as [Hi1 Hi2].
    assert (Hne : rs <> []) by (unfold rs; discriminate).
    pose proof (rcpt_block_spec rs b b' Hne Hf) as [S1 [S2 [S3 [S4 [S5 [S6 S7]]]]]].
    split.
    { eapply numbered_proj; [|exact Hn]. eapply on_block_proj; [|exact H0].
      intros x x' _ Hx. eapply rcpt_block_num; eauto. }
    split; [exact Hl|]. split; [exact Hi2|].
    split; [exact He|]. exists rs. split; [exact Er|]. split; [exact Hall|].
    split; [intros E; contradiction|]. intros _. exists b, b'. rewrite Hb, Hi1.
    repeat split; auto. rewrite S1. eapply numbered_nth; eauto.
Qed.

Lemma receipts_loop_spec : forall s l es i bs bs',
  numbered s bs -> (forall e, In e es -> re_err e = false) ->
  receipts_loop repaired s l i es bs = Ok bs' ->
  numbered s bs' /\ length bs' = length bs
  /\ (forall j, (j < i \/ i + length es <= j)%nat -> nth_error bs' j = nth_error bs j)
  /\ (forall k e, nth_error es k = Some e ->
        receipts_elem_ok (s + N.of_nat (i + k)) e (nth_error bs (i + k)) (nth_error bs' (i + k))).
Proof.
  intros s l. induction es as [|e r IH]; intros i bs bs' Hn He H; simpl in H.
  - inversion H; subst bs'. split; [exact Hn|]. split; [reflexivity|]. split; [reflexivity|].
    intros [|k] e Hk; discriminate.
  - apply bind_ok in H. destruct H as [bs1 [H1 H2]].
    apply receipts_elem_spec in H1; [|exact Hn|apply He; left; reflexivity].
    destruct H1 as [Hn1 [Hl1 [Hu1 Hok1]]].
    apply IH in H2; [|exact Hn1|intros x Hx; apply He; right; exact Hx].
    destruct H2 as [Hn2 [Hl2 [Hu2 Hok2]]].
    split; [exact Hn2|]. split; [congruence|]. split.
    + intros j Hj. simpl in Hj. rewrite Hu2 by lia. apply Hu1. lia.
    + intros [|k] x Hk; simpl in Hk.
      * inversion Hk; subst x. rewrite Nat.add_0_r. rewrite Hu2 by lia. exact Hok1.
      * replace (i + S k)%nat with (S i + k)%nat by lia. specialize (Hok2 k x Hk).
        rewrite (Hu1 (S i + k)%nat) in Hok2 by lia. exact Hok2.
Qed.

(* ---------------------------------------------------------------- a fold of Block.Tx updates, one per distinct index *)
Section FoldUpd.
  Variable X : Type.
  Variable idx : X -> N.
  Variable F : X -> tx -> tx.
  Hypothesis F_idx : forall x t, t_idx (F x t) = t_idx t.

  Definition ustep (txs : list tx) (x : X) : list tx := upd_txs txs (idx x) (F x).

  Lemma fold_upd_spec : forall xs base, NoDup (map idx xs) ->
    (forall x, In x xs -> exists t t0, In t (fold_left ustep xs base) /\ t = F x t0 /\ t_idx t0 = idx x
                                       /\ (In t0 base \/ t0 = new_tx (idx x))) /\
    (forall t, In t (fold_left ustep xs base) ->
       In t base \/ exists x t0, In x xs /\ t = F x t0 /\ t_idx t0 = idx x /\ (In t0 base \/ t0 = new_tx (idx x))).
  Proof.
    induction xs as [|y xs IH] using rev_ind; intros base Hnd.
    - simpl. split; [intros x []|]. intros t H. left. exact H.
    - rewrite fold_left_app. simpl. rewrite map_app in Hnd. simpl in Hnd.
      assert (Hnd1 : NoDup (map idx xs) /\ ~ In (idx y) (map idx xs)).
      { apply NoDup_remove in Hnd. rewrite app_nil_r in Hnd. exact Hnd. }
      destruct Hnd1 as [Hnd1 Hny]. destruct (IH base Hnd1) as [IH1 IH2].
      set (txs := fold_left ustep xs base) in *. change (ustep txs y) with (upd_txs txs (idx y) (F y)).
      assert (Hy : In y (xs ++ [y])) by (apply in_or_app; right; left; reflexivity).
      (* what the new update finds is a base transaction or a fresh one *)
      assert (Hfresh : forall t0, In t0 txs -> t_idx t0 = idx y -> In t0 base).
      { intros t0 H0 Hi. destruct (IH2 t0 H0) as [H|[x [t00 [Hx [Ht [Hi0 _]]]]]]; [exact H|].
        exfalso. apply Hny. rewrite <- Hi. subst t0. rewrite F_idx, Hi0. apply in_map. exact Hx. }
      split.
      + intros x Hx. apply in_app_or in Hx. destruct Hx as [Hx|[Hx|[]]].
        * destruct (IH1 x Hx) as [t [t0 [H1 [H2 [H3 H4]]]]]. exists t, t0. split; [|auto].
          apply upd_txs_other; [exact H1|]. subst t. rewrite F_idx, H3. intros E. apply Hny. rewrite <- E.
          apply in_map. exact Hx.
        * subst x. destruct (upd_txs_has txs (idx y) (F y) (F_idx y)) as [t [t0 [H1 [H2 [H3 [H4 H5]]]]]].
          exists t, t0. repeat split; auto. destruct H3 as [H3|H3]; [left; apply Hfresh; auto | right; exact H3].
      + intros t Ht. apply upd_txs_In in Ht. destruct Ht as [Ht|[t0 [H1 [H2 H3]]]].
        * destruct (IH2 t Ht) as [H|[x [t0 [H1 H2]]]]; [left; exact H|]. right. exists x, t0.
          split; [apply in_or_app; left; exact H1 | exact H2].
        * right. exists y, t0. repeat split; auto. destruct H1 as [H1|H1]; [left; apply Hfresh; auto | right; exact H1].
  Qed.
End FoldUpd.

(* ---------------------------------------------------------------- grouping by key *)
Fixpoint glookup {A} (k : key) (gs : list (key * list A)) : option (list A) :=
  match gs with
  | [] => None
  | (k', g) :: r => if key_eqb k k' then Some g else glookup k r
  end.

Lemma glookup_group_add : forall {A} (gs : list (key * list A)) k k0 x,
  glookup k (group_add k0 x gs) =
  if key_eqb k k0 then Some (match glookup k0 gs with Some g0 => g0 ++ [x] | None => [x] end) else glookup k gs.
Proof.
  induction gs as [|[k' g] r IH]; intros k k0 x; simpl.
  - destruct (key_eqb k k0); reflexivity.
  - destruct (key_eqb k0 k') eqn:E0; simpl.
    + apply key_eqb_eq in E0. subst k'. destruct (key_eqb k k0); reflexivity.
    + rewrite IH. destruct (key_eqb k k') eqn:E1; [|reflexivity].
      apply key_eqb_eq in E1. subst k'. destruct (key_eqb k k0) eqn:E2; [|reflexivity].
      apply key_eqb_eq in E2. subst k0. rewrite key_eqb_refl in E0. discriminate.
Qed.

Lemma group_add_keys : forall {A} (gs : list (key * list A)) k0 x k,
  In k (map fst (group_add k0 x gs)) <-> k = k0 \/ In k (map fst gs).
Proof.
  induction gs as [|[k' g] r IH]; intros k0 x k; simpl.
  - split; [intros [H|[]]; auto | intros [H|[]]; auto].
  - destruct (key_eqb k0 k') eqn:E; simpl.
    + apply key_eqb_eq in E. subst k'. split; [intros [H|H]; auto | intros [H|[H|H]]; auto].
    + rewrite IH. split; [intros [H|[H|H]]; auto | intros [H|[H|H]]; auto].
Qed.

Lemma group_add_nodup : forall {A} (gs : list (key * list A)) k0 x,
  NoDup (map fst gs) -> NoDup (map fst (group_add k0 x gs)).
Proof.
  induction gs as [|[k' g] r IH]; intros k0 x H; simpl.
  - constructor; [intros []|constructor].
  - simpl in H. inversion H as [|? ? Hni Hnd]; subst. destruct (key_eqb k0 k') eqn:E; simpl.
    + constructor; assumption.
    + constructor; [|apply IH; exact Hnd]. rewrite group_add_keys. intros [Hk|Hk]; [|contradiction].
      subst k'. rewrite key_eqb_refl in E. discriminate.
Qed.

Definition nonempty {A} (l : list A) : option (list A) := match l with [] => None | _ => Some l end.

Lemma group_by_snoc : forall {A} (kf : A -> key) l x,
  group_by kf (l ++ [x]) = group_add (kf x) x (group_by kf l).
Proof. intros. unfold group_by. rewrite fold_left_app. reflexivity. Qed.

Lemma group_by_nodup : forall {A} (kf : A -> key) l, NoDup (map fst (group_by kf l)).
Proof.
  intros A kf. induction l as [|x l IH] using rev_ind.
  - constructor.
  - rewrite group_by_snoc. apply group_add_nodup. exact IH.
Qed.

Lemma group_by_lookup : forall {A} (kf : A -> key) l k,
  glookup k (group_by kf l) = nonempty (filter (fun x => key_eqb (kf x) k) l).
Proof.
  intros A kf. induction l as [|x l IH] using rev_ind; intros k.
  - reflexivity.
  - rewrite group_by_snoc, glookup_group_add, filter_app. simpl.
    destruct (key_eqb k (kf x)) eqn:E.
    + apply key_eqb_eq in E. subst k. rewrite key_eqb_refl, IH.
      destruct (filter (fun x0 => key_eqb (kf x0) (kf x)) l); reflexivity.
    + assert (E' : key_eqb (kf x) k = false).
      { apply key_eqb_neq. intros H. subst k. rewrite key_eqb_refl in E. discriminate. }
      rewrite E', app_nil_r. apply IH.
Qed.

Lemma glookup_In : forall {A} (gs : list (key * list A)) k g, glookup k gs = Some g -> In (k, g) gs.
Proof.
  induction gs as [|[k' g'] r IH]; simpl; intros k g H; [discriminate|].
  destruct (key_eqb k k') eqn:E.
  - apply key_eqb_eq in E. inversion H; subst. left. reflexivity.
  - right. apply IH. exact H.
Qed.

Lemma In_glookup : forall {A} (gs : list (key * list A)) k g,
  NoDup (map fst gs) -> In (k, g) gs -> glookup k gs = Some g.
Proof.
  induction gs as [|[k' g'] r IH]; simpl; intros k g Hnd H; [contradiction|].
  inversion Hnd as [|? ? Hni Hnd']; subst. destruct H as [H|H].
  - inversion H; subst. rewrite key_eqb_refl. reflexivity.
  - destruct (key_eqb k k') eqn:E.
    + apply key_eqb_eq in E. subst k'. exfalso. apply Hni. change k with (fst (k, g)). apply in_map. exact H.
    + apply IH; assumption.
Qed.

(* the groups of l: one per key that occurs, each holding exactly the elements with that key, in order *)
Lemma group_by_spec : forall {A} (kf : A -> key) l,
  NoDup (map fst (group_by kf l))
  /\ (forall k g, In (k, g) (group_by kf l) -> g = filter (fun x => key_eqb (kf x) k) l /\ g <> [])
  /\ (forall x, In x l -> In (kf x, filter (fun y => key_eqb (kf y) (kf x)) l) (group_by kf l)).
Proof.
  intros A kf l. pose proof (group_by_nodup kf l) as Hnd. split; [exact Hnd|]. split.
  - intros k g H. apply In_glookup in H; [|exact Hnd]. rewrite group_by_lookup in H.
    destruct (filter (fun x => key_eqb (kf x) k) l) eqn:E; simpl in H; [discriminate|].
    inversion H; subst. split; [reflexivity | discriminate].
  - intros x Hx. apply glookup_In. rewrite group_by_lookup.
    destruct (filter (fun y => key_eqb (kf y) (kf x)) l) eqn:E; [|reflexivity].
    exfalso. assert (Hin : In x (filter (fun y => key_eqb (kf y) (kf x)) l)).
    { apply filter_In. split; [exact Hx | apply key_eqb_refl]. }
    rewrite E in Hin. contradiction.
Qed.

(* ---------------------------------------------------------------- traces of one block *)
Definition tr0 : tracer := mkTracer 0 [] 0 [] [].
Definition idxT (kg : key * list tracer) : N := snd (fst kg).
Definition FT (kg : key * list tracer) : tx -> tx :=
  with_tx_traces (tr_txhash (hd tr0 (snd kg))) (map tr_pl (snd kg)).

Lemma attach_traces_eq : forall gs b, attach_traces b gs = with_txs b (fold_left (ustep _ idxT FT) gs (b_txs b)).
Proof.
  unfold attach_traces. induction gs as [|kg gs IH]; intros b; simpl.
  - destruct b; reflexivity.
  - rewrite IH. reflexivity.
Qed.

Lemma nodup_snd : forall (n : N) (ks : list key), (forall k, In k ks -> fst k = n) -> NoDup ks -> NoDup (map snd ks).
Proof.
  induction ks as [|k r IH]; simpl; intros Hn Hnd; [constructor|].
  inversion Hnd as [|? ? Hni Hnd']; subst. constructor.
  - intros Hin. apply in_map_iff in Hin. destruct Hin as [k' [Hs Hk']]. apply Hni.
    assert (k' = k).
    { destruct k as [a b], k' as [a' b']. simpl in *. pose proof (Hn (a, b) (or_introl eq_refl)) as H1.
      pose proof (Hn (a', b') (or_intror Hk')) as H2. simpl in *. congruence. }
    subst k'. exact Hk'.
  - apply IH; auto.
Qed.

Lemma filter_hd_in : forall {A} (f : A -> bool) l d, filter f l <> [] -> In (hd d (filter f l)) l /\ f (hd d (filter f l)) = true.
Proof.
  intros A f l d H. destruct (filter f l) as [|y r] eqn:E; [contradiction|]. simpl.
  assert (Hin : In y (filter f l)) by (rewrite E; left; reflexivity).
  apply filter_In in Hin. exact Hin.
Qed.

Lemma trace_block_spec : forall ts b b', ts <> [] -> trace_block repaired ts b = Ok b' ->
  b_num b' = b_num b /\ b_parent b' = b_parent b /\ b_hpl b' = b_hpl b
  /\ (b_hash b = [] \/ b_hash b' = b_hash b)
  /\ (forall t, In t ts -> tr_bhash t = b_hash b' \/ (tr_bhash t = [] /\ b_hash b = []))
  /\ (forall t, In t ts -> exists x, In x (b_txs b') /\ t_idx x = tr_txidx t
         /\ t_traces x = number_from 0 (map tr_pl (traces_of ts (tr_txidx t)))
         /\ exists t1, In t1 ts /\ tr_txidx t1 = tr_txidx t /\ t_hash x = tr_txhash t1)
  /\ (forall x, In x (b_txs b') ->
        In x (b_txs b)
        \/ exists t x0, In t ts /\ tr_txidx t = t_idx x
             /\ t_tft x = t_tft x0 /\ t_body x = t_body x0 /\ t_rcpt x = t_rcpt x0 /\ t_logs x = t_logs x0
             /\ t_idx x0 = t_idx x /\ (In x0 (b_txs b) \/ x0 = new_tx (t_idx x))).
Proof.
  unfold trace_block. intros ts b b' Hne H. simpl in H. apply bind_ok in H. destruct H as [b1 [Hh Hb]].
  inversion Hb; subst b'. clear Hb.
  apply set_hashes_spec in Hh. destruct Hh as [h [-> [H1 [_ H3]]]]. simpl b_num.
  set (n := b_num b). set (kf := fun t : tracer => (n, tr_txidx t)).
  rewrite attach_traces_eq. simpl.
  destruct (group_by_spec kf ts) as [G1 [G2 G3]]. set (gs := group_by kf ts) in *.
  assert (Gkey : forall k g, In (k, g) gs -> exists y, In y ts /\ k = (n, tr_txidx y) /\ In y g).
  { intros k g Hkg. destruct (G2 k g Hkg) as [Hg Hgne]. rewrite Hg in Hgne.
    destruct (filter_hd_in _ ts tr0 Hgne) as [Hin Hk]. exists (hd tr0 (filter (fun x => key_eqb (kf x) k) ts)).
    split; [exact Hin|]. split; [symmetry; apply key_eqb_eq; exact Hk|].
    rewrite Hg. destruct (filter (fun x => key_eqb (kf x) k) ts); [contradiction | left; reflexivity]. }
  assert (Hnd : NoDup (map idxT gs)).
  { replace (map idxT gs) with (map snd (map fst gs)) by (rewrite map_map; reflexivity). apply (nodup_snd n); [|exact G1].
    intros k Hk. apply in_map_iff in Hk. destruct Hk as [[k' g] [Hk Hin]]. simpl in Hk. subst k'.
    destruct (Gkey k g Hin) as [y [_ [-> _]]]. reflexivity. }
  assert (Fidx : forall x t, t_idx (FT x t) = t_idx t) by reflexivity.
  destruct (fold_upd_spec _ idxT FT Fidx gs (b_txs b) Hnd) as [U1 U2].
  repeat split; auto.
  - intros t Ht. apply H3. apply in_map. exact Ht.
  - intros t Ht. specialize (G3 t Ht). destruct (U1 _ G3) as [x [x0 [Hx [Hxe [Hi Hfrom]]]]].
    exists x. split; [exact Hx|]. unfold idxT in Hi. simpl in Hi.
    assert (Hf : filter (fun y => key_eqb (kf y) (kf t)) ts = traces_of ts (tr_txidx t)).
    { unfold traces_of. apply filter_ext. intros y. unfold kf, key_eqb. simpl. rewrite N.eqb_refl. reflexivity. }
    subst x. unfold FT. simpl. split; [exact Hi|]. rewrite Hf. split; [reflexivity|].
    assert (Hne2 : traces_of ts (tr_txidx t) <> []).
    { intros E. assert (Hin : In t (traces_of ts (tr_txidx t))) by (apply filter_In; split; [exact Ht | apply N.eqb_refl]).
      rewrite E in Hin. contradiction. }
    destruct (filter_hd_in _ ts tr0 Hne2) as [Hin Hk]. exists (hd tr0 (traces_of ts (tr_txidx t))).
    split; [exact Hin|]. split; [apply N.eqb_eq; exact Hk | reflexivity].
  - intros x Hx. destruct (U2 x Hx) as [Hb|[[k g] [x0 [Hkg [Hxe [Hi Hfrom]]]]]]; [left; exact Hb|]. right.
    destruct (Gkey k g Hkg) as [y [Hy [Hk _]]]. exists y, x0. unfold idxT in Hi. simpl in Hi. subst k. simpl in Hi.
    subst x. unfold FT. simpl. rewrite Hi. repeat split; auto.
Qed.

Lemma trace_block_num : forall fx ts b b', trace_block fx ts b = Ok b' -> b_num b' = b_num b.
Proof.
  unfold trace_block. intros fx ts b b' H. apply bind_ok in H. destruct H as [b1 [Hh Hb]]. inversion Hb; subst b'.
  rewrite attach_traces_eq. simpl. unfold set_hashes in Hh.
  destruct (fx_hash fx); [destruct (check_hashes _ _); [|discriminate]|]; inversion Hh; reflexivity.
Qed.

Lemma trace_block_hdr_nonempty : forall ts b b', b_hash b <> [] -> trace_block repaired ts b = Ok b' -> hdr b' = hdr b.
Proof.
  unfold trace_block. intros ts b b' Hne H. apply bind_ok in H. destruct H as [b1 [Hh Hb]]. inversion Hb; subst b'. clear Hb.
  simpl in Hh. apply set_hashes_spec in Hh. destruct Hh as [h [-> [H1 _]]]. rewrite attach_traces_eq. unfold hdr. simpl.
  destruct H1 as [H1|H1]; [contradiction | rewrite H1; reflexivity].
Qed.

(* ---------------------------------------------------------------- traces loop *)
Lemma traces_elem_spec : forall s i r bs bs',
  numbered s bs -> traces_elem repaired s i r bs = Ok bs' ->
  numbered s bs' /\ length bs' = length bs
  /\ (forall j, j <> i -> nth_error bs' j = nth_error bs j)
  /\ traces_elem_ok (s + N.of_nat i) r (nth_error bs i) (nth_error bs' i).
Proof.
  intros s i r bs bs' Hn H. unfold traces_elem in H. simpl in H.
  destruct r as [|e]; [discriminate|]. destruct (te_err e) eqn:Ee; [discriminate|].
  destruct (te_res e) as [ts|] eqn:Er; [|discriminate]. destruct ts as [|t0 ts0]; [discriminate|].
  set (ts := t0 :: ts0) in *.
  destruct (forallb (fun t => tr_bnum t =? s + N.of_nat i) ts) eqn:Ef; [|discriminate].
  assert (Hall : forall t, In t ts -> tr_bnum t = s + N.of_nat i).
  { intros t Ht. rewrite forallb_forall in Ef. apply N.eqb_eq. apply Ef. exact Ht. }
  pose proof H as H0.
  apply (on_block_local s) in H; [|exact Hn]. destruct H as [j [b [b' [Hj [Hb [Hf [Hl Hi]]]]]]].
  assert (j = i) by lia. subst j.
  apply nth_error_if_same in Hi. destruct Hi as [Hi1 Hi2].
  assert (Hne : ts <> []) by (unfold ts; discriminate).
  pose proof (trace_block_spec ts b b' Hne Hf) as [S1 [S2 [S3 [S4 [S5 [S6 S7]]]]]].
  split.
  { eapply numbered_proj; [|exact Hn]. eapply on_block_proj; [|exact H0].
    intros x x' _ Hx. eapply trace_block_num; eauto. }
  split; [exact Hl|]. split; [exact Hi2|].
  exists e, ts. split; [reflexivity|]. split; [exact Ee|]. split; [exact Er|]. split; [exact Hne|].
  split; [exact Hall|]. exists b, b'. rewrite Hb, Hi1.
  repeat split; auto. rewrite S1. eapply numbered_nth; eauto.
Qed.

Lemma traces_loop_spec : forall s n rs i bs bs',
  numbered s bs -> traces_loop repaired s i n rs bs = Ok bs' ->
  numbered s bs' /\ length bs' = length bs
  /\ (forall j, (j < i \/ i + n <= j)%nat -> nth_error bs' j = nth_error bs j)
  /\ (forall k, (k < n)%nat -> exists r, nth_error rs k = Some r /\
        traces_elem_ok (s + N.of_nat (i + k)) r (nth_error bs (i + k)) (nth_error bs' (i + k))).
Proof.
  intros s. induction n as [|n IH]; intros rs i bs bs' Hn H; simpl in H.
  - inversion H; subst bs'. split; [exact Hn|]. split; [reflexivity|]. split; [reflexivity|]. intros k Hk. lia.
  - destruct rs as [|r rest]; [discriminate|]. apply bind_ok in H. destruct H as [bs1 [H1 H2]].
    apply traces_elem_spec in H1; [|exact Hn]. destruct H1 as [Hn1 [Hl1 [Hu1 Hok1]]].
    apply IH in H2; [|exact Hn1]. destruct H2 as [Hn2 [Hl2 [Hu2 Hok2]]].
    split; [exact Hn2|]. split; [congruence|]. split.
    + intros j Hj. rewrite Hu2 by lia. apply Hu1. lia.
    + intros [|k] Hk.
      * exists r. split; [reflexivity|]. rewrite Nat.add_0_r. rewrite Hu2 by lia. exact Hok1.
      * destruct (Hok2 k) as [x [Hx Hok]]; [lia|]. exists x. split; [exact Hx|].
        replace (i + S k)%nat with (S i + k)%nat by lia. rewrite (Hu1 (S i + k)%nat) in Hok by lia. exact Hok.
Qed.

(* ---------------------------------------------------------------- Logs.Add *)
Lemma logs_add_In : forall ls l x, In x (logs_add ls l) -> In x ls \/ x = l.
Proof.
  unfold logs_add. intros ls l x H. destruct (existsb _ ls); [left; exact H|].
  apply in_app_or in H. destruct H as [H|[H|[]]]; auto.
Qed.
Lemma logs_add_keep : forall ls l x, In x ls -> In x (logs_add ls l).
Proof. unfold logs_add. intros ls l x H. destruct (existsb _ ls); [exact H | apply in_or_app; left; exact H]. Qed.
Lemma logs_add_has : forall ls l, exists y, In y (logs_add ls l) /\ l_idx y = l_idx l.
Proof.
  unfold logs_add. intros ls l. destruct (existsb (fun x => l_idx x =? l_idx l) ls) eqn:E.
  - apply existsb_exists in E. destruct E as [y [Hy He]]. apply N.eqb_eq in He. exists y. auto.
  - exists l. split; [apply in_or_app; right; left; reflexivity | reflexivity].
Qed.

Lemma logs_fold_spec : forall ls base,
  (forall x, In x (fold_left logs_add ls base) -> In x base \/ In x ls)
  /\ (forall x, In x base -> In x (fold_left logs_add ls base))
  /\ (forall l, In l ls -> exists y, In y (fold_left logs_add ls base) /\ l_idx y = l_idx l).
Proof.
  induction ls as [|l ls IH]; intros base; simpl.
  - split; [auto|]. split; [auto|]. intros l [].
  - destruct (IH (logs_add base l)) as [I1 [I2 I3]]. split; [|split].
    + intros x Hx. destruct (I1 x Hx) as [H|H]; [|auto]. apply logs_add_In in H. destruct H; auto.
    + intros x Hx. apply I2. apply logs_add_keep. exact Hx.
    + intros l' [Hl|Hl].
      * subst l'. destruct (logs_add_has base l) as [y [Hy Hi]]. exists y. split; [apply I2; exact Hy | exact Hi].
      * apply I3. exact Hl.
Qed.

(* ---------------------------------------------------------------- logs of one block *)
Definition lr0 : logr := mkLogr 0 [] 0 [] (mkLog 0 []).
Definition idxL (kg : key * list logr) : N := snd (fst kg).
Definition FL (kg : key * list logr) : tx -> tx :=
  with_tx_logs (lr_txhash (hd lr0 (snd kg))) (map lr_log (snd kg)).

Fixpoint run_groups (gs : list (key * list logr)) (b : block) : outcome block :=
  match gs with
  | [] => Ok b
  | (k, g) :: r => do b1 <- log_group repaired (snd k) g b; run_groups r b1
  end.

Lemma log_group_num : forall fx ti g b b', log_group fx ti g b = Ok b' -> b_num b' = b_num b.
Proof.
  unfold log_group. intros fx ti g b b' H. apply bind_ok in H. destruct H as [b1 [Hh Hb]]. inversion Hb; subst b'.
  simpl. unfold set_hashes in Hh.
  destruct (fx_hash fx); [destruct (check_hashes _ _); [|discriminate]|]; inversion Hh; reflexivity.
Qed.

Lemma logs_groups_local : forall gs s bs bs', numbered s bs -> logs_groups repaired gs bs = Ok bs' ->
  numbered s bs' /\ length bs' = length bs
  /\ forall j b, nth_error bs j = Some b ->
       exists b', nth_error bs' j = Some b'
         /\ run_groups (filter (fun kg => fst (fst kg) =? s + N.of_nat j) gs) b = Ok b'.
Proof.
  induction gs as [|[k g] r IH]; intros s bs bs' Hn H; simpl in H.
  - inversion H; subst bs'. split; [exact Hn|]. split; [reflexivity|]. intros j b Hb. exists b. auto.
  - apply bind_ok in H. destruct H as [bs1 [H1 H2]]. pose proof H1 as H0.
    apply (on_block_local s) in H1; [|exact Hn]. destruct H1 as [j0 [b0 [b0' [Hk [Hb0 [Hf [Hl Hi]]]]]]].
    assert (Hn1 : numbered s bs1).
    { eapply numbered_proj; [|exact Hn]. eapply on_block_proj; [|exact H0].
      intros x x' _ Hx. eapply log_group_num; eauto. }
    destruct (IH s bs1 bs' Hn1 H2) as [Hn2 [Hl2 Hloc]]. apply nth_error_if_same in Hi. destruct Hi as [Hi1 Hi2].
    split; [exact Hn2|]. split; [congruence|]. intros j b Hb. simpl.
    destruct (N.eq_dec (fst k) (s + N.of_nat j)) as [E|E].
    + assert (j = j0) by lia. subst j0. rewrite Hb in Hb0. inversion Hb0; subst b0.
      destruct (Hloc j b0' Hi1) as [b' [Hb' Hr]]. exists b'. split; [exact Hb'|].
      apply N.eqb_eq in E. rewrite E. simpl. rewrite Hf. simpl. exact Hr.
    + assert (j <> j0) by lia. rewrite <- (Hi2 j) in Hb by assumption.
      destruct (Hloc j b Hb) as [b' [Hb' Hr]]. exists b'. split; [exact Hb'|].
      apply N.eqb_neq in E. rewrite E. exact Hr.
Qed.

Lemma run_groups_decomp : forall gs b b', run_groups gs b = Ok b' ->
  exists h, b' = with_txs (with_hash b h) (fold_left (ustep _ idxL FL) gs (b_txs b))
    /\ (b_hash b = [] \/ h = b_hash b) /\ (gs = [] -> h = b_hash b)
    /\ forall kg l, In kg gs -> In l (snd kg) -> lr_bhash l = h \/ (lr_bhash l = [] /\ b_hash b = []).
Proof.
  induction gs as [|[k g] r IH]; intros b b' H; simpl in H.
  - inversion H; subst b'. exists (b_hash b). split; [destruct b; reflexivity|]. split; [auto|]. split; [auto|].
    intros kg l [].
  - apply bind_ok in H. destruct H as [b1 [H1 H2]]. unfold log_group in H1. simpl in H1.
    apply bind_ok in H1. destruct H1 as [b0 [Hh Hb]]. inversion Hb; subst b1. clear Hb.
    apply set_hashes_spec in Hh. destruct Hh as [h1 [-> [A1 [_ A3]]]].
    apply IH in H2. destruct H2 as [h [-> [B1 [B2 B3]]]]. simpl in B1, B2, B3.
    exists h. split; [reflexivity|]. split; [|split].
    + destruct B1 as [B1|B1]; [subst h1; destruct A1 as [A1|A1]; [left; exact A1 | left; congruence] |].
      subst h. destruct A1 as [A1|A1]; [left; exact A1 | right; exact A1].
    + intros E; discriminate.
    + assert (Hnil : h1 = [] -> b_hash b = []).
      { intros E. destruct A1 as [A1|A1]; [exact A1 | congruence]. }
      intros kg l [Hkg|Hkg] Hl.
      * subst kg. simpl in Hl. destruct (A3 (lr_bhash l) (in_map _ _ _ Hl)) as [C|[C1 C2]]; [|right; auto].
        destruct B1 as [B1|B1]; [right; split; [congruence | auto] | left; congruence].
      * destruct (B3 kg l Hkg Hl) as [C|[C1 C2]]; [left; exact C | right; auto].
Qed.

Lemma nodup_map_filter : forall {A B} (f : A -> B) (p : A -> bool) l, NoDup (map f l) -> NoDup (map f (filter p l)).
Proof.
  induction l as [|x l IH]; simpl; intros H; [constructor|]. inversion H as [|? ? Hni Hnd]; subst.
  destruct (p x); simpl; [|apply IH; exact Hnd]. constructor; [|apply IH; exact Hnd].
  intros Hin. apply Hni. apply in_map_iff in Hin. destruct Hin as [y [Hy Hin]]. apply filter_In in Hin.
  rewrite <- Hy. apply in_map. apply Hin.
Qed.

Definition kfL (l : logr) : key := (lr_bnum l, lr_txidx l).

Lemma run_groups_block_ok : forall ls b b',
  run_groups (filter (fun kg => fst (fst kg) =? b_num b) (group_by kfL ls)) b = Ok b' ->
  logs_block_ok ls b b'.
Proof.
  intros ls b b' H. set (n := b_num b) in *.
  destruct (group_by_spec kfL ls) as [G1 [G2 G3]]. set (gs := group_by kfL ls) in *.
  set (gsn := filter (fun kg => fst (fst kg) =? n) gs) in *.
  set (mine := filter (fun l => lr_bnum l =? n) ls).
  apply run_groups_decomp in H. destruct H as [h [-> [A1 [A2 A3]]]].
  (* members of the groups of this block are exactly the logs naming it *)
  assert (Fmem : forall k g l, In (k, g) gsn -> In l g -> In l mine /\ lr_txidx l = snd k /\ fst k = n).
  { intros k g l Hkg Hl. apply filter_In in Hkg. destruct Hkg as [Hkg Hk]. simpl in Hk. apply N.eqb_eq in Hk.
    destruct (G2 k g Hkg) as [Hg _]. rewrite Hg in Hl. apply filter_In in Hl. destruct Hl as [Hl Hkl].
    apply key_eqb_eq in Hkl. unfold kfL in Hkl. subst k. simpl in *. split; [|auto].
    apply filter_In. split; [exact Hl | apply N.eqb_eq; exact Hk]. }
  assert (Fgrp : forall l, In l mine -> exists g, In (kfL l, g) gsn /\ In l g).
  { intros l Hl. apply filter_In in Hl. destruct Hl as [Hl Hb]. exists (filter (fun y => key_eqb (kfL y) (kfL l)) ls).
    split; [apply filter_In; split; [apply G3; exact Hl | exact Hb]|].
    apply filter_In. split; [exact Hl | apply key_eqb_refl]. }
  assert (Fne : forall k g, In (k, g) gsn -> exists l, In l g).
  { intros k g Hkg. apply filter_In in Hkg. destruct Hkg as [Hkg _]. destruct (G2 k g Hkg) as [_ Hne].
    destruct g as [|l g']; [contradiction | exists l; left; reflexivity]. }
  assert (Hnd : NoDup (map idxL gsn)).
  { replace (map idxL gsn) with (map snd (map fst gsn)) by (rewrite map_map; reflexivity).
    apply (nodup_snd n); [|apply nodup_map_filter; exact G1].
    intros k Hk. apply in_map_iff in Hk. destruct Hk as [[k' g] [Hk Hin]]. simpl in Hk. subst k'.
    apply filter_In in Hin. destruct Hin as [_ Hin]. simpl in Hin. apply N.eqb_eq. exact Hin. }
  assert (Fidx : forall x t, t_idx (FL x t) = t_idx t) by reflexivity.
  destruct (fold_upd_spec _ idxL FL Fidx gsn (b_txs b) Hnd) as [U1 U2].
  unfold logs_block_ok. fold n. fold mine. simpl.
  split; [reflexivity|]. split; [reflexivity|]. split; [reflexivity|]. split.
  { intros Em. assert (Eg : gsn = []).
    { destruct gsn as [|[k g] r] eqn:Eg; [reflexivity|]. exfalso.
      destruct (Fne k g (or_introl eq_refl)) as [l Hl].
      destruct (Fmem k g l (or_introl eq_refl) Hl) as [Hm _]. rewrite Em in Hm. contradiction. }
    rewrite Eg. simpl. rewrite (A2 Eg). destruct b; reflexivity. }
  split; [exact A1|]. split.
  { intros l Hl. destruct (Fgrp l Hl) as [g [Hg Hlg]]. exact (A3 _ l Hg Hlg). }
  split.
  { intros l Hl. destruct (Fgrp l Hl) as [g [Hg Hlg]].
    destruct (U1 _ Hg) as [t [t0 [Ht [Hte [Hi _]]]]]. unfold idxL in Hi. simpl in Hi.
    destruct (logs_fold_spec (map lr_log g) (t_logs t0)) as [_ [_ L3]].
    destruct (L3 (lr_log l) (in_map _ _ _ Hlg)) as [y [Hy Hyi]].
    exists t, y. subst t. unfold FL. simpl. repeat split; auto. }
  split.
  { intros t x Ht Hx. destruct (U2 t Ht) as [Hb|[[k g] [t0 [Hkg [Hte [Hi Hfrom]]]]]].
    - left. exists t. auto.
    - subst t. unfold FL in Hx. simpl in Hx. unfold idxL in Hi. simpl in Hi.
      destruct (logs_fold_spec (map lr_log g) (t_logs t0)) as [L1 _].
      destruct (L1 x Hx) as [Hx0|Hxg].
      + destruct Hfrom as [Hfrom|Hfrom]; [|subst t0; simpl in Hx0; contradiction].
        left. exists t0. unfold FL. simpl. auto.
      + right. apply in_map_iff in Hxg. destruct Hxg as [l [Hle Hl]].
        destruct (Fmem k g l Hkg Hl) as [Hm [Hti _]]. exists l. unfold FL. simpl. repeat split; auto. congruence. }
  intros t Ht. destruct (U2 t Ht) as [Hb|[[k g] [t0 [Hkg [Hte [Hi Hfrom]]]]]].
  - exists t. repeat split; auto.
  - subst t. unfold idxL in Hi. simpl in Hi. exists t0. unfold FL. simpl.
    destruct (Fne k g Hkg) as [l Hl]. destruct (Fmem k g l Hkg Hl) as [Hm [Hti _]].
    assert (Hex : exists l0, In l0 mine /\ lr_txidx l0 = t_idx t0) by (exists l; split; [exact Hm | congruence]).
    repeat split; auto. destruct Hfrom as [Hfrom|Hfrom].
    + left. split; [exact Hfrom | right; exact Hex].
    + right. split; [rewrite Hi; exact Hfrom | exact Hex].
Qed.

(* ---------------------------------------------------------------- validate / blocks / headers *)
Lemma linked_from_spec : forall bs prev n, linked_from repaired prev n bs = true ->
  numbered n bs /\ linked (prev :: bs).
Proof.
  induction bs as [|b r IH]; intros prev n H; simpl in H.
  - split; [reflexivity | exact I].
  - apply andb_true_iff in H. destruct H as [H H3]. apply andb_true_iff in H. destruct H as [H1 H2].
    apply N.eqb_eq in H1. apply bytes_eqb_eq in H2. destruct (IH _ _ H3) as [Hn Hl].
    split; [apply numbered_cons; auto|]. simpl. split; [exact H2|]. exact Hl.
Qed.

Lemma validate_spec : forall s l bs, validate repaired s l bs = true -> numbered s bs /\ linked bs /\ bs <> [].
Proof.
  intros s l [|b0 r] H; simpl in H; [discriminate|].
  apply andb_true_iff in H. destruct H as [H H3]. apply andb_true_iff in H. destruct H as [H1 _].
  apply N.eqb_eq in H1. destruct (linked_from_spec _ _ _ H3) as [Hn Hl].
  split; [apply numbered_cons; auto|]. split; [exact Hl | discriminate].
Qed.

Lemma linked_nth : forall bs i a b, linked bs -> nth_error bs i = Some a -> nth_error bs (S i) = Some b ->
  b_parent b = b_hash a.
Proof.
  induction bs as [|x r IH]; intros i a b Hl Ha Hb; [destruct i; discriminate|].
  destruct i; simpl in Ha, Hb.
  - inversion Ha; subst x. destruct r as [|y r']; [discriminate|]. simpl in Hb. inversion Hb; subst y.
    simpl in Hl. apply Hl.
  - destruct r as [|y r']; [destruct i; discriminate|]. simpl in Hl. destruct Hl as [_ Hl].
    eapply IH; eauto.
Qed.

Lemma fill_length : forall n es, length (fill n es) = n.
Proof. intros. unfold fill. rewrite map_length, seq_length. reflexivity. Qed.

Lemma fill_nth : forall n es i, (i < n)%nat -> nth_error (fill n es) i = Some (fill_one es i).
Proof.
  intros. unfold fill. rewrite nth_error_map, nth_error_nth' with (d := 0%nat) by (rewrite seq_length; lia).
  rewrite seq_nth by lia. reflexivity.
Qed.

Lemma existsb_false : forall {A} (f : A -> bool) l, existsb f l = false -> forall x, In x l -> f x = false.
Proof.
  intros A f l H x Hx. destruct (f x) eqn:E; [|reflexivity].
  assert (existsb f l = true) by (apply existsb_exists; eauto). congruence.
Qed.

Lemma In_firstn_nth : forall {A} (l : list A) n i e, nth_error l i = Some e -> (i < n)%nat -> In e (firstn n l).
Proof.
  induction l as [|x l IH]; intros n i e H Hi; [destruct i; discriminate|].
  destruct n; [lia|]. destruct i; simpl in *.
  - inversion H. left. reflexivity.
  - right. eapply IH; eauto. lia.
Qed.

Lemma nth_firstn : forall {A} (l : list A) n i, (i < n)%nat -> nth_error (firstn n l) i = nth_error l i.
Proof.
  induction l as [|x l IH]; intros n i Hi; [rewrite firstn_nil; reflexivity|].
  destruct n; [lia|]. destruct i; simpl; [reflexivity|]. apply IH. lia.
Qed.

Definition hashes_known (bs : list block) : Prop := forall b, In b bs -> b_hash b <> [].

Lemma fetch_blocks_spec : forall s l r bs, fetch_blocks repaired s l r = Ok bs ->
  blocks_reply_ok s l r bs /\ numbered s bs /\ linked bs /\ hashes_known bs.
Proof.
  intros s l r bs H. unfold fetch_blocks in H. destruct r as [|es]; [discriminate|].
  destruct (existsb be_err es) eqn:Ee; [discriminate|]. simpl in H.
  destruct ((length es <? N.to_nat l)%nat || existsb belem_missing (firstn (N.to_nat l) es)) eqn:Em; [discriminate|].
  apply orb_false_iff in Em. destruct Em as [Em1 Em2]. apply Nat.ltb_ge in Em1.
  destruct (validate repaired s l (fill (N.to_nat l) es)) eqn:Ev; [|discriminate]. inversion H; subst bs. clear H.
  apply validate_spec in Ev. destruct Ev as [Hn [Hl Hne]].
  assert (Hlen : length (fill (N.to_nat l) es) = N.to_nat l) by apply fill_length.
  assert (Hpos : 0 < l).
  { destruct (N.to_nat l) eqn:E; [|lia]. exfalso. apply Hne. apply length_zero_iff_nil. exact Hlen. }
  assert (Hel : forall i, (i < N.to_nat l)%nat ->
            exists e b, nth_error es i = Some e /\ be_res e = Some b /\ nth_error (fill (N.to_nat l) es) i = Some b
                        /\ b_hash b <> [] /\ b_num b = s + N.of_nat i).
  { intros i Hi. destruct (nth_error es i) as [e|] eqn:En; [|apply nth_error_None in En; lia].
    pose proof (existsb_false _ _ Em2 e (In_firstn_nth _ _ _ _ En Hi)) as Hm. unfold belem_missing in Hm.
    destruct (be_res e) as [b|] eqn:Eb; [|discriminate]. apply is_nil_false in Hm.
    assert (Hf : nth_error (fill (N.to_nat l) es) i = Some b).
    { rewrite fill_nth by exact Hi. unfold fill_one. rewrite En, Eb. reflexivity. }
    exists e, b. repeat split; auto. eapply numbered_nth; eauto. }
  split.
  { exists es. split; [reflexivity|]. split; [apply existsb_false; exact Ee|]. split; [exact Em1|].
    split; [exact Hpos|]. split; [exact Hlen|]. exact Hel. }
  split; [exact Hn|]. split; [exact Hl|].
  intros b Hb. apply In_nth_error in Hb. destruct Hb as [i Hi].
  assert (Hlt : (i < N.to_nat l)%nat). { rewrite <- Hlen. apply nth_error_Some. congruence. }
  destruct (Hel i Hlt) as [e [b0 [_ [_ [Hf [Hh _]]]]]]. congruence.
Qed.

Lemma numbers_spec : forall s l, numbered s (numbers s l) /\ length (numbers s l) = N.to_nat l.
Proof.
  intros. unfold numbers, numbered. rewrite map_length, seq_length. split; [|reflexivity].
  rewrite map_map. reflexivity.
Qed.

Lemma fetch_spec : forall p s l w base, fetch repaired p s l w = Ok base ->
  numbered s base /\ length base = N.to_nat l
  /\ (fetches p = true -> blocks_reply_ok s l (block_reply p w) base /\ linked base /\ hashes_known base)
  /\ (fetches p = false -> base = numbers s l).
Proof.
  intros p s l w base H. unfold fetch in H. unfold fetches, block_reply.
  destruct (use_blocks p) eqn:Eb; [|destruct (use_headers p) eqn:Eh].
  - apply fetch_blocks_spec in H. destruct H as [H1 [H2 [H3 H4]]]. split; [exact H2|]. split.
    + destruct H1 as [es [_ [_ [_ [_ [Hl _]]]]]]. exact Hl.
    + split; [auto | discriminate].
  - apply fetch_blocks_spec in H. destruct H as [H1 [H2 [H3 H4]]]. split; [exact H2|]. split.
    + destruct H1 as [es [_ [_ [_ [_ [Hl _]]]]]]. exact Hl.
    + split; [auto | discriminate].
  - inversion H; subst base. destruct (numbers_spec s l) as [H1 H2]. split; [exact H1|]. split; [exact H2|].
    split; [discriminate | reflexivity].
Qed.

(* ---------------------------------------------------------------- the attachment requests *)
Lemma receipts_top_spec : forall s l r base bs,
  numbered s base -> length base = N.to_nat l -> receipts repaired s l r base = Ok bs ->
  numbered s bs /\ length bs = length base /\
  exists es, r = RBody es /\ (forall e, In e es -> re_err e = false) /\ (N.to_nat l <= length es)%nat
    /\ forall i, (i < N.to_nat l)%nat ->
         exists e, nth_error es i = Some e /\ receipts_elem_ok (s + N.of_nat i) e (nth_error base i) (nth_error bs i).
Proof.
  intros s l r base bs Hn Hlen H. unfold receipts in H. destruct r as [|es]; [discriminate|].
  destruct (existsb re_err es) eqn:Ee; [discriminate|]. simpl in H.
  destruct (length es <? N.to_nat l)%nat eqn:El; [discriminate|]. apply Nat.ltb_ge in El.
  pose proof (existsb_false _ _ Ee) as Herr.
  apply receipts_loop_spec in H; [|exact Hn|].
  2:{ intros e He. apply Herr. rewrite <- (firstn_skipn (N.to_nat l) es). apply in_or_app. left. exact He. }
  destruct H as [H1 [H2 [_ H4]]]. split; [exact H1|]. split; [exact H2|].
  exists es. split; [reflexivity|]. split; [exact Herr|]. split; [exact El|].
  intros i Hi. destruct (nth_error es i) as [e|] eqn:En; [|apply nth_error_None in En; lia].
  exists e. split; [reflexivity|]. specialize (H4 i e). rewrite nth_firstn in H4 by exact Hi.
  simpl in H4. apply H4. exact En.
Qed.

Lemma logs_scan_spec : forall s l lo ls, logs_scan repaired s l lo = Ok ls ->
  lo = map Some ls /\ forall x, In x ls -> s <= lr_bnum x < s + l.
Proof.
  intros s l. induction lo as [|o r IH]; intros ls H; simpl in H.
  - inversion H; subst ls. split; [reflexivity | intros x []].
  - destruct o as [x|]; [|discriminate]. destruct (in_range s l (lr_bnum x)) eqn:Er; [|discriminate].
    apply bind_ok in H. destruct H as [rest [H1 H2]]. inversion H2; subst ls. destruct (IH _ H1) as [I1 I2].
    split; [simpl; congruence|]. intros y [Hy|Hy]; [|apply I2; exact Hy]. subst y.
    unfold in_range in Er. apply andb_true_iff in Er. destruct Er as [E1 E2]. lia.
Qed.

Lemma logs_top_spec : forall s l r base bs,
  numbered s base -> length base = N.to_nat l -> logs repaired s l r base = Ok bs ->
  numbered s bs /\ length bs = length base /\
  exists lb ls, r = RBody lb
    /\ (2 <= lb_len lb)%nat /\ lb_herr lb = false /\ lb_lerr lb = false
    /\ (exists h, lb_hdr lb = Some h
          /\ forall b, nth_error base (N.to_nat l - 1) = Some b -> b_hash b <> [] -> b_hash b = h)
    /\ lb_logs lb = Some (map Some ls)
    /\ (forall x, In x ls -> s <= lr_bnum x < s + l)
    /\ forall j b, nth_error base j = Some b -> exists b', nth_error bs j = Some b' /\ logs_block_ok ls b b'.
Proof.
  intros s l r base bs Hn Hlen H. unfold logs in H. destruct r as [|lb]; [discriminate|]. simpl in H.
  destruct (lb_len lb <? 2)%nat eqn:El; [discriminate|]. apply Nat.ltb_ge in El.
  destruct (lb_herr lb) eqn:E1; [discriminate|]. destruct (lb_lerr lb) eqn:E2; [discriminate|].
  destruct (lb_hdr lb) as [h|] eqn:E3; [|discriminate].
  destruct (lb_logs lb) as [lo|] eqn:E4; [|discriminate].
  destruct (hdr_skew (s + l - 1) h base) eqn:Esk; [discriminate|].
  apply bind_ok in H. destruct H as [ls [Hs Hg]]. apply logs_scan_spec in Hs. destruct Hs as [-> Hr].
  destruct (logs_groups_local _ _ _ _ Hn Hg) as [G1 [G2 G3]].
  split; [exact G1|]. split; [exact G2|]. exists lb, ls.
  split; [reflexivity|]. split; [exact El|]. split; [exact E1|]. split; [exact E2|]. split.
  { exists h. split; [exact E3|]. intros b Hb Hne.
    assert (Hj : (N.to_nat l - 1 < length base)%nat) by (apply nth_error_Some; congruence).
    pose proof (bm_get_numbered _ _ _ _ Hn Hb) as Hg2.
    replace (s + N.of_nat (N.to_nat l - 1)) with (s + l - 1) in Hg2 by lia.
    unfold hdr_skew in Esk. rewrite Hg2 in Esk. apply andb_false_iff in Esk. destruct Esk as [Esk|Esk].
    - apply negb_false_iff in Esk. apply is_nil_true in Esk. contradiction.
    - apply negb_false_iff in Esk. apply bytes_eqb_eq in Esk. exact Esk. }
  split; [exact E4|]. split; [exact Hr|].
  intros j b Hb. destruct (G3 j b Hb) as [b' [Hb' Hrun]]. exists b'. split; [exact Hb'|].
  apply run_groups_block_ok. rewrite (numbered_nth _ _ _ _ Hn Hb). exact Hrun.
Qed.

Lemma traces_top_spec : forall s l rs base bs,
  numbered s base -> traces repaired s l rs base = Ok bs ->
  numbered s bs /\ length bs = length base /\
  forall i, (i < N.to_nat l)%nat ->
    exists r, nth_error rs i = Some r /\ traces_elem_ok (s + N.of_nat i) r (nth_error base i) (nth_error bs i).
Proof.
  intros s l rs base bs Hn H. unfold traces in H. apply traces_loop_spec in H; [|exact Hn].
  destruct H as [H1 [H2 [_ H4]]]. split; [exact H1|]. split; [exact H2|]. intros i Hi. exact (H4 i Hi).
Qed.

(* ---------------------------------------------------------------- Get *)
Lemma does_traces_repaired : forall p, does_traces repaired p = use_traces p.
Proof. intros p. unfold does_traces. simpl. apply andb_true_r. Qed.

Lemma get_ok_structure : forall p s l w bs, get p s l w = Ok bs ->
  exists base, fetch repaired p s l w = Ok base /\ numbered s bs /\ length bs = N.to_nat l
               /\ exists mid, numbered s mid /\ stage1_faithful p s l w base mid /\ stage2_faithful p s l w mid bs.
Proof.
  intros p s l w bs H. unfold get, get_fx in H. apply bind_ok in H. destruct H as [base [Hf Ha]].
  exists base. split; [exact Hf|]. destruct (fetch_spec _ _ _ _ _ Hf) as [Hn [Hl _]].
  unfold attach in Ha. apply bind_ok in Ha. destruct Ha as [mid [H1 H2]].
  assert (S1 : numbered s mid /\ length mid = length base /\ stage1_faithful p s l w base mid).
  { unfold attach1 in H1. unfold stage1_faithful, attach_kind.
    destruct (use_receipts p); [|destruct (use_logs p)].
    - destruct (receipts_top_spec _ _ _ _ _ Hn Hl H1) as [A1 [A2 A3]]. auto.
    - destruct (logs_top_spec _ _ _ _ _ Hn Hl H1) as [A1 [A2 A3]]. auto.
    - inversion H1; subst mid. auto. }
  destruct S1 as [Hnm [Hlm S1]].
  unfold attach2 in H2. rewrite does_traces_repaired in H2.
  assert (S2 : numbered s bs /\ length bs = length mid /\ stage2_faithful p s l w mid bs).
  { unfold stage2_faithful. destruct (use_traces p).
    - destruct (traces_top_spec _ _ _ _ _ Hnm H2) as [A1 [A2 A3]]. auto.
    - inversion H2; subst bs. auto. }
  destruct S2 as [Hnb [Hlb S2]].
  split; [exact Hnb|]. split; [congruence|]. exists mid. auto.
Qed.

Lemma get_numbers : forall p s l w bs, get p s l w = Ok bs -> map b_num bs = seqN s (N.to_nat l).
Proof.
  intros p s l w bs H. destruct (get_ok_structure _ _ _ _ _ H) as [base [_ [Hn [Hl _]]]].
  unfold numbered in Hn. rewrite Hl in Hn. exact Hn.
Qed.

(* header parts survive the attachment when the hashes are known *)
Lemma map_ext_nth : forall {X} (g : block -> X) bs' bs, length bs' = length bs ->
  (forall j b b', nth_error bs j = Some b -> nth_error bs' j = Some b' -> g b' = g b) -> map g bs' = map g bs.
Proof.
  intros X g. induction bs' as [|x r IH]; intros [|y q] Hl H; simpl in Hl; try discriminate; [reflexivity|].
  simpl. f_equal.
  - apply (H 0%nat); reflexivity.
  - apply IH; [lia|]. intros j b b' Hb Hb'. apply (H (S j)); assumption.
Qed.

Lemma stage1_hdr : forall p s l w base mid, numbered s base -> length base = N.to_nat l -> hashes_known base ->
  stage1_faithful p s l w base mid -> map hdr mid = map hdr base.
Proof.
  intros p s l w base bs Hn Hlen Hk [Hl Ha]. apply map_ext_nth; [exact Hl|]. intros j b b' Hb Hb'.
  assert (Hj : (j < N.to_nat l)%nat). { rewrite <- Hlen. apply nth_error_Some. congruence. }
  assert (Hh : b_hash b <> []) by (apply Hk; eapply nth_error_In; eauto).
  pose proof (numbered_nth _ _ _ _ Hn Hb) as Hnum.
  destruct (attach_kind p).
  - destruct Ha as [es [_ [_ [_ Ha]]]]. destruct (Ha j Hj) as [e [_ [_ [rs [_ [_ [H0 H1]]]]]]].
    rewrite Hb, Hb' in *. destruct rs as [|r0 rs'].
    + specialize (H0 eq_refl). congruence.
    + destruct H1 as [x [x' [E1 [E2 [N1 [P1 [L1 [Hc _]]]]]]]]; [discriminate|].
      inversion E1; inversion E2; subst x x'. destruct Hc as [Hc|Hc]; [contradiction|].
      unfold hdr. rewrite N1, P1, L1, Hc, Hnum. reflexivity.
  - destruct Ha as [lb [ls [_ [_ [_ [_ [_ [_ [_ Ha]]]]]]]]]. destruct (Ha j b Hb) as [b2 [Hb2 Hok]].
    rewrite Hb' in Hb2. inversion Hb2; subst b2. destruct Hok as [N1 [P1 [L1 [_ [Hc _]]]]].
    destruct Hc as [Hc|Hc]; [contradiction|]. unfold hdr. rewrite N1, P1, L1, Hc. reflexivity.
  - subst bs. congruence.
Qed.

Lemma stage2_hdr : forall p s l w mid bs, numbered s mid -> length mid = N.to_nat l -> hashes_known mid ->
  stage2_faithful p s l w mid bs -> map hdr bs = map hdr mid.
Proof.
  intros p s l w base bs Hn Hlen Hk [Hl Ha]. apply map_ext_nth; [exact Hl|]. intros j b b' Hb Hb'.
  assert (Hj : (j < N.to_nat l)%nat). { rewrite <- Hlen. apply nth_error_Some. congruence. }
  assert (Hh : b_hash b <> []) by (apply Hk; eapply nth_error_In; eauto).
  pose proof (numbered_nth _ _ _ _ Hn Hb) as Hnum.
  destruct (use_traces p).
  - destruct (Ha j Hj) as [r [_ [e [ts [_ [_ [_ [_ [_ [x [x' [E1 [E2 [N1 [P1 [L1 [Hc _]]]]]]]]]]]]]]]]].
    rewrite Hb in E1. rewrite Hb' in E2. inversion E1; inversion E2; subst x x'.
    destruct Hc as [Hc|Hc]; [contradiction|]. unfold hdr. rewrite N1, P1, L1, Hc, Hnum. reflexivity.
  - subst bs. congruence.
Qed.

Lemma map_cons_inv : forall {A B} (g : A -> B) x r y q, map g (x :: r) = map g (y :: q) -> g x = g y /\ map g r = map g q.
Proof. intros A B g x r y q H. simpl in H. inversion H. auto. Qed.

Lemma hdr_inv : forall a b, hdr a = hdr b -> b_hash a = b_hash b /\ b_parent a = b_parent b.
Proof. unfold hdr. intros a b H. inversion H. auto. Qed.

Lemma linked_hdr : forall bs' bs, map hdr bs' = map hdr bs -> linked bs -> linked bs'.
Proof.
  induction bs' as [|x r IH]; intros [|y q] H Hl; try discriminate; [exact I|].
  apply map_cons_inv in H. destruct H as [Hx Hr]. destruct r as [|x2 r2]; [exact I|]. destruct q as [|y2 q2]; [discriminate|].
  destruct (map_cons_inv _ _ _ _ _ Hr) as [Hx2 _].
  change (b_parent y2 = b_hash y /\ linked (y2 :: q2)) in Hl. destruct Hl as [Hp Hl].
  change (b_parent x2 = b_hash x /\ linked (x2 :: r2)). split.
  - apply hdr_inv in Hx. apply hdr_inv in Hx2. destruct Hx, Hx2. congruence.
  - apply (IH (y2 :: q2)); [exact Hr | exact Hl].
Qed.

Lemma hashes_hdr : forall bs' bs, map hdr bs' = map hdr bs -> hashes_known bs -> hashes_known bs'.
Proof.
  intros bs' bs H Hk b Hb. apply In_nth_error in Hb. destruct Hb as [j Hj].
  assert (Hm : nth_error (map hdr bs') j = Some (hdr b)) by (rewrite nth_error_map, Hj; reflexivity).
  rewrite H, nth_error_map in Hm. destruct (nth_error bs j) as [b0|] eqn:E; [|discriminate].
  simpl in Hm. assert (Hm' : hdr b0 = hdr b) by congruence. apply hdr_inv in Hm'. destruct Hm' as [H2 _]. rewrite <- H2. apply Hk. eapply nth_error_In; eauto.
Qed.

Lemma get_hdrs : forall p s l w bs base mid, fetches p = true ->
  fetch repaired p s l w = Ok base -> numbered s mid ->
  stage1_faithful p s l w base mid -> stage2_faithful p s l w mid bs ->
  map hdr mid = map hdr base /\ map hdr bs = map hdr mid /\ linked base /\ hashes_known base /\ hashes_known mid.
Proof.
  intros p s l w bs base mid Hf Hb Hnm S1 S2.
  destruct (fetch_spec _ _ _ _ _ Hb) as [Hn [Hl [F1 _]]]. destruct (F1 Hf) as [_ [Hlk Hk]].
  pose proof (stage1_hdr _ _ _ _ _ _ Hn Hl Hk S1) as H1.
  pose proof (hashes_hdr _ _ H1 Hk) as Hkm.
  assert (Hlm : length mid = N.to_nat l) by (destruct S1 as [E _]; congruence).
  pose proof (stage2_hdr _ _ _ _ _ _ Hnm Hlm Hkm S2) as H2. auto.
Qed.

Lemma get_linked : forall p s l w bs, fetches p = true -> get p s l w = Ok bs -> linked bs /\ hashes_known bs.
Proof.
  intros p s l w bs Hf H. destruct (get_ok_structure _ _ _ _ _ H) as [base [Hb [_ [_ [mid [Hnm [S1 S2]]]]]]].
  destruct (get_hdrs _ _ _ _ _ _ _ Hf Hb Hnm S1 S2) as [H1 [H2 [Hlk [Hk Hkm]]]].
  split.
  - eapply linked_hdr; [exact H2|]. eapply linked_hdr; eauto.
  - eapply hashes_hdr; eauto.
Qed.

(* ---------------------------------------------------------------- no panic in the repaired client *)
Lemma bind_panic : forall {A B} (o : outcome A) (f : A -> outcome B),
  bind o f = Panic -> o = Panic \/ exists a, o = Ok a /\ f a = Panic.
Proof. intros A B [a| |] f H; simpl in H; try discriminate; eauto. Qed.

Lemma on_block_no_panic : forall n f bs, (forall b, f b <> Panic) -> on_block n f bs <> Panic.
Proof.
  unfold on_block. intros n f bs Hf H. destruct (bm_get n bs) as [b|]; [|discriminate].
  apply bind_panic in H. destruct H as [H|[a [_ H]]]; [eapply Hf; eauto | discriminate].
Qed.

Lemma rcpt_block_no_panic : forall fx rs b, rcpt_block fx rs b <> Panic.
Proof.
  unfold rcpt_block. intros fx rs b H. apply bind_panic in H. destruct H as [H|[a [_ H]]]; [|discriminate].
  eapply set_hashes_no_panic; eauto.
Qed.
Lemma log_group_no_panic : forall fx ti g b, log_group fx ti g b <> Panic.
Proof.
  unfold log_group. intros fx ti g b H. apply bind_panic in H. destruct H as [H|[a [_ H]]]; [|discriminate].
  eapply set_hashes_no_panic; eauto.
Qed.
Lemma trace_block_no_panic : forall fx ts b, trace_block fx ts b <> Panic.
Proof.
  unfold trace_block. intros fx ts b H. apply bind_panic in H. destruct H as [H|[a [_ H]]]; [|discriminate].
  eapply set_hashes_no_panic; eauto.
Qed.

Lemma receipts_loop_no_panic : forall fx s l es i bs, receipts_loop fx s l i es bs <> Panic.
Proof.
  intros fx s l. induction es as [|e r IH]; intros i bs H; simpl in H; [discriminate|].
  apply bind_panic in H. destruct H as [H|[a [_ H]]]; [|eapply IH; eauto].
  unfold receipts_elem in H. destruct (re_res e) as [[|r0 rs]|]; try (destruct (fx_receipts fx); discriminate); try discriminate.
  destruct (fx_receipts fx).
  - destruct (forallb _ _); [|discriminate]. eapply on_block_no_panic; [|exact H]. apply rcpt_block_no_panic.
  - destruct (_ || _); [discriminate|]. eapply on_block_no_panic; [|exact H]. apply rcpt_block_no_panic.
Qed.

Lemma logs_groups_no_panic : forall fx gs bs, logs_groups fx gs bs <> Panic.
Proof.
  intros fx. induction gs as [|[k g] r IH]; intros bs H; simpl in H; [discriminate|].
  apply bind_panic in H. destruct H as [H|[a [_ H]]]; [|eapply IH; eauto].
  eapply on_block_no_panic; [|exact H]. apply log_group_no_panic.
Qed.

Lemma logs_scan_no_panic : forall s l lo, logs_scan repaired s l lo <> Panic.
Proof.
  intros s l. induction lo as [|o r IH]; intros H; simpl in H; [discriminate|].
  destruct o as [x|]; [|discriminate]. destruct (in_range s l (lr_bnum x)); [|discriminate].
  apply bind_panic in H. destruct H as [H|[a [_ H]]]; [contradiction | discriminate].
Qed.

Lemma traces_loop_no_panic : forall fx s n rs i bs, traces_loop fx s i n rs bs <> Panic.
Proof.
  intros fx s. induction n as [|n IH]; intros rs i bs H; simpl in H; [discriminate|].
  destruct rs as [|r rest]; [discriminate|].
  apply bind_panic in H. destruct H as [H|[a [_ H]]]; [|eapply IH; eauto].
  unfold traces_elem in H. destruct r as [|e]; [discriminate|]. destruct (te_err e); [discriminate|].
  destruct (te_res e) as [[|t0 ts]|]; try discriminate. destruct (fx_traces fx).
  - destruct (forallb _ _); [|discriminate]. eapply on_block_no_panic; [|exact H]. apply trace_block_no_panic.
  - eapply on_block_no_panic; [|exact H]. apply trace_block_no_panic.
Qed.

Lemma fetch_no_panic : forall fx p s l w, fetch fx p s l w <> Panic.
Proof.
  intros fx p s l w. unfold fetch, fetch_blocks.
  destruct (use_blocks p); [|destruct (use_headers p)]; try discriminate.
  - destruct (w_blocks w); [discriminate|]. destruct (existsb _ _); [discriminate|].
    destruct (_ && _); [discriminate|]. destruct (validate _ _ _ _); discriminate.
  - destruct (w_headers w); [discriminate|]. destruct (existsb _ _); [discriminate|].
    destruct (_ && _); [discriminate|]. destruct (validate _ _ _ _); discriminate.
Qed.

Lemma get_no_panic : forall p s l w, get p s l w <> Panic.
Proof.
  intros p s l w H. unfold get, get_fx in H. apply bind_panic in H.
  destruct H as [H|[bs [_ H]]]; [eapply fetch_no_panic; eauto|].
  unfold attach in H. apply bind_panic in H. destruct H as [H|[mid [_ H]]].
  2:{ unfold attach2 in H. destruct (does_traces repaired p); [|discriminate]. eapply traces_loop_no_panic; eauto. }
  unfold attach1 in H. destruct (use_receipts p); [|destruct (use_logs p)].
  - unfold receipts in H. destruct (w_receipts w); [discriminate|]. destruct (existsb _ _); [discriminate|].
    simpl in H. destruct (_ <? _)%nat; [discriminate|]. eapply receipts_loop_no_panic; eauto.
  - unfold logs in H. destruct (w_logs w) as [|lb]; [discriminate|]. simpl in H.
    destruct (_ <? _)%nat; [discriminate|]. destruct (lb_herr lb); [discriminate|]. destruct (lb_lerr lb); [discriminate|].
    destruct (lb_hdr lb); [|discriminate]. destruct (lb_logs lb); [|discriminate].
    destruct (hdr_skew _ _ _); [discriminate|].
    apply bind_panic in H. destruct H as [H|[a [_ H]]]; [eapply logs_scan_no_panic; eauto | eapply logs_groups_no_panic; eauto].
  - discriminate.
Qed.

Lemma get_err_of_not_ok : forall p s l w, (forall bs, get p s l w <> Ok bs) -> get p s l w = Err.
Proof.
  intros p s l w H. destruct (get p s l w) as [bs| |] eqn:E; [exfalso; eapply H; eauto | reflexivity |].
  exfalso. eapply get_no_panic; eauto.
Qed.

(* ---------------------------------------------------------------- every corruption class is rejected *)
Lemma get_rejects : forall p s l w, corrupted p s l w -> get p s l w = Err.
Proof.
  intros p s l w Hc. apply get_err_of_not_ok. intros bs H.
  destruct (get_ok_structure _ _ _ _ _ H) as [base [Hf [Hn [Hl [mid [Hnm [S1 S2]]]]]]].
  destruct (fetch_spec _ _ _ _ _ Hf) as [Hnb [Hlb [F1 _]]].
  pose proof S1 as S1'. pose proof S2 as S2'.
  destruct S1 as [Hlen Ha]. destruct S2 as [Hlen2 Ht].
  (* facts about the block batch, when one was requested *)
  assert (FB : fetches p = true -> forall es, block_reply p w = RBody es ->
            (forall e, In e es -> be_err e = false) /\ (N.to_nat l <= length es)%nat /\ 0 < l /\
            (forall i, (i < N.to_nat l)%nat -> exists e b, nth_error es i = Some e /\ be_res e = Some b
                 /\ nth_error base i = Some b /\ b_hash b <> [] /\ b_num b = s + N.of_nat i)
            /\ linked base /\ hashes_known base).
  { intros Hfe es Hes. destruct (F1 Hfe) as [[es' [E1 [E2 [E3 [E4 [_ E6]]]]]] [Hlk Hk]].
    rewrite Hes in E1. inversion E1; subst es'. auto 10. }
  destruct Hc as
    [ Hfe Hr | Hfe Hz | es e Hfe Hr Hin He | es Hfe Hr Hsh | es i e Hfe Hr Hi Hn1 Hnull | es i e b Hfe Hr Hi Hn1 Hb Hh
    | es i e b Hfe Hr Hi Hn1 Hb Hnum | es i ea a eb b Hfe Hr Hi Ha1 Ha2 Hb1 Hb2 Hpar
    | Hk Hr | es e Hk Hr Hin He | es Hk Hr Hsh | es i e Hk Hr Hi Hn1 Hnull | es i e rs r Hk Hr Hi Hn1 Hrs Hin Hnum
    | bes be b es i e rs r Hk Hfe Hbr Hbn Hbb Hr Hi Hn1 Hrs Hin Hh
    | Hk Hr | lb Hk Hr Hsh | lb Hk Hr He | lb Hk Hr Hh | bes be b lb h Hk Hfe Hbr Hpos Hbn Hbb Hr Hhd Hh | lb Hk Hr Hnull | lb lo Hk Hr Hlo Hin | lb lo x Hk Hr Hlo Hin Hrng
    | bes be b lb lo x i Hk Hfe Hbr Hi Hbn Hbb Hr Hlo Hin Hnum Hh
    | i Hk Hi Hr | i e Hk Hi Hr He | i e Hk Hi Hr Hnull | i e ts t Hk Hi Hr Hts Hin Hnum
    | bes be b i e ts t Hk Hfe Hbr Hbn Hbb Hi Hr Hts Hin Hh ].
  - destruct (F1 Hfe) as [[es' [E1 _]] _]. congruence.
  - destruct (F1 Hfe) as [[es' [_ [_ [_ [E4 _]]]]] _]. lia.
  - destruct (FB Hfe es Hr) as [E _]. rewrite (E e Hin) in He. discriminate.
  - destruct (FB Hfe es Hr) as [_ [E _]]. lia.
  - destruct (FB Hfe es Hr) as [_ [_ [_ [E _]]]]. destruct (E i Hi) as [e' [b [E1 [E2 _]]]]. congruence.
  - destruct (FB Hfe es Hr) as [_ [_ [_ [E _]]]]. destruct (E i Hi) as [e' [b' [E1 [E2 [_ [E4 _]]]]]]. congruence.
  - destruct (FB Hfe es Hr) as [_ [_ [_ [E _]]]]. destruct (E i Hi) as [e' [b' [E1 [E2 [_ [_ E5]]]]]]. congruence.
  - destruct (FB Hfe es Hr) as [_ [_ [_ [E [Hlk _]]]]].
    destruct (E i) as [e1 [b1 [E1 [E2 [E3 _]]]]]; [lia|]. destruct (E (S i) Hi) as [e2 [b2 [G1 [G2 [G3 _]]]]].
    assert (b1 = a) by congruence. assert (b2 = b) by congruence. subst b1 b2.
    apply Hpar. eapply linked_nth; eauto.
  - rewrite Hk in Ha. destruct Ha as [es [E _]]. congruence.
  - rewrite Hk in Ha. destruct Ha as [es' [E [E2 _]]]. rewrite Hr in E. inversion E; subst es'.
    rewrite (E2 e Hin) in He. discriminate.
  - rewrite Hk in Ha. destruct Ha as [es' [E [_ [E3 _]]]]. rewrite Hr in E. inversion E; subst es'. lia.
  - rewrite Hk in Ha. destruct Ha as [es' [E [_ [_ E4]]]]. rewrite Hr in E. inversion E; subst es'.
    destruct (E4 i Hi) as [e' [G1 [_ [rs [G2 _]]]]]. congruence.
  - rewrite Hk in Ha. destruct Ha as [es' [E [_ [_ E4]]]]. rewrite Hr in E. inversion E; subst es'.
    destruct (E4 i Hi) as [e' [G1 [_ [rs' [G2 [G3 _]]]]]]. assert (e' = e) by congruence. subst e'.
    assert (rs' = rs) by congruence. subst rs'. apply Hnum. apply G3. exact Hin.
  - rewrite Hk in Ha. destruct Ha as [es' [E [_ [_ E4]]]]. rewrite Hr in E. inversion E; subst es'.
    destruct (FB Hfe bes Hbr) as [_ [_ [_ [EB _]]]]. destruct (EB i Hi) as [be' [b' [B1 [B2 [B3 [B4 _]]]]]].
    assert (b' = b) by congruence. subst b'.
    destruct (E4 i Hi) as [e' [G1 [_ [rs' [G2 [_ [_ G5]]]]]]]. assert (e' = e) by congruence. subst e'.
    assert (rs' = rs) by congruence. subst rs'.
    destruct G5 as [x [x' [X1 [X2 [_ [_ [_ [X6 [X7 _]]]]]]]]]; [intros Er; subst rs; contradiction|].
    rewrite B3 in X1. inversion X1; subst x. destruct X6 as [X6|X6]; [contradiction|].
    destruct (X7 r Hin) as [X|[_ X]]; [|contradiction]. apply Hh. congruence.
  - rewrite Hk in Ha. destruct Ha as [lb [ls [E _]]]. congruence.
  - rewrite Hk in Ha. destruct Ha as [lb' [ls [E [E2 _]]]]. rewrite Hr in E. inversion E; subst lb'. lia.
  - rewrite Hk in Ha. destruct Ha as [lb' [ls [E [_ [E3 [E4 _]]]]]]. rewrite Hr in E. inversion E; subst lb'.
    destruct He; congruence.
  - rewrite Hk in Ha. destruct Ha as [lb' [ls [E [_ [_ [_ [[h [E5 _]] _]]]]]]]. rewrite Hr in E. inversion E; subst lb'. congruence.
  - rewrite Hk in Ha. destruct Ha as [lb' [ls [E [_ [_ [_ [[h' [E5 E6]] _]]]]]]]. rewrite Hr in E. inversion E; subst lb'.
    assert (h' = h) by congruence. subst h'.
    destruct (FB Hfe bes Hbr) as [_ [_ [_ [EB _]]]].
    destruct (EB (N.to_nat l - 1)%nat) as [be' [b' [B1 [B2 [B3 [B4 _]]]]]]; [lia|].
    assert (b' = b) by congruence. subst b'. apply Hh. symmetry. apply E6; assumption.
  - rewrite Hk in Ha. destruct Ha as [lb' [ls [E [_ [_ [_ [_ [E6 _]]]]]]]]. rewrite Hr in E. inversion E; subst lb'. congruence.
  - rewrite Hk in Ha. destruct Ha as [lb' [ls [E [_ [_ [_ [_ [E6 _]]]]]]]]. rewrite Hr in E. inversion E; subst lb'.
    rewrite Hlo in E6. inversion E6; subst lo. apply in_map_iff in Hin. destruct Hin as [x [Hx _]]. discriminate.
  - rewrite Hk in Ha. destruct Ha as [lb' [ls [E [_ [_ [_ [_ [E6 [E7 _]]]]]]]]]. rewrite Hr in E. inversion E; subst lb'.
    rewrite Hlo in E6. inversion E6; subst lo. apply in_map_iff in Hin. destruct Hin as [y [Hy Hin]].
    inversion Hy; subst y. apply Hrng. apply E7. exact Hin.
  - rewrite Hk in Ha. destruct Ha as [lb' [ls [E [_ [_ [_ [_ [E6 [_ E8]]]]]]]]]. rewrite Hr in E. inversion E; subst lb'.
    rewrite Hlo in E6. inversion E6; subst lo. apply in_map_iff in Hin. destruct Hin as [y [Hy Hin]].
    inversion Hy; subst y.
    destruct (FB Hfe bes Hbr) as [_ [_ [_ [EB _]]]]. destruct (EB i Hi) as [be' [b' [B1 [B2 [B3 [B4 B5]]]]]].
    assert (b' = b) by congruence. subst b'.
    destruct (E8 i b B3) as [b2 [_ [_ [_ [_ [_ [X5 [X6 _]]]]]]]].
    assert (Hm : In x (filter (fun l0 => lr_bnum l0 =? b_num b) ls)).
    { apply filter_In. split; [exact Hin | apply N.eqb_eq; congruence]. }
    destruct X5 as [X5|X5]; [contradiction|]. destruct (X6 x Hm) as [X|[_ X]]; [|contradiction]. apply Hh. congruence.
  - rewrite Hk in Ht. destruct (Ht i Hi) as [r [G1 [e [ts [G2 _]]]]]. destruct Hr as [Hr|Hr]; congruence.
  - rewrite Hk in Ht. destruct (Ht i Hi) as [r [G1 [e' [ts [G2 [G3 _]]]]]]. assert (e' = e) by congruence. subst e'. congruence.
  - rewrite Hk in Ht. destruct (Ht i Hi) as [r [G1 [e' [ts [G2 [_ [G4 [G5 _]]]]]]]]. assert (e' = e) by congruence. subst e'.
    destruct Hnull as [Hx|Hx]; rewrite Hx in G4; [discriminate|]. inversion G4; subst ts. contradiction.
  - rewrite Hk in Ht. destruct (Ht i Hi) as [r [G1 [e' [ts' [G2 [_ [G4 [_ [G6 _]]]]]]]]]. assert (e' = e) by congruence. subst e'.
    assert (ts' = ts) by congruence. subst ts'. apply Hnum. apply G6. exact Hin.
  - rewrite Hk in Ht. destruct (Ht i Hi) as [r [G1 [e' [ts' [G2 [_ [G4 [_ [_ G7]]]]]]]]]. assert (e' = e) by congruence. subst e'.
    assert (ts' = ts) by congruence. subst ts'.
    destruct (FB Hfe bes Hbr) as [_ [_ [_ [EB _]]]]. destruct (EB i Hi) as [be' [b' [B1 [B2 [B3 [B4 _]]]]]].
    assert (b' = b) by congruence. subst b'.
    destruct (get_hdrs _ _ _ _ _ _ _ Hfe Hf Hnm S1' S2') as [M1 _].
    destruct G7 as [x [x' [X1 [_ [_ [_ [_ [X6 [X7 _]]]]]]]]].
    assert (Hx : b_hash x = b_hash b).
    { assert (Hm : nth_error (map hdr mid) i = Some (hdr x)) by (rewrite nth_error_map, X1; reflexivity).
      rewrite M1, nth_error_map, B3 in Hm. simpl in Hm. assert (Hh2 : hdr b = hdr x) by congruence.
      apply hdr_inv in Hh2. destruct Hh2; congruence. }
    assert (Hxn : b_hash x <> []) by (rewrite Hx; exact B4).
    destruct X6 as [X6|X6]; [contradiction|]. destruct (X7 t Hin) as [X|[_ X]]; [|contradiction]. apply Hh. congruence.
Qed.
