(* C13: facts about the executable Keccak-256 of Model/Keccak.v that hold for
   EVERY input (digest length, state shape through any number of absorbed
   blocks), and the standard test vectors by computation. *)
From Coq Require Import String.
From Coq Require Import List NArith Arith PeanoNat Bool Lia.
From Shovel Require Import Base.Outcome Model.Hex Model.Keccak Model.AbiParse.
Import ListNotations.
Open Scope N_scope.

Lemma le8_length x : length (le8 x) = 8%nat.
Proof. unfold le8. rewrite map_length. reflexivity. Qed.

Lemma keccak256_length bs : length (keccak256 bs) = 32%nat.
Proof. unfold keccak256. rewrite !app_length, !le8_length. reflexivity. Qed.

(* the permutation and the absorption keep the 25 lanes *)
Lemma iota_length rc s : length (iota rc s) = length s.
Proof. destruct s; reflexivity. Qed.

Lemma keccak_round_length s rc : length (keccak_round s rc) = 25%nat.
Proof. unfold keccak_round, chi. rewrite iota_length, map_length. reflexivity. Qed.

Lemma keccak_f_length s : length s = 25%nat -> length (keccak_f s) = 25%nat.
Proof.
  unfold keccak_f. generalize round_constants. intros rcs. revert s.
  induction rcs as [|rc rcs IH]; intros s Hs; cbn [fold_left]; [exact Hs|].
  apply IH. apply keccak_round_length.
Qed.

Lemma xor_lanes_length s : forall ls, length (xor_lanes s ls) = length s.
Proof.
  induction s as [|a s IH]; intros [|l ls]; cbn [xor_lanes length]; try reflexivity.
  rewrite IH. reflexivity.
Qed.

(* by induction over the absorbed blocks: every message, every length *)
Lemma absorb_length fuel : forall s msg, length s = 25%nat -> length (absorb fuel s msg) = 25%nat.
Proof.
  induction fuel as [|fuel IH]; intros s msg Hs; cbn [absorb]; [exact Hs|].
  destruct msg as [|b msg]; [exact Hs|].
  apply IH. apply keccak_f_length. rewrite xor_lanes_length. exact Hs.
Qed.

Lemma keccak_state_length bs : length (keccak_state bs) = 25%nat.
Proof. unfold keccak_state. apply absorb_length. reflexivity. Qed.

(* the padded message is a whole number of 136-byte blocks, at least one *)
Lemma pad_blocks len : Nat.modulo (len + length (pad len)) rate = 0%nat /\ (1 <= length (pad len))%nat.
Proof.
  unfold pad, rate.
  pose proof (Nat.mod_upper_bound len 136 ltac:(lia)) as Hm.
  pose proof (Nat.div_mod len 136 ltac:(lia)) as Hd.
  destruct (Nat.eqb (136 - len mod 136) 1) eqn:E.
  - apply Nat.eqb_eq in E. cbn [length]. split; [|lia].
    replace (len + 1)%nat with ((1 + len / 136) * 136)%nat by lia. apply Nat.mod_mul. lia.
  - apply Nat.eqb_neq in E. cbn [length]. rewrite app_length, repeat_length. cbn [length]. split; [|lia].
    replace (len + S (136 - len mod 136 - 2 + 1))%nat with ((1 + len / 136) * 136)%nat by lia.
    apply Nat.mod_mul. lia.
Qed.

(* standard vectors *)
Example keccak256_empty :
  keccak256 [] = decode_hex (str "c5d2460186f7233c927e7db2dcc703c0e500b653ca82273b7bfad8045d85a470").
Proof. vm_compute. reflexivity. Qed.
Example keccak256_abc :
  keccak256 (str "abc") = decode_hex (str "4e03657aea45a94fc7d47ba826c8d667c0d1e6e33a64a036ec44f58fa12d6c45").
Proof. vm_compute. reflexivity. Qed.
Example keccak256_transfer :
  keccak256 (str "Transfer(address,address,uint256)")
  = decode_hex (str "ddf252ad1be2c89b69c2b068fc378daa952ba7f163c4a11628f55a4df523b3ef").
Proof. vm_compute. reflexivity. Qed.
(* two blocks (rate boundary): 136 bytes of 'a' need a second, padding-only block *)
Example keccak256_two_blocks : length (keccak256 (repeat 97 136)) = 32%nat /\ keccak256 (repeat 97 136) <> keccak256 (repeat 97 135).
Proof. split; [apply keccak256_length|]. vm_compute. discriminate. Qed.
