(* BRIDGE event gate with concrete Keccak-256 (C13) -> row builder (C11):
   proofs.  See Model/BridgeGateRows.v for the definitions.

   1. the gate of Model/Rows.v, on the declaration dig.New builds, IS the gate
      of Model/AbiSig.v with the concrete Keccak-256 ([rows_gate_is_c13_gate]),
      and passes exactly the logs of the declared event ([gate_decl_of]);
   2. Insert is insensitive to logs that fail the gate: they contribute no row
      and can be erased from the chain ([insert_keep_logs]);
   3. per log: nothing unless it is a log of the declared event, and then what
      C11's end-to-end statement says ([rows_only_l]);
   4. a log of ANOTHER event contributes nothing PROVIDED the two 32-byte
      hashes differ (or the topic counts do); that proviso is necessary
      ([other_event_excluded_iff_l]);
   5. Transfer / Approval, by computation. *)
From Coq Require Import String Ascii List NArith ZArith Bool Lia ZifyBool ZifyN ZifyNat.
From Shovel Require Import Base.Outcome Model.Hex Model.Bint.
From Shovel Require Import Model.AbiType Model.AbiScan Model.AbiEnc Model.AbiParse Model.AbiSig Model.Keccak.
From Shovel Require Import Proofs.AbiParseP Proofs.AbiSigP Proofs.KeccakP.
From Shovel Require Import Model.Filter Model.Rows Model.RowsAbi Proofs.FilterP Proofs.RowsP Proofs.RowsAbiP.
From Shovel Require Import Model.BridgeGateRows.
Import ListNotations.
Open Scope N_scope.

(* ================= the declaration dig.New builds ================= *)
Lemma jin_tin x : jin_input (tin_jin x) = tin_input x.
Proof. reflexivity. Qed.

Lemma decl_of_tins_inputs ig name xs block cols agg :
  d_inputs (decl_of (tin_evdecl ig name xs block cols agg)) = map tin_input xs.
Proof.
  unfold decl_of, tin_evdecl. cbn [d_inputs ed_inputs]. rewrite map_map.
  apply map_ext. intros x. apply jin_tin.
Qed.

Lemma ed_js_tins ig name xs block cols agg :
  ed_js (tin_evdecl ig name xs block cols agg) = map tin_jty xs.
Proof. unfold ed_js, tin_evdecl. cbn [ed_inputs]. rewrite map_map. reflexivity. Qed.

(* numIndexed: Rows counts the flags of ITS inputs; they are the JSON's *)
Lemma num_indexed_decl_of ed :
  Rows.num_indexed (decl_of ed) = length (filter j_indexed (ed_js ed)).
Proof.
  unfold Rows.num_indexed, decl_of, ed_js. cbn [d_inputs].
  induction (ed_inputs ed) as [|x r IH]; [reflexivity|].
  cbn [map filter jin_input Rows.i_indexed]. destruct (j_indexed (ji_ty x)); cbn [length]; rewrite IH; reflexivity.
Qed.

Lemma num_indexed_agrees ed :
  Rows.num_indexed (decl_of ed) = AbiSig.num_indexed (ed_json ed).
Proof. rewrite num_indexed_decl_of. unfold ed_json. rewrite num_indexed_of. reflexivity. Qed.

(* sighash: what dig.New stores ([ig_sighash keccak256] of C13) is the
   Keccak-256 of the canonical signature *)
Lemma sighash_decl_of ed : d_sighash (decl_of ed) = keccak256 (ed_sig ed).
Proof. unfold decl_of, ed_json, ed_sig. cbn [d_sighash]. rewrite signature_canonical_l. reflexivity. Qed.

Lemma sighash_is_c13 ed : d_sighash (decl_of ed) = ig_sighash keccak256 (ed_json ed).
Proof. reflexivity. Qed.

Lemma sighash_length ed : length (d_sighash (decl_of ed)) = 32%nat.
Proof. rewrite sighash_decl_of. apply keccak256_length. Qed.

(* ================= the gate ================= *)
Lemma bytes_eqb_refl a : bytes_eqb a a = true.
Proof. apply bytes_eqb_eq. reflexivity. Qed.

Lemma bytes_eqb_neq a b : a <> b -> bytes_eqb a b = false.
Proof. intros H. destruct (bytes_eqb a b) eqn:E; [|reflexivity]. apply bytes_eqb_eq in E. contradiction. Qed.

Lemma is_declared_log_spec name js l :
  is_declared_log name js l = true <-> declared_log name js l.
Proof.
  unfold is_declared_log, declared_log. rewrite andb_true_iff, Nat.eqb_eq, bytes_eqb_eq.
  destruct (l_topics l) as [|t0 r]; cbn [length nth nth_error].
  - split; intros [H _]; discriminate.
  - split; intros [H1 H2]; (split; [exact H1|congruence]).
Qed.

Lemma is_declared_log_false name js l :
  is_declared_log name js l = false <-> ~ declared_log name js l.
Proof.
  rewrite <- is_declared_log_spec. destruct (is_declared_log name js l); split; intros H; congruence.
Qed.

Lemma gate_decl_of ed l :
  Rows.gate (decl_of ed) l = is_declared_log (ed_event ed) (ed_js ed) l.
Proof.
  unfold Rows.gate, is_declared_log. rewrite num_indexed_decl_of, sighash_decl_of. reflexivity.
Qed.

Lemma gate_decl_of_iff ed l :
  Rows.gate (decl_of ed) l = true <-> declared_log (ed_event ed) (ed_js ed) l.
Proof. rewrite gate_decl_of. apply is_declared_log_spec. Qed.

(* the gate of Model/Rows.v is the gate of Model/AbiSig.v (C13), on the
   integration dig.New builds, with the concrete Keccak-256 *)
Lemma rows_gate_is_c13_gate ed l :
  Rows.gate (decl_of ed) l = true <->
  exists st, AbiSig.gate (AbiSig.num_indexed (ed_json ed)) (ig_sighash keccak256 (ed_json ed))
                         (l_topics l) (l_data l) = Ok st /\ st <> Skip.
Proof.
  rewrite gate_decl_of_iff. unfold ed_json.
  rewrite (gate_iff_l keccak256 (ed_event ed) (ed_js ed) (l_topics l) (l_data l)). reflexivity.
Qed.

Lemma process_log_gate_false vr d dbs e l : Rows.gate d l = false -> process_log vr d dbs e l = Ok [].
Proof. intros G. unfold process_log. rewrite G. reflexivity. Qed.

(* ================= Insert does not look at the erased parts of the chain ================= *)
Lemma data_cells_env vr k dbs e1 e2 topics srow i : env_same e1 e2 ->
  forall cds ictr actr fr,
    data_cells vr k dbs e1 topics srow i cds ictr actr fr = data_cells vr k dbs e2 topics srow i cds ictr actr fr.
Proof.
  intros H. induction cds as [|cd rest IH]; intros ictr actr fr; [reflexivity|].
  cbn [data_cells]. rewrite (H (bd_name (cd_bd cd))).
  destruct (Rows.i_indexed (cd_input cd)).
  - destruct (nth_error topics _) as [tp|]; [|reflexivity].
    destruct (accept k dbs _ _ fr) as [fr'| |]; cbn [bind]; [rewrite IH|..]; reflexivity.
  - destruct (cd_is_bd cd).
    + destruct (fld (bd_name (cd_bd cd)) "abi_idx"); [rewrite IH; reflexivity|].
      destruct (get_field e2 (bd_name (cd_bd cd))) as [v| |]; cbn [bind]; try reflexivity.
      destruct (accept k dbs _ v fr) as [fr'| |]; cbn [bind]; [rewrite IH|..]; reflexivity.
    + destruct (nth_error srow actr) as [c0|]; [|reflexivity].
      destruct (accept k dbs _ _ fr) as [fr'| |]; cbn [bind]; [rewrite IH|..]; reflexivity.
Qed.

Lemma nodata_cells_env vr k dbs e1 e2 topics : env_same e1 e2 ->
  forall cds j fr, nodata_cells vr k dbs e1 topics cds j fr = nodata_cells vr k dbs e2 topics cds j fr.
Proof.
  intros H. induction cds as [|cd rest IH]; intros j fr; [reflexivity|].
  cbn [nodata_cells]. rewrite (H (bd_name (cd_bd cd))).
  destruct (Rows.i_indexed (cd_input cd)).
  - destruct (nth_error topics _) as [tp|]; [|reflexivity].
    destruct (accept k dbs _ _ fr) as [fr'| |]; cbn [bind]; [rewrite IH|..]; reflexivity.
  - destruct (cd_is_bd cd); [|reflexivity].
    destruct (get_field e2 (bd_name (cd_bd cd))) as [v| |]; cbn [bind]; try reflexivity.
    destruct (accept k dbs _ v fr) as [fr'| |]; cbn [bind]; [rewrite IH|..]; reflexivity.
Qed.

Lemma tx_cells_env k dbs e1 e2 : env_same e1 e2 ->
  forall cds fr, tx_cells k dbs e1 cds fr = tx_cells k dbs e2 cds fr.
Proof.
  intros H. induction cds as [|cd rest IH]; intros fr; [reflexivity|].
  cbn [tx_cells]. rewrite (H (bd_name (cd_bd cd))).
  destruct (cd_is_bd cd); [|reflexivity].
  destruct (get_field e2 (bd_name (cd_bd cd))) as [v| |]; cbn [bind]; try reflexivity.
  destruct (accept k dbs _ v fr) as [fr'| |]; cbn [bind]; [rewrite IH|..]; reflexivity.
Qed.

Lemma concatM_i_ext {A B} (f g : nat -> A -> outcome (list B)) l :
  (forall i x, f i x = g i x) -> forall i, concatM_i f i l = concatM_i g i l.
Proof.
  intros H. induction l as [|x r IH]; intros i; [reflexivity|].
  cbn [concatM_i]. rewrite H. destruct (g i x) as [a| |]; cbn [bind]; try reflexivity.
  rewrite IH. reflexivity.
Qed.

Lemma process_log_env vr d dbs e1 e2 l : env_same e1 e2 ->
  process_log vr d dbs e1 l = process_log vr d dbs e2 l.
Proof.
  intros H. unfold process_log. destruct (negb (Rows.gate d l)); [reflexivity|].
  destruct (negb (is_nil (l_data l))).
  - destruct (l_scan l) as [srows| |]; cbn [bind]; try reflexivity.
    apply concatM_i_ext. intros i srow. rewrite (data_cells_env _ _ _ _ _ _ _ _ H). reflexivity.
  - rewrite (nodata_cells_env _ _ _ _ _ _ H). reflexivity.
Qed.

Lemma process_tx_env d dbs e1 e2 : env_same e1 e2 -> process_tx d dbs e1 = process_tx d dbs e2.
Proof.
  intros H. unfold process_tx. destruct (0 <? num_selected d)%nat; [reflexivity|].
  destruct (0 <? num_bd d)%nat; [|reflexivity]. rewrite (tx_cells_env _ _ _ _ H). reflexivity.
Qed.

(* the fields logWithCtx.get reads are untouched by the erasure *)
Lemma env_same_keep p c d b t l a :
  env_same (mk_env c d (block_keep_logs p b) (tx_keep_logs p t) l a) (mk_env c d b t l a).
Proof. intros n. reflexivity. Qed.

Lemma concatM_filter {A B} (f : A -> outcome (list B)) (p : A -> bool) l :
  (forall x, In x l -> p x = false -> f x = Ok []) -> concatM f (filter p l) = concatM f l.
Proof.
  induction l as [|x r IH]; intros H; [reflexivity|].
  assert (IH' : concatM f (filter p r) = concatM f r) by (apply IH; intros y Hy; apply H; right; exact Hy).
  cbn [filter]. destruct (p x) eqn:E.
  - rewrite !concatM_cons, IH'. reflexivity.
  - rewrite concatM_cons, (H x (or_introl eq_refl) E), IH'. cbn [bind].
    destruct (concatM f r); reflexivity.
Qed.

(* erasing logs that fail the gate changes nothing: the same outcome (rows,
   error or panic), in every indexing mode, for every variant of the code *)
Lemma insert_keep_logs vr d c dbs (p : logr -> bool) blocks :
  (forall l, p l = false -> Rows.gate d l = false) ->
  insert vr d c dbs (keep_logs p blocks) = insert vr d c dbs blocks.
Proof.
  intros Hp. unfold insert, keep_logs. destruct (indexing vr d).
  - rewrite concatM_map. apply concatM_ext. intros b _. cbn [b_txs block_keep_logs].
    rewrite concatM_map. apply concatM_ext. intros t _.
    apply process_tx_env. apply env_same_keep.
  - rewrite concatM_map. apply concatM_ext. intros b _. cbn [b_txs block_keep_logs].
    rewrite concatM_map. apply concatM_ext. intros t _. cbn [t_traces tx_keep_logs].
    apply concatM_ext. intros a _. apply process_tx_env. apply env_same_keep.
  - rewrite concatM_map. apply concatM_ext. intros b _. cbn [b_txs block_keep_logs].
    rewrite concatM_map. apply concatM_ext. intros t _. cbn [t_logs tx_keep_logs].
    rewrite concatM_filter.
    + apply concatM_ext. intros l _. apply process_log_env. apply env_same_keep.
    + intros l _ E. apply process_log_gate_false. apply Hp. exact E.
Qed.

Lemma insert_ignores_undeclared_l ed c dbs blocks :
  insert fixed (decl_of ed) c dbs (keep_logs (is_declared_log (ed_event ed) (ed_js ed)) blocks)
  = insert fixed (decl_of ed) c dbs blocks.
Proof. apply insert_keep_logs. intros l E. rewrite gate_decl_of. exact E. Qed.

(* ================= per log ================= *)
Lemma Forall2_nth {A B} (R : A -> B -> Prop) l l' :
  Forall2 R l l' -> forall k x, nth_error l k = Some x -> exists y, nth_error l' k = Some y /\ R x y.
Proof.
  induction 1 as [|a b l l' Hab _ IH]; intros k x Hk; [destruct k; discriminate|].
  destruct k as [|k]; cbn [nth_error] in *.
  - injection Hk as <-. exists b. split; [reflexivity|exact Hab].
  - apply IH. exact Hk.
Qed.

Lemma Forall2_len {A B} (R : A -> B -> Prop) l l' : Forall2 R l l' -> length l' = length l.
Proof. induction 1; cbn [length]; congruence. Qed.

(* Insert in log mode = the concatenation, in chain order, of what each log contributes *)
Lemma insert_per_log vr d c dbs blocks rows :
  indexing vr d = IxLog -> insert vr d c dbs blocks = Ok rows ->
  exists per, rows = concat per /\ length per = length (log_items blocks) /\
    forall k b t l, nth_error (log_items blocks) k = Some (b, t, l) ->
      exists rs, nth_error per k = Some rs /\
                 process_log vr d dbs (mk_env c d b t (Some l) None) l = Ok rs.
Proof.
  intros M H. rewrite (insert_log_flat _ _ _ _ _ M) in H.
  apply concatM_inv in H. destruct H as [per [E F]]. exists per.
  split; [exact E|]. split; [exact (Forall2_len _ _ _ F)|].
  intros k b t l Hk. destruct (Forall2_nth _ _ _ F k _ Hk) as [rs [H1 H2]].
  exists rs. split; [exact H1|exact H2].
Qed.

(* any declaration dig.New builds (any input types), decoded rows given:
   a log that is not a log of the declared event contributes nothing *)
Lemma undeclared_logs_l ed c dbs blocks rows :
  let d := decl_of ed in
  indexing fixed d = IxLog -> insert fixed d c dbs blocks = Ok rows ->
  exists per, rows = concat per /\ length per = length (log_items blocks) /\
    forall k b t l, nth_error (log_items blocks) k = Some (b, t, l) ->
      exists rs, nth_error per k = Some rs /\
        process_log fixed d dbs (mk_env c d b t (Some l) None) l = Ok rs /\
        (rs <> [] -> declared_log (ed_event ed) (ed_js ed) l) /\
        (~ declared_log (ed_event ed) (ed_js ed) l -> rs = []).
Proof.
  intros d M H. destruct (insert_per_log _ _ _ _ _ _ M H) as [per [E [L Hn]]].
  exists per. split; [exact E|]. split; [exact L|].
  intros k b t l Hk. destruct (Hn k b t l Hk) as [rs [H1 H2]]. exists rs.
  split; [exact H1|]. split; [exact H2|].
  destruct (Rows.gate d l) eqn:G.
  - apply gate_decl_of_iff in G. split; [intros _; exact G|intros N; contradiction].
  - rewrite (process_log_gate_false _ _ _ _ _ G) in H2. injection H2 as <-.
    split; [intros N; congruence|reflexivity].
Qed.

Lemma with_scan_idem d l : with_scan d (with_scan d l) = with_scan d l.
Proof. reflexivity. Qed.

Lemma chain_with_scan_logs d blocks b t l :
  In (b, t, l) (log_items (chain_with_scan d blocks)) -> with_scan d l = l.
Proof.
  intros H. apply log_items_In in H. destruct H as [Hb [Ht Hl]].
  unfold chain_with_scan in Hb. apply in_map_iff in Hb. destruct Hb as [b0 [Eb _]]. subst b.
  cbn [b_txs] in Ht. apply in_map_iff in Ht. destruct Ht as [t0 [Et _]]. subst t.
  cbn [t_logs] in Hl. apply in_map_iff in Hl. destruct Hl as [l0 [El _]]. subst l.
  apply with_scan_idem.
Qed.

(* what one log contributes, decoder inside the model *)
Lemma log_contribution_l ig name xs block cols agg dbs e l rs :
  let d := decl_of (tin_evdecl ig name xs block cols agg) in
  e2e_dom xs false = true -> with_scan d l = l ->
  process_log fixed d dbs e l = Ok rs ->
  log_contribution name xs d e l rs.
Proof.
  intros d Dm W H.
  assert (Gi : Rows.gate d l = true <-> declared_log name (map tin_jty xs) l).
  { unfold d. rewrite gate_decl_of_iff, ed_js_tins. reflexivity. }
  unfold log_contribution.
  destruct (Rows.gate d l) eqn:G.
  - assert (Dl : declared_log name (map tin_jty xs) l) by (apply Gi; reflexivity).
    split; [intros _; exact Dl|]. split; [intros N; contradiction|]. intros _. split.
    + intros vs rest T Hd Hne Hlen.
      rewrite <- W in H.
      exact (end_to_end d xs vs rest dbs e l rs (decl_of_tins_inputs ig name xs block cols agg)
                        Dm T Hd Hne Hlen G H).
    + intros Hnil r Hr. destruct (process_log_row_spec d dbs e l rs r H Hr) as [_ [[Hne _]|[_ Hs]]].
      * contradiction.
      * exact Hs.
  - rewrite (process_log_gate_false _ _ _ _ _ G) in H. injection H as <-.
    assert (Nd : ~ declared_log name (map tin_jty xs) l) by (intros Dl; apply Gi in Dl; discriminate).
    split; [intros N; congruence|]. split; [reflexivity|]. intros Dl. contradiction.
Qed.

Lemma rows_only_l ig name xs block cols agg c dbs blocks rows :
  let d := decl_of (tin_evdecl ig name xs block cols agg) in
  e2e_dom xs false = true -> indexing fixed d = IxLog ->
  insert fixed d c dbs (chain_with_scan d blocks) = Ok rows ->
  exists per,
    rows = concat per /\ length per = length (log_items (chain_with_scan d blocks)) /\
    forall k b t l, nth_error (log_items (chain_with_scan d blocks)) k = Some (b, t, l) ->
      exists rs, nth_error per k = Some rs /\
                 log_contribution name xs d (mk_env c d b t (Some l) None) l rs.
Proof.
  intros d Dm M H. destruct (insert_per_log _ _ _ _ _ _ M H) as [per [E [L Hn]]].
  exists per. split; [exact E|]. split; [exact L|].
  intros k b t l Hk. destruct (Hn k b t l Hk) as [rs [H1 H2]]. exists rs.
  split; [exact H1|].
  apply (log_contribution_l ig name xs block cols agg dbs _ l rs Dm); [|exact H2].
  apply (chain_with_scan_logs d blocks b t l). apply nth_error_In with k. exact Hk.
Qed.

(* ================= a log of another event ================= *)
(* the proviso: the two 32-byte hashes differ.  Nothing here assumes that
   different signatures have different hashes. *)
Lemma other_event_gate_false ed name2 js2 l :
  keccak256 (ed_sig ed) <> keccak256 (canon_sig name2 js2) ->
  declared_log name2 js2 l -> Rows.gate (decl_of ed) l = false.
Proof.
  intros Hne [_ H0]. rewrite gate_decl_of. apply is_declared_log_false.
  intros [_ H1]. unfold ed_sig in Hne. congruence.
Qed.

Lemma other_event_log_no_rows_l ed name2 js2 dbs e l :
  keccak256 (ed_sig ed) <> keccak256 (canon_sig name2 js2) ->
  declared_log name2 js2 l -> process_log fixed (decl_of ed) dbs e l = Ok [].
Proof. intros Hne Dl. apply process_log_gate_false. exact (other_event_gate_false ed name2 js2 l Hne Dl). Qed.

Lemma other_event_logs_erasable_l ed name2 js2 c dbs blocks :
  keccak256 (ed_sig ed) <> keccak256 (canon_sig name2 js2) ->
  insert fixed (decl_of ed) c dbs (keep_logs (fun l => negb (is_declared_log name2 js2 l)) blocks)
  = insert fixed (decl_of ed) c dbs blocks.
Proof.
  intros Hne. apply insert_keep_logs. intros l E. apply negb_false_iff in E.
  apply is_declared_log_spec in E. exact (other_event_gate_false ed name2 js2 l Hne E).
Qed.

(* a log of event 2 exists (for every event 2) *)
Lemma log_of_declared name js : declared_log name js (log_of name js).
Proof. unfold declared_log, log_of. cbn [l_topics length nth_error]. rewrite repeat_length. split; reflexivity. Qed.

(* the proviso is NECESSARY: the integration of event 1 rejects every log of
   event 2 exactly when the hashes differ or the numbers of indexed inputs do;
   with equal hashes and equal counts every log of event 2 passes the gate of
   event 1 and is decoded as event 1 *)
Lemma other_event_excluded_iff_l ed name2 js2 :
  (forall l, declared_log name2 js2 l -> Rows.gate (decl_of ed) l = false) <->
  (keccak256 (ed_sig ed) <> keccak256 (canon_sig name2 js2) \/
   length (filter j_indexed (ed_js ed)) <> length (filter j_indexed js2)).
Proof.
  split.
  - intros H. pose proof (H _ (log_of_declared name2 js2)) as G.
    rewrite gate_decl_of in G. unfold is_declared_log, log_of, ed_sig in *.
    cbn [l_topics length nth] in G. rewrite repeat_length in G.
    apply andb_false_iff in G. destruct G as [G|G].
    + right. apply Nat.eqb_neq in G. lia.
    + left. intros E. unfold ed_sig in E. rewrite E, bytes_eqb_refl in G. discriminate.
  - intros [Hne|Hn] l Dl.
    + exact (other_event_gate_false ed name2 js2 l Hne Dl).
    + rewrite gate_decl_of. apply is_declared_log_false. intros [L1 _]. destruct Dl as [L2 _]. lia.
Qed.

Lemma hash_collision_accepted_l ed name2 js2 l :
  keccak256 (ed_sig ed) = keccak256 (canon_sig name2 js2) ->
  length (filter j_indexed (ed_js ed)) = length (filter j_indexed js2) ->
  declared_log name2 js2 l -> Rows.gate (decl_of ed) l = true.
Proof.
  intros E N [L H0]. apply gate_decl_of_iff. unfold declared_log, ed_sig in *. split; congruence.
Qed.

(* ================= Transfer / Approval ================= *)
Lemma transfer_canon c1 c2 c3 :
  canon_sig (str "Transfer") (map tin_jty (erc20_inputs c1 c2 c3)) = transfer_sig.
Proof. vm_compute. reflexivity. Qed.
Lemma approval_canon c1 c2 c3 :
  canon_sig (str "Approval") (map tin_jty (erc20_inputs c1 c2 c3)) = approval_sig.
Proof. vm_compute. reflexivity. Qed.

Lemma keccak256_transfer_topic : keccak256 transfer_sig = transfer_topic.
Proof. vm_compute. reflexivity. Qed.
Lemma keccak256_approval_topic : keccak256 approval_sig = approval_topic.
Proof. vm_compute. reflexivity. Qed.
Lemma transfer_approval_hashes_differ : keccak256 transfer_sig <> keccak256 approval_sig.
Proof. rewrite keccak256_transfer_topic, keccak256_approval_topic. vm_compute. discriminate. Qed.

Lemma transfer_approval_l :
  keccak256 (str "Transfer(address,address,uint256)") = transfer_topic /\
  keccak256 (str "Approval(address,address,uint256)") = approval_topic /\
  keccak256 (str "Transfer(address,address,uint256)") <> keccak256 (str "Approval(address,address,uint256)").
Proof.
  exact (conj keccak256_transfer_topic (conj keccak256_approval_topic transfer_approval_hashes_differ)).
Qed.

Lemma erc20_indexed c1 c2 c3 : length (filter j_indexed (map tin_jty (erc20_inputs c1 c2 c3))) = 2%nat.
Proof. reflexivity. Qed.

(* an Approval log (3 topics, topic 0 = 8c5be1e5..) and ANY Transfer
   integration (any columns, block data, table): same topic count, no row *)
Lemma decoy_l ig c1 c2 c3 block cols agg dbs e l :
  let d := decl_of (tin_evdecl ig (str "Transfer") (erc20_inputs c1 c2 c3) block cols agg) in
  length (l_topics l) = 3%nat -> nth_error (l_topics l) 0 = Some approval_topic ->
  Rows.num_indexed d = 2%nat /\ d_sighash d = transfer_topic /\
  Rows.gate d l = false /\ process_log fixed d dbs e l = Ok [].
Proof.
  intros d L H0.
  assert (S1 : d_sighash d = transfer_topic).
  { unfold d. rewrite sighash_decl_of. unfold ed_sig. rewrite ed_js_tins. cbn [ed_event tin_evdecl].
    rewrite transfer_canon. apply keccak256_transfer_topic. }
  assert (N1 : Rows.num_indexed d = 2%nat).
  { unfold d. rewrite num_indexed_decl_of, ed_js_tins. apply erc20_indexed. }
  assert (G : Rows.gate d l = false).
  { apply (other_event_gate_false _ (str "Approval") (map tin_jty (erc20_inputs c1 c2 c3))).
    - unfold ed_sig. rewrite ed_js_tins. cbn [ed_event tin_evdecl].
      rewrite transfer_canon, approval_canon. exact transfer_approval_hashes_differ.
    - unfold declared_log. rewrite erc20_indexed, approval_canon, keccak256_approval_topic.
      split; [exact L|exact H0]. }
  split; [exact N1|]. split; [exact S1|]. split; [exact G|].
  apply process_log_gate_false. exact G.
Qed.

Lemma decoy_erasable_l ig c1 c2 c3 block cols agg c dbs blocks :
  let d := decl_of (tin_evdecl ig (str "Transfer") (erc20_inputs c1 c2 c3) block cols agg) in
  insert fixed d c dbs
         (keep_logs (fun l => negb (is_declared_log (str "Approval") (map tin_jty (erc20_inputs c1 c2 c3)) l)) blocks)
  = insert fixed d c dbs blocks.
Proof.
  intros d. apply other_event_logs_erasable_l.
  unfold ed_sig. rewrite ed_js_tins. cbn [ed_event tin_evdecl].
  rewrite transfer_canon, approval_canon. exact transfer_approval_hashes_differ.
Qed.
