(* Bridge data-plan selection (C14) -> row builder (C11): proofs.
   Part PS: planner side, for ARBITRARY tables / steps / dispatch / provides /
   case-label lists that pass the boolean side conditions of
   Model/BridgePlanRows.v.  Then the Rows side (byte names, which names the row
   builder reads), the composition, and the instance for the tables regenerated
   from the source of this run. *)
From Coq Require Import String Ascii List NArith Bool Arith Lia ZifyBool ZifyN ZifyNat.
From Shovel Require Import Base.Outcome Model.Hex Model.Filter Model.Rows Proofs.FilterP Proofs.RowsP Proofs.C11P.
From Shovel Require Import Model.BridgePlanRows.
From Shovel Require Model.Plan Model.Provides Model.PlanCheck Proofs.PlanP Proofs.C14P.
From Shovel Require Gen.GlfTables Gen.GetFields Gen.FetchFills Gen.GetDispatch.
Import ListNotations.

(* ======================================================================= planner side *)
Module PS.
Import Shovel.Model.Plan Shovel.Model.Provides Shovel.Model.PlanCheck Shovel.Proofs.PlanP Shovel.Proofs.C14P.
Open Scope string_scope.

Lemma mem_In : forall x l, mem x l = true <-> In x l.
Proof.
  intros x l. unfold mem. rewrite existsb_exists. split.
  - intros [y [Hy E]]. apply String.eqb_eq in E. subst y. exact Hy.
  - intros H. exists x. split; [exact H | apply String.eqb_refl].
Qed.

Lemma filter_comm : forall {A} (p q : A -> bool) l, filter p (filter q l) = filter q (filter p l).
Proof.
  intros A p q l. induction l as [|a l IH]; simpl; [reflexivity|].
  destruct (q a) eqn:Q; destruct (p a) eqn:P; simpl; rewrite ?Q, ?P, IH; reflexivity.
Qed.

(* elements that are in no table do not influence the flags *)
Lemma grun_irrelevant : forall {E} (inT : E -> tname -> bool) (rel : E -> bool),
  (forall e n, inT e n = true -> rel e = true) ->
  forall steps needs fl, grun E inT steps needs fl = grun E inT steps (filter rel needs) fl.
Proof.
  intros E inT rel H. induction steps as [|st r IH]; intros needs fl; simpl; [reflexivity|].
  assert (Ex : existsb (in_step E inT st) (filter rel needs) = existsb (in_step E inT st) needs).
  { rewrite existsb_filter. apply existsb_ext'. intros x. destruct (in_step E inT st x) eqn:I; [|apply andb_false_r].
    unfold in_step in I. apply andb_true_iff in I. destruct I as [I _]. rewrite (H _ _ I). reflexivity. }
  rewrite Ex. destruct (existsb (in_step E inT st) needs); [|apply IH].
  rewrite IH. f_equal. apply filter_comm.
Qed.

Lemma in_str_relevant : forall T e n, in_str T e n = true -> relevant T e = true.
Proof.
  intros T e n H. unfold relevant, in_str in *. apply existsb_exists. exists n. split; [|exact H].
  destruct n; simpl; tauto.
Qed.

Lemma new_relevant : forall T steps needs, new T steps needs = new T steps (filter (relevant T) needs).
Proof.
  intros T steps needs. unfold new. rewrite !run_steps_grun.
  apply grun_irrelevant. apply in_str_relevant.
Qed.

(* two requests that agree on the names some table lists get the same plan *)
Lemma new_same_relevant : forall T steps n1 n2,
  (forall x, relevant T x = true -> (In x n1 <-> In x n2)) -> new T steps n1 = new T steps n2.
Proof.
  intros T steps n1 n2 H. rewrite (new_relevant T steps n1), (new_relevant T steps n2).
  unfold new. rewrite !run_steps_grun. apply grun_set. intros e. rewrite !filter_In.
  split; intros [Hi Hr]; (split; [apply (H e Hr); exact Hi | exact Hr]).
Qed.

Lemma required_mono : forall m X Y,
  (existsb trace_prefixed X = true -> existsb trace_prefixed Y = true) -> incl (required m X) (required m Y).
Proof.
  intros m X Y H x. unfold required, required_b.
  destruct (existsb trace_prefixed X); destruct (existsb trace_prefixed Y); try (intros Hx; exact Hx).
  - specialize (H eq_refl). discriminate.
  - rewrite !in_app_iff. intros [Hx|[Hx|[]]]; [left; exact Hx | right; left; exact Hx].
Qed.

Lemma existsb_incl : forall {A} (p : A -> bool) l1 l2, incl l1 l2 -> existsb p l1 = true -> existsb p l2 = true.
Proof.
  intros A p l1 l2 H E. apply existsb_exists in E. destruct E as [x [Hx Px]].
  apply existsb_exists. exists x. split; [apply H; exact Hx | exact Px].
Qed.

Lemma fetch_eqb_eq : forall a b, fetch_eqb a b = true <-> a = b.
Proof. intros a b. destruct a; destruct b; simpl; split; intros H; try reflexivity; try discriminate. Qed.

Lemma has_fetch_In : forall g fs, has_fetch g fs = true <-> In g fs.
Proof.
  intros g fs. unfold has_fetch. rewrite existsb_exists. split.
  - intros [y [Hy E]]. apply fetch_eqb_eq in E. subst y. exact Hy.
  - intros H. exists g. split; [exact H | apply fetch_eqb_eq; reflexivity].
Qed.

(* what [supplied_b] says, spelled out *)
Lemma supplied_b_spec : forall P fs m f, supplied_b P fs m f = true ->
  f_class f = ICtx \/ (items_exist m fs = true /\ exists g, In g fs /\ In g (P (f_acc f))).
Proof.
  intros P fs m f H. unfold supplied_b in H. destruct (f_class f) eqn:C; try (left; reflexivity); right;
    apply andb_true_iff in H; destruct H as [Hi He]; (split; [exact Hi|]);
    apply existsb_exists in He; destruct He as [g [Hg Hf]]; exists g; (split; [apply has_fetch_In; exact Hf | exact Hg]).
Qed.

Section Generic.
  Variable T : tables.
  Variable steps : list step.
  Variable names : list field.
  Hypothesis Hchk : bridge_checks T names = true.

  Lemma chk_split : tables_known T names = true /\ trace_class_is_prefix names = true
                    /\ required_known names = true /\ rows_fields_match names = true.
  Proof.
    unfold bridge_checks in Hchk. apply andb_true_iff in Hchk. destruct Hchk as [H123 H4].
    apply andb_true_iff in H123. destruct H123 as [H12 H3]. apply andb_true_iff in H12. destruct H12 as [H1 H2].
    repeat split; assumption.
  Qed.

  Lemma chk_tables : forall n x, In x (table T n) -> exists f, In f names /\ f_name f = x.
  Proof.
    intros n x Hx. destruct chk_split as [H1 _].
    unfold tables_known in H1. rewrite forallb_forall in H1.
    assert (Hn : In n all_tnames) by (destruct n; simpl; tauto).
    specialize (H1 n Hn). rewrite forallb_forall in H1. specialize (H1 x Hx).
    apply mem_In in H1. apply in_map_iff in H1. destruct H1 as [f [E Hf]]. exists f. split; assumption.
  Qed.

  Lemma chk_trace : forall f, In f names -> is_trace (f_class f) = trace_prefixed (f_name f).
  Proof.
    intros f Hf. destruct chk_split as [_ [? [? ?]]].
    match goal with H : trace_class_is_prefix names = true |- _ =>
      unfold trace_class_is_prefix in H; rewrite forallb_forall in H; specialize (H f Hf); apply eqb_prop in H; exact H end.
  Qed.

  Lemma chk_required : forall m X x, In x (required m X) -> exists f, In f names /\ f_name f = x.
  Proof.
    intros m X x Hx. destruct chk_split as [_ [? [? ?]]].
    match goal with H : required_known names = true |- _ =>
      unfold required_known in H; rewrite forallb_forall in H; specialize (H x) end.
    assert (Hin : In x (required_b MLog true)).
    { unfold required, required_b in *. rewrite !in_app_iff in *. destruct Hx as [Hx|[Hx|Hx]].
      - left; exact Hx.
      - destruct m; simpl in Hx; try contradiction. right; left; exact Hx.
      - destruct (existsb trace_prefixed X); simpl in Hx; try contradiction. right; right; exact Hx. }
    match goal with H : In x (required_b MLog true) -> _ |- _ => specialize (H Hin); apply mem_In in H;
      apply in_map_iff in H; destruct H as [f [E Hf]]; exists f; split; assumption end.
  Qed.

  Lemma chk_rows_names : forall F, exists f, In f names /\ f_name f = field_name F.
  Proof.
    intros F. destruct chk_split as [_ [? [? ?]]].
    match goal with H : rows_fields_match names = true |- _ => unfold rows_fields_match in H;
      apply andb_true_iff in H; destruct H as [H _]; apply andb_true_iff in H; destruct H as [H _];
      rewrite forallb_forall in H; specialize (H F) end.
    assert (HF : In F all_fields) by (destruct F; simpl; tauto).
    match goal with H : In F all_fields -> _ |- _ => specialize (H HF); apply mem_In in H;
      apply in_map_iff in H; destruct H as [f [E Hf]]; exists f; split; assumption end.
  Qed.

  Lemma chk_rows_class : forall f F, In f names -> f_name f = field_name F -> f_class f = field_item F.
  Proof.
    intros f F Hf E. destruct chk_split as [_ [? [? ?]]].
    match goal with H : rows_fields_match names = true |- _ => unfold rows_fields_match in H;
      apply andb_true_iff in H; destruct H as [_ H]; rewrite forallb_forall in H; specialize (H f Hf);
      rewrite forallb_forall in H; specialize (H F) end.
    assert (HF : In F all_fields) by (destruct F; simpl; tauto).
    match goal with H : In F all_fields -> _ |- _ => specialize (H HF); rewrite E, String.eqb_refl in H; simpl in H;
      apply iclass_eqb_eq in H; symmetry; exact H end.
  Qed.

  Lemma chk_label_has_field : forall f, In f names -> exists F, field_name F = f_name f.
  Proof.
    intros f Hf. destruct chk_split as [_ [? [? ?]]].
    match goal with H : rows_fields_match names = true |- _ => unfold rows_fields_match in H;
      apply andb_true_iff in H; destruct H as [H _]; apply andb_true_iff in H; destruct H as [_ H];
      rewrite forallb_forall in H; specialize (H f Hf); apply existsb_exists in H; destruct H as [F [_ E]];
      apply String.eqb_eq in E; exists F; exact E end.
  Qed.

  Lemma in_plan_fields : forall needs f, In f (plan_fields names needs) <-> In f names /\ In (f_name f) needs.
  Proof. intros needs f. unfold plan_fields. rewrite filter_In, mem_In. reflexivity. Qed.

  Lemma plan_fields_names_incl : forall needs, incl (map f_name (plan_fields names needs)) needs.
  Proof.
    intros needs x Hx. apply in_map_iff in Hx. destruct Hx as [f [E Hf]]. apply in_plan_fields in Hf. subst x. tauto.
  Qed.

  (* the request, as a set of case labels, is the declared + required names of its field set *)
  Lemma needs_of_incl_request : forall m needs, required_present m needs ->
    incl (needs_of m (plan_fields names needs)) needs.
  Proof.
    intros m needs Hreq x Hx. unfold needs_of in Hx. apply in_app_iff in Hx. destruct Hx as [Hx|Hx].
    - apply (plan_fields_names_incl needs x Hx).
    - apply Hreq. revert x Hx. apply required_mono. apply existsb_incl. apply plan_fields_names_incl.
  Qed.

  Lemma request_label_in_needs_of : forall m needs f, In f names -> In (f_name f) needs ->
    In (f_name f) (needs_of m (plan_fields names needs)).
  Proof.
    intros m needs f Hf Hn. unfold needs_of. apply in_app_iff. left. apply in_map. apply in_plan_fields. tauto.
  Qed.

  (* glf.New of the request = glf.New of (declared + required) of its field set *)
  Lemma request_plan : forall m needs, required_present m needs ->
    new T steps needs = new T steps (needs_of m (plan_fields names needs)).
  Proof.
    intros m needs Hreq. apply new_same_relevant. intros x Hr. split.
    - intros Hx. unfold relevant in Hr. apply existsb_exists in Hr. destruct Hr as [n [_ Hm]]. apply mem_In in Hm.
      destruct (chk_tables n x Hm) as [f [Hf E]]. subst x. apply request_label_in_needs_of; assumption.
    - apply needs_of_incl_request. exact Hreq.
  Qed.

  (* the field set of the request is selectable in the mode of the declaration *)
  Lemma request_mode_ok : forall m needs, required_present m needs ->
    log_fields_only_in_log_mode names m needs -> trace_mode_iff_prefix m needs ->
    mode_ok m (plan_fields names needs).
  Proof.
    intros m needs Hreq Hlog Htr. split.
    - intros f Hf. apply in_plan_fields in Hf. destruct Hf as [Hf Hn].
      destruct (f_class f) eqn:C; try (destruct m; reflexivity).
      + destruct m; try reflexivity; exfalso; (eapply Hlog; [discriminate | exact Hf | exact C | exact Hn]).
      + assert (Hp : trace_prefixed (f_name f) = true) by (rewrite <- (chk_trace f Hf), C; reflexivity).
        assert (Hm : m = MTrace).
        { apply Htr. apply existsb_exists. exists (f_name f). split; assumption. }
        subst m. reflexivity.
    - intros Hm. apply Htr in Hm.
      assert (Hin : In "trace_action_idx" (required m needs)).
      { unfold required, required_b. rewrite Hm. rewrite !in_app_iff. right; right; left; reflexivity. }
      destruct (chk_required m needs _ Hin) as [f [Hf E]]. exists f. split.
      + apply in_plan_fields. split; [exact Hf|]. rewrite E. apply Hreq. exact Hin.
      + pose proof (chk_trace f Hf) as Ht. rewrite E in Ht. change (trace_prefixed "trace_action_idx") with true in Ht.
        destruct (f_class f); simpl in Ht; try discriminate. reflexivity.
  Qed.

  (* composition with C14's checker: every case label the request names is supplied *)
  Lemma request_supplied : forall disp P, check_plan T steps disp P names = true ->
    forall m needs, required_present m needs ->
    log_fields_only_in_log_mode names m needs -> trace_mode_iff_prefix m needs ->
    forall f, In f names -> In (f_name f) needs ->
    supplied_b P (disp (new T steps needs)) m f = true.
  Proof.
    intros disp P Hcp m needs Hreq Hlog Htr f Hf Hn.
    rewrite (request_plan m needs Hreq).
    apply (check_plan_sound_l T steps disp P names Hcp m (plan_fields names needs)).
    - intros g Hg. apply in_plan_fields in Hg. tauto.
    - apply request_mode_ok; assumption.
    - apply in_plan_fields. tauto.
  Qed.
End Generic.

(* ---- no useless request ---- *)
Lemma flag_on_set : forall fl a b, flag_on (set_flag fl a) b = true -> a = b \/ flag_on fl b = true.
Proof. intros fl a b H. destruct a; destruct b; simpl in *; auto. Qed.

Lemma run_steps_flag : forall T steps needs fl0 fl, flag_on (run_steps T steps needs fl0) fl = true ->
  flag_on fl0 fl = true \/
  exists st x, In st steps /\ st_flag st = fl /\ In x needs /\ mem x (step_set T st) = true.
Proof.
  intros T. induction steps as [|st r IH]; intros needs fl0 fl H; simpl in H; [left; exact H|].
  destruct (any needs (step_set T st)) eqn:A.
  - apply IH in H. destruct H as [H|[st' [x [Hs [Hf [Hx Hm]]]]]].
    + apply flag_on_set in H. destruct H as [H|H]; [|left; exact H].
      right. unfold any in A. apply existsb_exists in A. destruct A as [x [Hx Hm]].
      exists st, x. repeat split; [left; reflexivity | exact H | exact Hx | exact Hm].
    + right. exists st', x. unfold difference in Hx. apply filter_In in Hx.
      repeat split; [right; exact Hs | exact Hf | tauto | exact Hm].
  - apply IH in H. destruct H as [H|[st' [x [Hs [Hf [Hx Hm]]]]]]; [left; exact H|].
    right. exists st', x. repeat split; [right; exact Hs | exact Hf | exact Hx | exact Hm].
Qed.

(* a flag of glf.New is set only if the request names a member of the trigger set of one of its if-blocks *)
Lemma flag_needed : forall T steps needs fl, flag_on (new T steps needs) fl = true ->
  exists st x, In st steps /\ st_flag st = fl /\ In x needs /\ mem x (step_set T st) = true.
Proof.
  intros T steps needs fl H. unfold new in H. apply run_steps_flag in H. destruct H as [H|H]; [|exact H].
  destruct fl; discriminate.
Qed.

Lemma all_flag_values_complete : forall fl, In fl all_flag_values.
Proof.
  intros [[] [] [] [] []]; unfold all_flag_values; simpl; repeat (try (left; reflexivity); right).
Qed.

Lemma no_useless_fetch_gen : forall T steps disp P names,
  steps_useful T steps P names = true -> dispatch_guarded disp = true ->
  forall needs g, In g (disp (new T steps needs)) ->
  g = GNumbers \/ exists x f, In x needs /\ In f names /\ f_name f = x /\ In g (P (f_acc f)).
Proof.
  intros T steps disp P names Hu Hd needs g Hg.
  unfold dispatch_guarded in Hd. rewrite forallb_forall in Hd.
  specialize (Hd _ (all_flag_values_complete (new T steps needs))). rewrite forallb_forall in Hd.
  specialize (Hd g Hg). apply orb_true_iff in Hd. destruct Hd as [Hd|Hd]; [left; apply fetch_eqb_eq; exact Hd|].
  right. apply existsb_exists in Hd. destruct Hd as [fl [_ Hfl]]. apply andb_true_iff in Hfl. destruct Hfl as [Hon Hg2].
  apply fetch_eqb_eq in Hg2. apply flag_needed in Hon. destruct Hon as [st [x [Hs [Hf [Hx Hm]]]]].
  unfold steps_useful in Hu. rewrite forallb_forall in Hu. specialize (Hu st Hs). rewrite forallb_forall in Hu.
  apply mem_In in Hm. specialize (Hu x Hm). apply existsb_exists in Hu. destruct Hu as [f [Hfn Hf2]].
  apply andb_true_iff in Hf2. destruct Hf2 as [E Hp]. apply String.eqb_eq in E. apply has_fetch_In in Hp.
  exists x, f. repeat split; [exact Hx | exact Hfn | exact E | subst g; rewrite <- Hf; exact Hp].
Qed.

End PS.

(* ======================================================================= byte names / string names *)
Lemma N_of_ascii_inj : forall a b, N_of_ascii a = N_of_ascii b -> a = b.
Proof. intros a b H. rewrite <- (ascii_N_embedding a), <- (ascii_N_embedding b), H. reflexivity. Qed.

Lemma list_ascii_inj : forall s1 s2, list_ascii_of_string s1 = list_ascii_of_string s2 -> s1 = s2.
Proof.
  intros s1 s2 H. rewrite <- (string_of_list_ascii_of_string s1), <- (string_of_list_ascii_of_string s2), H. reflexivity.
Qed.

Lemma map_inj : forall {A B} (f : A -> B), (forall x y, f x = f y -> x = y) -> forall l1 l2, map f l1 = map f l2 -> l1 = l2.
Proof.
  intros A B f Hf. induction l1 as [|x l1 IH]; intros [|y l2] H; simpl in H; try discriminate; [reflexivity|].
  injection H as Hx Hl. f_equal; [apply Hf; exact Hx | apply IH; exact Hl].
Qed.

Lemma s2b_inj : forall s1 s2, s2b s1 = s2b s2 -> s1 = s2.
Proof. intros s1 s2 H. unfold s2b in H. apply list_ascii_inj. apply (map_inj _ N_of_ascii_inj). exact H. Qed.

Lemma in_map_s2b : forall x l, In (s2b x) (map s2b l) <-> In x l.
Proof.
  intros x l. split; [|apply in_map]. intros H. apply in_map_iff in H. destruct H as [y [E Hy]].
  apply s2b_inj in E. subst y. exact Hy.
Qed.

Lemma has_prefix_s2b : forall p s, has_prefix (s2b p) (s2b s) = String.prefix p s.
Proof.
  induction p as [|a p IH]; intros s.
  - destruct s; reflexivity.
  - destruct s as [|b s]; [reflexivity|]. change (s2b (String a p)) with (N_of_ascii a :: s2b p).
    change (s2b (String b s)) with (N_of_ascii b :: s2b s). simpl.
    destruct (ascii_dec a b) as [E|E].
    + subst b. rewrite N.eqb_refl. simpl. apply IH.
    + destruct (N.eqb_spec (N_of_ascii a) (N_of_ascii b)) as [E2|E2]; [|reflexivity].
      apply N_of_ascii_inj in E2. contradiction.
Qed.

Lemma trace_pfx_s2b : forall s, has_prefix trace_pfx (s2b s) = Plan.trace_prefixed s.
Proof. intros s. unfold trace_pfx, Plan.trace_prefixed. apply has_prefix_s2b. Qed.

Lemma all_fields_complete : forall F : field, In F all_fields.
Proof. intros F. destruct F; simpl; tauto. Qed.

(* [field_of] reads nothing but the item [field_item] names *)
Lemma field_of_reads_only_its_item : forall F c ig b t l a c' ig' b' t' l' a',
  match field_item F with
  | Plan.ICtx => c = c' /\ ig = ig'
  | Plan.IHeader => b_hash b = b_hash b' /\ b_num b = b_num b' /\ b_time b = b_time b'
  | Plan.ITx | Plan.IReceipt => t = t'
  | Plan.ILog => l = l'
  | Plan.ITrace => a = a'
  end -> field_of F c ig b t l a = field_of F c' ig' b' t' l' a'.
Proof.
  intros F c ig b t l a c' ig' b' t' l' a' H.
  destruct F; simpl in *; repeat match goal with H0 : _ /\ _ |- _ => destruct H0 end; subst; congruence.
Qed.

Lemma field_of_log_none : forall F c ig b t a, field_item F = Plan.ILog -> field_of F c ig b t None a = None.
Proof. intros F c ig b t a H. destruct F; simpl in *; try discriminate; reflexivity. Qed.

(* ======================================================================= what the row builder reads *)
Lemma rows_read_incl : forall d, incl (rows_read_names d) (map bd_name (d_block d)).
Proof.
  intros d x Hx. unfold rows_read_names in Hx.
  destruct (indexing fixed d); try exact Hx; destruct (Nat.ltb 0 (num_selected d)); try exact Hx; destruct Hx.
Qed.

Lemma rows_read_all : forall d, Nat.ltb 0 (num_selected d) = false \/ indexing fixed d = IxLog ->
  rows_read_names d = map bd_name (d_block d).
Proof.
  intros d [H|H]; unfold rows_read_names; [rewrite H; destruct (indexing fixed d); reflexivity | rewrite H; reflexivity].
Qed.

Lemma input_coldefs_bd : forall cols ins n cd, In cd (input_coldefs cols ins n) -> cd_bd cd = empty_bd.
Proof.
  intros cols. induction ins as [|i r IH]; intros n cd H; simpl in H; [destruct H|].
  destruct (selected i).
  - destruct H as [H|H]; [subst cd; reflexivity | eapply IH; exact H].
  - eapply IH; exact H.
Qed.

Lemma get_field_nil : forall e, get_field e [] = Ok VNil.
Proof. intros e. reflexivity. Qed.

Lemma coldefs_agree : forall d e1 e2,
  (forall n, In n (map bd_name (d_block d)) -> get_field e1 n = get_field e2 n) ->
  forall cd, In cd (coldefs d) -> get_field e1 (bd_name (cd_bd cd)) = get_field e2 (bd_name (cd_bd cd)).
Proof.
  intros d e1 e2 H cd Hc. unfold coldefs in Hc. apply in_app_iff in Hc. destruct Hc as [Hc|Hc].
  - rewrite (input_coldefs_bd _ _ _ _ Hc). reflexivity.
  - apply in_map_iff in Hc. destruct Hc as [bd [E Hb]]. subst cd. simpl. apply H. apply in_map. exact Hb.
Qed.

Lemma tx_cells_ext : forall is_and dbs e1 e2 cds,
  (forall cd, In cd cds -> get_field e1 (bd_name (cd_bd cd)) = get_field e2 (bd_name (cd_bd cd))) ->
  forall fr, tx_cells is_and dbs e1 cds fr = tx_cells is_and dbs e2 cds fr.
Proof.
  intros is_and dbs e1 e2. induction cds as [|cd rest IH]; intros H fr; simpl; [reflexivity|].
  destruct (cd_is_bd cd); [|reflexivity].
  rewrite (H cd (or_introl eq_refl)).
  destruct (get_field e2 (bd_name (cd_bd cd))) as [v| |]; simpl; try reflexivity.
  destruct (accept is_and dbs (bd_filter (cd_bd cd)) v fr) as [fr'| |]; simpl; try reflexivity.
  rewrite IH; [reflexivity|]. intros cd' Hc. apply H. right. exact Hc.
Qed.

Lemma nodata_cells_ext : forall vr is_and dbs e1 e2 topics cds,
  (forall cd, In cd cds -> get_field e1 (bd_name (cd_bd cd)) = get_field e2 (bd_name (cd_bd cd))) ->
  forall j fr, nodata_cells vr is_and dbs e1 topics cds j fr = nodata_cells vr is_and dbs e2 topics cds j fr.
Proof.
  intros vr is_and dbs e1 e2 topics. induction cds as [|cd rest IH]; intros H j fr; simpl; [reflexivity|].
  assert (Hr : forall cd', In cd' rest -> get_field e1 (bd_name (cd_bd cd')) = get_field e2 (bd_name (cd_bd cd')))
    by (intros cd' Hc; apply H; right; exact Hc).
  destruct (i_indexed (cd_input cd)).
  - destruct (nth_error topics _) as [tp|]; [|reflexivity].
    destruct (accept _ _ _ _ _) as [fr'| |]; simpl; try reflexivity. rewrite (IH Hr). reflexivity.
  - destruct (cd_is_bd cd); [|reflexivity].
    rewrite (H cd (or_introl eq_refl)).
    destruct (get_field e2 (bd_name (cd_bd cd))) as [v| |]; simpl; try reflexivity.
    destruct (accept _ _ _ _ _) as [fr'| |]; simpl; try reflexivity. rewrite (IH Hr). reflexivity.
Qed.

Lemma data_cells_ext : forall vr is_and dbs e1 e2 topics srow i cds,
  (forall cd, In cd cds -> get_field e1 (bd_name (cd_bd cd)) = get_field e2 (bd_name (cd_bd cd))) ->
  forall ictr actr fr, data_cells vr is_and dbs e1 topics srow i cds ictr actr fr
                       = data_cells vr is_and dbs e2 topics srow i cds ictr actr fr.
Proof.
  intros vr is_and dbs e1 e2 topics srow i. induction cds as [|cd rest IH]; intros H ictr actr fr; simpl; [reflexivity|].
  assert (Hr : forall cd', In cd' rest -> get_field e1 (bd_name (cd_bd cd')) = get_field e2 (bd_name (cd_bd cd')))
    by (intros cd' Hc; apply H; right; exact Hc).
  destruct (i_indexed (cd_input cd)).
  - destruct (nth_error topics _) as [tp|]; [|reflexivity].
    destruct (accept _ _ _ _ _) as [fr'| |]; simpl; try reflexivity. rewrite (IH Hr). reflexivity.
  - destruct (cd_is_bd cd).
    + destruct (fld (bd_name (cd_bd cd)) "abi_idx").
      * rewrite (IH Hr). reflexivity.
      * rewrite (H cd (or_introl eq_refl)).
        destruct (get_field e2 (bd_name (cd_bd cd))) as [v| |]; simpl; try reflexivity.
        destruct (accept _ _ _ _ _) as [fr'| |]; simpl; try reflexivity. rewrite (IH Hr). reflexivity.
    + destruct (nth_error srow actr) as [c|]; [|reflexivity].
      destruct (accept _ _ _ _ _) as [fr'| |]; simpl; try reflexivity. rewrite (IH Hr). reflexivity.
Qed.

Lemma concatM_i_ext : forall {A B} (f g : nat -> A -> outcome (list B)) l i,
  (forall j x, f j x = g j x) -> concatM_i f i l = concatM_i g i l.
Proof.
  intros A B f g. induction l as [|x r IH]; intros i H; simpl; [reflexivity|].
  rewrite H. destruct (g i x); simpl; try reflexivity. rewrite (IH (S i) H). reflexivity.
Qed.

(* processTx / processLog see the environment (block, transaction, log, trace
   item, context) only through logWithCtx.get on the names of [rows_read_names] *)
Lemma process_tx_reads_only_l : forall d dbs e1 e2,
  (forall n, In n (rows_read_names d) -> get_field e1 n = get_field e2 n) ->
  process_tx d dbs e1 = process_tx d dbs e2.
Proof.
  intros d dbs e1 e2 H. unfold process_tx.
  destruct (0 <? num_selected d)%nat eqn:E; [reflexivity|].
  rewrite (rows_read_all d (or_introl E)) in H.
  destruct (0 <? num_bd d)%nat; [|reflexivity].
  rewrite (tx_cells_ext _ dbs e1 e2 (coldefs d) (coldefs_agree d e1 e2 H)). reflexivity.
Qed.

Lemma process_log_reads_only_l : forall d dbs e1 e2 l, indexing fixed d = IxLog ->
  (forall n, In n (rows_read_names d) -> get_field e1 n = get_field e2 n) ->
  process_log fixed d dbs e1 l = process_log fixed d dbs e2 l.
Proof.
  intros d dbs e1 e2 l Hm H. unfold process_log.
  rewrite (rows_read_all d (or_intror Hm)) in H. pose proof (coldefs_agree d e1 e2 H) as Hc.
  destruct (negb (gate d l)); [reflexivity|].
  destruct (negb (is_nil (l_data l))).
  - destruct (l_scan l) as [srows| |]; simpl; try reflexivity.
    apply concatM_i_ext. intros j srow. rewrite (data_cells_ext fixed _ dbs e1 e2 (l_topics l) srow j (coldefs d) Hc).
    reflexivity.
  - rewrite (nodata_cells_ext fixed _ dbs e1 e2 (l_topics l) (coldefs d) Hc). reflexivity.
Qed.

(* ======================================================================= declaration -> request *)
Lemma length_filter_pos : forall {A} (p : A -> bool) l, (0 <? length (filter p l))%nat = existsb p l.
Proof.
  intros A p. induction l as [|x l IH]; simpl; [reflexivity|]. destruct (p x); simpl; [reflexivity | exact IH].
Qed.

Lemma request_trace_prefixed : forall d needs, plan_request_of d needs ->
  (0 <? num_trace fixed d)%nat = existsb Plan.trace_prefixed needs.
Proof.
  intros d needs H. unfold num_trace. change (lg_trace fixed) with false. cbv iota. rewrite length_filter_pos.
  rewrite <- (PlanP.existsb_map bd_name (has_prefix trace_pfx) (d_block d)).
  unfold plan_request_of in H. rewrite <- H. rewrite PlanP.existsb_map.
  apply PlanP.existsb_ext'. intros s. apply trace_pfx_s2b.
Qed.

(* setIndexing chooses trace rows exactly when the request names a "trace_" field *)
Lemma request_trace_mode : forall d needs, plan_request_of d needs ->
  trace_mode_iff_prefix (mode_of (indexing fixed d)) needs.
Proof.
  intros d needs H. unfold trace_mode_iff_prefix, indexing. rewrite (request_trace_prefixed d needs H).
  destruct (existsb Plan.trace_prefixed needs).
  - simpl. split; reflexivity.
  - destruct (0 <? num_selected d)%nat; simpl; split; discriminate.
Qed.

Lemma request_names : forall d needs, plan_request_of d needs ->
  forall s, In (s2b s) (map bd_name (d_block d)) <-> In s needs.
Proof. intros d needs H s. unfold plan_request_of in H. rewrite <- H. apply in_map_s2b. Qed.

Lemma required_presentb_ok : forall m needs, required_presentb m needs = true <-> required_present m needs.
Proof.
  intros m needs. unfold required_presentb, required_present, incl. rewrite forallb_forall.
  split; intros H x Hx; apply PS.mem_In; apply H; exact Hx.
Qed.

Section Compose.
  Variable T : Plan.tables.
  Variable steps : list Plan.step.
  Variable disp : Plan.flags -> list Plan.fetch.
  Variable P : string -> list Plan.fetch.
  Variable names : list Plan.field.
  Hypothesis Hchk : bridge_checks T names = true.
  Hypothesis Hcp : PlanCheck.check_plan T steps disp P names = true.

  (* (1) every name the row builder reads is a name of the request; as a case
     label it belongs to the field set of the request, and so to declared + required *)
  Lemma rows_read_requested : forall d needs, plan_request_of d needs ->
    forall F, In (s2b (field_name F)) (rows_read_names d) ->
    In (field_name F) needs /\
    exists f, In f (plan_fields names needs) /\ Plan.f_name f = field_name F /\ Plan.f_class f = field_item F /\
      In (field_name F) (PlanCheck.needs_of (mode_of (indexing fixed d)) (plan_fields names needs)).
  Proof.
    intros d needs Hreq F HF. apply rows_read_incl in HF. apply (request_names d needs Hreq) in HF.
    split; [exact HF|]. destruct (PS.chk_rows_names T names Hchk F) as [f [Hf E]]. exists f.
    split; [apply PS.in_plan_fields; rewrite E; tauto|]. split; [exact E|].
    split; [apply (PS.chk_rows_class T names Hchk); assumption|].
    rewrite <- E. apply PS.request_label_in_needs_of; [exact Hf | rewrite E; exact HF].
  Qed.

  (* the request of a declaration that went through AddRequiredFields is, on the case
     labels, exactly declared + required of its field set, and selects the same plan *)
  Lemma request_is_needs_of : forall m needs, required_present m needs ->
    incl (PlanCheck.needs_of m (plan_fields names needs)) needs
    /\ (forall f, In f names -> In (Plan.f_name f) needs ->
                  In (Plan.f_name f) (PlanCheck.needs_of m (plan_fields names needs)))
    /\ Plan.new T steps needs = Plan.new T steps (PlanCheck.needs_of m (plan_fields names needs)).
  Proof.
    intros m needs H. split; [apply PS.needs_of_incl_request; exact H|].
    split; [intros f Hf Hn; apply PS.request_label_in_needs_of; assumption|].
    apply (PS.request_plan T steps names Hchk); exact H.
  Qed.

  (* (2) *)
  Lemma plan_fills_l : plan_fills_stmt T steps disp P names true true.
  Proof.
    intros d needs Hreq Hrp Hsel F HF. specialize (Hrp eq_refl). specialize (Hsel eq_refl).
    destruct (rows_read_requested d needs Hreq F HF) as [Hn [f [Hf [E [C _]]]]].
    apply PS.in_plan_fields in Hf. destruct Hf as [Hf _]. exists f. repeat split; try assumption.
    apply (PS.request_supplied T steps names Hchk disp P Hcp); try assumption.
    - apply request_trace_mode; exact Hreq.
    - rewrite E; exact Hn.
  Qed.

  (* one emitted row is enough for the "selectable" precondition: a log field
     declared for tx / trace rows makes logWithCtx.get fail on every item *)
  Lemma row_exists_selectable : forall d needs c dbs blocks rows r, plan_request_of d needs ->
    insert fixed d c dbs blocks = Ok rows -> In r rows ->
    log_fields_only_in_log_mode names (mode_of (indexing fixed d)) needs.
  Proof.
    intros d needs c dbs blocks rows r Hreq Hins Hr Hm f Hf Hc Hn.
    destruct (PS.chk_label_has_field T names Hchk f Hf) as [F E].
    assert (HI : field_item F = Plan.ILog) by (rewrite <- (PS.chk_rows_class T names Hchk f F Hf (eq_sym E)); exact Hc).
    rewrite <- E in Hn. apply (request_names d needs Hreq) in Hn. apply in_map_iff in Hn. destruct Hn as [bd [Eb Hb]].
    apply In_nth_error in Hb. destruct Hb as [k Hk].
    destruct (indexing fixed d) eqn:Ix.
    - destruct (block_field_tx d c dbs blocks rows r Ix Hins Hr) as [b [t [_ [_ He]]]].
      destruct (He k bd F Hk Eb) as [_ Hne]. apply Hne. apply field_of_log_none. exact HI.
    - destruct (block_field_trace d c dbs blocks rows r Ix Hins Hr) as [b [t [a [_ [_ [_ He]]]]]].
      destruct (He k bd F Hk Eb) as [_ Hne]. apply Hne. apply field_of_log_none. exact HI.
    - apply Hm. reflexivity.
  Qed.

  (* C11 and C14 composed: every block-data cell of every stored row is the named
     field of the enclosing item, and that field is supplied by the selected plan *)
  Lemma stored_cells_l : forall d needs c dbs blocks rows r, plan_request_of d needs ->
    required_present (mode_of (indexing fixed d)) needs ->
    insert fixed d c dbs blocks = Ok rows -> In r rows ->
    exists b t lo ao, In b blocks /\ In t (b_txs b) /\ item_of_mode (indexing fixed d) t lo ao /\
      forall k bd F, nth_error (d_block d) k = Some bd -> bd_name bd = s2b (field_name F) ->
        nth_error r (bd_offset d + k) = field_of F c (d_name d) b t lo ao
        /\ field_of F c (d_name d) b t lo ao <> None
        /\ exists f, In f names /\ Plan.f_name f = field_name F /\ Plan.f_class f = field_item F /\
             Provides.supplied_b P (disp (Plan.new T steps needs)) (mode_of (indexing fixed d)) f = true.
  Proof.
    intros d needs c dbs blocks rows r Hreq Hrp Hins Hr.
    pose proof (row_exists_selectable d needs c dbs blocks rows r Hreq Hins Hr) as Hsel.
    assert (Hsup : forall k bd F, nth_error (d_block d) k = Some bd -> bd_name bd = s2b (field_name F) ->
              exists f, In f names /\ Plan.f_name f = field_name F /\ Plan.f_class f = field_item F /\
                Provides.supplied_b P (disp (Plan.new T steps needs)) (mode_of (indexing fixed d)) f = true).
    { intros k bd F Hk Eb.
      assert (Hn : In (field_name F) needs).
      { apply (request_names d needs Hreq). rewrite <- Eb. apply in_map. eapply nth_error_In; exact Hk. }
      destruct (PS.chk_rows_names T names Hchk F) as [f [Hf E]]. exists f. repeat split; try assumption.
      - apply (PS.chk_rows_class T names Hchk); assumption.
      - apply (PS.request_supplied T steps names Hchk disp P Hcp); try assumption.
        + apply request_trace_mode; exact Hreq.
        + rewrite E; exact Hn. }
    unfold bd_offset. destruct (indexing fixed d) eqn:Ix.
    - destruct (block_field_tx d c dbs blocks rows r Ix Hins Hr) as [b [t [Hb [Ht He]]]].
      exists b, t, None, None. repeat split; try assumption.
      + apply (He k bd F); assumption.
      + apply (He k bd F); assumption.
      + apply (Hsup k bd F); assumption.
    - destruct (block_field_trace d c dbs blocks rows r Ix Hins Hr) as [b [t [a [Hb [Ht [Ha He]]]]]].
      exists b, t, None, (Some a). repeat split; try assumption.
      + exists a. split; [reflexivity | exact Ha].
      + apply (He k bd F); assumption.
      + apply (He k bd F); assumption.
      + apply (Hsup k bd F); assumption.
    - destruct (block_field_log d c dbs blocks rows r Ix Hins Hr) as [b [t [l [Hb [Ht [Hl He]]]]]].
      exists b, t, (Some l), None. repeat split; try assumption.
      + exists l. split; [reflexivity | exact Hl].
      + apply (He k bd F); assumption.
      + apply (He k bd F); assumption.
      + apply (Hsup k bd F); assumption.
  Qed.
End Compose.

(* ======================================================================= the instance of this run *)
Import Shovel.Gen.GlfTables Shovel.Gen.GetFields.

(* the side conditions on the regenerated planner tables and case labels *)
Lemma bridge_checks_gen : bridge_checks glf_tables get_fields = true.
Proof. vm_compute. reflexivity. Qed.

Lemma steps_useful_gen : steps_useful glf_tables glf_steps C14P.provides_gen get_fields = true.
Proof. vm_compute. reflexivity. Qed.

Lemma dispatch_guarded_gen : dispatch_guarded C14P.disp_gen = true.
Proof. vm_compute. reflexivity. Qed.

Lemma check_plan_gen : PlanCheck.check_plan glf_tables glf_steps C14P.disp_gen C14P.provides_gen get_fields = true.
Proof. vm_compute. reflexivity. Qed.

Lemma rows_read_fields_requested_l : forall d needs, plan_request_of d needs ->
  forall F, In (s2b (field_name F)) (rows_read_names d) ->
  In (field_name F) needs /\
  exists f, In f (plan_fields get_fields needs) /\ Plan.f_name f = field_name F /\ Plan.f_class f = field_item F /\
    In (field_name F) (PlanCheck.needs_of (mode_of (indexing fixed d)) (plan_fields get_fields needs)).
Proof. exact (rows_read_requested glf_tables get_fields bridge_checks_gen). Qed.

Lemma request_is_declared_plus_required_l : forall m needs, required_present m needs ->
  incl (PlanCheck.needs_of m (plan_fields get_fields needs)) needs
  /\ (forall f, In f get_fields -> In (Plan.f_name f) needs ->
                In (Plan.f_name f) (PlanCheck.needs_of m (plan_fields get_fields needs)))
  /\ Plan.new glf_tables glf_steps needs
     = Plan.new glf_tables glf_steps (PlanCheck.needs_of m (plan_fields get_fields needs)).
Proof. exact (request_is_needs_of glf_tables glf_steps get_fields bridge_checks_gen). Qed.

Lemma plan_fills_gen : plan_fills_stmt glf_tables glf_steps C14P.disp_gen C14P.provides_gen get_fields true true.
Proof. exact (plan_fills_l _ _ _ _ _ bridge_checks_gen check_plan_gen). Qed.

Lemma supplied_filled : forall P fs m f, Provides.supplied_b P fs m f = true -> filled P fs m f.
Proof. exact PS.supplied_b_spec. Qed.

Lemma plan_fills_what_rows_read_l : forall d needs, plan_request_of d needs ->
  required_present (mode_of (indexing fixed d)) needs ->
  log_fields_only_in_log_mode get_fields (mode_of (indexing fixed d)) needs ->
  forall F, In (s2b (field_name F)) (rows_read_names d) ->
  exists f, In f get_fields /\ Plan.f_name f = field_name F /\ Plan.f_class f = field_item F /\
    filled C14P.provides_gen (C14P.disp_gen (Plan.new glf_tables glf_steps needs)) (mode_of (indexing fixed d)) f.
Proof.
  intros d needs Hreq Hrp Hsel F HF.
  destruct (plan_fills_gen d needs Hreq (fun _ => Hrp) (fun _ => Hsel) F HF) as [f [Hf [E [C S]]]].
  exists f. repeat split; try assumption. apply supplied_filled. exact S.
Qed.

Lemma row_exists_selectable_l : forall d needs c dbs blocks rows r, plan_request_of d needs ->
  insert fixed d c dbs blocks = Ok rows -> In r rows ->
  log_fields_only_in_log_mode get_fields (mode_of (indexing fixed d)) needs.
Proof. exact (row_exists_selectable glf_tables get_fields bridge_checks_gen). Qed.

Lemma stored_cells_gen : forall d needs c dbs blocks rows r, plan_request_of d needs ->
  required_present (mode_of (indexing fixed d)) needs ->
  insert fixed d c dbs blocks = Ok rows -> In r rows ->
  exists b t lo ao, In b blocks /\ In t (b_txs b) /\ item_of_mode (indexing fixed d) t lo ao /\
    forall k bd F, nth_error (d_block d) k = Some bd -> bd_name bd = s2b (field_name F) ->
      nth_error r (bd_offset d + k) = field_of F c (d_name d) b t lo ao
      /\ field_of F c (d_name d) b t lo ao <> None
      /\ exists f, In f get_fields /\ Plan.f_name f = field_name F /\ Plan.f_class f = field_item F /\
           filled C14P.provides_gen (C14P.disp_gen (Plan.new glf_tables glf_steps needs)) (mode_of (indexing fixed d)) f.
Proof.
  intros d needs c dbs blocks rows r Hreq Hrp Hins Hr.
  destruct (stored_cells_l _ _ _ _ _ bridge_checks_gen check_plan_gen d needs c dbs blocks rows r Hreq Hrp Hins Hr)
    as [b [t [lo [ao [Hb [Ht [Hi H]]]]]]].
  exists b, t, lo, ao. split; [exact Hb|]. split; [exact Ht|]. split; [exact Hi|].
  intros k bd F Hk Eb. destruct (H k bd F Hk Eb) as [A [B [f [Hf [E [C S]]]]]].
  split; [exact A|]. split; [exact B|]. exists f. repeat split; try assumption. apply supplied_filled. exact S.
Qed.

(* (3) no useless request: whatever glf.New is given, every request Client.Get then makes --
   other than the bare block numbers -- fills a field that the request names *)
Lemma no_useless_fetch_l : forall needs g,
  In g (C14P.disp_gen (Plan.new glf_tables glf_steps needs)) ->
  g = Plan.GNumbers \/
  exists x f, In x needs /\ In f get_fields /\ Plan.f_name f = x /\ In g (C14P.provides_gen (Plan.f_acc f)).
Proof. exact (PS.no_useless_fetch_gen _ _ _ _ _ steps_useful_gen dispatch_guarded_gen). Qed.

(* ---- the two preconditions are necessary ---- *)
Lemma label_not_supplied : forall (name : string) fs m,
  forallb (fun f => implb (String.eqb (Plan.f_name f) name)
                          (negb (Provides.supplied_b C14P.provides_gen fs m f))) get_fields = true ->
  forall f, In f get_fields -> Plan.f_name f = name ->
  Provides.supplied_b C14P.provides_gen fs m f = true -> False.
Proof.
  intros name fs m H f Hf E S. rewrite forallb_forall in H. specialize (H f Hf).
  rewrite E, String.eqb_refl, S in H. discriminate.
Qed.

(* without AddRequiredFields: block_time alone selects headers only; no transaction exists *)
Lemma plan_fills_needs_required :
  ~ plan_fills_stmt glf_tables glf_steps C14P.disp_gen C14P.provides_gen get_fields false true.
Proof.
  intros H. specialize (H bare_decl ["block_time"%string] eq_refl).
  assert (Hsel : true = true -> log_fields_only_in_log_mode get_fields (mode_of (indexing fixed bare_decl)) ["block_time"%string]).
  { intros _ _ f Hf Hc [Hn|[]]. pose proof (PS.chk_rows_class _ _ bridge_checks_gen f Fblock_time Hf (eq_sym Hn)) as C.
    rewrite Hc in C. discriminate. }
  specialize (H (fun (E : false = true) => match Bool.diff_false_true E with end) Hsel Fblock_time (or_introl eq_refl)).
  destruct H as [f [Hf [E [_ S]]]].
  refine (label_not_supplied "block_time" _ _ _ f Hf E S). vm_compute. reflexivity.
Qed.

(* a log field without an event (required fields present): eth_getLogs only; the transactions do not all exist *)
Lemma plan_fills_needs_selectable :
  ~ plan_fills_stmt glf_tables glf_steps C14P.disp_gen C14P.provides_gen get_fields true false.
Proof.
  intros H. specialize (H logless_decl logless_request eq_refl).
  assert (Hrp : true = true -> required_present (mode_of (indexing fixed logless_decl)) logless_request).
  { intros _. apply required_presentb_ok. vm_compute. reflexivity. }
  specialize (H Hrp (fun (E : false = true) => match Bool.diff_false_true E with end) Flog_addr (or_introl eq_refl)).
  destruct H as [f [Hf [E [_ S]]]].
  refine (label_not_supplied "log_addr" _ _ _ f Hf E S). vm_compute. reflexivity.
Qed.
