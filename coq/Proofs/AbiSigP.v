(* C13: Event.Signature is the canonical signature of the Solidity ABI
   specification for every name and every list of input types (any nesting of
   tuples and arrays); the gate of processLog lets a log through iff the topic
   count is 1 + #indexed and topic 0 is the stored signature hash; it never
   panics (empty topic list included).  Keccak-256 is a Section variable. *)
From Coq Require Import String Ascii.
From Coq Require Import List NArith ZArith Bool Lia ZifyN ZifyNat ZifyBool.
From Shovel Require Import Base.Outcome Model.AbiType Model.AbiParse Model.AbiSig Proofs.AbiParseP.
Import ListNotations.
Open Scope N_scope.

Lemma has_prefix_app p r : has_prefix p (p ++ r) = true.
Proof. induction p as [|a p IH]; cbn; [reflexivity|]. rewrite N.eqb_refl, IH. reflexivity. Qed.

Lemma replace_first_prefix old new s :
  s <> [] -> has_prefix old s = true -> replace_first old new s = new ++ skipn (length old) s.
Proof. intros Hs Hp. destruct s as [|c r]; [congruence|]. cbn [replace_first]. rewrite Hp. reflexivity. Qed.

Lemma ename_not_tuple n r : has_prefix (str "tuple") (ename_str n ++ r) = false.
Proof. destruct n; reflexivity. Qed.

Lemma input_sig_canon j : input_sig (json_of j) = canon j.
Proof.
  induction j as [ix n sel ds|ix cs ds IH] using jty_ind'.
  - cbn [json_of input_sig canon]. rewrite ename_not_tuple. reflexivity.
  - cbn [json_of input_sig canon]. rewrite has_prefix_app. cbn [negb].
    rewrite replace_first_prefix; [|discriminate|apply has_prefix_app].
    rewrite skipn_app, skipn_all, Nat.sub_diag. cbn [skipn app]. rewrite <- !app_assoc. f_equal. f_equal.
    induction IH as [|c cs Hc _ IH2]; [reflexivity|].
    cbn [map join]. rewrite Hc, IH2. destruct cs as [|c' cs']; cbn [map]; [rewrite app_nil_r|]; reflexivity.
Qed.

Lemma sig_list_canon js : sig_list (map json_of js) = join [COMMA] (map canon js).
Proof.
  induction js as [|j js IH]; [reflexivity|].
  cbn [map sig_list join]. rewrite input_sig_canon, IH.
  destruct js as [|j' js']; cbn [map]; [rewrite app_nil_r|]; reflexivity.
Qed.

Lemma signature_canonical_l name js : event_sig (event_of name js) = canon_sig name js.
Proof. unfold event_sig, event_of, canon_sig. cbn [ev_name ev_inputs]. rewrite sig_list_canon. reflexivity. Qed.

Lemma num_indexed_of name js : num_indexed (event_of name js) = length (filter j_indexed js).
Proof.
  unfold num_indexed, event_of. cbn [ev_inputs]. induction js as [|j js IH]; [reflexivity|].
  cbn [map filter]. assert (H : i_indexed (json_of j) = j_indexed j) by (destruct j; reflexivity).
  rewrite H. destruct (j_indexed j); cbn [length]; rewrite IH; reflexivity.
Qed.

Lemma bytes_eqb_eq a b : bytes_eqb a b = true <-> a = b.
Proof.
  unfold bytes_eqb. revert b. induction a as [|x a IH]; intros [|y b]; cbn [list_eqb]; split; intros H;
    try reflexivity; try discriminate.
  - apply andb_prop in H. destruct H as [H1 H2]. apply N.eqb_eq in H1. apply IH in H2. congruence.
  - inversion H; subst. rewrite N.eqb_refl. cbn. apply IH. reflexivity.
Qed.

(* the gate, for every stored hash, topic list and data *)
Lemma gate_never_panics nidx sh topics data : gate nidx sh topics data <> Panic.
Proof.
  unfold gate. destruct (Z.of_nat (length topics) - 1 =? Z.of_nat nidx)%Z eqn:E; cbn [negb]; [|discriminate].
  destruct topics as [|t0 r]; [cbn [length] in E; lia|]. destruct (bytes_eqb sh t0); discriminate.
Qed.

Lemma gate_empty nidx sh data : gate nidx sh [] data = Ok Skip.
Proof.
  unfold gate. replace (Z.of_nat (length (@nil bytes)) - 1 =? Z.of_nat nidx)%Z with false by (cbn [length]; lia). reflexivity.
Qed.

Lemma gate_passes nidx sh topics data :
  (exists st, gate nidx sh topics data = Ok st /\ st <> Skip) <->
  (length topics = S nidx /\ nth_error topics 0 = Some sh).
Proof.
  unfold gate. split.
  - intros (st & Hg & Hne).
    destruct (Z.of_nat (length topics) - 1 =? Z.of_nat nidx)%Z eqn:E; cbn [negb] in Hg; [|inversion Hg; congruence].
    destruct topics as [|t0 r]; [discriminate|].
    destruct (bytes_eqb sh t0) eqn:Eb; cbn [negb] in Hg; [|inversion Hg; congruence].
    apply bytes_eqb_eq in Eb. subst. cbn [length nth_error] in *. split; [lia|reflexivity].
  - intros (Hl & Hn). destruct topics as [|t0 r]; [discriminate|]. cbn in Hn. inversion Hn; subst.
    replace (Z.of_nat (length (sh :: r)) - 1 =? Z.of_nat nidx)%Z with true by (cbn [length] in *; lia).
    cbn [negb]. replace (bytes_eqb sh sh) with true by (symmetry; apply bytes_eqb_eq; reflexivity).
    cbn [negb]. eexists. split; [reflexivity|]. destruct data; discriminate.
Qed.

Lemma gate_stage nidx sh topics data st :
  gate nidx sh topics data = Ok st -> st <> Skip -> st = match data with [] => NoData | _ => Decode end.
Proof.
  unfold gate. destruct (Z.of_nat (length topics) - 1 =? Z.of_nat nidx)%Z; cbn [negb]; [|intros H; inversion H; congruence].
  destruct topics as [|t0 r]; [discriminate|].
  destruct (bytes_eqb sh t0); cbn [negb]; intros H; inversion H; congruence.
Qed.

Section Keccak.
  Variable keccak : bytes -> bytes.

  (* dig.New: sighash = Keccak(Event.Signature()), numIndexed = Event.numIndexed() *)
  Definition ig_sighash (e : event) : bytes := keccak (event_sig e).

  Lemma gate_iff_l name js topics data :
    let e := event_of name js in
    (exists st, gate (num_indexed e) (ig_sighash e) topics data = Ok st /\ st <> Skip) <->
    (length topics = S (length (filter j_indexed js)) /\
     nth_error topics 0 = Some (keccak (canon_sig name js))).
  Proof.
    intros e. unfold ig_sighash, e. rewrite gate_passes, num_indexed_of, signature_canonical_l. reflexivity.
  Qed.
End Keccak.
