(* Property-level lemmas for C17, assembled from HexP and BintP. *)
From Coq Require Import List NArith ZArith Bool Lia ZifyN ZifyNat ZifyBool.
From Shovel Require Import Base.Outcome Model.Hex Model.Bint Proofs.HexP Proofs.BintP.
Import ListNotations.
Open Scope N_scope.

(* a JSON token with arbitrary framing bytes: only positions are stripped *)
Definition frame (a b c : N) (cs : bytes) (z : N) : bytes := a :: b :: c :: cs ++ [z].

Lemma uint64_exact a b c z cs ds :
  Forall2 spells cs ds -> val ds < two64 ->
  uint64_unmarshal (frame a b c cs z) = Ok (val ds).
Proof.
  intros Hs Hv. unfold uint64_unmarshal, frame. rewrite token_length, strip_token.
  unfold decode. rewrite (decode_from_exact cs ds Hs 0 Hv). reflexivity.
Qed.

Lemma byte_exact a b c z cs ds :
  Forall2 spells cs ds -> val ds < two64 ->
  byte_unmarshal (frame a b c cs z) = Ok (val ds mod 256).
Proof.
  intros Hs Hv. unfold byte_unmarshal, frame. rewrite token_length, strip_token.
  unfold decode. rewrite (decode_from_exact cs ds Hs 0 Hv). reflexivity.
Qed.

Lemma uint64_nonhex a b c z cs :
  Exists (fun x => nibble x = None) cs ->
  uint64_unmarshal (frame a b c cs z) = Err /\ byte_unmarshal (frame a b c cs z) = Err.
Proof.
  intros Hex. unfold uint64_unmarshal, byte_unmarshal, frame. rewrite token_length, strip_token.
  unfold decode. rewrite (decode_from_nonhex cs 0 Hex). split; reflexivity.
Qed.

Lemma uint64_overflow a b c z cs ds :
  Forall2 spells cs ds -> two64 <= val ds ->
  uint64_unmarshal (frame a b c cs z) = Err.
Proof.
  intros Hs Hv. unfold uint64_unmarshal, frame. rewrite token_length, strip_token.
  unfold decode. rewrite (decode_from_overflow cs ds Hs 0); [reflexivity | unfold two64; lia | exact Hv].
Qed.

Lemma short_token tok : (length tok < 4)%nat ->
  uint64_unmarshal tok = Err /\ byte_unmarshal tok = Err /\ forall hb, bytes_unmarshal hb tok = (false, hb).
Proof.
  intros H. unfold uint64_unmarshal, byte_unmarshal, bytes_unmarshal.
  replace (N.of_nat (length tok) <? 4) with true by lia. repeat split.
Qed.

Lemma unmarshal_never_panics tok :
  uint64_unmarshal tok <> Panic /\ byte_unmarshal tok <> Panic.
Proof.
  unfold uint64_unmarshal, byte_unmarshal.
  destruct (N.of_nat (length tok) <? 4); [split; discriminate|].
  destruct (decode (strip tok)); split; discriminate.
Qed.

Lemma bytes_exact hb a b c z ps bs :
  Forall2 spells_byte ps bs -> wf_bytes bs ->
  bytes_unmarshal hb (frame a b c (flat ps) z) = (true, bs).
Proof.
  intros Hs Hwf. unfold bytes_unmarshal, frame. rewrite token_length, strip_token.
  rewrite (hex_pairs_exact ps bs Hs Hwf).
  f_equal. apply overwrite_all. rewrite resize_length, flat_length.
  assert (Hl : length ps = length bs).
  { clear Hwf. induction Hs; [reflexivity | cbn; congruence]. }
  rewrite Hl. replace (2 * length bs)%nat with (length bs * 2)%nat by lia.
  apply Nat.div_mul. lia.
Qed.

Lemma bytes_nonhex hb a b c z cs :
  Exists (fun x => nibble x = None) cs ->
  fst (bytes_unmarshal hb (frame a b c cs z)) = false.
Proof.
  intros Hex. unfold bytes_unmarshal, frame. rewrite token_length, strip_token.
  pose proof (hex_pairs_nonhex cs Hex) as H. destruct (hex_pairs cs) as [w ok]. cbn in *. exact H.
Qed.

Lemma bytes_odd hb a b c z cs :
  Nat.odd (length cs) = true ->
  fst (bytes_unmarshal hb (frame a b c cs z)) = false.
Proof.
  intros Ho. unfold bytes_unmarshal, frame. rewrite token_length, strip_token.
  pose proof (hex_pairs_odd cs Ho) as H. destruct (hex_pairs cs) as [w ok]. cbn in *. exact H.
Qed.

(* history independence of a successful destination operation *)
Lemma dstep_history_free hb o v : dstep hb o = (true, v) -> dstep [] o = (true, v).
Proof.
  destruct o as [tok|p]; cbn [dstep].
  - unfold bytes_unmarshal. destruct (N.of_nat (length tok) <? 4); [discriminate|].
    destruct (hex_pairs (strip tok)) as [w ok] eqn:E. intros H.
    assert (Hok : ok = true) by congruence. subst ok.
    pose proof (hex_pairs_ok_length _ _ E) as Hl.
    assert (Hn : Nat.div (length (strip tok)) 2 = length w).
    { rewrite Hl. replace (2 * length w)%nat with (length w * 2)%nat by lia. apply Nat.div_mul. lia. }
    rewrite Hn in *. rewrite overwrite_all in H by apply resize_length.
    rewrite overwrite_all by apply resize_length. exact H.
  - unfold bytes_write. intros H.
    rewrite overwrite_all in H by apply resize_length.
    rewrite overwrite_all by apply resize_length. exact H.
Qed.

Lemma drun_history_free ops : forall hb,
  Forall2 (fun o r => fst r = true -> dstep [] o = r) ops (drun hb ops).
Proof.
  induction ops as [|o ops IH]; intros hb; cbn [drun]; constructor.
  - destruct (dstep hb o) as [ok v] eqn:E. cbn [fst]. intros ->. eapply dstep_history_free; eauto.
  - apply IH.
Qed.
