(* Proofs about part (i) of Model/Manager.v: configuration merge and task list (C20). *)
From Coq Require Import List Arith PeanoNat NArith Bool Lia.
From Shovel Require Import Base.Outcome Model.Manager.
Import ListNotations.

Lemma beqb_eq : forall a b : bytes, bytes_eqb a b = true <-> a = b.
Proof.
  unfold bytes_eqb. induction a as [|x a IH]; destruct b as [|y b]; simpl; split; intro H;
    try reflexivity; try discriminate.
  - apply andb_true_iff in H. destruct H as [Hx Hr]. apply N.eqb_eq in Hx. apply IH in Hr. congruence.
  - inversion H; subst. apply andb_true_iff. split; [apply N.eqb_refl | apply IH; reflexivity].
Qed.
Lemma beqb_refl : forall a, bytes_eqb a a = true.
Proof. intro a. apply beqb_eq. reflexivity. Qed.
Lemma beqb_neq : forall a b : bytes, bytes_eqb a b = false <-> a <> b.
Proof.
  intros a b. split; intro H.
  - intro E. apply beqb_eq in E. congruence.
  - destruct (bytes_eqb a b) eqn:E; [apply beqb_eq in E; contradiction | reflexivity].
Qed.
Lemma beqb_sym : forall a b, bytes_eqb a b = bytes_eqb b a.
Proof.
  intros a b. destruct (bytes_eqb a b) eqn:E.
  - apply beqb_eq in E. subst. symmetry. apply beqb_refl.
  - apply beqb_neq in E. symmetry. apply beqb_neq. congruence.
Qed.

Lemma name_mem_in : forall n l, name_mem n l = true <-> In n l.
Proof.
  intros n l. unfold name_mem. rewrite existsb_exists. split.
  - intros [x [Hin He]]. apply beqb_eq in He. subst. exact Hin.
  - intro H. exists n. split; [exact H | apply beqb_refl].
Qed.

Section Merge.
  Context {A : Type} (key : A -> name).

  Lemma lookup_some : forall n l x, lookup key n l = Some x -> In x l /\ key x = n.
  Proof.
    intros n l x H. unfold lookup in H. apply find_some in H. destruct H as [Hin He].
    apply beqb_eq in He. split; assumption.
  Qed.

  Lemma lookup_none : forall n l, lookup key n l = None <-> (forall x, In x l -> key x <> n).
  Proof.
    intros n l. unfold lookup. split.
    - intros H x Hin E. apply (find_none _ _ H) in Hin. apply beqb_neq in Hin. contradiction.
    - intro H. induction l as [|y l IH]; simpl; [reflexivity|].
      destruct (bytes_eqb (key y) n) eqn:E.
      + apply beqb_eq in E. exfalso. apply (H y); [left; reflexivity | exact E].
      + apply IH. intros x Hin. apply H. right. exact Hin.
  Qed.

  Lemma lookup_upsert : forall n x l,
    lookup key n (upsert key x l) = if bytes_eqb (key x) n then Some x else lookup key n l.
  Proof.
    intros n x l. induction l as [|y l IH]; simpl.
    - unfold lookup. simpl. destruct (bytes_eqb (key x) n); reflexivity.
    - destruct (bytes_eqb (key y) (key x)) eqn:Eyx.
      + apply beqb_eq in Eyx. unfold lookup. simpl. rewrite Eyx.
        destruct (bytes_eqb (key x) n); reflexivity.
      + unfold lookup in *. simpl. destruct (bytes_eqb (key y) n) eqn:Eyn.
        * apply beqb_eq in Eyn. subst n. rewrite beqb_sym, Eyx. reflexivity.
        * exact IH.
  Qed.

  Lemma upsert_keys_in : forall x l k, In k (map key (upsert key x l)) -> k = key x \/ In k (map key l).
  Proof.
    intros x l. induction l as [|y l IH]; simpl; intros k H.
    - destruct H as [H | []]. left. congruence.
    - destruct (bytes_eqb (key y) (key x)) eqn:E; simpl in H.
      + destruct H as [H | H]; [left; congruence | right; right; exact H].
      + destruct H as [H | H]; [right; left; exact H|].
        destruct (IH k H) as [H' | H']; [left; exact H' | right; right; exact H'].
  Qed.

  Lemma upsert_nodup : forall x l, NoDup (map key l) -> NoDup (map key (upsert key x l)).
  Proof.
    intros x l. induction l as [|y l IH]; simpl; intro H.
    - constructor; [intros [] | constructor].
    - inversion H as [|? ? Hn Hd]; subst.
      destruct (bytes_eqb (key y) (key x)) eqn:E; simpl.
      + apply beqb_eq in E. constructor; [rewrite <- E; exact Hn | exact Hd].
      + constructor; [| apply IH; exact Hd].
        intro Hin. apply upsert_keys_in in Hin. destruct Hin as [Hk | Hk].
        * apply beqb_neq in E. congruence.
        * contradiction.
  Qed.

  Lemma fold_upsert_nodup : forall l acc,
    NoDup (map key acc) -> NoDup (map key (fold_left (fun a x => upsert key x a) l acc)).
  Proof.
    induction l as [|x l IH]; simpl; intros acc H; [exact H|].
    apply IH. apply upsert_nodup. exact H.
  Qed.

  (* the last entry named n of a list *)
  Definition find_last (n : name) (l : list A) : option A := lookup key n (rev l).

  Lemma find_app : forall (f : A -> bool) a b,
    find f (a ++ b) = match find f a with Some x => Some x | None => find f b end.
  Proof.
    intros f a b. induction a as [|x a IH]; simpl; [reflexivity|].
    destruct (f x); [reflexivity | exact IH].
  Qed.

  Lemma lookup_fold_upsert : forall n l acc,
    lookup key n (fold_left (fun a x => upsert key x a) l acc) =
    match find_last n l with Some x => Some x | None => lookup key n acc end.
  Proof.
    intros n l. induction l as [|x l IH]; intros acc; simpl.
    - reflexivity.
    - rewrite IH. unfold find_last. simpl. unfold lookup at 3. rewrite find_app. fold (lookup key n (rev l)).
      destruct (lookup key n (rev l)) as [y|]; [reflexivity|].
      simpl. rewrite lookup_upsert. destruct (bytes_eqb (key x) n); reflexivity.
  Qed.

  Lemma find_last_app : forall n a b,
    find_last n (a ++ b) = match find_last n b with Some x => Some x | None => find_last n a end.
  Proof. intros n a b. unfold find_last, lookup. rewrite rev_app_distr, find_app. reflexivity. Qed.

  (* the merged map: a file entry wins over a database row of the same name;
     within one list the last entry of a name wins (Go map assignment) *)
  Lemma lookup_merge : forall n db file,
    lookup key n (merge key db file) =
    match find_last n file with Some x => Some x | None => find_last n db end.
  Proof.
    intros n db file. unfold merge. rewrite lookup_fold_upsert, find_last_app.
    destruct (find_last n file); [reflexivity|]. destruct (find_last n db); reflexivity.
  Qed.

  Lemma merge_nodup : forall db file, NoDup (map key (merge key db file)).
  Proof. intros. unfold merge. apply fold_upsert_nodup. constructor. Qed.

  Lemma nodup_lookup_in : forall l x, NoDup (map key l) -> In x l -> lookup key (key x) l = Some x.
  Proof.
    induction l as [|y l IH]; intros x Hd Hin; [destruct Hin|].
    simpl in Hd. inversion Hd as [|? ? Hn Hd']; subst. unfold lookup. simpl.
    destruct Hin as [E | Hin].
    - subst. rewrite beqb_refl. reflexivity.
    - destruct (bytes_eqb (key y) (key x)) eqn:E.
      + apply beqb_eq in E. exfalso. apply Hn. rewrite E. apply in_map. exact Hin.
      + apply IH; assumption.
  Qed.

  (* membership in the merged map = being what the name resolves to *)
  Lemma in_merge_iff : forall db file x,
    In x (merge key db file) <->
    match find_last (key x) file with Some y => Some y | None => find_last (key x) db end = Some x.
  Proof.
    intros db file x. rewrite <- lookup_merge. split.
    - intro H. apply nodup_lookup_in; [apply merge_nodup | exact H].
    - intro H. apply lookup_some in H. apply H.
  Qed.
End Merge.

(* ---------------------------------------------------------------- tasks *)

Definition found (srcs : list source) (r : sref) : Prop := exists sc, lookup s_name (r_name r) srcs = Some sc.

Lemma tasks_of_refs_no_panic : forall srcs ig refs seen, tasks_of_refs srcs ig seen refs <> Panic.
Proof.
  intros srcs ig refs. induction refs as [|r rs IH]; intros seen; simpl; [discriminate|].
  destruct (name_mem (r_name r) seen); [discriminate|].
  destruct (lookup s_name (r_name r) srcs); [|discriminate].
  specialize (IH (r_name r :: seen)). destruct (tasks_of_refs srcs ig (r_name r :: seen) rs); simpl; congruence.
Qed.

Notation ref_task srcs ig :=
  (fun (r : sref) (t : task) => exists sc, lookup s_name (r_name r) srcs = Some sc /\ t = mk_task ig r sc).

Lemma tasks_of_refs_fwd : forall srcs ig refs seen ts,
  tasks_of_refs srcs ig seen refs = Ok ts ->
  NoDup (map r_name refs) /\ (forall r, In r refs -> ~ In (r_name r) seen)
  /\ Forall2 (ref_task srcs ig) refs ts.
Proof.
  intros srcs ig refs. induction refs as [|r rs IH]; intros seen ts H; simpl in H.
  - inversion H; subst. repeat split; [constructor | intros ? [] | constructor].
  - destruct (name_mem (r_name r) seen) eqn:Hm; [discriminate|].
    assert (Hns : ~ In (r_name r) seen) by (intro Hin; apply name_mem_in in Hin; congruence).
    destruct (lookup s_name (r_name r) srcs) as [sc|] eqn:Hl; [|discriminate].
    destruct (tasks_of_refs srcs ig (r_name r :: seen) rs) as [rest| |] eqn:Hr; simpl in H; try discriminate.
    inversion H; subst ts. clear H. apply IH in Hr. destruct Hr as [Hd [Hs Hf]]. repeat split.
    + simpl. constructor; [|exact Hd]. intro Hin. apply in_map_iff in Hin.
      destruct Hin as [r' [He Hin]]. apply (Hs r' Hin). left. congruence.
    + intros r' [E | Hin]; [subst; exact Hns|]. intro Hin'. apply (Hs r' Hin). right. exact Hin'.
    + constructor; [exists sc; split; [exact Hl | reflexivity] | exact Hf].
Qed.

Lemma tasks_of_refs_bwd : forall srcs ig refs ts,
  Forall2 (ref_task srcs ig) refs ts ->
  forall seen, NoDup (map r_name refs) -> (forall r, In r refs -> ~ In (r_name r) seen) ->
  tasks_of_refs srcs ig seen refs = Ok ts.
Proof.
  intros srcs ig refs ts Hf. induction Hf as [|r t rs ts' [sc [Hl Ht]] Hf IH]; intros seen Hd Hs; simpl.
  - reflexivity.
  - destruct (name_mem (r_name r) seen) eqn:Hm.
    + apply name_mem_in in Hm. exfalso. apply (Hs r); [left; reflexivity | exact Hm].
    + rewrite Hl. simpl in Hd. inversion Hd as [|? ? Hn Hd']; subst.
      rewrite (IH (r_name r :: seen)); [reflexivity | exact Hd' |].
      intros r' Hin [E | Hin'].
      * apply Hn. rewrite E. apply in_map. exact Hin.
      * apply (Hs r'); [right; exact Hin | exact Hin'].
Qed.

(* Ok exactly when every reference resolves and no name repeats (nor is in seen) *)
Lemma tasks_of_refs_ok : forall srcs ig refs seen ts,
  tasks_of_refs srcs ig seen refs = Ok ts <->
  (NoDup (map r_name refs) /\ (forall r, In r refs -> ~ In (r_name r) seen)
   /\ Forall2 (ref_task srcs ig) refs ts).
Proof.
  intros. split; [apply tasks_of_refs_fwd|]. intros [Hd [Hs Hf]]. apply tasks_of_refs_bwd; assumption.
Qed.

Lemma tasks_of_igs_no_panic : forall srcs igs, tasks_of_igs srcs igs <> Panic.
Proof.
  intros srcs igs. induction igs as [|ig rest IH]; simpl; [discriminate|].
  destruct (i_enabled ig); [|exact IH].
  destruct (tasks_of_refs srcs ig [] (i_refs ig)) eqn:Hr; simpl; try discriminate.
  - destruct (tasks_of_igs srcs rest); simpl; congruence.
  - exfalso. apply (tasks_of_refs_no_panic _ _ _ _ Hr).
Qed.

(* an integration is acceptable when its references are pairwise distinct and all resolve *)
Definition ig_ok (srcs : list source) (ig : integration) : Prop :=
  NoDup (map r_name (i_refs ig)) /\ forall r, In r (i_refs ig) -> found srcs r.

Lemma refs_ok_of_ig_ok : forall srcs ig, ig_ok srcs ig -> exists ts, tasks_of_refs srcs ig [] (i_refs ig) = Ok ts.
Proof.
  intros srcs ig [Hd Hf].
  assert (H : forall refs, (forall r, In r refs -> found srcs r) ->
            exists ts, Forall2 (ref_task srcs ig) refs ts).
  { induction refs as [|r rs IH]; intro Hall; [exists []; constructor|].
    destruct (Hall r (or_introl eq_refl)) as [sc Hsc].
    destruct (IH (fun r' Hin => Hall r' (or_intror Hin))) as [ts Hts].
    exists (mk_task ig r sc :: ts). constructor; [exists sc; split; [exact Hsc | reflexivity] | exact Hts]. }
  destruct (H (i_refs ig) Hf) as [ts Hts]. exists ts. apply tasks_of_refs_ok.
  repeat split; [exact Hd | intros r _ [] | exact Hts].
Qed.

Lemma tasks_of_igs_ok_iff : forall srcs igs,
  (exists ts, tasks_of_igs srcs igs = Ok ts) <->
  (forall ig, In ig igs -> i_enabled ig = true -> ig_ok srcs ig).
Proof.
  intros srcs igs. induction igs as [|ig rest IH]; simpl.
  - split; [intros _ ig [] | intros _; exists []; reflexivity].
  - destruct (i_enabled ig) eqn:He.
    + split.
      * intros [ts H]. destruct (tasks_of_refs srcs ig [] (i_refs ig)) as [a| |] eqn:Ha; simpl in H; try discriminate.
        destruct (tasks_of_igs srcs rest) as [b| |] eqn:Hb; simpl in H; try discriminate.
        intros ig' [E | Hin] He'.
        -- subst ig'. apply tasks_of_refs_ok in Ha. destruct Ha as [Hd [_ Hf]]. split; [exact Hd|].
           intros r Hin. clear -Hf Hin. induction Hf as [|r' t rs ts [sc [Hl _]] _ IHf]; [destruct Hin|].
           destruct Hin as [E | Hin]; [subst; exists sc; exact Hl | apply IHf; exact Hin].
        -- apply (proj1 IH); [exists b; reflexivity | exact Hin | exact He'].
      * intro Hall. destruct (refs_ok_of_ig_ok srcs ig (Hall ig (or_introl eq_refl) He)) as [a Ha].
        destruct (proj2 IH (fun ig' Hin => Hall ig' (or_intror Hin))) as [b Hb].
        exists (a ++ b). rewrite Ha, Hb. reflexivity.
    + rewrite IH. split.
      * intros H ig' [E | Hin] He'; [subst; congruence | apply H; assumption].
      * intros H ig' Hin. apply H. right. exact Hin.
Qed.

Lemma forall2_in_r : forall {A B} (P : A -> B -> Prop) l1 l2 y,
  Forall2 P l1 l2 -> In y l2 -> exists x, In x l1 /\ P x y.
Proof.
  intros A B P l1 l2 y Hf. induction Hf as [|a b l1 l2 Hp _ IH]; intro Hin; [destruct Hin|].
  destruct Hin as [E | Hin].
  - subst. exists a. split; [left; reflexivity | exact Hp].
  - destruct (IH Hin) as [x [Hx Hpx]]. exists x. split; [right; exact Hx | exact Hpx].
Qed.
Lemma forall2_in_l : forall {A B} (P : A -> B -> Prop) l1 l2 x,
  Forall2 P l1 l2 -> In x l1 -> exists y, In y l2 /\ P x y.
Proof.
  intros A B P l1 l2 x Hf. induction Hf as [|a b l1 l2 Hp _ IH]; intro Hin; [destruct Hin|].
  destruct Hin as [E | Hin].
  - subst. exists b. split; [left; reflexivity | exact Hp].
  - destruct (IH Hin) as [y [Hy Hpy]]. exists y. split; [right; exact Hy | exact Hpy].
Qed.

(* what the task list is, when there is one *)
Lemma tasks_of_igs_in : forall srcs igs ts,
  tasks_of_igs srcs igs = Ok ts ->
  forall t, In t ts <->
    exists ig r sc, In ig igs /\ i_enabled ig = true /\ In r (i_refs ig)
                    /\ lookup s_name (r_name r) srcs = Some sc /\ t = mk_task ig r sc.
Proof.
  intros srcs igs. induction igs as [|ig rest IH]; simpl; intros ts H t.
  - inversion H; subst. split; [intros [] | intros [ig [r [sc [[] _]]]]].
  - destruct (i_enabled ig) eqn:He.
    + destruct (tasks_of_refs srcs ig [] (i_refs ig)) as [a| |] eqn:Ha; simpl in H; try discriminate.
      destruct (tasks_of_igs srcs rest) as [b| |] eqn:Hb; simpl in H; try discriminate.
      inversion H; subst ts. clear H. apply tasks_of_refs_ok in Ha. destruct Ha as [_ [_ Hf]].
      rewrite in_app_iff. rewrite (IH b eq_refl t). split.
      * intros [Hin | [ig' [r [sc [Hin H]]]]].
        -- destruct (forall2_in_r _ _ _ _ Hf Hin) as [r [Hr [sc [Hl Ht]]]].
           exists ig, r, sc. repeat split; try assumption. left. reflexivity.
        -- exists ig', r, sc. split; [right; exact Hin | exact H].
      * intros [ig' [r [sc [[E | Hin] [He' [Hr [Hl Ht]]]]]]].
        -- subst ig'. left. destruct (forall2_in_l _ _ _ _ Hf Hr) as [t' [Hin' [sc' [Hl' Ht']]]].
           rewrite Hl in Hl'. inversion Hl'; subst sc'. subst t t'. exact Hin'.
        -- right. exists ig', r, sc. repeat split; assumption.
    + rewrite (IH ts H t). split.
      * intros [ig' [r [sc [Hin H']]]]. exists ig', r, sc. split; [right; exact Hin | exact H'].
      * intros [ig' [r [sc [[E | Hin] [He' H']]]]]; [subst; congruence|].
        exists ig', r, sc. repeat split; try assumption; apply H'.
Qed.

Lemma tasks_of_refs_pairs : forall srcs ig refs seen ts,
  tasks_of_refs srcs ig seen refs = Ok ts ->
  map pair_of ts = map (fun r => (r_name r, i_name ig)) refs.
Proof.
  intros srcs ig refs seen ts H. apply tasks_of_refs_ok in H. destruct H as [_ [_ Hf]].
  induction Hf as [|r t rs ts' [sc [Hl Ht]] _ IH]; [reflexivity|]. simpl. rewrite IH. f_equal.
  subst t. unfold pair_of, mk_task. simpl. apply lookup_some in Hl. destruct Hl as [_ Hl]. rewrite Hl. reflexivity.
Qed.

Lemma tasks_of_igs_length : forall srcs igs ts,
  tasks_of_igs srcs igs = Ok ts ->
  List.length ts = list_sum (map (fun ig => List.length (i_refs ig)) (filter i_enabled igs)).
Proof.
  intros srcs igs. induction igs as [|ig rest IH]; simpl; intros ts H.
  - inversion H. reflexivity.
  - destruct (i_enabled ig) eqn:He.
    + destruct (tasks_of_refs srcs ig [] (i_refs ig)) as [a| |] eqn:Ha; simpl in H; try discriminate.
      destruct (tasks_of_igs srcs rest) as [b| |] eqn:Hb; simpl in H; try discriminate.
      inversion H; subst ts. rewrite app_length. simpl. rewrite (IH b eq_refl). f_equal.
      apply tasks_of_refs_pairs in Ha. apply (f_equal (@List.length _)) in Ha. rewrite !map_length in Ha. exact Ha.
    + apply IH. exact H.
Qed.

Lemma nodup_app : forall {A} (l1 l2 : list A),
  NoDup l1 -> NoDup l2 -> (forall x, In x l1 -> ~ In x l2) -> NoDup (l1 ++ l2).
Proof.
  intros A l1. induction l1 as [|x l1 IH]; simpl; intros l2 H1 H2 Hd; [exact H2|].
  inversion H1 as [|? ? Hn H1']; subst. constructor.
  - intro Hin. apply in_app_or in Hin. destruct Hin as [Hin | Hin]; [contradiction|].
    apply (Hd x); [left; reflexivity | exact Hin].
  - apply IH; [exact H1' | exact H2 | intros y Hy; apply Hd; right; exact Hy].
Qed.

(* one runner per pair: no (source, integration) pair occurs twice *)
Lemma tasks_of_igs_nodup : forall srcs igs ts,
  NoDup (map i_name igs) -> tasks_of_igs srcs igs = Ok ts -> NoDup (map pair_of ts).
Proof.
  intros srcs igs. induction igs as [|ig rest IH]; simpl; intros ts Hd H.
  - inversion H. constructor.
  - inversion Hd as [|? ? Hn Hd']; subst.
    destruct (i_enabled ig) eqn:He; [|apply IH; assumption].
    destruct (tasks_of_refs srcs ig [] (i_refs ig)) as [a| |] eqn:Ha; simpl in H; try discriminate.
    destruct (tasks_of_igs srcs rest) as [b| |] eqn:Hb; simpl in H; try discriminate.
    inversion H; subst ts. clear H. rewrite map_app.
    pose proof (tasks_of_refs_pairs _ _ _ _ _ Ha) as Hp.
    apply tasks_of_refs_ok in Ha. destruct Ha as [Hdr _].
    apply nodup_app.
    + rewrite Hp. clear -Hdr. induction (i_refs ig) as [|r rs IHr]; simpl; [constructor|].
      simpl in Hdr. inversion Hdr as [|? ? Hn Hd]; subst. constructor; [|apply IHr; exact Hd].
      intro Hin. apply in_map_iff in Hin. destruct Hin as [r' [E Hin]]. inversion E as [E'].
      apply Hn. rewrite <- E'. apply in_map. exact Hin.
    + apply IH; [exact Hd' | reflexivity].
    + intros p Hpa Hpb. rewrite Hp in Hpa. apply in_map_iff in Hpa. destruct Hpa as [r [E _]]. subst p.
      apply in_map_iff in Hpb. destruct Hpb as [t [Et Hin]].
      apply (tasks_of_igs_in _ _ _ Hb) in Hin. destruct Hin as [ig' [r' [sc [Hin [_ [_ [_ Ht]]]]]]].
      subst t. unfold pair_of, mk_task in Et. simpl in Et. inversion Et as [[E1 E2]].
      apply Hn. rewrite <- E2. apply in_map. exact Hin.
Qed.

(* ---------------------------------------------------------------- loadTasks *)

Lemma load_tasks_no_panic_l : forall fs ds fi di, load_tasks fs ds fi di <> Panic.
Proof. intros. unfold load_tasks. apply tasks_of_igs_no_panic. Qed.

Lemma load_tasks_exact_l : forall fs ds fi di ts,
  load_tasks fs ds fi di = Ok ts ->
  (forall t, In t ts <->
     exists ig r sc, In ig (all_integrations di fi) /\ i_enabled ig = true /\ In r (i_refs ig)
                     /\ lookup s_name (r_name r) (all_sources ds fs) = Some sc /\ t = mk_task ig r sc)
  /\ NoDup (map pair_of ts)
  /\ List.length ts = list_sum (map (fun ig => List.length (i_refs ig)) (filter i_enabled (all_integrations di fi))).
Proof.
  intros fs ds fi di ts H. unfold load_tasks in H. repeat split.
  - apply (tasks_of_igs_in _ _ _ H).
  - apply (tasks_of_igs_in _ _ _ H).
  - apply (tasks_of_igs_nodup _ _ _ (merge_nodup i_name di fi) H).
  - apply (tasks_of_igs_length _ _ _ H).
Qed.

Lemma ig_ok_of_refs_ok : forall srcs ig a, tasks_of_refs srcs ig [] (i_refs ig) = Ok a -> ig_ok srcs ig.
Proof.
  intros srcs ig a Ha. apply tasks_of_refs_ok in Ha. destruct Ha as [Hd [_ Hf]]. split; [exact Hd|].
  intros r Hin. clear -Hf Hin. induction Hf as [|r' t rs ts' [sc [Hl _]] _ IHf]; [destruct Hin|].
  destruct Hin as [E | Hin]; [subst; exists sc; exact Hl | apply IHf; exact Hin].
Qed.

Lemma refs_err_iff : forall srcs ig, tasks_of_refs srcs ig [] (i_refs ig) = Err <-> ~ ig_ok srcs ig.
Proof.
  intros srcs ig. split.
  - intros H Hok. destruct (refs_ok_of_ig_ok _ _ Hok) as [ts Hts]. congruence.
  - intro Hn. destruct (tasks_of_refs srcs ig [] (i_refs ig)) as [a| |] eqn:Ha.
    + exfalso. apply Hn. apply (ig_ok_of_refs_ok _ _ _ Ha).
    + reflexivity.
    + exfalso. apply (tasks_of_refs_no_panic _ _ _ _ Ha).
Qed.

Lemma igs_err_iff : forall srcs igs,
  tasks_of_igs srcs igs = Err <->
  exists ig, In ig igs /\ i_enabled ig = true /\ ~ ig_ok srcs ig.
Proof.
  intros srcs igs. induction igs as [|ig rest IH]; simpl.
  - split; [discriminate | intros [ig [[] _]]].
  - destruct (i_enabled ig) eqn:He.
    + destruct (tasks_of_refs srcs ig [] (i_refs ig)) as [a| |] eqn:Ha; simpl.
      * destruct (tasks_of_igs srcs rest) as [b| |] eqn:Hb; simpl.
        -- split; [discriminate|]. intros [ig' [[E | Hin] [He' Hn]]].
           ++ subst ig'. exfalso. apply Hn. apply (ig_ok_of_refs_ok _ _ _ Ha).
           ++ assert (H : Ok b = Err) by (apply IH; exists ig'; repeat split; assumption). discriminate.
        -- split; [|reflexivity]. intros _. destruct (proj1 IH eq_refl) as [ig' [Hin H]].
           exists ig'. split; [right; exact Hin | exact H].
        -- exfalso. apply (tasks_of_igs_no_panic _ _ Hb).
      * split; [|reflexivity]. intros _. exists ig. repeat split; [left; reflexivity | exact He|].
        apply refs_err_iff. exact Ha.
      * exfalso. apply (tasks_of_refs_no_panic _ _ _ _ Ha).
    + rewrite IH. split.
      * intros [ig' [Hin H]]. exists ig'. split; [right; exact Hin | exact H].
      * intros [ig' [[E | Hin] [He' Hn]]]; [subst; congruence|]. exists ig'. repeat split; assumption.
Qed.

(* startup error exactly when an enabled integration of the merged
   configuration references an unknown source or the same source twice *)
Lemma load_tasks_error_iff_l : forall fs ds fi di,
  load_tasks fs ds fi di = Err <->
  exists ig, In ig (all_integrations di fi) /\ i_enabled ig = true
             /\ ~ ig_ok (all_sources ds fs) ig.
Proof. intros. unfold load_tasks. apply igs_err_iff. Qed.

(* in particular: a reference to a source that neither the file nor the
   database defines is a startup error, never a silently missing task *)
Lemma unknown_source_is_error_l : forall fs ds fi di ig r,
  In ig (all_integrations di fi) -> i_enabled ig = true -> In r (i_refs ig) ->
  lookup s_name (r_name r) (all_sources ds fs) = None ->
  load_tasks fs ds fi di = Err.
Proof.
  intros fs ds fi di ig r Hin He Hr Hl. apply load_tasks_error_iff_l.
  exists ig. repeat split; try assumption. intros [_ Hf]. destruct (Hf r Hr) as [sc Hsc]. congruence.
Qed.

(* file entries win; within a list the last entry of a name wins *)
Lemma file_overrides_db_l : forall fs ds fi di,
  (forall n, lookup i_name n (all_integrations di fi) =
             match find_last i_name n fi with Some x => Some x | None => find_last i_name n di end)
  /\ (forall n, lookup s_name n (all_sources ds fs) =
             match find_last s_name n fs with Some x => Some x | None => find_last s_name n ds end)
  /\ NoDup (map i_name (all_integrations di fi)) /\ NoDup (map s_name (all_sources ds fs))
  /\ (forall ig, In ig (all_integrations di fi) <-> lookup i_name (i_name ig) (all_integrations di fi) = Some ig).
Proof.
  intros fs ds fi di. repeat split.
  - intro n. apply lookup_merge.
  - intro n. apply lookup_merge.
  - apply merge_nodup.
  - apply merge_nodup.
  - intro H. apply nodup_lookup_in; [apply merge_nodup | exact H].
  - intro H. apply lookup_some in H. apply H.
Qed.

(* the code as found: the same source referenced twice by one integration
   yields two tasks for one pair *)
Definition legacy_witness_ig : integration :=
  {| i_name := [105]%N; i_enabled := true;
     i_refs := [ {| r_name := [115]%N; r_start := 0%N; r_stop := 0%N |};
                 {| r_name := [115]%N; r_start := 100%N; r_stop := 0%N |} ] |}.
Definition legacy_witness_src : source :=
  {| s_name := [115]%N; s_url := []; s_chain := 1%N; s_poll := 0%N; s_conc := 0%N; s_batch := 0%N |}.

Lemma legacy_one_runner_per_pair_refuted_l :
  ~ (forall fs ds fi di ts, legacy_load_tasks fs ds fi di = Ok ts -> NoDup (map pair_of ts)).
Proof.
  intro H. specialize (H [legacy_witness_src] [] [legacy_witness_ig] [] _ eq_refl).
  vm_compute in H. inversion H as [|? ? Hn _]. apply Hn. left. reflexivity.
Qed.

Lemma repaired_rejects_legacy_witness :
  load_tasks [legacy_witness_src] [] [legacy_witness_ig] [] = Err.
Proof. reflexivity. Qed.
