(* Bridge between C20 (Model/Manager.v: which tasks the manager runs, with how
   many runners) and the task layer C01..C06 (Model/TaskTypes.v, TaskSys.v,
   TaskSpec.v; Properties/C04.v [system_frame], [other_tasks_preserve_inv],
   [system_invariant]).

   The multi-task theorems of the task layer are stated for a list [cfgs] of
   task configurations with  NoDup (map pair_of cfgs)  (pair_of c = (t_src c,
   t_ig c), names being the small integer ids of TaskTypes) and for schedules
   [sys_run sch (sys_init cfgs d)] in which every move is a move of ONE of
   those tasks: one runner (one connection) per pair.  That premise is what
   C20 establishes:

   (1) [loaded_tasks_have_distinct_pairs_l]: whatever file/database mix
       loadTasks is given, the configurations of the tasks it returns -- read
       in the vocabulary of TaskTypes through ANY injective naming of sources
       and integrations -- have pairwise distinct (source, integration) pairs;
   (2) [one_runner_per_pair_always_l]: in every reachable state of the
       Run/Restart/runTask machine, any two distinct live runners drive
       different pairs, ACROSS generations (the runners of one generation
       drive the distinct pairs of (1); runners of two generations are never
       live together).

   How the developments compose.  Fix a reachable state of the manager machine
   in which generation g is live (its Run sits in wg.Wait()).  The task layer's
   [cfgs] is the image of the list loadTasks returned to that Run; a schedule
   [sch] of TaskSys is the interleaving of the steps of the runTask goroutines
   of generation g: a move (t_id c, answer) is one I/O operation of the
   Converge that the runner of c is inside (TStep in the manager machine);
   between two Converges the runner is at TCheck.  By (2) no runner of another
   generation moves while g is live, and by C20's
   [load_only_after_previous_returned] the next generation's [cfgs'] starts its
   own TaskSys run from the database the last move of generation g left (a
   runner that returns at TCheck has finished or rolled back its Converge; a
   process death is the task layer's crash move).  So a whole execution of the
   process is a concatenation of TaskSys runs, one per generation, each
   satisfying the NoDup premise: [system_invariant] applies to each, the final
   database of one being the initial database of the next.

   NOT covered: two shovel PROCESSES on one database.  NewTask computes an
   advisory lock id (t.lockid = LockHash("shovel-task-<src>-<ig>")) but no
   statement of Converge ever takes it (the only pg_advisory_xact_lock in the
   repository is main.go's migration lock), so nothing stops a second process
   from driving the same pair concurrently.  C20 speaks about "the manager"
   (one process); recorded as an observation in design.d/C20.md. *)
From Coq Require Import List Arith PeanoNat NArith Bool Lia.
From Shovel Require Import Base.Outcome Model.Manager Proofs.ManagerLoadP Proofs.ManagerRunP.
From Shovel Require Model.TaskTypes.
Import ListNotations.

(* a task of Model/Manager.v read as a configuration of the task layer: the
   names become ids through [enc]; start/stop/batch/concurrency are the ones
   loadTasks decided; what loadTasks does not decide (trace id, table,
   dependencies, plan flags) is supplied by [rest] *)
Record tl_rest := { x_id : N; x_tbl : N; x_deps : list N; x_hashes : bool; x_uniq : bool }.

Definition to_tcfg (enc : name -> N) (rest : task -> tl_rest) (t : task) : TaskTypes.tcfg :=
  TaskTypes.Task (x_id (rest t)) (enc (t_src t)) (enc (t_ig t)) (x_tbl (rest t))
                 (t_start t) (t_stop t) (t_batch t) (t_conc t)
                 (x_deps (rest t)) (x_hashes (rest t)) (x_uniq (rest t)).

(* = TaskSpec.pair_of, by unfolding *)
Definition tl_pair (c : TaskTypes.tcfg) : N * N := (TaskTypes.t_src c, TaskTypes.t_ig c).

Definition injective {A B} (f : A -> B) : Prop := forall a b, f a = f b -> a = b.

Lemma nodup_map_inj : forall {A B} (f : A -> B) l, injective f -> NoDup l -> NoDup (map f l).
Proof.
  intros A B f l Hf H. induction H as [|x l Hn Hd IH]; simpl; [constructor|].
  constructor; [|exact IH]. intro Hin. apply in_map_iff in Hin. destruct Hin as [y [E Hy]].
  apply Hf in E. subst y. contradiction.
Qed.

Lemma loaded_tasks_have_distinct_pairs_l : forall enc rest fs ds fi di ts,
  injective enc ->
  load_tasks fs ds fi di = Ok ts ->
  NoDup (map tl_pair (map (to_tcfg enc rest) ts)).
Proof.
  intros enc rest fs ds fi di ts Hinj Hl.
  destruct (load_tasks_exact_l _ _ _ _ _ Hl) as [_ [Hnd _]].
  rewrite map_map.
  assert (E : map (fun t => tl_pair (to_tcfg enc rest t)) ts
              = map (fun p => (enc (fst p), enc (snd p))) (map pair_of ts)).
  { rewrite map_map. apply map_ext. intro t. reflexivity. }
  rewrite E. apply nodup_map_inj; [|exact Hnd].
  intros [a b] [c d] H. simpl in H. inversion H as [[H1 H2]]. apply Hinj in H1. apply Hinj in H2. congruence.
Qed.

(* batch size and concurrency are >= 1, as the task layer's cfg_ok asks *)
Lemma loaded_tasks_batch_conc_pos_l : forall fs ds fi di ts t,
  load_tasks fs ds fi di = Ok ts -> In t ts -> (1 <= t_batch t /\ 1 <= t_conc t)%N.
Proof.
  intros fs ds fi di ts t Hl Hin.
  destruct (load_tasks_exact_l _ _ _ _ _ Hl) as [Hiff _].
  apply Hiff in Hin. destruct Hin as [ig [r [sc [_ [_ [_ [_ E]]]]]]]. subst t. simpl.
  unfold dflt. split; [destruct (N.eqb (s_batch sc) 0) eqn:Eb | destruct (N.eqb (s_conc sc) 0) eqn:Eb];
    try lia; apply N.eqb_neq in Eb; lia.
Qed.

(* the runners started from ONE loadTasks result drive pairwise distinct
   pairs: the j-th runner drives the pair of the j-th task *)
Lemma spawned_runners_distinct_l : forall fs ds fi di ts j1 j2 t1 t2,
  load_tasks fs ds fi di = Ok ts ->
  nth_error ts j1 = Some t1 -> nth_error ts j2 = Some t2 -> j1 <> j2 ->
  pair_of t1 <> pair_of t2.
Proof.
  intros fs ds fi di ts j1 j2 t1 t2 Hl H1 H2 Hne E.
  destruct (load_tasks_exact_l _ _ _ _ _ Hl) as [_ [Hnd _]].
  apply Hne. apply (proj1 (NoDup_nth_error (map pair_of ts)) Hnd).
  - rewrite map_length. apply nth_error_Some. congruence.
  - rewrite !nth_error_map, H1, H2. simpl. congruence.
Qed.

(* [label t] = the (source, integration) pair runner number t (its position in
   the list of runTask goroutines ever started) drives.  Premise: the runners
   of ONE generation drive pairwise distinct pairs -- which is
   [spawned_runners_distinct_l] for the task list that generation loaded.
   Conclusion, over ALL schedules and both variants: two distinct live runners
   never drive the same pair, whatever their generations. *)
Lemma one_runner_per_pair_always_l : forall {P : Type} (label : nat -> P) v sched,
  let s := exec v init sched in
  (forall t1 t2 g1 g2, nth_error (tasks s) t1 = Some g1 -> nth_error (tasks s) t2 = Some g2 ->
     g_gen g1 = g_gen g2 -> t1 <> t2 -> label t1 <> label t2) ->
  forall t1 t2 g1 g2, nth_error (tasks s) t1 = Some g1 -> nth_error (tasks s) t2 = Some g2 ->
    live g1 = true -> live g2 = true -> label t1 = label t2 -> t1 = t2.
Proof.
  intros P label v sched s Hgen t1 t2 g1 g2 H1 H2 L1 L2 E.
  destruct (generations_exclusive_l v sched) as [_ Hsame]. fold s in Hsame.
  pose proof (Hsame _ _ _ _ H1 H2 L1 L2) as Hg.
  destruct (Nat.eq_dec t1 t2) as [Et | Nt]; [exact Et|].
  exfalso. apply (Hgen _ _ _ _ H1 H2 Hg Nt E).
Qed.
