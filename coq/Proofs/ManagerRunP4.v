(* Proofs about part (ii) of Model/Manager.v, continued: in the repaired code
   every Restart CAN complete -- from every reachable state there is a
   continuation without any outside help (no further Restart call, no change
   of the stored configuration, no task finishing by itself) after which every
   Restart call has returned (C20).  The code as found does not have this
   property: legacy_lost_restart_hangs_l. *)
From Coq Require Import List Arith PeanoNat NArith Bool Lia.
From Shovel Require Import Base.Outcome Model.Manager
  Proofs.ManagerRunP Proofs.ManagerRunP2 Proofs.ManagerRunP3.
Import ListNotations.

(* ---------------------------------------------------------------- three more invariants of the repaired code *)

Record Inv3 (s : state) : Prop := {
  (* a Run that has not signalled yet is before its signal *)
  E_ec : forall r x, nth_error (runs s) r = Some x -> r_ec x = None -> pre_signal (r_pc x) = true;
  (* the program point "replace after signalling" does not exist in the repaired code *)
  E_norep : forall r x n, nth_error (runs s) r = Some x -> r_pc x <> RReplace n;
  (* a Restart waits on a Run that it started *)
  E_wait : forall k y r, nth_error (rsts s) k = Some y -> k_pc y = KWaiting r ->
           exists x, nth_error (runs s) r = Some x /\ r_restarted x = true
}.

Lemma inv3_init : Inv3 init.
Proof.
  constructor; simpl.
  - intros [|r] x H He; [inversion H; subst; reflexivity | destruct r; discriminate].
  - intros [|r] x n H; [inversion H; subst; discriminate | destruct r; discriminate].
  - intros [|k] y r H; discriminate.
Qed.

Lemma inv3_move : forall s s' r x x',
  Inv3 s -> nth_error (runs s) r = Some x ->
  runs s' = upd (runs s) r x' -> rsts s' = rsts s ->
  r_restarted x' = r_restarted x ->
  (r_ec x' = None -> pre_signal (r_pc x') = true) ->
  (forall n, r_pc x' <> RReplace n) ->
  Inv3 s'.
Proof.
  intros s s' r x x' [HE HN HW] Hx Er Ek Ers Hec Hnr. constructor; rewrite ?Er, ?Ek.
  - intros r0 x0 H0 He0. apply nth_upd_cases in H0. destruct H0 as [[_ E] | [_ H0]]; [subst; apply Hec; exact He0 | apply (HE _ _ H0 He0)].
  - intros r0 x0 n H0. apply nth_upd_cases in H0. destruct H0 as [[_ E] | [_ H0]]; [subst; apply Hnr | apply (HN _ _ _ H0)].
  - intros k y r0 Hy Hp. destruct (HW _ _ _ Hy Hp) as [x0 [H0 Hr0]].
    destruct (Nat.eq_dec r0 r) as [E | N].
    + subst r0. rewrite Hx in H0. inversion H0; subst x0. exists x'. split; [apply (nth_upd_eq _ _ _ _ Hx) | congruence].
    + exists x0. split; [rewrite nth_upd_neq by congruence; exact H0 | exact Hr0].
Qed.

Lemma inv3_step : forall s a, Inv3 s -> Inv3 (step Fixed s a).
Proof.
  intros s a H3. unfold step. destruct (crashed s); [exact H3|].
  destruct a as [| |k|k|r|r|r res|r|r|r|t|t dn].
  - destruct H3 as [HE HN HW]. constructor; simpl; assumption.
  - destruct H3 as [HE HN HW]. constructor; simpl; try assumption.
    intros k y r Hy Hp. apply nth_snoc_cases in Hy. destruct Hy as [Hy | [_ E]]; [apply (HW _ _ _ Hy Hp)|]. subst y. discriminate.
  - (* ARestartClose *)
    destruct (nth_error (rsts s) k) as [[[| |] kv]|] eqn:Hk; try exact H3.
    destruct H3 as [HE HN HW].
    assert (Hgrow : forall s', runs s' = runs s ++ [new_run s true] ->
              rsts s' = upd (rsts s) k {| k_pc := KWaiting (List.length (runs s)); k_ver := kv |} -> Inv3 s').
    { intros s' Er Ek. constructor; rewrite ?Er, ?Ek.
      - intros r x Hx He. apply nth_snoc_cases in Hx. destruct Hx as [Hx | [_ E]]; [apply (HE _ _ Hx He) | subst x; reflexivity].
      - intros r x n Hx. apply nth_snoc_cases in Hx. destruct Hx as [Hx | [_ E]]; [apply (HN _ _ _ Hx) | subst x; discriminate].
      - intros k0 y r Hy Hp. apply nth_upd_cases in Hy. destruct Hy as [[_ E] | [_ Hy]].
        + subst y. simpl in Hp. inversion Hp; subst r. exists (new_run s true). split; [|reflexivity].
          rewrite nth_error_app2 by lia. rewrite Nat.sub_diag. reflexivity.
        + destruct (HW _ _ _ Hy Hp) as [x [Hx Hr]]. exists x. split; [apply nth_snoc_old; exact Hx | exact Hr]. }
    destruct (is_closed s (cur s)); apply Hgrow; reflexivity.
  - (* ARestartReturn *)
    destruct (nth_error (rsts s) k) as [[[|r|] kv]|] eqn:Hk; try exact H3.
    destruct (nth_error (runs s) r) as [x|] eqn:Hx; try exact H3.
    destruct (r_ec x) as [ok|]; try exact H3.
    destruct H3 as [HE HN HW]. constructor; simpl; try assumption.
    intros k0 y r0 Hy Hp. apply nth_upd_cases in Hy. destruct Hy as [[_ E] | [_ Hy]]; [subst y; discriminate | apply (HW _ _ _ Hy Hp)].
  - (* ALock *)
    destruct (lock s); [exact H3|].
    destruct (nth_error (runs s) r) as [x|] eqn:Hx; [|exact H3].
    destruct (r_pc x) eqn:Hpc; try exact H3.
    eapply (inv3_move s _ r x); [exact H3 | exact Hx | reflexivity | reflexivity | reflexivity | | ]; simpl; intros; try reflexivity; discriminate.
  - (* AReplace *)
    destruct (nth_error (runs s) r) as [x|] eqn:Hx; [|exact H3].
    cbv zeta. destruct (r_pc x) eqn:Hpc; try exact H3. destruct (replace_chan Fixed s x) as [w cl].
    eapply (inv3_move s _ r x); [exact H3 | exact Hx | reflexivity | reflexivity | reflexivity | | ]; simpl; intros; try reflexivity; discriminate.
  - (* ALoad *)
    destruct (nth_error (runs s) r) as [x|] eqn:Hx; [|exact H3].
    destruct (r_pc x) eqn:Hpc; try exact H3.
    eapply (inv3_move s _ r x); [exact H3 | exact Hx | reflexivity | reflexivity | reflexivity | | ]; simpl; intros; destruct res; try reflexivity; discriminate.
  - (* ASignal *)
    destruct (nth_error (runs s) r) as [x|] eqn:Hx; [|exact H3].
    destruct (r_pc x) eqn:Hpc; try exact H3;
      (eapply (inv3_move s _ r x); [exact H3 | exact Hx | reflexivity | reflexivity | reflexivity | | ]); simpl; intros; discriminate.
  - (* ASpawn *)
    destruct (nth_error (runs s) r) as [x|] eqn:Hx; [|exact H3].
    destruct (r_pc x) eqn:Hpc; try exact H3.
    eapply (inv3_move s _ r x); [exact H3 | exact Hx | reflexivity | reflexivity | reflexivity | | ]; simpl; intros; try discriminate.
    pose proof (E_ec s H3 _ _ Hx H) as Hp. rewrite Hpc in Hp. discriminate.
  - (* AUnlock *)
    destruct (nth_error (runs s) r) as [x|] eqn:Hx; [|exact H3].
    assert (Hrel : pre_signal (r_pc x) = false ->
              Inv3 {| lock := None; cur := cur s; nch := nch s; closed := closed s; waiting := waiting s;
                      crashed := false; ver := ver s; lv := lv s;
                      runs := upd (runs s) r (with_pc x RDone); rsts := rsts s; tasks := tasks s |}).
    { intro Hps. eapply (inv3_move s _ r x); [exact H3 | exact Hx | reflexivity | reflexivity | reflexivity | | ]; simpl; intros; try discriminate.
      pose proof (E_ec s H3 _ _ Hx H) as Hp. congruence. }
    destruct (r_pc x) eqn:Hpc; try exact H3.
    + destruct (all_exited s r); [|exact H3]. apply Hrel. reflexivity.
    + apply Hrel. reflexivity.
  - destruct (nth_error (tasks s) t) as [[g [| |]]|]; try exact H3.
    destruct H3 as [HE HN HW]. constructor; simpl; assumption.
  - destruct (nth_error (tasks s) t) as [[g [| |]]|]; try exact H3.
    destruct H3 as [HE HN HW]. constructor; simpl; assumption.
Qed.

(* everything we know about a reachable state of the repaired code *)
Record Good (s : state) : Prop := {
  G_inv : Inv s; G_w : InvW s; G_3 : Inv3 s; G_nc : crashed s = false
}.
Lemma good_init : Good init.
Proof. constructor; [apply inv_init | apply invw_init | apply inv3_init | reflexivity]. Qed.
Lemma good_step : forall s a, Good s -> Good (step Fixed s a).
Proof.
  intros s a [H1 HW H3 Hc]. constructor;
    [apply inv_step; exact H1 | apply invw_step; assumption | apply inv3_step; exact H3 | apply fixed_step_no_crash; exact Hc].
Qed.
Lemma good_exec : forall sched s, Good s -> Good (exec Fixed s sched).
Proof. induction sched as [|a sched IH]; intros s H; simpl; [exact H | apply IH; apply good_step; exact H]. Qed.

(* ---------------------------------------------------------------- the potential *)

Definition sumf {A} (f : A -> nat) (l : list A) : nat := list_sum (map f l).

Lemma sumf_upd : forall {A} (f : A -> nat) l i x x',
  nth_error l i = Some x -> sumf f (upd l i x') + f x = sumf f l + f x'.
Proof.
  intros A f l. unfold sumf. induction l as [|a l IH]; intros [|i] x x' H; simpl in *; try discriminate.
  - inversion H; subst. lia.
  - specialize (IH _ _ x' H). lia.
Qed.
Lemma sumf_app : forall {A} (f : A -> nat) l l', sumf f (l ++ l') = sumf f l + sumf f l'.
Proof. intros A f l l'. unfold sumf. rewrite map_app, list_sum_app. reflexivity. Qed.
Lemma sumf_repeat : forall {A} (f : A -> nat) a n, sumf f (repeat a n) = n * f a.
Proof. intros A f a n. unfold sumf. induction n as [|n IH]; simpl; [reflexivity | rewrite IH; reflexivity]. Qed.

Definition wk (y : rst) : nat := match k_pc y with KCalled => 40 | KWaiting _ => 1 | KReturned _ _ => 0 end.
Definition wr (x : run) : nat :=
  match r_pc x with
  | RWaitLock => if r_restarted x then 30 else 0
  | RLocked => 20 | RLoad => 19
  | RSigOk n => 17 + 3 * n | RSigErr => 17
  | RReplace n => 17 + 3 * n
  | RSpawn n => 16 + 3 * n
  | RWait => 15 | RErrRet => 15 | RDone => 0
  end.
Definition wt (t : rtask) : nat := match g_pc t with TStep => 2 | TCheck => 1 | TExit => 0 end.
Definition phi (s : state) : nat := sumf wk (rsts s) + sumf wr (runs s) + sumf wt (tasks s).

Definition returned (y : rst) : bool := match k_pc y with KReturned _ _ => true | _ => false end.
Definition all_returned (s : state) : bool := forallb returned (rsts s).

Lemma not_all_returned : forall s, all_returned s = false ->
  exists k y, nth_error (rsts s) k = Some y /\ returned y = false.
Proof.
  intros s H. unfold all_returned in H.
  induction (rsts s) as [|y l IH]; simpl in H; [discriminate|].
  destruct (returned y) eqn:Hy.
  - destruct (IH H) as [k [y' [Hk Hr]]]. exists (S k), y'. split; assumption.
  - exists 0, y. split; [reflexivity | exact Hy].
Qed.

Lemma not_all_exited : forall s h, all_exited s h = false ->
  exists t g, nth_error (tasks s) t = Some g /\ g_gen g = h /\ live g = true.
Proof.
  intros s h H. unfold all_exited in H.
  induction (tasks s) as [|g l IH]; simpl in H; [discriminate|].
  destruct (negb (Nat.eqb (g_gen g) h) || match g_pc g with TExit => true | _ => false end) eqn:Hg.
  - destruct (IH H) as [t [g' [Ht Hr]]]. exists (S t), g'. split; assumption.
  - exists 0, g. split; [reflexivity|]. apply orb_false_iff in Hg. destruct Hg as [Hn Hp].
    apply negb_false_iff in Hn. apply Nat.eqb_eq in Hn. split; [exact Hn|].
    unfold live. destruct (g_pc g); try reflexivity. discriminate.
Qed.

Lemma nq_pos_exists : forall s, 0 < nq s ->
  exists r x, nth_error (runs s) r = Some x /\ queued x = true /\ r_restarted x = true.
Proof.
  intros s H. unfold nq in H. induction (runs s) as [|x l IH]; simpl in H; [lia|].
  destruct (qr x) eqn:Hq.
  - exists 0, x. split; [reflexivity|]. unfold qr in Hq. apply andb_true_iff in Hq. exact Hq.
  - destruct (IH H) as [r [x' [Hr Hx]]]. exists (S r), x'. split; assumption.
Qed.
Lemma queued_restarted_nq : forall s r x,
  nth_error (runs s) r = Some x -> queued x = true -> r_restarted x = true -> 0 < nq s.
Proof.
  intros s r x Hx Hq Hr. unfold nq. apply existsb_count. apply existsb_exists.
  exists x. split; [apply (nth_error_In _ _ Hx) | unfold qr; rewrite Hq, Hr; reflexivity].
Qed.

(* ---------------------------------------------------------------- one useful step always exists *)

(* after [unfold step; rewrite ...] the goal speaks of a record literal: expose
   its rsts/runs/tasks and relate the sum over the updated run table *)
Ltac run_case s h z Hz Ez neww :=
  unfold phi, set_run; cbn [rsts runs tasks];
  match goal with |- context [upd (runs s) h ?z'] =>
    let Hu := fresh "Hu" in
    pose proof (sumf_upd wr (runs s) h z z' Hz) as Hu;
    rewrite Ez in Hu;
    replace (wr z') with neww in Hu by reflexivity
  end.

Lemma progress : forall s, Good s -> all_returned s = false ->
  exists a, internal a /\ phi (step Fixed s a) < phi s.
Proof.
  intros s [HI [HWc HS] H3 Hc] Hnr.
  (* 1. a Restart that has not closed the channel yet *)
  destruct (existsb (fun y => match k_pc y with KCalled => true | _ => false end) (rsts s)) eqn:Hcalled.
  { apply existsb_exists in Hcalled. destruct Hcalled as [y [Hin Hy]]. apply In_nth_error in Hin. destruct Hin as [k Hk].
    destruct y as [[| |] kv]; try discriminate.
    exists (ARestartClose k). split; [exact I|]. unfold step. rewrite Hc, Hk.
    pose proof (sumf_upd wk (rsts s) k _ {| k_pc := KWaiting (List.length (runs s)); k_ver := kv |} Hk) as Hu.
    change (wk {| k_pc := KCalled; k_ver := kv |}) with 40 in Hu.
    change (wk {| k_pc := KWaiting (List.length (runs s)); k_ver := kv |}) with 1 in Hu.
    assert (Hn : sumf wr (runs s ++ [new_run s true]) = sumf wr (runs s) + 30).
    { rewrite sumf_app. reflexivity. }
    destruct (is_closed s (cur s)); unfold phi; cbn [rsts runs tasks]; rewrite Hn; lia. }
  destruct (not_all_returned s Hnr) as [k [y [Hk Hy]]].
  destruct y as [[|r|] kv]; simpl in Hy; try discriminate.
  { exfalso. assert (He : existsb (fun y => match k_pc y with KCalled => true | _ => false end) (rsts s) = true).
    { apply existsb_exists. eexists. split; [apply (nth_error_In _ _ Hk) | reflexivity]. }
    congruence. }
  destruct (E_wait s H3 _ _ _ Hk eq_refl) as [x [Hx Hrx]].
  (* 2. its Run has signalled: Restart returns *)
  destruct (r_ec x) as [ok|] eqn:Hec.
  { exists (ARestartReturn k). split; [exact I|]. unfold step. rewrite Hc, Hk, Hx, Hec.
    pose proof (sumf_upd wk (rsts s) k _ {| k_pc := KReturned r ok; k_ver := kv |} Hk) as Hu.
    change (wk {| k_pc := KWaiting r; k_ver := kv |}) with 1 in Hu.
    change (wk {| k_pc := KReturned r ok; k_ver := kv |}) with 0 in Hu.
    unfold phi; cbn [rsts runs tasks]. lia. }
  pose proof (E_ec s H3 _ _ Hx Hec) as Hps.
  (* a step of the Run that owns the lock, whoever it is *)
  assert (Howner : forall h z, lock s = Some h -> nth_error (runs s) h = Some z -> 0 < nq s \/ h = r ->
            exists a, internal a /\ phi (step Fixed s a) < phi s).
  { intros h z Hl Hz Hneed.
    pose proof (fun n => E_norep s H3 _ _ n Hz) as Hnorep.
    destruct (I_lock s HI _ Hl) as [z' [Hz' Hhz]]. rewrite Hz in Hz'. inversion Hz'; subst z'. clear Hz'.
    destruct (r_pc z) eqn:Hpc; try discriminate.
    - (* RLocked *)
      assert (Ez : wr z = 20) by (unfold wr; rewrite Hpc; reflexivity).
      exists (AReplace h). split; [exact I|]. unfold step. rewrite Hc, Hz. cbv zeta. rewrite Hpc.
      destruct (replace_chan Fixed s z) as [w cl]. run_case s h z Hz Ez 19. lia.
    - (* RLoad *)
      assert (Ez : wr z = 19) by (unfold wr; rewrite Hpc; reflexivity).
      exists (ALoad h (Some 0)). split; [exact I|]. unfold step. rewrite Hc, Hz, Hpc.
      run_case s h z Hz Ez 17. lia.
    - (* RSigOk *)
      assert (Ez : wr z = 17 + 3 * n) by (unfold wr; rewrite Hpc; reflexivity).
      exists (ASignal h). split; [exact I|]. unfold step. rewrite Hc, Hz, Hpc.
      run_case s h z Hz Ez (16 + 3 * n). lia.
    - (* RSigErr *)
      assert (Ez : wr z = 17) by (unfold wr; rewrite Hpc; reflexivity).
      exists (ASignal h). split; [exact I|]. unfold step. rewrite Hc, Hz, Hpc.
      run_case s h z Hz Ez 15. lia.
    - (* RReplace *) exfalso. apply (Hnorep n). reflexivity.
    - (* RSpawn *)
      assert (Ez : wr z = 16 + 3 * n) by (unfold wr; rewrite Hpc; reflexivity).
      exists (ASpawn h). split; [exact I|]. unfold step. rewrite Hc, Hz, Hpc.
      run_case s h z Hz Ez 15. rewrite sumf_app, sumf_repeat.
      change (wt {| g_gen := h; g_pc := TCheck |}) with 1. lia.
    - (* RWait *)
      assert (Ez : wr z = 15) by (unfold wr; rewrite Hpc; reflexivity).
      destruct Hneed as [Hq | Ehr]; [|subst h; rewrite Hx in Hz; inversion Hz; subst z; rewrite Hpc in Hps; discriminate].
      destruct (all_exited s h) eqn:Hall.
      + exists (AUnlock h). split; [exact I|]. unfold step. rewrite Hc, Hz, Hpc, Hall.
        run_case s h z Hz Ez 0. lia.
      + destruct (not_all_exited s h Hall) as [t [g [Ht [Hg Hlive]]]].
        destruct g as [gg gp]. simpl in Hg. subst gg. destruct gp; try discriminate.
        * (* at the select: the channel is closed, the task returns *)
          assert (Hcl : is_closed s (cur s) = true).
          { apply (HS h z Hl Hz); [rewrite Hpc; reflexivity | exact Hq]. }
          exists (ATaskCheck t). split; [exact I|]. unfold step. rewrite Hc, Ht, Hcl.
          pose proof (sumf_upd wt (tasks s) t _ {| g_gen := h; g_pc := TExit |} Ht) as Hu.
          change (wt {| g_gen := h; g_pc := TCheck |}) with 1 in Hu.
          change (wt {| g_gen := h; g_pc := TExit |}) with 0 in Hu.
          unfold phi; cbn [rsts runs tasks]. lia.
        * (* inside a step: it ends *)
          exists (ATaskStep t false). split; [exact I|]. unfold step. rewrite Hc, Ht.
          pose proof (sumf_upd wt (tasks s) t _ {| g_gen := h; g_pc := TCheck |} Ht) as Hu.
          change (wt {| g_gen := h; g_pc := TStep |}) with 2 in Hu.
          change (wt {| g_gen := h; g_pc := TCheck |}) with 1 in Hu.
          unfold phi; cbn [rsts runs tasks]. lia.
    - (* RErrRet *)
      assert (Ez : wr z = 15) by (unfold wr; rewrite Hpc; reflexivity).
      exists (AUnlock h). split; [exact I|]. unfold step. rewrite Hc, Hz, Hpc.
      run_case s h z Hz Ez 0. lia. }
  destruct (r_pc x) eqn:Hpc; try discriminate.
  - (* 3. its Run is queued *)
    assert (Hq : 0 < nq s) by (apply (queued_restarted_nq s r x Hx); [unfold queued; rewrite Hpc; reflexivity | exact Hrx]).
    destruct (lock s) as [h|] eqn:Hl.
    + destruct (I_lock s HI _ Hl) as [z [Hz _]]. apply (Howner h z eq_refl Hz). left. exact Hq.
    + assert (Ez : wr x = 30) by (unfold wr; rewrite Hpc, Hrx; reflexivity).
      exists (ALock r). split; [exact I|]. unfold step. rewrite Hc, Hl, Hx, Hpc.
      run_case s r x Hx Ez 20. lia.
  - (* 4. its Run owns the lock and is before its signal *)
    assert (Hl : lock s = Some r) by (apply (I_hold s HI _ _ Hx); rewrite Hpc; reflexivity).
    apply (Howner r x Hl Hx). right. reflexivity.
  - assert (Hl : lock s = Some r) by (apply (I_hold s HI _ _ Hx); rewrite Hpc; reflexivity).
    apply (Howner r x Hl Hx). right. reflexivity.
  - assert (Hl : lock s = Some r) by (apply (I_hold s HI _ _ Hx); rewrite Hpc; reflexivity).
    apply (Howner r x Hl Hx). right. reflexivity.
  - assert (Hl : lock s = Some r) by (apply (I_hold s HI _ _ Hx); rewrite Hpc; reflexivity).
    apply (Howner r x Hl Hx). right. reflexivity.
Qed.

(* From every reachable state of the repaired code there is a continuation
   without outside help after which every Restart call has returned. *)
Lemma restart_can_always_complete_l : forall sched,
  exists cont, Forall internal cont /\ all_returned (exec Fixed (exec Fixed init sched) cont) = true.
Proof.
  intro sched.
  assert (H : forall n s, Good s -> phi s <= n ->
            exists cont, Forall internal cont /\ all_returned (exec Fixed s cont) = true).
  { induction n as [|n IH]; intros s Hg Hn.
    - destruct (all_returned s) eqn:Ha; [exists []; split; [constructor | exact Ha]|].
      destruct (progress s Hg Ha) as [a [_ Hlt]]. lia.
    - destruct (all_returned s) eqn:Ha; [exists []; split; [constructor | exact Ha]|].
      destruct (progress s Hg Ha) as [a [Hi Hlt]].
      destruct (IH (step Fixed s a) (good_step s a Hg)) as [cont [Hc Hr]]; [lia|].
      exists (a :: cont). split; [constructor; assumption | exact Hr]. }
  apply (H (phi (exec Fixed init sched)) _ (good_exec sched init good_init)). lia.
Qed.
