(* C04: task isolation.  Every database operation Task.Converge issues is
   keyed by the task's own (source, integration) pair and every row / cursor it
   writes is stamped with it; keyed operations and the write sets they build
   leave every other pair's restriction of the committed database unchanged;
   lifted to arbitrary statement-level interleavings of several tasks. *)
From Coq Require Import List NArith Bool Lia.
From Shovel Require Import Model.TaskTypes Model.TaskDb Model.Task Model.TaskNode Model.TaskSys
  Model.TaskSpec Proofs.TaskDbP Proofs.TaskExecP.
Import ListNotations.
Open Scope N_scope.

(* an operation keyed / stamped by the pair of [c] *)
Definition keyed (c : tcfg) (o : io) : Prop :=
  match o with
  | QLatest s i | QPrev s i | DelCursors s i _ => s = t_src c /\ i = t_ig c
  | DelRows t s i _ => t = t_tbl c /\ s = t_src c /\ i = t_ig c
  | QLatestDep s deps => s = t_src c /\ deps = t_deps c
  | CopyRows t rs =>
      t = t_tbl c /\ Forall (fun r => r_tbl r = t_tbl c /\ r_src r = t_src c /\ r_ig r = t_ig c) rs
  | InsCursor x _ _ _ => c_src x = t_src c /\ c_ig x = t_ig c
  | QRef _ _ _ => False
  | _ => True
  end.

Fixpoint all_ops (P : io -> Prop) (p : prog) : Prop :=
  match p with
  | Ret _ => True
  | Op i k => P i /\ forall r, all_ops P (k r)
  end.

Section Keyed.
Variable v : variant.
Variable c : tcfg.
Notation K := (all_ops (keyed c)).

Lemma K_rb : forall o, K (rb o).
Proof. intros o. cbn. split; [exact I|]. intros _. exact I. Qed.

Lemma K_bad : forall r, K (bad_reply r).
Proof. intros r. unfold bad_reply. destruct r as [| | k | | | | | | |]; try apply K_rb. destruct k; apply K_rb. Qed.

Lemma rows_of_stamped : forall bs,
  Forall (fun r => r_tbl r = t_tbl c /\ r_src r = t_src c /\ r_ig r = t_ig c) (rows_of c bs).
Proof.
  intros bs. apply Forall_forall. intros r H. unfold rows_of in H. apply in_concat in H.
  destruct H as (rs & Hrs & Hr). apply in_map_iff in Hrs. destruct Hrs as (x & <- & _).
  unfold proj in Hr. apply in_map_iff in Hr. destruct Hr as (kv & <- & _). cbn. repeat split.
Qed.

Lemma K_insert_tx : forall bs tn th delta, K (insert_tx c bs tn th delta).
Proof.
  intros bs tn th delta. cbn. split; [exact I|]. intros r1. unfold tx1_commit.
  destruct (is_fail r1); [exact I|]. cbn. split; [exact I|]. intros r2. unfold tx2_begin.
  destruct (is_fail r2); [exact I|]. cbn. split; [split; [reflexivity|apply rows_of_stamped]|].
  intros r3. unfold tx2_copy. destruct (is_fail r3); [apply K_rb|]. cbn.
  split; [split; reflexivity|]. intros r4. unfold tx2_cursor.
  destruct (is_fail r4); [apply K_rb|]. cbn. split; [exact I|]. intros r5. unfold tx2_done.
  destruct (is_fail r5); exact I.
Qed.

Lemma K_del_rows : forall n again, K again -> K (del_rows c n again).
Proof.
  intros n again H. cbn. split; [repeat split|]. intros r. unfold del_rows_k.
  destruct (is_fail r); [apply K_rb|exact H].
Qed.

Lemma K_unwind : forall ln again, K again -> K (unwind v c ln again).
Proof.
  intros ln again H. cbn. split; [split; reflexivity|]. intros r. unfold unwind_k.
  destruct (is_fail r); [apply K_rb|]. destruct (v_unwind v).
  - cbn. split; [split; reflexivity|]. intros r'. unfold unwind_prev.
    destruct r' as [| | | | |o| | | |]; try apply K_rb.
    destruct o; apply K_del_rows; exact H.
  - apply K_del_rows. exact H.
Qed.

Lemma K_after_get : forall again ln lh tn th delta r, K again -> K (after_get v c again ln lh tn th delta r).
Proof.
  intros again ln lh tn th delta r H. unfold after_get.
  destruct r as [| | | | | | | | |segs]; try apply K_bad.
  destruct (load_check v lh segs); [apply K_insert_tx|apply K_unwind; exact H|apply K_rb|apply K_rb].
Qed.

Lemma K_after_target : forall again ln lh tn th, K again -> K (after_target v c again ln lh tn th).
Proof.
  intros again ln lh tn th H. unfold after_target.
  destruct (clip c tn <? ln); [apply K_rb|].
  destruct (ln =? clip c tn); [apply K_rb|].
  destruct (delta_of c ln (clip c tn) =? 0); [apply K_rb|].
  cbn. split; [exact I|]. intros r. apply K_after_get. exact H.
Qed.

Lemma K_after_dep : forall again ln lh gn gh r, K again -> K (after_dep v c again ln lh gn gh r).
Proof.
  intros again ln lh gn gh r H. unfold after_dep.
  destruct r as [| | | |o| | | | |]; try apply K_rb.
  destruct o as [[[dn dh] cnt]|]; [|apply K_rb].
  destruct (v_depall v && (cnt <? ndeps c)); [apply K_rb|].
  destruct (dn =? 0); [apply K_rb|].
  destruct (dn <? gn); apply K_after_target; exact H.
Qed.

Lemma K_after_head : forall again ln lh r, K again -> K (after_head v c again ln lh r).
Proof.
  intros again ln lh r H. unfold after_head.
  destruct r as [| | | | | | |gn gh| |]; try apply K_bad.
  destruct (t_deps c) eqn:Ed; [apply K_after_target; exact H|].
  cbn. split; [split; [reflexivity|symmetry; exact Ed]|]. intros r. apply K_after_dep. exact H.
Qed.

Lemma K_with_local : forall again ln lh, K again -> K (with_local v c again ln lh).
Proof.
  intros again ln lh H. unfold with_local.
  destruct ((0 <? t_stop c) && (t_stop c <=? ln)); [apply K_rb|].
  cbn. split; [exact I|]. intros r. apply K_after_head. exact H.
Qed.

Lemma K_position : forall again, K again -> K (position v c again).
Proof.
  intros again H. cbn. split; [split; reflexivity|]. intros r. unfold pos_query.
  destruct r as [| | |o| | | | | |]; try apply K_rb.
  destruct o as [[n h]|]; [apply K_with_local; exact H|].
  destruct (0 <? t_start c).
  - cbn. split; [exact I|]. intros r. unfold pos_hash.
    destruct r; try apply K_bad. apply K_with_local. exact H.
  - cbn. split; [exact I|]. intros r. unfold pos_head.
    destruct r; try apply K_bad. cbn. split; [exact I|]. intros r'. unfold pos_hash.
    destruct r'; try apply K_bad. apply K_with_local. exact H.
Qed.

Lemma K_reorg_loop : forall f, K (reorg_loop v f c).
Proof. induction f as [|f IH]; [apply K_rb|]. cbn [reorg_loop]. apply K_position. exact IH. Qed.

Lemma K_converge : K (converge_v v c).
Proof.
  cbn. split; [exact I|]. intros r. unfold begun. destruct (is_fail r); [exact I|]. apply K_reorg_loop.
Qed.
End Keyed.

(* ---------- keyed operations and own write sets ---------- *)
Definition cs_own (c : tcfg) (cs : cstate) : Prop :=
  match cs with Some ws => Forall (own_wop c) ws | None => True end.

Lemma row_of_stamped : forall c r, r_src r = t_src c -> r_ig r = t_ig c -> row_of (t_src c) (t_ig c) r = true.
Proof. intros c r A B. unfold row_of. rewrite A, B, !N.eqb_refl. reflexivity. Qed.

Lemma do_write_own : forall c d cs w d' cs',
  own_wop c w -> cs_own c cs -> do_write d cs w = (d', cs') ->
  outside c d' = outside c d /\ cs_own c cs'.
Proof.
  intros c d cs w d' cs' Hw Hcs E. unfold do_write in E. destruct cs as [ws|]; inversion E; subst.
  - split; [reflexivity|]. apply Forall_app. split; [exact Hcs|constructor; [exact Hw|constructor]].
  - split; [apply outside_apply_own; exact Hw|exact I].
Qed.

(* what a keyed database op does to the outside of the pair and to the write set *)
Lemma db_step_frame : forall u c d cs o,
  keyed c o -> cs_own c cs ->
  outside c (fst (fst (db_step u d cs o))) = outside c d /\ cs_own c (snd (fst (db_step u d cs o))).
Proof.
  intros u c d cs o Hk Hcs. destruct o; cbn [db_step]; cbn [fst snd];
    try (split; [reflexivity|exact Hcs]).
  - (* Begin *) split; [reflexivity|]. destruct cs; [exact Hcs|constructor].
  - (* Commit *) split; [|exact I]. destruct cs as [ws|]; [|reflexivity]. cbn [vis].
    apply outside_apply_ws_own. exact Hcs.
  - (* Rollback *) split; [reflexivity|exact I].
  - (* DelCursors *) destruct Hk as [-> ->].
    destruct (do_write d cs (WDelCur (t_src c) (t_ig c) n)) as [d' cs'] eqn:E. cbn [fst snd].
    eapply do_write_own; [|exact Hcs|exact E]. cbn. split; reflexivity.
  - (* DelRows *) destruct Hk as (-> & -> & ->).
    destruct (do_write d cs (WDelRows (t_tbl c) (t_src c) (t_ig c) n)) as [d' cs'] eqn:E. cbn [fst snd].
    eapply do_write_own; [|exact Hcs|exact E]. cbn. split; reflexivity.
  - (* CopyRows *) destruct Hk as [-> Hr]. destruct (u && copy_collides _ _); cbn [fst snd].
    + split; [reflexivity|exact Hcs].
    + destruct (do_write d cs (WCopy rows)) as [d' cs'] eqn:E. cbn [fst snd].
      eapply do_write_own; [|exact Hcs|exact E]. cbn.
      eapply Forall_impl; [|exact Hr]. cbn. intros r (_ & A & B). apply row_of_stamped; assumption.
  - (* InsCursor *) destruct Hk as [A B]. destruct (cur_collides _ _); cbn [fst snd].
    + split; [reflexivity|exact Hcs].
    + destruct (do_write d cs (WInsCur c0)) as [d' cs'] eqn:E. cbn [fst snd].
      eapply do_write_own; [|exact Hcs|exact E]. cbn. unfold cur_of. rewrite A, B, !N.eqb_refl. reflexivity.
Qed.

Lemma step_op_frame : forall u c d cs o a,
  keyed c o -> cs_own c cs ->
  outside c (fst (fst (step_op u d cs o a))) = outside c d /\ cs_own c (snd (fst (step_op u d cs o a))).
Proof.
  intros u c d cs o a Hk Hcs. unfold step_op. destruct (is_db_op o) eqn:Hdb.
  - pose proof (db_step_frame u c d cs o Hk Hcs) as [A B].
    destruct (forced_dep o a) as [fr|] eqn:Ef; [cbn [fst snd]; split; [reflexivity|exact Hcs]|].
    destruct a as [|r|]; try (split; assumption).
    destruct r as [| |k| | | | | | |]; try (split; assumption).
    unfold fault. destruct k.
    + destruct o; cbn [fst snd]; split; try reflexivity; try exact Hcs; exact I.
    + cbn [fst snd]. split; [reflexivity|exact I].
    + destruct (db_step u d cs o) as [[d' cs'] r']. cbn [fst snd] in *. split; [exact A|exact I].
    + destruct o; cbn [fst snd]; split; try reflexivity; try exact Hcs; exact I.
    + destruct o; cbn [fst snd]; split; try reflexivity; try exact Hcs; exact I.
  - destruct a; cbn [fst snd]; split; try reflexivity; exact Hcs.
Qed.

(* ---------- one task: every op of the step is keyed; nothing outside its
   pair ever changes, whatever the script ---------- *)
Lemma exec_frame : forall u c s p d cs,
  all_ops (keyed c) p -> cs_own c cs ->
  Forall (fun e => outside c (snd e) = outside c d) (r_trace (exec u p s d cs))
  /\ outside c (r_db (exec u p s d cs)) = outside c d
  /\ Forall (fun e => keyed c (fst (fst e))) (r_trace (exec u p s d cs)).
Proof.
  intros u c s. induction s as [|a s IH]; intros p d cs Hk Hcs.
  - destruct p; cbn; repeat split; constructor.
  - destruct p as [o|i k]; [cbn; repeat split; constructor|].
    destruct Hk as [Hi Hk].
    destruct (match a with ACrash => true | _ => false end) eqn:Ea.
    + destruct a; try discriminate. cbn. repeat split; constructor.
    + assert (Hna : a <> ACrash) by (destruct a; congruence).
      rewrite exec_op by exact Hna. cbn zeta. cbn [r_trace r_db].
      pose proof (step_op_frame u c d cs i a Hi Hcs) as [A B].
      destruct (IH (k (snd (step_op u d cs i a))) (fst (fst (step_op u d cs i a)))
                   (snd (fst (step_op u d cs i a))) (Hk _) B) as (T & F & K).
      split; [|split].
      * constructor; [exact A|]. eapply Forall_impl; [|exact T]. cbn. intros e He. rewrite He. exact A.
      * rewrite F. exact A.
      * constructor; [exact Hi|exact K].
Qed.

Lemma converge_frame_lemma : forall v c s d s' i',
  (t_src c, t_ig c) <> (s', i') ->
  Forall (fun e => restrict s' i' (snd e) = restrict s' i' d) (r_trace (step_v v c s d))
  /\ restrict s' i' (r_db (step_v v c s d)) = restrict s' i' d
  /\ Forall (fun e => keyed c (fst (fst e))) (r_trace (step_v v c s d)).
Proof.
  intros v c s d s' i' Hne. unfold step_v.
  destruct (exec_frame (t_uniq c) c s (converge_v v c) d None (K_converge v c) I) as (T & F & K).
  split; [|split; [|exact K]].
  - eapply Forall_impl; [|exact T]. cbn. intros e He.
    rewrite <- (restrict_outside c s' i' (snd e) Hne), He. apply restrict_outside. exact Hne.
  - rewrite <- (restrict_outside c s' i' _ Hne), F. apply restrict_outside. exact Hne.
Qed.

(* ---------- several tasks, any interleaving ---------- *)
Definition ts_ok (t : tstate) : Prop :=
  cs_own (ts_cfg t) (ts_cs t)
  /\ match ts_prog t with Some p => all_ops (keyed (ts_cfg t)) p | None => True end.
Definition sys_ok (s : sys) : Prop := Forall ts_ok (s_tasks s).

Lemma task_move_ok : forall d a t, a <> ACrash -> ts_ok t ->
  ts_ok (snd (task_move d a t))
  /\ ts_cfg (snd (task_move d a t)) = ts_cfg t
  /\ outside (ts_cfg t) (fst (task_move d a t)) = outside (ts_cfg t) d.
Proof.
  intros d a t Ha [Hcs Hp]. unfold task_move. destruct (ts_prog t) as [[o|i k]|].
  - cbn. split; [split; [exact Hcs|exact I]|split; reflexivity].
  - destruct Hp as [Hi Hk].
    pose proof (step_op_frame (t_uniq (ts_cfg t)) (ts_cfg t) d (ts_cs t) i a Hi Hcs) as [A B].
    destruct (step_op (t_uniq (ts_cfg t)) d (ts_cs t) i a) as [[d' cs'] r]. cbn [fst snd] in *.
    split; [split; [exact B|apply Hk]|split; [reflexivity|exact A]].
  - cbn. split; [split; [exact Hcs|apply K_converge]|split; reflexivity].
Qed.

Lemma move_task_ok : forall tid a ts d, a <> ACrash -> Forall ts_ok ts ->
  Forall ts_ok (snd (move_task tid a d ts))
  /\ map ts_cfg (snd (move_task tid a d ts)) = map ts_cfg ts
  /\ forall s i, (forall t, In t ts -> t_id (ts_cfg t) = tid -> (t_src (ts_cfg t), t_ig (ts_cfg t)) <> (s, i)) ->
                 restrict s i (fst (move_task tid a d ts)) = restrict s i d.
Proof.
  intros tid a ts. induction ts as [|t ts IH]; intros d Ha Hok.
  - cbn. split; [constructor|split; [reflexivity|reflexivity]].
  - inversion Hok as [|? ? Ht Hts]; subst. cbn [move_task].
    destruct (N.eqb_spec (t_id (ts_cfg t)) tid) as [E|E].
    + destruct (task_move_ok d a t Ha Ht) as (A & B & C).
      destruct (task_move d a t) as [d' t']. cbn [fst snd] in *.
      split; [constructor; assumption|]. split; [cbn; rewrite B; reflexivity|].
      intros s i Hne. rewrite <- (restrict_outside (ts_cfg t) s i d'), C.
      * apply restrict_outside. apply Hne; [left; reflexivity|exact E].
      * apply Hne; [left; reflexivity|exact E].
    + destruct (IH d Ha Hts) as (A & B & C).
      destruct (move_task tid a d ts) as [d' r']. cbn [fst snd] in *.
      split; [constructor; assumption|]. split; [cbn; rewrite B; reflexivity|].
      intros s i Hne. apply C. intros t0 Hin. apply Hne. right. exact Hin.
Qed.

Lemma sys_step_ok : forall st m, sys_ok st ->
  sys_ok (sys_step st m)
  /\ map ts_cfg (s_tasks (sys_step st m)) = map ts_cfg (s_tasks st)
  /\ forall s i, (forall t, In t (s_tasks st) -> t_id (ts_cfg t) = fst m ->
                            (t_src (ts_cfg t), t_ig (ts_cfg t)) <> (s, i)) ->
                 restrict s i (s_db (sys_step st m)) = restrict s i (s_db st).
Proof.
  intros st [tid a] Hok. unfold sys_step. cbn [fst snd].
  destruct (match a with ACrash => true | _ => false end) eqn:Ea.
  - destruct a; try discriminate. cbn [s_db s_tasks]. split; [|split].
    + unfold sys_ok, crash_all. cbn [s_tasks]. apply Forall_forall. intros t Ht.
      apply in_map_iff in Ht. destruct Ht as (t0 & <- & _). split; exact I.
    + unfold crash_all. rewrite map_map. reflexivity.
    + reflexivity.
  - assert (Hna : a <> ACrash) by (destruct a; congruence).
    destruct (move_task_ok tid a (s_tasks st) (s_db st) Hna Hok) as (A & B & C).
    assert (E : sys_step st (tid, a)
                = Sys (fst (move_task tid a (s_db st) (s_tasks st))) (snd (move_task tid a (s_db st) (s_tasks st)))).
    { unfold sys_step. cbn [fst snd]. destruct a; try discriminate;
        destruct (move_task tid _ (s_db st) (s_tasks st)); reflexivity. }
    change (match a with ACrash => _ | _ => _ end) with (sys_step st (tid, a)).
    rewrite E. cbn [s_db s_tasks]. split; [exact A|split; [exact B|exact C]].
Qed.

Lemma sys_init_ok : forall cfgs d, sys_ok (sys_init cfgs d).
Proof.
  intros cfgs d. unfold sys_ok, sys_init. cbn [s_tasks]. apply Forall_forall. intros t Ht.
  apply in_map_iff in Ht. destruct Ht as (c & <- & _). split; exact I.
Qed.

Lemma sys_run_ok : forall sch st, sys_ok st ->
  sys_ok (sys_run sch st) /\ map ts_cfg (s_tasks (sys_run sch st)) = map ts_cfg (s_tasks st).
Proof.
  induction sch as [|m sch IH]; intros st Hok; [split; [exact Hok|reflexivity]|].
  unfold sys_run in *. cbn [fold_left].
  destruct (sys_step_ok st m Hok) as (A & B & _).
  destruct (IH _ A) as [C D]. split; [exact C|]. rewrite D. exact B.
Qed.

(* any schedule prefix, then one more move of task [tid]: every pair that is
   not the pair of (a task named) [tid] keeps its restriction *)
Lemma system_frame_lemma : forall cfgs d sch m s i,
  (forall c, In c cfgs -> t_id c = fst m -> (t_src c, t_ig c) <> (s, i)) ->
  restrict s i (s_db (sys_step (sys_run sch (sys_init cfgs d)) m))
  = restrict s i (s_db (sys_run sch (sys_init cfgs d))).
Proof.
  intros cfgs d sch m s i Hne.
  destruct (sys_run_ok sch _ (sys_init_ok cfgs d)) as [Hok Hcfg].
  destruct (sys_step_ok _ m Hok) as (_ & _ & C). apply C.
  intros t Hin Hid. apply Hne; [|exact Hid].
  apply (in_map ts_cfg) in Hin. rewrite Hcfg in Hin. unfold sys_init in Hin. cbn [s_tasks] in Hin.
  rewrite map_map in Hin. cbn in Hin. rewrite map_id in Hin. exact Hin.
Qed.

Lemma two_pairs_differ_lemma :
  (t_src (Task 1 1 2 3 1 0 1 1 [] true true), t_ig (Task 1 1 2 3 1 0 1 1 [] true true)) <> (1, 4).
Proof. cbn. intros H. inversion H. Qed.

(* no move of ANOTHER task can break a task's invariant: TaskInv of [c] only
   looks at the restriction to c's pair, which such a move leaves unchanged *)
Lemma other_moves_keep_inv : forall cfgs d sch m c,
  (forall c', In c' cfgs -> t_id c' = fst m -> (t_src c', t_ig c') <> (t_src c, t_ig c)) ->
  TaskInv c (s_db (sys_run sch (sys_init cfgs d))) ->
  TaskInv c (s_db (sys_step (sys_run sch (sys_init cfgs d)) m)).
Proof.
  intros cfgs d sch m c Hne (g & Hpv & Hw). exists g. split; [|exact Hw].
  unfold pv in *. rewrite (system_frame_lemma cfgs d sch m (t_src c) (t_ig c) Hne). exact Hpv.
Qed.
