(* Proofs about part (ii) of Model/Manager.v, continued: crashes, restart
   completion (what has been reloaded / stopped when Restart returns), and the
   "restart signal is never lost" invariant of the repaired code (C20). *)
From Coq Require Import List Arith PeanoNat NArith Bool Lia.
From Shovel Require Import Base.Outcome Model.Manager Proofs.ManagerRunP.
Import ListNotations.

(* ---------------------------------------------------------------- crashes *)

Lemma fixed_step_no_crash : forall s a, crashed s = false -> crashed (step Fixed s a) = false.
Proof.
  intros s a Hc. unfold step. rewrite Hc.
  destruct a as [| |k|k|r|r|r res|r|r|r|t|t dn]; simpl; try reflexivity.
  - destruct (nth_error (rsts s) k) as [[[| |] kv]|]; try exact Hc.
    destruct (is_closed s (cur s)); reflexivity.
  - destruct (nth_error (rsts s) k) as [[[|r|] kv]|]; try exact Hc.
    destruct (nth_error (runs s) r) as [x|]; try exact Hc. destruct (r_ec x); [reflexivity | exact Hc].
  - destruct (lock s); [exact Hc|]. destruct (nth_error (runs s) r) as [x|]; [|exact Hc].
    destruct (r_pc x); try exact Hc. reflexivity.
  - destruct (nth_error (runs s) r) as [x|]; [|exact Hc].
    destruct (r_pc x); try exact Hc. destruct (replace_chan Fixed s x). reflexivity.
  - destruct (nth_error (runs s) r) as [x|]; [|exact Hc]. destruct (r_pc x); try exact Hc. reflexivity.
  - destruct (nth_error (runs s) r) as [x|]; [|exact Hc]. destruct (r_pc x); try exact Hc; reflexivity.
  - destruct (nth_error (runs s) r) as [x|]; [|exact Hc]. destruct (r_pc x); try exact Hc. reflexivity.
  - destruct (nth_error (runs s) r) as [x|]; [|exact Hc]. destruct (r_pc x); try exact Hc; try reflexivity.
    destruct (all_exited s r); [reflexivity | exact Hc].
  - destruct (nth_error (tasks s) t) as [[g [| |]]|]; try exact Hc. reflexivity.
  - destruct (nth_error (tasks s) t) as [[g [| |]]|]; try exact Hc. reflexivity.
Qed.

(* the repaired manager never panics, whatever the schedule: any number of
   Restart calls at any moments, loads that fail, tasks that stop by themselves *)
Lemma restart_never_crashes_l : forall sched, crashed (exec Fixed init sched) = false.
Proof.
  intro sched. assert (H : forall s, crashed s = false -> crashed (exec Fixed s sched) = false).
  { induction sched as [|a sched IH]; intros s Hc; simpl; [exact Hc|]. apply IH. apply fixed_step_no_crash. exact Hc. }
  apply H. reflexivity.
Qed.

(* the code as found panics only in Restart, and only by closing a channel
   that an earlier Restart closed and no Run has replaced yet *)
Lemma legacy_crash_only_by_double_close : forall s a,
  crashed s = false -> crashed (step Legacy s a) = true ->
  exists k kv, a = ARestartClose k /\ nth_error (rsts s) k = Some {| k_pc := KCalled; k_ver := kv |}
               /\ is_closed s (cur s) = true.
Proof.
  intros s a Hc H. unfold step in H. rewrite Hc in H.
  destruct a as [| |k|k|r|r|r res|r|r|r|t|t dn]; simpl in H; try congruence.
  - destruct (nth_error (rsts s) k) as [[[| |] kv]|] eqn:Hk; try congruence.
    destruct (is_closed s (cur s)) eqn:Hcl; simpl in H; [|discriminate].
    exists k, kv. repeat split; assumption.
  - destruct (nth_error (rsts s) k) as [[[|r|] kv]|]; try congruence.
    destruct (nth_error (runs s) r) as [x|]; try congruence. destruct (r_ec x); simpl in H; congruence.
  - destruct (lock s); [congruence|]. destruct (nth_error (runs s) r) as [x|]; [|congruence].
    destruct (r_pc x); simpl in H; congruence.
  - destruct (nth_error (runs s) r) as [x|]; [|congruence].
    destruct (r_pc x); try congruence. simpl in H. discriminate.
  - destruct (nth_error (runs s) r) as [x|]; [|congruence]. destruct (r_pc x); simpl in H; congruence.
  - destruct (nth_error (runs s) r) as [x|]; [|congruence]. destruct (r_pc x); simpl in H; congruence.
  - destruct (nth_error (runs s) r) as [x|]; [|congruence]. destruct (r_pc x); simpl in H; congruence.
  - destruct (nth_error (runs s) r) as [x|]; [|congruence]. destruct (r_pc x); simpl in H; try congruence.
    destruct (all_exited s r); simpl in H; congruence.
  - destruct (nth_error (tasks s) t) as [[g [| |]]|]; simpl in H; congruence.
  - destruct (nth_error (tasks s) t) as [[g [| |]]|]; simpl in H; congruence.
Qed.

(* witness 1: a second Restart arrives while the Run started by the first one
   still waits for the lock (a task of the old generation is inside a step) *)
Definition sched_two_restarts : list action :=
  [ALock 0; ALoad 0 (Some 1); ASignal 0; AReplace 0; ASpawn 0; ATaskCheck 0;
   ACallRestart; ARestartClose 0; ACallRestart; ARestartClose 1].
(* witness 2, strictly sequential calls: the first Restart fails to load (e.g.
   an integration referencing an unknown source was stored), returns its
   error; the next Restart panics *)
Definition sched_restart_after_failed_restart : list action :=
  [ALock 0; ALoad 0 (Some 1); ASignal 0; AReplace 0; ASpawn 0;
   ACallRestart; ARestartClose 0; ATaskCheck 0; AUnlock 0;
   ALock 1; ALoad 1 None; ASignal 1; ARestartReturn 0; AUnlock 1;
   ACallRestart; ARestartClose 1].
(* witness 3: a Restart arrives while the first Run is still loading: its
   close is overwritten, the Run it started waits for the lock behind a
   generation that nobody will stop *)
Definition sched_restart_during_first_load : list action :=
  [ALock 0; ALoad 0 (Some 1); ACallRestart; ARestartClose 0; ASignal 0; AReplace 0; ASpawn 0].

Definition legacy_witnesses_b : bool :=
  crashed (exec Legacy init sched_two_restarts)
  && crashed (exec Legacy init sched_restart_after_failed_restart)
  && negb (signal_kept Legacy (exec Legacy init sched_restart_during_first_load)).

Lemma legacy_restart_never_crashes_refuted_l :
  ~ (forall sched, crashed (exec Legacy init sched) = false).
Proof. intro H. specialize (H sched_two_restarts). vm_compute in H. discriminate. Qed.

Lemma legacy_sequential_restart_crashes_l :
  crashed (exec Legacy init sched_restart_after_failed_restart) = true.
Proof. vm_compute. reflexivity. Qed.

Lemma legacy_signal_lost_l :
  ~ (forall sched, signal_kept Legacy (exec Legacy init sched) = true).
Proof. intro H. specialize (H sched_restart_during_first_load). vm_compute in H. discriminate. Qed.

(* ---------------------------------------------------------------- versions, previous generation stopped *)

Definition loaded (p : rpc) : bool :=
  match p with RSigOk _ | RSigErr | RReplace _ | RSpawn _ | RWait | RErrRet => true | _ => false end.
Definition pre_signal (p : rpc) : bool :=
  match p with RWaitLock | RLocked | RLoad | RSigOk _ | RSigErr => true | _ => false end.

Definition rst_run (x : rst) : option nat :=
  match k_pc x with KCalled => None | KWaiting r => Some r | KReturned r _ => Some r end.

Record Inv2 (s : state) : Prop := {
  V_lv : lv s <= ver s;
  V_run : forall r x, nth_error (runs s) r = Some x ->
          r_born x <= ver s /\ r_nt x <= List.length (tasks s)
          /\ (forall w, r_lver x = Some w -> r_born x <= w /\ w <= lv s);
  V_cur : forall r x, nth_error (runs s) r = Some x -> loaded (r_pc x) = true -> r_lver x = Some (lv s);
  V_noec : forall r x, nth_error (runs s) r = Some x -> pre_signal (r_pc x) = true -> r_ec x = None;
  V_ec : forall r x, nth_error (runs s) r = Some x -> r_ec x <> None -> exists w, r_lver x = Some w;
  V_kver : forall k y, nth_error (rsts s) k = Some y -> k_ver y <= ver s;
  V_rst : forall k y r, nth_error (rsts s) k = Some y -> rst_run y = Some r ->
          exists x, nth_error (runs s) r = Some x /\ k_ver y <= r_born x;
  V_ret : forall k r ok kv, nth_error (rsts s) k = Some {| k_pc := KReturned r ok; k_ver := kv |} ->
          exists x, nth_error (runs s) r = Some x /\ r_ec x = Some ok;
  (* tasks started before a Run was created are all finished once that Run owns (or owned) the lock *)
  V_prev : forall r x, nth_error (runs s) r = Some x -> r_pc x <> RWaitLock ->
           forall t g, t < r_nt x -> nth_error (tasks s) t = Some g -> live g = false
}.

Lemma inv2_init : Inv2 init.
Proof.
  constructor; simpl; try lia.
  - intros [|r] x H; [inversion H; subst; simpl; split; [lia | split; [lia | intros; discriminate]] | destruct r; discriminate].
  - intros [|r] x H Hl; [inversion H; subst; discriminate | destruct r; discriminate].
  - intros [|r] x H Hl; [inversion H; subst; reflexivity | destruct r; discriminate].
  - intros [|r] x H He; [inversion H; subst; simpl in He; congruence | destruct r; discriminate].
  - intros [|k] y H; discriminate.
  - intros [|k] y r H; discriminate.
  - intros [|k] r ok kv H; discriminate.
  - intros [|r] x H Hp; [inversion H; subst; simpl in Hp; congruence | destruct r; discriminate].
Qed.

(* Run r moves from x to x' keeping its ghost fields; tasks may be appended *)
Lemma inv2_move : forall s s' r x x' extra,
  Inv2 s -> nth_error (runs s) r = Some x ->
  runs s' = upd (runs s) r x' -> rsts s' = rsts s -> ver s' = ver s -> lv s' = lv s ->
  tasks s' = tasks s ++ extra ->
  r_born x' = r_born x -> r_lver x' = r_lver x -> r_nt x' = r_nt x -> r_ec x' = r_ec x ->
  (loaded (r_pc x') = true -> loaded (r_pc x) = true) ->
  (pre_signal (r_pc x') = true -> pre_signal (r_pc x) = true) ->
  (r_pc x = RWaitLock -> forall t g, nth_error (tasks s) t = Some g -> live g = false) ->
  Inv2 s'.
Proof.
  intros s s' r x x' extra [Hlv Hrun Hcur Hnoec Hec Hkver Hrst Hret Hprev] Hx Er Ek Ev El Et Eb Elv Ent Eec Hld Hps Hwl.
  constructor; rewrite ?Er, ?Ek, ?Ev, ?El, ?Et; try assumption.
  - intros r0 x0 H0. apply nth_upd_cases in H0. destruct H0 as [[_ E] | [N H0]].
    + subst x0. rewrite Eb, Elv, Ent. destruct (Hrun _ _ Hx) as [A [B C]].
      split; [exact A | split; [rewrite app_length; lia | exact C]].
    + destruct (Hrun _ _ H0) as [A [B C]]. split; [exact A | split; [rewrite app_length; lia | exact C]].
  - intros r0 x0 H0 Hl0. apply nth_upd_cases in H0. destruct H0 as [[_ E] | [N H0]].
    + subst x0. rewrite Elv. apply (Hcur _ _ Hx). apply Hld. exact Hl0.
    + apply (Hcur _ _ H0 Hl0).
  - intros r0 x0 H0 Hp0. apply nth_upd_cases in H0. destruct H0 as [[_ E] | [N H0]].
    + subst x0. rewrite Eec. apply (Hnoec _ _ Hx). apply Hps. exact Hp0.
    + apply (Hnoec _ _ H0 Hp0).
  - intros r0 x0 H0 He0. apply nth_upd_cases in H0. destruct H0 as [[_ E] | [N H0]].
    + subst x0. rewrite Elv. rewrite Eec in He0. apply (Hec _ _ Hx He0).
    + apply (Hec _ _ H0 He0).
  - intros k y r0 Hy Hr0. destruct (Hrst _ _ _ Hy Hr0) as [x0 [H0 Hb]].
    destruct (Nat.eq_dec r0 r) as [E | N].
    + subst r0. rewrite Hx in H0. inversion H0; subst x0. exists x'. split; [apply (nth_upd_eq _ _ _ _ Hx) | rewrite Eb; exact Hb].
    + exists x0. split; [rewrite nth_upd_neq by congruence; exact H0 | exact Hb].
  - intros k r0 ok kv Hy. destruct (Hret _ _ _ _ Hy) as [x0 [H0 He0]].
    destruct (Nat.eq_dec r0 r) as [E | N].
    + subst r0. rewrite Hx in H0. inversion H0; subst x0. exists x'. split; [apply (nth_upd_eq _ _ _ _ Hx) | rewrite Eec; exact He0].
    + exists x0. split; [rewrite nth_upd_neq by congruence; exact H0 | exact He0].
  - intros r0 x0 H0 Hp0 t g Ht Hg.
    assert (Hold : forall y, nth_error (runs s) r0 = Some y -> r_nt y = r_nt x0 ->
                     (r_pc y <> RWaitLock \/ (r0 = r /\ y = x)) -> live g = false).
    { intros y Hy Hnt Hcase. destruct (Hrun _ _ Hy) as [_ [B _]].
      assert (Hg' : nth_error (tasks s) t = Some g).
      { rewrite nth_error_app1 in Hg by lia. exact Hg. }
      destruct Hcase as [Hpy | [E1 E2]].
      - apply (Hprev _ _ Hy Hpy t g); [lia | exact Hg'].
      - subst y.
        assert (Hdec : r_pc x = RWaitLock \/ r_pc x <> RWaitLock)
          by (destruct (r_pc x); try (right; discriminate); left; reflexivity).
        destruct Hdec as [Hw | Hnw].
        + apply (Hwl Hw _ _ Hg').
        + apply (Hprev _ _ Hy Hnw t g); [lia | exact Hg']. }
    apply nth_upd_cases in H0. destruct H0 as [[E1 E2] | [N H0]].
    + subst r0 x0. apply (Hold x Hx); [symmetry; exact Ent | right; split; reflexivity].
    + apply (Hold x0 H0 eq_refl). left. exact Hp0.
Qed.

Lemma no_live_when_unlocked : forall s, Inv s -> lock s = None ->
  forall t g, nth_error (tasks s) t = Some g -> live g = false.
Proof.
  intros s [H1 H2 H3] Hl t g Hg. destruct (live g) eqn:E; [|reflexivity]. exfalso.
  destruct (H3 _ _ Hg) as [y [Hy [_ Hw]]]. specialize (Hw E).
  assert (lock s = Some (g_gen g)) by (apply (H1 _ _ Hy); rewrite Hw; reflexivity). congruence.
Qed.

Lemma inv2_step : forall v s a, Inv s -> Inv2 s -> Inv2 (step v s a).
Proof.
  intros v s a HI H2. unfold step. destruct (crashed s); [exact H2|].
  destruct a as [| |k|k|r|r|r res|r|r|r|t|t dn].
  - (* AStore *)
    destruct H2 as [Hlv Hrun Hcur Hnoec Hec Hkver Hrst Hret Hprev].
    constructor; simpl; try assumption; try lia.
    + intros r x Hx. destruct (Hrun _ _ Hx) as [A [B C]]. split; [lia | split; [exact B | exact C]].
    + intros k y Hy. specialize (Hkver _ _ Hy). lia.
  - (* ACallRestart *)
    destruct H2 as [Hlv Hrun Hcur Hnoec Hec Hkver Hrst Hret Hprev].
    constructor; simpl; try assumption.
    + intros k y Hy. apply nth_snoc_cases in Hy. destruct Hy as [Hy | [_ E]]; [apply (Hkver _ _ Hy)|]. subst y. simpl. lia.
    + intros k y r Hy Hr. apply nth_snoc_cases in Hy. destruct Hy as [Hy | [_ E]]; [apply (Hrst _ _ _ Hy Hr)|].
      subst y. discriminate.
    + intros k r ok kv Hy. apply nth_snoc_cases in Hy. destruct Hy as [Hy | [_ E]]; [apply (Hret _ _ _ _ Hy)|]. discriminate.
  - (* ARestartClose *)
    destruct (nth_error (rsts s) k) as [[[| |] kv]|] eqn:Hk; try exact H2.
    destruct H2 as [Hlv Hrun Hcur Hnoec Hec Hkver Hrst Hret Hprev].
    assert (Hgrow : forall s', ver s' = ver s -> lv s' = lv s -> tasks s' = tasks s ->
              runs s' = runs s ++ [new_run s true] ->
              rsts s' = upd (rsts s) k {| k_pc := KWaiting (List.length (runs s)); k_ver := kv |} -> Inv2 s').
    { intros s' Ev El Et Er Ek. constructor; rewrite ?Ev, ?El, ?Et, ?Er, ?Ek; try assumption.
      - intros r x Hx. apply nth_snoc_cases in Hx. destruct Hx as [Hx | [_ E]]; [apply (Hrun _ _ Hx)|].
        subst x. simpl. split; [lia | split; [lia | intros; discriminate]].
      - intros r x Hx Hl. apply nth_snoc_cases in Hx. destruct Hx as [Hx | [_ E]]; [apply (Hcur _ _ Hx Hl)|]. subst x. discriminate.
      - intros r x Hx Hl. apply nth_snoc_cases in Hx. destruct Hx as [Hx | [_ E]]; [apply (Hnoec _ _ Hx Hl)|]. subst x. reflexivity.
      - intros r x Hx He. apply nth_snoc_cases in Hx. destruct Hx as [Hx | [_ E]]; [apply (Hec _ _ Hx He)|]. subst x. simpl in He. congruence.
      - intros k0 y Hy. apply nth_upd_cases in Hy. destruct Hy as [[_ E] | [N Hy]]; [|apply (Hkver _ _ Hy)].
        subst y. simpl. apply (Hkver _ _ Hk).
      - intros k0 y r Hy Hr. apply nth_upd_cases in Hy. destruct Hy as [[_ E] | [N Hy]].
        + subst y. simpl in Hr. inversion Hr; subst r. exists (new_run s true). split.
          * rewrite nth_error_app2 by lia. rewrite Nat.sub_diag. reflexivity.
          * simpl. apply (Hkver _ _ Hk).
        + destruct (Hrst _ _ _ Hy Hr) as [x [Hx Hb]]. exists x. split; [apply nth_snoc_old; exact Hx | exact Hb].
      - intros k0 r ok kv0 Hy. apply nth_upd_cases in Hy. destruct Hy as [[_ E] | [N Hy]]; [discriminate|].
        destruct (Hret _ _ _ _ Hy) as [x [Hx He]]. exists x. split; [apply nth_snoc_old; exact Hx | exact He].
      - intros r x Hx Hp. apply nth_snoc_cases in Hx. destruct Hx as [Hx | [_ E]]; [apply (Hprev _ _ Hx Hp)|].
        subst x. simpl in Hp. congruence. }
    destruct v; destruct (is_closed s (cur s)); try (apply Hgrow; reflexivity).
    constructor; assumption.
  - (* ARestartReturn *)
    destruct (nth_error (rsts s) k) as [[[|r|] kv]|] eqn:Hk; try exact H2.
    destruct (nth_error (runs s) r) as [x|] eqn:Hx; try exact H2.
    destruct (r_ec x) as [ok|] eqn:He; try exact H2.
    destruct H2 as [Hlv Hrun Hcur Hnoec Hec Hkver Hrst Hret Hprev].
    constructor; simpl; try assumption.
    + intros k0 y Hy. apply nth_upd_cases in Hy. destruct Hy as [[_ E] | [N Hy]]; [|apply (Hkver _ _ Hy)].
      subst y. simpl. apply (Hkver _ _ Hk).
    + intros k0 y r0 Hy Hr0. apply nth_upd_cases in Hy. destruct Hy as [[_ E] | [N Hy]]; [|apply (Hrst _ _ _ Hy Hr0)].
      subst y. simpl in Hr0. inversion Hr0; subst r0. apply (Hrst _ _ _ Hk). reflexivity.
    + intros k0 r0 ok0 kv0 Hy. apply nth_upd_cases in Hy. destruct Hy as [[_ E] | [N Hy]]; [|apply (Hret _ _ _ _ Hy)].
      inversion E; subst. exists x. split; assumption.
  - (* ALock *)
    destruct (lock s) eqn:Hlk; [exact H2|].
    destruct (nth_error (runs s) r) as [x|] eqn:Hx; [|exact H2].
    destruct (r_pc x) eqn:Hpc; try exact H2.
    eapply (inv2_move s _ r x _ []); [exact H2 | exact Hx | reflexivity | reflexivity | reflexivity | reflexivity
      | simpl; rewrite app_nil_r; reflexivity | reflexivity | reflexivity | reflexivity | reflexivity | | | ].
    + simpl. destruct v; discriminate.
    + intros _. rewrite Hpc. reflexivity.
    + intros _. apply (no_live_when_unlocked s HI Hlk).
  - (* AReplace *)
    destruct (nth_error (runs s) r) as [x|] eqn:Hx; [|exact H2].
    cbv zeta. destruct v; destruct (r_pc x) eqn:Hpc; try exact H2;
      destruct (replace_chan _ s x) as [w cl];
      (eapply (inv2_move s _ r x _ []); [exact H2 | exact Hx | reflexivity | reflexivity | reflexivity | reflexivity
        | simpl; rewrite app_nil_r; reflexivity | reflexivity | reflexivity | reflexivity | reflexivity | | | ]);
      rewrite ?Hpc; simpl; try reflexivity; try discriminate; intros; try reflexivity; discriminate.
  - (* ALoad *)
    destruct (nth_error (runs s) r) as [x|] eqn:Hx; [|exact H2].
    destruct (r_pc x) eqn:Hpc; try exact H2.
    destruct H2 as [Hlv Hrun Hcur Hnoec Hec Hkver Hrst Hret Hprev].
    destruct HI as [H1 _ _].
    assert (Hlock : lock s = Some r) by (apply (H1 _ _ Hx); rewrite Hpc; reflexivity).
    constructor; simpl; try assumption; try lia.
    + intros r0 x0 H0. apply nth_upd_cases in H0. destruct H0 as [[_ E] | [N H0]].
      * subst x0. simpl. destruct (Hrun _ _ Hx) as [A [B C]].
        split; [exact A | split; [exact B|]]. intros w Hw. inversion Hw; subst w. lia.
      * destruct (Hrun _ _ H0) as [A [B C]].
        split; [exact A | split; [exact B|]]. intros w Hw. destruct (C _ Hw) as [D1 D2]. lia.
    + intros r0 x0 H0 Hl0. apply nth_upd_cases in H0. destruct H0 as [[_ E] | [N H0]].
      * subst x0. reflexivity.
      * exfalso. assert (Hh : holding (r_pc x0) = true) by (destruct (r_pc x0); try discriminate; reflexivity).
        specialize (H1 _ _ H0 Hh). congruence.
    + intros r0 x0 H0 Hp0. apply nth_upd_cases in H0. destruct H0 as [[_ E] | [N H0]].
      * subst x0. simpl. apply (Hnoec _ _ Hx). rewrite Hpc. reflexivity.
      * apply (Hnoec _ _ H0 Hp0).
    + intros r0 x0 H0 He0. apply nth_upd_cases in H0. destruct H0 as [[_ E] | [N H0]].
      * subst x0. eexists. reflexivity.
      * apply (Hec _ _ H0 He0).
    + intros k y r0 Hy Hr0. destruct (Hrst _ _ _ Hy Hr0) as [x0 [H0 Hb]].
      destruct (Nat.eq_dec r0 r) as [E | N].
      * subst r0. rewrite Hx in H0. inversion H0; subst x0. eexists. split; [apply (nth_upd_eq _ _ _ _ Hx) | exact Hb].
      * exists x0. split; [rewrite nth_upd_neq by congruence; exact H0 | exact Hb].
    + intros k r0 ok kv Hy. destruct (Hret _ _ _ _ Hy) as [x0 [H0 He0]].
      destruct (Nat.eq_dec r0 r) as [E | N].
      * subst r0. rewrite Hx in H0. inversion H0; subst x0. eexists. split; [apply (nth_upd_eq _ _ _ _ Hx) | exact He0].
      * exists x0. split; [rewrite nth_upd_neq by congruence; exact H0 | exact He0].
    + intros r0 x0 H0 Hp0 t g Ht Hg. apply nth_upd_cases in H0. destruct H0 as [[E1 E2] | [N H0]].
      * subst r0 x0. simpl in Ht. apply (Hprev _ _ Hx) with (t := t); [rewrite Hpc; discriminate | exact Ht | exact Hg].
      * apply (Hprev _ _ H0 Hp0 _ _ Ht Hg).
  - (* ASignal *)
    destruct (nth_error (runs s) r) as [x|] eqn:Hx; [|exact H2].
    assert (Hsig : forall ok next, loaded (r_pc x) = true -> pre_signal (r_pc x) = true ->
              loaded next = true -> pre_signal next = false -> next <> RWaitLock ->
              Inv2 (set_run s r {| r_pc := next; r_restarted := r_restarted x; r_ec := Some ok;
                                   r_born := r_born x; r_lver := r_lver x; r_nt := r_nt x |})).
    { intros ok next Hld Hps Hld' Hps' Hnw.
      destruct H2 as [Hlv Hrun Hcur Hnoec Hec Hkver Hrst Hret Hprev].
      constructor; simpl; try assumption.
      - intros r0 x0 H0. apply nth_upd_cases in H0. destruct H0 as [[_ E] | [N H0]]; [subst x0; apply (Hrun _ _ Hx) | apply (Hrun _ _ H0)].
      - intros r0 x0 H0 Hl0. apply nth_upd_cases in H0. destruct H0 as [[_ E] | [N H0]]; [subst x0; simpl; apply (Hcur _ _ Hx Hld) | apply (Hcur _ _ H0 Hl0)].
      - intros r0 x0 H0 Hp0. apply nth_upd_cases in H0. destruct H0 as [[_ E] | [N H0]]; [subst x0; simpl in Hp0; congruence | apply (Hnoec _ _ H0 Hp0)].
      - intros r0 x0 H0 He0. apply nth_upd_cases in H0. destruct H0 as [[_ E] | [N H0]]; [subst x0; simpl; exists (lv s); apply (Hcur _ _ Hx Hld) | apply (Hec _ _ H0 He0)].
      - intros k y r0 Hy Hr0. destruct (Hrst _ _ _ Hy Hr0) as [x0 [H0 Hb]].
        destruct (Nat.eq_dec r0 r) as [E | N].
        + subst r0. rewrite Hx in H0. inversion H0; subst x0. eexists. split; [apply (nth_upd_eq _ _ _ _ Hx) | exact Hb].
        + exists x0. split; [rewrite nth_upd_neq by congruence; exact H0 | exact Hb].
      - intros k r0 ok0 kv Hy. destruct (Hret _ _ _ _ Hy) as [x0 [H0 He0]].
        destruct (Nat.eq_dec r0 r) as [E | N].
        + subst r0. rewrite Hx in H0. inversion H0; subst x0. rewrite (Hnoec _ _ Hx Hps) in He0. discriminate.
        + exists x0. split; [rewrite nth_upd_neq by congruence; exact H0 | exact He0].
      - intros r0 x0 H0 Hp0 t g Ht Hg. apply nth_upd_cases in H0. destruct H0 as [[E1 E2] | [N H0]].
        + subst r0 x0. simpl in Ht. apply (Hprev _ _ Hx) with (t := t); [destruct (r_pc x); discriminate | exact Ht | exact Hg].
        + apply (Hprev _ _ H0 Hp0 _ _ Ht Hg). }
    destruct (r_pc x) eqn:Hpc; try exact H2.
    + apply Hsig; try reflexivity; destruct v; try reflexivity; discriminate.
    + apply Hsig; try reflexivity. discriminate.
  - (* ASpawn *)
    destruct (nth_error (runs s) r) as [x|] eqn:Hx; [|exact H2].
    destruct (r_pc x) eqn:Hpc; try exact H2.
    eapply (inv2_move s _ r x _ _); [exact H2 | exact Hx | reflexivity | reflexivity | reflexivity | reflexivity
      | reflexivity | reflexivity | reflexivity | reflexivity | reflexivity | | | ];
      rewrite ?Hpc; simpl; try reflexivity; try discriminate.
  - (* AUnlock *)
    destruct (nth_error (runs s) r) as [x|] eqn:Hx; [|exact H2].
    assert (Hrel : loaded (r_pc x) = true -> r_pc x <> RWaitLock ->
                   Inv2 {| lock := None; cur := cur s; nch := nch s; closed := closed s; waiting := waiting s;
                          crashed := false; ver := ver s; lv := lv s;
                          runs := upd (runs s) r (with_pc x RDone); rsts := rsts s; tasks := tasks s |}).
    { intros Hld Hnw.
      eapply (inv2_move s _ r x _ []); [exact H2 | exact Hx | reflexivity | reflexivity | reflexivity | reflexivity
        | simpl; rewrite app_nil_r; reflexivity | reflexivity | reflexivity | reflexivity | reflexivity | | | ].
      - simpl. discriminate.
      - simpl. discriminate.
      - intro E. contradiction. }
    destruct (r_pc x) eqn:Hpc; try exact H2.
    + destruct (all_exited s r); [|exact H2]. apply Hrel; [reflexivity | discriminate].
    + apply Hrel; [reflexivity | discriminate].
  - (* ATaskCheck *)
    destruct (nth_error (tasks s) t) as [[g [| |]]|] eqn:Hg; try exact H2.
    destruct H2 as [Hlv Hrun Hcur Hnoec Hec Hkver Hrst Hret Hprev].
    constructor; simpl; try assumption.
    + intros r x Hx. rewrite upd_length. apply (Hrun _ _ Hx).
    + intros r x Hx Hp t0 g0 Ht0 Hg0. apply nth_upd_cases in Hg0. destruct Hg0 as [[E1 E2] | [N Hg0]].
      * subst t0. specialize (Hprev _ _ Hx Hp _ _ Ht0 Hg). discriminate.
      * apply (Hprev _ _ Hx Hp _ _ Ht0 Hg0).
  - (* ATaskStep *)
    destruct (nth_error (tasks s) t) as [[g [| |]]|] eqn:Hg; try exact H2.
    destruct H2 as [Hlv Hrun Hcur Hnoec Hec Hkver Hrst Hret Hprev].
    constructor; simpl; try assumption.
    + intros r x Hx. rewrite upd_length. apply (Hrun _ _ Hx).
    + intros r x Hx Hp t0 g0 Ht0 Hg0. apply nth_upd_cases in Hg0. destruct Hg0 as [[E1 E2] | [N Hg0]].
      * subst t0. specialize (Hprev _ _ Hx Hp _ _ Ht0 Hg). discriminate.
      * apply (Hprev _ _ Hx Hp _ _ Ht0 Hg0).
Qed.

Lemma inv12_exec : forall v sched s, Inv s -> Inv2 s -> Inv (exec v s sched) /\ Inv2 (exec v s sched).
Proof.
  intros v sched. induction sched as [|a sched IH]; intros s H1 H2; simpl; [split; assumption|].
  apply IH; [apply inv_step; exact H1 | apply inv2_step; assumption].
Qed.

(* When a Restart has returned nil: the Run it started has read a configuration
   at least as new as the one stored when Restart was called; every task that
   had been started before Restart closed the channel has returned; and every
   task that runs now was loaded from a configuration at least that new.
   When it returned an error the second part still holds. *)
Lemma restart_return_implies_reloaded_l : forall v sched k r ok kv,
  let s := exec v init sched in
  nth_error (rsts s) k = Some {| k_pc := KReturned r ok; k_ver := kv |} ->
  exists x w, nth_error (runs s) r = Some x /\ r_ec x = Some ok
    /\ r_lver x = Some w /\ kv <= w
    /\ (forall t g, t < r_nt x -> nth_error (tasks s) t = Some g -> live g = false)
    /\ (forall t g, nth_error (tasks s) t = Some g -> live g = true ->
          exists y w', nth_error (runs s) (g_gen g) = Some y /\ r_lver y = Some w' /\ kv <= w').
Proof.
  intros v sched k r ok kv s Hk.
  destruct (inv12_exec v sched init inv_init inv2_init) as [HI H2]. fold s in HI, H2.
  destruct H2 as [Hlv Hrun Hcur Hnoec Hec Hkver Hrst Hret Hprev].
  destruct (Hret _ _ _ _ Hk) as [x [Hx He]].
  destruct (Hec _ _ Hx) as [w Hw]; [congruence|].
  destruct (Hrst _ _ _ Hk eq_refl) as [x' [Hx' Hb]]. rewrite Hx in Hx'. inversion Hx'; subst x'. simpl in Hb.
  destruct (Hrun _ _ Hx) as [_ [_ C]]. destruct (C _ Hw) as [Cb Cl].
  exists x, w. repeat split; try assumption; try lia.
  - apply (Hprev _ _ Hx). intro E. assert (Hn : r_ec x = None) by (apply (Hnoec _ _ Hx); rewrite E; reflexivity). congruence.
  - intros t g Hg Hl. destruct HI as [H1 _ H3]. destruct (H3 _ _ Hg) as [y [Hy [_ Hwt]]]. specialize (Hwt Hl).
    exists y, (lv s). repeat split; [exact Hy | apply (Hcur _ _ Hy); rewrite Hwt; reflexivity | lia].
Qed.


(* ---------------------------------------------------------------- the lost restart really hangs *)

(* continuations in which nobody else intervenes: no further Restart call, no
   change of the stored configuration, no task that finishes by itself *)
Definition internal (a : action) : Prop :=
  match a with
  | ACallRestart | AStore => False
  | ATaskStep _ true => False
  | _ => True
  end.

Definition stuck (s : state) : Prop :=
  crashed s = false /\ lock s = Some 0 /\ is_closed s (cur s) = false
  /\ (exists kv, rsts s = [{| k_pc := KWaiting 1; k_ver := kv |}])
  /\ (exists x0 x1, runs s = [x0; x1] /\ r_pc x0 = RWait /\ r_pc x1 = RWaitLock /\ r_ec x1 = None)
  /\ (exists p, tasks s = [{| g_gen := 0; g_pc := p |}] /\ p <> TExit).

Lemma mk_stuck : forall s kv x0 x1 p,
  crashed s = false -> lock s = Some 0 -> is_closed s (cur s) = false ->
  rsts s = [{| k_pc := KWaiting 1; k_ver := kv |}] ->
  runs s = [x0; x1] -> r_pc x0 = RWait -> r_pc x1 = RWaitLock -> r_ec x1 = None ->
  tasks s = [{| g_gen := 0; g_pc := p |}] -> p <> TExit -> stuck s.
Proof.
  intros s kv x0 x1 p A B C D E F G H I J. unfold stuck.
  split; [exact A|]. split; [exact B|]. split; [exact C|]. split; [exists kv; exact D|].
  split; [exists x0, x1; repeat split; assumption|]. exists p. split; assumption.
Qed.

Lemma nth2_cases : forall {A} (a b : A) r x, nth_error [a; b] r = Some x -> (r = 0 /\ x = a) \/ (r = 1 /\ x = b).
Proof.
  intros A a b [|[|r]] x H; simpl in H.
  - left. inversion H. split; reflexivity.
  - right. inversion H. split; reflexivity.
  - destruct r; discriminate.
Qed.
Lemma nth1_cases : forall {A} (a : A) r x, nth_error [a] r = Some x -> r = 0 /\ x = a.
Proof.
  intros A a [|r] x H; simpl in H; [inversion H; split; reflexivity | destruct r; discriminate].
Qed.

Lemma stuck_step : forall s a, stuck s -> internal a -> stuck (step Legacy s a).
Proof.
  intros s a HS Hi. pose proof HS as [Hc [Hl [Hcl [[kv Hk] [[x0 [x1 [Hr [H0 [H1 He]]]]] [p [Ht Hp]]]]]]].
  unfold step. rewrite Hc.
  destruct a as [| |k|k|r|r|r res|r|r|r|t|t dn]; try (destruct Hi; fail).
  - (* ARestartClose *)
    destruct (nth_error (rsts s) k) as [y|] eqn:Hy; [|exact HS].
    rewrite Hk in Hy. apply nth1_cases in Hy. destruct Hy as [_ Ey]. subst y. exact HS.
  - (* ARestartReturn *)
    destruct (nth_error (rsts s) k) as [y|] eqn:Hy; [|exact HS].
    rewrite Hk in Hy. apply nth1_cases in Hy. destruct Hy as [_ Ey]. subst y.
    rewrite Hr. simpl. rewrite He. exact HS.
  - (* ALock *) rewrite Hl. exact HS.
  - (* AReplace *)
    destruct (nth_error (runs s) r) as [x|] eqn:Hx; [|exact HS].
    rewrite Hr in Hx. apply nth2_cases in Hx. cbv zeta.
    destruct Hx as [[_ E] | [_ E]]; subst x; rewrite ?H0, ?H1; exact HS.
  - (* ALoad *)
    destruct (nth_error (runs s) r) as [x|] eqn:Hx; [|exact HS].
    rewrite Hr in Hx. apply nth2_cases in Hx.
    destruct Hx as [[_ E] | [_ E]]; subst x; rewrite ?H0, ?H1; exact HS.
  - (* ASignal *)
    destruct (nth_error (runs s) r) as [x|] eqn:Hx; [|exact HS].
    rewrite Hr in Hx. apply nth2_cases in Hx.
    destruct Hx as [[_ E] | [_ E]]; subst x; rewrite ?H0, ?H1; exact HS.
  - (* ASpawn *)
    destruct (nth_error (runs s) r) as [x|] eqn:Hx; [|exact HS].
    rewrite Hr in Hx. apply nth2_cases in Hx.
    destruct Hx as [[_ E] | [_ E]]; subst x; rewrite ?H0, ?H1; exact HS.
  - (* AUnlock *)
    destruct (nth_error (runs s) r) as [x|] eqn:Hx; [|exact HS].
    rewrite Hr in Hx. apply nth2_cases in Hx.
    destruct Hx as [[Er E] | [_ E]]; subst x; rewrite ?H0, ?H1; try exact HS.
    subst r. unfold all_exited. rewrite Ht. simpl. destruct p; try exact HS. congruence.
  - (* ATaskCheck *)
    destruct (nth_error (tasks s) t) as [g|] eqn:Hg; [|exact HS].
    rewrite Ht in Hg. apply nth1_cases in Hg. destruct Hg as [Et Eg]. subst g t.
    destruct p; try exact HS. rewrite Hcl.
    apply (mk_stuck _ kv x0 x1 TStep); simpl; try assumption; try reflexivity; try discriminate.
    rewrite Ht. reflexivity.
  - (* ATaskStep *)
    destruct (nth_error (tasks s) t) as [g|] eqn:Hg; [|exact HS].
    rewrite Ht in Hg. apply nth1_cases in Hg. destruct Hg as [Et Eg]. subst g t.
    destruct p; try exact HS. destruct dn; [destruct Hi|].
    apply (mk_stuck _ kv x0 x1 TCheck); simpl; try assumption; try reflexivity; try discriminate.
    rewrite Ht. reflexivity.
Qed.

(* The code as found: after sched_restart_during_first_load the Restart call
   can NEVER return unless somebody else intervenes -- whatever the scheduler
   does, for ever. *)
Lemma legacy_lost_restart_hangs_l : forall cont,
  Forall internal cont ->
  let s := exec Legacy (exec Legacy init sched_restart_during_first_load) cont in
  exists kv, nth_error (rsts s) 0 = Some {| k_pc := KWaiting 1; k_ver := kv |}.
Proof.
  intros cont Hc.
  assert (H0 : stuck (exec Legacy init sched_restart_during_first_load)).
  { eapply mk_stuck; try (vm_compute; reflexivity). vm_compute. discriminate. }
  assert (H : forall s, stuck s -> stuck (exec Legacy s cont)).
  { induction Hc as [|a cont Ha Hc IH]; intros s Hs; simpl; [exact Hs|]. apply IH. apply stuck_step; assumption. }
  destruct (H _ H0) as [_ [_ [_ [[kv Hk] _]]]]. exists kv. cbv zeta. rewrite Hk. reflexivity.
Qed.
