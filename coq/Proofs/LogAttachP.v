(* Proofs about attaching logs to shared blocks (Model/LogAttach.v). *)
From Coq Require Import List NArith Bool Arith Lia ZifyBool ZifyN ZifyNat.
From Shovel Require Import Model.LogAttach.
Import ListNotations.
Open Scope N_scope.

(* ---------- Logs.Add ---------- *)
Lemma has_idx_iff ls l :
  existsb (fun x => l_idx x =? l_idx l) ls = true <-> In (l_idx l) (idxs ls).
Proof.
  unfold idxs. rewrite existsb_exists, in_map_iff. split.
  - intros (x & Hx & E). exists x. split; auto. lia.
  - intros (x & E & Hx). exists x. split; auto. lia.
Qed.

Lemma logs_add_in ls l x :
  In x (logs_add ls l) <-> In x ls \/ (x = l /\ ~ In (l_idx l) (idxs ls)).
Proof.
  unfold logs_add. destruct (existsb _ ls) eqn:E.
  - apply has_idx_iff in E. split; [auto|]. intros [H|[_ H]]; [auto|contradiction].
  - assert (N : ~ In (l_idx l) (idxs ls)).
    { intros H. apply has_idx_iff in H. congruence. }
    rewrite in_app_iff. simpl. split.
    + intros [H|[H|[]]]; auto.
    + intros [H|[H _]]; auto.
Qed.

Lemma logs_add_nodup ls l : NoDup (idxs ls) -> NoDup (idxs (logs_add ls l)).
Proof.
  intros ND. unfold logs_add. destruct (existsb _ ls) eqn:E; auto.
  assert (N : ~ In (l_idx l) (idxs ls)).
  { intros H. apply has_idx_iff in H. congruence. }
  unfold idxs in *. rewrite map_app. simpl.
  clear E. induction (map l_idx ls) as [|y r IH]; simpl.
  - constructor; [intros []|constructor].
  - inversion ND; subst. constructor.
    + rewrite in_app_iff. simpl. intros [H|[H|[]]]; auto. subst. apply N. left; auto.
    + apply IH; auto. intros H. apply N. right; auto.
Qed.

Lemma logs_add_idx ls l : In (l_idx l) (idxs (logs_add ls l)).
Proof.
  unfold logs_add. destruct (existsb _ ls) eqn:E.
  - apply has_idx_iff; auto.
  - unfold idxs. rewrite map_app, in_app_iff. right. left. reflexivity.
Qed.

Lemma logs_add_mono ls l x : In x ls -> In x (logs_add ls l).
Proof. intros H. apply logs_add_in. auto. Qed.

Lemma add_all_mono new : forall ls x, In x ls -> In x (logs_add_all ls new).
Proof.
  induction new as [|l r IH]; intros ls x H; simpl; auto.
  apply IH. apply logs_add_mono; auto.
Qed.

Lemma add_all_nodup new : forall ls, NoDup (idxs ls) -> NoDup (idxs (logs_add_all ls new)).
Proof.
  induction new as [|l r IH]; intros ls H; simpl; auto.
  apply IH. apply logs_add_nodup; auto.
Qed.

Lemma add_all_from new : forall ls x, In x (logs_add_all ls new) -> In x ls \/ In x new.
Proof.
  induction new as [|l r IH]; intros ls x H; simpl in *; auto.
  apply IH in H. destruct H as [H|H]; auto.
  apply logs_add_in in H. destruct H as [H|[H _]]; auto.
Qed.

Lemma idxs_mono (a b : list log) : (forall x, In x a -> In x b) -> forall i, In i (idxs a) -> In i (idxs b).
Proof.
  intros H i Hi. unfold idxs in *. apply in_map_iff in Hi. destruct Hi as (x & E & Hx).
  apply in_map_iff. exists x. auto.
Qed.

Lemma add_all_idx new : forall ls x, In x new -> In (l_idx x) (idxs (logs_add_all ls new)).
Proof.
  induction new as [|l r IH]; intros ls x H; simpl in *; [contradiction|].
  destruct H as [->|H]; [|apply IH; auto].
  eapply idxs_mono; [intros y; apply add_all_mono|]. apply logs_add_idx.
Qed.

(* same index => same log, among everything involved: then nothing is lost *)
Lemma add_all_consistent ls new :
  (forall x y, In x (ls ++ new) -> In y (ls ++ new) -> l_idx x = l_idx y -> x = y) ->
  forall x, In x new -> In x (logs_add_all ls new).
Proof.
  intros C x Hx. pose proof (add_all_idx new ls x Hx) as Hi.
  unfold idxs in Hi. apply in_map_iff in Hi. destruct Hi as (y & E & Hy).
  assert (y = x); [|subst; auto].
  apply C; auto.
  - apply in_or_app. apply add_all_from in Hy. tauto.
  - apply in_or_app. auto.
Qed.

(* ---------- Block.Tx ---------- *)
Lemma find_txs_apply i f l j :
  (forall t, t_idx (f t) = t_idx t) ->
  find_tx j (txs_apply i f l) =
  if j =? i then Some (f (match find_tx i l with Some t => t | None => new_tx i end))
  else find_tx j l.
Proof.
  intros Hf. unfold find_tx. induction l as [|t r IH]; simpl.
  - rewrite Hf. simpl. rewrite (N.eqb_sym i j). destruct (j =? i); reflexivity.
  - destruct (t_idx t =? i) eqn:E; simpl.
    + rewrite Hf. destruct (j =? i) eqn:J.
      * replace (t_idx t =? j) with true by lia. reflexivity.
      * replace (t_idx t =? j) with false by lia. reflexivity.
    + destruct (t_idx t =? j) eqn:J.
      * replace (j =? i) with false by lia. reflexivity.
      * exact IH.
Qed.

Lemma txs_apply_idx i f l :
  (forall t, t_idx (f t) = t_idx t) ->
  map t_idx (txs_apply i f l) =
  if existsb (fun t => t_idx t =? i) l then map t_idx l else map t_idx l ++ [i].
Proof.
  intros Hf. induction l as [|t r IH]; simpl.
  - rewrite Hf. reflexivity.
  - destruct (t_idx t =? i) eqn:E; simpl.
    + rewrite Hf. reflexivity.
    + rewrite IH. destruct (existsb _ r); reflexivity.
Qed.

Lemma txs_apply_in i f l t :
  In t (txs_apply i f l) -> In t l \/ exists t0, t = f t0 /\ (In t0 l \/ t0 = new_tx i).
Proof.
  induction l as [|u r IH]; simpl.
  - intros [<-|[]]. right. eexists; split; eauto.
  - destruct (t_idx u =? i).
    + intros [<-|H]; [right; exists u; auto|auto].
    + intros [<-|H]; auto. apply IH in H. destruct H as [H|(t0 & E & H)]; auto.
      right. exists t0. split; auto. destruct H; auto.
Qed.

Lemma NoDup_snoc_N (l : list N) x : NoDup l -> ~ In x l -> NoDup (l ++ [x]).
Proof.
  induction l as [|y r IH]; intros ND Hn; simpl.
  - constructor; [intros []|constructor].
  - inversion ND; subst. constructor.
    + rewrite in_app_iff. simpl. intros [H|[H|[]]]; auto. subst. apply Hn. left; auto.
    + apply IH; auto. intros H. apply Hn. right; auto.
Qed.

Lemma txs_apply_nodup i f l :
  (forall t, t_idx (f t) = t_idx t) -> NoDup (map t_idx l) -> NoDup (map t_idx (txs_apply i f l)).
Proof.
  intros Hf ND. rewrite txs_apply_idx by auto.
  destruct (existsb _ l) eqn:E; auto.
  apply NoDup_snoc_N; auto. intros H. apply in_map_iff in H. destruct H as (t & Et & Ht).
  assert (existsb (fun t => t_idx t =? i) l = true); [|congruence].
  apply existsb_exists. exists t. split; auto. lia.
Qed.

(* ---------- one operation, seen from transaction j ---------- *)
Lemma logs_of_step b op j : logs_of (a_step b op) j = tx_sem j (logs_of b j) op.
Proof.
  unfold logs_of, tx_sem. destruct op as [bh i th ls|bh i th st ls|bh i th tas]; simpl;
    rewrite find_txs_apply by reflexivity; rewrite (N.eqb_sym i j);
    destruct (j =? i) eqn:J; auto; simpl;
    replace j with i by lia; destruct (find_tx i (b_txs b)); reflexivity.
Qed.

Lemma traces_of_step b op j : traces_of (a_step b op) j = trace_sem j (traces_of b j) op.
Proof.
  unfold traces_of, trace_sem. destruct op as [bh i th ls|bh i th st ls|bh i th tas]; simpl;
    rewrite find_txs_apply by reflexivity.
  - destruct (j =? i) eqn:J; auto. replace j with i by lia. destruct (find_tx i (b_txs b)); reflexivity.
  - destruct (j =? i) eqn:J; auto. replace j with i by lia. destruct (find_tx i (b_txs b)); reflexivity.
  - rewrite (N.eqb_sym i j). destruct (j =? i) eqn:J; auto.
Qed.

Lemma traces_of_run ops : forall b j,
  traces_of (a_run b ops) j = fold_left (trace_sem j) ops (traces_of b j).
Proof.
  induction ops as [|op r IH]; intros b j; simpl; auto.
  unfold a_run in *. simpl. rewrite IH, traces_of_step. reflexivity.
Qed.

(* the trace actions of transaction j after any operations: those of the LAST
   trace attachment to j (replaced, not merged), the initial ones if there was none *)
Lemma trace_sem_last j ops : forall cur,
  let r := fold_left (trace_sem j) ops cur in
  (forall bh th tas, ~ In (ATraces bh j th tas) ops) /\ r = cur
  \/ exists bh th tas, In (ATraces bh j th tas) ops /\ r = tas.
Proof.
  induction ops as [|op r IH]; intros cur; simpl.
  - left. split; auto.
  - destruct (IH (trace_sem j cur op)) as [[Hn E]|(bh & th & tas & Hin & E)].
    + destruct op as [bh i th ls|bh i th st ls|bh i th tas]; simpl in *;
        try (left; split; [intros a b c [H|H]; [discriminate|eapply Hn; eauto]|exact E]).
      destruct (i =? j) eqn:Ei.
      * right. exists bh, th, tas. split; [left; f_equal; lia|exact E].
      * left. split; [|exact E]. intros a b c [H|H]; [inversion H; lia|eapply Hn; eauto].
    + right. exists bh, th, tas. split; [right; auto|exact E].
Qed.

(* an unchanging block whose transaction j has the trace actions [ftr j]:
   whoever attached last, a transaction that received a trace attachment
   carries exactly its trace actions *)
Lemma traces_honest (ftr : N -> list N) ops b j :
  (forall bh i th tas, In (ATraces bh i th tas) ops -> tas = ftr i) ->
  (traces_of b j = ftr j \/ traces_of b j = []) ->
  traces_of (a_run b ops) j = ftr j
  \/ (traces_of (a_run b ops) j = [] /\ forall bh th tas, ~ In (ATraces bh j th tas) ops).
Proof.
  intros H H0. rewrite traces_of_run.
  destruct (trace_sem_last j ops (traces_of b j)) as [[Hn E]|(bh & th & tas & Hin & E)].
  - simpl in E. rewrite E. destruct H0 as [H0|H0]; [left; auto|right; auto].
  - left. simpl in E. rewrite E. eapply H; eauto.
Qed.

Lemma logs_of_run ops : forall b j,
  logs_of (a_run b ops) j = fold_left (tx_sem j) ops (logs_of b j).
Proof.
  induction ops as [|op r IH]; intros b j; simpl; auto.
  unfold a_run in *. simpl. rewrite IH, logs_of_step. reflexivity.
Qed.

Lemma wf_step b op :
  wf_blk b -> (is_group op = false -> NoDup (idxs (op_logs op))) -> wf_blk (a_step b op).
Proof.
  intros [W1 W2] Hr. destruct op as [bh i th ls|bh i th st ls|bh i th tas]; simpl; split; simpl.
  - apply txs_apply_nodup; auto.
  - intros t Ht. apply txs_apply_in in Ht. destruct Ht as [Ht|(t0 & -> & Ht)]; auto.
    simpl. apply add_all_nodup. destruct Ht as [Ht| ->]; auto. simpl. constructor.
  - apply txs_apply_nodup; auto.
  - intros t Ht. apply txs_apply_in in Ht. destruct Ht as [Ht|(t0 & -> & Ht)]; auto.
  - apply txs_apply_nodup; auto.
  - intros t Ht. apply txs_apply_in in Ht. destruct Ht as [Ht|(t0 & -> & Ht)]; auto.
    simpl. destruct Ht as [Ht| ->]; auto.
Qed.

Lemma wf_logs_of b i : wf_blk b -> NoDup (idxs (logs_of b i)).
Proof.
  intros [_ W2]. unfold logs_of, find_tx. destruct (find _ (b_txs b)) as [t|] eqn:F.
  - apply find_some in F. apply W2. tauto.
  - constructor.
Qed.

Lemma wf_run ops : forall b,
  wf_blk b -> (forall op, In op ops -> is_group op = false -> NoDup (idxs (op_logs op))) ->
  wf_blk (a_run b ops).
Proof.
  induction ops as [|op r IH]; intros b W H; simpl; auto.
  unfold a_run. simpl. apply IH.
  - apply wf_step; auto. apply H. left; auto.
  - intros op' Hin. apply H. right; auto.
Qed.

(* ---------- any order, any repetition of Add-style attaches ---------- *)
Lemma sem_groups i ops : forall cur,
  forallb adds_only ops = true ->
  let r := fold_left (tx_sem i) ops cur in
  (forall x, In x cur -> In x r)
  /\ (forall x, In x r -> In x cur \/ exists op, In op ops /\ op_tx op = i /\ In x (op_logs op))
  /\ (forall op x, In op ops -> op_tx op = i -> In x (op_logs op) -> In (l_idx x) (idxs r)).
Proof.
  induction ops as [|op r IH]; intros cur G; simpl in *.
  - repeat split; auto. intros op x [].
  - apply andb_true_iff in G. destruct G as [G1 G2].
    destruct (IH (tx_sem i cur op) G2) as (A & B & C).
    assert (M : forall x, In x cur -> In x (tx_sem i cur op)).
    { intros x Hx. unfold tx_sem. destruct (op_tx op =? i); auto.
      destruct op; [apply add_all_mono; auto|discriminate|auto]. }
    split; [|split].
    + intros x Hx. apply A. apply M. auto.
    + intros x Hx. apply B in Hx. destruct Hx as [Hx|(op' & H1 & H2 & H3)].
      * unfold tx_sem in Hx. destruct (op_tx op =? i) eqn:E; auto.
        destruct op as [bh i' th ls| |]; [|discriminate|auto]. apply add_all_from in Hx.
        destruct Hx as [Hx|Hx]; auto. right. exists (AGroup bh i' th ls). simpl in *.
        split; auto. split; auto. lia.
      * right. exists op'. auto.
    + intros op' x [<-|Hin] Hi Hx.
      * eapply idxs_mono; [exact A|]. unfold tx_sem. replace (op_tx op =? i) with true by lia.
        destruct op as [bh i' th ls| |]; [|discriminate|contradiction]. simpl in Hx. apply add_all_idx. auto.
      * eapply C; eauto.
Qed.

Lemma attach_union ops b :
  wf_blk b -> forallb adds_only ops = true ->
  let b' := a_run b ops in
  wf_blk b'
  /\ forall i,
       NoDup (idxs (logs_of b' i))
    /\ (forall x, In x (logs_of b i) -> In x (logs_of b' i))
    /\ (forall x, In x (logs_of b' i) ->
          In x (logs_of b i) \/ exists op, In op ops /\ op_tx op = i /\ In x (op_logs op))
    /\ (forall op x, In op ops -> op_tx op = i -> In x (op_logs op) ->
          In (l_idx x) (idxs (logs_of b' i))).
Proof.
  intros W G b'.
  assert (W' : wf_blk b').
  { apply wf_run; auto. intros op Hin Hg. rewrite forallb_forall in G. specialize (G op Hin).
    destruct op; simpl in *; try discriminate. constructor. }
  split; auto. intros i. split; [apply wf_logs_of; auto|].
  unfold b'. rewrite logs_of_run. apply sem_groups. auto.
Qed.

(* when an index always names the same log, the logs themselves are kept *)
Lemma attach_union_consistent ops b i :
  wf_blk b -> forallb adds_only ops = true ->
  (forall x y, (In x (logs_of b i) \/ exists op, In op ops /\ op_tx op = i /\ In x (op_logs op)) ->
               (In y (logs_of b i) \/ exists op, In op ops /\ op_tx op = i /\ In y (op_logs op)) ->
               l_idx x = l_idx y -> x = y) ->
  forall op x, In op ops -> op_tx op = i -> In x (op_logs op) -> In x (logs_of (a_run b ops) i).
Proof.
  intros W G C op x Hin Hi Hx.
  destruct (attach_union ops b W G) as (_ & U). destruct (U i) as (_ & _ & U3 & U4).
  pose proof (U4 op x Hin Hi Hx) as Hidx. unfold idxs in Hidx. apply in_map_iff in Hidx.
  destruct Hidx as (y & E & Hy).
  assert (y = x); [|subst; auto].
  apply C; auto. right. exists op. auto.
Qed.

(* ---------- honest operations: logs of one unchanging block ---------- *)
Section Honest.
Variable full : N -> list log.       (* all logs of transaction i of this block *)
Hypothesis full_nodup : forall i, NoDup (idxs (full i)).

Notation honest := (honest full).

Lemma full_inj i x y : In x (full i) -> In y (full i) -> l_idx x = l_idx y -> x = y.
Proof.
  specialize (full_nodup i). unfold idxs in full_nodup.
  induction (full i) as [|z r IH]; simpl; [contradiction|].
  inversion full_nodup; subst. intros [->|Hx] [->|Hy] E; auto.
  - exfalso. apply H1. rewrite E. apply in_map. auto.
  - exfalso. apply H1. rewrite <- E. apply in_map. auto.
Qed.

Lemma sem_honest_step i cur op :
  incl cur (full i) -> honest op ->
  let r := tx_sem i cur op in
  incl r (full i) /\ incl cur r /\ (op_tx op = i -> incl (op_logs op) r).
Proof.
  intros Hc [H1 H2] r. unfold r, tx_sem. destruct (op_tx op =? i) eqn:E.
  - assert (Ei : op_tx op = i) by lia. rewrite Ei in *.
    destruct op as [bh i' th ls|bh i' th st ls|bh i' th tas]; simpl in *.
    + split; [|split].
      * intros x Hx. apply add_all_from in Hx. destruct Hx; auto.
      * intros x Hx. apply add_all_mono; auto.
      * intros _ x Hx. apply add_all_consistent; auto.
        intros a b Ha Hb. apply (full_inj i).
        -- apply in_app_or in Ha. destruct Ha; auto.
        -- apply in_app_or in Hb. destruct Hb; auto.
    + rewrite (H2 eq_refl). split; [apply incl_refl|]. split; auto. intros _. apply incl_refl.
    + split; auto. split; [apply incl_refl|]. intros _ x [].
  - split; auto. split; [apply incl_refl|]. intros Ei. lia.
Qed.

Lemma sem_honest i ops : forall cur,
  incl cur (full i) -> Forall honest ops ->
  let r := fold_left (tx_sem i) ops cur in
  incl r (full i) /\ incl cur r
  /\ (forall op, In op ops -> op_tx op = i -> incl (op_logs op) r).
Proof.
  induction ops as [|op r IH]; intros cur Hc Hh; simpl.
  - split; auto. split; [apply incl_refl|]. intros op [].
  - inversion Hh; subst.
    destruct (sem_honest_step i cur op Hc H1) as (S1 & S2 & S3).
    destruct (IH _ S1 H2) as (A & B & C).
    split; auto. split; [eapply incl_tran; eauto|].
    intros op' [<-|Hin] Hi; [|apply C; auto].
    eapply incl_tran; [apply S3; auto|exact B].
Qed.

Lemma honest_nodup op : honest op -> is_group op = false -> NoDup (idxs (op_logs op)).
Proof.
  intros [_ H] G. destruct op; simpl in *; [discriminate| |constructor].
  rewrite (H eq_refl). apply full_nodup.
Qed.

Lemma attach_honest ops b :
  wf_blk b -> (forall i, incl (logs_of b i) (full i)) -> Forall honest ops ->
  let b' := a_run b ops in
  wf_blk b'
  /\ forall i,
       NoDup (idxs (logs_of b' i))
    /\ incl (logs_of b' i) (full i)
    /\ incl (logs_of b i) (logs_of b' i)
    /\ (forall op, In op ops -> op_tx op = i -> incl (op_logs op) (logs_of b' i)).
Proof.
  intros W Hi Hh b'.
  assert (W' : wf_blk b').
  { apply wf_run; auto. intros op Hin Hg. apply honest_nodup; auto.
    rewrite Forall_forall in Hh. auto. }
  split; auto. intros i. split; [apply wf_logs_of; auto|].
  unfold b'. rewrite logs_of_run. apply sem_honest; auto.
Qed.

(* the caller's view: once the caller's own logs (all logs of the block that
   match its predicate) have been attached, the matching logs on the shared
   block are exactly the matching logs of the chain, whatever else others
   attached before, in between or afterwards *)
Lemma attach_projection ops b (p : log -> bool) i :
  wf_blk b -> (forall j, incl (logs_of b j) (full j)) -> Forall honest ops ->
  (forall x, In x (full i) -> p x = true ->
     In x (logs_of b i) \/ exists op, In op ops /\ op_tx op = i /\ In x (op_logs op)) ->
  let got := filter p (logs_of (a_run b ops) i) in
  NoDup (idxs got) /\ forall x, In x got <-> In x (filter p (full i)).
Proof.
  intros W Hi Hh Hall got.
  destruct (attach_honest ops b W Hi Hh) as (_ & A). destruct (A i) as (A1 & A2 & A3 & A4).
  split.
  - unfold got, idxs in *. clear -A1. induction (logs_of (a_run b ops) i) as [|z r IH]; simpl; [constructor|].
    inversion A1; subst. destruct (p z); simpl; auto. constructor; auto.
    intros H. apply H1. apply in_map_iff in H. destruct H as (y & E & Hy).
    apply filter_In in Hy. apply in_map_iff. exists y. tauto.
  - intros x. unfold got. rewrite !filter_In. split; intros [H1 H2]; split; auto.
    destruct (Hall x H1 H2) as [H|(op & Hin & Ei & Hx)]; [apply A3; auto|].
    apply (A4 op Hin Ei). auto.
Qed.

End Honest.

(* ---------- before the repair: a receipt interleaved with a logs group ---------- *)
Lemma legacy_receipt_dup :
  ~ (forall ops, NoDup (idxs (logs_of (legacy_run (mkBlk 7 0 0 []) ops) 0))).
Proof.
  intros H.
  specialize (H [LMake 0 1; LAtomic (AGroup 0 0 0 [mkLog 5 1 9]); LCopy 0 [mkLog 5 1 9]]).
  vm_compute in H. inversion H as [|x l Hn _]; subst. apply Hn. left. reflexivity.
Qed.

(* traces() before the repair published the new trace slice empty and filled
   it in place: between the two steps a caller that already holds the block
   sees trace actions that are not the transaction's *)
Lemma legacy_traces_visible_incomplete :
  exists ops, traces_of (legacy_run (mkBlk 7 0 0 [mkTx 0 9 0 [] [41; 42]]) ops) 0 <> [41; 42]
              /\ ops = [LTMake 0 2].
Proof. eexists. split; [|reflexivity]. vm_compute. discriminate. Qed.
