(* The four defects of the pinned code, as concrete witnesses on the LEGACY
   variant of the model (vm_compute), each next to the behaviour of the
   repaired variant on the same scenario. *)
From Coq Require Import List NArith Bool Lia ZifyBool ZifyN ZifyNat.
From Shovel Require Import Model.TaskTypes Model.TaskDb Model.Task Model.TaskNode Model.TaskSys
  Model.TaskSpec Model.TaskWitness Proofs.TaskArithP Proofs.TaskDbP Proofs.TaskExecP Proofs.TaskLoadP.
Import ListNotations.
Open Scope N_scope.

Lemma in_rows_of : forall c l r, In r (rows_of c l) -> exists x kv, In x l /\ r = stamp c x kv.
Proof.
  intros c l r H. unfold rows_of in H. apply in_concat in H. destruct H as (rs & Hrs & Hr).
  apply in_map_iff in Hrs. destruct Hrs as (x & <- & Hx). unfold proj in Hr.
  apply in_map_iff in Hr. destruct Hr as (kv & <- & _). exists x, kv. split; [exact Hx|reflexivity].
Qed.

(* TaskInv implies its boolean shadow I1 *)
Lemma TaskInv_i1b : forall c d, TaskInv c d -> i1b c d = true.
Proof.
  intros c d (g & Hpv & Hw). unfold i1b.
  assert (Hn : newest (t_src c) (t_ig c) (d_curs d) = gpos g).
  { rewrite <- newest_pv, Hpv. apply newest_render. exact Hw. }
  assert (Hr : filter (row_of (t_src c) (t_ig c)) (d_rows d) = rows_of c (concat g)).
  { change (filter (row_of (t_src c) (t_ig c)) (d_rows d)) with (d_rows (pv c d)). rewrite Hpv. reflexivity. }
  rewrite Hn, Hr. destruct (gpos g) as [[n h]|] eqn:Gp.
  - apply forallb_forall. intros r Hin. apply in_rows_of in Hin. destruct Hin as (x & kv & Hx & ->).
    cbn. pose proof (ghost_below_pos c g n h Hw Gp x Hx). lia.
  - assert (g = []).
    { unfold gpos in Gp. destruct (rev g) eqn:Er; [|discriminate].
      apply (f_equal (@rev _)) in Er. rewrite rev_involutive in Er. exact Er. }
    subst g. reflexivity.
Qed.

(* 1. C01: batch 1 x concurrency 4 -- no partition, blocks[0] panics *)
Lemma legacy_batch_lt_conc_panics :
  r_out (w1_run legacy) = Fin OPanicked /\ r_out (w1_run repaired) = Fin OConverged.
Proof. vm_compute. split; reflexivity. Qed.

(* 2. C02/C03: batch 3, chain A indexed to 6, reorg below 4.  The unwind
   deletes cursor 6 and the rows of block 6 only; the first transaction
   commits a state with rows of blocks 4 and 5 beyond position 3 (I1 false),
   and with the unique index the re-insert collides for ever. *)
Lemma legacy_reorg_orphans :
  snd (w2_run legacy) = [Fin OConverged; Fin OConverged; Fin OFailed; Fin OFailed; Fin OFailed]
  /\ i1b w2_cfg (fst (w2_run legacy)) = false
  /\ ~ TaskInv w2_cfg (fst (w2_run legacy)).
Proof.
  split; [vm_compute; reflexivity|]. split; [vm_compute; reflexivity|].
  intros H. apply TaskInv_i1b in H. vm_compute in H. discriminate.
Qed.
Lemma repaired_reorg_clean :
  snd (w2_run repaired) = [Fin OConverged; Fin OConverged; Fin OConverged; Fin OConverged; Fin ONothingNew]
  /\ map (fun r => (r_bnum r, r_val r)) (d_rows (fst (w2_run repaired)))
     = [(1,1001);(2,1002);(3,1003);(4,2004);(5,2005);(6,2006);(7,2007)]
  /\ map c_num (d_curs (fst (w2_run repaired))) = [3;6;7].
Proof. vm_compute. repeat split; reflexivity. Qed.
(* without the unique index the orphaned rows stay next to their replacements *)
Lemma legacy_reorg_duplicates :
  map (fun r => (r_bnum r, r_val r)) (d_rows (fst (w2_run_nouniq legacy)))
  = [(1,1001);(2,1002);(3,1003);(4,1004);(5,1005);(4,2004);(5,2005);(6,2006);(7,2007)].
Proof. vm_compute. reflexivity. Qed.

(* 3. C03: partitions (1,1) and (2,1) served from two versions: the merged
   batch is not linked, the pinned code indexes it *)
Lemma legacy_partition_skew_accepted :
  r_out (w3_run legacy) = Fin OConverged
  /\ w3_ghost_linked (r_db (w3_run legacy)) = false
  /\ r_out (w3_run repaired) = Fin OFailed
  /\ r_db (w3_run repaired) = Db [] [].
Proof. vm_compute. repeat split; reflexivity. Qed.

(* 4. C05: dependencies [2;3], integration 3 has no cursor: the pinned code
   proceeds up to integration 2's position *)
Lemma legacy_unstarted_dependency_ignored :
  r_out (w4_run legacy) = Fin OConverged
  /\ d_curs (r_db (w4_run legacy)) = [Cur 1 2 5 1005; Cur 1 4 1 1001]
  /\ r_out (w4_run repaired) = Fin ONothingNew
  /\ r_db (w4_run repaired) = w4_db.
Proof. vm_compute. repeat split; reflexivity. Qed.

(* ---------- boolean shadows are sound ---------- *)
Lemma wf_ghostb_sound : forall c g, wf_ghostb c g = true -> wf_ghost c g.
Proof.
  intros c g H. unfold wf_ghostb in H. apply andb_prop in H. destruct H as [H H3].
  apply andb_prop in H. destruct H as [H1 H2]. split; [|split].
  - rewrite forallb_forall in H1. apply Forall_forall. intros b Hb E. subst b.
    specialize (H1 _ Hb). discriminate.
  - exact H2.
  - rewrite forallb_forall in H3. apply Forall_forall. intros b Hb. specialize (H3 _ Hb).
    unfold in_rangeb in H3. unfold in_range. lia.
Qed.

Lemma cfg_okb_sound : forall c, cfg_okb c = true -> cfg_ok c.
Proof.
  intros c H. unfold cfg_okb in H. unfold cfg_ok.
  repeat (apply andb_prop in H; destruct H as [H ?]).
  repeat split; try lia.
  intros Hin. apply negb_true_iff in H0. apply not_true_iff_false in H0. apply H0.
  apply existsb_exists. exists (t_ig c). split; [exact Hin|apply N.eqb_refl].
Qed.

Lemma TaskInv_by_ghost : forall c d g,
  pv c d = render c g -> wf_ghostb c g = true -> TaskInv c d.
Proof. intros c d g E H. exists g. split; [exact E|apply wf_ghostb_sound; exact H]. Qed.

(* the state in which the legacy witness 2 starts its reorg step satisfies TaskInv *)
Definition w2_mid : db := fst (hsteps legacy w2_cfg [chainA; chainA] (Db [] [])).
Lemma w2_mid_inv : TaskInv w2_cfg w2_mid /\ cfg_ok w2_cfg.
Proof.
  split.
  - apply (TaskInv_by_ghost _ _ [segment chainA 1 3; segment chainA 4 3]); vm_compute; reflexivity.
  - apply cfg_okb_sound. vm_compute. reflexivity.
Qed.
Lemma w2_legacy_breaks_inv : ~ TaskInv w2_cfg (r_db (hstep legacy w2_cfg chainB w2_mid)).
Proof. intros H. apply TaskInv_i1b in H. vm_compute in H. discriminate. Qed.
Lemma w2_repaired_keeps_inv : i1b w2_cfg (r_db (hstep repaired w2_cfg chainB w2_mid)) = true.
Proof. vm_compute. reflexivity. Qed.

(* the pinned Task.Delete does not preserve TaskInv (full statement + refutation) *)
Definition legacy_preserves_inv_full : Prop :=
  forall c ch d, cfg_ok c -> TaskInv c d -> TaskInv c (r_db (hstep legacy c ch d)).
Lemma legacy_preserves_inv_false : ~ legacy_preserves_inv_full.
Proof.
  intros H. apply w2_legacy_breaks_inv. apply H; [apply w2_mid_inv|apply w2_mid_inv].
Qed.
Lemma legacy_partitions_both :
  partitions legacy (Task 1 1 2 3 1 0 1 4 [] true true) 1 1 = []
  /\ partitions repaired (Task 1 1 2 3 1 0 1 4 [] true true) 1 1 = [(1,1)].
Proof. split; [exact legacy_partitions_empty|exact (proj2 repaired_partitions_example)]. Qed.
Lemma empty_inv_example : TaskInv w2_cfg (Db [] []).
Proof. apply (TaskInv_by_ghost _ _ []); reflexivity. Qed.
Lemma cfg_ok_examples : cfg_ok (wcfg 1 4) /\ cfg_ok (wcfg 10 3) /\ cfg_ok w4_cfg /\ cfg_ok (Task 1 1 2 3 5 9 3 2 [] true true).
Proof. repeat split; apply cfg_okb_sound; vm_compute; reflexivity. Qed.
Lemma w4_inv_example : TaskInv w4_cfg w4_db.
Proof. apply (TaskInv_by_ghost _ _ []); reflexivity. Qed.
