(* C16 — assembly of the statements of Properties/C16.v. *)
From Coq Require Import List NArith Bool String Ascii Lia.
From Shovel Require Import Base.Outcome Model.Config Model.Sql Model.Schema
  Proofs.ConfigP Proofs.SchemaP Proofs.SchemaKeyP.
Import ListNotations.
Open Scope N_scope.

Definition req_names (G : gen) : list str := map (fun rf => snd (fst rf)) (g_required G).

Lemma block_kept_add_field : forall n t g b, In b (ig_block g) -> In b (ig_block (add_field n t g)).
Proof.
  intros n t g b H. unfold add_field. simpl. destruct (has_bd n g); [exact H|]. apply in_or_app. left. exact H.
Qed.
Lemma block_kept : forall req g b, In b (ig_block g) -> In b (ig_block (add_required_fields req g)).
Proof.
  unfold add_required_fields. induction req as [|[[gd n] t] req IH]; intros g b H; simpl; [exact H|].
  destruct (guard_holds gd g); apply IH; [apply block_kept_add_field|]; exact H.
Qed.

Section C16.
  Variable G : gen.

  (* what an accepted integration guarantees about its references *)
  Lemma accepted_refs : forall g g', fix_one G g = Some g' ->
    (forall i, In i (selected (ig_inputs g)) -> In (i_col i) (col_names (ig_table g'))) /\
    (forall b, In b (ig_block g) -> bd_col b <> [] /\ In (bd_col b) (col_names (ig_table g'))) /\
    (forall n, In n (ig_notif g) -> In n (col_names (ig_table g'))).
  Proof.
    intros g g' H. destruct (fix_one_spec G g g' H) as [Hv [Hi [Hn _]]].
    assert (Hb : forall b, In b (ig_block g) -> In b (ig_block g')).
    { intros b Hb. unfold fix_one in H.
      set (a := if is_nil (ig_agg g) then s_or else ig_agg g) in *.
      destruct (negb (str_eqb a s_and || str_eqb a s_or || is_nil a)); [discriminate|].
      destruct (validate_col_refs _); [|discriminate]. inversion H; subst g'. simpl.
      apply block_kept. exact Hb. }
    unfold validate_col_refs in Hv.
    apply andb_true_iff in Hv as [Hv V6]. apply andb_true_iff in Hv as [Hv V5].
    apply andb_true_iff in Hv as [Hv V4]. rewrite forallb_forall in V4, V5, V6.
    repeat split.
    - intros i Hin. rewrite <- Hi in Hin. apply mem_In. apply V4. exact Hin.
    - specialize (V5 b (Hb b H0)). apply andb_true_iff in V5 as [V _]. intro E. rewrite E in V. discriminate.
    - specialize (V5 b (Hb b H0)). apply andb_true_iff in V5 as [_ V]. apply mem_In. exact V.
    - intros n Hin. rewrite <- Hn in Hin. apply mem_In. apply V6. exact Hin.
  Qed.

  (* ... hence a reference to a column that is neither declared nor one of
     the automatically added ones is rejected *)
  Lemma missing_rejected : forall g,
    (exists i, In i (selected (ig_inputs g)) /\ ~ In (i_col i) (col_names (ig_table g)) /\ ~ In (i_col i) (req_names G)) \/
    (exists b, In b (ig_block g) /\ (bd_col b = [] \/
               (~ In (bd_col b) (col_names (ig_table g)) /\ ~ In (bd_col b) (req_names G)))) \/
    (exists n, In n (ig_notif g) /\ ~ In n (col_names (ig_table g)) /\ ~ In n (req_names G)) ->
    fix_one G g = None.
  Proof.
    intros g Hbad. destruct (fix_one G g) as [g'|] eqn:E; [|reflexivity]. exfalso.
    destruct (accepted_refs g g' E) as [A1 [A2 A3]].
    destruct (fix_one_spec G g g' E) as [_ [_ [_ [_ [_ [_ [Hcols _]]]]]]].
    destruct Hbad as [[i [Hi [N1 N2]]]|[[b [Hb Hbb]]|[n [Hn [N1 N2]]]]].
    - destruct (Hcols _ (A1 i Hi)); contradiction.
    - destruct (A2 b Hb) as [B1 B2]. destruct Hbb as [Hbb|[N1 N2]]; [contradiction|].
      destruct (Hcols _ B2); contradiction.
    - destruct (Hcols _ (A3 n Hn)); contradiction.
  Qed.

  (* rows of two integrations that share a table under one key never conflict *)
  Lemma cross_no_conflict : forall possible u g1 g2 src1 src2 c1 c2,
    identity_plain possible u g1 = true -> identity_plain possible u g2 = true ->
    In n_ig_name u -> ig_name g1 <> ig_name g2 ->
    conflict (key u (row_of g1 src1 c1)) (key u (row_of g2 src2 c2)) = false.
  Proof.
    intros possible u g1 g2 src1 src2 c1 c2 P1 P2 Hin Hne.
    destruct (conflict _ _) eqn:Hc; [|reflexivity]. exfalso. apply Hne.
    unfold conflict in Hc. rewrite (key_cells possible u g1 src1 P1), (key_cells possible u g2 src2 P2) in Hc.
    apply andb_true_iff in Hc as [_ Heq].
    pose proof (list_eqb_map _ _ _ Heq n_ig_name Hin) as E. simpl in E.
    change (str_eqb (ig_name g1) (ig_name g2) = true) in E. apply str_eqb_eq. exact E.
  Qed.
End C16.
