(* Bridge between the client model (Model/Client.v, theorems of C07) and the
   task model (Model/Task*.v, C01..C06).  The task theorems ASSUME of every
   delivered partition of a load that it is numbered as requested
   ([seg_numbered], part of [reply_ok]) and, for the reorg theorems, internally
   hash-linked.  Here: whenever the modelled client's [get] returns [Ok bs],
   the abstraction of [bs] to the task model's blocks has exactly these
   properties -- for EVERY plan, range and family of replies [w].

   The abstraction [abs] forgets: the header payload (timestamp, bloom), the
   transactions with their logs, receipts and traces -- of which only the rows
   the task's integration derives ([rowsf], the row builder, a parameter)
   remain -- and replaces 32-byte hashes by ids ([hid], any injective map that
   sends exactly the empty hash to 0). *)
From Coq Require Import List NArith Bool Lia ZifyBool ZifyN ZifyNat.
From Shovel Require Import Base.Outcome.
From Shovel Require Model.Client Model.ClientSpec Proofs.ClientP.
From Shovel Require Import Model.TaskTypes Model.TaskDb Model.Task Model.TaskNode Model.TaskSys
  Model.TaskSpec Proofs.TaskLoadP.
Import ListNotations.
Open Scope N_scope.

Section Bridge.
Variable hid : bytes -> N.
Variable rowsf : Client.block -> list (N * N).
Hypothesis hid_nil : forall h, hid h = 0 <-> h = [].

Definition abs (b : Client.block) : blk :=
  Blk (Client.b_num b) (hid (Client.b_hash b)) (hid (Client.b_parent b)) (rowsf b).

Lemma seqN_nums : forall n s, ClientSpec.seqN s n = nums_from s n.
Proof.
  unfold ClientSpec.seqN. intros n. induction n as [|n IH]; intros s; [reflexivity|].
  cbn [seq map nums_from]. f_equal; [lia|]. rewrite <- seq_shift, map_map, <- IH.
  apply map_ext. intros i. lia.
Qed.

(* numbering: discharged by C07 get_ok_exact_numbers *)
Lemma get_seg_numbered : forall p s l w bs,
  Client.get p s l w = Ok bs -> seg_numbered (s, l) (SegOk (map abs bs)).
Proof.
  intros p s l w bs H. cbn [seg_numbered fst snd]. rewrite map_map.
  rewrite (map_ext _ Client.b_num) by (intros; reflexivity).
  rewrite (ClientP.get_numbers p s l w bs H). apply seqN_nums.
Qed.

(* internal linkage: discharged by C07 get_ok_linked (+ numbering) *)
Lemma linked_abs : forall bs prev,
  ClientSpec.linked (prev :: bs) ->
  map Client.b_num bs = nums_from (Client.b_num prev + 1) (length bs) ->
  Task.linked_from (abs prev) (map abs bs) = true.
Proof.
  induction bs as [|b bs IH]; intros prev Hl Hn; [reflexivity|].
  cbn [map Task.linked_from]. cbn [map length nums_from] in Hn. inversion Hn as [[Hb Hr]].
  change (Client.b_parent b = Client.b_hash prev /\ ClientSpec.linked (b :: bs)) in Hl.
  destruct Hl as [Hp Hl]. cbn [abs b_num b_parent b_hash]. rewrite Hb, Hp, !N.eqb_refl.
  rewrite orb_true_r. cbn [andb]. apply IH; [exact Hl|]. exact Hr.
Qed.

Lemma get_seg_linked : forall p s l w bs,
  ClientSpec.fetches p = true -> Client.get p s l w = Ok bs ->
  chain_ok (map abs bs) = true
  /\ Forall (fun b => b_hash b <> 0) (map abs bs).
Proof.
  intros p s l w bs Hf H. destruct (ClientP.get_linked p s l w bs Hf H) as [Hl Hk].
  pose proof (ClientP.get_numbers p s l w bs H) as Hn. rewrite seqN_nums in Hn. split.
  - destruct bs as [|b0 bs]; [reflexivity|]. cbn [map chain_ok].
    apply linked_abs; [exact Hl|].
    assert (El : N.to_nat l = length (b0 :: bs)) by (rewrite <- (map_length Client.b_num), Hn; symmetry; apply nums_from_length).
    rewrite El in Hn. cbn [map length nums_from] in Hn. inversion Hn as [[Hb Hr]]. first [reflexivity | exact Hr | rewrite Hb; exact Hr].
  - apply Forall_forall. intros x Hx. apply in_map_iff in Hx. destruct Hx as (b & <- & Hb).
    cbn [abs b_hash]. intros E. apply hid_nil in E. revert E. apply Hk. exact Hb.
Qed.

(* a load whose partitions are all answered by the modelled client satisfies
   the assumption [reply_ok] of the task theorems *)
Definition client_answer (pr : N * N) (r : segres) : Prop :=
  match r with
  | SegFail _ => True
  | SegOk xs => exists p w bs, Client.get p (fst pr) (snd pr) w = Ok bs /\ xs = map abs bs
  end.

Lemma client_reply_ok : forall ps rs,
  Forall2 client_answer ps rs -> reply_ok (RGet ps) (RSegs rs).
Proof.
  intros ps rs H. cbn [reply_ok]. induction H as [|pr r ps rs Hr _ IH]; constructor; [|exact IH].
  destruct r as [xs|k]; [|exact I]. destruct Hr as (p & w & bs & Hg & ->).
  destruct pr as [s l]. apply (get_seg_numbered p s l w bs Hg).
Qed.
End Bridge.
