(* Task.load after eg.Wait: what the merged, sorted, checked batch looks like
   when every delivered partition is numbered as requested. *)
From Coq Require Import List NArith Bool Lia ZifyBool ZifyN ZifyNat.
From Shovel Require Import Model.TaskTypes Model.TaskDb Model.Task Model.TaskNode Model.TaskSys
  Model.TaskSpec Proofs.TaskArithP Proofs.TaskDbP Proofs.TaskExecP.
Import ListNotations.
Open Scope N_scope.

Lemma nums_from_app : forall a b m,
  nums_from m (a + b) = nums_from m a ++ nums_from (m + N.of_nat a) b.
Proof.
  induction a as [|a IH]; intros b m.
  - cbn. rewrite N.add_0_r. reflexivity.
  - cbn [Nat.add nums_from app]. rewrite IH. f_equal. f_equal. f_equal. lia.
Qed.

Lemma nums_from_length : forall n m, length (nums_from m n) = n.
Proof. induction n as [|n IH]; intros m; [reflexivity|]. cbn. rewrite IH. reflexivity. Qed.

Lemma nums_from_in : forall n m x, In x (nums_from m n) -> m <= x < m + N.of_nat n.
Proof.
  induction n as [|n IH]; intros m x H; [destruct H|].
  cbn [nums_from] in H. destruct H as [<-|H]; [lia|]. apply IH in H. lia.
Qed.

Lemma merge_segs_blocks : forall rs bs,
  merge_segs rs = Some bs -> bs = concat (map seg_blocks rs).
Proof.
  induction rs as [|r rs IH]; intros bs H; cbn [merge_segs] in H.
  - inversion H. reflexivity.
  - destruct r as [x|k]; [|discriminate].
    destruct (merge_segs rs) as [y|]; [|discriminate]. inversion H; subst.
    cbn. f_equal. apply IH. reflexivity.
Qed.

(* tiled requests + numbered answers = one numbered run *)
Lemma merge_numbered : forall ps m e rs bs,
  tiles m e ps -> Forall2 seg_numbered ps rs -> merge_segs rs = Some bs ->
  map b_num bs = nums_from m (N.to_nat (e - m)) /\ m <= e.
Proof.
  intros ps m e rs bs T. revert rs bs. induction T as [m|m n e r Hn T IH]; intros rs bs F M.
  - inversion F; subst. cbn in M. inversion M; subst. rewrite N.sub_diag. split; [reflexivity|lia].
  - inversion F as [|? y ? rs' Hy F']; subst. cbn [merge_segs] in M.
    destruct y as [x|k]; [|discriminate].
    destruct (merge_segs rs') as [z|] eqn:E; [|discriminate]. inversion M; subst.
    destruct (IH rs' z F' E) as [A B].
    cbn in Hy. split; [|lia]. rewrite map_app, Hy, A.
    replace (N.to_nat (e - m)) with (N.to_nat n + N.to_nat (e - (m + n)))%nat by lia.
    rewrite nums_from_app. f_equal. f_equal. lia.
Qed.

(* insertion sort is the identity on a run *)
Lemma ins_blk_lt : forall b l, Forall (fun y => b_num b < b_num y) l -> ins_blk b l = b :: l.
Proof.
  intros b l H. destruct l as [|x l]; [reflexivity|]. cbn [ins_blk].
  inversion H; subst. destruct (N.ltb_spec (b_num b) (b_num x)); [reflexivity|lia].
Qed.

Lemma sort_run : forall n bs m, map b_num bs = nums_from m n -> sort_blocks bs = bs.
Proof.
  induction n as [|n IH]; intros bs m H.
  - destruct bs; [reflexivity|discriminate].
  - destruct bs as [|b bs]; [discriminate|]. cbn [map nums_from] in H. inversion H as [[Hb Hr]].
    unfold sort_blocks in *. cbn [fold_right]. rewrite (IH bs _ Hr).
    apply ins_blk_lt. apply Forall_forall. intros y Hy.
    apply (in_map b_num) in Hy. rewrite Hr in Hy. apply nums_from_in in Hy. lia.
Qed.

Lemma linked_from_chain : forall first rest, linked_from first rest = true -> chain_ok (first :: rest) = true.
Proof. intros. exact H. Qed.

(* the load arithmetic of one iteration: requests tile [ln+1, ln+1+delta) *)
Record loaded (lh ln delta : N) (bs : list blk) : Prop := Loaded {
  ld_nums : map b_num bs = nums_from (ln + 1) (N.to_nat delta);
  ld_chain : chain_ok bs = true;
  ld_first : match bs with
             | [] => False
             | f :: _ => b_parent f = 0 \/ lh = b_parent f
             end
}.

Lemma load_check_cases : forall lh ln delta ps rs,
  tiles (ln + 1) (ln + 1 + delta) ps -> 1 <= delta ->
  Forall2 seg_numbered ps rs ->
  match load_check repaired lh rs with
  | LBlocks bs => loaded lh ln delta bs /\ bs = concat (map seg_blocks rs)
  | LReorg => exists f, In f (concat (map seg_blocks rs)) /\ b_num f = ln + 1
                        /\ b_parent f <> 0 /\ lh <> b_parent f
  | LErr => True
  | LPanic => False
  end.
Proof.
  intros lh ln delta ps rs T Hd F. unfold load_check.
  destruct (merge_segs rs) as [bs|] eqn:M; [|exact I].
  destruct (merge_numbered ps _ _ rs bs T F M) as [Hn _].
  replace (ln + 1 + delta - (ln + 1)) with delta in Hn by lia.
  rewrite (sort_run _ bs _ Hn).
  pose proof (merge_segs_blocks rs bs M) as Eb.
  destruct bs as [|f rest].
  - destruct (N.to_nat delta) eqn:E; [lia|discriminate].
  - assert (Hf : b_num f = ln + 1).
    { destruct (N.to_nat delta); [discriminate|]. cbn in Hn. inversion Hn. reflexivity. }
    destruct (N.eqb_spec (b_parent f) 0) as [P|P]; cbn [negb andb].
    + cbn [v_xlink repaired negb orb].
      destruct (linked_from f rest) eqn:L; [|exact I].
      split; [|exact Eb]. constructor; [exact Hn|exact L|left; exact P].
    + destruct (N.eqb_spec lh (b_parent f)) as [Q|Q]; cbn [negb].
      * cbn [v_xlink repaired negb orb].
        destruct (linked_from f rest) eqn:L; [|exact I].
        split; [|exact Eb]. constructor; [exact Hn|exact L|right; exact Q].
      * exists f. rewrite <- Eb. split; [left; reflexivity|]. repeat split; assumption.
Qed.

(* ---------- joining a checked batch to a ghost ---------- *)
Lemma chain_ok_join : forall l1 f l2,
  chain_ok l1 = true -> chain_ok (f :: l2) = true -> l1 <> [] ->
  b_num f = b_num (last_blk l1) + 1 ->
  (b_parent f = 0 \/ b_hash (last_blk l1) = b_parent f) ->
  chain_ok (l1 ++ f :: l2) = true.
Proof.
  intros l1 f l2 H1 H2 Hne Hn Hp. destruct l1 as [|a l1]; [congruence|].
  cbn [app chain_ok] in *. apply linked_from_app_inv; [exact H1|].
  cbn [linked_from]. rewrite H2, andb_true_r.
  assert (E : last l1 a = last_blk (a :: l1)).
  { unfold last_blk. rewrite last_cons_default. reflexivity. }
  rewrite E. apply andb_true_intro. split; [lia|].
  destruct Hp as [Hp|Hp]; [rewrite Hp; reflexivity|].
  rewrite Hp, N.eqb_refl. apply orb_true_r.
Qed.

Lemma last_blk_concat_snoc : forall (p : list (list blk)) b, b <> [] ->
  last_blk (concat (p ++ [b])) = last_blk b.
Proof. intros p b H. rewrite concat_snoc. apply last_blk_app. exact H. Qed.

Lemma nums_from_last : forall n m bs,
  map b_num bs = nums_from m (S n) -> b_num (last_blk bs) = m + N.of_nat n.
Proof.
  induction n as [|n IH]; intros m bs H.
  - destruct bs as [|b [|b' bs]]; try discriminate. cbn in H. inversion H. cbn. lia.
  - destruct bs as [|b bs]; [discriminate|]. cbn [map nums_from] in H. inversion H as [[Hb Hr]].
    destruct bs as [|b' bs]; [discriminate|].
    change (last_blk (b :: b' :: bs)) with (last_blk (b' :: bs)).
    rewrite (IH _ (b' :: bs) Hr). lia.
Qed.
