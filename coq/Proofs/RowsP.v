(* Lemmas about Model/Rows.v (C11). *)
From Coq Require Import String Ascii List NArith ZArith Bool Lia ZifyBool ZifyN ZifyNat.
From Shovel Require Import Base.Outcome Model.Hex Model.Filter Model.Rows Proofs.FilterP.
Import ListNotations.
Open Scope N_scope.
Local Arguments N.add : simpl never.
Local Arguments N.sub : simpl never.
Local Arguments N.mul : simpl never.
Local Arguments N.div : simpl never.
Local Arguments N.leb : simpl never.
Local Arguments N.ltb : simpl never.
Local Arguments N.pow : simpl never.
Local Arguments N.modulo : simpl never.
Local Arguments Z.add : simpl never.
Local Arguments Z.sub : simpl never.
Local Arguments Z.mul : simpl never.
Local Arguments Z.modulo : simpl never.
Local Arguments Z.pow : simpl never.

(* ================= typing ================= *)
Lemma be_val_from b : forall acc,
  fold_left (fun a x => a * 256 + x) b acc = acc * 256 ^ N.of_nat (length b) + be_val b.
Proof.
  unfold be_val. induction b as [|x b IH]; intros acc.
  - simpl. rewrite N.pow_0_r. lia.
  - cbn [fold_left length]. rewrite IH. rewrite (IH (0 * 256 + x)).
    rewrite Nat2N.inj_succ, N.pow_succ_r'. lia.
Qed.

Lemma be_val_app a b : be_val (a ++ b) = be_val a * 256 ^ N.of_nat (length b) + be_val b.
Proof. unfold be_val at 1. rewrite fold_left_app. rewrite be_val_from. reflexivity. Qed.

Lemma be_bytes_length n : forall v, length (be_bytes n v) = n.
Proof. induction n; intros v; simpl; [reflexivity|]. rewrite app_length, IHn. simpl. lia. Qed.

Lemma be_val_be_bytes n : forall v, be_val (be_bytes n v) = v mod 256 ^ N.of_nat n.
Proof.
  induction n as [|n IH]; intros v.
  - simpl. rewrite N.pow_0_r, N.mod_1_r. reflexivity.
  - cbn [be_bytes]. rewrite be_val_app, IH.
    change (N.of_nat (length [v mod 256])) with 1. rewrite N.pow_1_r.
    change (be_val [v mod 256]) with (0 * 256 + v mod 256).
    rewrite Nat2N.inj_succ, N.pow_succ_r'.
    assert (P : 256 ^ N.of_nat n <> 0) by (apply N.pow_nonzero; discriminate).
    rewrite (N.mod_mul_r v 256 (256 ^ N.of_nat n)) by (discriminate || exact P). lia.
Qed.

Lemma pow256_32 : 256 ^ N.of_nat 32 = two256.
Proof. vm_compute. reflexivity. Qed.

Lemma word256_word_of_N v : v < two256 -> word256 (word_of_N v) = v.
Proof.
  intros H. unfold word256, word_of_N. rewrite be_val_be_bytes, pow256_32.
  rewrite N.mod_mod by (vm_compute; discriminate). apply N.mod_small. exact H.
Qed.

Lemma be_bytes_wf n : forall v, wf_bytes (be_bytes n v).
Proof.
  induction n; intros v; simpl; [constructor|].
  apply Forall_app. split; [apply IHn|]. constructor; [|constructor].
  apply N.mod_lt. discriminate.
Qed.

(* type strings *)
Lemma take_until_app_nobr p r : Forall (fun c => c <> 91) p ->
  take_until 91 (p ++ r) = p ++ take_until 91 r.
Proof.
  induction 1 as [|c p Hc _ IH]; [reflexivity|]. simpl.
  destruct (c =? 91) eqn:E; [apply N.eqb_eq in E; contradiction|]. rewrite IH. reflexivity.
Qed.

Lemma has_prefix_app p r : has_prefix p (p ++ r) = true.
Proof. apply has_prefix_spec. exists r. reflexivity. Qed.

Ltac nobr := repeat constructor; discriminate.

(* uintN, uintN[...]: the unsigned value of the word *)
Lemma dbtype_uint rest v : v < two256 ->
  dbtype fixed (s2b "uint" ++ rest) (Some (word_of_N v)) = VU256 v.
Proof.
  intros H. unfold dbtype. cbn [lg_dbtype fixed]. unfold elem_type.
  rewrite take_until_app_nobr by (vm_compute; nobr).
  change (has_prefix (s2b "int") (s2b "uint" ++ take_until 91 rest)) with false.
  rewrite has_prefix_app. cbn [ob]. rewrite word256_word_of_N by exact H. reflexivity.
Qed.

Lemma two255_lt : two255 < two256. Proof. vm_compute. reflexivity. Qed.
Lemma two256_pos : (0 < Z.of_N two256)%Z. Proof. vm_compute. reflexivity. Qed.
Lemma two256_double : two256 = 2 * two255. Proof. vm_compute. reflexivity. Qed.

Lemma twos256_lt z : twos256 z < two256.
Proof.
  unfold twos256. pose proof (Z.mod_pos_bound z (Z.of_N two256) two256_pos). lia.
Qed.

Lemma signed256_twos256 z :
  (- Z.of_N two255 <= z < Z.of_N two255)%Z -> signed256 (twos256 z) = z.
Proof.
  intros H. unfold signed256, twos256.
  pose proof two256_double as D. pose proof two256_pos as P.
  destruct (Z_lt_le_dec z 0) as [Hn|Hp].
  - assert (E : (z mod Z.of_N two256 = z + Z.of_N two256)%Z).
    { symmetry. apply Z.mod_unique with (q := (-1)%Z); lia. }
    rewrite E. replace (Z.to_N (z + Z.of_N two256) <? two255) with false by lia. lia.
  - rewrite Z.mod_small by lia. replace (Z.to_N z <? two255) with true by lia. lia.
Qed.

(* intN, intN[...]: the signed reading of the (sign-extended) word *)
Lemma dbtype_int rest z : (- Z.of_N two255 <= z < Z.of_N two255)%Z ->
  cell_of (dbtype fixed (s2b "int" ++ rest) (Some (word_of_Z z))) = CInt z.
Proof.
  intros H. unfold dbtype. cbn [lg_dbtype fixed]. unfold elem_type.
  rewrite take_until_app_nobr by (vm_compute; nobr).
  rewrite has_prefix_app. cbn [ob cell_of]. unfold word_of_Z.
  fold (word_of_N (twos256 z)). rewrite word256_word_of_N by apply twos256_lt.
  rewrite signed256_twos256 by exact H. reflexivity.
Qed.

(* the w-bit two's complement pattern of z, sign-extended to 256 bits, is the
   256-bit two's complement pattern of z: every width is covered by dbtype_int *)
Lemma sign_extend_twos w z :
  0 < w <= 256 -> (- 2 ^ (Z.of_N w - 1) <= z < 2 ^ (Z.of_N w - 1))%Z ->
  sign_extend w (Z.to_N (z mod 2 ^ Z.of_N w)) = twos256 z.
Proof.
  intros Hw Hz. unfold sign_extend, twos256.
  set (H := (2 ^ (Z.of_N w - 1))%Z) in *.
  assert (HW : (2 ^ Z.of_N w = 2 * H)%Z).
  { unfold H. replace (Z.of_N w) with (Z.succ (Z.of_N w - 1)) at 1 by lia.
    rewrite Z.pow_succ_r by lia. reflexivity. }
  assert (Hpos : (0 < H)%Z) by (unfold H; apply Z.pow_pos_nonneg; lia).
  assert (HN : Z.of_N (2 ^ (w - 1)) = H) by (unfold H; rewrite N2Z.inj_pow; f_equal; lia).
  assert (HNW : Z.of_N (2 ^ w) = (2 * H)%Z) by (rewrite N2Z.inj_pow; exact HW).
  assert (HT : (2 * H <= Z.of_N two256)%Z).
  { rewrite <- HW. unfold two256. rewrite N2Z.inj_pow. apply Z.pow_le_mono_r; lia. }
  rewrite HW.
  destruct (Z_lt_le_dec z 0) as [Hn|Hp].
  - assert (E1 : (z mod (2 * H) = z + 2 * H)%Z)
      by (symmetry; apply Z.mod_unique with (q := (-1)%Z); lia).
    assert (E2 : (z mod Z.of_N two256 = z + Z.of_N two256)%Z)
      by (symmetry; apply Z.mod_unique with (q := (-1)%Z); lia).
    rewrite E1, E2. replace (Z.to_N (z + 2 * H) <? 2 ^ (w - 1)) with false by lia. lia.
  - rewrite !Z.mod_small by lia. replace (Z.to_N z <? 2 ^ (w - 1)) with true by lia. reflexivity.
Qed.

Lemma dbtype_address rest a : length a = 20%nat ->
  dbtype fixed (s2b "address" ++ rest) (Some (repeat 0 12 ++ a)) = VBytes (Some a).
Proof.
  intros H. unfold dbtype. cbn [lg_dbtype fixed]. unfold elem_type.
  rewrite take_until_app_nobr by (vm_compute; nobr).
  change (has_prefix (s2b "int") (s2b "address" ++ take_until 91 rest)) with false.
  change (has_prefix (s2b "uint") (s2b "address" ++ take_until 91 rest)) with false.
  rewrite has_prefix_app. cbn [ob]. rewrite app_length, repeat_length, H. reflexivity.
Qed.

Lemma dbtype_bool (b : bool) :
  dbtype fixed (s2b "bool") (Some (word_of_N (if b then 1 else 0))) = VBool b /\
  (forall k, dbtype fixed (s2b "bool" ++ 91 :: k) (Some (word_of_N (if b then 1 else 0))) = VBool b).
Proof. split; [|intros k]; destruct b; reflexivity. Qed.

Lemma dbtype_string s :
  dbtype fixed (s2b "string") (Some s) = VStr s /\ dbtype fixed (s2b "string") None = VStr [] /\
  (forall k, dbtype fixed (s2b "string" ++ 91 :: k) (Some s) = VStr s).
Proof. repeat split. Qed.

Lemma dbtype_bytes s :
  dbtype fixed (s2b "bytes") (Some s) = VBytes (Some s) /\
  dbtype fixed (s2b "bytes") None = VBytes (Some []) /\
  (forall k, dbtype fixed (s2b "bytes" ++ 91 :: k) (Some s) = VBytes (Some s)).
Proof. repeat split; try intros k; destruct s; reflexivity. Qed.

(* bytesN (N = 1..32): the word unchanged *)
Lemma dbtype_bytesN d c rest : c <> 91 ->
  dbtype fixed (s2b "bytes" ++ c :: rest) d = VBytes d.
Proof.
  intros Hc. unfold dbtype. cbn [lg_dbtype fixed]. unfold elem_type.
  rewrite take_until_app_nobr by (vm_compute; nobr).
  simpl take_until. destruct (c =? 91) eqn:E; [apply N.eqb_eq in E; contradiction|].
  reflexivity.
Qed.

(* ================= setCols ================= *)
Lemma count_app {A} (p : A -> bool) a b : count p (a ++ b) = (count p a + count p b)%nat.
Proof. unfold count. rewrite filter_app, app_length. reflexivity. Qed.

Lemma input_coldefs_app cols a b : forall n,
  input_coldefs cols (a ++ b) n =
  input_coldefs cols a n ++ input_coldefs cols b (n + count i_indexed a)%nat.
Proof.
  induction a as [|x a IH]; intros n; simpl.
  - unfold count. simpl. rewrite Nat.add_0_r. reflexivity.
  - unfold count in *. simpl. destruct (i_indexed x); destruct (selected x); simpl;
      rewrite IH; simpl; rewrite ?Nat.add_succ_r; reflexivity.
Qed.

Lemma input_coldefs_length cols ins : forall n,
  length (input_coldefs cols ins n) = count selected ins.
Proof.
  unfold count. induction ins as [|x r IH]; intros n; simpl; [reflexivity|].
  destruct (selected x); simpl; rewrite IH; reflexivity.
Qed.

Definition input_coldef (cols : list bytes) (pre : list input) (inp : input) : coldef :=
  {| cd_input := inp; cd_bd := empty_bd; cd_col := get_col cols (i_column inp);
     cd_topic := (count i_indexed pre + if i_indexed inp then 1 else 0)%nat |}.

Lemma coldefs_split d pre inp post :
  d_inputs d = pre ++ inp :: post -> selected inp = true ->
  coldefs d = input_coldefs (d_table_cols d) pre 0
              ++ input_coldef (d_table_cols d) pre inp
              :: input_coldefs (d_table_cols d) post (count i_indexed pre + if i_indexed inp then 1 else 0)%nat
              ++ map (bd_coldef (d_table_cols d)) (d_block d).
Proof.
  intros E S. unfold coldefs. rewrite E, input_coldefs_app. simpl. rewrite S.
  rewrite <- app_assoc. simpl. unfold input_coldef.
  destruct (i_indexed inp); simpl; rewrite ?Nat.add_1_r, ?Nat.add_0_r; reflexivity.
Qed.

Lemma coldefs_input_nth d pre inp post :
  d_inputs d = pre ++ inp :: post -> selected inp = true ->
  nth_error (coldefs d) (count selected pre) = Some (input_coldef (d_table_cols d) pre inp)
  /\ firstn (count selected pre) (coldefs d) = input_coldefs (d_table_cols d) pre 0.
Proof.
  intros E S. rewrite (coldefs_split d pre inp post E S).
  rewrite <- (input_coldefs_length (d_table_cols d) pre 0). split.
  - rewrite nth_error_app2 by lia. rewrite Nat.sub_diag. reflexivity.
  - rewrite firstn_app, Nat.sub_diag, firstn_all. simpl. apply app_nil_r.
Qed.

Lemma num_selected_length d :
  length (input_coldefs (d_table_cols d) (d_inputs d) 0) = num_selected d.
Proof. apply input_coldefs_length. Qed.

Lemma coldefs_bd_nth d k bd :
  nth_error (d_block d) k = Some bd ->
  nth_error (coldefs d) (num_selected d + k) = Some (bd_coldef (d_table_cols d) bd).
Proof.
  intros H. unfold coldefs. rewrite nth_error_app2 by (rewrite num_selected_length; lia).
  rewrite num_selected_length. replace (num_selected d + k - num_selected d)%nat with k by lia.
  rewrite nth_error_map, H. reflexivity.
Qed.

Lemma coldefs_length d : length (coldefs d) = (num_selected d + num_bd d)%nat.
Proof. unfold coldefs. rewrite app_length, map_length, num_selected_length. reflexivity. Qed.


Lemma input_coldefs_counts cols ins : forall n,
  count cd_indexed (input_coldefs cols ins n) = count (fun i => selected i && i_indexed i) ins
  /\ count cd_data (input_coldefs cols ins n) = count is_data ins.
Proof.
  unfold count, is_data. induction ins as [|x r IH]; intros n; simpl; [split; reflexivity|].
  destruct (selected x) eqn:Sx; simpl.
  - unfold cd_data, cd_indexed, cd_is_bd. simpl. destruct (i_indexed x); simpl;
      destruct (IH (Datatypes.S n)) as [I1 I2]; destruct (IH n) as [J1 J2];
      unfold cd_data, cd_indexed, cd_is_bd in *; simpl in *; rewrite ?I1, ?I2, ?J1, ?J2; split; reflexivity.
  - apply IH.
Qed.

(* ================= the coldef loops ================= *)
Lemma bind_ok {A B} (o : outcome A) (f : A -> outcome B) y :
  bind o f = Ok y -> exists x, o = Ok x /\ f x = Ok y.
Proof. destruct o; simpl; intros H; [eexists; split; [reflexivity|exact H]|discriminate|discriminate]. Qed.

Lemma count_cons {A} (p : A -> bool) x l :
  count p (x :: l) = ((if p x then 1 else 0) + count p l)%nat.
Proof. unfold count. simpl. destruct (p x); reflexivity. Qed.


(* value of one coldef in the data branch; [ic], [ac]: the counters when the loop reaches it *)
Definition data_cell_rel (vr : variant) (e : env) (topics : list bytes) (srow : list obytes)
           (i ic ac : nat) (cd : coldef) (v : gval) : Prop :=
  if cd_indexed cd then
    exists tp, nth_error topics (if lg_topic vr then ic else cd_topic cd) = Some tp
               /\ v = dbtype vr (i_type (cd_input cd)) (Some tp)
  else if cd_is_bd cd then
         (if fld (bd_name (cd_bd cd)) "abi_idx" then v = VInt (Z.of_nat i)
          else get_field e (bd_name (cd_bd cd)) = Ok v)
       else exists c, nth_error srow ac = Some c /\ v = dbtype vr (i_type (cd_input cd)) c.

Definition loop_post (k : bool) (dbs : db) (fo : coldef -> option flt) (cds : list coldef) (fr : frs)
           (cells : list gval) (fr' : frs) (rel : nat -> coldef -> gval -> Prop) : Prop :=
  exists rs,
    fr' = fold_left (frs_step k) rs fr /\ length cells = length cds /\ length rs = length cds /\
    forall j cd, nth_error cds j = Some cd ->
      exists v r, nth_error cells j = Some v /\ nth_error rs j = Some r /\
                  rel j cd v /\ result_rel dbs (fo cd) v r.

Ltac inv_bind H :=
  let x := fresh "x" in let Hx := fresh "Hx" in
  apply bind_ok in H; destruct H as [x [Hx H]].

Tactic Notation "inv_bind_as" hyp(H) ident(x) ident(Hx) :=
  apply bind_ok in H; destruct H as [x [Hx H]].

Lemma data_cells_inv vr k dbs e topics srow i : forall cds ictr actr fr cells fr',
  data_cells vr k dbs e topics srow i cds ictr actr fr = Ok (cells, fr') ->
  loop_post k dbs (cd_filter true) cds fr cells fr'
    (fun j cd v => data_cell_rel vr e topics srow i
                     (ictr + count cd_indexed (firstn j cds))
                     (actr + count cd_data (firstn j cds)) cd v).
Proof.
  induction cds as [|cd rest IH]; intros ictr actr fr cells fr' H; simpl in H.
  - injection H as <- <-. exists []. repeat split. intros [|j] cd Hj; discriminate.
  - destruct (i_indexed (cd_input cd)) eqn:Ei.
    + destruct (nth_error topics (if lg_topic vr then ictr else cd_topic cd)) as [tp|] eqn:Et; [|discriminate].
      inv_bind H. inv_bind H. destruct x0 as [cs fr2]. injection H as <- <-.
      rewrite accept_spec in Hx. inv_bind Hx. injection Hx as <-.
      destruct (IH _ _ _ _ _ Hx0) as [rs [E1 [L1 [L2 Hn]]]].
      exists (x0 :: rs). simpl. split; [exact E1|]. split; [congruence|]. split; [congruence|].
      intros [|j] cd' Hj; simpl in Hj.
      * injection Hj as <-. eexists; eexists. split; [reflexivity|]. split; [reflexivity|]. split.
        -- unfold data_cell_rel, cd_indexed. rewrite Ei. exists tp. simpl.
           rewrite Nat.add_0_r. split; [exact Et|reflexivity].
        -- unfold result_rel, cd_filter, cd_indexed. rewrite Ei. exact Hx1.
      * destruct (Hn j cd' Hj) as [v' [r' [H1 [H2 [H3 H4]]]]].
        exists v', r'. repeat split; try assumption.
        simpl firstn. rewrite !count_cons. unfold cd_data at 1. unfold cd_indexed at 1 3.
        rewrite Ei. simpl. rewrite Nat.add_succ_r in *. simpl in H3. exact H3.
    + destruct (cd_is_bd cd) eqn:Eb.
      * destruct (fld (bd_name (cd_bd cd)) "abi_idx") eqn:Ea.
        -- inv_bind H. destruct x as [cs fr2]. injection H as <- <-.
           destruct (IH _ _ _ _ _ Hx) as [rs [E1 [L1 [L2 Hn]]]].
           exists (None :: rs). simpl. split; [exact E1|]. split; [congruence|]. split; [congruence|].
           intros [|j] cd' Hj; simpl in Hj.
           ++ injection Hj as <-. eexists; eexists. split; [reflexivity|]. split; [reflexivity|]. split.
              ** unfold data_cell_rel, cd_indexed. rewrite Ei, Eb, Ea. reflexivity.
              ** unfold result_rel, cd_filter, cd_indexed. rewrite Ei, Eb, Ea. reflexivity.
           ++ destruct (Hn j cd' Hj) as [v' [r' [H1 [H2 [H3 H4]]]]].
              exists v', r'. repeat split; try assumption.
              simpl firstn. rewrite !count_cons. unfold cd_data at 1. unfold cd_indexed at 1 3.
              rewrite Ei, Eb. simpl. exact H3.
        -- inv_bind H. inv_bind H. inv_bind H. destruct x1 as [cs fr2]. injection H as <- <-.
           rewrite accept_spec in Hx0. inv_bind Hx0. injection Hx0 as <-.
           destruct (IH _ _ _ _ _ Hx1) as [rs [E1 [L1 [L2 Hn]]]].
           exists (x1 :: rs). simpl. split; [exact E1|]. split; [congruence|]. split; [congruence|].
           intros [|j] cd' Hj; simpl in Hj.
           ++ injection Hj as <-. eexists; eexists. split; [reflexivity|]. split; [reflexivity|]. split.
              ** unfold data_cell_rel, cd_indexed. rewrite Ei, Eb, Ea. exact Hx.
              ** unfold result_rel, cd_filter, cd_indexed. rewrite Ei, Eb, Ea. exact Hx2.
           ++ destruct (Hn j cd' Hj) as [v' [r' [H1 [H2 [H3 H4]]]]].
              exists v', r'. repeat split; try assumption.
              simpl firstn. rewrite !count_cons. unfold cd_data at 1. unfold cd_indexed at 1 3.
              rewrite Ei, Eb. simpl. exact H3.
      * destruct (nth_error srow actr) as [c|] eqn:Ec; [|discriminate].
        inv_bind H. inv_bind H. destruct x0 as [cs fr2]. injection H as <- <-.
        rewrite accept_spec in Hx. inv_bind Hx. injection Hx as <-.
        destruct (IH _ _ _ _ _ Hx0) as [rs [E1 [L1 [L2 Hn]]]].
        exists (x0 :: rs). simpl. split; [exact E1|]. split; [congruence|]. split; [congruence|].
        intros [|j] cd' Hj; simpl in Hj.
        -- injection Hj as <-. eexists; eexists. split; [reflexivity|]. split; [reflexivity|]. split.
           ++ unfold data_cell_rel, cd_indexed. rewrite Ei, Eb. exists c. simpl.
              rewrite Nat.add_0_r. split; [exact Ec|reflexivity].
           ++ unfold result_rel, cd_filter, cd_indexed. rewrite Ei, Eb. exact Hx1.
        -- destruct (Hn j cd' Hj) as [v' [r' [H1 [H2 [H3 H4]]]]].
           exists v', r'. repeat split; try assumption.
           simpl firstn. rewrite !count_cons. unfold cd_data at 1. unfold cd_indexed at 1 3.
           rewrite Ei, Eb. simpl. rewrite Nat.add_succ_r in *. simpl in H3. exact H3.
Qed.

Definition nodata_cell_rel (vr : variant) (e : env) (topics : list bytes) (j : nat)
           (cd : coldef) (v : gval) : Prop :=
  if cd_indexed cd then
    exists tp, nth_error topics (if lg_topic vr then S j else cd_topic cd) = Some tp
               /\ v = dbtype vr (i_type (cd_input cd)) (Some tp)
  else cd_is_bd cd = true /\ get_field e (bd_name (cd_bd cd)) = Ok v.

Lemma nodata_cells_inv vr k dbs e topics : forall cds j0 fr cells fr',
  nodata_cells vr k dbs e topics cds j0 fr = Ok (cells, fr') ->
  loop_post k dbs (cd_filter false) cds fr cells fr'
    (fun j cd v => nodata_cell_rel vr e topics (j0 + j) cd v).
Proof.
  induction cds as [|cd rest IH]; intros j0 fr cells fr' H; simpl in H.
  - injection H as <- <-. exists []. repeat split. intros [|j] cd Hj; discriminate.
  - destruct (i_indexed (cd_input cd)) eqn:Ei.
    + destruct (nth_error topics (if lg_topic vr then S j0 else cd_topic cd)) as [tp|] eqn:Et; [|discriminate].
      inv_bind H. inv_bind H. destruct x0 as [cs fr2]. injection H as <- <-.
      rewrite accept_spec in Hx. inv_bind Hx. injection Hx as <-.
      destruct (IH _ _ _ _ Hx0) as [rs [E1 [L1 [L2 Hn]]]].
      exists (x0 :: rs). simpl. split; [exact E1|]. split; [congruence|]. split; [congruence|].
      intros [|j] cd' Hj; simpl in Hj.
      * injection Hj as <-. eexists; eexists. split; [reflexivity|]. split; [reflexivity|]. split.
        -- unfold nodata_cell_rel, cd_indexed. rewrite Ei. exists tp.
           rewrite Nat.add_0_r. split; [exact Et|reflexivity].
        -- unfold result_rel, cd_filter, cd_indexed. rewrite Ei. exact Hx1.
      * destruct (Hn j cd' Hj) as [v' [r' [H1 [H2 [H3 H4]]]]].
        exists v', r'. repeat split; try assumption.
        rewrite Nat.add_succ_r. exact H3.
    + destruct (cd_is_bd cd) eqn:Eb; [|discriminate].
      inv_bind H. inv_bind H. inv_bind H. destruct x1 as [cs fr2]. injection H as <- <-.
      rewrite accept_spec in Hx0. inv_bind Hx0. injection Hx0 as <-.
      destruct (IH _ _ _ _ Hx1) as [rs [E1 [L1 [L2 Hn]]]].
      exists (x1 :: rs). simpl. split; [exact E1|]. split; [congruence|]. split; [congruence|].
      intros [|j] cd' Hj; simpl in Hj.
      * injection Hj as <-. eexists; eexists. split; [reflexivity|]. split; [reflexivity|]. split.
        -- unfold nodata_cell_rel, cd_indexed. rewrite Ei. split; [exact Eb|exact Hx].
        -- unfold result_rel, cd_filter, cd_indexed. rewrite Ei, Eb. exact Hx2.
      * destruct (Hn j cd' Hj) as [v' [r' [H1 [H2 [H3 H4]]]]].
        exists v', r'. repeat split; try assumption.
        rewrite Nat.add_succ_r. exact H3.
Qed.

Lemma tx_cells_inv k dbs e : forall cds fr cells fr',
  tx_cells k dbs e cds fr = Ok (cells, fr') ->
  loop_post k dbs (fun cd => Some (bd_filter (cd_bd cd))) cds fr cells fr'
    (fun _ cd v => cd_is_bd cd = true /\ get_field e (bd_name (cd_bd cd)) = Ok v).
Proof.
  induction cds as [|cd rest IH]; intros fr cells fr' H; simpl in H.
  - injection H as <- <-. exists []. repeat split. intros [|j] cd Hj; discriminate.
  - destruct (cd_is_bd cd) eqn:Eb; [|discriminate].
    inv_bind H. inv_bind H. inv_bind H. destruct x1 as [cs fr2]. injection H as <- <-.
    rewrite accept_spec in Hx0. inv_bind Hx0. injection Hx0 as <-.
    destruct (IH _ _ _ Hx1) as [rs [E1 [L1 [L2 Hn]]]].
    exists (x1 :: rs). simpl. split; [exact E1|]. split; [congruence|]. split; [congruence|].
    intros [|j] cd' Hj; simpl in Hj.
    + injection Hj as <-. eexists; eexists. split; [reflexivity|]. split; [reflexivity|]. split.
      * split; [exact Eb|exact Hx].
      * exact Hx2.
    + destruct (Hn j cd' Hj) as [v' [r' [H1 [H2 [H3 H4]]]]].
      exists v', r'. repeat split; try assumption; apply H3.
Qed.

(* ================= sequencing ================= *)
Lemma concatM_i_inv {A B} (f : nat -> A -> outcome (list B)) l : forall i out,
  concatM_i f i l = Ok out ->
  exists outs, out = concat outs /\ length outs = length l /\
    forall n x, nth_error l n = Some x -> exists o, nth_error outs n = Some o /\ f (i + n)%nat x = Ok o.
Proof.
  induction l as [|x r IH]; intros i out H; simpl in H.
  - injection H as <-. exists []. repeat split. intros [|n] x Hn; discriminate.
  - inv_bind H. inv_bind H. injection H as <-.
    destruct (IH _ _ Hx0) as [outs [E [L Hn]]]. exists (x0 :: outs). simpl.
    split; [rewrite E; reflexivity|]. split; [congruence|].
    intros [|n] y Hy; simpl in Hy.
    + injection Hy as <-. exists x0. rewrite Nat.add_0_r. split; [reflexivity|exact Hx].
    + destruct (Hn n y Hy) as [o [H1 H2]]. exists o. split; [exact H1|].
      rewrite Nat.add_succ_r. exact H2.
Qed.

Lemma concatM_i_shift {A B} (f : A -> outcome (list B)) l : forall i j,
  concatM_i (fun _ => f) i l = concatM_i (fun _ => f) j l.
Proof. induction l as [|x r IH]; intros i j; simpl; [reflexivity|]. rewrite (IH (S i) (S j)). reflexivity. Qed.

Lemma concatM_cons {A B} (f : A -> outcome (list B)) x r :
  concatM f (x :: r) = (do a <- f x; do b <- concatM f r; Ok (a ++ b)).
Proof. unfold concatM. simpl. rewrite (concatM_i_shift f r 1 0). reflexivity. Qed.

Lemma concatM_nil {A B} (f : A -> outcome (list B)) : concatM f [] = Ok [].
Proof. reflexivity. Qed.

Lemma concatM_inv {A B} (f : A -> outcome (list B)) l : forall out,
  concatM f l = Ok out -> exists outs, out = concat outs /\ Forall2 (fun x o => f x = Ok o) l outs.
Proof.
  induction l as [|x r IH]; intros out H.
  - injection H as <-. exists []. split; [reflexivity|constructor].
  - rewrite concatM_cons in H. inv_bind H. inv_bind H. injection H as <-.
    destruct (IH _ Hx0) as [outs [E F]]. exists (x0 :: outs). split; [simpl; rewrite E; reflexivity|].
    constructor; assumption.
Qed.

Lemma concatM_ext {A B} (f g : A -> outcome (list B)) l :
  (forall x, In x l -> f x = g x) -> concatM f l = concatM g l.
Proof.
  induction l as [|x r IH]; intros H; [reflexivity|]. rewrite !concatM_cons.
  rewrite (H x (or_introl eq_refl)). rewrite IH; [reflexivity|].
  intros y Hy. apply H. right. exact Hy.
Qed.

Lemma concatM_app {A B} (f : A -> outcome (list B)) a b :
  concatM f (a ++ b) = (do x <- concatM f a; do y <- concatM f b; Ok (x ++ y)).
Proof.
  induction a as [|x a IH].
  - simpl. destruct (concatM f b); reflexivity.
  - simpl app. rewrite !concatM_cons. destruct (f x) as [fx| |]; simpl; try reflexivity.
    rewrite IH. destruct (concatM f a) as [ca| |]; simpl; try reflexivity.
    destruct (concatM f b) as [cb| |]; simpl; try reflexivity. rewrite app_assoc. reflexivity.
Qed.

Lemma concatM_map {A B C} (f : B -> outcome (list C)) (g : A -> B) l :
  concatM f (map g l) = concatM (fun x => f (g x)) l.
Proof.
  induction l as [|x r IH]; [reflexivity|]. simpl map. rewrite !concatM_cons, IH. reflexivity.
Qed.

Lemma concatM_flat_map {A B C} (f : B -> outcome (list C)) (g : A -> list B) l :
  concatM f (flat_map g l) = concatM (fun x => concatM f (g x)) l.
Proof.
  induction l as [|x r IH]; [reflexivity|]. simpl flat_map. rewrite concatM_app, concatM_cons, IH.
  reflexivity.
Qed.

(* Insert, one flat loop per indexing mode *)
Lemma insert_log_flat vr d c dbs blocks : indexing vr d = IxLog ->
  insert vr d c dbs blocks =
  concatM (fun x => process_log vr d dbs (mk_env c d (fst (fst x)) (snd (fst x)) (Some (snd x)) None) (snd x))
          (log_items blocks).
Proof.
  intros M. unfold insert. rewrite M. unfold log_items, tx_items.
  rewrite concatM_flat_map, concatM_flat_map. apply concatM_ext. intros b _.
  rewrite concatM_map. apply concatM_ext. intros t _. rewrite concatM_map. reflexivity.
Qed.

Lemma insert_trace_flat vr d c dbs blocks : indexing vr d = IxTrace ->
  insert vr d c dbs blocks =
  concatM (fun x => process_tx d dbs (mk_env c d (fst (fst x)) (snd (fst x)) None (Some (snd x))))
          (trace_items blocks).
Proof.
  intros M. unfold insert. rewrite M. unfold trace_items, tx_items.
  rewrite concatM_flat_map, concatM_flat_map. apply concatM_ext. intros b _.
  rewrite concatM_map. apply concatM_ext. intros t _. rewrite concatM_map. reflexivity.
Qed.

Lemma insert_tx_flat vr d c dbs blocks : indexing vr d = IxTx ->
  insert vr d c dbs blocks =
  concatM (fun x => process_tx d dbs (mk_env c d (fst x) (snd x) None None)) (tx_items blocks).
Proof.
  intros M. unfold insert. rewrite M. unfold tx_items.
  rewrite concatM_flat_map. apply concatM_ext. intros b _. rewrite concatM_map. reflexivity.
Qed.

Lemma tx_items_In blocks b t : In (b, t) (tx_items blocks) <-> In b blocks /\ In t (b_txs b).
Proof.
  unfold tx_items. rewrite in_flat_map. split.
  - intros [b' [Hb Ht]]. apply in_map_iff in Ht. destruct Ht as [t' [E Ht]]. injection E as <- <-. auto.
  - intros [Hb Ht]. exists b. split; [exact Hb|]. apply in_map. exact Ht.
Qed.

Lemma log_items_In blocks b t l :
  In (b, t, l) (log_items blocks) <-> In b blocks /\ In t (b_txs b) /\ In l (t_logs t).
Proof.
  unfold log_items. rewrite in_flat_map. split.
  - intros [[b' t'] [Hbt Hl]]. apply in_map_iff in Hl. destruct Hl as [l' [E Hl]].
    injection E as <- <- <-. apply tx_items_In in Hbt. simpl in Hl. tauto.
  - intros [Hb [Ht Hl]]. exists (b, t). split; [apply tx_items_In; auto|].
    simpl. apply in_map. exact Hl.
Qed.

Lemma trace_items_In blocks b t a :
  In (b, t, a) (trace_items blocks) <-> In b blocks /\ In t (b_txs b) /\ In a (t_traces t).
Proof.
  unfold trace_items. rewrite in_flat_map. split.
  - intros [[b' t'] [Hbt Hl]]. apply in_map_iff in Hl. destruct Hl as [l' [E Hl]].
    injection E as <- <- <-. apply tx_items_In in Hbt. simpl in Hl. tauto.
  - intros [Hb [Ht Hl]]. exists (b, t). split; [apply tx_items_In; auto|].
    simpl. apply in_map. exact Hl.
Qed.

Lemma Forall2_In_l {A B} (R : A -> B -> Prop) l l' y :
  Forall2 R l l' -> In y l' -> exists x, In x l /\ R x y.
Proof.
  induction 1 as [|a b l l' Hab _ IH]; intros Hy; [destruct Hy|].
  destruct Hy as [<-|Hy]; [exists a; split; [left; reflexivity|exact Hab]|].
  destruct (IH Hy) as [x [Hx Rx]]. exists x. split; [right; exact Hx|exact Rx].
Qed.

(* every row of Insert comes from one item's processLog / processTx *)
Lemma insert_log_rows vr d c dbs blocks rows r : indexing vr d = IxLog ->
  insert vr d c dbs blocks = Ok rows -> In r rows ->
  exists b t l rs, In (b, t, l) (log_items blocks) /\
    process_log vr d dbs (mk_env c d b t (Some l) None) l = Ok rs /\ In r rs.
Proof.
  intros M H Hr. rewrite (insert_log_flat _ _ _ _ _ M) in H.
  apply concatM_inv in H. destruct H as [outs [E F]]. subst rows.
  apply in_concat in Hr. destruct Hr as [rs [Hrs Hr]].
  destruct (Forall2_In_l _ _ _ _ F Hrs) as [[[b t] l] [Hx Px]]. simpl in Px.
  exists b, t, l, rs. auto.
Qed.

Lemma insert_trace_rows vr d c dbs blocks rows r : indexing vr d = IxTrace ->
  insert vr d c dbs blocks = Ok rows -> In r rows ->
  exists b t a rs, In (b, t, a) (trace_items blocks) /\
    process_tx d dbs (mk_env c d b t None (Some a)) = Ok rs /\ In r rs.
Proof.
  intros M H Hr. rewrite (insert_trace_flat _ _ _ _ _ M) in H.
  apply concatM_inv in H. destruct H as [outs [E F]]. subst rows.
  apply in_concat in Hr. destruct Hr as [rs [Hrs Hr]].
  destruct (Forall2_In_l _ _ _ _ F Hrs) as [[[b t] a] [Hx Px]]. simpl in Px.
  exists b, t, a, rs. auto.
Qed.

Lemma insert_tx_rows vr d c dbs blocks rows r : indexing vr d = IxTx ->
  insert vr d c dbs blocks = Ok rows -> In r rows ->
  exists b t rs, In (b, t) (tx_items blocks) /\
    process_tx d dbs (mk_env c d b t None None) = Ok rs /\ In r rs.
Proof.
  intros M H Hr. rewrite (insert_tx_flat _ _ _ _ _ M) in H.
  apply concatM_inv in H. destruct H as [outs [E F]]. subst rows.
  apply in_concat in Hr. destruct Hr as [rs [Hrs Hr]].
  destruct (Forall2_In_l _ _ _ _ F Hrs) as [[b t] [Hx Px]]. simpl in Px.
  exists b, t, rs. auto.
Qed.

(* ================= processLog: candidates and rows ================= *)
Lemma concatM_i_emit_inv {A B C} (g : nat -> A -> outcome C) (h : C -> list B) l : forall i out,
  concatM_i (fun i x => do r <- g i x; Ok (h r)) i l = Ok out ->
  exists cs, length cs = length l /\ out = concat (map h cs) /\
    forall n x, nth_error l n = Some x -> exists c, nth_error cs n = Some c /\ g (i + n)%nat x = Ok c.
Proof.
  induction l as [|x r IH]; intros i out H; simpl in H.
  - injection H as <-. exists []. repeat split. intros [|n] x Hn; discriminate.
  - inv_bind_as H hr Hhr. inv_bind_as Hhr c0 Hc0. injection Hhr as <-.
    inv_bind_as H rest Hrest. injection H as <-.
    destruct (IH _ _ Hrest) as [cs [L [E Hn]]]. exists (c0 :: cs). simpl.
    split; [congruence|]. split; [rewrite E; reflexivity|].
    intros [|n] y Hy; simpl in Hy.
    + injection Hy as <-. exists c0. rewrite Nat.add_0_r. split; [reflexivity|exact Hc0].
    + destruct (Hn n y Hy) as [c [H1 H2]]. exists c. split; [exact H1|].
      rewrite Nat.add_succ_r. exact H2.
Qed.

Lemma is_nil_false {A} (l : list A) : negb (is_nil l) = true <-> l <> [].
Proof. destruct l; simpl; split; try congruence; intros; discriminate. Qed.

Lemma process_log_gate vr d dbs e l rows r :
  process_log vr d dbs e l = Ok rows -> In r rows -> gate d l = true.
Proof.
  unfold process_log. destruct (gate d l); [reflexivity|]. simpl. intros H Hr.
  injection H as <-. destruct Hr.
Qed.

(* data branch: one candidate per decoded row, in order; the rows are the accepted candidates *)
Lemma process_log_data vr d dbs e l rows :
  process_log vr d dbs e l = Ok rows -> gate d l = true -> l_data l <> [] ->
  exists srows cands, l_scan l = Ok srows /\ length cands = length srows /\
    rows = concat (map emit cands) /\
    forall i srow, nth_error srows i = Some srow ->
      exists c, nth_error cands i = Some c /\
        data_cells vr (kind_is_and (d_agg d)) dbs e (l_topics l) srow i (coldefs d) 1 0 frs0 = Ok c.
Proof.
  unfold process_log. intros H G D. rewrite G in H. simpl in H.
  apply is_nil_false in D. rewrite D in H. inv_bind H.
  apply concatM_i_emit_inv in H. destruct H as [cs [L [E Hn]]].
  exists x, cs. repeat split; try assumption.
Qed.

Lemma process_log_nodata vr d dbs e l rows :
  process_log vr d dbs e l = Ok rows -> gate d l = true -> l_data l = [] ->
  exists c, nodata_cells vr (kind_is_and (d_agg d)) dbs e (l_topics l) (coldefs d) 0 frs0 = Ok c
            /\ rows = emit c.
Proof.
  unfold process_log. intros H G D. rewrite G, D in H. simpl in H. inv_bind H.
  injection H as <-. exists x. split; [exact Hx|reflexivity].
Qed.

Lemma in_emit r c : In r (emit c) -> r = fst c /\ frs_accept (snd c) = true.
Proof.
  unfold emit. destruct (frs_accept (snd c)); simpl; [|tauto].
  intros [<-|[]]. split; reflexivity.
Qed.

Lemma nth_error_In_ex {A} (l : list A) x : In x l -> exists n, nth_error l n = Some x.
Proof. apply In_nth_error. Qed.

Lemma process_log_origin vr d dbs e l rows r :
  process_log vr d dbs e l = Ok rows -> In r rows ->
  gate d l = true /\
  ((l_data l <> [] /\ exists srows i srow fr,
       l_scan l = Ok srows /\ nth_error srows i = Some srow /\
       data_cells vr (kind_is_and (d_agg d)) dbs e (l_topics l) srow i (coldefs d) 1 0 frs0 = Ok (r, fr)
       /\ frs_accept fr = true)
   \/ (l_data l = [] /\ exists fr,
         nodata_cells vr (kind_is_and (d_agg d)) dbs e (l_topics l) (coldefs d) 0 frs0 = Ok (r, fr)
         /\ frs_accept fr = true)).
Proof.
  intros H Hr. pose proof (process_log_gate _ _ _ _ _ _ _ H Hr) as G. split; [exact G|].
  destruct (l_data l) as [|x0 dd] eqn:D.
  - right. split; [reflexivity|].
    destruct (process_log_nodata _ _ _ _ _ _ H G D) as [c [Hc E]]. subst rows.
    apply in_emit in Hr. destruct Hr as [-> A]. exists (snd c). destruct c; auto.
  - left. split; [discriminate|].
    assert (D' : l_data l <> []) by (rewrite D; discriminate).
    destruct (process_log_data _ _ _ _ _ _ H G D') as [srows [cands [S [L [E Hn]]]]]. subst rows.
    apply in_concat in Hr. destruct Hr as [o [Ho Hr]]. apply in_map_iff in Ho.
    destruct Ho as [c [<- Hc]]. apply in_emit in Hr. destruct Hr as [-> A].
    apply In_nth_error in Hc. destruct Hc as [i Hi].
    assert (Hlt : (i < length srows)%nat) by (rewrite <- L; apply nth_error_Some; congruence).
    destruct (nth_error srows i) as [srow|] eqn:Es; [|apply nth_error_None in Es; lia].
    destruct (Hn i srow Es) as [c' [Hc' Hd]]. rewrite Hi in Hc'. injection Hc' as <-.
    exists srows, i, srow, (snd c). destruct c; auto.
Qed.

(* ================= C11 at the level of one log ================= *)
Lemma get_field_spec bd e io v :
  (match io with Some n => if fld (bd_name bd) "abi_idx" then v = VInt (Z.of_nat n)
                           else get_field e (bd_name bd) = Ok v
            | None => get_field e (bd_name bd) = Ok v end) ->
  spec_block_cell bd e io = Some v.
Proof.
  unfold spec_block_cell. destruct io as [n|].
  - destruct (fld (bd_name bd) "abi_idx"); [intros ->; reflexivity|intros ->; reflexivity].
  - intros ->. reflexivity.
Qed.

Lemma input_coldef_flags cols pre inp :
  cd_indexed (input_coldef cols pre inp) = i_indexed inp /\ cd_is_bd (input_coldef cols pre inp) = false.
Proof. split; reflexivity. Qed.

Lemma bd_coldef_flags cols bd : bd_name bd <> [] ->
  cd_indexed (bd_coldef cols bd) = false /\ cd_is_bd (bd_coldef cols bd) = true.
Proof. intros H. split; [reflexivity|]. unfold cd_is_bd. simpl. apply is_nil_false. exact H. Qed.


Lemma process_log_row_spec d dbs e l rows r :
  process_log fixed d dbs e l = Ok rows -> In r rows ->
  gate d l = true /\
  ((l_data l <> [] /\ exists srows i srow, l_scan l = Ok srows /\ nth_error srows i = Some srow
                                           /\ row_spec d e l (Some i) srow r)
   \/ (l_data l = [] /\ row_spec d e l None [] r)).
Proof.
  intros H Hr. destruct (process_log_origin _ _ _ _ _ _ _ H Hr) as [G [[D X]|[D X]]]; (split; [exact G|]).
  - left. split; [exact D|]. destruct X as [srows [i [srow [fr [S [Ei [Hd A]]]]]]].
    exists srows, i, srow. split; [exact S|]. split; [exact Ei|].
    apply data_cells_inv in Hd. destruct Hd as [rs [_ [L [_ Hn]]]].
    split; [rewrite L; apply coldefs_length|]. split.
    + intros pre inp post E Sel. destruct (coldefs_input_nth d pre inp post E Sel) as [N F].
      destruct (Hn _ _ N) as [v [rr [Hv [_ [Hrel _]]]]]. rewrite Hv.
      unfold data_cell_rel in Hrel. rewrite F in Hrel.
      destruct (input_coldefs_counts (d_table_cols d) pre 0) as [C1 C2]. rewrite C2 in Hrel.
      destruct (input_coldef_flags (d_table_cols d) pre inp) as [F1 F2]. rewrite F1, F2 in Hrel.
      unfold spec_input_cell. destruct (i_indexed inp) eqn:Ei2.
      * destruct Hrel as [tp [Ht ->]]. simpl in Ht. rewrite Ei2 in Ht.
        replace (1 + count i_indexed pre)%nat with (count i_indexed pre + 1)%nat by lia.
        rewrite Ht. simpl. split; [reflexivity|discriminate].
      * destruct Hrel as [c [Hc ->]]. simpl in Hc. rewrite Hc. simpl. split; [reflexivity|discriminate].
    + intros k bd Hk Hne. pose proof (coldefs_bd_nth d k bd Hk) as N.
      destruct (Hn _ _ N) as [v [rr [Hv [_ [Hrel _]]]]]. rewrite Hv.
      unfold data_cell_rel in Hrel.
      destruct (bd_coldef_flags (d_table_cols d) bd Hne) as [F1 F2]. rewrite F1, F2 in Hrel.
      simpl in Hrel. rewrite (get_field_spec bd e (Some i) v Hrel). split; [reflexivity|discriminate].
  - right. split; [exact D|]. destruct X as [fr [Hd A]].
    apply nodata_cells_inv in Hd. destruct Hd as [rs [_ [L [_ Hn]]]].
    split; [rewrite L; apply coldefs_length|]. split.
    + intros pre inp post E Sel. destruct (coldefs_input_nth d pre inp post E Sel) as [N F].
      destruct (Hn _ _ N) as [v [rr [Hv [_ [Hrel _]]]]]. rewrite Hv.
      unfold nodata_cell_rel in Hrel.
      destruct (input_coldef_flags (d_table_cols d) pre inp) as [F1 F2]. rewrite F1, F2 in Hrel.
      unfold spec_input_cell. destruct (i_indexed inp) eqn:Ei2.
      * destruct Hrel as [tp [Ht ->]]. simpl in Ht. rewrite Ei2 in Ht.
        replace (1 + count i_indexed pre)%nat with (count i_indexed pre + 1)%nat by lia.
        rewrite Ht. simpl. split; [reflexivity|discriminate].
      * destruct Hrel as [Hb _]. discriminate.
    + intros k bd Hk Hne. pose proof (coldefs_bd_nth d k bd Hk) as N.
      destruct (Hn _ _ N) as [v [rr [Hv [_ [Hrel _]]]]]. rewrite Hv.
      unfold nodata_cell_rel in Hrel.
      destruct (bd_coldef_flags (d_table_cols d) bd Hne) as [F1 F2]. rewrite F1 in Hrel.
      destruct Hrel as [_ Hg]. simpl in Hg.
      rewrite (get_field_spec bd e None v Hg). split; [reflexivity|discriminate].
Qed.

(* ================= processTx ================= *)
Lemma process_tx_row_spec d dbs e rows r :
  process_tx d dbs e = Ok rows -> In r rows ->
  num_selected d = 0%nat /\ length r = num_bd d /\
  forall k bd, nth_error (d_block d) k = Some bd ->
    nth_error r k = spec_block_cell bd e None /\ spec_block_cell bd e None <> None.
Proof.
  unfold process_tx. intros H Hr.
  destruct (0 <? num_selected d)%nat eqn:E0; [injection H as <-; destruct Hr|].
  assert (Z0 : num_selected d = 0%nat) by lia. split; [exact Z0|].
  destruct (0 <? num_bd d)%nat; [|injection H as <-; destruct Hr].
  inv_bind_as H c Hc. injection H as <-. apply in_emit in Hr. destruct Hr as [-> A].
  destruct c as [cells fr]. apply tx_cells_inv in Hc. destruct Hc as [rs [_ [L [_ Hn]]]].
  cbn [fst]. split; [rewrite L, coldefs_length; lia|].
  intros k bd Hk. pose proof (coldefs_bd_nth d k bd Hk) as N. rewrite Z0 in N. simpl in N.
  destruct (Hn _ _ N) as [v [rr [Hv [_ [[_ Hg] _]]]]]. rewrite Hv. simpl in Hg.
  rewrite (get_field_spec bd e None v Hg). split; [reflexivity|discriminate].
Qed.

(* ================= field names ================= *)
Lemma get_field_field_of f c d b t l a :
  get_field (mk_env c d b t l a) (s2b (field_name f)) =
  match field_of f c (d_name d) b t l a with Some v => Ok v | None => Panic end.
Proof. destruct f; destruct l; destruct a; reflexivity. Qed.

Lemma field_name_not_abi_idx f : fld (s2b (field_name f)) "abi_idx" = false.
Proof. destruct f; reflexivity. Qed.

Lemma field_name_nonempty f : s2b (field_name f) <> [].
Proof. destruct f; discriminate. Qed.

Lemma spec_block_cell_field f c d b t l a bd io :
  bd_name bd = s2b (field_name f) ->
  spec_block_cell bd (mk_env c d b t l a) io <> None ->
  spec_block_cell bd (mk_env c d b t l a) io = field_of f c (d_name d) b t l a.
Proof.
  intros E. unfold spec_block_cell. rewrite E, field_name_not_abi_idx, get_field_field_of.
  destruct io; destruct (field_of f c (d_name d) b t l a); congruence.
Qed.

(* ================= unrepaired code: witnesses ================= *)
Definition w_inp (ix : bool) (col : string) : input :=
  {| i_indexed := ix; i_type := s2b "uint256"; i_column := s2b col; i_filter := no_filter |}.
Definition w_decl : decl :=
  {| d_name := s2b "ig"; d_inputs := [w_inp true ""; w_inp true "b"]; d_block := [];
     d_table_cols := [s2b "b"]; d_agg := []; d_sighash := [7] |}.
Definition w_log : logr :=
  {| l_idx := 0; l_addr := Some []; l_topics := [[7]; word_of_N 1; word_of_N 2]; l_data := [];
     l_scan := Ok [[]] |}.
Definition w_tx : txr :=
  {| t_hash := None; t_idx := 0; t_from := None; t_to := None; t_value := 0; t_input := None;
     t_type := 0; t_status := 0; t_gas_used := 0; t_gas_price := 0; t_eff_gas_price := 0;
     t_contract := None; t_max_prio := 0; t_max_fee := 0; t_nonce := 0; t_logs := [w_log];
     t_traces := [{| ta_idx := 0; ta_call_type := []; ta_from := Some [9]; ta_to := None; ta_value := 0 |}] |}.
Definition w_block : blockr := {| b_hash := None; b_num := 1; b_time := 0; b_txs := [w_tx] |}.
Definition w_ctx : ctxr := {| c_src := []; c_chain := 0 |}.

(* event (a indexed, not selected; b indexed, selected): b's column must hold
   topic 2 (value 2); the unrepaired counter reads topic 1 (value 1) *)
Lemma legacy_topic_witness :
  insert_cells {| lg_topic := true; lg_dbtype := false; lg_trace := false |} w_decl w_ctx [] [w_block]
    = Ok [[CInt 1]]
  /\ insert_cells fixed w_decl w_ctx [] [w_block] = Ok [[CInt 2]].
Proof. split; vm_compute; reflexivity. Qed.

(* the same with data present *)
Definition w_log_data : logr :=
  {| l_idx := 0; l_addr := Some []; l_topics := [[7]; word_of_N 1; word_of_N 2]; l_data := [0];
     l_scan := Ok [[]] |}.
Lemma legacy_topic_witness_data :
  process_log {| lg_topic := true; lg_dbtype := false; lg_trace := false |} w_decl []
              (mk_env w_ctx w_decl w_block w_tx (Some w_log_data) None) w_log_data
    = Ok [[VU256 1]]
  /\ process_log fixed w_decl [] (mk_env w_ctx w_decl w_block w_tx (Some w_log_data) None) w_log_data
    = Ok [[VU256 2]].
Proof. split; vm_compute; reflexivity. Qed.

(* bool[] elements: a boolean after the repair, the raw word before *)
Lemma legacy_dbtype_witness :
  dbtype legacy (s2b "bool[]") (Some (word_of_N 1)) = VBytes (Some (word_of_N 1))
  /\ dbtype fixed (s2b "bool[]") (Some (word_of_N 1)) = VBool true.
Proof. split; vm_compute; reflexivity. Qed.

(* a trace field bound to a column not called trace_*: transaction mode, nil
   trace action dereferenced, before the repair *)
Definition w_decl_trace : decl :=
  {| d_name := s2b "ig"; d_inputs := [];
     d_block := [{| bd_name := s2b "trace_action_from"; bd_column := s2b "sender"; bd_filter := no_filter |}];
     d_table_cols := [s2b "sender"]; d_agg := []; d_sighash := [7] |}.
Lemma legacy_trace_witness :
  insert_cells {| lg_topic := false; lg_dbtype := false; lg_trace := true |} w_decl_trace w_ctx [] [w_block] = Panic
  /\ insert_cells fixed w_decl_trace w_ctx [] [w_block] = Ok [[CBytes [9]]].
Proof. split; vm_compute; reflexivity. Qed.
