(* Liveness on a fault-free run against an honest node serving one chain:
   forward evaluation of [exec_honest] through the named sub-programs. *)
From Coq Require Import List NArith Bool Lia ZifyBool ZifyN ZifyNat.
From Shovel Require Import Model.TaskTypes Model.TaskDb Model.Task Model.TaskNode Model.TaskSys
  Model.TaskSpec Proofs.TaskArithP Proofs.TaskDbP Proofs.TaskExecP Proofs.TaskLoadP Proofs.TaskInvP
  Proofs.TaskLegacyP Proofs.TaskStepP Proofs.TaskChainP.
Import ListNotations.
Open Scope N_scope.

Arguments N.add : simpl never.
Arguments N.sub : simpl never.
Arguments N.mul : simpl never.
Arguments N.div : simpl never.
Arguments N.modulo : simpl never.
Arguments N.ltb : simpl never.
Arguments N.leb : simpl never.
Arguments N.eqb : simpl never.
Arguments N.min : simpl never.

(* ---------- segments ---------- *)
Lemma firstn_add : forall {A} a b (l : list A),
  firstn (a + b) l = firstn a l ++ firstn b (skipn a l).
Proof.
  intros A a b. induction a as [|a IH]; intros l; [reflexivity|].
  destruct l as [|x l]; [cbn; rewrite firstn_nil; reflexivity|].
  cbn [Nat.add firstn skipn app]. f_equal. apply IH.
Qed.
Lemma skipn_add : forall {A} m a (l : list A), skipn (m + a) l = skipn a (skipn m l).
Proof.
  intros A m a. induction m as [|m IH]; intros l; [reflexivity|].
  destruct l as [|x l]; [cbn; rewrite skipn_nil; reflexivity|]. cbn [Nat.add skipn]. apply IH.
Qed.

Lemma segment_app : forall ch m a b,
  segment ch m (a + b) = segment ch m a ++ segment ch (m + a) b.
Proof.
  intros ch m a b. unfold segment.
  replace (N.to_nat (a + b)) with (N.to_nat a + N.to_nat b)%nat by lia.
  replace (N.to_nat (m + a)) with (N.to_nat m + N.to_nat a)%nat by lia.
  rewrite firstn_add, skipn_add. reflexivity.
Qed.

Lemma view_app : forall hs a b, view hs (a ++ b) = view hs a ++ view hs b.
Proof. intros hs a b. rewrite !view_map. apply map_app. Qed.

(* the segments requested by tiled partitions concatenate to the whole range *)
Lemma merge_tiles : forall hs ch ps m e, tiles m e ps ->
  merge_segs (map (fun p => SegOk (view hs (segment ch (fst p) (snd p)))) ps)
  = Some (view hs (segment ch m (e - m))) /\ m <= e.
Proof.
  intros hs ch ps m e T. induction T as [m|m n e r Hn T IH].
  - cbn. rewrite N.sub_diag, segment_0, view_map. split; [reflexivity|lia].
  - destruct IH as [IH Hle]. cbn [map merge_segs fst snd]. rewrite IH. split; [|lia].
    f_equal. rewrite <- view_app, <- segment_app. f_equal. f_equal. lia.
Qed.

Lemma tiles_inside : forall m e ps, tiles m e ps ->
  Forall (fun p => m <= fst p /\ fst p + snd p <= e) ps.
Proof.
  intros m e ps T. induction T as [m|m n e r Hn T IH]; [constructor|].
  assert (m + n <= e) by (clear IH; induction T; lia).
  constructor; [cbn; lia|]. eapply Forall_impl; [|exact IH]. cbn. intros p [A B]. lia.
Qed.

(* a segment of a well-formed chain, as served, is linked *)
Lemma segment_linked : forall hs ch k m x,
  wf_chain ch -> blk_at ch m = Some x -> m + 1 + N.of_nat k <= height ch ->
  linked_from (vblk hs x) (view hs (segment ch (m + 1) (N.of_nat k))) = true.
Proof.
  intros hs ch k. induction k as [|k IH]; intros m x Hw Hx Hh.
  - rewrite segment_0, view_map. reflexivity.
  - destruct (nth_error ch (N.to_nat (m + 1))) as [y|] eqn:E.
    2:{ apply nth_error_None in E. unfold height in Hh. lia. }
    assert (Hy : blk_at ch (m + 1) = Some y) by exact E.
    rewrite (segment_S ch (m + 1) k y Hy), view_map. cbn [map]. rewrite <- view_map.
    cbn [linked_from]. rewrite (IH (m + 1) y Hw Hy ltac:(lia)), andb_true_r.
    destruct (wf_chain_at ch m x Hw Hx) as (Hnx & _ & _).
    destruct (wf_chain_at ch (m + 1) y Hw Hy) as (Hny & _ & Hpar).
    replace (m + 1 - 1) with m in Hpar by lia. specialize (Hpar x ltac:(lia) Hx).
    rewrite !vblk_num, vblk_hash. apply andb_true_intro. split; [lia|].
    destruct hs; cbn; [rewrite Hpar, N.eqb_refl; apply orb_true_r|reflexivity].
Qed.

Lemma segment_chain_ok : forall hs ch k m,
  wf_chain ch -> m + N.of_nat k <= height ch ->
  chain_ok (view hs (segment ch m (N.of_nat k))) = true.
Proof.
  intros hs ch k m Hw Hh. destruct k as [|k]; [rewrite segment_0, view_map; reflexivity|].
  destruct (nth_error ch (N.to_nat m)) as [x|] eqn:E.
  2:{ apply nth_error_None in E. unfold height in Hh. lia. }
  assert (Hx : blk_at ch m = Some x) by exact E.
  rewrite (segment_S ch m k x Hx), view_map. cbn [map chain_ok]. rewrite <- view_map.
  apply segment_linked; [exact Hw|exact Hx|lia].
Qed.

Lemma in_firstn : forall {A} n (l : list A) x, In x (firstn n l) -> In x l.
Proof.
  intros A n. induction n as [|n IH]; intros l x H; [destruct H|].
  destruct l as [|y l]; [destruct H|]. destruct H as [<-|H]; [left; reflexivity|right; apply IH; exact H].
Qed.
Lemma in_skipn : forall {A} n (l : list A) x, In x (skipn n l) -> In x l.
Proof.
  intros A n. induction n as [|n IH]; intros l x H; [exact H|].
  destruct l as [|y l]; [destruct H|]. right. apply IH. exact H.
Qed.
Lemma in_segment : forall ch m k x, In x (segment ch m k) -> In x ch.
Proof. intros ch m k x H. unfold segment in H. apply in_firstn in H. apply in_skipn in H. exact H. Qed.

(* ---------- no unique-index collision when appending fresh blocks ---------- *)
Lemma existsb_false : forall {A} (f : A -> bool) l,
  (forall x, In x l -> f x = false) -> existsb f l = false.
Proof.
  intros A f l H. induction l as [|x l IH]; [reflexivity|]. cbn [existsb].
  rewrite (H x (or_introl eq_refl)), IH; [reflexivity|]. intros y Hy. apply H. right. exact Hy.
Qed.

Lemma nodup_rows_app : forall a b,
  nodup_rows a = true -> nodup_rows b = true ->
  (forall x y, In x a -> In y b -> same_ukey x y = false) ->
  nodup_rows (a ++ b) = true.
Proof.
  induction a as [|x a IH]; intros b Ha Hb Hc; [exact Hb|].
  cbn [app nodup_rows] in *. apply andb_prop in Ha. destruct Ha as [H1 H2].
  apply andb_true_intro. split.
  - apply negb_true_iff. apply negb_true_iff in H1. rewrite existsb_app, H1. cbn.
    apply existsb_false. intros y Hy. apply Hc; [left; reflexivity|exact Hy].
  - apply IH; [exact H2|exact Hb|]. intros x' y Hx Hy. apply Hc; [right; exact Hx|exact Hy].
Qed.

Lemma same_ukey_stamp : forall c b kv b' kv',
  same_ukey (stamp c b kv) (stamp c b' kv') = (b_num b =? b_num b') && (fst kv =? fst kv').
Proof. intros. unfold same_ukey, stamp. cbn. rewrite !N.eqb_refl. reflexivity. Qed.

Lemma nodup_proj : forall c b, NoDup (map fst (b_rows b)) -> nodup_rows (proj c b) = true.
Proof.
  intros c b. unfold proj. induction (b_rows b) as [|kv l IH]; intros H; [reflexivity|].
  cbn [map nodup_rows] in *. inversion H as [|? ? Hn Hd]; subst.
  apply andb_true_intro. split; [|apply IH; exact Hd].
  apply negb_true_iff. apply existsb_false. intros y Hy. apply in_map_iff in Hy.
  destruct Hy as (kv' & <- & Hkv'). rewrite same_ukey_stamp, N.eqb_refl. cbn.
  apply N.eqb_neq. intros E. apply Hn. rewrite E. apply in_map. exact Hkv'.
Qed.

Lemma nodup_rows_of : forall c bs m k,
  map b_num bs = nums_from m k -> Forall (fun b => NoDup (map fst (b_rows b))) bs ->
  nodup_rows (rows_of c bs) = true.
Proof.
  intros c bs. induction bs as [|b bs IH]; intros m k Hn Hk; [reflexivity|].
  destruct k as [|k]; [discriminate|]. cbn [map nums_from] in Hn. inversion Hn as [[Hb Hr]].
  inversion Hk as [|? ? Hkb Hks]; subst. rewrite rows_of_cons. apply nodup_rows_app.
  - apply nodup_proj. exact Hkb.
  - apply (IH _ _ Hr Hks).
  - intros x y Hx Hy. unfold proj in Hx. apply in_map_iff in Hx. destruct Hx as (kv & <- & _).
    apply in_rows_of in Hy. destruct Hy as (b' & kv' & Hb' & ->). rewrite same_ukey_stamp.
    apply (in_map b_num) in Hb'. rewrite Hr in Hb'. apply nums_from_in in Hb'.
    destruct (N.eqb_spec (b_num b) (b_num b')); [lia|reflexivity].
Qed.

Lemma no_copy_collision : forall c d g bs ln k,
  pv c d = render c g -> (forall x, In x (concat g) -> b_num x <= ln) ->
  map b_num bs = nums_from (ln + 1) k -> Forall (fun b => NoDup (map fst (b_rows b))) bs ->
  copy_collides (d_rows d) (rows_of c bs) = false.
Proof.
  intros c d g bs ln k Hpv Hle Hn Hk. unfold copy_collides.
  rewrite (nodup_rows_of c bs _ _ Hn Hk). cbn. rewrite orb_false_r.
  apply existsb_false. intros x Hx. apply existsb_false. intros y Hy.
  apply in_rows_of in Hx. destruct Hx as (b & kv & Hb & ->).
  destruct (row_of (t_src c) (t_ig c) y) eqn:Ey.
  - assert (Hin : In y (d_rows (pv c d))) by (unfold pv, restrict; cbn; apply filter_In; split; assumption).
    rewrite Hpv in Hin. cbn [render d_rows] in Hin. apply in_rows_of in Hin.
    destruct Hin as (b' & kv' & Hb' & ->). rewrite same_ukey_stamp.
    apply (in_map b_num) in Hb. rewrite Hn in Hb. apply nums_from_in in Hb. specialize (Hle _ Hb').
    destruct (N.eqb_spec (b_num b) (b_num b')); [lia|reflexivity].
  - unfold same_ukey, stamp, row_of in *. cbn.
    destruct (N.eqb_spec (t_src c) (r_src y)), (N.eqb_spec (t_ig c) (r_ig y));
      rewrite ?andb_false_r; try reflexivity.
    rewrite <- e, <- e0, !N.eqb_refl in Ey. discriminate.
Qed.

Lemma no_cur_collision : forall c curs g n h ln,
  filter (cur_of (t_src c) (t_ig c)) curs = map (bcur c) g ->
  wf_ghost c g -> (forall x, In x (concat g) -> b_num x <= ln) -> ln < n ->
  cur_collides curs (Cur (t_src c) (t_ig c) n h) = false.
Proof.
  intros c curs g n h ln Hf Hw Hle Hn. unfold cur_collides. cbn [c_src c_ig c_num].
  apply existsb_false. intros x Hx. destruct (cur_of (t_src c) (t_ig c) x) eqn:E; [|reflexivity].
  assert (Hin : In x (map (bcur c) g)) by (rewrite <- Hf; apply filter_In; split; assumption).
  apply in_map_iff in Hin. destruct Hin as (b & <- & Hb). cbn [bcur c_num andb].
  destruct Hw as (Hne & _). rewrite Forall_forall in Hne.
  assert (Hl : In (last_blk b) (concat g)).
  { apply (in_concat_batch g b); [exact Hb|apply last_blk_in; apply Hne; exact Hb]. }
  specialize (Hle _ Hl). destruct (N.eqb_spec (b_num (last_blk b)) n); [lia|reflexivity].
Qed.

Lemma clip_le' : forall c tn, clip c tn <= tn.
Proof.
  intros c tn. unfold clip. destruct (N.ltb_spec 0 (t_stop c)), (N.ltb_spec (t_stop c) tn); cbn; lia.
Qed.
Lemma clip_stop' : forall c tn, t_stop c = 0 \/ clip c tn <= t_stop c.
Proof.
  intros c tn. unfold clip. destruct (N.ltb_spec 0 (t_stop c)), (N.ltb_spec (t_stop c) tn); cbn; lia.
Qed.
Lemma w64_nmax' : forall n, n < nmax -> w64 (n + 1) = n + 1.
Proof. intros n H. apply w64_small. unfold nmax, two64 in *. lia. Qed.

(* ---------- forward evaluation of an honest run ---------- *)
Section Live.
Variable c : tcfg.
Variable ch : chain.
Hypothesis Hc : cfg_ok c.
Hypothesis Hwf : wf_chain ch.
Hypothesis Hsmall : height ch < nmax.
Hypothesis Hdeps : t_deps c = [].
Hypothesis Hkeys : forall b, In b ch -> NoDup (map fst (b_rows b)).

Notation u := (t_uniq c).
Notation hs := (t_hashes c).

Definition hx (f : nat) (p : prog) (d : db) (cs : cstate) : result * db * cstate :=
  (r_out (exec_honest f u hs ch p d cs), r_db (exec_honest f u hs ch p d cs),
   r_cs (exec_honest f u hs ch p d cs)).

Lemma hx_ret : forall f o d cs, hx (S f) (Ret o) d cs = (Fin o, d, cs).
Proof. reflexivity. Qed.

Lemma hx_db : forall f i k d cs, is_db_op i = true ->
  hx (S f) (Op i k) d cs
  = hx f (k (snd (db_step u d cs i))) (fst (fst (db_step u d cs i))) (snd (fst (db_step u d cs i))).
Proof.
  intros f i k d cs H. unfold hx. cbn [exec_honest]. rewrite H. unfold step_op. rewrite H. reflexivity.
Qed.

Lemma hx_node : forall f i k d cs, is_db_op i = false ->
  hx (S f) (Op i k) d cs = hx f (k (honest hs ch i)) d cs.
Proof.
  intros f i k d cs H. unfold hx. cbn [exec_honest]. rewrite H. unfold step_op. rewrite H. reflexivity.
Qed.

Lemma hx_rb : forall f o d cs, hx (S (S f)) (rb o) d cs = (Fin o, d, None).
Proof. intros. unfold rb. rewrite hx_db by reflexivity. cbn [db_step fst snd]. apply hx_ret. Qed.

(* the node *)
Lemma top_block : exists tb, blk_at ch (height ch - 1) = Some tb /\ b_num tb = height ch - 1 /\ 1 <= height ch.
Proof.
  destruct ch as [|g r] eqn:E; [destruct Hwf|]. rewrite <- E in *.
  assert (Hh : 1 <= height ch) by (rewrite E; unfold height; cbn [length]; lia).
  destruct (nth_error ch (N.to_nat (height ch - 1))) as [tb|] eqn:En.
  - exists tb. split; [exact En|]. split; [|exact Hh]. apply (wf_chain_at ch _ tb Hwf En).
  - apply nth_error_None in En. unfold height in *. lia.
Qed.

Lemma honest_latest : forall n, exists tb,
  blk_at ch (height ch - 1) = Some tb /\ honest hs ch (RLatest n) = RHead (height ch - 1) (b_hash tb).
Proof.
  intros n. destruct top_block as (tb & Ht & Hn & _). exists tb. split; [exact Ht|].
  cbn [honest]. rewrite Ht, Hn. reflexivity.
Qed.

Lemma honest_get : forall ps m e, tiles m e ps -> e <= height ch ->
  honest hs ch (RGet ps) = RSegs (map (fun p => SegOk (view hs (segment ch (fst p) (snd p)))) ps).
Proof.
  intros ps m e T He. cbn [honest]. f_equal. apply map_ext_in. intros p Hp.
  pose proof (tiles_inside m e ps T) as Hi. rewrite Forall_forall in Hi. destruct (Hi p Hp) as [_ A].
  destruct (N.leb_spec (fst p + snd p) (height ch)); [reflexivity|lia].
Qed.

(* what Task.load makes of an honest answer *)
Lemma load_honest : forall ln lh delta x,
  1 <= delta -> ln + delta < height ch -> blk_at ch ln = Some x ->
  (hs = true -> lh = b_hash x) ->
  load_check repaired lh
    (map (fun p => SegOk (view hs (segment ch (fst p) (snd p)))) (partitions repaired c (ln + 1) delta))
  = LBlocks (view hs (segment ch (ln + 1) delta))
  \/ ~ (delta <= t_batch c).
Proof.
  intros ln lh delta x Hd Hh Hx Hlh.
  destruct (N.le_gt_cases delta (t_batch c)) as [Hb|Hb]; [left|right; lia].
  assert (Ed : delta = N.of_nat (N.to_nat delta)) by lia.
  revert Ed. generalize (N.to_nat delta). intros kk Ed. subst delta.
  assert (T : tiles (ln + 1) (ln + 1 + N.of_nat kk) (partitions repaired c (ln + 1) (N.of_nat kk))).
  { apply partitions_tile; try assumption. unfold nmax, two63 in *. lia. }
  unfold load_check. destruct (merge_tiles hs ch _ _ _ T) as [M _]. rewrite M.
  replace (ln + 1 + N.of_nat kk - (ln + 1)) with (N.of_nat kk) by lia.
  destruct (segment_facts hs ch kk (ln + 1) Hwf ltac:(lia)) as [_ Hn].
  rewrite (sort_run _ _ _ Hn).
  destruct kk as [|k]; [lia|].
  destruct (nth_error ch (N.to_nat (ln + 1))) as [y|] eqn:E.
  2:{ apply nth_error_None in E. unfold height in Hh. lia. }
  assert (Hy : blk_at ch (ln + 1) = Some y) by exact E.
  rewrite (segment_S ch (ln + 1) k y Hy), view_map. cbn [map]. rewrite <- view_map.
  destruct (wf_chain_at ch (ln + 1) y Hwf Hy) as (_ & _ & Hpar).
  replace (ln + 1 - 1) with ln in Hpar by lia. specialize (Hpar x ltac:(lia) Hx).
  assert (Hp : negb (b_parent (vblk hs y) =? 0) && negb (lh =? b_parent (vblk hs y)) = false).
  { destruct hs; cbn; [|reflexivity]. rewrite Hpar, (Hlh eq_refl), N.eqb_refl. cbn. apply andb_false_r. }
  rewrite Hp. cbn [v_xlink repaired negb orb].
  rewrite (segment_linked hs ch k (ln + 1) y Hwf Hy ltac:(lia)). reflexivity.
Qed.

Opaque exec_honest.

Lemma hx_mono : forall f p d cs o d' cs',
  hx f p d cs = (Fin o, d', cs') -> forall k, hx (f + k) p d cs = (Fin o, d', cs').
Proof.
  induction f as [|f IH]; intros p d cs o d' cs' H k; [discriminate|].
  destruct p as [o0|i kk]; [exact H|]. cbn [Nat.add].
  destruct (is_db_op i) eqn:E.
  - rewrite hx_db in * by exact E. apply IH. exact H.
  - rewrite hx_node in * by exact E. apply IH. exact H.
Qed.

Lemma reorg_loop_S' : forall v f, reorg_loop v (S f) c = position v c (reorg_loop v f c).
Proof. reflexivity. Qed.

(* ---------- one fault-free step that has something to index ---------- *)
Section Progress.
Variables (g : list batch) (d : db) (ln : N) (x : blk).
Hypothesis Hpv : pv c d = render c g.
Hypothesis Hw : wf_ghost c g.
Hypothesis Hon : Forall (on_chain hs ch) (concat g).
Hypothesis Hx : blk_at ch ln = Some x.
(* the position: the recorded one, or start-1 when nothing is recorded *)
Hypothesis Hpos : (exists h, gpos g = Some (ln, h)) \/ (g = [] /\ 0 < t_start c /\ ln = t_start c - 1).
Hypothesis Hlt : ln < clip c (height ch - 1).

Notation tn := (clip c (height ch - 1)).
Notation delta := (delta_of c ln tn).
Notation bs := (view hs (segment ch (ln + 1) delta)).

Lemma below_ln : forall y, In y (concat g) -> b_num y <= ln.
Proof.
  intros y Hy. destruct Hpos as [(h & Gp)|(-> & _)]; [|destruct Hy].
  apply (ghost_below_pos c g ln h Hw Gp y Hy).
Qed.

Lemma pos_hash_ok : forall h, gpos g = Some (ln, h) -> h = b_hash x.
Proof.
  intros h Gp. unfold gpos in Gp. destruct (rev g) as [|b r] eqn:Er; [discriminate|]. inversion Gp; subst.
  apply (f_equal (@rev _)) in Er. rewrite rev_involutive in Er. cbn [rev] in Er.
  pose proof Hw as (Hne & _). rewrite Forall_forall in Hne, Hon.
  assert (Hb : b <> []) by (apply Hne; rewrite Er; apply in_or_app; right; left; reflexivity).
  assert (Hin : In (last_blk b) (concat g)).
  { rewrite Er. apply (in_concat_batch _ b); [apply in_or_app; right; left; reflexivity|apply last_blk_in; exact Hb]. }
  destruct (Hon _ Hin) as (z & Hz & Ez). rewrite Hx in Hz. inversion Hz; subst z.
  rewrite Ez. apply vblk_hash.
Qed.

Lemma delta_facts : 1 <= delta /\ delta <= t_batch c /\ ln + delta <= tn /\ tn <= height ch - 1
                    /\ (t_stop c = 0 \/ tn <= t_stop c) /\ 1 <= height ch.
Proof.
  destruct top_block as (_ & _ & _ & Hh). unfold delta_of. destruct Hc as (Hb & _).
  pose proof (clip_le' c (height ch - 1)). pose proof (clip_stop' c (height ch - 1)). lia.
Qed.

Lemma bs_nums : map b_num bs = nums_from (ln + 1) (N.to_nat delta).
Proof.
  destruct delta_facts as (A & B & C & D & _ & E).
  replace delta with (N.of_nat (N.to_nat delta)) at 1 by lia.
  apply (segment_facts hs ch (N.to_nat delta) (ln + 1) Hwf). lia.
Qed.

Lemma bs_keys : Forall (fun b => NoDup (map fst (b_rows b))) bs.
Proof.
  rewrite view_map. apply Forall_forall. intros b Hb. apply in_map_iff in Hb.
  destruct Hb as (y & <- & Hy). apply in_segment in Hy.
  replace (b_rows (vblk hs y)) with (b_rows y) by (destruct hs; reflexivity). apply Hkeys. exact Hy.
Qed.

Lemma newest_d : newest (t_src c) (t_ig c) (d_curs d) = gpos g.
Proof. rewrite <- newest_pv, Hpv. apply newest_render. exact Hw. Qed.

(* the second transaction, from a committed state whose pair renders [g] *)
Lemma hx_tail : forall f th,
  hx (5 + f) (Op Begin (tx2_begin c bs tn th delta)) d None
  = (Fin OConverged, apply_ws [WCopy (rows_of c bs); WInsCur (bcur c bs)] d, None).
Proof.
  intros f th. destruct delta_facts as (D1 & D2 & D3 & D4 & D5 & D6). cbn [Nat.add].
  rewrite hx_db by reflexivity. cbn [db_step fst snd]. unfold tx2_begin. cbn [is_fail].
  rewrite hx_db by reflexivity. cbn [db_step vis apply_ws fold_left].
  assert (Hcc : u && copy_collides (d_rows d) (rows_of c bs) = false).
  { rewrite (no_copy_collision c d g bs ln (N.to_nat delta) Hpv below_ln bs_nums bs_keys). apply andb_false_r. }
  rewrite Hcc. cbn [do_write fst snd app]. unfold tx2_copy. cbn [is_fail].
  rewrite hx_db by reflexivity. cbn [db_step vis apply_ws fold_left apply_wop d_curs].
  assert (Hlast : b_num (last_blk bs) = ln + delta).
  { pose proof bs_nums as Hn. destruct (N.to_nat delta) as [|k] eqn:Ek; [lia|].
    rewrite (nums_from_last k (ln + 1) bs Hn). lia. }
  assert (Hcur : cur_collides (d_curs d)
                   (Cur (t_src c) (t_ig c) (b_num (last_blk bs)) (b_hash (last_blk bs))) = false).
  { apply (no_cur_collision c (d_curs d) g _ _ ln); [|exact Hw|exact below_ln|lia].
    change (filter (cur_of (t_src c) (t_ig c)) (d_curs d)) with (d_curs (pv c d)). rewrite Hpv. reflexivity. }
  rewrite Hcur. cbn [do_write fst snd app]. unfold tx2_cursor. cbn [is_fail].
  rewrite hx_db by reflexivity. cbn [db_step vis fst snd]. unfold tx2_done. cbn [is_fail].
  rewrite hx_ret. reflexivity.
Qed.

(* from the point where the local position is known up to the load: node
   operations only, whatever the connection state *)
Lemma hx_to_insert : forall f lh again d' cs', (hs = true -> lh = b_hash x) ->
  exists th,
  hx (2 + f) (with_local repaired c again ln lh) d' cs'
  = hx f (insert_tx c bs tn th delta) d' cs'.
Proof.
  intros f lh again d' cs' Hlh. destruct delta_facts as (D1 & D2 & D3 & D4 & D5 & D6).
  unfold with_local.
  assert (Hstop : (0 <? t_stop c) && (t_stop c <=? ln) = false).
  { destruct (N.ltb_spec 0 (t_stop c)); [|reflexivity]. destruct (N.leb_spec (t_stop c) ln); [lia|reflexivity]. }
  rewrite Hstop. cbn [Nat.add].
  rewrite hx_node by reflexivity. destruct (honest_latest ln) as (tb & Htb & ->).
  unfold after_head. rewrite Hdeps. unfold after_target.
  destruct (N.ltb_spec tn ln); [lia|]. destruct (N.eqb_spec ln tn); [lia|].
  destruct (N.eqb_spec delta 0); [lia|].
  assert (Hln : ln < nmax) by lia. rewrite (w64_nmax' ln Hln).
  rewrite hx_node by reflexivity.
  assert (T : tiles (ln + 1) (ln + 1 + delta) (partitions repaired c (ln + 1) delta)).
  { apply partitions_tile; try assumption. unfold nmax, two63 in *. lia. }
  rewrite (honest_get _ _ _ T) by lia.
  unfold after_get.
  destruct (load_honest ln lh delta x D1 ltac:(lia) Hx Hlh) as [L|L]; [|contradiction].
  rewrite L. exists (b_hash tb). reflexivity.
Qed.

(* from the point where the local position is known *)
Lemma hx_with_local : forall f lh again, (hs = true -> lh = b_hash x) ->
  hx (9 + f) (with_local repaired c again ln lh) d (Some [])
  = (Fin OConverged, apply_ws [WCopy (rows_of c bs); WInsCur (bcur c bs)] d, None).
Proof.
  intros f lh again Hlh. destruct (hx_to_insert (7 + f) lh again d (Some []) Hlh) as (th & E).
  change (9 + f)%nat with (2 + (7 + f))%nat. rewrite E. unfold insert_tx. cbn [Nat.add].
  rewrite hx_db by reflexivity. cbn [db_step vis apply_ws fold_left fst snd]. unfold tx1_commit. cbn [is_fail].
  apply (hx_tail (1 + f)).
Qed.

(* the whole step *)
Lemma honest_step_converges : forall f,
  hx (12 + f) (converge c) d None
  = (Fin OConverged, apply_ws [WCopy (rows_of c bs); WInsCur (bcur c bs)] d, None).
Proof.
  intros f. unfold converge, converge_v. cbn [Nat.add].
  rewrite hx_db by reflexivity. cbn [db_step fst snd]. unfold begun. cbn [is_fail].
  change 1001%nat with (S 1000). rewrite reorg_loop_S'. unfold position.
  rewrite hx_db by reflexivity. cbn [db_step vis apply_ws fold_left fst snd].
  rewrite newest_d. unfold pos_query.
  destruct Hpos as [(h & Gp)|(Eg & Hs & El)].
  - rewrite Gp. apply (hx_with_local (1 + f)). intros _. apply pos_hash_ok. exact Gp.
  - rewrite Eg. cbn [gpos rev]. destruct (N.ltb_spec 0 (t_start c)); [|lia].
    rewrite hx_node by reflexivity. cbn [honest]. rewrite <- El, Hx. unfold pos_hash.
    apply (hx_with_local f). intros _. reflexivity.
Qed.

(* the state it leaves *)
Lemma honest_step_state :
  let d' := apply_ws [WCopy (rows_of c bs); WInsCur (bcur c bs)] d in
  pv c d' = render c (g ++ [bs]) /\ outside c d' = outside c d
  /\ wf_ghost c (g ++ [bs]) /\ Forall (on_chain hs ch) (concat (g ++ [bs]))
  /\ gpos (g ++ [bs]) = Some (ln + delta, b_hash (last_blk bs)).
Proof.
  destruct delta_facts as (D1 & D2 & D3 & D4 & D5 & D6).
  assert (Hown : Forall (own_wop c) [WCopy (rows_of c bs); WInsCur (bcur c bs)]).
  { constructor; [apply rows_of_own|]. constructor; [|constructor].
    unfold own_wop, cur_of, bcur. cbn. rewrite !N.eqb_refl. reflexivity. }
  assert (Hsf : Forall (on_chain hs ch) bs).
  { replace delta with (N.of_nat (N.to_nat delta)) by lia.
    apply (segment_facts hs ch (N.to_nat delta) (ln + 1) Hwf). lia. }
  cbn zeta. split; [|split; [|split; [|split]]].
  - rewrite pv_apply_ws_own by exact Hown. rewrite Hpv. unfold apply_ws. cbn [fold_left]. apply insert_render.
  - apply outside_apply_ws_own. exact Hown.
  - (* well-formedness of the extended ghost *)
    assert (Hld : loaded (b_hash x) ln delta bs).
    { constructor.
      - exact bs_nums.
      - replace delta with (N.of_nat (N.to_nat delta)) by lia.
        apply segment_chain_ok; [exact Hwf|lia].
      - destruct (nth_error ch (N.to_nat (ln + 1))) as [y|] eqn:E.
        2:{ apply nth_error_None in E. unfold height in *. lia. }
        assert (Hy : blk_at ch (ln + 1) = Some y) by exact E.
        replace delta with (N.of_nat (S (pred (N.to_nat delta)))) by lia.
        rewrite (segment_S ch (ln + 1) _ y Hy), view_map. cbn [map].
        destruct (wf_chain_at ch (ln + 1) y Hwf Hy) as (_ & _ & Hpar).
        replace (ln + 1 - 1) with ln in Hpar by lia. specialize (Hpar x ltac:(lia) Hx).
        destruct hs; cbn; [right; symmetry; exact Hpar|left; reflexivity]. }
    assert (HW : W c (on_chain hs ch) (g ++ [bs])).
    { apply (W_extend c (fun _ _ => True) (on_chain hs ch) (fun _ _ => True) (fun _ => True) (fun _ => True)
                      (fun _ _ _ => I) (fun _ _ _ _ => I) (fun _ _ _ _ _ _ _ _ _ _ _ _ _ => I)
                      g ln (b_hash x) delta bs tn);
        try assumption; try lia.
      - split; assumption.
      - unfold pos_of. destruct Hpos as [(h & Gp)|(Eg & Hs & El)].
        + rewrite Gp. split; [reflexivity|]. symmetry. apply pos_hash_ok. exact Gp.
        + rewrite Eg. cbn [gpos rev]. split; [exact I|]. left. split; assumption. }
    apply HW.
  - rewrite concat_snoc. apply Forall_app. split; assumption.
  - rewrite gpos_snoc. f_equal. f_equal.
    pose proof bs_nums as Hn. destruct (N.to_nat delta) as [|k] eqn:Ek; [lia|].
    rewrite (nums_from_last k (ln + 1) bs Hn). lia.
Qed.
End Progress.

Definition top : N := height ch - 1.

(* C01 growth_progress: a fault-free step with something to index converges
   and appends exactly the next delta = min(target - position, batch) >= 1 blocks *)
Lemma progress_lemma : forall g d ln x,
  pv c d = render c g -> wf_ghost c g -> Forall (on_chain hs ch) (concat g) ->
  blk_at ch ln = Some x ->
  (exists h, gpos g = Some (ln, h)) \/ (g = [] /\ 0 < t_start c /\ ln = t_start c - 1) ->
  ln < clip c top ->
  let x1 := exec_honest 400 u hs ch (converge c) d None in
  let delta := delta_of c ln (clip c top) in
  r_out x1 = Fin OConverged /\ r_cs x1 = None /\ 1 <= delta
  /\ pv c (r_db x1) = render c (g ++ [view hs (segment ch (ln + 1) delta)])
  /\ outside c (r_db x1) = outside c d
  /\ wf_ghost c (g ++ [view hs (segment ch (ln + 1) delta)])
  /\ Forall (on_chain hs ch) (concat (g ++ [view hs (segment ch (ln + 1) delta)]))
  /\ exists h, gpos (g ++ [view hs (segment ch (ln + 1) delta)]) = Some (ln + delta, h).
Proof.
  intros g d ln x Hpv Hw Hon Hx Hpos Hlt. cbn zeta.
  pose proof (honest_step_converges g d ln x Hpv Hw Hon Hx Hpos Hlt 388) as E.
  assert (F400 : (12 + 388 = 400)%nat) by reflexivity. rewrite F400 in E. unfold hx in E.
  pose proof (f_equal (fun t => fst (fst t)) E) as E1. pose proof (f_equal (fun t => snd (fst t)) E) as E2.
  pose proof (f_equal snd E) as E3. cbn [fst snd] in E1, E2, E3. rewrite E1, E2, E3.
  destruct (honest_step_state g d ln x Hpv Hw Hon Hx Hpos Hlt) as (A & B & C & D & F).
  assert (D1 : 1 <= delta_of c ln (clip c top)) by (unfold delta_of; destruct Hc as (Hb & _); lia).
  split; [reflexivity|]. split; [reflexivity|]. split; [exact D1|]. split; [exact A|]. split; [exact B|].
  split; [exact C|]. split; [exact D|]. eexists. exact F.
Qed.

End Live.

(* ---------- iteration, generic in the step function ---------- *)
Section Iter.
Variable stepf : db -> db.
Fixpoint iter (n : nat) (d : db) : db :=
  match n with O => d | S k => iter k (stepf d) end.

Variable c : tcfg.
Variable ch : chain.
Notation hs := (t_hashes c).
Notation tgt := (clip c (height ch - 1)).
Definition at_pos (g : list batch) (ln : N) : Prop :=
  (exists h, gpos g = Some (ln, h)) \/ (g = [] /\ 0 < t_start c /\ ln = t_start c - 1).

(* what one step does when there is something to index *)
Hypothesis Hstep : forall g d ln x,
  pv c d = render c g -> wf_ghost c g -> Forall (on_chain hs ch) (concat g) ->
  blk_at ch ln = Some x -> at_pos g ln -> ln < tgt ->
  exists g1 ln1 h1,
    ln < ln1 /\ ln1 <= tgt
    /\ pv c (stepf d) = render c g1 /\ outside c (stepf d) = outside c d
    /\ wf_ghost c g1 /\ Forall (on_chain hs ch) (concat g1) /\ gpos g1 = Some (ln1, h1).
Hypothesis Htop : tgt <= height ch - 1.
Hypothesis Hne : 1 <= height ch.

Lemma reach_generic : forall m g d ln x,
  pv c d = render c g -> wf_ghost c g -> Forall (on_chain hs ch) (concat g) ->
  blk_at ch ln = Some x -> at_pos g ln -> ln < tgt -> (N.to_nat (tgt - ln) <= m)%nat ->
  exists n g', (1 <= n <= m)%nat
    /\ pv c (iter n d) = render c g' /\ wf_ghost c g' /\ Forall (on_chain hs ch) (concat g')
    /\ (exists h, gpos g' = Some (tgt, h))
    /\ outside c (iter n d) = outside c d.
Proof.
  induction m as [|m IH]; intros g d ln x Hpv Hw Hon Hx Hpos Hlt Hm; [lia|].
  destruct (Hstep g d ln x Hpv Hw Hon Hx Hpos Hlt) as (g1 & ln1 & h1 & L1 & L2 & A & B & C & D & F).
  destruct (N.eq_dec ln1 tgt) as [E|E].
  - exists 1%nat, g1. split; [lia|]. cbn [iter]. split; [exact A|]. split; [exact C|].
    split; [exact D|]. split; [exists h1; rewrite <- E; exact F|exact B].
  - destruct (nth_error ch (N.to_nat ln1)) as [x'|] eqn:En.
    2:{ apply nth_error_None in En. unfold height in *. lia. }
    assert (K1 : ln1 < tgt) by lia.
    assert (K2 : (N.to_nat (tgt - ln1) <= m)%nat) by lia.
    destruct (IH g1 (stepf d) ln1 x' A C D En (or_introl (ex_intro _ h1 F)) K1 K2)
      as (n & g' & Hn & P1 & P2 & P3 & P4 & P5).
    exists (S n), g'. split; [lia|]. cbn [iter]. split; [exact P1|]. split; [exact P2|].
    split; [exact P3|]. split; [exact P4|]. rewrite P5. exact B.
Qed.
End Iter.

(* the fault-free step as a function on databases *)
Definition hstepf (c : tcfg) (ch : chain) (d : db) : db :=
  r_db (exec_honest 400 (t_uniq c) (t_hashes c) ch (converge c) d None).

Section Reach.
Variable c : tcfg.
Variable ch : chain.
Hypothesis Hc : cfg_ok c.
Hypothesis Hwf : wf_chain ch.
Hypothesis Hsmall : height ch < nmax.
Hypothesis Hdeps : t_deps c = [].
Hypothesis Hkeys : forall b, In b ch -> NoDup (map fst (b_rows b)).

Lemma hstepf_step : forall g d ln x,
  pv c d = render c g -> wf_ghost c g -> Forall (on_chain (t_hashes c) ch) (concat g) ->
  blk_at ch ln = Some x -> at_pos c g ln -> ln < clip c (height ch - 1) ->
  exists g1 ln1 h1,
    ln < ln1 /\ ln1 <= clip c (height ch - 1)
    /\ pv c (hstepf c ch d) = render c g1 /\ outside c (hstepf c ch d) = outside c d
    /\ wf_ghost c g1 /\ Forall (on_chain (t_hashes c) ch) (concat g1) /\ gpos g1 = Some (ln1, h1).
Proof.
  intros g d ln x Hpv Hw Hon Hx Hpos Hlt.
  destruct (progress_lemma c ch Hc Hwf Hsmall Hdeps Hkeys g d ln x Hpv Hw Hon Hx Hpos Hlt)
    as (_ & _ & D1 & A & B & C & D & (h & F)).
  eexists _, (ln + delta_of c ln (clip c (top ch))), h.
  split; [lia|]. split; [unfold delta_of, top; lia|].
  split; [exact A|]. split; [exact B|]. split; [exact C|]. split; [exact D|exact F].
Qed.

(* C01 growth_reaches_head *)
Lemma reach_lemma : forall g d ln x,
  pv c d = render c g -> wf_ghost c g -> Forall (on_chain (t_hashes c) ch) (concat g) ->
  blk_at ch ln = Some x -> at_pos c g ln -> ln < clip c (height ch - 1) ->
  exists n g', (1 <= n <= N.to_nat (clip c (height ch - 1) - ln))%nat
    /\ pv c (iter (hstepf c ch) n d) = render c g' /\ wf_ghost c g'
    /\ Forall (on_chain (t_hashes c) ch) (concat g')
    /\ (exists h, gpos g' = Some (clip c (height ch - 1), h))
    /\ outside c (iter (hstepf c ch) n d) = outside c d.
Proof.
  intros g d ln x Hpv Hw Hon Hx Hpos Hlt.
  assert (Hne : 1 <= height ch).
  { destruct ch; [destruct Hwf|]. unfold height. cbn [length]. lia. }
  apply (reach_generic (hstepf c ch) c ch hstepf_step (clip_le' c _) Hne _ g d ln x); try assumption. lia.
Qed.

(* C02 retry_equiv (growth histories): whatever state a failed step left --
   same pair, same outside -- the fault-free retry ends in the same pair and
   the same outside as the fault-free run from the original state *)
Lemma retry_lemma : forall g d d' ln x,
  pv c d = render c g -> wf_ghost c g -> Forall (on_chain (t_hashes c) ch) (concat g) ->
  blk_at ch ln = Some x -> at_pos c g ln -> ln < clip c (height ch - 1) ->
  pv c d' = pv c d -> outside c d' = outside c d ->
  pv c (hstepf c ch d') = pv c (hstepf c ch d) /\ outside c (hstepf c ch d') = outside c (hstepf c ch d).
Proof.
  intros g d d' ln x Hpv Hw Hon Hx Hpos Hlt Ep Eo.
  assert (Hpv' : pv c d' = render c g) by (rewrite Ep; exact Hpv).
  destruct (progress_lemma c ch Hc Hwf Hsmall Hdeps Hkeys g d ln x Hpv Hw Hon Hx Hpos Hlt) as (_ & _ & _ & A1 & B1 & _).
  destruct (progress_lemma c ch Hc Hwf Hsmall Hdeps Hkeys g d' ln x Hpv' Hw Hon Hx Hpos Hlt) as (_ & _ & _ & A2 & B2 & _).
  unfold hstepf. split; [rewrite A1, A2; reflexivity|]. rewrite B1, B2. exact Eo.
Qed.
End Reach.
