(* Lemmas about Model/Schema.v, part 1: migration (every declared column
   exists afterwards, whatever was there before and whatever comes later),
   the columns and fields AddRequiredFields adds, what ValidateColRefs
   guarantees. *)
From Coq Require Import List NArith Bool String Ascii Lia.
From Shovel Require Import Base.Outcome Model.Config Model.Sql Model.Schema Proofs.ConfigP.
Import ListNotations.
Open Scope N_scope.

(* ---- catalog lemmas ---- *)
Lemma fold_opt_inv : forall {A B} (P : A -> Prop) (f : A -> B -> option A) l a a',
  (forall x y z, P x -> f x y = Some z -> P z) -> P a -> fold_opt f l a = Some a' -> P a'.
Proof.
  intros A B P f. induction l as [|x l IH]; intros a a' Hstep Ha H; simpl in H.
  - inversion H; subst; assumption.
  - destruct (f a x) as [a1|] eqn:E; [|discriminate]. exact (IH a1 a' Hstep (Hstep _ _ _ Ha E) H).
Qed.

Definition cat_le (c1 c2 : catalog) : Prop :=
  forall n x, In x (table_cols c1 n) -> In x (table_cols c2 n).
Lemma cat_le_refl : forall c, cat_le c c.
Proof. intros c n x H. exact H. Qed.
Lemma cat_le_trans : forall a b c, cat_le a b -> cat_le b c -> cat_le a c.
Proof. intros a b c H1 H2 n x H. apply H2, H1, H. Qed.

Lemma create_idx_tables : forall cat name tn cols u cat',
  create_idx cat name tn cols u = Some cat' -> cat_tables cat' = cat_tables cat.
Proof.
  intros cat name tn cols u cat' H. unfold create_idx in H.
  destruct (is_nil cols); [discriminate|]. destruct (has_index cat name); [inversion H; reflexivity|].
  destruct (forallb _ cols); inversion H; reflexivity.
Qed.
Lemma table_cols_same : forall c1 c2 n, cat_tables c1 = cat_tables c2 -> table_cols c1 n = table_cols c2 n.
Proof. intros c1 c2 n H. unfold table_cols, find_table. rewrite H. reflexivity. Qed.

Lemma fold_create_tables : forall {B} (f : catalog -> B -> option catalog) l cat cat',
  (forall c y c', f c y = Some c' -> cat_tables c' = cat_tables c) ->
  fold_opt f l cat = Some cat' -> cat_tables cat' = cat_tables cat.
Proof.
  intros B f l cat cat' Hf H.
  apply (fold_opt_inv (fun c => cat_tables c = cat_tables cat) f l cat cat'); auto.
  intros x y z Hx Hz. rewrite (Hf _ _ _ Hz). exact Hx.
Qed.

Lemma find_app_none : forall {A} (p : A -> bool) l1 l2, find p l1 = None -> find p (l1 ++ l2) = find p l2.
Proof. induction l1; simpl; intros; auto. destruct (p a); [discriminate|auto]. Qed.
Lemma find_app_some : forall {A} (p : A -> bool) l1 l2 x, find p l1 = Some x -> find p (l1 ++ l2) = Some x.
Proof. induction l1; simpl; intros; [discriminate|]. destruct (p a); auto. Qed.

Lemma str_eqb_sym : forall a b, str_eqb a b = str_eqb b a.
Proof.
  intros a b. destruct (str_eqb a b) eqn:E1; destruct (str_eqb b a) eqn:E2; auto.
  - apply str_eqb_eq in E1. subst. rewrite str_eqb_refl in E2. discriminate.
  - apply str_eqb_eq in E2. subst. rewrite str_eqb_refl in E1. discriminate.
Qed.

(* set_cols replaces the columns of one table and keeps the others *)
Lemma table_cols_set : forall cat tn cols n,
  table_cols (set_cols cat tn cols) n =
  if str_eqb n tn then (match find_table cat tn with Some _ => cols | None => [] end)
  else table_cols cat n.
Proof.
  intros cat tn cols n. unfold table_cols, find_table, set_cols. simpl.
  induction (cat_tables cat) as [|t l IH]; simpl.
  - destruct (str_eqb n tn); reflexivity.
  - destruct (str_eqb (pt_name t) tn) eqn:E1; simpl.
    + apply str_eqb_eq in E1. rewrite (str_eqb_sym tn n).
      destruct (str_eqb n tn) eqn:E2; [reflexivity|].
      rewrite E1. rewrite (str_eqb_sym tn n), E2. exact IH.
    + destruct (str_eqb (pt_name t) n) eqn:E3.
      * apply str_eqb_eq in E3. subst n. rewrite E1. reflexivity.
      * exact IH.
Qed.

Section Mig.
  Variable res : list str.

  Lemma create_indexes_tables : forall cat t cat',
    create_indexes res cat t = Some cat' -> cat_tables cat' = cat_tables cat.
  Proof.
    intros cat t cat' H. unfold create_indexes in H.
    destruct (fold_opt _ (t_unique t) cat) as [cat2|] eqn:E2; [|discriminate].
    assert (T2 : cat_tables cat2 = cat_tables cat).
    { eapply fold_create_tables; [|exact E2]. intros c y c' Hc. eapply create_idx_tables; exact Hc. }
    rewrite <- T2. eapply fold_create_tables; [|exact H]. intros c y c' Hc. eapply create_idx_tables; exact Hc.
  Qed.

  Lemma create_table_cat_spec : forall cat t cat1, create_table_cat res cat t = Some cat1 ->
    cat_le cat cat1 /\ exists pt, find_table cat1 (lower_ascii (t_name t)) = Some pt.
  Proof.
    intros cat t cat1 E1. unfold create_table_cat in E1.
    set (tn := lower_ascii (t_name t)) in *.
    set (names := map (fun c => ddl_name res (c_name c)) (t_cols t)) in *.
    destruct (find_table cat tn) as [pt|] eqn:Ef.
    - inversion E1; subst. split; [apply cat_le_refl|exists pt; assumption].
    - destruct (nodupb names); [|discriminate]. inversion E1; subst; clear E1. split.
      + intros n x Hx. unfold table_cols, find_table in *. simpl.
        destruct (find (fun t0 => str_eqb (pt_name t0) n) (cat_tables cat)) as [p|] eqn:Ep; [|contradiction].
        rewrite (find_app_some _ _ _ _ Ep). exact Hx.
      + exists {| pt_name := tn; pt_cols := names |}.
        unfold find_table in *. simpl. rewrite (find_app_none _ _ _ Ef). simpl. rewrite str_eqb_refl. reflexivity.
  Qed.

  Lemma add_missing_spec : forall cat t pt, find_table cat (lower_ascii (t_name t)) = Some pt ->
    cat_le cat (add_missing res cat t) /\
    forall c, In c (t_cols t) ->
      In (ddl_name res (c_name c)) (table_cols (add_missing res cat t) (lower_ascii (t_name t))).
  Proof.
    intros cat t pt Hpt. unfold add_missing.
    set (tn := lower_ascii (t_name t)) in *.
    set (names := map (fun c => ddl_name res (c_name c)) (t_cols t)) in *.
    set (have := table_cols cat tn). split.
    - intros n x Hx. rewrite table_cols_set. rewrite Hpt. destruct (str_eqb n tn) eqn:E; [|exact Hx].
      apply str_eqb_eq in E. subst n. apply in_or_app. left. exact Hx.
    - intros c Hc. rewrite table_cols_set. rewrite str_eqb_refl, Hpt.
      destruct (mem (ddl_name res (c_name c)) have) eqn:Em.
      + apply in_or_app. left. apply mem_In. exact Em.
      + apply in_or_app. right. apply filter_In. split.
        * unfold names. apply in_map_iff. exists c. split; [reflexivity|exact Hc].
        * rewrite Em. reflexivity.
  Qed.

  (* after migrating a table every declared column exists, and nothing that
     existed before was lost *)
  Lemma migrate_table_spec : forall cat t cat',
    migrate_table res cat t = Some cat' ->
    cat_le cat cat' /\
    (is_nil (t_cols t) = false ->
     forall c, In c (t_cols t) -> In (ddl_name res (c_name c)) (table_cols cat' (lower_ascii (t_name t)))).
  Proof.
    intros cat t cat' H. unfold migrate_table in H.
    destruct (is_nil (t_cols t)) eqn:En.
    { inversion H; subst. split; [apply cat_le_refl|discriminate]. }
    destruct (is_reserved res (t_name t)); [discriminate|].
    destruct (create_table_cat res cat t) as [cat1|] eqn:E1; [|discriminate].
    destruct (create_table_cat_spec _ _ _ E1) as [Hle1 [pt Hpt]].
    destruct (add_missing_spec cat1 t pt Hpt) as [Hle2 Hhas].
    pose proof (create_indexes_tables _ _ _ H) as T.
    split.
    - intros n x Hx. rewrite (table_cols_same cat' (add_missing res cat1 t) n T). apply Hle2, Hle1, Hx.
    - intros _ c Hc. rewrite (table_cols_same cat' (add_missing res cat1 t) _ T). apply Hhas. exact Hc.
  Qed.

  Lemma migrate_all_le : forall igs cat cat', migrate_all res cat igs = Some cat' -> cat_le cat cat'.
  Proof.
    unfold migrate_all. induction igs as [|g igs IH]; intros cat cat' H; simpl in H.
    - inversion H. apply cat_le_refl.
    - destruct (migrate_table res cat (ig_table g)) as [c1|] eqn:E; [|discriminate].
      eapply cat_le_trans; [apply (proj1 (migrate_table_spec _ _ _ E))|apply IH; exact H].
  Qed.

  Lemma migrate_all_has : forall igs cat cat' g,
    migrate_all res cat igs = Some cat' -> In g igs -> is_nil (t_cols (ig_table g)) = false ->
    forall c, In c (t_cols (ig_table g)) ->
    In (ddl_name res (c_name c)) (table_cols cat' (lower_ascii (t_name (ig_table g)))).
  Proof.
    unfold migrate_all. induction igs as [|g0 igs IH]; intros cat cat' g H Hin Hne c Hc; simpl in H; [contradiction|].
    destruct (migrate_table res cat (ig_table g0)) as [c1|] eqn:E; [|discriminate].
    destruct Hin as [Heq|Hin].
    - subst g0. apply (migrate_all_le igs c1 cat' H).
      apply (proj2 (migrate_table_spec _ _ _ E)); assumption.
    - eapply IH; eassumption.
  Qed.

  (* names that DDL text and COPY spell the same way: lower case already, or a
     reserved word (which quote() double-quotes) *)
  Definition plain_name (n : str) : bool := is_reserved res n || str_eqb (lower_ascii n) n.
  Definition plain_names (g : integ) : bool :=
    str_eqb (lower_ascii (t_name (ig_table g))) (t_name (ig_table g))
    && forallb (fun c => plain_name (c_name c)) (t_cols (ig_table g)).

  Lemma plain_ddl_name : forall n, plain_name n = true -> ddl_name res n = n.
  Proof.
    intros n H. unfold plain_name in H. unfold ddl_name. destruct (is_reserved res n); [reflexivity|].
    simpl in H. apply str_eqb_eq. exact H.
  Qed.

  (* setCols writes only declared columns once ValidateColRefs passed *)
  Lemma get_col_found : forall t name, mem name (col_names t) = true ->
    exists c, In c (t_cols t) /\ get_col t name = c_name c /\ c_name c = name.
  Proof.
    intros t name H. unfold get_col. apply mem_In in H. unfold col_names in H.
    apply in_map_iff in H as [c [Hn Hc]].
    destruct (find (fun c0 => str_eqb (c_name c0) name) (t_cols t)) as [c'|] eqn:Ef.
    - apply find_some in Ef as [Hin He]. apply str_eqb_eq in He. exists c'. auto.
    - exfalso. apply (find_none _ _ Ef) in Hc. rewrite Hn, str_eqb_refl in Hc. discriminate.
  Qed.

  Lemma written_declared : forall g x, validate_col_refs g = true -> In x (written_columns g) ->
    exists c, In c (t_cols (ig_table g)) /\ x = c_name c.
  Proof.
    intros g x Hv Hx. unfold validate_col_refs in Hv.
    repeat (apply andb_true_iff in Hv as [Hv ?]).
    unfold written_columns in Hx. apply in_app_or in Hx as [Hx|Hx]; apply in_map_iff in Hx as [y [Hy Hin]].
    - rewrite forallb_forall in H1. specialize (H1 y Hin).
      destruct (get_col_found _ _ H1) as [c [Hc [Hg _]]]. exists c. split; [assumption|]. rewrite <- Hy. exact Hg.
    - rewrite forallb_forall in H0. specialize (H0 y Hin). apply andb_true_iff in H0 as [_ H0].
      destruct (get_col_found _ _ H0) as [c [Hc [Hg _]]]. exists c. split; [assumption|]. rewrite <- Hy. exact Hg.
  Qed.

  Theorem written_columns_exist_lemma : forall cat0 igs cat g x,
    migrate_all res cat0 igs = Some cat -> In g igs ->
    validate_col_refs g = true -> plain_names g = true ->
    In x (written_columns g) -> In x (table_cols cat (t_name (ig_table g))).
  Proof.
    intros cat0 igs cat g x Hm Hin Hv Hp Hx.
    destruct (written_declared g x Hv Hx) as [c [Hc Hxc]]. subst x.
    unfold plain_names in Hp. apply andb_true_iff in Hp as [Ht Hcs].
    apply str_eqb_eq in Ht. rewrite forallb_forall in Hcs.
    pose proof (migrate_all_has igs cat0 cat g Hm Hin) as H.
    rewrite Ht in H. rewrite <- (plain_ddl_name (c_name c) (Hcs c Hc)). apply H; [|exact Hc].
    destruct (t_cols (ig_table g)); [contradiction|reflexivity].
  Qed.
End Mig.

(* ---- AddRequiredFields ---- *)
Lemma has_col_add_field : forall n t g x, has_col x (ig_table g) = true -> has_col x (ig_table (add_field n t g)) = true.
Proof.
  intros n t g x H. unfold add_field. simpl. destruct (has_col n (ig_table g)); [exact H|].
  unfold has_col, col_names in *. simpl. rewrite map_app. unfold mem in *. rewrite existsb_app, H. reflexivity.
Qed.
Lemma has_bd_add_field : forall n t g x, has_bd x g = true -> has_bd x (add_field n t g) = true.
Proof.
  intros n t g x H. unfold add_field, has_bd in *. simpl.
  destruct (existsb (fun b => str_eqb (bd_name b) n) (ig_block g)); [exact H|].
  rewrite existsb_app, H. reflexivity.
Qed.
Lemma add_field_has : forall n t g, has_col n (ig_table (add_field n t g)) = true /\ has_bd n (add_field n t g) = true.
Proof.
  intros n t g. unfold add_field. split.
  - simpl. destruct (has_col n (ig_table g)) eqn:E; [exact E|].
    unfold has_col, col_names, mem. simpl. rewrite map_app, existsb_app. simpl. rewrite str_eqb_refl, orb_true_r. reflexivity.
  - unfold has_bd. simpl. destruct (existsb (fun b => str_eqb (bd_name b) n) (ig_block g)) eqn:E; [exact E|].
    rewrite existsb_app. simpl. rewrite str_eqb_refl, orb_true_r. reflexivity.
Qed.
Lemma add_field_inputs : forall n t g, ig_inputs (add_field n t g) = ig_inputs g.
Proof. reflexivity. Qed.

Lemma guard_add_field : forall gd n t g, guard_holds gd g = true -> guard_holds gd (add_field n t g) = true.
Proof.
  intros gd n t g H. destruct gd; simpl in *; try exact H.
  unfold add_field. simpl. destruct (has_bd n g); [exact H|]. rewrite existsb_app, H. reflexivity.
Qed.

Lemma add_required_keeps : forall req g x,
  (has_col x (ig_table g) = true -> has_col x (ig_table (add_required_fields req g)) = true) /\
  (has_bd x g = true -> has_bd x (add_required_fields req g) = true) /\
  ig_inputs (add_required_fields req g) = ig_inputs g /\
  ig_notif (add_required_fields req g) = ig_notif g /\
  t_unique (ig_table (add_required_fields req g)) = t_unique (ig_table g) /\
  ig_name (add_required_fields req g) = ig_name g /\
  t_name (ig_table (add_required_fields req g)) = t_name (ig_table g).
Proof.
  unfold add_required_fields. induction req as [|[[gd n] t] req IH]; intros g x; simpl.
  - repeat split; auto.
  - destruct (guard_holds gd g).
    + destruct (IH (add_field n t g) x) as [H1 [H2 [H3 [H4 [H5 [H6 H7]]]]]].
      repeat split; auto using has_col_add_field, has_bd_add_field.
    + apply IH.
Qed.

(* a required field whose guard holds is added: column and block field *)
Lemma add_required_has : forall req g gd n t,
  In (gd, n, t) req -> guard_holds gd g = true ->
  has_col n (ig_table (add_required_fields req g)) = true /\ has_bd n (add_required_fields req g) = true.
Proof.
  unfold add_required_fields. induction req as [|[[gd0 n0] t0] req IH]; intros g gd n t Hin Hg; [contradiction|].
  simpl. destruct Hin as [Heq|Hin].
  - inversion Heq; subst. rewrite Hg.
    destruct (add_field_has n t g) as [H1 H2].
    destruct (add_required_keeps req (add_field n t g) n) as [K1 [K2 _]]. split; auto.
  - destruct (guard_holds gd0 g); [|eapply IH; eassumption].
    eapply IH; [eassumption|]. apply guard_add_field. exact Hg.
Qed.

(* the columns after AddRequiredFields: the declared ones and required names *)
Lemma add_required_cols : forall req g x,
  In x (col_names (ig_table (add_required_fields req g))) ->
  In x (col_names (ig_table g)) \/ In x (map (fun rf => snd (fst rf)) req).
Proof.
  unfold add_required_fields. induction req as [|[[gd n] t] req IH]; intros g x H; simpl in *; [left; exact H|].
  destruct (guard_holds gd g).
  - apply IH in H as [H|H]; [|right; right; exact H].
    unfold add_field in H. simpl in H. destruct (has_col n (ig_table g)); [left; exact H|].
    unfold col_names in H. simpl in H. rewrite map_app in H. apply in_app_or in H as [H|H]; [left; exact H|].
    simpl in H. destruct H as [H|[]]. right. left. exact H.
  - apply IH in H as [H|H]; [left|right; right]; exact H.
Qed.

Lemma add_unique_index_same : forall p t,
  t_cols (add_unique_index p t) = t_cols t /\ t_name (add_unique_index p t) = t_name t.
Proof.
  intros p t. unfold add_unique_index. destruct (negb (is_nil (t_unique t))); [auto|].
  destruct (is_nil (List.filter (fun p0 => has_col p0 t) p)); auto.
Qed.

Section FixOne.
  Variable G : gen.

  Lemma fix_one_spec : forall g g', fix_one G g = Some g' ->
    validate_col_refs g' = true /\ ig_inputs g' = ig_inputs g /\ ig_notif g' = ig_notif g /\
    ig_name g' = ig_name g /\ t_name (ig_table g') = t_name (ig_table g) /\
    (forall x, has_col x (ig_table g) = true -> has_col x (ig_table g') = true) /\
    (forall x, In x (col_names (ig_table g')) ->
               In x (col_names (ig_table g)) \/ In x (map (fun rf => snd (fst rf)) (g_required G))) /\
    (forall gd n t, In (gd, n, t) (g_required G) -> guard_holds gd g = true ->
                    has_col n (ig_table g') = true /\ has_bd n g' = true) /\
    (is_nil (t_unique (ig_table g)) = true ->
     t_unique (ig_table g') = (if is_nil (generated_key (g_possible G) g') then [] else [generated_key (g_possible G) g'])).
  Proof.
    intros g g' H. unfold fix_one in H.
    set (a := if is_nil (ig_agg g) then s_or else ig_agg g) in *.
    destruct (negb (str_eqb a s_and || str_eqb a s_or || is_nil a)); [discriminate|].
    set (g1 := add_required_fields (g_required G) (with_agg g a)) in *.
    destruct (validate_col_refs (with_table g1 (add_unique_index (g_possible G) (ig_table g1)))) eqn:Ev; [|discriminate].
    inversion H; subst g'; clear H.
    destruct (add_unique_index_same (g_possible G) (ig_table g1)) as [Hcols Hname].
    pose proof (fun x => add_required_keeps (g_required G) (with_agg g a) x) as K.
    split; [exact Ev|]. simpl.
    split; [apply (K []) |]. split; [apply (K [])|]. split; [apply (K [])|].
    split; [rewrite Hname; apply (K [])|].
    split.
    { intros x Hx. unfold has_col, col_names. rewrite Hcols. apply (proj1 (K x)). exact Hx. }
    split.
    { intros x Hx. unfold col_names in Hx. rewrite Hcols in Hx.
      apply (add_required_cols (g_required G) (with_agg g a) x Hx). }
    split.
    { intros gd n t Hin Hg. destruct (add_required_has (g_required G) (with_agg g a) gd n t Hin) as [H1 H2].
      - destruct gd; exact Hg.
      - split; [unfold has_col, col_names; rewrite Hcols; exact H1|exact H2]. }
    intros Hu.
    assert (Hu1 : t_unique (ig_table g1) = t_unique (ig_table g)) by apply (K []).
    assert (Hk : generated_key (g_possible G) (with_table g1 (add_unique_index (g_possible G) (ig_table g1)))
                 = List.filter (fun p => has_col p (ig_table g1)) (g_possible G)).
    { unfold generated_key. simpl. apply filter_ext. intros p. unfold has_col, col_names. rewrite Hcols. reflexivity. }
    rewrite Hk. unfold add_unique_index.
    destruct (t_unique (ig_table g)) eqn:Eu; [|discriminate]. rewrite Hu1. simpl.
    destruct (is_nil (List.filter (fun p => has_col p (ig_table g1)) (g_possible G))); [exact Hu1|reflexivity].
  Qed.

  Lemma fix_all_In : forall l l' g', fix_all G l = Some l' -> In g' l' -> exists g, In g l /\ fix_one G g = Some g'.
  Proof.
    induction l as [|g l IH]; intros l' g' H Hin; simpl in H.
    - inversion H; subst. contradiction.
    - destruct (fix_one G g) as [g1|] eqn:E1; [|discriminate].
      destruct (fix_all G l) as [r|] eqn:E2; [|discriminate]. inversion H; subst.
      destruct Hin as [Heq|Hin].
      + subst. exists g. split; [left; reflexivity|exact E1].
      + destruct (IH r g' eq_refl Hin) as [g0 [H0 H1]]. exists g0. split; [right; exact H0|exact H1].
  Qed.
End FixOne.

Lemma validate_fix_In : forall U G c c' g', validate_fix U G c = Some c' -> In g' (integs c') ->
  exists g, fix_one G g = Some g'.
Proof.
  intros U G c c' g' H Hin. unfold validate_fix in H. destruct (negb _); [discriminate|].
  destruct (validate_filter_refs (integs c)) as [igs1|]; [|discriminate].
  destruct (fix_all G igs1) as [igs2|] eqn:E; [|discriminate]. inversion H; subst. simpl in Hin.
  destruct (fix_all_In G _ _ _ E Hin) as [g [_ Hg]]. exists g. exact Hg.
Qed.
