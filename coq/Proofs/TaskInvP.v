(* The invariant proof of Task.Converge (repaired), one lemma per named
   sub-program of Model/Task.v, in the logic of Proofs/TaskExecP.v.

   The section is parametric in what is assumed of the node's answers ([G])
   and in three ghost predicates the later theorems instantiate:
   [BP] holds of every block the node served, [HP n h] of every answer h to
   Hash(n), [HD n] of every head number answered, [RJ p] must follow whenever
   a reorg is detected on top of ghost [p] ("reorg justified").  The initial
   ghost is [g0]; [dO] is everything outside the task's pair. *)
From Coq Require Import List NArith Bool Lia ZifyBool ZifyN ZifyNat.
From Shovel Require Import Model.TaskTypes Model.TaskDb Model.Task Model.TaskNode Model.TaskSys
  Model.TaskSpec Proofs.TaskArithP Proofs.TaskDbP Proofs.TaskExecP Proofs.TaskLoadP.
Import ListNotations.
Open Scope N_scope.

Arguments N.add : simpl never.
Arguments N.sub : simpl never.
Arguments N.mul : simpl never.
Arguments N.div : simpl never.
Arguments N.modulo : simpl never.
Arguments N.ltb : simpl never.
Arguments N.leb : simpl never.
Arguments N.eqb : simpl never.
Arguments N.min : simpl never.

Section Chain.
Variable c : tcfg.
Variable G : io -> reply -> Prop.
Variable SA : ans -> Prop.   (* answers the scripts may contain *)
Variable FD : Prop.          (* "dependency readings may be forced" *)
Variable BP : blk -> Prop.
Variable HP : N -> N -> Prop.
Variable HD : N -> Prop.
Variable RJ : list batch -> Prop.
Variable g0 : list batch.
Variable dO : db.
Variable d0 : db.   (* the committed database when the step begins *)

Hypothesis Hc : cfg_ok c.
Hypothesis G_ok : forall i r, G i r -> reply_ok i r.
Hypothesis G_bp : forall ps rs, G (RGet ps) (RSegs rs) -> Forall BP (concat (map seg_blocks rs)).
Hypothesis G_hp : forall n h, G (RHash n) (RHashV h) -> HP n h.
Hypothesis G_hd : forall k n h, G (RLatest k) (RHead n h) -> HD n.
Hypothesis Hself : ~ In (t_ig c) (t_deps c).
Hypothesis H_fd : forall x, SA (AReply (RDep x)) -> FD.

Definition W (g : list batch) : Prop := wf_ghost c g /\ Forall BP (concat g).

Definition first_pos (ln : N) : Prop :=
  (0 < t_start c /\ ln = t_start c - 1) \/ (t_start c = 0 /\ exists n, HD n /\ ln = sub64 n 1).

Definition pos_of (p : list batch) (ln lh : N) : Prop :=
  match gpos p with
  | Some (n, h) => ln = n /\ lh = h
  | None => HP ln lh /\ first_pos ln
  end.

Hypothesis H_rj : forall p ln lh ps segs f,
  W p -> pos_of p ln lh -> G (RGet ps) (RSegs segs) -> In f (concat (map seg_blocks segs)) ->
  b_num f = ln + 1 -> b_parent f <> 0 -> lh <> b_parent f -> RJ p.

Inductive unw : list batch -> Prop :=
| unw_refl : unw g0
| unw_step : forall p b, unw (p ++ [b]) -> RJ (p ++ [b]) -> unw p.

(* the dependency position as the step reads it: the committed database at its
   beginning (its own uncommitted writes never touch other pairs) *)
Definition dstarted : Prop :=
  FD \/ t_deps c = [] \/ exists dn dh, dep_query (t_src c) (t_deps c) (d_curs d0) = Some (dn, dh, ndeps c).
Definition dep_bound (n : N) : Prop :=
  FD \/ t_deps c = [] \/ exists dn dh, dep_query (t_src c) (t_deps c) (d_curs d0) = Some (dn, dh, ndeps c) /\ n <= dn.

Definition newb (p : list batch) (bs : list blk) : Prop :=
  bs <> [] /\ N.of_nat (length bs) <= t_batch c
  /\ (exists ln lh, pos_of p ln lh /\ map b_num bs = nums_from (ln + 1) (length bs))
  /\ Forall (fun x => dep_bound (b_num x)) bs.

Definition Idle (d : db) : Prop := exists p, unw p /\ W p /\ pv c d = render c p.
Definition Adv (d : db) : Prop :=
  exists p bs, unw p /\ newb p bs /\ W (p ++ [bs]) /\ pv c d = render c (p ++ [bs]).
Definition Inv (d : db) : Prop := outside c d = dO /\ (Idle d \/ Adv d) /\ (d = d0 \/ dstarted).
Definition NDA : Prop := forall i r, G i r -> r <> RFail KDropAfter.
Definition DoneOk : Prop :=
  0 < t_stop c /\ exists p ln lh, unw p /\ W p /\ pos_of p ln lh /\ t_stop c <= ln.
Definition Qstep : post :=
  fun o d cs => cs = None /\ (o = OConverged -> Adv d) /\ (NDA -> o <> OConverged -> Idle d)
                /\ (o <> OConverged -> o <> OFailed -> d = d0) /\ (o = ODone -> DoneOk).

Notation S p d cs := (safe (t_uniq c) Inv G SA p d cs Qstep) (only parsing).

Lemma Inv_TaskInv : forall d, Inv d -> TaskInv c d.
Proof.
  intros d (_ & [(p & _ & [Hw _] & E)|(p & bs & _ & _ & [Hw _] & E)] & _); eexists; split; eassumption.
Qed.

(* an outcome other than Converged and Done, reached without a commit since
   the step began or reporting failure *)
Lemma Q_idle : forall o d, Idle d -> o <> OConverged -> o <> ODone -> (o = OFailed \/ d = d0) ->
  Qstep o d None.
Proof.
  intros o d Hi Ho Hn Hq. split; [reflexivity|]. split; [congruence|]. split; [intros _ _; exact Hi|].
  split; [|congruence]. intros _ Hf. destruct Hq; [congruence|assumption].
Qed.

Lemma S_rb : forall o d cs, Inv d -> Idle d -> o <> OConverged -> o <> ODone -> (o = OFailed \/ d = d0) ->
  S (rb o) d cs.
Proof. intros. apply safe_rb; [assumption|]. apply Q_idle; assumption. Qed.

Lemma S_bad : forall r d cs, Inv d -> Idle d -> d = d0 -> S (bad_reply r) d cs.
Proof.
  intros. apply safe_bad_reply; [assumption| |]; apply Q_idle; try assumption; try discriminate.
  - left; reflexivity.
  - right; assumption.
Qed.

Lemma S_ret_fail : forall d cs, Inv d -> Idle d -> cs = None -> S (Ret OFailed) d cs.
Proof.
  intros d cs Hi Hd ->. apply safe_ret; [assumption|].
  apply Q_idle; [assumption|discriminate|discriminate|left; reflexivity].
Qed.

Lemma newb_started : forall p bs, newb p bs -> dstarted.
Proof.
  intros p bs (Hne & _ & _ & Hd). destruct bs as [|x bs]; [congruence|].
  inversion Hd as [|? ? Hx _]; subst. destruct Hx as [F|[E|(dn & dh & E & _)]]; [left; exact F|right; left; exact E|].
  right. right. exists dn, dh. exact E.
Qed.

(* ---------- second transaction ---------- *)
Section Tx2.
Variables (d1 : db) (p : list batch) (bs : list blk) (tn th delta : N).
Hypothesis Hinv : Inv d1.
Hypothesis Hpv : pv c d1 = render c p.
Hypothesis Hunw : unw p.
Hypothesis Hwp : W p.
Hypothesis Hnew : newb p bs.
Hypothesis Hw : W (p ++ [bs]).

Lemma idle1 : Idle d1.
Proof. exists p. split; [|split]; assumption. Qed.

Definition ready (cs : cstate) : Prop :=
  exists ws2, cs = Some ws2 /\ Forall (own_wop c) ws2
              /\ apply_ws ws2 (pv c d1) = render c (p ++ [bs]).

Lemma S_fail2 : forall cs, S (rb OFailed) d1 cs.
Proof.
  intros cs. apply S_rb; [exact Hinv|exact idle1|discriminate|discriminate|left; reflexivity].
Qed.

Lemma S_commit2 : forall cs, ready cs -> S (Op Commit tx2_done) d1 cs.
Proof.
  intros cs (ws2 & -> & Hown & Happ). apply safe_op; [exact Hinv|].
  intros a Ha _ Hg.
  assert (Hadv : Adv (apply_ws ws2 d1)).
  { exists p, bs. split; [exact Hunw|]. split; [exact Hnew|]. split; [exact Hw|].
    rewrite pv_apply_ws_own by exact Hown. exact Happ. }
  assert (Hinv2 : Inv (apply_ws ws2 d1)).
  { split; [|split; [right; exact Hadv|right; eapply newb_started; exact Hnew]].
    rewrite outside_apply_ws_own by exact Hown. apply Hinv. }
  destruct (step_op_commit (t_uniq c) d1 ws2 a Ha) as [E|[E|(k & E)]]; rewrite E in *; cbn [fst snd] in *.
  - split; [exact Hinv2|]. cbn. apply safe_ret; [exact Hinv2|].
    split; [reflexivity|]. split; [intros _; exact Hadv|]. split; [congruence|]. split; congruence.
  - split; [exact Hinv2|]. cbn. apply safe_ret; [exact Hinv2|].
    split; [reflexivity|]. split; [discriminate|].
    split; [intros Hn _; exfalso; exact (Hn _ _ Hg eq_refl)|]. split; [congruence|discriminate].
  - split; [exact Hinv|]. cbn. apply S_ret_fail; [exact Hinv|exact idle1|reflexivity].
Qed.

Lemma S_cursor : forall r cs, is_fail r = false -> ready cs -> S (tx2_cursor r) d1 cs.
Proof. intros r cs Hr Hc2. unfold tx2_cursor. rewrite Hr. apply S_commit2. exact Hc2. Qed.

Lemma S_cursor_fail : forall r cs, is_fail r = true -> S (tx2_cursor r) d1 cs.
Proof. intros r cs Hr. unfold tx2_cursor. rewrite Hr. apply S_fail2. Qed.

Lemma S_copy : forall r cs,
  is_fail r = true \/ (is_fail r = false /\ cs = Some [WCopy (rows_of c bs)]) ->
  S (tx2_copy c bs tn th delta r) d1 cs.
Proof.
  intros r cs [Hr|[Hr ->]]; unfold tx2_copy; rewrite Hr.
  - apply S_fail2.
  - apply safe_op_tx; [reflexivity|exact Hinv| |].
    + intros r' cs' Hf _. apply S_cursor_fail. exact Hf.
    + intros cs' r' E. cbn [db_step do_write] in E.
      destruct (cur_collides _ _).
      * inversion E; subst. apply S_cursor_fail. reflexivity.
      * inversion E; subst. apply S_cursor; [reflexivity|].
        exists [WCopy (rows_of c bs); WInsCur (bcur c bs)]. split; [reflexivity|]. split.
        -- constructor; [apply rows_of_own|]. constructor; [|constructor].
           unfold own_wop, cur_of, bcur. cbn. rewrite !N.eqb_refl. reflexivity.
        -- rewrite Hpv. unfold apply_ws. cbn [fold_left]. apply insert_render.
Qed.

Lemma S_begin2 : forall r cs,
  (is_fail r = true /\ cs = None) \/ (is_fail r = false /\ cs = Some []) ->
  S (tx2_begin c bs tn th delta r) d1 cs.
Proof.
  intros r cs [[Hr ->]|[Hr ->]]; unfold tx2_begin; rewrite Hr.
  - apply S_ret_fail; [exact Hinv|exact idle1|reflexivity].
  - apply safe_op_tx; [reflexivity|exact Hinv| |].
    + intros r' cs' Hf _. apply S_copy. left. exact Hf.
    + intros cs' r' E. cbn [db_step do_write] in E.
      destruct (t_uniq c && copy_collides _ _).
      * inversion E; subst. apply S_copy. left. reflexivity.
      * inversion E; subst. apply S_copy. right. split; reflexivity.
Qed.

Lemma S_tx2 : S (Op Begin (tx2_begin c bs tn th delta)) d1 None.
Proof.
  apply safe_op; [exact Hinv|]. intros a Ha _ _.
  destruct (step_op_begin (t_uniq c) d1 a Ha) as [E|(k & E)]; rewrite E; cbn [fst snd].
  - split; [exact Hinv|]. apply S_begin2. right. split; reflexivity.
  - split; [exact Hinv|]. apply S_begin2. left. split; reflexivity.
Qed.
End Tx2.

(* ---------- first transaction ---------- *)
(* inside the first transaction the committed database is still [d0]; the
   write set [ws] holds only deletions of the pair and shows the ghost
   unwound to [p] *)
Section Tx1.
Definition T1 (ws : list wop) (p : list batch) : Prop :=
  Forall (own_wop c) ws /\ apply_ws ws (pv c d0) = render c p /\ W p /\ unw p.

Definition again_ok (again : prog) : Prop :=
  forall ws' p', T1 ws' p' -> S again d0 (Some ws').

Hypothesis Hinv : Inv d0.
Hypothesis Hidle : Idle d0.

Lemma S_rb1 : forall o cs, o <> OConverged -> o <> ODone -> S (rb o) d0 cs.
Proof. intros. apply S_rb; try assumption. right. reflexivity. Qed.

Lemma S_bad1 : forall r cs, S (bad_reply r) d0 cs.
Proof. intros. apply S_bad; [exact Hinv|exact Hidle|reflexivity]. Qed.

Lemma W_prefix : forall p q, W (p ++ q) -> W p.
Proof.
  intros p q [Hw Hb]. split; [eapply wf_ghost_prefix; exact Hw|].
  rewrite concat_app in Hb. apply Forall_app in Hb. apply Hb.
Qed.

(* commit of the first transaction, then the second one *)
Lemma S_insert_tx : forall ws p bs tn th delta,
  T1 ws p -> newb p bs -> W (p ++ [bs]) ->
  S (insert_tx c bs tn th delta) d0 (Some ws).
Proof.
  intros ws p bs tn th delta (Hown & Happ & Hwp & Hunw) Hnew Hw.
  unfold insert_tx. apply safe_op; [exact Hinv|]. intros a Ha _ _.
  assert (Hpv1 : pv c (apply_ws ws d0) = render c p).
  { rewrite pv_apply_ws_own by exact Hown. exact Happ. }
  assert (Hidle1 : Idle (apply_ws ws d0)) by (exists p; split; [|split]; assumption).
  assert (Hinv1 : Inv (apply_ws ws d0)).
  { split; [|split; [left; exact Hidle1|right; eapply newb_started; exact Hnew]].
    rewrite outside_apply_ws_own by exact Hown. apply Hinv. }
  destruct (step_op_commit (t_uniq c) d0 ws a Ha) as [E|[E|(k & E)]]; rewrite E; cbn [fst snd].
  - split; [exact Hinv1|]. cbn. apply (S_tx2 _ p bs); assumption.
  - split; [exact Hinv1|]. cbn. apply S_ret_fail; [exact Hinv1|exact Hidle1|reflexivity].
  - split; [exact Hinv|]. cbn. apply S_ret_fail; [exact Hinv|exact Hidle|reflexivity].
Qed.

(* delete from <tbl> ... block_num >= m, when that completes the unwind to [p'] *)
Lemma S_del_rows : forall ws p' m again,
  Forall (own_wop c) ws ->
  apply_wop (apply_ws ws (pv c d0)) (WDelRows (t_tbl c) (t_src c) (t_ig c) m) = render c p' ->
  W p' -> unw p' -> again_ok again ->
  S (del_rows c m again) d0 (Some ws).
Proof.
  intros ws p' m again Hown Heq Hw Hunw Hag.
  unfold del_rows. apply safe_op_tx; [reflexivity|exact Hinv| |].
  - intros r cs' Hf _. unfold del_rows_k. rewrite Hf. apply S_rb1; discriminate.
  - intros cs' r E. cbn [db_step do_write] in E. inversion E; subst. unfold del_rows_k. cbn [is_fail].
    apply (Hag _ p'). split; [|split; [|split]]; try assumption.
    + apply Forall_app. split; [exact Hown|]. constructor; [|constructor]. cbn. split; reflexivity.
    + rewrite apply_ws_app. unfold apply_ws at 1. cbn [fold_left]. exact Heq.
Qed.

Lemma w64_nmax : forall n, n < nmax -> w64 (n + 1) = n + 1.
Proof. intros n H. apply w64_small. unfold nmax, two64 in *. lia. Qed.

Lemma W_pos_bound : forall p n h, W p -> gpos p = Some (n, h) -> n < nmax /\ t_start c <= n.
Proof.
  intros p n h [(Hne & _ & Hr) _] Hg. unfold gpos in Hg.
  destruct (rev p) as [|b r] eqn:E; [discriminate|]. inversion Hg; subst.
  apply (f_equal (@rev _)) in E. rewrite rev_involutive in E. cbn [rev] in E. subst p.
  rewrite Forall_forall in Hr, Hne.
  assert (Hb : b <> []) by (apply Hne; apply in_or_app; right; left; reflexivity).
  assert (Hin : In (last_blk b) (concat (rev r ++ [b]))).
  { apply (in_concat_batch _ b); [apply in_or_app; right; left; reflexivity|apply last_blk_in; exact Hb]. }
  destruct (Hr _ Hin) as (A & _ & B). split; assumption.
Qed.

(* Task.Delete on a ghost with at least one batch *)
Lemma S_unwind : forall ws p b ln again,
  T1 ws (p ++ [b]) -> ln = b_num (last_blk b) -> RJ (p ++ [b]) ->
  again_ok again ->
  S (unwind repaired c ln again) d0 (Some ws).
Proof.
  intros ws p b ln again (Hown & Happ & Hw & Hunw) -> Hrj Hag.
  assert (Hwp : W p) by (eapply W_prefix; exact Hw).
  assert (Hunw' : unw p) by (eapply unw_step; eassumption).
  unfold unwind. apply safe_op_tx; [reflexivity|exact Hinv| |].
  { intros r cs' Hf _. unfold unwind_k. rewrite Hf. apply S_rb1; discriminate. }
  intros cs' r E. cbn [db_step do_write] in E. inversion E; subst. clear E.
  unfold unwind_k. cbn [is_fail v_unwind repaired].
  remember (ws ++ [WDelCur (t_src c) (t_ig c) (b_num (last_blk b))]) as ws1 eqn:Ews.
  assert (Hown1 : Forall (own_wop c) ws1).
  { rewrite Ews. apply Forall_app. split; [exact Hown|]. constructor; [|constructor]. cbn. split; reflexivity. }
  assert (Happ1 : apply_ws ws1 (pv c d0) = Db (map (bcur c) p) (rows_of c (concat (p ++ [b])))).
  { rewrite Ews. rewrite apply_ws_app. unfold apply_ws at 1. cbn [fold_left]. rewrite Happ.
    apply del_cur_render. apply Hw. }
  apply safe_op_tx; [reflexivity|exact Hinv| |].
  { intros r cs' Hf _. unfold unwind_prev. destruct r; try discriminate. apply S_rb1; discriminate. }
  intros cs' r E. cbn [db_step] in E. injection E as Ecs Er. subst cs' r.
  assert (Hnew : newest (t_src c) (t_ig c) (d_curs (apply_ws ws1 d0)) = gpos p).
  { rewrite <- newest_pv. rewrite pv_apply_ws_own by exact Hown1. rewrite Happ1.
    cbn [d_curs]. apply (newest_render c p). apply Hwp. }
  rewrite Hnew. unfold unwind_prev.
  destruct (gpos p) as [[n h]|] eqn:Gp; cbn [option_map fst].
  - destruct (W_pos_bound p n h Hwp Gp) as [Hn _]. rewrite (w64_nmax n Hn).
    apply (S_del_rows ws1 p); try assumption.
    rewrite Happ1. apply del_rows_render; [apply Hw| |].
    + intros x Hx. pose proof (ghost_below_pos c p n h (proj1 Hwp) Gp x Hx). lia.
    + intros x Hx. destruct Hw as [(Hne & Hch & _) _]. rewrite concat_snoc in Hch.
      unfold gpos in Gp. destruct (rev p) as [|q r] eqn:Er; [discriminate|]. inversion Gp; subst.
      apply (f_equal (@rev _)) in Er. rewrite rev_involutive in Er. cbn [rev] in Er.
      assert (Hq : q <> []).
      { rewrite Forall_forall in Hne. apply Hne. rewrite Er. apply in_or_app. left.
        apply in_or_app. right. left. reflexivity. }
      assert (Hin : In (last_blk q) (concat p)).
      { rewrite Er. apply (in_concat_batch _ q); [apply in_or_app; right; left; reflexivity|].
        apply last_blk_in. exact Hq. }
      pose proof (chain_ok_app_lt _ _ Hch _ _ Hin Hx). lia.
  - assert (Ep : p = []).
    { unfold gpos in Gp. destruct (rev p) eqn:Er; [|discriminate].
      apply (f_equal (@rev _)) in Er. rewrite rev_involutive in Er. exact Er. }
    subst p. apply (S_del_rows ws1 []); try assumption.
    rewrite Happ1. apply del_rows_render; [apply Hw| |].
    + intros x [].
    + intros x _. lia.
Qed.

(* Task.Delete when the pair has no cursor: nothing to delete *)
Lemma S_unwind_empty : forall ws ln again,
  T1 ws [] -> again_ok again ->
  S (unwind repaired c ln again) d0 (Some ws).
Proof.
  intros ws ln again (Hown & Happ & Hw & Hunw) Hag.
  unfold unwind. apply safe_op_tx; [reflexivity|exact Hinv| |].
  { intros r cs' Hf _. unfold unwind_k. rewrite Hf. apply S_rb1; discriminate. }
  intros cs' r E. cbn [db_step do_write] in E. inversion E; subst. clear E.
  unfold unwind_k. cbn [is_fail v_unwind repaired].
  remember (ws ++ [WDelCur (t_src c) (t_ig c) ln]) as ws1 eqn:Ews.
  assert (Hown1 : Forall (own_wop c) ws1).
  { rewrite Ews. apply Forall_app. split; [exact Hown|]. constructor; [|constructor]. cbn. split; reflexivity. }
  assert (Happ1 : apply_ws ws1 (pv c d0) = render c []).
  { rewrite Ews. rewrite apply_ws_app. unfold apply_ws at 1. cbn [fold_left]. rewrite Happ. reflexivity. }
  apply safe_op_tx; [reflexivity|exact Hinv| |].
  { intros r cs' Hf _. unfold unwind_prev. destruct r; try discriminate. apply S_rb1; discriminate. }
  intros cs' r E. cbn [db_step] in E. injection E as Ecs Er. subst cs' r.
  assert (Hnew : newest (t_src c) (t_ig c) (d_curs (apply_ws ws1 d0)) = None).
  { rewrite <- newest_pv. rewrite pv_apply_ws_own by exact Hown1. rewrite Happ1. reflexivity. }
  rewrite Hnew. unfold unwind_prev. cbn [option_map].
  apply (S_del_rows ws1 []); try assumption. rewrite Happ1. reflexivity.
Qed.

(* ---------- joining a loaded batch to the ghost ---------- *)
Lemma pos_start : forall p ln lh, W p -> pos_of p ln lh -> t_start c <= ln + 1.
Proof.
  intros p ln lh Hw Hp. unfold pos_of in Hp. destruct (gpos p) as [[n h]|] eqn:Gp.
  - destruct Hp as [-> _]. destruct (W_pos_bound p n h Hw Gp). lia.
  - destruct Hp as [_ [[A ->]|[A _]]]; lia.
Qed.

Lemma W_extend : forall p ln lh delta bs hi,
  W p -> pos_of p ln lh -> loaded lh ln delta bs -> Forall BP bs ->
  1 <= delta -> ln + delta <= hi -> (t_stop c = 0 \/ hi <= t_stop c) -> hi < nmax ->
  W (p ++ [bs]).
Proof.
  intros p ln lh delta bs hi Hw Hpos [Hnums Hchain Hfirst] Hbp Hd Hhi Hstop Hmax.
  pose proof (pos_start p ln lh Hw Hpos) as Hst.
  destruct Hw as [(Hne & Hch & Hr) Hb].
  assert (Hbs : bs <> []) by (destruct bs; [destruct Hfirst|discriminate]).
  split; [split; [|split]|].
  - apply Forall_app. split; [exact Hne|]. constructor; [exact Hbs|constructor].
  - rewrite concat_snoc. destruct bs as [|f rest]; [congruence|].
    destruct (gpos p) as [[n h]|] eqn:Gp.
    + unfold pos_of in Hpos. rewrite Gp in Hpos. destruct Hpos as [-> ->].
      unfold gpos in Gp. destruct (rev p) as [|q r] eqn:Er; [discriminate|]. inversion Gp; subst.
      apply (f_equal (@rev _)) in Er. rewrite rev_involutive in Er. cbn [rev] in Er. subst p.
      assert (Hq : q <> []).
      { rewrite Forall_forall in Hne. apply Hne. apply in_or_app. right. left. reflexivity. }
      apply chain_ok_join; try assumption.
      * intros E. rewrite concat_snoc in E. apply app_eq_nil in E. apply Hq. apply E.
      * rewrite last_blk_concat_snoc by exact Hq.
        destruct (N.to_nat delta) eqn:Ed; [lia|]. cbn in Hnums. inversion Hnums. reflexivity.
      * rewrite last_blk_concat_snoc by exact Hq.
        destruct Hfirst as [A|A]; [left; exact A|right; exact A].
    + assert (Ep : p = []).
      { unfold gpos in Gp. destruct (rev p) eqn:Er; [|discriminate].
        apply (f_equal (@rev _)) in Er. rewrite rev_involutive in Er. exact Er. }
      subst p. exact Hchain.
  - rewrite concat_snoc. apply Forall_app. split; [exact Hr|].
    apply Forall_forall. intros x Hx. apply (in_map b_num) in Hx. rewrite Hnums in Hx.
    apply nums_from_in in Hx. unfold in_range. split; [lia|]. split; [|lia].
    destruct Hstop as [A|A]; [left; exact A|right; lia].
  - rewrite concat_snoc. apply Forall_app. split; assumption.
Qed.

Lemma clip_le : forall tn, clip c tn <= tn.
Proof.
  intros tn. unfold clip. destruct (N.ltb_spec 0 (t_stop c)), (N.ltb_spec (t_stop c) tn); cbn; lia.
Qed.
Lemma clip_stop : forall tn, t_stop c = 0 \/ clip c tn <= t_stop c.
Proof.
  intros tn. unfold clip. destruct (N.ltb_spec 0 (t_stop c)), (N.ltb_spec (t_stop c) tn); cbn; lia.
Qed.

Lemma dep_bound_le : forall a b, a <= b -> dep_bound b -> dep_bound a.
Proof.
  intros a b H [F|[E|(dn & dh & E & L)]]; [left; exact F|right; left; exact E|].
  right. right. exists dn, dh. split; [exact E|lia].
Qed.

(* ---------- after Task.load ---------- *)
Lemma S_after_get : forall ws p again ln lh tn th r,
  T1 ws p -> pos_of p ln lh -> again_ok again ->
  ln < tn -> tn < nmax -> (t_stop c = 0 \/ tn <= t_stop c) -> dep_bound tn ->
  G (RGet (partitions repaired c (ln + 1) (delta_of c ln tn))) r ->
  S (after_get repaired c again ln lh tn th (delta_of c ln tn) r) d0 (Some ws).
Proof.
  intros ws p again ln lh tn th r HT Hpos Hag Hlt Hmax Hstop Hdep Hg.
  pose proof HT as (Hown & Happ & Hw & Hunw).
  unfold after_get. destruct r as [| | k | | | | | | | segs]; try apply S_bad1.
  set (delta := delta_of c ln tn) in *.
  assert (Hd : 1 <= delta /\ delta <= t_batch c /\ ln + delta <= tn).
  { unfold delta, delta_of. destruct Hc as (Hb & _). lia. }
  destruct Hd as (Hd1 & Hd2 & Hd3).
  assert (Ht : tiles (ln + 1) (ln + 1 + delta) (partitions repaired c (ln + 1) delta)).
  { apply partitions_tile; try assumption. unfold nmax, two63 in *. lia. }
  pose proof (G_ok _ _ Hg) as Hnum. cbn in Hnum.
  pose proof (G_bp _ _ Hg) as Hbp.
  pose proof (load_check_cases lh ln delta _ segs Ht Hd1 Hnum) as L.
  destruct (load_check repaired lh segs) as [bs| | |].
  - destruct L as [Hl ->].
    assert (Hlen : length (concat (map seg_blocks segs)) = N.to_nat delta).
    { rewrite <- (map_length b_num), (ld_nums _ _ _ _ Hl). apply nums_from_length. }
    apply (S_insert_tx ws p); try assumption.
    + destruct Hl as [Hn Hch Hf]. split; [destruct (concat (map seg_blocks segs)); [destruct Hf|discriminate]|].
      split; [lia|]. split; [exists ln, lh; split; [exact Hpos|rewrite Hlen; exact Hn]|].
      apply Forall_forall. intros x Hx. apply (in_map b_num) in Hx. rewrite Hn in Hx.
      apply nums_from_in in Hx. apply (dep_bound_le _ tn); [lia|exact Hdep].
    + apply (W_extend p ln lh delta _ tn); assumption.
  - destruct L as (f & Hin & Hf1 & Hf2 & Hf3).
    assert (Hbf : BP f) by (rewrite Forall_forall in Hbp; apply Hbp; exact Hin).
    pose proof (H_rj p ln lh _ segs f Hw Hpos Hg Hin Hf1 Hf2 Hf3) as Hrj.
    destruct (rev p) as [|b q] eqn:Er.
    + apply (f_equal (@rev _)) in Er. rewrite rev_involutive in Er. cbn in Er. subst p.
      apply S_unwind_empty; assumption.
    + apply (f_equal (@rev _)) in Er. rewrite rev_involutive in Er. cbn [rev] in Er. subst p.
      apply (S_unwind ws (rev q) b); try assumption.
      unfold pos_of in Hpos. rewrite gpos_snoc in Hpos. apply Hpos.
  - apply S_rb1; discriminate.
  - destruct L.
Qed.

Lemma S_after_target : forall ws p again ln lh tn th,
  T1 ws p -> pos_of p ln lh -> again_ok again -> tn < nmax -> dep_bound tn ->
  S (after_target repaired c again ln lh tn th) d0 (Some ws).
Proof.
  intros ws p again ln lh tn th HT Hpos Hag Hmax Hdep.
  unfold after_target.
  destruct (N.ltb_spec (clip c tn) ln); [apply S_rb1; discriminate|].
  destruct (N.eqb_spec ln (clip c tn)); [apply S_rb1; discriminate|].
  destruct (N.eqb_spec (delta_of c ln (clip c tn)) 0); [apply S_rb1; discriminate|].
  pose proof (clip_le tn) as Hcl.
  assert (Hln : ln < nmax) by lia.
  rewrite (w64_nmax ln Hln).
  apply safe_op_node; [reflexivity|exact Hinv|]. intros r Hg.
  apply (S_after_get ws p); try assumption; try lia.
  - apply clip_stop.
  - apply (dep_bound_le _ tn); assumption.
Qed.

(* the dependency position is read inside the first transaction: it is what
   the committed database says, or -- when scripts may force it -- anything *)
Lemma S_after_dep : forall ws p again ln lh gn gh o,
  T1 ws p -> pos_of p ln lh -> again_ok again -> gn < nmax -> t_deps c <> [] ->
  FD \/ o = dep_query (t_src c) (t_deps c) (d_curs d0) ->
  S (after_dep repaired c again ln lh gn gh (RDep o)) d0 (Some ws).
Proof.
  intros ws p again ln lh gn gh o HT Hpos Hag Hmax Hdeps Ho.
  unfold after_dep.
  destruct o as [[[dn dh] cnt]|]; [|apply S_rb1; discriminate].
  cbn [v_depall repaired andb].
  destruct (N.ltb_spec cnt (ndeps c)); [apply S_rb1; discriminate|].
  assert (Hb : forall n, n <= dn -> dep_bound n).
  { intros n Hn. destruct Ho as [F|Eq]; [left; exact F|]. right. right.
    assert (Hcnt : cnt = ndeps c).
    { symmetry in Eq. unfold dep_query in Eq.
      destruct (fold_left lower _ None) as [[n' h']|]; [|discriminate]. inversion Eq; subst.
      assert (L : N.of_nat (length (dep_latest (t_src c) (distinct_deps (t_deps c)) (d_curs d0))) <= ndeps c).
      { unfold ndeps. generalize (distinct_deps (t_deps c)). intros l.
        induction l as [|x l IH]; cbn [dep_latest length]; [lia|].
        destruct (newest (t_src c) x (d_curs d0)); cbn [length]; lia. }
      lia. }
    subst cnt. exists dn, dh. split; [symmetry; exact Eq|exact Hn]. }
  destruct (N.eqb_spec dn 0); [apply S_rb1; discriminate|].
  destruct (N.ltb_spec dn gn).
  - apply (S_after_target ws p); try assumption; [lia|]. apply Hb. lia.
  - apply (S_after_target ws p); try assumption. apply Hb. lia.
Qed.

Lemma S_after_head : forall ws p again ln lh r,
  T1 ws p -> pos_of p ln lh -> again_ok again ->
  G (RLatest ln) r ->
  S (after_head repaired c again ln lh r) d0 (Some ws).
Proof.
  intros ws p again ln lh r HT Hpos Hag Hg.
  unfold after_head. destruct r as [| | k | | | | | gn gh | |]; try apply S_bad1.
  pose proof (G_ok _ _ Hg) as Hn. cbn in Hn.
  destruct (t_deps c) as [|dep deps] eqn:Ed.
  - apply (S_after_target ws p); try assumption. right. left. exact Ed.
  - assert (Hs : ~ In (t_ig c) (t_deps c)) by (rewrite Ed; exact Hself).
    assert (Hd : t_deps c <> []) by (rewrite Ed; discriminate).
    rewrite <- Ed. apply safe_op_dep; [exact Hinv| | |].
    + intros r cs' Hf _. unfold after_dep. destruct r; try discriminate. apply S_rb1; discriminate.
    + cbn [db_step snd vis]. destruct HT as (Hown & HT').
      rewrite (dep_query_own c ws d0 Hown Hs).
      apply (S_after_dep ws p); try assumption; [split; assumption|right; reflexivity].
    + intros x Hx. apply (S_after_dep ws p); try assumption. left. apply (H_fd x Hx).
Qed.

Lemma S_with_local : forall ws p again ln lh,
  T1 ws p -> pos_of p ln lh -> again_ok again ->
  S (with_local repaired c again ln lh) d0 (Some ws).
Proof.
  intros ws p again ln lh HT Hpos Hag. unfold with_local.
  destruct (N.ltb_spec 0 (t_stop c)); cbn [andb].
  - destruct (N.leb_spec (t_stop c) ln).
    + apply safe_rb; [exact Hinv|]. split; [reflexivity|]. split; [discriminate|].
      split; [intros _ _; exact Hidle|]. split; [intros _ _; reflexivity|]. intros _.
      split; [assumption|]. destruct HT as (_ & _ & Hw & Hu). exists p, ln, lh.
      split; [exact Hu|]. split; [exact Hw|]. split; assumption.
    + apply safe_op_node; [reflexivity|exact Hinv|]. intros r Hg.
      apply (S_after_head ws p); assumption.
  - apply safe_op_node; [reflexivity|exact Hinv|]. intros r Hg.
    apply (S_after_head ws p); assumption.
Qed.

Lemma S_pos_hash : forall ws p again n r,
  T1 ws p -> gpos p = None -> first_pos n -> again_ok again ->
  G (RHash n) r ->
  S (pos_hash repaired c again n r) d0 (Some ws).
Proof.
  intros ws p again n r HT Gp Hfp Hag Hg. unfold pos_hash.
  destruct r as [| | k | | | | | | h |]; try apply S_bad1.
  apply (S_with_local ws p); try assumption.
  unfold pos_of. rewrite Gp. split; [apply G_hp; exact Hg|exact Hfp].
Qed.

Lemma S_pos_head : forall ws p again r,
  T1 ws p -> gpos p = None -> t_start c = 0 -> again_ok again ->
  G (RLatest 0) r ->
  S (pos_head repaired c again r) d0 (Some ws).
Proof.
  intros ws p again r HT Gp Hs Hag Hg. unfold pos_head.
  destruct r as [| | k | | | | | n h | |]; try apply S_bad1.
  apply safe_op_node; [reflexivity|exact Hinv|]. intros r Hg'.
  apply (S_pos_hash ws p); try assumption.
  right. split; [exact Hs|]. exists n. split; [eapply G_hd; exact Hg|reflexivity].
Qed.

Lemma S_position : forall ws p again,
  T1 ws p -> again_ok again ->
  S (position repaired c again) d0 (Some ws).
Proof.
  intros ws p again HT Hag. pose proof HT as (Hown & Happ & Hw & Hunw).
  unfold position. apply safe_op_tx; [reflexivity|exact Hinv| |].
  { intros r cs' Hf _. unfold pos_query. destruct r; try discriminate. apply S_rb1; discriminate. }
  intros cs' r E. cbn [db_step] in E. injection E as Ecs Er. subst cs' r.
  assert (Hnew : newest (t_src c) (t_ig c) (d_curs (apply_ws ws d0)) = gpos p).
  { rewrite <- newest_pv. rewrite pv_apply_ws_own by exact Hown. rewrite Happ.
    apply newest_render. apply Hw. }
  rewrite Hnew. unfold pos_query. destruct (gpos p) as [[n h]|] eqn:Gp.
  - apply (S_with_local ws p); try assumption. unfold pos_of. rewrite Gp. split; reflexivity.
  - destruct (N.ltb_spec 0 (t_start c)).
    + apply safe_op_node; [reflexivity|exact Hinv|]. intros r Hg.
      apply (S_pos_hash ws p); try assumption. left. split; [assumption|reflexivity].
    + apply safe_op_node; [reflexivity|exact Hinv|]. intros r Hg.
      apply (S_pos_head ws p); try assumption. lia.
Qed.

Lemma S_reorg_loop : forall f, again_ok (reorg_loop repaired f c).
Proof.
  induction f as [|f IH]; intros ws p HT.
  - cbn [reorg_loop]. apply S_rb1; discriminate.
  - cbn [reorg_loop]. apply (S_position ws p); assumption.
Qed.

End Tx1.

(* the whole step, from a committed state whose pair is the rendering of [g0] *)
Theorem S_converge :
  outside c d0 = dO -> pv c d0 = render c g0 -> W g0 -> S (converge c) d0 None.
Proof.
  intros Ho Hpv Hw.
  assert (Hidle : Idle d0) by (exists g0; split; [constructor|split; assumption]).
  assert (Hinv : Inv d0) by (split; [exact Ho|split; [left; exact Hidle|left; reflexivity]]).
  unfold converge, converge_v. apply safe_op; [exact Hinv|]. intros a Ha _ _.
  destruct (step_op_begin (t_uniq c) d0 a Ha) as [E|(k & E)]; rewrite E; cbn [fst snd].
  - split; [exact Hinv|]. unfold begun. cbn [is_fail].
    apply (S_reorg_loop Hinv Hidle 1001 [] g0).
    split; [constructor|]. split; [exact Hpv|]. split; [exact Hw|constructor].
  - split; [exact Hinv|]. unfold begun. cbn [is_fail].
    apply S_ret_fail; [exact Hinv|exact Hidle|reflexivity].
Qed.

End Chain.
