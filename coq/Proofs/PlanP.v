(* C14 — soundness of the class-based plan checker for ARBITRARY tables, step
   sequences, provides-relations and name lists: if [check_plan] accepts, then
   for every indexing mode and EVERY set of fields selectable in that mode,
   every selected field is supplied by the requests that Client.Get makes for
   glf.New(selected ++ required). *)
From Coq Require Import List String Bool Arith Lia.
From Shovel Require Import Model.Plan Model.Provides Model.PlanCheck.
Import ListNotations.
Open Scope string_scope.

(* ---------------------------------------------------------------- lists *)
Lemma existsb_filter : forall {A} (p q : A -> bool) l, existsb q (filter p l) = existsb (fun y => p y && q y) l.
Proof.
  induction l as [|x l IH]; simpl; [reflexivity|]. destruct (p x); simpl; rewrite IH; reflexivity.
Qed.

Lemma existsb_map : forall {A B} (f : A -> B) (p : B -> bool) l, existsb p (map f l) = existsb (fun x => p (f x)) l.
Proof. induction l as [|x l IH]; simpl; [reflexivity|]. rewrite IH. reflexivity. Qed.

Lemma filter_map_comm : forall {A B} (f : A -> B) (p : B -> bool) l, filter p (map f l) = map f (filter (fun x => p (f x)) l).
Proof. induction l as [|x l IH]; simpl; [reflexivity|]. destruct (p (f x)); simpl; rewrite IH; reflexivity. Qed.

Lemma existsb_ext' : forall {A} (p q : A -> bool) l, (forall x, p x = q x) -> existsb p l = existsb q l.
Proof. intros A p q l H. induction l as [|x l IH]; simpl; [reflexivity|]. rewrite H, IH. reflexivity. Qed.

Lemma existsb_same : forall {A} (p : A -> bool) l1 l2, (forall e, In e l1 <-> In e l2) -> existsb p l1 = existsb p l2.
Proof.
  intros A p l1 l2 H. destruct (existsb p l1) eqn:E1; symmetry.
  - apply existsb_exists in E1. destruct E1 as [x [Hx Hp]]. apply existsb_exists. exists x. split; [apply H; exact Hx | exact Hp].
  - destruct (existsb p l2) eqn:E2; [|reflexivity]. apply existsb_exists in E2. destruct E2 as [x [Hx Hp]].
    assert (existsb p l1 = true) by (apply existsb_exists; exists x; split; [apply H; exact Hx | exact Hp]). congruence.
Qed.

Lemma filter_same : forall {A} (p : A -> bool) l1 l2, (forall e, In e l1 <-> In e l2) ->
  forall e, In e (filter p l1) <-> In e (filter p l2).
Proof. intros A p l1 l2 H e. rewrite !filter_In, H. reflexivity. Qed.

Lemma mem_filter : forall (p : string -> bool) x l, mem x (filter p l) = p x && mem x l.
Proof.
  intros p x l. unfold mem. rewrite existsb_filter. induction l as [|y l IH]; simpl; [rewrite andb_false_r; reflexivity|].
  rewrite IH. destruct (String.eqb x y) eqn:E.
  - apply String.eqb_eq in E. subst y. destruct (p x); reflexivity.
  - rewrite andb_false_r. reflexivity.
Qed.

(* ---------------------------------------------------------------- glf.New over signatures *)
Definition in_str (T : tables) (x : string) (n : tname) : bool := mem x (table T n).

Lemma mem_step_set : forall T st x, mem x (step_set T st) = in_step string (in_str T) st x.
Proof.
  intros T st x. unfold step_set, difference, in_step, in_str. rewrite mem_filter, existsb_map. apply andb_comm.
Qed.

Lemma run_steps_grun : forall T steps needs fl, run_steps T steps needs fl = grun string (in_str T) steps needs fl.
Proof.
  intros T. induction steps as [|st r IH]; intros needs fl; simpl; [reflexivity|].
  assert (E : any needs (step_set T st) = existsb (in_step string (in_str T) st) needs).
  { unfold any. apply existsb_ext'. intros x. apply mem_step_set. }
  rewrite E. destruct (existsb _ needs); [|apply IH].
  rewrite IH. f_equal. unfold difference. apply filter_ext. intros x. simpl. rewrite orb_false_r. reflexivity.
Qed.

Lemma grun_map : forall {E1 E2} (in1 : E1 -> tname -> bool) (in2 : E2 -> tname -> bool) (f : E1 -> E2),
  (forall e n, in2 (f e) n = in1 e n) ->
  forall steps needs fl, grun E1 in1 steps needs fl = grun E2 in2 steps (map f needs) fl.
Proof.
  intros E1 E2 in1 in2 f H. induction steps as [|st r IH]; intros needs fl; simpl; [reflexivity|].
  assert (Hs : forall e, in_step E2 in2 st (f e) = in_step E1 in1 st e).
  { intros e. unfold in_step. rewrite H. f_equal. f_equal. apply existsb_ext'. intros n. apply H. }
  rewrite existsb_map. rewrite (existsb_ext' _ _ needs Hs).
  destruct (existsb (in_step E1 in1 st) needs); [|apply IH].
  rewrite filter_map_comm. rewrite IH. f_equal. f_equal. apply filter_ext. intros e. rewrite H. reflexivity.
Qed.

Lemma grun_set : forall {E} (inT : E -> tname -> bool) steps l1 l2 fl,
  (forall e, In e l1 <-> In e l2) -> grun E inT steps l1 fl = grun E inT steps l2 fl.
Proof.
  intros E inT. induction steps as [|st r IH]; intros l1 l2 fl H; simpl; [reflexivity|].
  rewrite (existsb_same _ l1 l2 H). destruct (existsb _ l2); [|apply IH; exact H].
  apply IH. apply filter_same. exact H.
Qed.

Lemma sig_in_sig : forall T x n, sig_in (sig T x) n = in_str T x n.
Proof. intros T x n. destruct n; reflexivity. Qed.

(* the flags depend on the needs only through the SET of their membership signatures *)
Lemma new_by_signatures : forall T steps needs,
  new T steps needs = grun (list bool) sig_in steps (map (sig T) needs) no_flags.
Proof.
  intros. unfold new. rewrite run_steps_grun. apply grun_map. intros e n. apply sig_in_sig.
Qed.

Lemma plan_classes : forall T steps needs1 needs2,
  (forall s, In s (map (sig T) needs1) <-> In s (map (sig T) needs2)) ->
  new T steps needs1 = new T steps needs2.
Proof. intros T steps n1 n2 H. rewrite !new_by_signatures. apply grun_set. exact H. Qed.

(* ---------------------------------------------------------------- keys, classes, sublists *)
Lemma bools_eqb_eq : forall a b, bools_eqb a b = true <-> a = b.
Proof.
  induction a as [|x a IH]; destruct b as [|y b]; simpl; split; intros H; try congruence; try discriminate.
  - apply andb_true_iff in H. destruct H as [H1 H2]. apply Bool.eqb_prop in H1. apply IH in H2. congruence.
  - inversion H; subst. rewrite Bool.eqb_reflx. apply IH. reflexivity.
Qed.
Lemma iclass_eqb_eq : forall a b, iclass_eqb a b = true <-> a = b.
Proof. destruct a, b; simpl; split; intros H; congruence. Qed.
Lemma key_eqb_eq : forall a b, key_eqb a b = true <-> a = b.
Proof.
  intros [[a1 a2] a3] [[b1 b2] b3]. unfold key_eqb. simpl. rewrite !andb_true_iff, bools_eqb_eq, iclass_eqb_eq.
  split.
  - intros [[H1 H2] H3]. apply Bool.eqb_prop in H3. congruence.
  - intros H. inversion H; subst. rewrite Bool.eqb_reflx. auto.
Qed.

Lemma existsb_key : forall k l, existsb (key_eqb k) l = true <-> In k l.
Proof.
  intros k l. rewrite existsb_exists. split.
  - intros [x [Hx He]]. apply key_eqb_eq in He. subst x. exact Hx.
  - intros H. exists k. split; [exact H | apply key_eqb_eq; reflexivity].
Qed.

Lemma nodupb_In : forall l k, In k (nodupb l) <-> In k l.
Proof.
  induction l as [|x l IH]; intros k; simpl; [reflexivity|].
  destruct (existsb (key_eqb x) l) eqn:E.
  - rewrite IH. split; [auto|]. intros [H|H]; [|exact H]. subst x. apply existsb_key. exact E.
  - simpl. rewrite IH. reflexivity.
Qed.

Lemma filter_sublist : forall {A} (p : A -> bool) l, In (filter p l) (sublists l).
Proof.
  induction l as [|x l IH]; simpl; [left; reflexivity|].
  apply in_or_app. destruct (p x); [left; apply in_map; exact IH | right; exact IH].
Qed.

(* ---------------------------------------------------------------- soundness *)
Lemma check_plan_sound_l : forall T steps disp P names,
  check_plan T steps disp P names = true ->
  forall m S, incl S names -> mode_ok m S ->
  forall f, In f S -> supplied_b P (disp (new T steps (needs_of m S))) m f = true.
Proof.
  intros T steps disp P names Hc m S Hincl [Hcls Htr] f Hf.
  set (C := filter (fun k => existsb (key_eqb k) (map (key_of T) S)) (classes T names)).
  assert (HC : forall k, In k C <-> In k (map (key_of T) S)).
  { intros k. unfold C. rewrite filter_In, existsb_key. split; [intros [_ H]; exact H|].
    intros H. split; [|exact H]. unfold classes. apply nodupb_In. apply in_map_iff in H.
    destruct H as [g [Hg Hin]]. subst k. apply in_map. apply Hincl. exact Hin. }
  (* the checker looked at this class set in this mode *)
  assert (Hm : In m [MTx; MLog; MTrace]) by (destruct m; simpl; auto).
  unfold check_plan in Hc. rewrite forallb_forall in Hc. specialize (Hc m Hm).
  rewrite forallb_forall in Hc. specialize (Hc C (filter_sublist _ _)).
  unfold bad_field in Hc.
  assert (Hmk : mode_ok_keys m C = true).
  { unfold mode_ok_keys. apply andb_true_iff. split.
    - apply forallb_forall. intros k Hk. apply HC in Hk. apply in_map_iff in Hk. destruct Hk as [g [Hg Hin]].
      subst k. simpl. apply Hcls. exact Hin.
    - destruct m; try reflexivity. destruct (Htr eq_refl) as [g [Hg Hgc]]. apply existsb_exists.
      exists (key_of T g). split; [apply HC; apply in_map; exact Hg | simpl; rewrite Hgc; reflexivity]. }
  rewrite Hmk in Hc.
  (* the plan the checker computed is the plan of the real needs *)
  assert (Hpl : plan_of_keys T steps m C = new T steps (needs_of m S)).
  { unfold plan_of_keys, needs_of. rewrite new_by_signatures, map_app.
    assert (Hb : existsb (fun k : key => snd k) C = existsb trace_prefixed (map f_name S)).
    { rewrite existsb_map. rewrite (existsb_same _ C (map (key_of T) S) HC). rewrite existsb_map. reflexivity. }
    unfold required. unfold key in Hb. rewrite Hb. apply grun_set. intros s. rewrite !in_app_iff.
    assert (Hs : In s (map (fun k : key => fst (fst k)) C) <-> In s (map (sig T) (map f_name S))).
    { rewrite map_map. rewrite !in_map_iff. split.
      - intros [k [Hk Hin]]. apply HC in Hin. apply in_map_iff in Hin. destruct Hin as [g [Hg Hin]].
        exists g. subst k. simpl in Hk. auto.
      - intros [g [Hg Hin]]. exists (key_of T g). split; [exact Hg | apply HC; apply in_map; exact Hin]. }
    rewrite Hs. reflexivity. }
  rewrite Hpl in Hc.
  destruct (find _ names) as [g|] eqn:Efind; [discriminate|].
  pose proof (find_none _ _ Efind f (Hincl f Hf)) as Hn. simpl in Hn.
  assert (Hk : existsb (key_eqb (key_of T f)) C = true) by (apply existsb_key; apply HC; apply in_map; exact Hf).
  rewrite Hk in Hn. simpl in Hn. apply negb_false_iff in Hn. exact Hn.
Qed.
