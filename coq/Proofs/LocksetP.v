(* Soundness of the lockset checker of Model/Lockset.v: an invariant over all
   executions (any number of instances, any schedule, any choice of objects). *)
From Coq Require Import List String Bool NArith Arith Lia Permutation.
From Shovel Require Import Model.Lockset.
Import ListNotations.
Open Scope list_scope.

(* ---------------------------------------------------------------- lists *)

Lemma upd_split {A} (s1 s2 : list A) k x :
  upd (s1 ++ k :: s2) (List.length s1) x = s1 ++ x :: s2.
Proof. induction s1 as [|y s1 IH]; simpl; [reflexivity | now rewrite IH]. Qed.

Lemma nth_error_mid {A} (s1 s2 : list A) x j :
  nth_error (s1 ++ x :: s2) j =
  if Nat.eqb j (List.length s1) then Some x
  else if Nat.ltb j (List.length s1) then nth_error s1 j
       else nth_error s2 (j - S (List.length s1)).
Proof.
  revert j. induction s1 as [|y s1 IH]; intros j; simpl.
  - destruct j; simpl; [reflexivity | now rewrite Nat.sub_0_r].
  - destruct j; simpl; [reflexivity | apply IH].
Qed.

Lemma NoDup_app_disj {A} (a b : list A) x :
  NoDup (a ++ b) -> In x a -> In x b -> False.
Proof.
  induction a as [|y a IH]; simpl; intros Hnd Ha Hb; [contradiction|].
  inversion Hnd as [|? ? Hnotin Hnd']; subst.
  destruct Ha as [->|Ha]; [apply Hnotin, in_or_app; now right | now apply IH].
Qed.

Lemma NoDup_app_r {A} (a b : list A) : NoDup (a ++ b) -> NoDup b.
Proof. induction a as [|y a IH]; simpl; intros H; [exact H | inversion H; auto]. Qed.

(* ---------------------------------------------------------------- invariant *)

Fixpoint accs_cont (k : cont) : list gacc :=
  match k with
  | [] => []
  | IProg p :: k' => accs_of p (locks_of k') ++ accs_cont k'
  | IRel _ _ :: k' => accs_cont k'
  end.

Fixpoint wf_rel (gl : string -> N) (tid : nat) (k : cont) : Prop :=
  match k with
  | [] => True
  | IRel l o :: k' => resolve gl tid k' (lrecv l) o /\ wf_rel gl tid k'
  | IProg _ :: k' => wf_rel gl tid k'
  end.

Lemma recv_eqb_eq a b : recv_eqb a b = true -> a = b.
Proof.
  destruct a, b; simpl; intros H; try discriminate; try reflexivity;
    apply String.eqb_eq in H; now subst.
Qed.

Lemma recv_eqb_refl a : recv_eqb a a = true.
Proof. destruct a; simpl; auto using String.eqb_refl. Qed.

Lemma lookup_shared gl tid k v o :
  wf_rel gl tid k -> lookup v k = Some o -> exists n, o = OSh n.
Proof.
  induction k as [|[p|l o0] k IH]; simpl; intros Hwf Hl; [discriminate | now apply IH |].
  destruct Hwf as [Hres Hwf].
  destruct (recv_eqb (lrecv l) (RVar v)) eqn:E; [| now apply IH].
  injection Hl as <-. apply recv_eqb_eq in E. rewrite E in Hres. simpl in Hres.
  destruct (lookup v k) eqn:El; [subst; now apply IH | exact Hres].
Qed.

(* all the Syncs a thread is inside of that lock through variable [v] hold the same object *)
Lemma lookup_chain gl tid k v l o :
  wf_rel gl tid k -> In (IRel l o) k -> lrecv l = RVar v -> lookup v k = Some o.
Proof.
  induction k as [|[p|l0 o0] k IH]; simpl; intros Hwf Hin Hr; [contradiction | |].
  - destruct Hin as [Hin|Hin]; [discriminate | now apply IH].
  - destruct Hwf as [Hres Hwf].
    destruct (recv_eqb (lrecv l0) (RVar v)) eqn:E.
    + destruct Hin as [Hin|Hin]; [now injection Hin as <- <- |].
      apply recv_eqb_eq in E. rewrite E in Hres. simpl in Hres.
      rewrite (IH Hwf Hin Hr) in Hres. now subst.
    + destruct Hin as [Hin|Hin]; [| now apply IH].
      injection Hin as -> ->. rewrite Hr, recv_eqb_refl in E. discriminate.
Qed.

Lemma in_locks_of k l : In l (locks_of k) -> exists o, In (IRel l o) k.
Proof.
  induction k as [|[p|l0 o0] k IH]; simpl; intros H; [contradiction | |].
  - destruct (IH H) as [o Ho]. exists o. now right.
  - destruct H as [->|H]; [exists o0; now left |].
    destruct (IH H) as [o Ho]. exists o. now right.
Qed.

Lemma in_rel_held k l o : In (IRel l o) k -> In (lcls l, o) (held k).
Proof.
  induction k as [|[p|l0 o0] k IH]; simpl; intros H; [contradiction | |].
  - destruct H as [H|H]; [discriminate | now apply IH].
  - destruct H as [H|H]; [injection H as -> ->; now left | right; now apply IH].
Qed.

Lemma in_rel_resolve gl tid k l o :
  wf_rel gl tid k -> In (IRel l o) k -> exists k', resolve gl tid k' (lrecv l) o.
Proof.
  induction k as [|[p|l0 o0] k IH]; simpl; intros Hwf H; [contradiction | |].
  - destruct H as [H|H]; [discriminate | now apply IH].
  - destruct Hwf as [Hres Hwf]. destruct H as [H|H]; [injection H as -> ->; now exists k | now apply IH].
Qed.

(* the object a lock was taken on is the object its own receiver denotes, for
   any later evaluation by the same thread inside that Sync *)
Lemma lock_object gl tid k l o o' :
  wf_rel gl tid k -> In (IRel l o) k -> resolve gl tid k (lrecv l) o' -> o = o'.
Proof.
  intros Hwf Hin Hres.
  destruct (lrecv l) as [g|v|] eqn:Er.
  - destruct (in_rel_resolve _ _ _ _ _ Hwf Hin) as [k' Hk']. rewrite Er in Hk'. simpl in *. congruence.
  - simpl in Hres. rewrite (lookup_chain _ _ _ _ _ _ Hwf Hin Er) in Hres. now subst.
  - destruct (in_rel_resolve _ _ _ _ _ Hwf Hin) as [k' Hk']. rewrite Er in Hk'. simpl in *. congruence.
Qed.

(* a private object is never what another thread's receiver denotes *)
Lemma own_private gl i j k1 k2 r o :
  i <> j -> wf_rel gl j k2 -> resolve gl i k1 ROwn o -> resolve gl j k2 r o -> False.
Proof.
  intros Hij Hwf H1 H2. simpl in H1. subst o.
  destruct r as [g|v|]; simpl in H2.
  - discriminate.
  - destruct (lookup v k2) eqn:El.
    + subst c. destruct (lookup_shared _ _ _ _ _ Hwf El) as [n Hn]. discriminate.
    + destruct H2 as [n Hn]. discriminate.
  - injection H2 as ->. now apply Hij.
Qed.

Lemma tstep_accs gl tid k ev k' :
  tstep gl tid k ev k' -> incl (accs_cont k') (accs_cont k).
Proof.
  intros H. destruct H; simpl.
  - apply incl_appr, incl_refl.
  - rewrite app_assoc. apply incl_refl.
  - intros x Hx. apply in_app_or in Hx. destruct Hx as [Hx|Hx]; [apply in_or_app; now left | exact Hx].
  - apply incl_tl, incl_refl.
  - apply incl_refl.
  - apply incl_refl.
Qed.

Lemma tstep_wf gl tid k ev k' :
  tstep gl tid k ev k' -> wf_rel gl tid k -> wf_rel gl tid k'.
Proof.
  intros H Hwf. destruct H; simpl in *; auto.
  now destruct Hwf.
Qed.

Definition held_change (ev : event) (h h' : list clock) : Prop :=
  match ev with
  | EAcq c => h' = c :: h
  | ERel c => h = c :: h'
  | _ => h' = h
  end.

Lemma tstep_held gl tid k ev k' :
  tstep gl tid k ev k' -> held_change ev (held k) (held k').
Proof. intros H. destruct H; simpl; reflexivity. Qed.

Section Exec.
  Variable gl : string -> N.
  Variable rs : list role.
  Variable inst : list nat.

  Definition thread_ok (i : nat) (k : cont) : Prop :=
    exists ridx, nth_error inst i = Some ridx /\
                 incl (accs_cont k) (accs_of (role_body rs ridx) []) /\
                 wf_rel gl i k.

  Definition Inv (s : state) : Prop :=
    (forall i k, nth_error s i = Some k -> thread_ok i k) /\ NoDup (all_held s).

  Lemma inv_init : Inv (init rs inst).
  Proof.
    split.
    - intros i k H. unfold init in H. rewrite nth_error_map in H.
      destruct (nth_error inst i) as [ridx|] eqn:E; [|discriminate].
      injection H as <-. exists ridx. split; [exact E|]. split; [|exact I].
      simpl. rewrite app_nil_r. apply incl_refl.
    - unfold all_held, init. induction inst as [|x l IH]; simpl; [constructor | exact IH].
  Qed.

  Lemma all_held_split (s1 s2 : state) k :
    all_held (s1 ++ k :: s2) = all_held s1 ++ held k ++ all_held s2.
  Proof. unfold all_held. now rewrite flat_map_app. Qed.

  Lemma inv_step s s' : Inv s -> gstep gl s s' -> Inv s'.
  Proof.
    intros [Hth Hnd] Hstep. destruct Hstep as [s i k ev k' Hnth Hts Hacq].
    destruct (nth_error_split _ _ Hnth) as (s1 & s2 & -> & Hlen). subst i.
    rewrite upd_split. split.
    - intros j kj Hj. rewrite nth_error_mid in Hj.
      destruct (Nat.eqb j (List.length s1)) eqn:Ej.
      + apply Nat.eqb_eq in Ej. subst j. injection Hj as <-.
        destruct (Hth _ _ Hnth) as (ridx & Hi & Hincl & Hwf).
        exists ridx. split; [exact Hi|]. split.
        * eapply incl_tran; [eapply tstep_accs; eauto | exact Hincl].
        * eapply tstep_wf; eauto.
      + apply (Hth j kj). rewrite nth_error_mid, Ej. exact Hj.
    - rewrite all_held_split in *. pose proof (tstep_held _ _ _ _ _ Hts) as Hc.
      destruct ev as [|c|c|a o]; simpl in Hc.
      + now rewrite Hc.
      + rewrite Hc. specialize (Hacq c eq_refl).
        apply (Permutation_NoDup (l := c :: all_held s1 ++ held k ++ all_held s2)).
        * apply Permutation_middle.
        * constructor; assumption.
      + rewrite Hc in Hnd. eapply NoDup_remove_1; eauto.
      + now rewrite Hc.
  Qed.

  Lemma inv_steps s : steps gl (init rs inst) s -> Inv s.
  Proof.
    intros H. remember (init rs inst) as s0 eqn:E.
    induction H as [s1|s1 s2 s3 H12 IH H23]; [subst; apply inv_init | eapply inv_step; eauto].
  Qed.

  (* two different threads never hold the same concrete lock *)
  Lemma mutex s i j ki kj c :
    NoDup (all_held s) -> i <> j ->
    nth_error s i = Some ki -> nth_error s j = Some kj ->
    In c (held ki) -> In c (held kj) -> False.
  Proof.
    intros Hnd Hij Hi Hj Hci Hcj.
    destruct (nth_error_split _ _ Hi) as (s1 & s2 & -> & Hlen). subst i.
    rewrite all_held_split in Hnd. rewrite nth_error_mid in Hj.
    destruct (Nat.eqb j (List.length s1)) eqn:E; [apply Nat.eqb_eq in E; congruence|].
    destruct (Nat.ltb j (List.length s1)).
    - apply nth_error_In in Hj.
      apply (NoDup_app_disj _ _ c Hnd).
      + unfold all_held. apply in_flat_map. eauto.
      + apply in_or_app. now left.
    - apply nth_error_In in Hj. apply NoDup_app_r in Hnd.
      apply (NoDup_app_disj _ _ c Hnd); [exact Hci|].
      unfold all_held. apply in_flat_map. eauto.
  Qed.
End Exec.

(* ---------------------------------------------------------------- the checker covers every pair *)

Lemma check_pairs ex rs :
  check_roles_list ex rs = true ->
  forall p q r1 r2, nth_error rs p = Some r1 -> nth_error rs q = Some r2 ->
    (p <> q \/ rrepl r1 = true) ->
    forall x y, In x (accs_of (rbody r1) []) -> In y (accs_of (rbody r2) []) ->
      pair_ok ex x y = true \/ pair_ok ex y x = true.
Proof.
  induction rs as [|ro rest IH]; intros Hc p q r1 r2 Hp Hq Hpq x y Hx Hy.
  - destruct p; discriminate.
  - simpl in Hc. apply andb_prop in Hc. destruct Hc as [Hc Hrest].
    apply andb_prop in Hc. destruct Hc as [Hself Hothers].
    rewrite forallb_forall in Hothers.
    destruct p as [|p], q as [|q]; simpl in Hp, Hq.
    + injection Hp as <-. injection Hq as <-.
      destruct Hpq as [Hpq|Hrep]; [congruence|]. rewrite Hrep in Hself.
      left. unfold check_roles in Hself. rewrite forallb_forall in Hself.
      specialize (Hself x Hx). rewrite forallb_forall in Hself. now apply Hself.
    + injection Hp as <-. apply nth_error_In in Hq. specialize (Hothers r2 Hq).
      left. unfold check_roles in Hothers. rewrite forallb_forall in Hothers.
      specialize (Hothers x Hx). rewrite forallb_forall in Hothers. now apply Hothers.
    + injection Hq as <-. apply nth_error_In in Hp. specialize (Hothers r1 Hp).
      right. unfold check_roles in Hothers. rewrite forallb_forall in Hothers.
      specialize (Hothers y Hy). rewrite forallb_forall in Hothers. now apply Hothers.
    + apply (IH Hrest p q r1 r2 Hp Hq); auto. destruct Hpq as [Hpq|Hr]; [left; congruence | now right].
Qed.

(* ---------------------------------------------------------------- a checked pair cannot race *)

Section Pair.
  Variable gl : string -> N.
  Variable s : state.
  Hypothesis Hnd : NoDup (all_held s).

  Lemma pair_no_race ex i j a1 k1 a2 k2 o :
    i <> j ->
    nth_error s i = Some (IProg (Acc a1) :: k1) ->
    nth_error s j = Some (IProg (Acc a2) :: k2) ->
    wf_rel gl i k1 -> wf_rel gl j k2 ->
    acls a1 = acls a2 -> kinds_conflict (akind a1) (akind a2) = true ->
    resolve gl i k1 (arecv a1) o -> resolve gl j k2 (arecv a2) o ->
    pair_ok ex (a1, locks_of k1) (a2, locks_of k2) = true ->
    ex (a1, locks_of k1) (a2, locks_of k2) = true \/ ex (a2, locks_of k2) (a1, locks_of k1) = true.
  Proof.
    intros Hij Hi Hj Hwf1 Hwf2 Hcls Hkind Hr1 Hr2 Hok.
    unfold pair_ok in Hok.
    assert (Hconf : conflict (a1, locks_of k1) (a2, locks_of k2) = true).
    { unfold conflict. simpl. now rewrite Hkind, Hcls, String.eqb_refl. }
    rewrite Hconf in Hok.
    destruct (protected (a1, locks_of k1) (a2, locks_of k2)) eqn:Hprot.
    - exfalso. unfold protected in Hprot.
      destruct (some_own (a1, locks_of k1) (a2, locks_of k2)) eqn:Hown.
      + unfold some_own in Hown. simpl in Hown.
        destruct (recv_eqb (arecv a1) ROwn) eqn:Ho1.
        * apply recv_eqb_eq in Ho1. rewrite Ho1 in Hr1. eapply (own_private gl i j); eauto.
        * apply recv_eqb_eq in Hown. rewrite Hown in Hr2. eapply (own_private gl j i); eauto.
      + simpl in Hprot. apply existsb_exists in Hprot. destruct Hprot as (l1 & Hl1 & Hex).
        apply existsb_exists in Hex. destruct Hex as (l2 & Hl2 & Hex).
        unfold excl in Hex. simpl in Hex.
        destruct (String.eqb (lcls l1) (lcls l2)) eqn:Hc; [|discriminate].
        apply String.eqb_eq in Hc.
        destruct (in_locks_of _ _ Hl1) as [o1 Ho1]. destruct (in_locks_of _ _ Hl2) as [o2 Ho2].
        assert (Heq : o1 = o2).
        { destruct (if is_glob (lrecv l1) then recv_eqb (lrecv l1) (lrecv l2) else false) eqn:Hg.
          - destruct (is_glob (lrecv l1)) eqn:Hisg; [|discriminate].
            apply recv_eqb_eq in Hg.
            destruct (lrecv l1) as [g| |] eqn:E1; try discriminate.
            destruct (in_rel_resolve _ _ _ _ _ Hwf1 Ho1) as [k' Hk'].
            destruct (in_rel_resolve _ _ _ _ _ Hwf2 Ho2) as [k'' Hk''].
            rewrite E1 in Hk'. rewrite <- Hg in Hk''. simpl in *. congruence.
          - destruct (recv_eqb (lrecv l1) (arecv a1)) eqn:Hs1; [|discriminate].
            apply recv_eqb_eq in Hs1. apply recv_eqb_eq in Hex.
            rewrite <- Hs1 in Hr1. rewrite <- Hex in Hr2.
            rewrite (lock_object _ _ _ _ _ _ Hwf1 Ho1 Hr1), (lock_object _ _ _ _ _ _ Hwf2 Ho2 Hr2).
            reflexivity. }
        subst o2. apply (mutex s i j _ _ (lcls l1, o1) Hnd Hij Hi Hj).
        * simpl. now apply in_rel_held.
        * simpl. rewrite Hc. now apply in_rel_held.
    - destruct (ex (a1, locks_of k1) (a2, locks_of k2)); [now left | now right].
  Qed.
End Pair.

(* ---------------------------------------------------------------- main theorem *)

Theorem lockset_sound_gen : forall ex g,
  check_region ex g = true ->
  forall gl inst s, valid_inst (groles g) inst -> steps gl (init (groles g) inst) s ->
  forall i j a1 L1 a2 L2, race_at gl s i j a1 L1 a2 L2 ->
    ex (a1, L1) (a2, L2) = true \/ ex (a2, L2) (a1, L1) = true.
Proof.
  intros ex g Hchk gl inst s Hvalid Hsteps i j a1 L1 a2 L2 Hrace.
  destruct (inv_steps gl (groles g) inst s Hsteps) as [Hth Hnd].
  destruct Hrace as (Hij & k1 & k2 & o & Hi & Hj & -> & -> & Hcls & Hkind & Hr1 & Hr2).
  destruct (Hth _ _ Hi) as (r1 & Hi1 & Hincl1 & Hwf1).
  destruct (Hth _ _ Hj) as (r2 & Hi2 & Hincl2 & Hwf2).
  simpl in Hwf1, Hwf2.
  assert (Hx : In (a1, locks_of k1) (accs_of (role_body (groles g) r1) [])).
  { apply Hincl1. simpl. now left. }
  assert (Hy : In (a2, locks_of k2) (accs_of (role_body (groles g) r2) [])).
  { apply Hincl2. simpl. now left. }
  unfold role_body in Hx, Hy.
  destruct (nth_error (groles g) r1) as [ro1|] eqn:E1; [|contradiction].
  destruct (nth_error (groles g) r2) as [ro2|] eqn:E2; [|contradiction].
  assert (Hpq : r1 <> r2 \/ rrepl ro1 = true).
  { destruct (Nat.eq_dec r1 r2) as [->|Hne]; [|now left]. right.
    destruct Hvalid as [_ Hv]. eapply (Hv i j r2); eauto. }
  destruct (check_pairs ex (groles g) Hchk r1 r2 ro1 ro2 E1 E2 Hpq _ _ Hx Hy) as [Hok|Hok].
  - eapply (pair_no_race gl s Hnd ex i j); eauto.
  - assert (Hji : j <> i) by congruence.
    assert (Hk : kinds_conflict (akind a2) (akind a1) = true).
    { destruct (akind a1), (akind a2); simpl in *; congruence. }
    destruct (pair_no_race gl s Hnd ex j i a2 k2 a1 k1 o Hji Hj Hi Hwf2 Hwf1 (eq_sym Hcls) Hk Hr2 Hr1 Hok);
      [now right | now left].
Qed.

Theorem lockset_sound_strict : forall g,
  check_region no_exempt g = true ->
  forall gl inst s, valid_inst (groles g) inst -> steps gl (init (groles g) inst) s -> ~ race gl s.
Proof.
  intros g Hchk gl inst s Hv Hs (i & j & a1 & L1 & a2 & L2 & Hr).
  destruct (lockset_sound_gen no_exempt g Hchk gl inst s Hv Hs _ _ _ _ _ _ Hr); discriminate.
Qed.

(* check_regions is the conjunction *)
Lemma check_regions_in ex gs g : check_regions ex gs = true -> In g gs -> check_region ex g = true.
Proof. unfold check_regions. rewrite forallb_forall. auto. Qed.

(* the reporting function agrees with the checker *)
Lemma bad_pairs_roles_nil ex r1 r2 : bad_pairs_roles ex r1 r2 = [] -> check_roles ex r1 r2 = true.
Proof.
  unfold bad_pairs_roles, check_roles. generalize (accs_of (rbody r2) []) as ys.
  intros ys. induction (accs_of (rbody r1) []) as [|x xs IH]; simpl; intros H; [reflexivity|].
  apply app_eq_nil in H. destruct H as [Hx Hxs]. rewrite (IH Hxs), andb_true_r.
  clear IH Hxs. induction ys as [|y ys IHy]; simpl in *; [reflexivity|].
  destruct (pair_ok ex x y); simpl in *; [now apply IHy | discriminate].
Qed.

Lemma bad_pairs_nil ex g : bad_pairs ex g = [] -> check_region ex g = true.
Proof.
  unfold bad_pairs, check_region. induction (groles g) as [|ro rest IH]; simpl; intros H; [reflexivity|].
  apply app_eq_nil in H. destruct H as [Hs H]. apply app_eq_nil in H. destruct H as [Ho Hr].
  rewrite (IH Hr), andb_true_r. apply andb_true_intro. split.
  - destruct (rrepl ro); [now apply bad_pairs_roles_nil | reflexivity].
  - clear IH Hr Hs. induction rest as [|r2 rest IH]; simpl in *; [reflexivity|].
    apply app_eq_nil in Ho. destruct Ho as [H1 H2].
    rewrite (bad_pairs_roles_nil _ _ _ H1), (IH H2). reflexivity.
Qed.

Lemma residual_nil ex gs : residual ex gs = [] -> check_regions ex gs = true.
Proof.
  unfold residual, check_regions. induction gs as [|g gs IH]; simpl; intros H; [reflexivity|].
  apply app_eq_nil in H. destruct H as [Hg Hgs]. rewrite (IH Hgs), andb_true_r.
  apply bad_pairs_nil. unfold pair_sites in Hg. now apply map_eq_nil in Hg.
Qed.
