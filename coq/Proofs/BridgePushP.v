(* Bridge filter pushdown (C12) -> cache->rows bridge (C08): proofs.
   Vocabulary: Model/BridgePush.v. *)
From Coq Require Import String Ascii List NArith ZArith Bool Arith Lia ZifyBool ZifyN ZifyNat.
From Shovel Require Import Base.Outcome Model.Hex Model.Filter Model.Rows Model.Pushdown
     Proofs.HexP Proofs.FilterP Proofs.RowsP Proofs.PushdownP.
From Shovel Require Model.BridgeGateRows Proofs.BridgeGateRowsP Model.BridgeRowsTask Proofs.BridgeRowsTaskP.
From Shovel Require Import Model.BridgePush.
Import ListNotations.
Open Scope N_scope.
Local Arguments N.add : simpl never.
Local Arguments N.sub : simpl never.
Local Arguments N.mul : simpl never.
Local Arguments N.leb : simpl never.
Local Arguments N.ltb : simpl never.

(* ================================================================== *)
(* 1. Rows level: keep_log within want_log; emitted within keep_log     *)
(* ================================================================== *)
Module D.
Import PD.

(* a filter without reference table does not look at the database *)
Lemma filter_result_no_table dbs dbs' f v :
  f_ref_table f = [] -> filter_result dbs f v = filter_result dbs' f v.
Proof.
  intros T. unfold filter_result. rewrite T. cbn [is_nil negb]. reflexivity.
Qed.

Lemma addr_decision_true bd l :
  addr_decision (bd_filter bd) l = true ->
  filter_result [] (bd_filter bd) (VBytes (l_addr l)) = Ok (Some true).
Proof.
  unfold addr_decision. destruct (filter_result [] (bd_filter bd) (VBytes (l_addr l))) as [[b|]| |];
    try discriminate. intros ->. reflexivity.
Qed.

Lemma pos_filters_In d bd : In bd (pos_filters d) <-> In bd (d_block d) /\ pos_addr bd = true.
Proof. unfold pos_filters. apply filter_In. Qed.

(* the gate implies the topic restriction (PushdownP.topic_sound, from the
   gate itself) *)
Lemma gate_topics d l : gate d l = true -> wf_bytes (d_sighash d) ->
  topics_pass (push_topics d) (l_topics l) = true.
Proof.
  intros G W. unfold gate in G. apply andb_true_iff in G. destruct G as [G1 G2].
  destruct (l_topics l) as [|x hr]; [simpl in G1; discriminate|].
  simpl in G2. apply bytes_eqb_eq in G2. unfold push_topics. simpl.
  rewrite decode_hex_encode_hex_l by exact W. rewrite G2, bytes_eqb_refl. reflexivity.
Qed.

(* some pushed filter accepts the address -> the node's address test passes *)
Lemma hit_passes d l bd :
  In bd (pos_filters d) -> addr_decision (bd_filter bd) l = true ->
  length (ob (l_addr l)) = 20%nat ->
  existsb (fun a => bytes_eqb (decode_hex a) (ob (l_addr l)))
          (flat_map (fun bd => map norm_addr (f_args (bd_filter bd))) (pos_filters d)) = true.
Proof.
  intros Hin Hd L20. pose proof (proj1 (pos_filters_In d bd) Hin) as [_ P].
  pose proof (pos_addr_hit [] bd (l_addr l) P (addr_decision_true bd l Hd) L20) as Hit.
  apply existsb_exists in Hit. destruct Hit as [a [Ha Ea]].
  apply existsb_exists. exists a. split; [|exact Ea].
  apply in_flat_map. exists bd. split; [exact Hin|exact Ha].
Qed.

(* (1) at the Rows level *)
Lemma keep_log_within_want_log d l :
  wf_bytes (d_sighash d) -> length (ob (l_addr l)) = 20%nat ->
  keep_log d l = true -> want_log d l = true.
Proof.
  intros W L20 K. unfold keep_log in K. apply andb_true_iff in K. destruct K as [G A].
  unfold want_log, node_pass. apply andb_true_iff. split; [|apply gate_topics; assumption].
  unfold node_addr_pass, push_addrs. fold (pos_filters d).
  destruct (pos_filters d) as [|bd0 pos'] eqn:Epos; [reflexivity|]. cbn [is_nil].
  destruct (negb (bytes_eqb (to_lower (d_agg d)) (s2b "and"))
            && negb (length (bd0 :: pos') =? num_filters d)%nat) eqn:Econd; [reflexivity|].
  cbn [is_nil orb]. rewrite <- Epos.
  unfold declared_accept, pushed_applies in A. rewrite Epos in A.
  assert (Hp : kind_is_and (d_agg d) || Nat.eqb (length (bd0 :: pos')) (num_filters d) = true).
  { unfold kind_is_and. destruct (bytes_eqb (to_lower (d_agg d)) (s2b "and")); [reflexivity|].
    cbn [negb andb orb] in *. apply negb_false_iff in Econd. exact Econd. }
  rewrite Hp in A. cbn [map] in A.
  assert (Hex : exists bd, In bd (bd0 :: pos') /\ addr_decision (bd_filter bd) l = true).
  { unfold agg in A. destruct (kind_is_and (d_agg d)).
    - cbn [forallb] in A. apply andb_true_iff in A. destruct A as [A _]. exists bd0. split; [left; reflexivity|exact A].
    - apply existsb_exists in A. destruct A as [b [Hb ->]].
      change (addr_decision (bd_filter bd0) l :: map (fun bd => addr_decision (bd_filter bd) l) pos')
        with (map (fun bd => addr_decision (bd_filter bd) l) (bd0 :: pos')) in Hb.
      apply in_map_iff in Hb. destruct Hb as [bd [E Hbd]]. exists bd. auto. }
  destruct Hex as [bd [Hin Hd]]. rewrite <- Epos in Hin.
  apply orb_true_iff. right. apply (hit_passes d l bd Hin Hd L20).
Qed.

(* every declared positive address filter was decided on the log's address,
   and the decision sits in the row's decision list (from
   PushdownP.address_sound) *)
Lemma pos_decided d dbs e l rs br r :
  e_l e = Some l -> length rs = length (coldefs d) ->
  (forall j cd rr, nth_error (coldefs d) j = Some cd -> nth_error rs j = Some rr ->
      exists v, nth_error r j = Some v /\ result_rel dbs (cd_filter br cd) v rr /\
        (cd_indexed cd = false -> cd_is_bd cd = true -> fld (bd_name (cd_bd cd)) "abi_idx" = false ->
         get_field e (bd_name (cd_bd cd)) = Ok v)) ->
  forall bd, In bd (d_block d) -> pos_addr bd = true ->
    exists b, In (Some b) rs /\ filter_result dbs (bd_filter bd) (VBytes (l_addr l)) = Ok (Some b).
Proof.
  intros El Lrs Hn bd Hb P. apply In_nth_error in Hb. destruct Hb as [k Hk].
  pose proof (coldefs_bd_nth d k bd Hk) as N.
  assert (Hlt : (num_selected d + k < length rs)%nat)
    by (rewrite Lrs; apply nth_error_Some; congruence).
  destruct (nth_error rs (num_selected d + k)) as [rr|] eqn:Er; [|apply nth_error_None in Er; lia].
  destruct (Hn _ _ _ N Er) as [v [_ [Res G]]].
  destruct (pos_addr_parts bd P) as [_ [Pl _]].
  assert (Hne' : bd_name bd <> []) by (rewrite Pl; discriminate).
  destruct (bd_coldef_flags (d_table_cols d) bd Hne') as [F1 F2].
  assert (Ab : fld (bd_name (cd_bd (bd_coldef (d_table_cols d) bd))) "abi_idx" = false)
    by (simpl; rewrite Pl; reflexivity).
  specialize (G F1 F2 Ab). simpl in G. rewrite Pl, (get_field_log_addr e l El) in G.
  injection G as <-.
  unfold result_rel, cd_filter in Res. rewrite F1, F2 in Res. simpl in Ab. simpl in Res.
  rewrite Ab, andb_false_r in Res.
  destruct (pos_addr_decides dbs bd _ _ P Res) as [b ->].
  exists b. split; [eapply nth_error_In; exact Er|exact Res].
Qed.

Lemma addr_decision_of dbs bd l b :
  pos_addr bd = true -> filter_result dbs (bd_filter bd) (VBytes (l_addr l)) = Ok (Some b) ->
  addr_decision (bd_filter bd) l = b.
Proof.
  intros P R. destruct (pos_addr_parts bd P) as [_ [_ [_ [_ [T _]]]]].
  unfold addr_decision. rewrite (filter_result_no_table [] dbs _ _ T), R. reflexivity.
Qed.

(* C12's "emitted iff accepted", the direction needed: a log for which
   processLog emits a row passes [keep_log] *)
Lemma emitted_within_keep_log d dbs e l rows :
  process_log fixed d dbs e l = Ok rows -> rows <> [] -> e_l e = Some l ->
  keep_log d l = true.
Proof.
  intros H Hne El. destruct rows as [|r rows]; [contradiction|].
  unfold keep_log. apply andb_true_iff. split; [eapply process_log_gate; [exact H|left; reflexivity]|].
  unfold declared_accept. destruct (pushed_applies d) eqn:Ap; [|reflexivity].
  destruct (row_facts _ _ _ _ _ r H (or_introl eq_refl)) as [rs [br [Agg [Lrs Hn]]]].
  pose proof (pos_decided d dbs e l rs br r El Lrs Hn) as Hbd.
  destruct (kind_is_and (d_agg d)) eqn:K.
  - (* and: every decision is true *)
    apply agg_and. intros b Hb. apply in_map_iff in Hb. destruct Hb as [bd [<- Hin]].
    apply pos_filters_In in Hin. destruct Hin as [Hb P].
    destruct (Hbd bd Hb P) as [b [Hin Fr]]. rewrite (addr_decision_of dbs bd l b P Fr).
    apply (proj1 (agg_and _) Agg). apply somes_In. exact Hin.
  - (* or: the positive address filters are all the active filters *)
    unfold pushed_applies in Ap. rewrite K in Ap. cbn [orb] in Ap. apply Nat.eqb_eq in Ap.
    unfold num_filters, pos_filters in Ap.
    assert (Sub : forall x, pos_addr x = true -> active (bd_filter x) = true).
    { intros x Px. apply (pos_addr_parts x Px). }
    assert (Le : (length (filter pos_addr (d_block d)) <=
                  length (filter (fun bd => active (bd_filter bd)) (d_block d)))%nat).
    { clear -Sub. induction (d_block d) as [|z bl IH]; simpl; [lia|].
      destruct (pos_addr z) eqn:P; [rewrite (Sub z P); simpl; lia|].
      destruct (active (bd_filter z)); simpl; lia. }
    assert (NoIn : filter (fun i => active (i_filter i)) (filter selected (d_inputs d)) = []).
    { destruct (filter (fun i => active (i_filter i)) (filter selected (d_inputs d))); [reflexivity|].
      simpl in Ap. lia. }
    rewrite NoIn in Ap. simpl in Ap.
    pose proof (filter_sub_all pos_addr (fun bd => active (bd_filter bd)) (d_block d) Sub Ap) as AllPos.
    apply agg_or. destruct (pos_filters d) as [|bd0 pos'] eqn:Epos; [left; reflexivity|]. right.
    rewrite <- Epos.
    apply agg_or in Agg. destruct Agg as [Agg|Agg].
    { exfalso. assert (Hin0 : In bd0 (pos_filters d)) by (rewrite Epos; left; reflexivity).
      apply pos_filters_In in Hin0. destruct Hin0 as [Hb0 P0].
      destruct (Hbd bd0 Hb0 P0) as [b [Hin _]]. apply somes_In in Hin. rewrite Agg in Hin. destruct Hin. }
    apply somes_In, In_nth_error in Agg. destruct Agg as [j Er].
    assert (Hlt : (j < length (coldefs d))%nat) by (rewrite <- Lrs; apply nth_error_Some; congruence).
    destruct (nth_error (coldefs d) j) as [cd|] eqn:Ec; [|apply nth_error_None in Ec; lia].
    destruct (Hn _ _ _ Ec Er) as [v [_ [Res G]]].
    destruct (cd_filter br cd) as [f|] eqn:Ef; [|simpl in Res; discriminate].
    simpl in Res. pose proof (active_result _ _ _ _ Res) as Act.
    destruct (cd_filter_active d br cd f (nth_error_In _ _ Ec) Ef Act)
      as [[inp [Hi [S ->]]]|[bd [Hb [-> [-> [B Ab]]]]]].
    { exfalso. assert (Hx : In inp (filter (fun i => active (i_filter i)) (filter selected (d_inputs d)))).
      { apply filter_In. split; [apply filter_In; auto|exact Act]. }
      rewrite NoIn in Hx. destruct Hx. }
    pose proof (AllPos bd Hb Act) as P.
    destruct (pos_addr_parts bd P) as [_ [Pl _]].
    assert (Ab' : fld (bd_name (cd_bd (bd_coldef (d_table_cols d) bd))) "abi_idx" = false)
      by (simpl; rewrite Pl; reflexivity).
    specialize (G eq_refl B Ab'). simpl in G. rewrite Pl, (get_field_log_addr e l El) in G.
    injection G as <-.
    apply in_map_iff. exists bd. split; [exact (addr_decision_of dbs bd l true P Res)|].
    apply pos_filters_In. auto.
Qed.

Lemma keep_log_rowless d : rowless_outside d (keep_log d).
Proof.
  intros dbs e l rows El K H. destruct rows as [|r rows]; [reflexivity|]. exfalso.
  rewrite (emitted_within_keep_log d dbs e l (r :: rows) H) in K; [discriminate|discriminate|exact El].
Qed.

(* C12's two pushdown theorems say the same of [want_log] *)
Lemma want_log_rowless_on d l :
  wf_bytes (d_sighash d) -> length (ob (l_addr l)) = 20%nat ->
  forall dbs e rows, e_l e = Some l -> want_log d l = false ->
    process_log fixed d dbs e l = Ok rows -> rows = [].
Proof.
  intros W L20 dbs e rows El K H. destruct rows as [|r rows]; [reflexivity|]. exfalso.
  rewrite (keep_log_within_want_log d l W L20) in K; [discriminate|].
  apply (emitted_within_keep_log d dbs e l (r :: rows) H); [discriminate|exact El].
Qed.

(* ---------- erasing rowless logs ---------- *)
Import BridgeGateRows.

Lemma get_field_keep c d p b t l a name :
  get_field (mk_env c d (block_keep_logs p b) (tx_keep_logs p t) l a) name
  = get_field (mk_env c d b t l a) name.
Proof. reflexivity. Qed.

(* Insert on the chain with every log failing [p] erased returns the same
   rows, when the logs failing [p] contribute none *)
Lemma insert_keep_rowless d c dbs p blocks rows :
  indexing fixed d = IxLog -> rowless_outside d p ->
  insert fixed d c dbs blocks = Ok rows ->
  insert fixed d c dbs (keep_logs p blocks) = Ok rows.
Proof.
  intros M R H. unfold insert in *. rewrite M in *. unfold keep_logs.
  rewrite concatM_map. eapply concatM_same; [exact H|].
  intros b ob Hb Hob. cbn [b_txs block_keep_logs]. rewrite concatM_map.
  eapply concatM_same; [exact Hob|].
  intros t ot Ht Hot. cbn [t_logs tx_keep_logs].
  rewrite (concatM_ext _ (fun l => process_log fixed d dbs (mk_env c d b t (Some l) None) l)).
  - apply concatM_filter; [exact Hot|].
    intros l o Hl P Hp. apply (R dbs (mk_env c d b t (Some l) None) l o eq_refl P Hp).
  - intros l _. apply process_log_env. intros name. apply get_field_keep.
Qed.
End D.

(* ================================================================== *)
(* 2. client level: the cache->rows bridge for a declaration           *)
(* ================================================================== *)
From Shovel Require Model.Cache Model.Client Model.ClientSpec Model.CacheClient Model.BridgeCacheTask
  Proofs.BridgeClientTaskP Proofs.BridgeCacheTaskP Model.BridgeCacheRows Proofs.BridgeCacheRowsP.
From Shovel Require Import Model.TaskTypes Model.TaskSpec.

Module V.
Import BridgeCacheRows.
Import PV.

(* (1) the declaration's keep is within the declaration's own pushdown *)
Lemma declared_keep_within_pushdown rd d :
  wf_bytes (Rows.d_sighash d) ->
  forall lg, length (ob (Rows.l_addr (C11V.rd_log rd lg))) = 20%nat ->
    keep_of rd d lg = true -> want_of rd d lg = true.
Proof. intros W lg L20 K. exact (D.keep_log_within_want_log d (C11V.rd_log rd lg) W L20 K). Qed.

Lemma keep_cover rd d : addr20 rd -> wf_bytes (Rows.d_sighash d) ->
  forall lg, keep_of rd d lg = true -> want_of rd d lg = true.
Proof. intros A W lg. apply declared_keep_within_pushdown; [exact W|apply A]. Qed.

(* C12 "emitted iff accepted" on client-level logs *)
Lemma emitted_log_is_kept rd d dbs e lg rows :
  Rows.process_log Rows.fixed d dbs e (C11V.rd_log rd lg) = Ok rows -> rows <> [] ->
  Rows.e_l e = Some (C11V.rd_log rd lg) -> keep_of rd d lg = true.
Proof. intros H Hne El. exact (D.emitted_within_keep_log d dbs e _ rows H Hne El). Qed.

(* (3) restricting the blocks to [keep_of] loses no row of Insert *)
Lemma keep_restriction_loses_no_rows rd d c dbs bs rows :
  Rows.indexing Rows.fixed d = Rows.IxLog ->
  Rows.insert Rows.fixed d c dbs (map (C11V.conv rd) bs) = Ok rows ->
  Rows.insert Rows.fixed d c dbs (map (C11V.conv rd) (map (C11V.restrict (keep_of rd d)) bs)) = Ok rows.
Proof.
  intros M H.
  pose proof (D.insert_keep_rowless d c dbs (PD.keep_log d) _ rows M (D.keep_log_rowless d) H) as R.
  rewrite <- R. f_equal. unfold BridgeGateRows.keep_logs. rewrite !map_map. apply map_ext. intros b.
  symmetry. apply (BridgeCacheRowsP.V.conv_keep_logs rd (PD.keep_log d) b).
Qed.

(* ... and the three restrictions agree: what the node withholds
   ([want_of]), what the builder cannot use ([keep_of]) and nothing *)
Lemma restrictions_agree rd d c dbs bs rows :
  Rows.indexing Rows.fixed d = Rows.IxLog -> wf_bytes (Rows.d_sighash d) ->
  (forall b t lg, In b bs -> In t (Client.b_txs b) -> In lg (Client.t_logs t) ->
     length (ob (Rows.l_addr (C11V.rd_log rd lg))) = 20%nat) ->
  Rows.insert Rows.fixed d c dbs (map (C11V.conv rd) bs) = Ok rows ->
  Rows.insert Rows.fixed d c dbs (map (C11V.conv rd) (map (C11V.restrict (want_of rd d)) bs)) = Ok rows
  /\ Rows.insert Rows.fixed d c dbs (map (C11V.conv rd) (map (C11V.restrict (keep_of rd d)) bs)) = Ok rows
  /\ Rows.insert Rows.fixed d c dbs
       (map (C11V.conv rd) (map (C11V.restrict (keep_of rd d)) (map (C11V.restrict (want_of rd d)) bs))) = Ok rows.
Proof.
  intros M W L H.
  pose proof (BridgeCacheRowsP.V.c11_pushdown_restriction rd d c dbs bs rows M W L H) as Hw.
  split; [exact Hw|]. split; [apply keep_restriction_loses_no_rows; assumption|].
  apply keep_restriction_loses_no_rows; assumption.
Qed.

(* ---------- (2) the cache->rows conclusion, no free keep / want ---------- *)
Import Client ClientSpec CacheClient BridgeCacheTask CR.

Lemma history_ops rd cch calls :
  citems_wf cch -> honest_decl_history rd cch calls ->
  Forall (fun o => world_on cch (cc_world o)) (map snd calls)
  /\ Forall (op_keeps (Jit cch)) (map snd calls).
Proof.
  intros Hwf H. unfold honest_decl_history in H. rewrite Forall_forall in H.
  split; apply Forall_forall; intros o Ho; apply in_map_iff in Ho; destruct Ho as (dc & <- & Hdc);
    destruct (H dc Hdc) as [Hw [Hon _]]; [exact Hw|].
  apply BridgeCacheRowsP.B.op_keeps_Jit; assumption.
Qed.

Lemma rows_canon_for_declaration rd d c dbs cch op :
  citems_wf cch -> addr20 rd -> wf_bytes (Rows.d_sighash d) ->
  attach_on cch (want_of rd d) (cc_s op) (cc_l op) (cc_world op) ->
  use_receipts (cc_plan op) || use_logs (cc_plan op) = true ->
  rows_canon (rowsf_decl rd d c dbs) cch (Jit cch) op.
Proof.
  intros Hwf A W Hat Hplan.
  exact (BridgeCacheRowsP.B.rows_canon_honest cch (keep_of rd d) (want_of rd d)
           (BridgeRowsTask.rowsf_of (C11V.conv rd) d c dbs) op Hwf Hat (keep_cover rd d A W) Hplan).
Qed.

Lemma cached_rows_for_declaration hid rd c dbs cch mx calls i d op bs :
  citems_wf cch -> addr20 rd -> wf_bytes (Rows.d_sighash d) ->
  honest_decl_history rd cch calls -> nth_error calls i = Some (d, op) ->
  use_receipts (cc_plan op) || use_logs (cc_plan op) = true ->
  cached_result mx (map snd calls) i op bs -> fetches (cc_plan op) = true ->
  canon_seg true (canon hid (rowsf_decl rd d c dbs) cch) (cc_s op, cc_l op)
            (SegOk (map (BridgeClientTaskP.abs hid (rowsf_decl rd d c dbs)) bs)).
Proof.
  intros Hwf A W Hh Hi Hplan Hres Hfe. destruct (history_ops rd cch calls Hwf Hh) as [Hw Hk].
  apply (BridgeCacheTaskP.cached_canon_seg hid (rowsf_decl rd d c dbs) cch (Jit cch) mx (map snd calls) i op bs
           Hw Hk); [|exact Hres|exact Hfe].
  unfold honest_decl_history in Hh. rewrite Forall_forall in Hh.
  destruct (Hh (d, op) (nth_error_In _ _ Hi)) as [_ Hat].
  apply rows_canon_for_declaration; assumption.
Qed.

Lemma cached_growth_reply_for_declaration hid rd d c dbs cch ps rs :
  citems_wf cch -> addr20 rd -> wf_bytes (Rows.d_sighash d) ->
  Forall2 (declared_cache_answer hid rd d c dbs cch) ps rs ->
  growth_reply true (canon hid (rowsf_decl rd d c dbs) cch) (RGet ps) (RSegs rs).
Proof.
  intros Hwf A W H. cbn [growth_reply]. induction H as [|pr r ps rs Hr _ IH]; constructor; [|exact IH].
  destruct r as [xs|k]; [|exact I].
  destruct Hr as (mx & calls & i & op & bs & Hh & Hi & Hplan & Hres & Hf & Hs & Hl & ->).
  destruct pr as [s l]. simpl in Hs, Hl. subst s l. eapply cached_rows_for_declaration; eauto.
Qed.
End V.

(* ================================================================== *)
(* 3. the example instance; necessity of the address length            *)
(* ================================================================== *)
Module X.
Import BridgeCacheRows.
Import Client ClientSpec CacheClient BridgeCacheTask CR EX PV PX.
Module BX := BridgeCacheRowsP.X.

Lemma x_addr20 : addr20 x_rd.
Proof. intros lg. simpl. destruct (hd 0 (l_pl lg) =? 7); reflexivity. Qed.

Lemma x_wf_A : wf_bytes (Rows.d_sighash dA).
Proof. repeat constructor. Qed.
Lemma x_wf_B : wf_bytes (Rows.d_sighash dB).
Proof. repeat constructor. Qed.

(* each call's eth_getLogs reply is complete for the pushdown of its own
   declaration: A is sent event 7 of contract A, B event 8 *)
Lemma x_attach_on_A : attach_on ex_cch (want_of x_rd dA) 1 2 (cc_world opA).
Proof.
  split; [exact (proj1 BX.ex_attach_on_A)|].
  apply (BX.ex_logs_all (want_of x_rd dA) _ [mkLog 0 [7]]); [reflexivity|reflexivity|].
  intros lg [<-|[<-|[]]] Hw; [left; reflexivity|vm_compute in Hw; discriminate].
Qed.
Lemma x_attach_on_B : attach_on ex_cch (want_of x_rd dB) 1 2 (cc_world opB).
Proof.
  split; [exact (proj1 BX.ex_attach_on_B)|].
  apply (BX.ex_logs_all (want_of x_rd dB) _ [mkLog 1 [8]]); [reflexivity|reflexivity|].
  intros lg [<-|[<-|[]]] Hw; [vm_compute in Hw; discriminate|left; reflexivity].
Qed.

(* the premises of [cached_rows_for_declaration] hold for the two integrations *)
Lemma x_hyps :
  citems_wf ex_cch /\ addr20 x_rd /\ wf_bytes (Rows.d_sighash dA)
  /\ honest_decl_history x_rd ex_cch x_calls
  /\ nth_error x_calls 1 = Some (dA, opA)
  /\ use_receipts (cc_plan opA) || use_logs (cc_plan opA) = true
  /\ (exists bs, cached_result 3 (map snd x_calls) 1 opA bs)
  /\ fetches (cc_plan opA) = true
  /\ Rows.indexing Rows.fixed dA = Rows.IxLog.
Proof.
  split; [apply BX.ex_citems_wf|]. split; [apply x_addr20|]. split; [apply x_wf_A|]. split.
  - constructor; [split; [apply BX.ex_world_on_B|apply x_attach_on_B]|].
    constructor; [split; [apply BX.ex_world_on_A|apply x_attach_on_A]|constructor].
  - split; [reflexivity|]. split; [reflexivity|]. split; [|split; reflexivity].
    eexists. unfold cached_result. eexists. eexists. split; [vm_compute; reflexivity|]. split; reflexivity.
Qed.

(* without the side condition on the address length (1) is false: "contains"
   accepts a 21-byte address that contains contract A's, the node compares
   for equality *)
Lemma keep_within_pushdown_needs_addr20 : ~ keep_within_pushdown_any_length_full.
Proof.
  intros H. specialize (H x_rd21 dA x_wf_A (mkLog 0 [7])).
  assert (K : keep_of x_rd21 dA (mkLog 0 [7]) = true) by (vm_compute; reflexivity).
  specialize (H K). vm_compute in H. discriminate.
Qed.
End X.

(* ================================================================== *)
(* 4. the rows of the view are the builder's rows on the node's block  *)
(* ================================================================== *)
(* Rows level, keyed builder *)
Module NK.
Import PD BridgeRowsTask BridgeGateRows BridgeRowsTaskP.

Lemma kprocess_log_env d dbs e e' l :
  (forall name, get_field e name = get_field e' name) -> t_idx (e_t e) = t_idx (e_t e') ->
  kprocess_log d dbs e l = kprocess_log d dbs e' l.
Proof.
  intros G T. unfold kprocess_log. rewrite T. destruct (negb (gate d l)); [reflexivity|].
  destruct (negb (is_nil (l_data l))).
  - destruct (l_scan l) as [srows| |]; simpl; try reflexivity.
    apply concatM_i_ext. intros n srow. rewrite (data_cells_env fixed _ dbs e e' _ _ _ G). reflexivity.
  - rewrite (nodata_cells_env fixed _ dbs e e' _ G). reflexivity.
Qed.

Lemma kprocess_log_rowless d dbs e l o :
  e_l e = Some l -> keep_log d l = false -> kprocess_log d dbs e l = Ok o -> o = [].
Proof.
  intros El K H. pose proof (kprocess_log_rows d dbs e l) as R. rewrite H in R. unfold omap in R. cbn [bind] in R.
  symmetry in R. apply (D.keep_log_rowless d dbs e l _ El K) in R. destruct o; [reflexivity|discriminate].
Qed.

Lemma kinsert_keep d c dbs b krs :
  indexing fixed d = IxLog -> kinsert d c dbs b = Ok krs ->
  kinsert d c dbs (block_keep_logs (keep_log d) b) = Ok krs.
Proof.
  intros M H. unfold kinsert in *. rewrite M in *. cbn [b_txs block_keep_logs]. rewrite concatM_map.
  eapply concatM_same; [exact H|]. intros t ot Ht Hot. cbn [t_logs tx_keep_logs].
  rewrite (concatM_ext _ (fun l => kprocess_log d dbs (mk_env c d b t (Some l) None) l)).
  - apply concatM_filter; [exact Hot|].
    intros l o Hl P Hp. apply (kprocess_log_rowless d dbs (mk_env c d b t (Some l) None) l o eq_refl P Hp).
  - intros l _. apply kprocess_log_env; [intros name; reflexivity|reflexivity].
Qed.

(* in log mode a transaction without logs contributes nothing *)
Lemma kinsert_txs_filter d c dbs b (p : txr -> bool) txs :
  indexing fixed d = IxLog -> (forall t, In t txs -> p t = false -> t_logs t = []) ->
  kinsert d c dbs (block_with_txs b (filter p txs)) = kinsert d c dbs (block_with_txs b txs).
Proof.
  intros M Hp. unfold kinsert. rewrite M. cbn [b_txs block_with_txs].
  rewrite BridgeGateRowsP.concatM_filter.
  - apply concatM_ext. intros t _. apply concatM_ext. intros l _.
    apply kprocess_log_env; [intros name; reflexivity|reflexivity].
  - intros t Ht P. rewrite (Hp t Ht P). reflexivity.
Qed.
End NK.

Module NV.
Import BridgeCacheRows.
Import Client CR PV.

(* ---------- sorting a sorted list ---------- *)
Lemma sort_by_inc {A} (key : A -> N) : forall l, inc_by key l -> sort_by key l = l.
Proof.
  induction l as [|x r IH]; intros H; [reflexivity|]. destruct H as [Hx Hr].
  cbn [sort_by fold_right]. change (fold_right (ins_by key) [] r) with (sort_by key r). rewrite (IH Hr).
  destruct r as [|y r']; [reflexivity|]. cbn [ins_by].
  pose proof (Hx y (or_introl eq_refl)) as Hle. apply N.leb_le in Hle. rewrite Hle. reflexivity.
Qed.
Lemma inc_by_filter {A} (key : A -> N) (p : A -> bool) : forall l, inc_by key l -> inc_by key (filter p l).
Proof.
  induction l as [|x r IH]; intros H; [exact I|]. destruct H as [Hx Hr]. cbn [filter].
  destruct (p x); [|apply IH; exact Hr]. split; [|apply IH; exact Hr].
  intros y Hy. apply filter_In in Hy. apply Hx. apply Hy.
Qed.
Lemma inc_by_map {A C} (key : A -> N) (key' : C -> N) (f : A -> C) :
  (forall x, key' (f x) = key x) -> forall l, inc_by key l -> inc_by key' (map f l).
Proof.
  intros E. induction l as [|x r IH]; intros H; [exact I|]. destruct H as [Hx Hr]. cbn [map]. split; [|apply IH; exact Hr].
  intros y Hy. apply in_map_iff in Hy. destruct Hy as (z & <- & Hz). rewrite !E. apply Hx. exact Hz.
Qed.

(* ---------- the view of an index-sorted block ---------- *)
Lemma vtx_sorted keep t : inc_by l_idx (t_logs t) -> vtx keep t = C11V.restrict_tx keep (tx_hl t).
Proof.
  intros H. unfold vtx, C11V.restrict_tx, tx_hl. cbn [t_idx t_hash t_tft t_body t_rcpt t_logs t_traces].
  rewrite (sort_by_inc l_idx _ (inc_by_filter l_idx keep _ H)). reflexivity.
Qed.

Lemma view_normal keep b : idx_sorted b ->
  log_view keep b = with_txs b (filter has_logs (map (C11V.restrict_tx keep) (map tx_hl (b_txs b)))).
Proof.
  intros [Ht Hl]. unfold log_view. f_equal. unfold vtxs.
  assert (E : map (vtx keep) (b_txs b) = map (C11V.restrict_tx keep) (map tx_hl (b_txs b))).
  { rewrite map_map. apply map_ext_in. intros t Hin. apply vtx_sorted. apply Hl. exact Hin. }
  rewrite E. apply sort_by_inc. apply inc_by_filter.
  apply (inc_by_map t_idx t_idx (C11V.restrict_tx keep)); [reflexivity|].
  apply (inc_by_map t_idx t_idx tx_hl); [reflexivity|exact Ht].
Qed.

(* ---------- the builder on the view ---------- *)
Lemma conv_txs_has_logs rd txs :
  map (C11V.conv_tx rd) (filter has_logs txs)
  = filter (fun t => negb (Filter.is_nil (Rows.t_logs t))) (map (C11V.conv_tx rd) txs).
Proof.
  rewrite BridgeCacheRowsP.V.filter_map_comm. f_equal. apply filter_ext. intros t.
  unfold has_logs. simpl. destruct (t_logs t); reflexivity.
Qed.

Lemma view_krows rd d c dbs cb krs :
  Rows.indexing Rows.fixed d = Rows.IxLog -> idx_sorted cb ->
  BridgeRowsTask.kinsert d c dbs (C11V.conv rd (block_hl cb)) = Ok krs ->
  BridgeRowsTask.kinsert d c dbs (C11V.conv rd (log_view (keep_of rd d) cb)) = Ok krs.
Proof.
  intros M Hs H. rewrite (view_normal (keep_of rd d) cb Hs).
  set (txs := map (C11V.restrict_tx (keep_of rd d)) (map tx_hl (b_txs cb))).
  change (C11V.conv rd (with_txs cb (filter has_logs txs)))
    with (Pushdown.block_with_txs (C11V.conv rd (block_hl cb)) (map (C11V.conv_tx rd) (filter has_logs txs))).
  rewrite conv_txs_has_logs. rewrite NK.kinsert_txs_filter.
  - change (Pushdown.block_with_txs (C11V.conv rd (block_hl cb)) (map (C11V.conv_tx rd) txs))
      with (C11V.conv rd (C11V.restrict (keep_of rd d) (block_hl cb))).
    change (C11V.restrict (keep_of rd d)) with (C11V.restrict (fun lg => PD.keep_log d (C11V.rd_log rd lg))).
    rewrite <- (BridgeCacheRowsP.V.conv_keep_logs rd (PD.keep_log d) (block_hl cb)).
    apply NK.kinsert_keep; assumption.
  - exact M.
  - intros t _ P. destruct (Rows.t_logs t); [reflexivity|discriminate].
Qed.

(* the row function of the declaration, on an index-sorted block on which
   Insert succeeds, is the keyed builder of the rows->task bridge on the
   block as a headers + logs plan delivers it *)
Lemma rowsf_decl_is_builder rd d c dbs cb :
  Rows.indexing Rows.fixed d = Rows.IxLog -> idx_sorted cb ->
  (exists rows, Rows.insert Rows.fixed d c dbs [C11V.conv rd (block_hl cb)] = Ok rows) ->
  rowsf_decl rd d c dbs cb = BridgeRowsTask.rowsf_of (C11V.conv rd) d c dbs (block_hl cb).
Proof.
  intros M Hs [rows Hr]. destruct (BridgeRowsTaskP.kinsert_of_insert d c dbs _ rows Hr) as [krs [Hk _]].
  unfold rowsf_decl, C11V.c11_rowsf, view_rowsf, BridgeRowsTask.rowsf_of, BridgeRowsTask.block_kv,
    BridgeRowsTask.block_krows.
  rewrite (view_krows rd d c dbs cb krs M Hs Hk), Hk. reflexivity.
Qed.

(* a block served through the cache: its rows ARE the builder's rows on the
   node's block *)
Lemma served_rows_are_node_rows rd d c dbs cb b :
  Rows.indexing Rows.fixed d = Rows.IxLog ->
  (NoDup (map t_idx (b_txs cb)) /\ forall t, In t (b_txs cb) -> NoDup (map l_idx (t_logs t))) ->
  idx_sorted cb ->
  (exists rows, Rows.insert Rows.fixed d c dbs [C11V.conv rd (block_hl cb)] = Ok rows) ->
  served (keep_of rd d) cb b ->
  rowsf_decl rd d c dbs b = BridgeRowsTask.rowsf_of (C11V.conv rd) d c dbs (block_hl cb).
Proof.
  intros M Hw Hs Hok Hsv. rewrite <- (rowsf_decl_is_builder rd d c dbs cb M Hs Hok).
  unfold rowsf_decl, C11V.c11_rowsf, view_rowsf. f_equal.
  apply BridgeCacheRowsP.B.served_view; assumption.
Qed.

(* (2) with the canonical chain's rows LITERALLY the builder's *)
Import ClientSpec CacheClient BridgeCacheTask.

Lemma canon_literal hid rd d c dbs cch :
  Rows.indexing Rows.fixed d = Rows.IxLog -> node_ok rd d c dbs cch ->
  canon hid (rowsf_decl rd d c dbs) cch
  = canon hid (fun b => BridgeRowsTask.rowsf_of (C11V.conv rd) d c dbs (block_hl b)) cch.
Proof.
  intros M Hn. unfold canon. apply map_ext_in. intros cb Hcb. destruct (Hn cb Hcb) as [Hs Hok].
  unfold BridgeClientTaskP.abs. f_equal. apply rowsf_decl_is_builder; assumption.
Qed.

Lemma cached_rows_for_declaration_literal hid rd c dbs cch mx calls i d op bs :
  citems_wf cch -> addr20 rd -> wf_bytes (Rows.d_sighash d) ->
  Rows.indexing Rows.fixed d = Rows.IxLog -> node_ok rd d c dbs cch ->
  honest_decl_history rd cch calls -> nth_error calls i = Some (d, op) ->
  use_receipts (cc_plan op) || use_logs (cc_plan op) = true ->
  cached_result mx (map snd calls) i op bs -> fetches (cc_plan op) = true ->
  canon_seg true (canon hid (fun b => BridgeRowsTask.rowsf_of (C11V.conv rd) d c dbs (block_hl b)) cch)
            (cc_s op, cc_l op)
            (SegOk (map (BridgeClientTaskP.abs hid (rowsf_decl rd d c dbs)) bs)).
Proof.
  intros Hwf A W M Hn Hh Hi Hplan Hres Hfe. rewrite <- (canon_literal hid rd d c dbs cch M Hn).
  eapply V.cached_rows_for_declaration; eauto.
Qed.

(* ---------- the example; necessity of the order condition ---------- *)
Import PX.
Lemma x_sorted cb : In cb ex_cch -> idx_sorted cb.
Proof.
  intros Hcb. vm_compute in Hcb. destruct Hcb as [<-|[<-|[<-|[<-|[]]]]].
  - split; [exact I|intros t []].
  - split; [exact I|intros t []].
  - split; [split; [intros y []|exact I]|]. intros t [<-|[]].
    split; [intros y [<-|[]]; vm_compute; discriminate|]. split; [intros y []|exact I].
  - split; [exact I|intros t []].
Qed.

Lemma x_node_ok : node_ok x_rd dA x_ctx [] ex_cch /\ node_ok x_rd dB x_ctx [] ex_cch.
Proof.
  split; intros cb Hcb; (split; [apply x_sorted; exact Hcb|]);
    vm_compute in Hcb; destruct Hcb as [<-|[<-|[<-|[<-|[]]]]]; eexists; vm_compute; reflexivity.
Qed.

Lemma builder_rows_need_index_order : ~ rowsf_decl_any_order_full.
Proof.
  intros H. specialize (H x_rd dB x_ctx [] x_unsorted eq_refl).
  assert (Hok : exists rows, Rows.insert Rows.fixed dB x_ctx [] [C11V.conv x_rd (block_hl x_unsorted)] = Ok rows)
    by (eexists; vm_compute; reflexivity).
  specialize (H Hok). vm_compute in H. discriminate H.
Qed.
End NV.
