(* C05: an integration with filter references never runs ahead of what it
   references.  The dependency position is read from the committed database
   (the task's own uncommitted writes never touch another pair); with the
   repair it counts only if EVERY referenced integration has a cursor. *)
From Coq Require Import List NArith Bool Lia ZifyBool ZifyN ZifyNat.
From Shovel Require Import Model.TaskTypes Model.TaskDb Model.Task Model.TaskNode Model.TaskSys
  Model.TaskSpec Proofs.TaskArithP Proofs.TaskDbP Proofs.TaskExecP Proofs.TaskLoadP Proofs.TaskInvP
  Proofs.TaskLegacyP Proofs.TaskStepP Proofs.C02P.
Import ListNotations.
Open Scope N_scope.

Section Dep.
Variable c : tcfg.
Hypothesis Hc : cfg_ok c.
Variables (d : db) (s : list ans).
Hypothesis Hi : TaskInv c d.
Hypothesis Hnf : Forall unforced s.       (* dependency readings are not forced *)
Hypothesis Ht : trace_sat reply_ok (step c s d).

Lemma unforced_fd : forall x, unforced (AReply (RDep x)) -> False.
Proof. intros x H. exact (H x eq_refl). Qed.

Lemma dep_step_all : forall g, pv c d = render c g -> wf_ghost c g ->
  Forall (fun e => Inv c False Tr Tr2 Tr1 TrG g (outside c d) d (snd e)) (r_trace (step c s d))
  /\ Inv c False Tr Tr2 Tr1 TrG g (outside c d) d (r_db (step c s d))
  /\ forall o, r_out (step c s d) = Fin o ->
               Qstep c reply_ok False Tr Tr2 Tr1 TrG g d o (r_db (step c s d)) (r_cs (step c s d)).
Proof.
  intros g Hpv Hw.
  exact (step_all c reply_ok unforced False Tr Tr2 Tr1 TrG Hc (fun _ _ H => H) (fun _ _ _ => forall_true _)
                  (fun _ _ _ => I) (fun _ _ _ _ => I) unforced_fd (fun _ _ _ _ _ _ _ _ _ _ _ _ _ => I)
                  g d s Hpv (W_true c g Hw) Hnf Ht).
Qed.

(* whenever the step commits a new batch, every referenced integration had a
   committed cursor at or beyond every block of that batch *)
Lemma dep_bounded : t_deps c <> [] -> r_out (step c s d) = Fin OConverged ->
  exists p q bs dn dh,
    pv c d = render c (p ++ q) /\ pv c (r_db (step c s d)) = render c (p ++ [bs]) /\ bs <> []
    /\ dep_query (t_src c) (t_deps c) (d_curs d) = Some (dn, dh, ndeps c)
    /\ (forall x, In x bs -> b_num x <= dn)
    /\ (forall R, In R (t_deps c) ->
          exists n h, newest (t_src c) R (d_curs d) = Some (n, h) /\ dn <= n).
Proof.
  intros Hd Ho. destruct Hi as (g & Hpv & Hw).
  destruct (step_converged c reply_ok unforced False Tr Tr2 Tr1 TrG Hc (fun _ _ H => H) (fun _ _ _ => forall_true _)
              (fun _ _ _ => I) (fun _ _ _ _ => I) unforced_fd (fun _ _ _ _ _ _ _ _ _ _ _ _ _ => I)
              g d s Hpv (W_true c g Hw) Hnf Ht Ho)
    as (p & q & bs & ln & lh & Eg & _ & Hp & _ & _ & _ & Hne & _ & Hdep).
  destruct bs as [|b0 bs']; [congruence|].
  inversion Hdep as [|? ? Hb0 _]; subst.
  destruct Hb0 as [[]|[E|(dn & dh & Eq & _)]]; [congruence|].
  exists p, q, (b0 :: bs'), dn, dh. split; [exact Hpv|]. split; [exact Hp|]. split; [discriminate|].
  split; [exact Eq|]. split.
  - intros x Hx. rewrite Forall_forall in Hdep. destruct (Hdep x Hx) as [[]|[E|(dn' & dh' & Eq' & L)]]; [congruence|].
    rewrite Eq in Eq'. inversion Eq'; subst. exact L.
  - intros R HR. apply (dep_query_full (t_src c) (t_deps c) (d_curs d) dn dh Eq R HR).
Qed.

(* if some referenced integration has no cursor the step commits nothing *)
Lemma dep_unstarted : forall R, In R (t_deps c) -> newest (t_src c) R (d_curs d) = None ->
  Forall (fun e => snd e = d) (r_trace (step c s d))
  /\ r_db (step c s d) = d
  /\ r_out (step c s d) <> Fin OConverged.
Proof.
  intros R HR Hn. destruct Hi as (g & Hpv & Hw).
  destruct (dep_step_all g Hpv Hw) as (A & B & C).
  assert (Hns : ~ dstarted c False d).
  { intros [[]|[E|(dn & dh & Eq)]]; [rewrite E in HR; destruct HR|].
    destruct (dep_query_full _ _ _ _ _ Eq R HR) as (n & h & E & _). congruence. }
  split; [|split].
  - eapply Forall_impl; [|exact A]. cbn. intros e (_ & _ & [E|E]); [exact E|contradiction].
  - destruct B as (_ & _ & [E|E]); [exact E|contradiction].
  - intros Ho. destruct (C _ Ho) as (_ & Hadv & _).
    destruct (Hadv eq_refl) as (p & bs & _ & Hnew & _). apply Hns. eapply newb_started. exact Hnew.
Qed.
End Dep.

(* reads inside the dependent's transaction see the referenced pair exactly as
   committed, and by TaskInv of the referenced task that is the complete
   projection of its indexed blocks up to its cursor *)
Lemma dep_lookup : forall c cR d ws,
  Forall (own_wop c) ws -> (t_src c, t_ig c) <> (t_src cR, t_ig cR) -> TaskInv cR d ->
  exists gR, pv cR (vis d (Some ws)) = render cR gR /\ wf_ghost cR gR
             /\ newest (t_src cR) (t_ig cR) (d_curs (vis d (Some ws))) = gpos gR.
Proof.
  intros c cR d ws Hown Hne (gR & Hpv & Hw). exists gR. cbn [vis].
  assert (E : pv cR (apply_ws ws d) = pv cR d).
  { unfold pv. apply (restrict_apply_ws_own c ws d _ _ Hown Hne). }
  split; [rewrite E; exact Hpv|]. split; [exact Hw|].
  rewrite <- newest_pv, E, Hpv. apply newest_render. exact Hw.
Qed.
