(* Proofs about part (ii) of Model/Manager.v: the Run/Restart/runTask machine (C20). *)
From Coq Require Import List Arith PeanoNat NArith Bool Lia.
From Shovel Require Import Base.Outcome Model.Manager.
Import ListNotations.

(* ---------------------------------------------------------------- lists *)

Lemma nth_upd_eq : forall {A} (l : list A) i x y, nth_error l i = Some y -> nth_error (upd l i x) i = Some x.
Proof.
  intros A l. induction l as [|a l IH]; intros [|i] x y H; simpl in *; try discriminate; [reflexivity|].
  apply (IH _ _ _ H).
Qed.
Lemma nth_upd_neq : forall {A} (l : list A) i j x, i <> j -> nth_error (upd l i x) j = nth_error l j.
Proof.
  intros A l. induction l as [|a l IH]; intros [|i] [|j] x H; simpl; try reflexivity; try congruence.
  apply IH. congruence.
Qed.
Lemma upd_length : forall {A} (l : list A) i x, List.length (upd l i x) = List.length l.
Proof. intros A l. induction l as [|a l IH]; intros [|i] x; simpl; try reflexivity. rewrite IH. reflexivity. Qed.
Lemma nth_upd_cases : forall {A} (l : list A) i j x y,
  nth_error (upd l i x) j = Some y -> (j = i /\ y = x) \/ (j <> i /\ nth_error l j = Some y).
Proof.
  intros A l i j x y H. destruct (Nat.eq_dec i j) as [E | N].
  - subst j. left. split; [reflexivity|].
    destruct (nth_error l i) as [z|] eqn:Hz.
    + rewrite (nth_upd_eq _ _ _ _ Hz) in H. congruence.
    + exfalso. assert (Hl : nth_error (upd l i x) i <> None) by congruence.
      apply nth_error_Some in Hl. rewrite upd_length in Hl. apply nth_error_None in Hz. lia.
  - right. split; [congruence|]. rewrite nth_upd_neq in H by exact N. exact H.
Qed.
Lemma nth_snoc_cases : forall {A} (l : list A) x j y,
  nth_error (l ++ [x]) j = Some y -> nth_error l j = Some y \/ (j = List.length l /\ y = x).
Proof.
  intros A l x j y H. destruct (Nat.lt_ge_cases j (List.length l)) as [Hlt | Hge].
  - left. rewrite nth_error_app1 in H by exact Hlt. exact H.
  - right. rewrite nth_error_app2 in H by exact Hge.
    destruct (j - List.length l) as [|k] eqn:Hk; simpl in H.
    + inversion H. split; [lia | reflexivity].
    + destruct k; discriminate.
Qed.
Lemma nth_snoc_old : forall {A} (l : list A) x j y, nth_error l j = Some y -> nth_error (l ++ [x]) j = Some y.
Proof.
  intros A l x j y H. rewrite nth_error_app1; [exact H|]. apply nth_error_Some. congruence.
Qed.
Lemma nth_app_repeat_cases : forall {A} (l : list A) a n j y,
  nth_error (l ++ repeat a n) j = Some y -> nth_error l j = Some y \/ (List.length l <= j /\ y = a).
Proof.
  intros A l a n j y H. destruct (Nat.lt_ge_cases j (List.length l)) as [Hlt | Hge].
  - left. rewrite nth_error_app1 in H by exact Hlt. exact H.
  - right. rewrite nth_error_app2 in H by exact Hge. apply nth_error_In in H. apply repeat_spec in H.
    split; [exact Hge | exact H].
Qed.
Lemma nth_app_old : forall {A} (l l' : list A) j y, nth_error l j = Some y -> nth_error (l ++ l') j = Some y.
Proof. intros A l l' j y H. rewrite nth_error_app1; [exact H|]. apply nth_error_Some. congruence. Qed.

(* ---------------------------------------------------------------- the structural invariant *)

Definition holding (p : rpc) : bool := match p with RWaitLock | RDone => false | _ => true end.
Definition has_tasks (p : rpc) : bool := match p with RWait | RDone => true | _ => false end.

Record Inv (s : state) : Prop := {
  (* a Run that is past Lock() and has not returned owns the lock *)
  I_hold : forall r x, nth_error (runs s) r = Some x -> holding (r_pc x) = true -> lock s = Some r;
  I_lock : forall h, lock s = Some h -> exists x, nth_error (runs s) h = Some x /\ holding (r_pc x) = true;
  (* a task belongs to a Run that has spawned; a live task to a Run sitting in wg.Wait() *)
  I_task : forall t g, nth_error (tasks s) t = Some g ->
           exists x, nth_error (runs s) (g_gen g) = Some x /\ has_tasks (r_pc x) = true
                     /\ (live g = true -> r_pc x = RWait)
}.

Lemma inv_ext : forall s s', lock s' = lock s -> runs s' = runs s -> tasks s' = tasks s -> Inv s -> Inv s'.
Proof.
  intros s s' Hl Hr Ht [H1 H2 H3]. constructor; rewrite ?Hl, ?Hr, ?Ht; assumption.
Qed.

Lemma inv_init : Inv init.
Proof.
  constructor; simpl.
  - intros [|r] x H Hh; simpl in H; [inversion H; subst; discriminate | destruct r; discriminate].
  - intros h H. discriminate.
  - intros [|t] g H; discriminate.
Qed.

(* a Run that owns the lock moves between two pre-spawn program points *)
Lemma inv_move : forall s s' r x x',
  Inv s -> nth_error (runs s) r = Some x ->
  runs s' = upd (runs s) r x' -> tasks s' = tasks s -> lock s' = lock s ->
  holding (r_pc x) = true -> holding (r_pc x') = true ->
  has_tasks (r_pc x) = false -> has_tasks (r_pc x') = false ->
  Inv s'.
Proof.
  intros s s' r x x' [H1 H2 H3] Hx Hr Ht Hl Hh Hh' Hn Hn'.
  pose proof (H1 _ _ Hx Hh) as Hlock.
  constructor; rewrite ?Hr, ?Ht, ?Hl.
  - intros r0 x0 H0 Hh0. apply nth_upd_cases in H0. destruct H0 as [[E _] | [N H0]].
    + subst r0. exact Hlock.
    + apply (H1 _ _ H0 Hh0).
  - intros h Hlk. destruct (Nat.eq_dec h r) as [E | N].
    + subst h. exists x'. split; [apply (nth_upd_eq _ _ _ _ Hx) | exact Hh'].
    + destruct (H2 _ Hlk) as [y [Hy Hhy]]. exists y. split; [rewrite nth_upd_neq by congruence; exact Hy | exact Hhy].
  - intros t g Hg. destruct (H3 _ _ Hg) as [y [Hy [Hty Hly]]].
    assert (Hne : g_gen g <> r) by (intro E; rewrite E in Hy; rewrite Hx in Hy; inversion Hy; subst; congruence).
    exists y. split; [rewrite nth_upd_neq by congruence; exact Hy | split; assumption].
Qed.

Lemma all_exited_spec : forall s r, all_exited s r = true ->
  forall t g, nth_error (tasks s) t = Some g -> g_gen g = r -> live g = false.
Proof.
  intros s r H t g Hg Hr. unfold all_exited in H. rewrite forallb_forall in H.
  specialize (H g (nth_error_In _ _ Hg)). rewrite Hr, Nat.eqb_refl in H. simpl in H.
  unfold live. destruct (g_pc g); try discriminate. reflexivity.
Qed.

Lemma inv_step : forall v s a, Inv s -> Inv (step v s a).
Proof.
  intros v s a HI. unfold step. destruct (crashed s); [exact HI|].
  destruct a as [| |k|k|r|r|r res|r|r|r|t|t dn].
  - (* AStore *) apply (inv_ext s); try reflexivity. exact HI.
  - (* ACallRestart *) apply (inv_ext s); try reflexivity. exact HI.
  - (* ARestartClose *)
    destruct (nth_error (rsts s) k) as [[[| |] kv]|]; try exact HI.
    assert (Hgrow : forall s', lock s' = lock s -> tasks s' = tasks s ->
                     runs s' = runs s ++ [new_run s true] -> Inv s').
    { intros s' Hl Ht Hr. destruct HI as [H1 H2 H3]. constructor; rewrite ?Hl, ?Ht, ?Hr.
      - intros r0 x0 H0 Hh0. apply nth_snoc_cases in H0. destruct H0 as [H0 | [_ E]].
        + apply (H1 _ _ H0 Hh0).
        + subst x0. discriminate.
      - intros h Hlk. destruct (H2 _ Hlk) as [y [Hy Hhy]]. exists y. split; [apply nth_snoc_old; exact Hy | exact Hhy].
      - intros t g Hg. destruct (H3 _ _ Hg) as [y [Hy Hrest]]. exists y. split; [apply nth_snoc_old; exact Hy | exact Hrest]. }
    destruct v; destruct (is_closed s (cur s)); try (apply Hgrow; reflexivity).
    apply (inv_ext s); try reflexivity. exact HI.
  - (* ARestartReturn *)
    destruct (nth_error (rsts s) k) as [[[|r|] kv]|]; try exact HI.
    destruct (nth_error (runs s) r) as [x|]; try exact HI.
    destruct (r_ec x); try exact HI. apply (inv_ext s); try reflexivity. exact HI.
  - (* ALock *)
    destruct (lock s) eqn:Hlk; [exact HI|].
    destruct (nth_error (runs s) r) as [x|] eqn:Hx; [|exact HI].
    destruct (r_pc x) eqn:Hpc; try exact HI.
    destruct HI as [H1 H2 H3]. constructor; simpl.
    + intros r0 x0 H0 Hh0. apply nth_upd_cases in H0. destruct H0 as [[E _] | [N H0]]; [subst; reflexivity|].
      specialize (H1 _ _ H0 Hh0). congruence.
    + intros h Hh. inversion Hh; subst h. eexists. split; [apply (nth_upd_eq _ _ _ _ Hx)|]. destruct v; reflexivity.
    + intros t g Hg. destruct (H3 _ _ Hg) as [y [Hy [Hty Hly]]].
      assert (Hne : g_gen g <> r) by (intro E; rewrite E in Hy; rewrite Hx in Hy; inversion Hy; subst; rewrite Hpc in Hty; discriminate).
      exists y. split; [rewrite nth_upd_neq by congruence; exact Hy | split; assumption].
  - (* AReplace *)
    destruct (nth_error (runs s) r) as [x|] eqn:Hx; [|exact HI].
    cbv zeta. destruct v; destruct (r_pc x) eqn:Hpc; try exact HI;
      destruct (replace_chan _ s x) as [w cl];
      (eapply (inv_move s _ r x); [exact HI | exact Hx | reflexivity | reflexivity | reflexivity | | | | ]); rewrite ?Hpc; reflexivity.
  - (* ALoad *)
    destruct (nth_error (runs s) r) as [x|] eqn:Hx; [|exact HI].
    destruct (r_pc x) eqn:Hpc; try exact HI.
    (eapply (inv_move s _ r x); [exact HI | exact Hx | reflexivity | reflexivity | reflexivity | | | | ]);
      rewrite ?Hpc; simpl; try reflexivity; destruct res; reflexivity.
  - (* ASignal *)
    destruct (nth_error (runs s) r) as [x|] eqn:Hx; [|exact HI].
    destruct (r_pc x) eqn:Hpc; try exact HI;
      (eapply (inv_move s _ r x); [exact HI | exact Hx | reflexivity | reflexivity | reflexivity | | | | ]);
      rewrite ?Hpc; simpl; try reflexivity; destruct v; reflexivity.
  - (* ASpawn *)
    destruct (nth_error (runs s) r) as [x|] eqn:Hx; [|exact HI].
    destruct (r_pc x) eqn:Hpc; try exact HI.
    destruct HI as [H1 H2 H3].
    assert (Hlock : lock s = Some r) by (apply (H1 _ _ Hx); rewrite Hpc; reflexivity).
    constructor; simpl.
    + intros r0 x0 H0 Hh0. apply nth_upd_cases in H0. destruct H0 as [[E _] | [N H0]]; [subst; exact Hlock|].
      apply (H1 _ _ H0 Hh0).
    + intros h Hh. rewrite Hlock in Hh. inversion Hh; subst h. eexists. split; [apply (nth_upd_eq _ _ _ _ Hx) | reflexivity].
    + intros t g Hg. apply nth_app_repeat_cases in Hg. destruct Hg as [Hg | [_ Hg]].
      * destruct (H3 _ _ Hg) as [y [Hy [Hty Hly]]].
        assert (Hne : g_gen g <> r) by (intro E; rewrite E in Hy; rewrite Hx in Hy; inversion Hy; subst; rewrite Hpc in Hty; discriminate).
        exists y. split; [rewrite nth_upd_neq by congruence; exact Hy | split; assumption].
      * subst g. simpl. eexists. split; [apply (nth_upd_eq _ _ _ _ Hx)|]. split; reflexivity.
  - (* AUnlock *)
    destruct (nth_error (runs s) r) as [x|] eqn:Hx; [|exact HI].
    assert (Hrel : holding (r_pc x) = true ->
                   (forall t g, nth_error (tasks s) t = Some g -> g_gen g = r -> live g = false) ->
                   Inv {| lock := None; cur := cur s; nch := nch s; closed := closed s; waiting := waiting s;
                          crashed := false; ver := ver s; lv := lv s;
                          runs := upd (runs s) r (with_pc x RDone); rsts := rsts s; tasks := tasks s |}).
    { intros Hh Hex. destruct HI as [H1 H2 H3].
      assert (Hlock : lock s = Some r) by (apply (H1 _ _ Hx Hh)).
      constructor; simpl.
      - intros r0 x0 H0 Hh0. apply nth_upd_cases in H0. destruct H0 as [[_ E] | [N H0]]; [subst; discriminate|].
        specialize (H1 _ _ H0 Hh0). congruence.
      - intros h Hh'. discriminate.
      - intros t g Hg. destruct (H3 _ _ Hg) as [y [Hy [Hty Hly]]].
        destruct (Nat.eq_dec (g_gen g) r) as [E | N].
        + rewrite E. eexists. split; [apply (nth_upd_eq _ _ _ _ Hx)|]. split; [reflexivity|].
          intro Hlive. rewrite (Hex _ _ Hg E) in Hlive. discriminate.
        + exists y. split; [rewrite nth_upd_neq by congruence; exact Hy | split; assumption]. }
    destruct (r_pc x) eqn:Hpc; try exact HI.
    + destruct (all_exited s r) eqn:Hall; [|exact HI]. apply Hrel; [reflexivity|]. apply all_exited_spec. exact Hall.
    + apply Hrel; [reflexivity|]. intros t g Hg E. destruct HI as [_ _ H3].
      destruct (H3 _ _ Hg) as [y [Hy [Hty _]]]. rewrite E, Hx in Hy. inversion Hy; subst y. rewrite Hpc in Hty. discriminate.
  - (* ATaskCheck *)
    destruct (nth_error (tasks s) t) as [[g [| |]]|] eqn:Hg; try exact HI.
    destruct HI as [H1 H2 H3]. constructor; simpl; try assumption.
    intros t0 g0 H0. apply nth_upd_cases in H0. destruct H0 as [[_ E] | [N H0]]; [|apply (H3 _ _ H0)].
    subst g0. simpl. destruct (H3 _ _ Hg) as [y [Hy [Hty Hly]]]. simpl in *.
    exists y. split; [exact Hy|]. split; [exact Hty|]. intros _. apply Hly. reflexivity.
  - (* ATaskStep *)
    destruct (nth_error (tasks s) t) as [[g [| |]]|] eqn:Hg; try exact HI.
    destruct HI as [H1 H2 H3]. constructor; simpl; try assumption.
    intros t0 g0 H0. apply nth_upd_cases in H0. destruct H0 as [[_ E] | [N H0]]; [|apply (H3 _ _ H0)].
    subst g0. simpl. destruct (H3 _ _ Hg) as [y [Hy [Hty Hly]]]. simpl in *.
    exists y. split; [exact Hy|]. split; [exact Hty|]. intros _. apply Hly. reflexivity.
Qed.

Lemma inv_exec : forall v sched s, Inv s -> Inv (exec v s sched).
Proof.
  intros v sched. induction sched as [|a sched IH]; intros s H; simpl; [exact H|].
  apply IH. apply inv_step. exact H.
Qed.

Lemma inv_reachable : forall v sched, Inv (exec v init sched).
Proof. intros. apply inv_exec. apply inv_init. Qed.

(* ---------------------------------------------------------------- exclusivity *)

(* Over ALL schedules (both variants): every task that has not returned
   belongs to the one Run that owns tm.running and sits in wg.Wait(); so the
   tasks of at most one generation run. *)
Lemma generations_exclusive_l : forall v sched,
  let s := exec v init sched in
  (forall t g, nth_error (tasks s) t = Some g -> live g = true ->
     lock s = Some (g_gen g)
     /\ exists x, nth_error (runs s) (g_gen g) = Some x /\ r_pc x = RWait)
  /\ (forall t1 g1 t2 g2, nth_error (tasks s) t1 = Some g1 -> nth_error (tasks s) t2 = Some g2 ->
        live g1 = true -> live g2 = true -> g_gen g1 = g_gen g2).
Proof.
  intros v sched s. pose proof (inv_reachable v sched) as [H1 H2 H3]. fold s in H1, H2, H3.
  assert (HA : forall t g, nth_error (tasks s) t = Some g -> live g = true ->
     lock s = Some (g_gen g) /\ exists x, nth_error (runs s) (g_gen g) = Some x /\ r_pc x = RWait).
  { intros t g Hg Hl. destruct (H3 _ _ Hg) as [y [Hy [_ Hw]]]. specialize (Hw Hl). split.
    - apply (H1 _ _ Hy). rewrite Hw. reflexivity.
    - exists y. split; assumption. }
  split; [exact HA|].
  intros t1 g1 t2 g2 Hg1 Hg2 Hl1 Hl2. destruct (HA _ _ Hg1 Hl1) as [E1 _]. destruct (HA _ _ Hg2 Hl2) as [E2 _].
  congruence.
Qed.

(* a new generation is loaded (and started) only after every runner of every
   other generation has returned: whenever a Run is anywhere between Lock()
   and starting its tasks, no task at all is live *)
Lemma load_only_after_previous_returned_l : forall v sched r x,
  let s := exec v init sched in
  nth_error (runs s) r = Some x -> holding (r_pc x) = true -> r_pc x <> RWait ->
  forall t g, nth_error (tasks s) t = Some g -> live g = false.
Proof.
  intros v sched r x s Hx Hh Hnw t g Hg. pose proof (inv_reachable v sched) as [H1 H2 H3]. fold s in H1, H2, H3.
  destruct (live g) eqn:Hl; [|reflexivity]. exfalso.
  destruct (H3 _ _ Hg) as [y [Hy [_ Hw]]]. specialize (Hw Hl).
  assert (E1 : lock s = Some (g_gen g)) by (apply (H1 _ _ Hy); rewrite Hw; reflexivity).
  assert (E2 : lock s = Some r) by (apply (H1 _ _ Hx Hh)).
  rewrite E1 in E2. inversion E2; subst r. rewrite Hx in Hy. inversion Hy; subst y. contradiction.
Qed.
