(* C15 — assembly: the statements of Properties/C15.v for the regenerated
   tables, and the fact that the text of every statement is built from code
   literals and configuration positions only. *)
From Coq Require Import List NArith Bool String Ascii Lia.
From Shovel Require Import Base.Outcome Model.Config Model.Sql Proofs.ConfigP Proofs.SqlP.
Import ListNotations.
Open Scope N_scope.

(* a classification under which every string is safe: used only to read off
   the labels of the splices of an arbitrary configuration *)
Definition U_all : uni := {| is_letter := fun _ => true; is_digit := fun _ => true |}.
Lemma safe_all : forall s, safe U_all s = true.
Proof. intros s. unfold safe. apply forallb_forall. intros. reflexivity. Qed.
Lemma idx_ok_all : forall s, idx_ok U_all s = true.
Proof. intros. apply safe_all. Qed.
Lemma Forall_trivial : forall {A} (P : A -> Prop) (l : list A), (forall x, P x) -> Forall P l.
Proof. intros. apply Forall_forall. auto. Qed.
Lemma SafeIg_all : forall g, SafeIg U_all g.
Proof.
  intros g. repeat split; try apply safe_all.
  - apply Forall_trivial. intros c. split; apply safe_all.
  - apply Forall_trivial. intros l. apply Forall_trivial. intros. apply safe_all.
  - apply Forall_trivial. intros l. apply Forall_trivial. intros. apply idx_ok_all.
  - apply Forall_trivial. intros i. split; apply safe_all.
  - apply Forall_trivial. intros b. split; apply safe_all.
Qed.
Lemma SafeCfg_all : forall c, SafeCfg U_all c.
Proof.
  intros c. split; [apply Forall_trivial; intros; apply safe_all|apply Forall_trivial; apply SafeIg_all].
Qed.

(* every piece of every statement, for ANY configuration: a code literal or a
   configuration position listed in [spliced] — never chain data *)
Lemma pieces_from_config_file : forall res ver c st pc,
  In st (all_sql_file res ver c) -> In pc (st_text st) ->
  match pc with Lit _ => True | Splice p _ => In p spliced_paths end.
Proof.
  intros res ver c st pc Hst Hpc. destruct pc as [s|p v]; [exact I|].
  exact (proj2 (stmt_ok_splice U_all _ _ _ _ (all_sql_file_ok U_all res ver c (SafeCfg_all c)) Hst Hpc)).
Qed.
Lemma pieces_from_config_dash : forall ver srcs g st pc,
  In st (all_sql_dash ver srcs g) -> In pc (st_text st) ->
  match pc with Lit _ => True | Splice p _ => In p spliced_paths end.
Proof.
  intros ver srcs g st pc Hst Hpc. destruct pc as [s|p v]; [exact I|].
  refine (proj2 (stmt_ok_splice U_all _ _ _ _ (all_sql_dash_ok U_all ver srcs g _ (SafeIg_all g)) Hst Hpc)).
  apply Forall_trivial. intros. apply safe_all.
Qed.

(* sources added through the dashboard: accepted by SaveSource => safe *)
Lemma dash_sources_splices_safe : forall U checked ver srcs g,
  check_paths checked spliced = true ->
  check_user_input U checked (root_of g) = true -> Forall (fun s => save_source_ok U s = true) srcs ->
  forall st p v, In st (all_sql_dash ver srcs g) -> In (Splice p v) (st_text st) ->
  safe U v = true /\ In p spliced_paths.
Proof.
  intros U checked ver srcs g Hcp Hcu Hs. apply (dash_splices_safe U checked ver srcs g Hcp Hcu).
  apply Forall_forall. intros s Hin. rewrite Forall_forall in Hs. specialize (Hs s Hin).
  unfold save_source_ok in Hs. apply andb_true_iff in Hs as [_ H]. exact H.
Qed.
Lemma save_source_rejects_unsafe : forall U name, safe U name = false -> save_source_ok U name = false.
Proof. intros U name H. unfold save_source_ok. rewrite H. apply andb_false_r. Qed.
