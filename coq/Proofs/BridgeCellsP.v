(* Bridge client -> plan -> rows (Model/BridgeCells.v for the vocabulary).
   CEP: Client.get against an honest reply family delivers, component by
   component, the node's values (invariant of the attach phase).
   CFP: the field-level reading, composition with C14's [filled] and with
   C11/C14's [stored_block_cells_are_fetched]. *)
From Coq Require Import String List NArith ZArith Bool Arith Lia ZifyBool ZifyN ZifyNat.
From Shovel Require Import Base.Outcome.
From Shovel Require Model.Client Model.ClientSpec Model.CacheClient Proofs.ClientP Proofs.CacheClientP Proofs.C07P
  Model.BridgeCacheRows Proofs.BridgeCacheRowsP.
From Shovel Require Import Model.BridgeCells.
Import ListNotations.
Open Scope N_scope.
Arguments N.add : simpl never.
Arguments N.sub : simpl never.

Module CEP.
Import Client ClientSpec CacheClient ClientP CacheClientP.
Import BridgeCacheRows.CR CE.
Module B := BridgeCacheRowsP.B.

(* ---------- Block.Tx ---------- *)
Lemma upd_txs_sharp : forall txs idx f t', In t' (upd_txs txs idx f) ->
  In t' txs \/ (exists t0, In t0 txs /\ t_idx t0 = idx /\ t' = f t0)
  \/ ((forall t, In t txs -> t_idx t <> idx) /\ t' = f (new_tx idx)).
Proof.
  induction txs as [|x r IH]; simpl; intros idx f t' H.
  - destruct H as [H|[]]. right. right. split; [intros t []|auto].
  - destruct (t_idx x =? idx) eqn:E.
    + apply N.eqb_eq in E. destruct H as [H|H]; [|left; right; exact H]. right. left. exists x. auto.
    + apply N.eqb_neq in E. destruct H as [H|H]; [left; left; exact H|].
      destruct (IH _ _ _ H) as [H1|[[t0 [H1 [H2 H3]]]|[H1 H2]]].
      * left. right. exact H1.
      * right. left. exists t0. auto.
      * right. right. split; [|exact H2]. intros t [<-|Ht]; [exact E|apply H1; exact Ht].
Qed.

Lemma upd_txs_keeps_idx : forall txs idx f, (forall t, In t txs -> t_idx t = idx -> t_idx (f t) = idx) ->
  forall t, In t txs -> exists t', In t' (upd_txs txs idx f) /\ t_idx t' = t_idx t.
Proof.
  induction txs as [|x r IH]; simpl; intros idx f Hf t Ht; [contradiction|].
  destruct (t_idx x =? idx) eqn:E.
  - apply N.eqb_eq in E. destruct Ht as [<-|Ht].
    + exists (f x). split; [left; reflexivity|]. rewrite Hf; auto.
    + exists t. split; [right; exact Ht|reflexivity].
  - destruct Ht as [<-|Ht]; [exists x; split; [left|]; reflexivity|].
    destruct (IH idx f (fun t0 H0 => Hf t0 (or_intror H0)) t Ht) as [t' [H1 H2]].
    exists t'. split; [right; exact H1|exact H2].
Qed.

Lemma upd_txs_inv kB kR ctxs ct idx f :
  NoDup (map t_idx ctxs) -> In ct ctxs -> t_idx ct = idx ->
  (forall t, t_idx t = idx -> tx_part ct t -> tx_sub ct (f t)) ->
  (forall t, tx_w kB kR ct t -> tx_w kB kR ct (f t)) ->
  forall txs, txs_inv kB kR ctxs txs -> txs_inv kB kR ctxs (upd_txs txs idx f).
Proof.
  intros Hnd Hct Hidx Hs Hw txs (Hsub & Hall & Hwr).
  destruct (B.upd_txs_sub ctxs ct idx f Hnd Hct Hidx Hs txs Hsub) as [Hsub' _].
  assert (Hfi : forall t, In t txs -> t_idx t = idx -> t_idx (f t) = idx).
  { intros t Ht Hi. destruct Hsub as [_ Ha]. destruct (Ha t Ht) as (ct' & Hc' & Hi' & _ & Hp).
    assert (ct' = ct) by (apply (B.nodup_key_inj t_idx ctxs); auto; congruence). subst ct'.
    destruct (Hs t Hi Hp) as [E _]. congruence. }
  split; [exact Hsub'|]. split.
  - intros Hk c Hc. destruct (Hall Hk c Hc) as (t & Ht & Hi).
    destruct (upd_txs_keeps_idx txs idx f Hfi t Ht) as (t' & Ht' & Hi'). exists t'. split; [exact Ht'|congruence].
  - intros t' c Ht' Hc Hi. destruct (upd_txs_sharp _ _ _ _ Ht') as [H|[(t0 & H0 & Hi0 & ->)|(Hno & ->)]].
    + apply Hwr; assumption.
    + assert (c = ct). { apply (B.nodup_key_inj t_idx ctxs); auto. rewrite <- Hi. rewrite Hfi; auto. } subst c.
      apply Hw. apply Hwr; auto. congruence.
    + destruct (kB || kR) eqn:K.
      * exfalso. destruct (Hall eq_refl ct Hct) as (t & Ht & Hi2). apply (Hno t Ht). congruence.
      * apply orb_false_iff in K. destruct K as [-> ->]. split; intros; discriminate.
Qed.

Lemma fold_upd_inv {X} kB kR ctxs (idx : X -> N) (F : X -> tx -> tx) :
  NoDup (map t_idx ctxs) -> forall xs,
  (forall x, In x xs -> exists ct, In ct ctxs /\ t_idx ct = idx x
      /\ (forall t, t_idx t = idx x -> tx_part ct t -> tx_sub ct (F x t))
      /\ (forall t, tx_w kB kR ct t -> tx_w kB kR ct (F x t))) ->
  forall txs, txs_inv kB kR ctxs txs ->
    txs_inv kB kR ctxs (fold_left (fun txs x => upd_txs txs (idx x) (F x)) xs txs).
Proof.
  intros Hnd. induction xs as [|x r IH]; intros Hx txs Hi; simpl; [exact Hi|].
  apply IH; [intros y Hy; apply Hx; right; exact Hy|].
  destruct (Hx x (or_introl eq_refl)) as (ct & Hc & Hix & Hs & Hw).
  apply (upd_txs_inv kB kR ctxs ct (idx x) (F x) Hnd Hc Hix Hs Hw txs Hi).
Qed.

(* ---------- one block ---------- *)
Lemma blk_inv_upd kH kB kR cb b h txs' :
  blk_inv kH kB kR cb b -> h = b_hash cb -> txs_inv kB kR (b_txs cb) txs' ->
  blk_inv kH kB kR cb (with_txs (with_hash b h) txs').
Proof.
  intros (_ & _ & Hp) Eh Ht. split; [exact Ht|]. split; [left; exact Eh|exact Hp].
Qed.

(* the hash setHash ends with is the node's, when every item names the node's hash *)
Lemma honest_hash nch cb b h hs :
  nch_wf nch -> nth_error nch (N.to_nat (b_num b)) = Some cb -> hs <> [] ->
  (forall x, In x hs -> x = b_hash cb) ->
  (forall x, In x hs -> x = h \/ (x = [] /\ b_hash b = [])) -> h = b_hash cb.
Proof.
  intros [_ Hnum] Hc Hne Hall H3. destruct hs as [|x0 r]; [contradiction|].
  pose proof (Hall x0 (or_introl eq_refl)) as E. destruct (H3 x0 (or_introl eq_refl)) as [E1|[E1 _]]; [congruence|].
  exfalso. apply (proj2 (Hnum _ _ Hc)). congruence.
Qed.

Lemma rcpt_block_inv nch kH kB cb rs b b' :
  nch_wf nch -> nth_error nch (N.to_nat (b_num b)) = Some cb -> rs <> [] ->
  (forall r, In r rs -> rcpt_h nch r /\ r_bnum r = b_num b) ->
  blk_inv kH kB false cb b -> rcpt_block repaired rs b = Ok b' -> blk_inv kH kB false cb b'.
Proof.
  intros Hw Hc Hne Hrs Hinv H. pose proof Hw as [Hwf Hnum].
  unfold rcpt_block in H. apply bind_ok in H. destruct H as [b1 [Hs Hb1]].
  inversion Hb1; subst b'; clear Hb1. apply set_hashes_spec in Hs. destruct Hs as [h [-> [_ [_ H3]]]].
  rewrite attach_rcpts_eq. apply blk_inv_upd; [exact Hinv| |].
  - apply (honest_hash nch cb b h (map r_bhash rs) Hw Hc); [destruct rs; [contradiction|discriminate]| |exact H3].
    intros x Hx. apply in_map_iff in Hx. destruct Hx as (r & <- & Hr).
    destruct (Hrs r Hr) as [[_ (cb' & Hc' & Eh)] En]. rewrite En, Hc in Hc'. inversion Hc'; subst cb'. exact Eh.
  - simpl. destruct Hinv as (Ht & _ & _). destruct (Hwf cb (nth_error_In _ _ Hc)) as [Hnd Hit].
    apply (fold_upd_inv kB false (b_txs cb) r_txidx apply_rcpt Hnd); [|exact Ht].
    intros r Hr. destruct (Hrs r Hr) as [[(cb' & ct & Hc' & Hct & E1 & E2 & E3 & E4 & E5) _] En].
    rewrite En, Hc in Hc'. inversion Hc'; subst cb'. exists ct. split; [exact Hct|]. split; [auto|]. split.
    + intros t Hi (P1 & P2 & P3 & P4 & P5 & P6). destruct (Hit ct Hct) as [Hnl _].
      unfold tx_sub, tx_part, apply_rcpt; simpl. rewrite E2, E3, E4, E5.
      split; [congruence|]. split; [reflexivity|]. split; [right; reflexivity|]. split; [exact P2|].
      split; [right; reflexivity|]. split; [exact Hnl|]. split; [apply incl_refl|exact P6].
    + intros t [W1 _]. split; [|intros; discriminate]. intros K. destruct (W1 K) as [_ Wb].
      unfold apply_rcpt; simpl. split; [exact E3|exact Wb].
Qed.

Lemma log_group_inv nch kH kB cb ti g b b' :
  nch_wf nch -> nth_error nch (N.to_nat (b_num b)) = Some cb -> g <> [] ->
  (forall x, In x g -> logr_h nch x /\ lr_bnum x = b_num b /\ lr_txidx x = ti) ->
  blk_inv kH kB false cb b -> log_group repaired ti g b = Ok b' -> blk_inv kH kB false cb b'.
Proof.
  intros Hw Hc Hne Hg Hinv H. pose proof Hw as [Hwf Hnum].
  unfold log_group in H. apply bind_ok in H. destruct H as [b1 [Hs Hb1]].
  inversion Hb1; subst b'; clear Hb1. simpl in Hs. apply set_hashes_spec in Hs. destruct Hs as [h [-> [_ [_ H3]]]].
  apply blk_inv_upd; [exact Hinv| |].
  - apply (honest_hash nch cb b h (map lr_bhash g) Hw Hc); [destruct g; [contradiction|discriminate]| |exact H3].
    intros x Hx. apply in_map_iff in Hx. destruct Hx as (y & <- & Hy).
    destruct (Hg y Hy) as [[_ (cb' & Hc' & Eh)] [En _]]. rewrite En, Hc in Hc'. inversion Hc'; subst cb'. exact Eh.
  - simpl. destruct Hinv as (Ht & _ & _). destruct (Hwf cb (nth_error_In _ _ Hc)) as [Hnd Hit].
    destruct g as [|x0 g']; [contradiction|].
    destruct (Hg x0 (or_introl eq_refl)) as [[(cb' & ct & Hc' & Hct & E1 & E2 & E3) _] [En Ei]].
    rewrite En, Hc in Hc'. inversion Hc'; subst cb'.
    assert (Hall : forall x, In x (x0 :: g') -> In (lr_log x) (t_logs ct)).
    { intros x Hx. destruct (Hg x Hx) as [[(cb2 & ct2 & Hc2 & Hct2 & F1 & F2 & F3) _] [En2 Ei2]].
      rewrite En2, Hc in Hc2. inversion Hc2; subst cb2.
      assert (ct2 = ct) by (apply (B.nodup_key_inj t_idx (b_txs cb)); auto; congruence). subst ct2. exact F3. }
    apply (upd_txs_inv kB false (b_txs cb) ct ti _ Hnd Hct); [congruence| | |exact Ht].
    + intros t Hi (P1 & P2 & P3 & P4 & P5 & P6). unfold tx_sub, tx_part, with_tx_logs; simpl.
      split; [congruence|]. split; [exact E2|]. split; [exact P1|]. split; [exact P2|]. split; [exact P3|].
      split; [exact (B.logs_fold_nodup (lr_log x0 :: map lr_log g') (t_logs t) P4)|]. split; [|exact P6].
      intros y Hy. destruct (logs_fold_spec (lr_log x0 :: map lr_log g') (t_logs t)) as [F1 _].
      destruct (F1 y Hy) as [Hy1|Hy1]; [apply P5; exact Hy1|].
      change (In y (map lr_log (x0 :: g'))) in Hy1. apply in_map_iff in Hy1. destruct Hy1 as (x & <- & Hx).
      apply Hall. exact Hx.
    + intros t [W1 _]. split; [|intros; discriminate]. intros K. exact (W1 K).
Qed.

Lemma trace_block_inv nch kH kB kR cb ts b b' :
  nch_wf nch -> nth_error nch (N.to_nat (b_num b)) = Some cb -> ts <> [] ->
  (forall x, In x ts -> tracer_h nch ts x /\ tr_bnum x = b_num b) ->
  blk_inv kH kB kR cb b -> trace_block repaired ts b = Ok b' -> blk_inv kH kB kR cb b'.
Proof.
  intros Hw Hc Hne Hts Hinv H. pose proof Hw as [Hwf Hnum].
  unfold trace_block in H. apply bind_ok in H. destruct H as [b1 [Hs Hb1]].
  inversion Hb1; subst b'; clear Hb1. simpl in Hs. apply set_hashes_spec in Hs. destruct Hs as [h [-> [_ [_ H3]]]].
  rewrite attach_traces_eq. apply blk_inv_upd; [exact Hinv| |].
  - apply (honest_hash nch cb b h (map tr_bhash ts) Hw Hc); [destruct ts; [contradiction|discriminate]| |exact H3].
    intros x Hx. apply in_map_iff in Hx. destruct Hx as (y & <- & Hy).
    destruct (Hts y Hy) as [[_ (cb' & Hc' & Eh)] En]. rewrite En, Hc in Hc'. inversion Hc'; subst cb'. exact Eh.
  - simpl. destruct Hinv as (Ht & _ & _). destruct (Hwf cb (nth_error_In _ _ Hc)) as [Hnd Hit].
    apply (fold_upd_inv kB kR (b_txs cb) idxT FT Hnd); [|exact Ht].
    intros [k g] Hkg. set (kf := fun t : tracer => (b_num b, tr_txidx t)) in *.
    destruct (group_by_spec kf ts) as (_ & G2 & _). destruct (G2 k g Hkg) as [Eg Hneg].
    destruct g as [|x0 g']; [contradiction|].
    assert (Hx0 : In x0 (filter (fun x => key_eqb (kf x) k) ts)) by (rewrite <- Eg; left; reflexivity).
    apply filter_In in Hx0. destruct Hx0 as [Hin Hk]. apply key_eqb_eq in Hk.
    destruct (Hts x0 Hin) as [[(cb' & ct & Hc' & Hct & E1 & E2 & E3) _] En].
    rewrite En, Hc in Hc'. inversion Hc'; subst cb'.
    exists ct. split; [exact Hct|]. unfold idxT; simpl. split; [rewrite <- Hk; simpl; auto|]. split.
    + intros t Hi (P1 & P2 & P3 & P4 & P5 & P6). destruct (Hit ct Hct) as [_ Hnumb].
      unfold FT, tx_sub, tx_part, with_tx_traces; cbn [t_idx t_hash t_tft t_body t_rcpt t_logs t_traces snd fst hd].
      split; [rewrite Hi, <- Hk; simpl; auto|]. split; [exact E2|]. split; [exact P1|]. split; [exact P2|].
      split; [exact P3|]. split; [exact P4|]. split; [exact P5|]. right.
      rewrite Hnumb. f_equal. rewrite <- E3, Eg. f_equal.
      apply filter_ext. intros y. unfold key_eqb, kf. rewrite <- Hk. simpl. rewrite N.eqb_refl, E1. reflexivity.
    + intros t [W1 W2]. split; intros K; [exact (W1 K)|exact (W2 K)].
Qed.

(* ---------- the loops ---------- *)
Section Steps.
Variable nch : list block.
Hypothesis Hw : nch_wf nch.
Variables kH kB : bool.
Notation P kR := (on_node nch (blk_inv kH kB kR)).

Lemma receipts_elem_keeps s l i e :
  (forall rs r, re_res e = Some rs -> In r rs -> rcpt_h nch r) ->
  B.keeps (P false) (receipts_elem repaired s l i e).
Proof.
  intros He bs bs' HP H. unfold receipts_elem in H. simpl in H.
  destruct (re_res e) as [[|r0 rs]|] eqn:Er; [inversion H; subst; exact HP| |discriminate].
  destruct (forallb (fun r => r_bnum r =? s + N.of_nat i) (r0 :: rs)) eqn:Fa; [|discriminate].
  eapply B.on_block_Forall; [exact HP| |exact H]. intros b b' Hn (cb & Hc & Hb) Hrb.
  exists cb. rewrite (rcpt_block_num _ _ _ _ Hrb). split; [exact Hc|].
  eapply rcpt_block_inv; eauto; [discriminate|]. intros r Hr. split; [eapply He; eauto|].
  rewrite forallb_forall in Fa. specialize (Fa r Hr). apply N.eqb_eq in Fa. congruence.
Qed.

Lemma rsteps_keeps s l es : (forall e rs r, In e es -> re_res e = Some rs -> In r rs -> rcpt_h nch r) ->
  forall i, Forall (B.keeps (P false)) (rsteps s l i es).
Proof.
  induction es as [|e r IH]; intros He i; simpl; constructor.
  - apply receipts_elem_keeps. intros rs x. apply He. left. reflexivity.
  - apply IH. intros e0 rs x Hin. apply He. right. exact Hin.
Qed.

Lemma gsteps_keeps ok :
  (forall x, In x ok -> logr_h nch x) ->
  Forall (B.keeps (P false)) (gsteps (group_by (fun x => (lr_bnum x, lr_txidx x)) ok)).
Proof.
  intros Hok. set (kf := fun x : logr => (lr_bnum x, lr_txidx x)).
  destruct (group_by_spec kf ok) as (_ & G2 & _). unfold gsteps. apply Forall_forall.
  intros f Hf. apply in_map_iff in Hf. destruct Hf as ([k g] & <- & Hkg). simpl.
  destruct (G2 k g Hkg) as [Eg Hne]. intros bs bs' HP H.
  eapply B.on_block_Forall; [exact HP| |exact H]. intros b b' Hn (cb & Hc & Hb) Hlg.
  exists cb. rewrite (log_group_num _ _ _ _ _ Hlg). split; [exact Hc|].
  eapply log_group_inv; eauto. intros x Hx. rewrite Eg in Hx. apply filter_In in Hx. destruct Hx as [Hin Hk].
  apply key_eqb_eq in Hk. split; [apply Hok; exact Hin|]. rewrite <- Hk in *. simpl in *. auto.
Qed.

Lemma traces_elem_keeps kR s i r :
  (forall e ts x, r = RBody e -> te_res e = Some ts -> In x ts -> tracer_h nch ts x) ->
  B.keeps (P kR) (traces_elem repaired s i r).
Proof.
  intros Hr bs bs' HP H. unfold traces_elem in H. simpl in H. destruct r as [|e]; [discriminate|].
  destruct (te_err e); [discriminate|]. destruct (te_res e) as [[|t0 ts]|] eqn:Et; try discriminate.
  destruct (forallb (fun t => tr_bnum t =? s + N.of_nat i) (t0 :: ts)) eqn:Fa; [|discriminate].
  eapply B.on_block_Forall; [exact HP| |exact H]. intros b b' Hn (cb & Hc & Hb) Htb.
  exists cb. rewrite (trace_block_num _ _ _ _ Htb). split; [exact Hc|].
  eapply trace_block_inv; eauto; [discriminate|]. intros x Hx. split; [eapply Hr; eauto|].
  rewrite forallb_forall in Fa. specialize (Fa x Hx). apply N.eqb_eq in Fa. congruence.
Qed.

Lemma tsteps_keeps kR s n : forall i rs,
  (forall e ts x, In (RBody e) rs -> te_res e = Some ts -> In x ts -> tracer_h nch ts x) ->
  Forall (B.keeps (P kR)) (tsteps s i n rs).
Proof.
  induction n as [|n IH]; intros i rs Hrs; simpl; [constructor|]. destruct rs as [|r rest]; constructor.
  - intros bs bs' _ H. discriminate.
  - constructor.
  - apply traces_elem_keeps. intros e ts x ->. apply Hrs. left. reflexivity.
  - apply IH. intros e ts x Hin. apply Hrs. right. exact Hin.
Qed.

Lemma receipts_keeps s l r bs bs' :
  (forall es e rs x, r = RBody es -> In e es -> re_res e = Some rs -> In x rs -> rcpt_h nch x) ->
  Forall (P false) bs -> receipts repaired s l r bs = Ok bs' -> Forall (P false) bs'.
Proof.
  intros Hr HP H. apply receipts_p_spec in H. unfold receipts_p in H. destruct r as [|es]; [discriminate|].
  destruct (existsb re_err es); [discriminate|]. destruct (length es <? N.to_nat l)%nat; [discriminate|].
  eapply B.run_steps_keeps; [|exact HP|exact H]. apply rsteps_keeps.
  intros e rs x Hin. apply (Hr es e rs x eq_refl). eapply B.in_firstn; eauto.
Qed.

Lemma logs_keeps s l r bs bs' :
  (forall lb ls x, r = RBody lb -> lb_logs lb = Some ls -> In (Some x) ls -> logr_h nch x) ->
  Forall (P false) bs -> logs repaired s l r bs = Ok bs' -> Forall (P false) bs'.
Proof.
  intros Hl HP H. apply logs_p_spec in H. unfold logs_p in H. destruct r as [|lb]; [discriminate|].
  destruct (lb_len lb <? 2)%nat; [discriminate|].
  destruct (lb_herr lb); [discriminate|]. destruct (lb_lerr lb); [discriminate|].
  destruct (lb_hdr lb); [|discriminate].
  destruct (lb_logs lb) as [ls|] eqn:El; [|discriminate].
  destruct (hdr_skew _ _ _); [discriminate|].
  destruct (logs_scan repaired s l ls) as [okl| |] eqn:Es; try discriminate.
  eapply B.run_steps_keeps; [|exact HP|exact H]. apply gsteps_keeps.
  intros x Hx. apply (Hl lb ls x eq_refl El). destruct (logs_scan_spec _ _ _ _ Es) as [-> _].
  apply in_map. exact Hx.
Qed.

Lemma traces_keeps kR s l rs bs bs' :
  (forall e ts x, In (RBody e) rs -> te_res e = Some ts -> In x ts -> tracer_h nch ts x) ->
  Forall (P kR) bs -> traces repaired s l rs bs = Ok bs' -> Forall (P kR) bs'.
Proof.
  intros Ht HP H. apply traces_p_spec in H. unfold traces_p in H.
  eapply B.run_steps_keeps; [|exact HP|exact H]. apply tsteps_keeps. exact Ht.
Qed.

(* after the receipts stage every delivered transaction carries its receipt *)
Lemma receipts_upgrade s l w base mid :
  numbered s base -> length base = N.to_nat l -> receipts repaired s l (w_receipts w) base = Ok mid ->
  (forall es e rs r, w_receipts w = RBody es -> In e es -> re_res e = Some rs -> In r rs -> rcpt_h nch r) ->
  rcpts_all nch s l w ->
  Forall (P false) mid -> Forall (P true) mid.
Proof.
  intros Hn Hlen H Hon Hall HP. pose proof Hw as [Hwf Hnum].
  destruct (receipts_top_spec _ _ _ _ _ Hn Hlen H) as (Hnm & Hlm & es & Er & _ & _ & Hel).
  rewrite Forall_forall in *. intros b' Hb'. destruct (HP b' Hb') as (cb & Hc & (Ht & Hh & Hp)).
  exists cb. split; [exact Hc|]. split; [|split; assumption].
  apply In_nth_error in Hb'. destruct Hb' as [i Hi].
  assert (Hlt : (i < N.to_nat l)%nat) by (rewrite <- Hlen, <- Hlm; apply nth_error_Some; congruence).
  destruct (Hel i Hlt) as (e & He & _ & rs & Ers & Hbn & _ & Hcons).
  pose proof (numbered_nth _ _ _ _ Hnm Hi) as Eb.
  assert (Hc2 : nth_error nch (N.to_nat s + i) = Some cb) by (rewrite <- Hc; f_equal; lia).
  destruct (Hwf cb (nth_error_In _ _ Hc)) as [Hndc _].
  destruct Ht as (Hsub & Hcomp & Hwr).
  (* every receipt of the element is attached to the transaction it names *)
  assert (Hatt : forall ct, In ct (b_txs cb) ->
            exists t r', In t (b_txs b') /\ In r' rs /\ r_txidx r' = t_idx ct /\ rcpt_of r' t).
  { intros ct Hct. destruct (Hall es i e rs cb ct Er Hlt He Ers Hc2 Hct) as (r & Hr & Eri).
    assert (Hne : rs <> []) by (intros ->; contradiction).
    destruct (Hcons Hne) as (b0 & b1 & _ & Hb1 & _ & _ & _ & _ & _ & S6 & _).
    rewrite Hi in Hb1. inversion Hb1; subst b1.
    destruct (S6 r Hr) as (t & r' & H1 & H2 & H3 & H4). exists t, r'. repeat split; auto; try congruence; apply H4. }
  split; [exact Hsub|]. split.
  - intros _ ct Hct. destruct (Hatt ct Hct) as (t & r' & H1 & _ & H3 & (H4 & _)). exists t. split; [exact H1|congruence].
  - intros t ct Htin Hct Hidx. split; [exact (proj1 (Hwr t ct Htin Hct Hidx))|]. intros _.
    destruct (Hatt ct Hct) as (t' & r' & H1 & H2 & H3 & (R1 & R2 & R3 & R4 & R5)).
    assert (t' = t).
    { destruct Hsub as [Hnd _]. apply (B.nodup_key_inj t_idx (b_txs b')); auto. congruence. }
    subst t'.
    destruct (Hon es e rs r' Er (nth_error_In _ _ He) Ers H2) as [(cb2 & ct2 & Hc2' & Hct2 & E1 & E2 & E3 & E4 & E5) _].
    rewrite (Hbn r' H2) in Hc2'. rewrite <- Eb, Hc in Hc2'. inversion Hc2'; subst cb2.
    assert (ct2 = ct) by (apply (B.nodup_key_inj t_idx (b_txs cb)); auto; congruence). subst ct2.
    repeat split; congruence.
Qed.
End Steps.

(* ---------- the fetched base ---------- *)
Lemma txs_inv_ff ctxs txs : txs_sub ctxs txs -> txs_inv false false ctxs txs.
Proof.
  intros H. split; [exact H|]. split; [intros K; discriminate|]. intros t ct _ _ _. split; intros K; discriminate.
Qed.

Lemma full_view_inv nch cb : nch_wf nch -> In cb nch -> blk_inv true true false cb (full_view cb).
Proof.
  intros [Hwf _] Hin. destruct (Hwf cb Hin) as [Hnd _]. split; [|split; [left; reflexivity|reflexivity]].
  simpl. split; [|split].
  - split; [rewrite map_map; exact Hnd|]. intros t Ht. apply in_map_iff in Ht. destruct Ht as (ct & <- & Hct).
    exists ct. split; [exact Hct|]. unfold tx_sub, tx_part, tx_view; simpl.
    split; [reflexivity|]. split; [reflexivity|]. split; [right; reflexivity|]. split; [right; reflexivity|].
    split; [left; reflexivity|]. split; [constructor|]. split; [intros x []|left; reflexivity].
  - intros _ ct Hct. exists (tx_view ct). split; [apply in_map; exact Hct|reflexivity].
  - intros t ct Ht Hct Hi. apply in_map_iff in Ht. destruct Ht as (ct' & <- & Hct').
    assert (ct' = ct) by (apply (B.nodup_key_inj t_idx (b_txs cb)); auto). subst ct'.
    split; [intros _; split; reflexivity|intros K; discriminate].
Qed.

Lemma base_inv nch p s l w base :
  nch_wf nch -> honest_on nch s l w -> (N.to_nat s + N.to_nat l <= length nch)%nat ->
  fetch repaired p s l w = Ok base ->
  Forall (on_node nch (blk_inv (fetches p) (use_blocks p) false)) base.
Proof.
  intros Hw (Hbf & Hho & _) Hrange Hf. destruct (fetch_spec _ _ _ _ _ Hf) as (Hn & Hlen & Hfe & Hnf).
  unfold fetches, block_reply in *. apply Forall_forall. intros b Hb.
  destruct (use_blocks p) eqn:Eb; [|destruct (use_headers p) eqn:Eh]; simpl in *.
  - destruct (Hfe eq_refl) as ((es & Er & _ & _ & _ & _ & Hi) & _ & _).
    apply In_nth_error in Hb. destruct Hb as [i Hbi].
    assert (Hlt : (i < N.to_nat l)%nat) by (rewrite <- Hlen; apply nth_error_Some; congruence).
    destruct (Hi i Hlt) as (e & b0 & He & Hr & Hb0 & Hh & _). rewrite Hbi in Hb0. inversion Hb0; subst b0.
    destruct (Hbf es e b Er (nth_error_In _ _ He) Hr Hh) as (cb & Hc & ->).
    exists cb. split; [exact Hc|]. apply (full_view_inv nch cb Hw). eapply nth_error_In; exact Hc.
  - destruct (Hfe eq_refl) as ((es & Er & _ & _ & _ & _ & Hi) & _ & _).
    apply In_nth_error in Hb. destruct Hb as [i Hbi].
    assert (Hlt : (i < N.to_nat l)%nat) by (rewrite <- Hlen; apply nth_error_Some; congruence).
    destruct (Hi i Hlt) as (e & b0 & He & Hr & Hb0 & Hh & _). rewrite Hbi in Hb0. inversion Hb0; subst b0.
    destruct (Hho es e b Er (nth_error_In _ _ He) Hr Hh) as (cb & Hc & Hhd & Hsub).
    exists cb. split; [exact Hc|]. unfold hdr in Hhd. inversion Hhd as [[E1 E2 E3 E4]].
    split; [apply txs_inv_ff; exact Hsub|]. split; [left; exact E2|intros _; exact E4].
  - rewrite (Hnf eq_refl) in Hb. unfold numbers in Hb. apply in_map_iff in Hb. destruct Hb as (i & <- & Hi).
    apply in_seq in Hi. simpl.
    destruct (nth_error nch (N.to_nat (s + N.of_nat i))) as [cb|] eqn:Ec; [|apply nth_error_None in Ec; lia].
    exists cb. split; [exact Ec|]. split; [apply txs_inv_ff; split; [constructor|intros t []]|].
    split; [right; auto|intros K; discriminate].
Qed.

(* ---------- Client.get against an honest reply family ---------- *)
Theorem get_honest_components nch p s l w bs :
  nch_wf nch -> honest_on nch s l w -> (N.to_nat s + N.to_nat l <= length nch)%nat ->
  get p s l w = Ok bs ->
  forall b, In b bs ->
    exists cb, nth_error nch (N.to_nat (b_num b)) = Some cb /\ delivered_components p cb b.
Proof.
  intros Hw Hon Hrange H. pose proof Hon as (_ & _ & Hrc & Hlg & Htr & Hall).
  unfold get, get_fx in H. apply bind_ok in H. destruct H as [base [Hf Ha]].
  pose proof (base_inv nch p s l w base Hw Hon Hrange Hf) as HB.
  destruct (fetch_spec _ _ _ _ _ Hf) as (Hn & Hlen & _ & _).
  unfold attach in Ha. apply bind_ok in Ha. destruct Ha as [mid [H1 H2]].
  set (kH := fetches p) in *. set (kB := use_blocks p) in *.
  assert (HM : Forall (on_node nch (blk_inv kH kB (use_receipts p))) mid).
  { unfold attach1 in H1. destruct (use_receipts p) eqn:Er; [|destruct (use_logs p) eqn:El].
    - eapply (receipts_upgrade nch Hw kH kB s l w base mid); eauto.
      eapply receipts_keeps; eauto.
    - eapply logs_keeps; eauto.
    - inversion H1; subst mid. exact HB. }
  assert (HF : Forall (on_node nch (blk_inv kH kB (use_receipts p))) bs).
  { unfold attach2 in H2. rewrite does_traces_repaired in H2. destruct (use_traces p).
    - eapply traces_keeps; eauto.
    - inversion H2; subst bs. exact HM. }
  intros b Hb. rewrite Forall_forall in HF. destruct (HF b Hb) as (cb & Hc & (Hsub & Hcomp & Hwr) & Hh & Hp).
  exists cb. split; [exact Hc|]. destruct Hw as [Hwf Hnum]. destruct (Hnum _ _ Hc) as [En Hne].
  split; [rewrite En; lia|]. split.
  { intros K. split; [|apply Hp; exact K]. destruct Hh as [Hh|(Hk & _)]; [exact Hh|]. unfold kH in Hk. congruence. }
  destruct Hsub as [Hnd Hsub]. split; [exact Hnd|]. intros t Ht. split.
  { destruct Hh as [Hh|(_ & _ & He)]; [exact Hh|]. rewrite He in Ht. contradiction. }
  destruct (Hsub t Ht) as (ct & Hct & Hi & Hha & (P1 & P2 & P3 & P4 & P5 & P6)).
  destruct (Hwr t ct Ht Hct Hi) as [W1 W2]. exists ct. split; [exact Hct|]. split; [exact Hi|]. split; [exact Hha|].
  split. { intros K. unfold kB in W1. apply orb_true_iff in K. destruct K as [K|K]; [apply (W1 K)|apply (W2 K)]. }
  split. { intros K. apply (W1 K). }
  split. { intros K. destruct (W2 K) as (_ & A & C). split; assumption. }
  split; [exact P5|]. destruct P6 as [P6|P6]; rewrite P6; [intros x []|apply incl_refl].
Qed.

(* ---------- the executable honest family is honest ---------- *)
Lemma seg_on_chain nch s l cb : nch_wf nch -> In cb (seg nch s l) ->
  In cb nch /\ nth_error nch (N.to_nat (b_num cb)) = Some cb.
Proof.
  intros [_ Hnum] H. apply (B.cseg_In nch s l cb) in H. split; [exact H|].
  apply In_nth_error in H. destruct H as [n Hn]. destruct (Hnum n cb Hn) as [E _]. rewrite E, Nat2N.id. exact Hn.
Qed.

Lemma filter_all_true {A} (f : A -> bool) l : (forall x, In x l -> f x = true) -> filter f l = l.
Proof.
  induction l as [|x r IH]; intros H; simpl; [reflexivity|]. rewrite (H x (or_introl eq_refl)). f_equal.
  apply IH. intros y Hy. apply H. right. exact Hy.
Qed.
Lemma filter_all_false {A} (f : A -> bool) l : (forall x, In x l -> f x = false) -> filter f l = [].
Proof.
  induction l as [|x r IH]; intros H; simpl; [reflexivity|]. rewrite (H x (or_introl eq_refl)).
  apply IH. intros y Hy. apply H. right. exact Hy.
Qed.

Lemma filter_chunk (G : tx -> list tracer) : (forall ct y, In y (G ct) -> tr_txidx y = t_idx ct) ->
  forall txs ct, NoDup (map t_idx txs) -> In ct txs ->
  filter (fun y => tr_txidx y =? t_idx ct) (flat_map G txs) = G ct.
Proof.
  intros HG. induction txs as [|x r IH]; intros ct Hnd Hin; [contradiction|].
  simpl in Hnd. inversion Hnd as [|? ? Hx Hr]; subst. simpl. rewrite filter_app.
  destruct Hin as [->|Hin].
  - assert (E1 : filter (fun y => tr_txidx y =? t_idx ct) (G ct) = G ct).
    { apply filter_all_true. intros y Hy. apply N.eqb_eq. apply HG. exact Hy. }
    assert (E2 : filter (fun y => tr_txidx y =? t_idx ct) (flat_map G r) = []).
    { apply filter_all_false. intros y Hy. apply in_flat_map in Hy. destruct Hy as (c & Hc & Hy).
      apply N.eqb_neq. rewrite (HG c y Hy). intros E. apply Hx. rewrite <- E. apply in_map. exact Hc. }
    rewrite E1, E2, app_nil_r. reflexivity.
  - assert (E1 : filter (fun y => tr_txidx y =? t_idx ct) (G x) = []).
    { apply filter_all_false. intros y Hy. apply N.eqb_neq. rewrite (HG x y Hy). intros E. apply Hx. rewrite E.
      apply in_map. exact Hin. }
    rewrite E1. simpl. apply IH; assumption.
Qed.

Lemma honest_world_honest nch s l : nch_wf nch -> honest_on nch s l (honest_world nch s l).
Proof.
  intros Hw. pose proof Hw as [Hwf Hnum]. unfold honest_on, honest_world; simpl.
  split; [|split; [|split; [|split; [|split]]]].
  - intros es e b Er He Hr _. inversion Er; subst es. apply in_map_iff in He. destruct He as (cb & <- & Hcb).
    simpl in Hr. inversion Hr; subst b. destruct (seg_on_chain nch s l cb Hw Hcb) as [_ Hc]. exists cb. auto.
  - intros es e b Er He Hr _. inversion Er; subst es. apply in_map_iff in He. destruct He as (cb & <- & Hcb).
    simpl in Hr. inversion Hr; subst b. destruct (seg_on_chain nch s l cb Hw Hcb) as [_ Hc]. exists cb.
    split; [exact Hc|]. split; [reflexivity|]. split; [constructor|intros t []].
  - intros es e rs r Er He Hr Hin. inversion Er; subst es. apply in_map_iff in He. destruct He as (cb & <- & Hcb).
    simpl in Hr. inversion Hr; subst rs. apply in_map_iff in Hin. destruct Hin as (ct & <- & Hct).
    destruct (seg_on_chain nch s l cb Hw Hcb) as [_ Hc]. split.
    + exists cb, ct. simpl. repeat split; auto.
    + exists cb. simpl. auto.
  - intros lb ls x Er El Hin. inversion Er; subst lb. simpl in El. inversion El; subst ls.
    apply in_map_iff in Hin. destruct Hin as (x0 & E & Hin). inversion E; subst x0.
    apply in_flat_map in Hin. destruct Hin as (cb & Hcb & Hin). unfold logrs_of in Hin.
    apply in_flat_map in Hin. destruct Hin as (ct & Hct & Hin). apply in_map_iff in Hin. destruct Hin as (lg & <- & Hlg).
    destruct (seg_on_chain nch s l cb Hw Hcb) as [_ Hc]. split.
    + exists cb, ct. simpl. repeat split; auto.
    + exists cb. simpl. auto.
  - intros e ts x He Et Hin. apply in_map_iff in He. destruct He as (cb & E & Hcb). inversion E; subst e.
    simpl in Et. inversion Et; subst ts. pose proof Hin as Hin0. unfold tracers_of in Hin.
    apply in_flat_map in Hin. destruct Hin as (ct & Hct & Hin). apply in_map_iff in Hin. destruct Hin as (a & <- & Ha).
    destruct (seg_on_chain nch s l cb Hw Hcb) as [Hcbin Hc]. destruct (Hwf cb Hcbin) as [Hnd _]. split.
    + exists cb, ct. simpl. split; [exact Hc|]. split; [exact Hct|]. split; [reflexivity|]. split; [reflexivity|].
      unfold tracers_of.
      rewrite (filter_chunk (fun c => map (fun a0 => mkTracer (b_num cb) (b_hash cb) (t_idx c) (t_hash c) (ta_pl a0)) (t_traces c)));
        [rewrite map_map; reflexivity| |exact Hnd|exact Hct].
      intros c y Hy. apply in_map_iff in Hy. destruct Hy as (a0 & <- & _). reflexivity.
    + exists cb. simpl. auto.
  - intros es i e rs cb ct Er Hlt He Hr Hc Hct. inversion Er; subst es. rewrite nth_error_map in He.
    change (seg nch s l) with (BridgeCacheTask.cseg nch s l) in He. rewrite (B.nth_cseg nch s l i Hlt), Hc in He.
    simpl in He. inversion He; subst e. simpl in Hr. inversion Hr; subst rs.
    exists (rcpt_of_tx cb ct). split; [apply in_map; exact Hct|reflexivity].
Qed.

(* ---------- the range premise is necessary for plans without a header / block request ---------- *)
Lemma range_premise_needed : ~ components_norange_full.
Proof.
  intros H. assert (Hw : nch_wf []).
  { split; [intros cb []|]. intros [|n] cb E; discriminate. }
  specialize (H [] (mkPlan false false false false false) 0 1 (honest_world [] 0 1) [mkBlock 0 [] [] [] []]
                Hw (honest_world_honest [] 0 1 Hw) eq_refl _ (or_introl eq_refl)).
  destruct H as (cb & Hc & _). simpl in Hc. discriminate.
Qed.

(* ---------- C07's rejections, read as "no value of another block (version) reaches a cell" ---------- *)
Lemma other_block_refused : forall p s l w,
  (exists es i e rs r, attach_kind p = AReceipts /\ w_receipts w = RBody es /\ (i < N.to_nat l)%nat
      /\ nth_error es i = Some e /\ re_res e = Some rs /\ In r rs
      /\ (r_bnum r <> s + N.of_nat i
          \/ exists bes be b, fetches p = true /\ block_reply p w = RBody bes /\ nth_error bes i = Some be
               /\ be_res be = Some b /\ r_bhash r <> b_hash b))
  \/ (exists lb lo x, attach_kind p = ALogs /\ w_logs w = RBody lb /\ lb_logs lb = Some lo /\ In (Some x) lo
      /\ (~ (s <= lr_bnum x < s + l)
          \/ exists bes be b i, fetches p = true /\ block_reply p w = RBody bes /\ (i < N.to_nat l)%nat
               /\ nth_error bes i = Some be /\ be_res be = Some b /\ lr_bnum x = s + N.of_nat i
               /\ lr_bhash x <> b_hash b))
  \/ (exists i e ts t, use_traces p = true /\ (i < N.to_nat l)%nat /\ nth_error (w_traces w) i = Some (RBody e)
      /\ te_res e = Some ts /\ In t ts
      /\ (tr_bnum t <> s + N.of_nat i
          \/ exists bes be b, fetches p = true /\ block_reply p w = RBody bes /\ nth_error bes i = Some be
               /\ be_res be = Some b /\ tr_bhash t <> b_hash b))
  -> get p s l w = Err.
Proof.
  intros p s l w H. apply get_rejects.
  destruct H as [(es & i & e & rs & r & K & Er & Hi & He & Hr & Hin & [Hn|(bes & be & b & Hf & Hb & Hbe & Hbr & Hh)])
               |[(lb & lo & x & K & El & Elo & Hin & [Hr|(bes & be & b & i & Hf & Hb & Hi & Hbe & Hbr & Hn & Hh)])
                |(i & e & ts & t & K & Hi & He & Hr & Hin & [Hn|(bes & be & b & Hf & Hb & Hbe & Hbr & Hh)])]].
  - eapply CRcNumber; eauto.
  - eapply CRcHash; eauto.
  - eapply CLgRange; eauto.
  - eapply CLgHash; eauto.
  - eapply CTrNumber; eauto.
  - eapply CTrHash; eauto.
Qed.
End CEP.

(* ================================================================== *)
(* field level: reader, C14's [filled], C11's rows                     *)
(* ================================================================== *)
From Shovel Require Model.Hex Model.Filter Model.Rows Model.Plan Model.Provides Model.PlanCheck Model.BridgePlanRows
  Proofs.RowsP Proofs.C11P Proofs.PlanP Proofs.C14P Proofs.BridgePlanRowsP.
From Shovel Require Gen.GlfTables Gen.GetFields Gen.FetchFills Gen.GetDispatch.

Module CFP.
Import CF.
Import BridgePlanRows BridgePlanRowsP.
Import Shovel.Gen.GlfTables Shovel.Gen.GetFields.

(* the reading refines the reader of the cache->rows bridge *)
Lemma conv_c11v : forall rd b, C11V.conv (to_c11v rd) b = conv rd b.
Proof. reflexivity. Qed.

(* a field whose component is written reads the node's value *)
Lemma field_of_components rd p c ig cb b t ct F lo ao :
  Client.b_num b = Client.b_num cb -> Client.b_hash b = Client.b_hash cb ->
  (ClientSpec.fetches p = true -> Client.b_hpl b = Client.b_hpl cb) ->
  Client.t_idx t = Client.t_idx ct -> Client.t_hash t = Client.t_hash ct ->
  (Client.use_blocks p || Client.use_receipts p = true -> Client.t_tft t = Client.t_tft ct) ->
  (Client.use_blocks p = true -> Client.t_body t = Client.t_body ct) ->
  (Client.use_receipts p = true -> Client.t_rcpt t = Client.t_rcpt ct) ->
  comp_written (field_comp F) p = true ->
  Rows.field_of F c ig (conv rd b) (conv_tx rd t) lo ao = Rows.field_of F c ig (conv rd cb) (conv_tx rd ct) lo ao.
Proof.
  intros En Eh Hp Ei Eth Htft Hbody Hrc Hw. unfold ClientSpec.fetches in Hp.
  destruct F; simpl in Hw; unfold conv, conv_tx, conv_tx0, Pushdown.tx_with_logs; simpl;
    try reflexivity;
    try (rewrite (Hp Hw)); try (rewrite (Htft Hw)); try (rewrite (Hbody Hw)); try (rewrite (Hrc Hw));
    try reflexivity; congruence.
Qed.

Lemma plan_comp_gen : plan_comp_check C14P.disp_gen C14P.provides_gen get_fields = true.
Proof. vm_compute. reflexivity. Qed.

Lemma fetch_eqb_refl : forall g, Plan.fetch_eqb g g = true.
Proof. destruct g; reflexivity. Qed.

Lemma filled_supplied : forall P fs m f, filled P fs m f -> Provides.supplied_b P fs m f = true.
Proof.
  intros P fs m f [H|[H1 [g [Hg Hp]]]]; unfold Provides.supplied_b; [rewrite H; reflexivity|].
  destruct (Plan.f_class f); try reflexivity; rewrite H1; simpl; apply existsb_exists; exists g;
    (split; [exact Hp|]); unfold Provides.has_fetch; apply existsb_exists; exists g; (split; [exact Hg|apply fetch_eqb_refl]).
Qed.

Lemma supplied_written : forall F f fl m, In f get_fields -> Plan.f_name f = Rows.field_name F ->
  Provides.supplied_b C14P.provides_gen (C14P.disp_gen fl) m f = true ->
  comp_written (field_comp F) (plan_of_flags fl) = true.
Proof.
  intros F f fl m Hf E S. pose proof plan_comp_gen as H. unfold plan_comp_check in H.
  rewrite forallb_forall in H. specialize (H F (all_fields_complete F)).
  rewrite forallb_forall in H. specialize (H f Hf). rewrite E, String.eqb_refl in H. cbn [implb] in H.
  rewrite forallb_forall in H. specialize (H fl (PS.all_flag_values_complete fl)).
  rewrite forallb_forall in H. assert (Hm : In m all_modes) by (destruct m; simpl; auto).
  specialize (H m Hm). rewrite S in H. exact H.
Qed.

(* (2) *)
Theorem honest_get_delivers_node_fields_l : forall rd nch c d needs s l w bs,
  CE.nch_wf nch -> (N.to_nat s + N.to_nat l <= length nch)%nat ->
  plan_request_of d needs ->
  required_present (mode_of (Rows.indexing Rows.fixed d)) needs ->
  log_fields_only_in_log_mode get_fields (mode_of (Rows.indexing Rows.fixed d)) needs ->
  CE.honest_on nch s l w ->
  Client.get (plan_of_flags (Plan.new glf_tables glf_steps needs)) s l w = Ok bs ->
  forall b, In b bs -> delivered_is_node rd nch c d b.
Proof.
  intros rd nch c d needs s l w bs Hw Hrange Hreq Hrp Hsel Hon Hget b Hb.
  destruct (CEP.get_honest_components nch _ s l w bs Hw Hon Hrange Hget b Hb) as (cb & Hc & En & Hfe & _ & Ht).
  exists cb. split; [exact Hc|]. split; [symmetry; exact En|]. intros t Hin.
  destruct (Ht t Hin) as (Hh & ct & Hct & Hi & Hha & Htft & Hbody & Hrc & Hlogs & Htr).
  exists ct. split; [exact Hct|]. split; [symmetry; exact Hi|]. split; [exact Hlogs|]. split; [exact Htr|].
  intros F lo ao HF.
  destruct (plan_fills_what_rows_read_l d needs Hreq Hrp Hsel F HF) as (f & Hf & E & _ & Hfill).
  apply (field_of_components rd (plan_of_flags (Plan.new glf_tables glf_steps needs))); try assumption.
  - intros K. apply (Hfe K).
  - intros K. apply (Hrc K).
  - apply (supplied_written F f _ _ Hf E (filled_supplied _ _ _ _ Hfill)).
Qed.

(* a row exists: every block-data name is read *)
Lemma row_reads_all : forall d c dbs blocks rows r,
  Rows.insert Rows.fixed d c dbs blocks = Ok rows -> In r rows ->
  rows_read_names d = map Rows.bd_name (Rows.d_block d).
Proof.
  intros d c dbs blocks rows r H Hr. apply rows_read_all. destruct (Rows.indexing Rows.fixed d) eqn:M.
  - left. destruct (RowsP.insert_tx_rows _ _ _ _ _ _ _ M H Hr) as (b & t & rs & _ & Hp & Hrs).
    destruct (RowsP.process_tx_row_spec _ _ _ _ _ Hp Hrs) as [Z _]. rewrite Z. reflexivity.
  - left. destruct (RowsP.insert_trace_rows _ _ _ _ _ _ _ M H Hr) as (b & t & a & rs & _ & Hp & Hrs).
    destruct (RowsP.process_tx_row_spec _ _ _ _ _ Hp Hrs) as [Z _]. rewrite Z. reflexivity.
  - right. reflexivity.
Qed.

(* (3) *)
Theorem stored_cells_are_node_values_l : forall rd nch c d needs dbs s l w bs rows r,
  CE.nch_wf nch -> (N.to_nat s + N.to_nat l <= length nch)%nat ->
  plan_request_of d needs ->
  required_present (mode_of (Rows.indexing Rows.fixed d)) needs ->
  CE.honest_on nch s l w ->
  Client.get (plan_of_flags (Plan.new glf_tables glf_steps needs)) s l w = Ok bs ->
  Rows.insert Rows.fixed d c dbs (map (conv rd) bs) = Ok rows -> In r rows ->
  exists cb ct lo ao,
    nth_error nch (N.to_nat (Client.b_num cb)) = Some cb /\ s <= Client.b_num cb < s + l
    /\ In ct (Client.b_txs cb)
    /\ item_of_mode (Rows.indexing Rows.fixed d) (conv_tx rd ct) lo ao
    /\ forall k bd F, nth_error (Rows.d_block d) k = Some bd -> Rows.bd_name bd = Filter.s2b (Rows.field_name F) ->
         nth_error r (bd_offset d + k) = Rows.field_of F c (Rows.d_name d) (conv rd cb) (conv_tx rd ct) lo ao
         /\ Rows.field_of F c (Rows.d_name d) (conv rd cb) (conv_tx rd ct) lo ao <> None.
Proof.
  intros rd nch c d needs dbs s l w bs rows r Hw Hrange Hreq Hrp Hon Hget Hins Hr.
  pose proof (row_exists_selectable_l d needs c dbs _ rows r Hreq Hins Hr) as Hsel.
  pose proof (row_reads_all d c dbs _ rows r Hins Hr) as Hall.
  destruct (stored_cells_gen d needs c dbs _ rows r Hreq Hrp Hins Hr) as (b' & t' & lo & ao & Hb' & Ht' & Hitem & Hcells).
  apply in_map_iff in Hb'. destruct Hb' as (b & <- & Hb). simpl in Ht'.
  apply in_map_iff in Ht'. destruct Ht' as (t & <- & Ht).
  destruct (honest_get_delivers_node_fields_l rd nch c d needs s l w bs Hw Hrange Hreq Hrp Hsel Hon Hget b Hb)
    as (cb & Hc & En & Htx).
  destruct (Htx t Ht) as (ct & Hct & Hi & Hlogs & Htr & Hfields).
  exists cb, ct, lo, ao. split; [rewrite En; exact Hc|]. split.
  { pose proof (ClientP.get_numbers _ _ _ _ _ Hget) as Hnums.
    assert (Hin : In (Client.b_num b) (ClientSpec.seqN s (N.to_nat l))) by (rewrite <- Hnums; apply in_map; exact Hb).
    unfold ClientSpec.seqN in Hin. apply in_map_iff in Hin. destruct Hin as (i & Ei & Hi2). apply in_seq in Hi2. lia. }
  split; [exact Hct|]. split.
  { destruct (Rows.indexing Rows.fixed d); simpl in *.
    - exact Hitem.
    - destruct Hitem as [E1 (a & E2 & Ha)]. split; [exact E1|]. exists a. split; [exact E2|].
      apply in_map_iff in Ha. destruct Ha as (a0 & <- & Ha0). apply in_map. apply Htr. exact Ha0.
    - destruct Hitem as [E1 (lg & E2 & Hl)]. split; [exact E1|]. exists lg. split; [exact E2|].
      apply in_map_iff in Hl. destruct Hl as (l0 & <- & Hl0). apply in_map. apply Hlogs. exact Hl0. }
  intros k bd F Hk Eb. destruct (Hcells k bd F Hk Eb) as (A & Bn & _).
  assert (HF : In (Filter.s2b (Rows.field_name F)) (rows_read_names d)).
  { rewrite Hall, <- Eb. apply in_map. eapply nth_error_In; exact Hk. }
  rewrite <- (Hfields F lo ao HF). split; assumption.
Qed.

Lemma filled_field_is_written : forall F f fl m, In f get_fields -> Plan.f_name f = Rows.field_name F ->
  filled C14P.provides_gen (C14P.disp_gen fl) m f ->
  comp_written (field_comp F) (plan_of_flags fl) = true.
Proof. intros F f fl m Hf E H. exact (supplied_written F f fl m Hf E (filled_supplied _ _ _ _ H)). Qed.

(* the example chain is well formed *)
Lemma ex_nch_wf : CE.nch_wf ex_nch.
Proof.
  split.
  - intros cb [<-|[<-|[]]]; simpl; (split; [repeat (constructor; [simpl; intuition discriminate|]); constructor|]).
    + intros ct [<-|[]]; simpl. split; [repeat (constructor; [simpl; intuition discriminate|]); constructor|reflexivity].
    + intros ct [<-|[<-|[]]]; simpl; (split; [repeat (constructor; [simpl; intuition discriminate|]); constructor|reflexivity]).
  - intros [|[|n]] cb E; simpl in E; try (inversion E; subst cb; simpl; split; [reflexivity|discriminate]).
    destruct n; discriminate.
Qed.
End CFP.
