(* Proofs about Client.Get through the caches (Model/CGet.v): whatever the
   interleaving, a caller's view of the shared cached blocks equals what an
   uncached client returns. *)
From Coq Require Import List NArith Bool Arith Lia ZifyBool ZifyN ZifyNat FinFun.
From Shovel Require Import Model.Cache Model.LogAttach Model.CGet Proofs.CacheP Proofs.LogAttachP.
Import ListNotations.
Open Scope N_scope.

(* ---------- blocks ---------- *)
Lemma a_step_hdr b op : b_num (a_step b op) = b_num b /\ b_time (a_step b op) = b_time b
                        /\ b_hash (a_step b op) = op_bh op.
Proof. destruct op; simpl; auto. Qed.

Lemma a_run_snoc b ops op : a_run b (ops ++ [op]) = a_step (a_run b ops) op.
Proof. unfold a_run. rewrite fold_left_app. reflexivity. Qed.

Lemma a_run_hdr ops : forall b,
  b_num (a_run b ops) = b_num b /\ b_time (a_run b ops) = b_time b.
Proof.
  induction ops as [|op r IH]; intros b; simpl; auto.
  unfold a_run in *. simpl. destruct (IH (a_step b op)) as [H1 H2].
  destruct (a_step_hdr b op) as (E1 & E2 & _). rewrite H1, H2. auto.
Qed.

Lemma a_run_hash ops : forall b h,
  b_hash b = h -> (forall op, In op ops -> op_bh op = h) -> b_hash (a_run b ops) = h.
Proof.
  induction ops as [|op r IH]; intros b h Hb H; simpl; auto.
  unfold a_run in *. simpl. apply IH.
  - destruct (a_step_hdr b op) as (_ & _ & E). rewrite E. apply H. left; auto.
  - intros op' Hin. apply H. right; auto.
Qed.

Lemma has_num_false n bs : has_num n bs = false -> forall b, In b bs -> b_num b <> n.
Proof.
  unfold has_num. intros H b Hin E.
  assert (existsb (fun b => b_num b =? n) bs = true); [|congruence].
  apply existsb_exists. exists b. split; auto. lia.
Qed.

Lemma has_num_true n bs : has_num n bs = true -> In n (map b_num bs).
Proof.
  unfold has_num. intros H. apply existsb_exists in H. destruct H as (b & Hin & E).
  apply in_map_iff. exists b. split; auto. lia.
Qed.

Lemma map_id_ext {A} (f : A -> A) l : (forall x, In x l -> f x = x) -> map f l = l.
Proof.
  induction l as [|x r IH]; intros H; simpl; auto.
  rewrite H by (left; auto). rewrite IH; auto. intros y Hy. apply H. right; auto.
Qed.

Lemma blks_apply_map n f bs :
  NoDup (map b_num bs) ->
  blks_apply n f bs = map (fun b => if b_num b =? n then f b else b) bs.
Proof.
  induction bs as [|b r IH]; intros ND; simpl; auto.
  inversion ND; subst. destruct (has_num n r) eqn:H.
  - apply has_num_true in H. replace (b_num b =? n) with false.
    + rewrite IH; auto.
    + symmetry. apply N.eqb_neq. intros E. subst. contradiction.
  - assert (R : map (fun b0 => if b_num b0 =? n then f b0 else b0) r = r).
    { apply map_id_ext. intros x Hx. pose proof (has_num_false _ _ H x Hx).
      replace (b_num x =? n) with false by lia. reflexivity. }
    rewrite R. destruct (b_num b =? n); reflexivity.
Qed.

(* ---------- ranges ---------- *)
Lemma seqN_nodup s len : NoDup (seqN s len).
Proof.
  unfold seqN. apply FinFun.Injective_map_NoDup; [|apply seq_NoDup].
  intros a b H. lia.
Qed.

Lemma fresh_nums ch b k : map b_num (fresh ch b k) = krange k.
Proof.
  unfold fresh. rewrite map_map. apply map_id_ext. intros n _.
  destruct b as [[|]|]; reflexivity.
Qed.

Lemma fresh_in ch b k b0 : In b0 (fresh ch b k) -> exists n, In n (krange k) /\ b0 = fresh_blk ch b n.
Proof. unfold fresh. intros H. apply in_map_iff in H. destruct H as (n & E & Hn). eauto. Qed.

(* ---------- the chain ---------- *)
Lemma find_ctx_of_tx ch n t :
  chain_wf ch -> In t (cb_txs (ch n)) -> find_ctx ch n (x_idx t) = Some t.
Proof.
  intros W Hin. destruct (W n) as [ND _]. unfold find_ctx.
  induction (cb_txs (ch n)) as [|u r IH]; simpl in *; [contradiction|].
  inversion ND; subst. destruct Hin as [->|Hin].
  - rewrite N.eqb_refl. reflexivity.
  - destruct (x_idx u =? x_idx t) eqn:E.
    + exfalso. apply H1. apply in_map_iff. exists t. split; auto. lia.
    + apply IH; auto.
Qed.

Lemma full_of_tx ch n t :
  chain_wf ch -> In t (cb_txs (ch n)) -> full ch n (x_idx t) = x_logs t.
Proof. intros W H. unfold full. rewrite (find_ctx_of_tx ch n t W H). reflexivity. Qed.

Lemma ftr_of_tx ch n t :
  chain_wf ch -> In t (cb_txs (ch n)) -> ftr ch n (x_idx t) = x_traces t.
Proof. intros W H. unfold ftr. rewrite (find_ctx_of_tx ch n t W H). reflexivity. Qed.

Lemma full_nodup ch n i : chain_wf ch -> NoDup (idxs (full ch n i)).
Proof.
  intros W. destruct (W n) as [_ H]. unfold full, find_ctx.
  destruct (find _ (cb_txs (ch n))) as [t|] eqn:F; [|constructor].
  apply find_some in F. apply H. tauto.
Qed.

Lemma find_ctx_in ch n i t : find_ctx ch n i = Some t -> In t (cb_txs (ch n)) /\ x_idx t = i.
Proof. unfold find_ctx. intros F. apply find_some in F. split; [tauto|lia]. Qed.

Lemma full_in_tx ch n i l :
  In l (full ch n i) -> exists t, In t (cb_txs (ch n)) /\ x_idx t = i /\ In l (x_logs t).
Proof.
  unfold full. destruct (find_ctx ch n i) as [t|] eqn:F; [|contradiction].
  destruct (find_ctx_in _ _ _ _ F) as [F1 F2]. intros Hl. exists t. auto.
Qed.

Lemma stage1_ops_ok ch x f n op :
  chain_wf ch -> In op (stage1_ops ch x f n) -> op_ok ch n op.
Proof.
  intros W Hin. destruct x; simpl in Hin; [contradiction| |].
  - apply in_flat_map in Hin. destruct Hin as (t & Ht & Hop).
    destruct (filter (matches f) (x_logs t)) as [|l0 ls] eqn:F; [contradiction|].
    destruct Hop as [<-|[]]. split; [|split; [reflexivity|exact I]]. split; simpl.
    + rewrite (full_of_tx ch n t W Ht). rewrite <- F. intros l Hl. apply filter_In in Hl. tauto.
    + discriminate.
  - apply in_map_iff in Hin. destruct Hin as (t & <- & Ht). split; [|split; [reflexivity|exact I]]. split; simpl.
    + rewrite (full_of_tx ch n t W Ht). apply incl_refl.
    + intros _. rewrite (full_of_tx ch n t W Ht). reflexivity.
Qed.

Lemma trace_ops_ok ch n op : chain_wf ch -> In op (trace_ops ch n) -> op_ok ch n op.
Proof.
  intros W Hin. unfold trace_ops in Hin. apply in_flat_map in Hin. destruct Hin as (t & Ht & Hop).
  destruct (x_traces t) as [|a tas] eqn:E; [contradiction|]. destruct Hop as [<-|[]].
  split; [|split; [reflexivity|]].
  - split; simpl; [intros l []|discriminate].
  - simpl. rewrite (ftr_of_tx ch n t W Ht). auto.
Qed.

Lemma caller_ops_ok ch x t f n op :
  chain_wf ch -> In op (caller_ops ch x t f n) -> op_ok ch n op.
Proof.
  intros W Hin. unfold caller_ops in Hin. apply in_app_or in Hin. destruct Hin as [Hin|Hin].
  - eapply stage1_ops_ok; eauto.
  - destruct t; [eapply trace_ops_ok; eauto|contradiction].
Qed.

Lemma caller_ops_complete ch x t f n i l :
  chain_wf ch -> In l (full ch n i) -> want x f l = true ->
  exists op, In op (caller_ops ch x t f n) /\ op_tx op = i /\ In l (op_logs op).
Proof.
  intros W Hl Hw. destruct (full_in_tx _ _ _ _ Hl) as (tx0 & Ht & Ei & Hlt).
  unfold caller_ops. destruct x; simpl in *; [discriminate| |].
  - assert (Hf : In l (filter (matches f) (x_logs tx0))) by (apply filter_In; auto).
    destruct (filter (matches f) (x_logs tx0)) as [|l0 ls] eqn:F; [contradiction|].
    exists (AGroup (cb_hash (ch n)) (x_idx tx0) (x_hash tx0) (l0 :: ls)). simpl. repeat split; auto.
    apply in_or_app. left. apply in_flat_map. exists tx0. split; auto. rewrite F. left; reflexivity.
  - exists (AReceipt (cb_hash (ch n)) (x_idx tx0) (x_hash tx0) 1 (x_logs tx0)). simpl. repeat split; auto.
    apply in_or_app. left. apply in_map_iff. exists tx0. auto.
Qed.

(* the caller's trace request brings the traces of every transaction that has any *)
Lemma trace_ops_complete ch n i :
  chain_wf ch -> ftr ch n i <> [] ->
  exists bh th, In (ATraces bh i th (ftr ch n i)) (trace_ops ch n).
Proof.
  intros W Hne. unfold ftr in *. destruct (find_ctx ch n i) as [t|] eqn:F; [|congruence].
  destruct (find_ctx_in _ _ _ _ F) as [Ht Ei]. exists (cb_hash (ch n)), (x_hash t).
  unfold trace_ops. apply in_flat_map. exists t. split; auto.
  destruct (x_traces t) as [|a r] eqn:E; [congruence|]. left. rewrite Ei. reflexivity.
Qed.

Lemma fresh_blk_wf ch b n : chain_wf ch -> wf_blk (fresh_blk ch b n).
Proof.
  intros W. destruct (W n) as [ND _]. destruct b as [[|]|]; split; simpl; try constructor;
    try (intros t []).
  - rewrite map_map. simpl. exact ND.
  - intros t Ht. apply in_map_iff in Ht. destruct Ht as (u & <- & _). simpl. constructor.
Qed.

Lemma fresh_blk_logs ch b n i : logs_of (fresh_blk ch b n) i = [].
Proof.
  unfold logs_of, find_tx. destruct b as [[|]|]; simpl; auto.
  destruct (find _ _) as [t|] eqn:F; auto.
  apply find_some in F. destruct F as [F _]. apply in_map_iff in F. destruct F as (u & <- & _). reflexivity.
Qed.

Lemma fresh_blk_traces ch b n i : traces_of (fresh_blk ch b n) i = [].
Proof.
  unfold traces_of, find_tx. destruct b as [[|]|]; simpl; auto.
  destruct (find _ _) as [t|] eqn:F; auto.
  apply find_some in F. destruct F as [F _]. apply in_map_iff in F. destruct F as (u & <- & _). reflexivity.
Qed.

Lemma fresh_blk_hdr ch k n :
  b_num (fresh_blk ch (Some k) n) = n /\ b_hash (fresh_blk ch (Some k) n) = cb_hash (ch n).
Proof. destruct k; simpl; auto. Qed.

(* ---------- a sequence of (block, operation) pairs, block by block ---------- *)
Definition ops_at (ps : list (N * aop)) (n : N) : list aop :=
  map snd (filter (fun p => fst p =? n) ps).

Lemma ops_at_app a b n : ops_at (a ++ b) n = ops_at a n ++ ops_at b n.
Proof. unfold ops_at. rewrite filter_app, map_app. reflexivity. Qed.

Lemma attach_pairs_map ps : forall bs,
  NoDup (map b_num bs) ->
  attach_pairs ps bs = map (fun b => a_run b (ops_at ps (b_num b))) bs.
Proof.
  induction ps as [|p r IH]; intros bs ND; simpl.
  - symmetry. apply map_id_ext. auto.
  - unfold attach_pairs in *. simpl. rewrite blks_apply_map by auto. rewrite IH.
    + rewrite map_map. apply map_ext. intros b. unfold ops_at. simpl.
      rewrite (N.eqb_sym (fst p) (b_num b)).
      destruct (b_num b =? fst p) eqn:E.
      * destruct (a_step_hdr b (snd p)) as (E1 & _). rewrite E1. reflexivity.
      * reflexivity.
    + rewrite map_map. erewrite map_ext; [exact ND|].
      intros b. simpl. destruct (b_num b =? fst p); auto. destruct (a_step_hdr b (snd p)); auto.
Qed.

Lemma ops_at_single m (l : list aop) n : ops_at (map (pair m) l) n = if n =? m then l else [].
Proof.
  unfold ops_at. induction l as [|o t IHt]; simpl.
  - destruct (n =? m); reflexivity.
  - rewrite (N.eqb_sym m n). destruct (n =? m) eqn:En; simpl; [f_equal|]; exact IHt.
Qed.

Lemma ops_at_pairs_of (F : N -> list aop) ns n :
  NoDup ns -> ops_at (pairs_of F ns) n = if existsb (N.eqb n) ns then F n else [].
Proof.
  induction ns as [|m r IH]; intros ND; simpl; auto.
  inversion ND; subst. unfold pairs_of in *. simpl. rewrite ops_at_app, IH by auto.
  rewrite ops_at_single. destruct (n =? m) eqn:En; simpl; auto.
  replace m with n by lia.
  replace (existsb (N.eqb n) r) with false; [apply app_nil_r|].
  symmetry. apply not_true_is_false. intros Hx. apply existsb_exists in Hx. destruct Hx as (y & Hy & Ey).
  apply H1. replace m with y by lia. auto.
Qed.

Lemma in_krange_existsb k n : In n (krange k) -> existsb (N.eqb n) (krange k) = true.
Proof. intros H. apply existsb_exists. exists n. split; auto. apply N.eqb_refl. Qed.

Lemma uget_map ch b x t f k :
  uget ch b x t f k = map (fun b0 => a_run b0 (caller_ops ch x t f (b_num b0))) (fresh ch b k).
Proof.
  unfold uget. rewrite attach_pairs_map by (rewrite fresh_nums; apply seqN_nodup).
  apply map_ext_in. intros b0 Hin. f_equal.
  assert (Hn : In (b_num b0) (krange k)) by (rewrite <- (fresh_nums ch b k); apply in_map; auto).
  rewrite ops_at_app, ops_at_pairs_of by apply seqN_nodup. rewrite (in_krange_existsb _ _ Hn).
  unfold caller_ops. f_equal. destruct t; [|reflexivity].
  rewrite ops_at_pairs_of by apply seqN_nodup. rewrite (in_krange_existsb _ _ Hn). reflexivity.
Qed.

(* ---------- the invariant of the fine-grained system ---------- *)
Lemma ops_for_snoc sid n tr e :
  ops_for sid n (tr ++ [e]) =
  ops_for sid n tr ++ match e with
                      | GAttach sid' n' op => if Nat.eqb sid sid' && (n =? n') then [op] else []
                      | _ => []
                      end.
Proof. unfold ops_for. rewrite flat_map_app. simpl. rewrite app_nil_r. reflexivity. Qed.

Lemma ops_for_in sid n tr op : In (GAttach sid n op) tr -> In op (ops_for sid n tr).
Proof.
  intros H. unfold ops_for. apply in_flat_map. exists (GAttach sid n op). split; auto.
  rewrite Nat.eqb_refl, N.eqb_refl. left; reflexivity.
Qed.

Lemma ops_for_from sid n tr op : In op (ops_for sid n tr) -> In (GAttach sid n op) tr.
Proof.
  unfold ops_for. intros H. apply in_flat_map in H. destruct H as (e & He & Hop).
  destruct e as [|sid' n' op']; [contradiction|].
  destruct (Nat.eqb sid sid') eqn:E1; destruct (n =? n') eqn:E2; simpl in Hop; try contradiction.
  destruct Hop as [<-|[]]. apply Nat.eqb_eq in E1. subst. replace n with n' by lia. auto.
Qed.

Record ginv (ch : chain) (b : kind) (s : sys (list blk)) (tr : list gev) : Prop := {
  gi_none : forall sid n, (length (c_heap (sy_cache s)) <= sid)%nat -> ops_for sid n tr = [];
  gi_data : forall sid sg, nth_error (c_heap (sy_cache s)) sid = Some sg ->
            match sg_data sg with
            | Some bs => bs = map (fun b0 => a_run b0 (ops_for sid (b_num b0) tr))
                                  (fresh ch (Some b) (sg_key sg))
            | None => forall n, ops_for sid n tr = []
            end;
  gi_ok : forall sid n op, In (GAttach sid n op) tr -> op_ok ch n op
}.

Lemma ginv_init ch b mx : ginv ch b (init_sys mx) [].
Proof.
  constructor; simpl; auto.
  - intros sid sg H. destruct sid; discriminate.
  - intros sid n op [].
Qed.

Lemma ginv_step ch b s tr e s' :
  ginv ch b s tr -> gev_honest ch b s e -> gstep s e = Some s' -> ginv ch b s' (tr ++ [e]).
Proof.
  intros [Gn Gd Gk] Hh S.
  destruct e as [e|sid n op]; simpl in S.
  - (* a cache step: the attach history is unchanged *)
    destruct (step s e) as [[s1 o]|] eqn:St; [|discriminate]. inversion S; subst s1. clear S.
    assert (OF : forall sid n, ops_for sid n (tr ++ [GCache e]) = ops_for sid n tr).
    { intros. rewrite ops_for_snoc, app_nil_r. reflexivity. }
    assert (OK' : forall sid n op, In (GAttach sid n op) (tr ++ [GCache e]) -> op_ok ch n op).
    { intros sid n op Hin. apply in_app_or in Hin. destruct Hin as [Hin|[Hin|[]]]; [eauto|discriminate]. }
    destruct e as [k kept|sid res]; simpl in St.
    + destruct (lookup k kept (sy_cache s)) as [[[c' sid] created]|] eqn:L; [|discriminate].
      inversion St; subst s' o. clear St. simpl.
      destruct (lookup_spec _ _ _ _ _ _ L) as (_ & _ & L3 & L4 & _ & _).
      constructor; simpl; auto.
      * intros sid0 n Hle. rewrite OF. apply Gn. destruct created.
        -- destruct (L4 eq_refl) as [Hh' _]. rewrite Hh', app_length in Hle. simpl in Hle. lia.
        -- destruct (L3 eq_refl) as [Hh' _]. rewrite Hh' in Hle. auto.
      * intros sid0 sg Hn. destruct created.
        -- destruct (L4 eq_refl) as [Hh' Hs]. rewrite Hh' in Hn.
           destruct (Nat.lt_ge_cases sid0 (length (c_heap (sy_cache s)))) as [Hlt|Hge].
           ++ rewrite nth_error_app1 in Hn by auto. specialize (Gd _ _ Hn).
              destruct (sg_data sg); [rewrite Gd at 1; apply map_ext; intros; rewrite OF; reflexivity|].
              intros n. rewrite OF. auto.
           ++ rewrite nth_error_app2 in Hn by auto.
              destruct (sid0 - length (c_heap (sy_cache s)))%nat as [|j] eqn:Ej; simpl in Hn.
              ** inversion Hn; subst sg. simpl. intros n. rewrite OF. apply Gn. lia.
              ** destruct j; discriminate.
        -- destruct (L3 eq_refl) as [Hh' _]. rewrite Hh' in Hn. specialize (Gd _ _ Hn).
           destruct (sg_data sg); [rewrite Gd at 1; apply map_ext; intros; rewrite OF; reflexivity|].
           intros n. rewrite OF. auto.
    + destruct (remove_one sid (sy_pend s)) as [p'|]; [|discriminate].
      destruct (read sid res (sy_cache s)) as [[[c' ret] asked]|] eqn:Rd; [|discriminate].
      inversion St; subst s' o. clear St. simpl.
      destruct (read_spec _ _ _ _ _ _ Rd) as (sg & N0 & _ & _ & R3 & R4 & R5).
      assert (LT : (sid < length (c_heap (sy_cache s)))%nat) by (eapply nth_error_lt; eauto).
      constructor; simpl; auto.
      * intros sid0 n Hle. rewrite OF. apply Gn. rewrite R3, length_upd in Hle. auto.
      * intros sid0 sg0 Hn. rewrite R3 in Hn.
        destruct (Nat.eq_dec sid sid0) as [<-|Hne].
        -- rewrite nth_error_upd_eq in Hn by auto. inversion Hn; subst sg0. simpl.
           pose proof (Gd _ _ N0) as G0.
           destruct asked.
           ++ destruct (R5 eq_refl) as [Hd _]. rewrite Hd in G0.
              destruct res as [d|]; [|intros n; rewrite OF; auto].
              simpl in Hh. unfold seg_key_of in Hh. rewrite N0 in Hh. subst d.
              symmetry. apply map_id_ext. intros b0 _. rewrite OF, G0. reflexivity.
           ++ destruct (sg_data sg); [rewrite G0 at 1; apply map_ext; intros; rewrite OF; reflexivity|].
              intros n. rewrite OF. auto.
        -- rewrite nth_error_upd_neq in Hn by auto. specialize (Gd _ _ Hn).
           destruct (sg_data sg0); [rewrite Gd at 1; apply map_ext; intros; rewrite OF; reflexivity|].
           intros n. rewrite OF. auto.
  - (* an attach step *)
    unfold attach_at in S.
    destruct (nth_error (c_heap (sy_cache s)) sid) as [sg|] eqn:N0; [|discriminate].
    destruct (sg_data sg) as [bs|] eqn:Dd; [|discriminate].
    inversion S; subst s'. clear S. simpl in *.
    assert (LT : (sid < length (c_heap (sy_cache s)))%nat) by (eapply nth_error_lt; eauto).
    unfold set_data. rewrite N0. simpl.
    constructor; simpl.
    + intros sid0 n0 Hle. rewrite length_upd in Hle. rewrite ops_for_snoc.
      rewrite (Gn _ _ Hle). replace (Nat.eqb sid0 sid) with false; auto.
      symmetry. apply Nat.eqb_neq. lia.
    + intros sid0 sg0 Hn. destruct (Nat.eq_dec sid sid0) as [<-|Hne].
      * rewrite nth_error_upd_eq in Hn by auto. inversion Hn; subst sg0. simpl.
        pose proof (Gd _ _ N0) as G0. rewrite Dd in G0.
        assert (ND : NoDup (map b_num bs)).
        { rewrite G0, map_map. erewrite map_ext; [rewrite fresh_nums; apply seqN_nodup|].
          intros b0. simpl. apply a_run_hdr. }
        rewrite blks_apply_map by auto. rewrite G0 at 1. rewrite map_map.
        apply map_ext. intros b0.
        destruct (a_run_hdr (ops_for sid (b_num b0) tr) b0) as [E1 _]. rewrite E1.
        rewrite ops_for_snoc, Nat.eqb_refl. simpl.
        destruct (b_num b0 =? n); [rewrite a_run_snoc|rewrite app_nil_r]; reflexivity.
      * rewrite nth_error_upd_neq in Hn by auto. specialize (Gd _ _ Hn).
        assert (OF : forall n0, ops_for sid0 n0 (tr ++ [GAttach sid n op]) = ops_for sid0 n0 tr).
        { intros. rewrite ops_for_snoc. replace (Nat.eqb sid0 sid) with false; [apply app_nil_r|].
          symmetry. apply Nat.eqb_neq. auto. }
        destruct (sg_data sg0); [rewrite Gd at 1; apply map_ext; intros; rewrite OF; reflexivity|].
        intros n0. rewrite OF. auto.
    + intros sid0 n0 op0 Hin. apply in_app_or in Hin. destruct Hin as [Hin|[Hin|[]]]; [eauto|].
      inversion Hin; subst. exact Hh.
Qed.

Lemma greach_inv ch b mx s tr : greach ch b mx s tr -> ginv ch b s tr.
Proof. induction 1; [apply ginv_init|eapply ginv_step; eauto]. Qed.

(* ---------- the caller's view ---------- *)
Lemma view_of_ops ch k x t f n ops :
  chain_wf ch ->
  (forall op, In op ops -> op_ok ch n op) ->
  (forall op, In op (caller_ops ch x t f n) -> In op ops) ->
  let cb := a_run (fresh_blk ch (Some k) n) ops in
  b_num cb = n /\ b_hash cb = cb_hash (ch n) /\ b_time cb = b_time (fresh_blk ch (Some k) n)
  /\ (t = true -> forall i, traces_of cb i = ftr ch n i)
  /\ forall i, NoDup (idxs (filter (want x f) (logs_of cb i)))
               /\ forall l, In l (filter (want x f) (logs_of cb i)) <-> In l (filter (want x f) (full ch n i)).
Proof.
  intros W Hok Hall cb.
  destruct (a_run_hdr ops (fresh_blk ch (Some k) n)) as [E1 E2].
  destruct (fresh_blk_hdr ch k n) as [F1 F2].
  split; [unfold cb; congruence|]. split.
  { apply a_run_hash; auto. intros op Hin. apply (Hok op Hin). }
  split; [exact E2|]. split.
  { intros -> i.
    destruct (traces_honest (ftr ch n) ops (fresh_blk ch (Some k) n) i) as [H|[H Hno]]; auto.
    - intros bh j th tas Hin. destruct (Hok _ Hin) as (_ & _ & Ht). exact Ht.
    - right. apply fresh_blk_traces.
    - unfold cb. rewrite H. destruct (ftr ch n i) as [|a r] eqn:E; auto.
      exfalso. destruct (trace_ops_complete ch n i W) as (bh & th & Hin); [congruence|].
      apply (Hno bh th (ftr ch n i)). apply Hall. unfold caller_ops. apply in_or_app. right. exact Hin. }
  intros i. apply (attach_projection (full ch n) (fun j => full_nodup ch n j W)).
  - apply fresh_blk_wf; auto.
  - intros j. rewrite fresh_blk_logs. intros l [].
  - apply Forall_forall. intros op Hin. apply (Hok op Hin).
  - intros l Hl Hw. right. destruct (caller_ops_complete ch x t f n i l W Hl Hw) as (op & H1 & H2 & H3).
    exists op. auto.
Qed.

Lemma Forall2_map_same {A B} (P : B -> B -> Prop) (g h : A -> B) l :
  (forall a, In a l -> P (g a) (h a)) -> Forall2 P (map g l) (map h l).
Proof.
  induction l as [|a r IH]; intros H; simpl; constructor.
  - apply H. left; auto.
  - apply IH. intros a' Ha. apply H. right; auto.
Qed.

(* Any interleaving of any callers on one cache, any fetch failures: for
   every filled segment and every caller (extra request x, traces t, filter f)
   whose own attach operations have all been performed on that segment, the
   segment's blocks and the blocks an uncached client returns for the same
   request give the same view. *)
Lemma cached_equiv_uncached ch b mx s tr :
  chain_wf ch -> greach ch b mx s tr ->
  forall sid sg bs x t f,
    nth_error (c_heap (sy_cache s)) sid = Some sg -> sg_data sg = Some bs ->
    (forall n op, In n (krange (sg_key sg)) -> In op (caller_ops ch x t f n) -> In (GAttach sid n op) tr) ->
    Forall2 (same_view x t f) bs (uget ch (Some b) x t f (sg_key sg)).
Proof.
  intros W R sid sg bs x t f N0 Dd Hall.
  pose proof (greach_inv _ _ _ _ _ R) as [Gn Gd Gk].
  specialize (Gd _ _ N0). rewrite Dd in Gd. rewrite Gd, uget_map.
  apply Forall2_map_same. intros b0 Hin.
  destruct (fresh_in _ _ _ _ Hin) as (n & Hn & ->).
  destruct (fresh_blk_hdr ch b n) as [F1 _]. rewrite F1.
  destruct (view_of_ops ch b x t f n (ops_for sid n tr) W) as (C1 & C2 & C3 & C5 & C4).
  { intros op Hop. apply ops_for_from in Hop. eauto. }
  { intros op Hop. apply ops_for_in. auto. }
  destruct (view_of_ops ch b x t f n (caller_ops ch x t f n) W) as (U1 & U2 & U3 & U5 & U4).
  { intros op Hop. eapply caller_ops_ok; eauto. }
  { auto. }
  unfold same_view. repeat split; try congruence.
  - intros Ht i. rewrite (C5 Ht), (U5 Ht). reflexivity.
  - apply C4.
  - apply U4.
  - intros Hl. apply U4. apply C4. auto.
  - intros Hl. apply C4. apply U4. auto.
Qed.

