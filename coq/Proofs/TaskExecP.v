(* A small program logic for interaction trees run by [exec]: [safe p d cs Q]
   says that EVERY script (any faults, any node answers satisfying [G], a
   crash anywhere, a script that ends early) keeps the committed database
   inside [I] after every operation and, if the program returns, ends in [Q]. *)
From Coq Require Import List NArith Bool Lia.
From Shovel Require Import Model.TaskTypes Model.TaskDb Model.Task Model.TaskNode Model.TaskSys
  Model.TaskSpec.
Import ListNotations.
Open Scope N_scope.

Lemma exec_ret : forall u o s d cs, exec u (Ret o) s d cs = Res (Fin o) d cs [].
Proof. intros. destruct s; reflexivity. Qed.

Lemma exec_nil : forall u i k d cs, exec u (Op i k) [] d cs = Res Stuck d cs [].
Proof. reflexivity. Qed.

Lemma exec_crash : forall u i k s d cs, exec u (Op i k) (ACrash :: s) d cs = Res Crashed d None [].
Proof. reflexivity. Qed.

Lemma exec_op : forall u i k a s d cs, a <> ACrash ->
  exec u (Op i k) (a :: s) d cs =
  let t := step_op u d cs i a in
  let x := exec u (k (snd t)) s (fst (fst t)) (snd (fst t)) in
  Res (r_out x) (r_db x) (r_cs x) ((i, snd t, fst (fst t)) :: r_trace x).
Proof. intros. destruct a; [reflexivity|reflexivity|congruence]. Qed.

Lemma last_cons_default : forall {A} (l : list A) x d, last (x :: l) d = last l x.
Proof.
  intros A l. induction l as [|y l IH]; intros x d; [reflexivity|].
  change (last (x :: y :: l) d) with (last (y :: l) d). rewrite IH.
  symmetry. apply IH.
Qed.

(* the committed database at the end is the last one of the trace *)
Lemma exec_db_last : forall u s p d cs,
  r_db (exec u p s d cs) = last (map snd (r_trace (exec u p s d cs))) d.
Proof.
  intros u s. induction s as [|a s IH]; intros p d cs.
  - destruct p; reflexivity.
  - destruct p as [o|i k]; [reflexivity|].
    destruct a; try reflexivity; rewrite exec_op by discriminate; cbn [r_db r_trace map];
      rewrite IH; cbn [snd]; rewrite last_cons_default; reflexivity.
Qed.

Section Logic.
Variable u : bool.
Variable I : db -> Prop.
Variable G : io -> reply -> Prop.
Variable SA : ans -> Prop.   (* which answers the scripts may contain *)

Definition post := outcome -> db -> cstate -> Prop.

Definition safe (p : prog) (d : db) (cs : cstate) (Q : post) : Prop :=
  forall s, Forall SA s -> trace_sat G (exec u p s d cs) ->
    Forall (fun e => I (snd e)) (r_trace (exec u p s d cs))
    /\ I (r_db (exec u p s d cs))
    /\ forall o, r_out (exec u p s d cs) = Fin o ->
                 Q o (r_db (exec u p s d cs)) (r_cs (exec u p s d cs)).

Lemma safe_ret : forall o d cs (Q : post), I d -> Q o d cs -> safe (Ret o) d cs Q.
Proof.
  intros o d cs Q Hi Hq s _ _. rewrite exec_ret. cbn.
  split; [constructor|]. split; [exact Hi|]. intros o' E. inversion E; subst. exact Hq.
Qed.

Lemma safe_op : forall i k d cs (Q : post),
  I d ->
  (forall a, a <> ACrash -> SA a -> G i (snd (step_op u d cs i a)) ->
     I (fst (fst (step_op u d cs i a)))
     /\ safe (k (snd (step_op u d cs i a))) (fst (fst (step_op u d cs i a)))
             (snd (fst (step_op u d cs i a))) Q) ->
  safe (Op i k) d cs Q.
Proof.
  intros i k d cs Q Hi H s Hsa Ht.
  destruct s as [|a s].
  - rewrite exec_nil in *. cbn. split; [constructor|]. split; [exact Hi|]. discriminate.
  - destruct (match a with ACrash => true | _ => false end) eqn:Ea.
    + destruct a; try discriminate. rewrite exec_crash in *. cbn.
      split; [constructor|]. split; [exact Hi|]. discriminate.
    + assert (Hna : a <> ACrash) by (destruct a; congruence).
      rewrite exec_op in * by exact Hna. cbn zeta in *. cbn [r_trace r_db r_out r_cs] in *.
      unfold trace_sat in Ht. cbn [r_trace] in Ht.
      inversion Ht as [|? ? Hg Hrest]; subst. cbn [fst snd] in Hg.
      inversion Hsa as [|? ? Hsa1 Hsa2]; subst.
      destruct (H a Hna Hsa1 Hg) as [Hi' Hs].
      destruct (Hs s Hsa2 Hrest) as (A & B & C).
      split; [constructor; [exact Hi'|exact A]|]. split; [exact B|exact C].
Qed.

Lemma safe_weaken : forall p d cs (Q Q' : post),
  (forall o d' cs', Q o d' cs' -> Q' o d' cs') -> safe p d cs Q -> safe p d cs Q'.
Proof.
  intros p d cs Q Q' H Hs s Hsa Ht. destruct (Hs s Hsa Ht) as (A & B & C).
  split; [exact A|]. split; [exact B|]. intros o E. apply H. apply C. exact E.
Qed.

(* ---------- what one operation can do ---------- *)
(* node operations never touch the database *)
Lemma step_op_node : forall d cs i a, is_db_op i = false ->
  fst (step_op u d cs i a) = (d, cs).
Proof. intros d cs i a H. unfold step_op. rewrite H. destruct a; reflexivity. Qed.

Lemma safe_op_node : forall i k d cs (Q : post),
  is_db_op i = false -> I d ->
  (forall r, G i r -> safe (k r) d cs Q) ->
  safe (Op i k) d cs Q.
Proof.
  intros i k d cs Q Hn Hi H. apply safe_op; [exact Hi|].
  intros a Ha _ Hg. pose proof (step_op_node d cs i a Hn) as E.
  destruct (step_op u d cs i a) as [[d' cs'] r]. cbn [fst snd] in *. inversion E; subst.
  split; [exact Hi|]. apply H. exact Hg.
Qed.

(* operations inside a transaction other than Begin / Commit / Rollback *)
Definition is_tx_op (i : io) : bool :=
  match i with
  | QLatest _ _ | DelCursors _ _ _ | QPrev _ _ | DelRows _ _ _ _
  | CopyRows _ _ | InsCursor _ _ _ _ | QRef _ _ _ => true
  | _ => false
  end.

Lemma db_step_tx_db : forall d ws i, is_tx_op i = true ->
  fst (fst (db_step u d (Some ws) i)) = d.
Proof.
  intros d ws i H. destruct i; try discriminate; cbn [db_step do_write]; try reflexivity.
  - destruct (u && copy_collides _ _); reflexivity.
  - destruct (cur_collides _ _); reflexivity.
Qed.

Lemma is_tx_op_db : forall i, is_tx_op i = true -> is_db_op i = true.
Proof. intros i H. destruct i; try discriminate; reflexivity. Qed.

(* in a transaction: either the database answered, or the op failed without
   effect and the transaction is still open or gone with its connection *)
Lemma forced_dep_tx : forall i a, is_tx_op i = true -> forced_dep i a = None.
Proof.
  intros i a H. unfold forced_dep. destruct a as [|r|]; try reflexivity.
  destruct r; try reflexivity. destruct i; try discriminate; reflexivity.
Qed.

Lemma fault_tx : forall d ws i k,
  (is_tx_op i = true \/ exists s deps, i = QLatestDep s deps) ->
  exists cs', fault u d (Some ws) i k = (d, cs', RFail k) /\ (cs' = Some ws \/ cs' = None).
Proof.
  intros d ws i k H. unfold fault. destruct k.
  - exists (Some ws). destruct H as [H|(s & deps & ->)]; [destruct i; try discriminate|];
      (split; [reflexivity|left; reflexivity]).
  - exists None. split; [reflexivity|right; reflexivity].
  - exists None. assert (E : fst (fst (db_step u d (Some ws) i)) = d).
    { destruct H as [H|(s & deps & ->)]; [apply db_step_tx_db; exact H|reflexivity]. }
    destruct (db_step u d (Some ws) i) as [[d' c'] r']. cbn [fst] in E. subst d'.
    split; [reflexivity|right; reflexivity].
  - exists (Some ws). destruct H as [H|(s & deps & ->)]; [destruct i; try discriminate|];
      (split; [reflexivity|left; reflexivity]).
  - exists (Some ws). destruct H as [H|(s & deps & ->)]; [destruct i; try discriminate|];
      (split; [reflexivity|left; reflexivity]).
Qed.

Lemma step_op_tx : forall d ws i a, is_tx_op i = true -> a <> ACrash ->
  step_op u d (Some ws) i a = db_step u d (Some ws) i
  \/ exists k cs', step_op u d (Some ws) i a = (d, cs', RFail k) /\ (cs' = Some ws \/ cs' = None).
Proof.
  intros d ws i a H Ha. unfold step_op. rewrite (is_tx_op_db i H), (forced_dep_tx i a H).
  destruct a as [|r|]; [left; reflexivity| |congruence].
  destruct r as [| | k | | | | | | |]; try (left; reflexivity).
  right. destruct (fault_tx d ws i k (or_introl H)) as (cs' & E & Hc). exists k, cs'. split; assumption.
Qed.

(* the dependency query: the database answers, or the query fails, or the
   reading is forced *)
Lemma step_op_dep : forall d ws s deps a, a <> ACrash ->
  step_op u d (Some ws) (QLatestDep s deps) a = db_step u d (Some ws) (QLatestDep s deps)
  \/ (exists k cs', step_op u d (Some ws) (QLatestDep s deps) a = (d, cs', RFail k)
                    /\ (cs' = Some ws \/ cs' = None))
  \/ exists x, a = AReply (RDep x)
               /\ step_op u d (Some ws) (QLatestDep s deps) a = (d, Some ws, RDep x).
Proof.
  intros d ws s deps a Ha. unfold step_op. cbn [is_db_op].
  destruct a as [|r|]; [left; reflexivity| |congruence].
  destruct r as [| | k | | o | | | | |]; try (left; reflexivity).
  - right. left. cbn [forced_dep].
    destruct (fault_tx d ws (QLatestDep s deps) k (or_intror (ex_intro _ s (ex_intro _ deps eq_refl))))
      as (cs' & E & Hc). exists k, cs'. split; assumption.
  - right. right. exists o. split; reflexivity.
Qed.

Lemma safe_op_tx : forall i k d ws (Q : post),
  is_tx_op i = true -> I d ->
  (forall r cs', is_fail r = true -> (cs' = Some ws \/ cs' = None) -> safe (k r) d cs' Q) ->
  (forall cs' r, db_step u d (Some ws) i = (d, cs', r) -> safe (k r) d cs' Q) ->
  safe (Op i k) d (Some ws) Q.
Proof.
  intros i k d ws Q Ht Hi Hf Hn. apply safe_op; [exact Hi|].
  intros a Ha _ _. destruct (step_op_tx d ws i a Ht Ha) as [E|(kd & cs' & E & Hc)].
  - rewrite E. pose proof (db_step_tx_db d ws i Ht) as D.
    destruct (db_step u d (Some ws) i) as [[d' cs'] r] eqn:S. cbn [fst snd] in *. subst d'.
    split; [exact Hi|]. apply Hn. reflexivity.
  - rewrite E. cbn [fst snd]. split; [exact Hi|]. apply Hf; [reflexivity|exact Hc].
Qed.

Lemma safe_op_dep : forall s deps k d ws (Q : post),
  I d ->
  (forall r cs', is_fail r = true -> (cs' = Some ws \/ cs' = None) -> safe (k r) d cs' Q) ->
  safe (k (snd (db_step u d (Some ws) (QLatestDep s deps)))) d (Some ws) Q ->
  (forall x, SA (AReply (RDep x)) -> safe (k (RDep x)) d (Some ws) Q) ->
  safe (Op (QLatestDep s deps) k) d (Some ws) Q.
Proof.
  intros s deps k d ws Q Hi Hf Hn Hx. apply safe_op; [exact Hi|].
  intros a Ha Hsa _. destruct (step_op_dep d ws s deps a Ha) as [E|[(kd & cs' & E & Hc)|(x & -> & E)]];
    rewrite E; cbn [fst snd].
  - split; [exact Hi|exact Hn].
  - split; [exact Hi|]. apply Hf; [reflexivity|exact Hc].
  - split; [exact Hi|]. apply Hx. exact Hsa.
Qed.

(* Rollback always ends the transaction and never changes the committed state *)
Lemma step_op_rollback : forall d cs a, a <> ACrash ->
  fst (step_op u d cs Rollback a) = (d, None).
Proof.
  intros d cs a Ha. unfold step_op. cbn [is_db_op].
  destruct a as [|r|]; [reflexivity| |congruence].
  destruct r as [| | k | | | | | | |]; try reflexivity. destruct k; reflexivity.
Qed.

Lemma safe_rb : forall o d cs (Q : post), I d -> Q o d None -> safe (rb o) d cs Q.
Proof.
  intros o d cs Q Hi Hq. unfold rb. apply safe_op; [exact Hi|].
  intros a Ha _ _. pose proof (step_op_rollback d cs a Ha) as E.
  destruct (step_op u d cs Rollback a) as [[d' cs'] r]. cbn [fst snd] in *. inversion E; subst.
  split; [exact Hi|]. apply safe_ret; assumption.
Qed.

Lemma safe_bad_reply : forall r d cs (Q : post),
  I d -> Q OFailed d None -> Q OPanicked d None -> safe (bad_reply r) d cs Q.
Proof.
  intros r d cs Q Hi Hf Hp. unfold bad_reply.
  destruct r as [| | k | | | | | | |]; try (apply safe_rb; assumption).
  destruct k; apply safe_rb; assumption.
Qed.

(* Begin outside a transaction *)
Lemma step_op_begin : forall d a, a <> ACrash ->
  step_op u d None Begin a = (d, Some [], RUnit)
  \/ exists k, step_op u d None Begin a = (d, None, RFail k).
Proof.
  intros d a Ha. unfold step_op. cbn [is_db_op].
  destruct a as [|r|]; [left; reflexivity| |congruence].
  destruct r as [| | k | | | | | | |]; try (left; reflexivity).
  right. exists k. destruct k; reflexivity.
Qed.

(* Commit of an open transaction *)
Lemma step_op_commit : forall d ws a, a <> ACrash ->
  step_op u d (Some ws) Commit a = (apply_ws ws d, None, RUnit)
  \/ step_op u d (Some ws) Commit a = (apply_ws ws d, None, RFail KDropAfter)
  \/ exists k, step_op u d (Some ws) Commit a = (d, None, RFail k).
Proof.
  intros d ws a Ha. unfold step_op. cbn [is_db_op].
  destruct a as [|r|]; [left; reflexivity| |congruence].
  destruct r as [| | k | | | | | | |]; try (left; reflexivity).
  destruct k; try (right; right; eexists; reflexivity).
  right. left. reflexivity.
Qed.

End Logic.
