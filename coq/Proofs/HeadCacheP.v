(* Proofs about the head cache model (Model/HeadCache.v). *)
From Coq Require Import List NArith Bool Arith Lia ZifyBool ZifyN ZifyNat.
From Shovel Require Import Base.Outcome Model.HeadCache.
Import ListNotations.
Open Scope N_scope.
Arguments N.add : simpl never.
Arguments N.sub : simpl never.
Arguments N.mul : simpl never.
Arguments N.leb : simpl never.
Arguments N.ltb : simpl never.
Arguments N.eqb : simpl never.

Lemma pad32_id h : length h = 32%nat -> pad32 h = h.
Proof.
  intros L. unfold pad32. rewrite <- L. rewrite firstn_app, Nat.sub_diag. simpl.
  rewrite app_nil_r. apply firstn_all.
Qed.

Lemma pad32_length h : length (pad32 h) = 32%nat.
Proof.
  unfold pad32. rewrite firstn_length, app_length, repeat_length. lia.
Qed.

Lemma h_run_app st a b :
  h_run st (a ++ b) =
  let '(st1, os1) := h_run st a in let '(st2, os2) := h_run st1 b in (st2, os1 ++ os2).
Proof.
  revert st; induction a as [|op r IH]; intros st; simpl.
  - destruct (h_run st b); reflexivity.
  - destruct (h_step st op) as [st1 o]. rewrite IH.
    destruct (h_run st1 r) as [st2 os]. destruct (h_run st2 b) as [st3 os3]. reflexivity.
Qed.

Lemma h_step_max st op : h_max (fst (h_step st op)) = h_max st.
Proof.
  destruct op as [n h| |n]; simpl.
  - destruct (n <=? h_num st); reflexivity.
  - reflexivity.
  - destruct (h_err st); [reflexivity|].
    destruct ((n =? 0) || (h_num st <? n)); [reflexivity|].
    destruct (h_max st <=? h_nreads st); reflexivity.
Qed.

(* ---- a hit needs: no pending error, floor <> 0, cached number >= floor,
        fewer than maxreads reads counted; it returns the cached pair and
        counts one read ---- *)
Lemma hit_conditions st n st' m h :
  h_step st (HGet n) = (st', OHit m h) ->
  h_err st = false /\ n <> 0 /\ n <= m /\ m = h_num st /\ h = pad32 (h_hash st)
  /\ h_nreads st < h_max st /\ h_nreads st' = h_nreads st + 1
  /\ h_num st' = h_num st /\ h_hash st' = h_hash st.
Proof.
  simpl. destruct (h_err st) eqn:E; [discriminate|].
  destruct ((n =? 0) || (h_num st <? n)) eqn:C; [discriminate|].
  destruct (h_max st <=? h_nreads st) eqn:M; [discriminate|].
  intros H; inversion H; subst; simpl. repeat split; auto; lia.
Qed.

(* and conversely these conditions give a hit *)
Lemma hit_when st n :
  h_err st = false -> n <> 0 -> n <= h_num st -> h_nreads st < h_max st ->
  exists st', h_step st (HGet n) = (st', OHit (h_num st) (pad32 (h_hash st))).
Proof.
  intros E N0 Le Lt. simpl. rewrite E.
  replace ((n =? 0) || (h_num st <? n)) with false by lia.
  replace (h_max st <=? h_nreads st) with false by lia.
  eexists; reflexivity.
Qed.

(* ---- announced pairs ---- *)
Definition announced_inv (anns : list hop) (st : head) : Prop :=
  h_num st <> 0 -> In (HUpdate (h_num st) (h_hash st)) anns.

Lemma announced_step anns st op :
  announced_inv anns st -> announced_inv (anns ++ [op]) (fst (h_step st op)).
Proof.
  unfold announced_inv. intros I.
  destruct op as [n h| |n]; simpl.
  - destruct (n <=? h_num st) eqn:C; simpl; intros H.
    + apply in_or_app. left. auto.
    + apply in_or_app. right. left. reflexivity.
  - intros H. apply in_or_app. left. auto.
  - destruct (h_err st); simpl; [intros H; apply in_or_app; left; auto|].
    destruct ((n =? 0) || (h_num st <? n)); simpl; [intros H; apply in_or_app; left; auto|].
    destruct (h_max st <=? h_nreads st); simpl; intros H; [congruence|].
    apply in_or_app; left; auto.
Qed.

Lemma announced_run ops : forall anns st,
  announced_inv anns st -> announced_inv (anns ++ ops) (fst (h_run st ops)).
Proof.
  induction ops as [|op r IH]; intros anns st I; simpl.
  - rewrite app_nil_r. exact I.
  - destruct (h_step st op) as [st1 o] eqn:S.
    destruct (h_run st1 r) as [st2 os] eqn:R. simpl.
    replace (anns ++ op :: r) with ((anns ++ [op]) ++ r) by (rewrite <- app_assoc; reflexivity).
    pose proof (IH (anns ++ [op]) st1) as IH1. rewrite R in IH1. simpl in IH1. apply IH1.
    pose proof (announced_step anns st op I) as A. rewrite S in A. exact A.
Qed.

(* any interleaving of announcements, failures and gets: a hit returns a pair
   that an earlier announcement carried (hashes are 32 bytes) *)
Lemma pair_announced mx ops1 n :
  (forall m h, In (HUpdate m h) ops1 -> length h = 32%nat) ->
  forall st' m h, h_step (fst (h_run (head_init mx) ops1)) (HGet n) = (st', OHit m h) ->
  In (HUpdate m h) ops1.
Proof.
  intros L st' m h H.
  pose proof (announced_run ops1 [] (head_init mx)) as A. simpl in A.
  assert (I0 : announced_inv [] (head_init mx)) by (intros H0; simpl in H0; congruence).
  specialize (A I0).
  destruct (hit_conditions _ _ _ _ _ H) as (_ & N0 & Le & Em & Eh & _).
  assert (NZ : h_num (fst (h_run (head_init mx) ops1)) <> 0) by lia.
  specialize (A NZ). subst m h.
  rewrite pad32_id; [exact A|]. eapply L; eauto.
Qed.

(* ---- bounded hits ---- *)
(* potential: how many more hits are possible before a reset *)
Definition potential (st : head) : N :=
  if h_num st =? 0 then 0 else h_max st - h_nreads st.

Lemma count_cons {A} (f : A -> bool) x l :
  count f (x :: l) = (if f x then 1 else 0) + count f l.
Proof. unfold count. cbn [filter]. destruct (f x); cbn [length]; rewrite ?Nat2N.inj_succ; lia. Qed.

Lemma potential_step st op st1 o :
  h_step st op = (st1, o) ->
  (if is_hit o then 1 else 0) + potential st1
  <= potential st + (if is_reset o then h_max st else 0).
Proof.
  unfold potential. destruct op as [n h| |n]; simpl.
  - destruct (n <=? h_num st) eqn:C; intros S; inversion S; subst st1 o; simpl.
    + destruct (h_num st =? 0); lia.
    + destruct (n =? 0) eqn:N0; destruct (h_num st =? 0); lia.
  - intros S; inversion S; subst st1 o; simpl. destruct (h_num st =? 0); lia.
  - destruct (h_err st) eqn:E.
    { intros S; inversion S; subst st1 o; simpl. destruct (h_num st =? 0); lia. }
    destruct ((n =? 0) || (h_num st <? n)) eqn:C.
    { intros S; inversion S; subst st1 o; simpl. destruct (h_num st =? 0); lia. }
    destruct (h_max st <=? h_nreads st) eqn:M; intros S; inversion S; subst st1 o; simpl.
    + destruct (h_num st =? 0); lia.
    + destruct (h_num st =? 0) eqn:Z; lia.
Qed.

Lemma hits_amortized ops : forall st os st',
  h_run st ops = (st', os) ->
  count is_hit os <= potential st + h_max st * count is_reset os.
Proof.
  induction ops as [|op r IH]; intros st os st' H; simpl in H.
  - inversion H; subst. unfold count; simpl. lia.
  - destruct (h_step st op) as [st1 o] eqn:S.
    destruct (h_run st1 r) as [st2 os2] eqn:R. inversion H; subst st' os. clear H.
    specialize (IH _ _ _ R). rewrite !count_cons.
    pose proof (h_step_max st op) as Mx. rewrite S in Mx. simpl in Mx. rewrite Mx in IH.
    pose proof (potential_step _ _ _ _ S) as P.
    destruct (is_hit o); destruct (is_reset o); nia.
Qed.

Lemma potential_le_max st : potential st <= h_max st.
Proof. unfold potential. destruct (h_num st =? 0); lia. Qed.

(* between two occasions on which the source is heard from (advancing
   announcement) or the poller fails, at most maxreads hits *)
Lemma hits_bounded st ops st' os :
  h_run st ops = (st', os) -> count is_reset os = 0 -> count is_hit os <= h_max st.
Proof.
  intros H Z. pose proof (hits_amortized _ _ _ _ H) as A. pose proof (potential_le_max st). nia.
Qed.

Lemma hits_bounded_general st ops st' os :
  h_run st ops = (st', os) -> count is_hit os <= h_max st * (1 + count is_reset os).
Proof.
  intros H. pose proof (hits_amortized _ _ _ _ H) as A. pose proof (potential_le_max st). nia.
Qed.

(* repeats and regressions are ignored: they do not touch the cache *)
Lemma stale_update_ignored st n h : n <= h_num st -> h_step st (HUpdate n h) = (st, OIgnored).
Proof. intros L. simpl. replace (n <=? h_num st) with true by lia. reflexivity. Qed.

(* ---- a poller error forces the next get to miss ---- *)
Lemma error_forces_miss st n :
  exists st', h_step (fst (h_step st HError)) (HGet n) = (st', OErrCleared)
    /\ h_err st' = false /\ h_once st' = false.
Proof. simpl. eexists. split; [reflexivity|]. simpl. auto. Qed.

Lemma error_forces_fetch st n src :
  let '(st', r, asked, _) := h_latest n src (fst (h_step st HError)) in
  asked = true /\ r = src /\ h_once st' = false.
Proof.
  unfold h_latest. simpl. destruct src as [[m h]|]; simpl.
  - destruct (m <=? h_num st); simpl; auto.
  - auto.
Qed.

(* ---- monotone: while nothing expires, the cached number never decreases,
        and stays with the same hash while the number is the same ---- *)
Lemma step_monotone st op st' o :
  h_step st op = (st', o) -> is_expired o = false ->
  h_num st <= h_num st' /\ (h_num st = h_num st' -> h_hash st = h_hash st').
Proof.
  destruct op as [n h| |n]; simpl.
  - destruct (n <=? h_num st) eqn:C; intros H; inversion H; subst; simpl; intros _; split; auto; lia.
  - intros H; inversion H; subst; simpl; auto. intros _; split; auto; lia.
  - destruct (h_err st); [intros H; inversion H; subst; simpl; intros _; split; auto; lia|].
    destruct ((n =? 0) || (h_num st <? n)); [intros H; inversion H; subst; simpl; intros _; split; auto; lia|].
    destruct (h_max st <=? h_nreads st); intros H; inversion H; subst; simpl; [discriminate|].
    intros _; split; auto; lia.
Qed.

Lemma run_monotone ops : forall st st' os,
  h_run st ops = (st', os) -> count is_expired os = 0 ->
  h_num st <= h_num st' /\ (h_num st = h_num st' -> h_hash st = h_hash st').
Proof.
  induction ops as [|op r IH]; intros st st' os H Z; simpl in H.
  - inversion H; subst. split; auto; lia.
  - destruct (h_step st op) as [st1 o] eqn:S.
    destruct (h_run st1 r) as [st2 os2] eqn:R. inversion H; subst st' os. clear H.
    rewrite count_cons in Z.
    assert (Eo : is_expired o = false) by (destruct (is_expired o); [lia|reflexivity]).
    assert (Z2 : count is_expired os2 = 0) by (destruct (is_expired o); lia).
    destruct (step_monotone _ _ _ _ S Eo) as [A1 A2].
    destruct (IH _ _ _ R Z2) as [B1 B2].
    split; [lia|]. intros E. assert (h_num st = h_num st1) by lia.
    rewrite A2 by auto. apply B2. lia.
Qed.

(* two hits with no expiry in between: numbers do not go back; same number,
   same hash *)
Lemma hits_monotone st n1 st1 m1 h1 ops st2 os n2 st3 m2 h2 :
  h_step st (HGet n1) = (st1, OHit m1 h1) ->
  h_run st1 ops = (st2, os) -> count is_expired os = 0 ->
  h_step st2 (HGet n2) = (st3, OHit m2 h2) ->
  m1 <= m2 /\ (m1 = m2 -> h1 = h2).
Proof.
  intros H1 R Z H2.
  destruct (hit_conditions _ _ _ _ _ H1) as (_ & _ & _ & E1 & Eh1 & _ & _ & K1 & K1').
  destruct (hit_conditions _ _ _ _ _ H2) as (_ & _ & _ & E2 & Eh2 & _).
  destruct (run_monotone _ _ _ _ R Z) as [A1 A2].
  subst. rewrite <- K1 in *. rewrite <- K1'. split; [lia|].
  intros E. rewrite A2; auto.
Qed.

(* ---- sequential client level: whatever Latest returns was announced ---- *)
Definition l_inv (anns : list (N * bytes)) (st : head) : Prop :=
  h_num st <> 0 -> In (h_num st, h_hash st) anns.

Lemma l_step_inv anns st op :
  l_inv anns st -> l_inv (anns ++ l_announced [op]) (fst (l_step st op)).
Proof.
  unfold l_inv. intros I. destruct op as [n h| |n src]; simpl.
  - destruct (n <=? h_num st); simpl; intros H; apply in_or_app; [left; auto|right; left; auto].
  - rewrite app_nil_r. auto.
  - unfold h_latest. simpl.
    destruct (h_err st); simpl.
    + destruct src as [[m h]|]; simpl.
      * destruct (m <=? h_num st); simpl; intros H; apply in_or_app; [left; auto|right; left; auto].
      * rewrite app_nil_r. auto.
    + destruct ((n =? 0) || (h_num st <? n)); simpl.
      * destruct src as [[m h]|]; simpl.
        -- destruct (m <=? h_num st); simpl; intros H; apply in_or_app; [left; auto|right; left; auto].
        -- rewrite app_nil_r. auto.
      * destruct (h_max st <=? h_nreads st); simpl.
        -- destruct src as [[m h]|]; simpl.
           ++ destruct (m <=? 0); simpl; intros H; [congruence|]. apply in_or_app; right; left; auto.
           ++ intros H; congruence.
        -- intros H. apply in_or_app. left. auto.
Qed.

Lemma l_announced_app a b : l_announced (a ++ b) = l_announced a ++ l_announced b.
Proof.
  induction a as [|op r IH]; simpl; auto.
  destruct op as [n h| |n [p|]]; simpl; rewrite ?IH; auto.
Qed.

Lemma l_run_inv ops : forall anns st,
  l_inv anns st -> l_inv (anns ++ l_announced ops) (fst (l_run st ops)).
Proof.
  induction ops as [|op r IH]; intros anns st I.
  - simpl. rewrite app_nil_r. exact I.
  - change (op :: r) with ([op] ++ r) at 1. rewrite l_announced_app, app_assoc.
    cbn [l_run app]. destruct (l_step st op) as [st1 o] eqn:S.
    destruct (l_run st1 r) as [st2 os] eqn:R. cbn [fst].
    pose proof (l_step_inv anns st op I) as A. rewrite S in A. cbn [fst] in A.
    pose proof (IH _ _ A) as B. rewrite R in B. exact B.
Qed.

Lemma latest_pair_announced mx ops1 n src st' m h asked started :
  (forall p, In p (l_announced ops1) -> length (snd p) = 32%nat) ->
  h_latest n src (fst (l_run (head_init mx) ops1)) = (st', Some (m, h), asked, started) ->
  In (m, h) (l_announced (ops1 ++ [LLatest n src])).
Proof.
  intros L H. rewrite l_announced_app.
  pose proof (l_run_inv ops1 [] (head_init mx)) as A. simpl in A.
  assert (I0 : l_inv [] (head_init mx)) by (intros H0; simpl in H0; congruence).
  specialize (A I0). set (st := fst (l_run (head_init mx) ops1)) in *.
  unfold h_latest in H.
  match type of H with context [h_step ?s (HGet n)] => destruct (h_step s (HGet n)) as [st1 o] eqn:S end.
  assert (MISS : forall x, src = Some x -> In x (l_announced ops1 ++ l_announced [LLatest n src])).
  { intros x ->. apply in_or_app. right. left. reflexivity. }
  destruct o; try (destruct src as [[m' h']|]; inversion H; subst; apply MISS; reflexivity).
  inversion H; subst. clear H.
  destruct (hit_conditions _ _ _ _ _ S) as (_ & N0 & Le & Em & Eh & _). simpl in *.
  apply in_or_app. left.
  assert (NZ : h_num st <> 0) by lia. specialize (A NZ). subst m h.
  rewrite pad32_id; [exact A|]. apply (L _ A).
Qed.
