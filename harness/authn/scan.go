// Package authn (group of property C19): ScanRoutes reads cmd/shovel/main.go: the
// table of (pattern, web.Handler method, registered through Authn?) of every
// route registration. It refuses (exit 2, "shape changed") when the source no
// longer has the syntactic shape it understands; that is reported by bin/check
// as a broken tie, never ignored.
//
// What it understands:
//
//	wh := web.New(...)                       (the web handler variable; := or var ... =)
//	mux := http.NewServeMux()                (one or more mux variables)
//	X.Handle("lit", E) / X.HandleFunc("lit", E)   for ANY receiver X (mux variable, http = DefaultServeMux)
//
// with E one of
//
//	wh.Authn(wh.M)            -> wrapped, handler M
//	wh.M                      -> not wrapped, handler M
//	anything else             -> not wrapped, handler "ext:<source text>"; every
//	                             wh.M mentioned inside E is reported as an
//	                             additional unwrapped route of M under the same pattern
//
// Every other mention of wh.M (M one of the web.Handler methods that the Coq
// checker treats as mutating is decided in Coq, so: EVERY method value wh.M
// that is not the callee of a call) outside those positions is reported as an
// unwrapped route with pattern "<use at line N>".
// The server must be started on one of the mux variables
// (http.ListenAndServe(_, <expr mentioning mux>)).
package authn

import (
	"bytes"
	"fmt"
	"go/ast"
	"go/parser"
	"go/printer"
	"go/token"
	"path/filepath"
	"strconv"
	"strings"
)

// Route is one registration found in main.go.
type Route struct {
	Pattern, Hname string
	Wrapped        bool
}

type shapeErr struct{ msg string }

func (e shapeErr) Error() string { return "shape changed: " + e.msg }

func refuse(format string, a ...any) { panic(shapeErr{fmt.Sprintf(format, a...)}) }
func src(fset *token.FileSet, n ast.Node) string {
	var b bytes.Buffer
	printer.Fprint(&b, fset, n)
	s := strings.Join(strings.Fields(b.String()), " ")
	if len(s) > 60 {
		s = s[:60]
	}
	return s
}

// isCallTo reports whether e is a call pkg.fn(...)
func isCallTo(e ast.Expr, pkg, fn string) bool {
	c, ok := e.(*ast.CallExpr)
	if !ok {
		return false
	}
	s, ok := c.Fun.(*ast.SelectorExpr)
	if !ok {
		return false
	}
	id, ok := s.X.(*ast.Ident)
	return ok && id.Name == pkg && s.Sel.Name == fn
}

// ScanRoutes returns the route table of <repo>/cmd/shovel/main.go; the error
// says "shape changed: ..." when the source is not of the understood shape.
func ScanRoutes(repo string) (routes []Route, err error) {
	defer func() {
		if r := recover(); r != nil {
			if se, ok := r.(shapeErr); ok {
				routes, err = nil, se
				return
			}
			panic(r)
		}
	}()
	path := filepath.Join(repo, "cmd", "shovel", "main.go")
	fset := token.NewFileSet()
	f, err := parser.ParseFile(fset, path, nil, 0)
	if err != nil {
		refuse("cannot parse %s: %v", path, err)
	}
	// import names of net/http and shovel/web
	httpName, webName := "", ""
	for _, im := range f.Imports {
		p, _ := strconv.Unquote(im.Path.Value)
		name := filepath.Base(p)
		if im.Name != nil {
			name = im.Name.Name
		}
		switch p {
		case "net/http":
			httpName = name
		case "github.com/indexsupply/shovel/shovel/web":
			webName = name
		}
	}
	if httpName == "" || webName == "" {
		refuse("main.go does not import net/http and shovel/web")
	}

	// variables bound to web.New(...) and http.NewServeMux()
	whVars := map[string]bool{}
	muxVars := map[string]bool{}
	bind := func(lhs []string, rhs []ast.Expr) {
		if len(lhs) != len(rhs) {
			return
		}
		for i, e := range rhs {
			if isCallTo(e, webName, "New") {
				whVars[lhs[i]] = true
			}
			if isCallTo(e, httpName, "NewServeMux") {
				muxVars[lhs[i]] = true
			}
		}
	}
	ast.Inspect(f, func(n ast.Node) bool {
		switch x := n.(type) {
		case *ast.AssignStmt:
			var names []string
			for _, l := range x.Lhs {
				if id, ok := l.(*ast.Ident); ok {
					names = append(names, id.Name)
				} else {
					names = append(names, "")
				}
			}
			bind(names, x.Rhs)
		case *ast.ValueSpec:
			var names []string
			for _, id := range x.Names {
				names = append(names, id.Name)
			}
			bind(names, x.Values)
		}
		return true
	})
	if len(whVars) != 1 {
		refuse("expected exactly one variable bound to %s.New(...), found %d", webName, len(whVars))
	}
	if len(muxVars) == 0 {
		refuse("no variable bound to %s.NewServeMux()", httpName)
	}
	isWh := func(e ast.Expr) bool {
		id, ok := e.(*ast.Ident)
		return ok && whVars[id.Name]
	}
	// wh.M as a method VALUE (not the callee of a call)
	whMethod := func(e ast.Expr) (string, bool) {
		s, ok := e.(*ast.SelectorExpr)
		if ok && isWh(s.X) {
			return s.Sel.Name, true
		}
		return "", false
	}

	accounted := map[ast.Node]bool{} // selector nodes wh.M already turned into a route
	callee := map[ast.Node]bool{}    // selector nodes that are the Fun of a call (wh.PushUpdates())
	ast.Inspect(f, func(n ast.Node) bool {
		if c, ok := n.(*ast.CallExpr); ok {
			if s, ok := c.Fun.(*ast.SelectorExpr); ok {
				callee[s] = true
			}
		}
		return true
	})
	// mentions collects every wh.M method value inside e
	mentions := func(e ast.Node) []*ast.SelectorExpr {
		var res []*ast.SelectorExpr
		ast.Inspect(e, func(n ast.Node) bool {
			if s, ok := n.(*ast.SelectorExpr); ok {
				if _, ok := whMethod(s); ok && !callee[s] {
					res = append(res, s)
				}
			}
			return true
		})
		return res
	}

	served := false
	ast.Inspect(f, func(n ast.Node) bool {
		c, ok := n.(*ast.CallExpr)
		if !ok {
			return true
		}
		s, ok := c.Fun.(*ast.SelectorExpr)
		if !ok {
			return true
		}
		if id, ok := s.X.(*ast.Ident); ok && id.Name == httpName &&
			(s.Sel.Name == "ListenAndServe" || s.Sel.Name == "ListenAndServeTLS" || s.Sel.Name == "Serve") {
			last := c.Args[len(c.Args)-1]
			if s.Sel.Name == "ListenAndServeTLS" && len(c.Args) == 4 {
				last = c.Args[3]
			}
			found := false
			ast.Inspect(last, func(m ast.Node) bool {
				if id, ok := m.(*ast.Ident); ok && muxVars[id.Name] {
					found = true
				}
				return true
			})
			if !found {
				refuse("%s at line %d does not serve a ServeMux variable", src(fset, c.Fun), fset.Position(c.Pos()).Line)
			}
			served = true
			return true
		}
		if s.Sel.Name != "Handle" && s.Sel.Name != "HandleFunc" {
			return true
		}
		if len(c.Args) != 2 {
			return true
		}
		line := fset.Position(c.Pos()).Line
		lit, ok := c.Args[0].(*ast.BasicLit)
		if !ok || lit.Kind != token.STRING {
			refuse("line %d: route pattern is not a string literal: %s", line, src(fset, c.Args[0]))
		}
		pat, err := strconv.Unquote(lit.Value)
		if err != nil {
			refuse("line %d: bad pattern literal", line)
		}
		if !strings.HasPrefix(pat, "/") || strings.ContainsAny(pat, " {}\t\"\\") {
			refuse("line %d: pattern %q uses method/host/wildcard syntax, which the dispatch model does not cover", line, pat)
		}
		for _, ch := range []byte(pat) {
			if ch < 0x20 || ch > 0x7e {
				refuse("line %d: pattern %q is not printable ASCII", line, pat)
			}
		}
		h := c.Args[1]
		// wh.Authn(E')
		if hc, ok := h.(*ast.CallExpr); ok {
			if m, ok := whMethod(hc.Fun); ok && m == "Authn" && len(hc.Args) == 1 {
				if inner, ok := whMethod(hc.Args[0]); ok {
					routes = append(routes, Route{pat, inner, true})
					accounted[hc.Args[0]] = true
					return false
				}
				// Authn around something else: wrapped, but report what is inside
				routes = append(routes, Route{pat, "ext:" + src(fset, hc.Args[0]), true})
				for _, s := range mentions(hc.Args[0]) {
					routes = append(routes, Route{pat, s.Sel.Name, true})
					accounted[s] = true
				}
				return false
			}
		}
		if m, ok := whMethod(h); ok {
			routes = append(routes, Route{pat, m, false})
			accounted[h] = true
			return false
		}
		routes = append(routes, Route{pat, "ext:" + src(fset, h), false})
		for _, s := range mentions(h) {
			routes = append(routes, Route{pat, s.Sel.Name, false})
			accounted[s] = true
		}
		return false
	})
	if !served {
		refuse("no %s.ListenAndServe/Serve call found", httpName)
	}
	// any other method value wh.M anywhere in the file
	ast.Inspect(f, func(n ast.Node) bool {
		if s, ok := n.(*ast.SelectorExpr); ok {
			if m, ok := whMethod(s); ok && !callee[s] && !accounted[s] {
				routes = append(routes, Route{fmt.Sprintf("<use at line %d>", fset.Position(s.Pos()).Line), m, false})
			}
		}
		return true
	})
	if len(routes) == 0 {
		refuse("no route registrations found")
	}

	return routes, nil
}
