package authn

// ScanChain reads, from cmd/shovel/main.go, the handler chain between
// http.ListenAndServe and the ServeMux -- e.g. log(true, mux) -- and, for every
// wrapper function of that chain, which parts of the *http.Request it WRITES
// before it calls the inner handler.  It refuses ("shape changed") on anything
// it does not understand:
//   - the served expression must be the mux variable or a call f(..., E, ...)
//     of a top-level function f of main.go with exactly one argument E that
//     (recursively) contains the mux;
//   - f must have exactly one parameter of type http.Handler (the inner
//     handler) and return http.HandlerFunc(func(w, r) {...}) (or that literal);
//   - inside the literal the request r may be read freely; WRITES are:
//     assignments / ++ / -- whose target starts at r (r.RemoteAddr = ..,
//     r.URL.Path = .., r.Header[k] = ..; field = first selector), calls
//     r.Header.Set/Add/Del and r.AddCookie ("Header"), r.SetBasicAuth
//     ("Header"), r.ParseForm/ParseMultipartForm/FormValue/PostFormValue/
//     FormFile ("Form"), r.URL.<method> is a read; r = r.WithContext(..) and
//     r = r.Clone(..)/WithContext are fine (no field changes);
//   - r itself may be passed only to the inner handler (h.ServeHTTP(w, r) or
//     h(w, r)); any other use of r as a whole (argument, assignment to another
//     variable, &r, closure capture in go/defer, other methods) is refused;
//   - the inner handler must be called with exactly (w, r).
// A write counts as "before" when it is textually before the LAST call of the
// inner handler.
import (
	"fmt"
	"go/ast"
	"go/parser"
	"go/printer"
	"go/token"
	"path/filepath"
	"sort"
	"strconv"
	"strings"
)

type Wrapper struct {
	Name         string
	WritesBefore []string
	WritesAfter  []string
}

type Chain struct {
	Expr     string    // source text of the served handler expression, e.g. "log(true, mux)"
	MuxVar   string    // name of the ServeMux variable inside Expr
	Wrappers []Wrapper // outermost first
	// Source is a compilable Go file (package main) holding main.go's imports
	// that are needed and the wrapper functions exactly as written, plus every
	// top-level declaration of main.go they refer to.
	Source string
}

var readOnlyReqMethods = map[string]bool{
	"Context": true, "Cookie": true, "Cookies": true, "UserAgent": true, "Referer": true,
	"BasicAuth": true, "ProtoAtLeast": true, "PathValue": true,
}
var headerWriteMethods = map[string]bool{"Set": true, "Add": true, "Del": true}
var formMethods = map[string]bool{"ParseForm": true, "ParseMultipartForm": true, "FormValue": true,
	"PostFormValue": true, "FormFile": true, "MultipartReader": true}

func ScanChain(repo string) (chain Chain, err error) {
	defer func() {
		if r := recover(); r != nil {
			if se, ok := r.(shapeErr); ok {
				chain, err = Chain{}, se
				return
			}
			panic(r)
		}
	}()
	path := filepath.Join(repo, "cmd", "shovel", "main.go")
	fset := token.NewFileSet()
	f, perr := parser.ParseFile(fset, path, nil, 0)
	if perr != nil {
		refuse("cannot parse %s: %v", path, perr)
	}
	httpName := ""
	for _, im := range f.Imports {
		p, _ := strconv.Unquote(im.Path.Value)
		if p == "net/http" {
			httpName = "http"
			if im.Name != nil {
				httpName = im.Name.Name
			}
		}
	}
	if httpName == "" {
		refuse("main.go does not import net/http")
	}
	muxVars := map[string]bool{}
	ast.Inspect(f, func(n ast.Node) bool {
		switch x := n.(type) {
		case *ast.AssignStmt:
			if len(x.Lhs) == len(x.Rhs) {
				for i, e := range x.Rhs {
					if id, ok := x.Lhs[i].(*ast.Ident); ok && isCallTo(e, httpName, "NewServeMux") {
						muxVars[id.Name] = true
					}
				}
			}
		case *ast.ValueSpec:
			if len(x.Names) == len(x.Values) {
				for i, e := range x.Values {
					if isCallTo(e, httpName, "NewServeMux") {
						muxVars[x.Names[i].Name] = true
					}
				}
			}
		}
		return true
	})
	funcs := map[string]*ast.FuncDecl{}
	decls := map[string]ast.Decl{} // every top-level name -> its declaration
	for _, d := range f.Decls {
		switch x := d.(type) {
		case *ast.FuncDecl:
			if x.Recv == nil {
				funcs[x.Name.Name] = x
				decls[x.Name.Name] = x
			}
		case *ast.GenDecl:
			if x.Tok == token.IMPORT {
				continue
			}
			for _, sp := range x.Specs {
				switch y := sp.(type) {
				case *ast.ValueSpec:
					for _, n := range y.Names {
						decls[n.Name] = x
					}
				case *ast.TypeSpec:
					decls[y.Name.Name] = x
				}
			}
		}
	}
	// the served expression
	var served ast.Expr
	ast.Inspect(f, func(n ast.Node) bool {
		c, ok := n.(*ast.CallExpr)
		if !ok {
			return true
		}
		s, ok := c.Fun.(*ast.SelectorExpr)
		if !ok {
			return true
		}
		if id, ok := s.X.(*ast.Ident); ok && id.Name == httpName &&
			(s.Sel.Name == "ListenAndServe" || s.Sel.Name == "ListenAndServeTLS" || s.Sel.Name == "Serve") {
			if served != nil {
				refuse("more than one %s.ListenAndServe/Serve call", httpName)
			}
			served = c.Args[len(c.Args)-1]
			if s.Sel.Name == "ListenAndServeTLS" && len(c.Args) == 4 {
				served = c.Args[3]
			}
		}
		return true
	})
	if served == nil {
		refuse("no %s.ListenAndServe/Serve call found", httpName)
	}
	chain.Expr = srcFull(fset, served)
	mentionsMux := func(e ast.Expr) bool {
		found := false
		ast.Inspect(e, func(m ast.Node) bool {
			if id, ok := m.(*ast.Ident); ok && muxVars[id.Name] {
				found = true
				chain.MuxVar = id.Name
			}
			return true
		})
		return found
	}
	cur := served
	for {
		if id, ok := cur.(*ast.Ident); ok && muxVars[id.Name] {
			chain.MuxVar = id.Name
			break
		}
		c, ok := cur.(*ast.CallExpr)
		if !ok {
			refuse("served handler %s: not the mux and not a call of a wrapper function", srcFull(fset, cur))
		}
		fid, ok := c.Fun.(*ast.Ident)
		if !ok || funcs[fid.Name] == nil {
			refuse("served handler: %s is not a top-level function of main.go", srcFull(fset, c.Fun))
		}
		var inner ast.Expr
		pos := -1
		for i, a := range c.Args {
			if mentionsMux(a) {
				if inner != nil {
					refuse("wrapper call %s mentions the mux in two arguments", srcFull(fset, c))
				}
				inner, pos = a, i
			}
		}
		if inner == nil {
			refuse("wrapper call %s does not contain the mux", srcFull(fset, c))
		}
		chain.Wrappers = append(chain.Wrappers, analyseWrapper(fset, funcs[fid.Name], pos, httpName))
		cur = inner
	}

	// a compilable file with the wrappers and what they refer to
	need := map[string]bool{}
	var order []string
	var visit func(name string)
	visit = func(name string) {
		if need[name] || decls[name] == nil || name == "main" {
			return
		}
		need[name] = true
		order = append(order, name)
		ast.Inspect(decls[name], func(n ast.Node) bool {
			if id, ok := n.(*ast.Ident); ok {
				visit(id.Name)
			}
			return true
		})
	}
	for _, w := range chain.Wrappers {
		visit(w.Name)
	}
	var body strings.Builder
	emitted := map[ast.Decl]bool{}
	usedPkgs := map[string]bool{}
	for _, name := range order {
		d := decls[name]
		if emitted[d] {
			continue
		}
		emitted[d] = true
		body.WriteString(srcFull(fset, d))
		body.WriteString("\n\n")
		ast.Inspect(d, func(n ast.Node) bool {
			if s, ok := n.(*ast.SelectorExpr); ok {
				if id, ok := s.X.(*ast.Ident); ok {
					usedPkgs[id.Name] = true
				}
			}
			return true
		})
	}
	var src strings.Builder
	src.WriteString("// GENERATED by harness/authn/chain.go: the handler-chain functions of cmd/shovel/main.go, as written.\npackage main\n\nimport (\n")
	for _, im := range f.Imports {
		p, _ := strconv.Unquote(im.Path.Value)
		name := filepath.Base(p)
		if im.Name != nil {
			name = im.Name.Name
		}
		if usedPkgs[name] {
			if im.Name != nil {
				fmt.Fprintf(&src, "\t%s %s\n", im.Name.Name, im.Path.Value)
			} else {
				fmt.Fprintf(&src, "\t%s\n", im.Path.Value)
			}
		}
	}
	src.WriteString(")\n\n")
	src.WriteString(body.String())
	chain.Source = src.String()
	return chain, nil
}

func srcFull(fset *token.FileSet, n ast.Node) string {
	var b strings.Builder
	printer.Fprint(&b, fset, n)
	return b.String()
}

func analyseWrapper(fset *token.FileSet, fd *ast.FuncDecl, innerArg int, httpName string) Wrapper {
	w := Wrapper{Name: fd.Name.Name}
	// parameter list flattened
	var params []string
	var ptypes []ast.Expr
	for _, fl := range fd.Type.Params.List {
		if len(fl.Names) == 0 {
			refuse("wrapper %s: unnamed parameter", w.Name)
		}
		for _, n := range fl.Names {
			params = append(params, n.Name)
			ptypes = append(ptypes, fl.Type)
		}
	}
	if innerArg >= len(params) {
		refuse("wrapper %s: variadic or short parameter list", w.Name)
	}
	isHTTP := func(e ast.Expr, sel string) bool {
		s, ok := e.(*ast.SelectorExpr)
		if !ok {
			return false
		}
		id, ok := s.X.(*ast.Ident)
		return ok && id.Name == httpName && s.Sel.Name == sel
	}
	if !isHTTP(ptypes[innerArg], "Handler") && !isHTTP(ptypes[innerArg], "HandlerFunc") {
		refuse("wrapper %s: the parameter that receives the mux is not an http.Handler", w.Name)
	}
	hname := params[innerArg]
	// body: a single return of http.HandlerFunc(func(w, r) {...}) or the literal
	if fd.Body == nil || len(fd.Body.List) != 1 {
		refuse("wrapper %s: body is not a single return statement", w.Name)
	}
	ret, ok := fd.Body.List[0].(*ast.ReturnStmt)
	if !ok || len(ret.Results) != 1 {
		refuse("wrapper %s: body is not a single return statement", w.Name)
	}
	e := ret.Results[0]
	if c, ok := e.(*ast.CallExpr); ok && isHTTP(c.Fun, "HandlerFunc") && len(c.Args) == 1 {
		e = c.Args[0]
	}
	lit, ok := e.(*ast.FuncLit)
	if !ok || len(lit.Type.Params.List) == 0 {
		refuse("wrapper %s: does not return a handler function literal", w.Name)
	}
	var lp []string
	for _, fl := range lit.Type.Params.List {
		for _, n := range fl.Names {
			lp = append(lp, n.Name)
		}
	}
	if len(lp) != 2 {
		refuse("wrapper %s: handler literal does not have parameters (w, r)", w.Name)
	}
	wn, rn := lp[0], lp[1]

	// positions of the inner handler calls; every whole-r use must be one of them
	allowed := map[*ast.Ident]bool{} // r idents that are fine (roots of selectors, arguments of the inner call, lhs/rhs of r = r.WithContext)
	lastCall := token.NoPos
	isR := func(e ast.Expr) (*ast.Ident, bool) {
		id, ok := e.(*ast.Ident)
		return id, ok && id.Name == rn
	}
	type write struct {
		field string
		pos   token.Pos
	}
	var writes []write
	rootField := func(e ast.Expr) (string, *ast.Ident, bool) {
		// the first selector after r in r.A.B[..].C
		var field string
		for {
			switch x := e.(type) {
			case *ast.SelectorExpr:
				field = x.Sel.Name
				e = x.X
			case *ast.IndexExpr:
				e = x.X
			case *ast.StarExpr:
				e = x.X
			case *ast.ParenExpr:
				e = x.X
			case *ast.Ident:
				if x.Name == rn {
					return field, x, true
				}
				return "", nil, false
			default:
				return "", nil, false
			}
		}
	}
	ast.Inspect(lit.Body, func(n ast.Node) bool {
		switch x := n.(type) {
		case *ast.GoStmt, *ast.DeferStmt:
			uses := false
			ast.Inspect(x, func(m ast.Node) bool {
				if id, ok := m.(*ast.Ident); ok && id.Name == rn {
					uses = true
				}
				return true
			})
			if uses {
				refuse("wrapper %s: the request is used in a go/defer statement", w.Name)
			}
		case *ast.FuncLit:
			uses := false
			ast.Inspect(x.Body, func(m ast.Node) bool {
				if id, ok := m.(*ast.Ident); ok && id.Name == rn {
					uses = true
				}
				return true
			})
			if uses {
				refuse("wrapper %s: the request is captured by a nested function literal", w.Name)
			}
		case *ast.AssignStmt:
			for i, l := range x.Lhs {
				if id, ok := isR(l); ok {
					// r = r.WithContext(..) / r.Clone(..)
					okRhs := false
					if len(x.Rhs) == len(x.Lhs) {
						if c, ok := x.Rhs[i].(*ast.CallExpr); ok {
							if s, ok := c.Fun.(*ast.SelectorExpr); ok {
								if rid, ok := isR(s.X); ok && (s.Sel.Name == "WithContext" || s.Sel.Name == "Clone") {
									okRhs = true
									allowed[rid] = true
								}
							}
						}
					}
					if !okRhs || x.Tok == token.DEFINE {
						refuse("wrapper %s: the request variable is reassigned (%s)", w.Name, srcFull(fset, x))
					}
					allowed[id] = true
					continue
				}
				if field, id, ok := rootField(l); ok {
					if field == "" {
						field = "*"
					}
					writes = append(writes, write{field, x.Pos()})
					allowed[id] = true
				}
			}
		case *ast.IncDecStmt:
			if field, id, ok := rootField(x.X); ok {
				if field == "" {
					field = "*"
				}
				writes = append(writes, write{field, x.Pos()})
				allowed[id] = true
			}
		case *ast.CallExpr:
			// the inner handler: h.ServeHTTP(w, r) or h(w, r)
			isInner := false
			if s, ok := x.Fun.(*ast.SelectorExpr); ok {
				if id, ok := s.X.(*ast.Ident); ok && id.Name == hname && s.Sel.Name == "ServeHTTP" {
					isInner = true
				}
			}
			if id, ok := x.Fun.(*ast.Ident); ok && id.Name == hname {
				isInner = true
			}
			if isInner {
				if len(x.Args) != 2 {
					refuse("wrapper %s: inner handler called with %d arguments", w.Name, len(x.Args))
				}
				a0, ok0 := x.Args[0].(*ast.Ident)
				a1, ok1 := isR(x.Args[1])
				if !ok0 || a0.Name != wn || !ok1 {
					refuse("wrapper %s: inner handler is not called with (%s, %s): %s", w.Name, wn, rn, srcFull(fset, x))
				}
				allowed[a1] = true
				if x.Pos() > lastCall {
					lastCall = x.Pos()
				}
				return true
			}
			// methods on r, r.Header, r.URL ...
			if s, ok := x.Fun.(*ast.SelectorExpr); ok {
				if field, id, ok := rootField(s.X); ok {
					allowed[id] = true
					switch {
					case field == "" && readOnlyReqMethods[s.Sel.Name]:
					case field == "" && (s.Sel.Name == "AddCookie" || s.Sel.Name == "SetBasicAuth"):
						writes = append(writes, write{"Header", x.Pos()})
					case field == "" && formMethods[s.Sel.Name]:
						writes = append(writes, write{"Form", x.Pos()})
					case field == "" && (s.Sel.Name == "WithContext" || s.Sel.Name == "Clone"):
						// only meaningful as r = r.WithContext(..), checked at the assignment
					case field == "":
						refuse("wrapper %s: method %s of the request is not classified", w.Name, s.Sel.Name)
					case field == "Header" && headerWriteMethods[s.Sel.Name]:
						writes = append(writes, write{"Header", x.Pos()})
					case field == "Header" || field == "URL" || field == "Body" || field == "Form" || field == "PostForm" || field == "TLS" || field == "Trailer":
						if field == "Body" || field == "Form" || field == "PostForm" {
							writes = append(writes, write{field, x.Pos()})
						}
						// reads (Header.Get, URL.String, URL.Query ...)
					default:
						refuse("wrapper %s: call through request field %s is not classified", w.Name, field)
					}
				}
			}
		case *ast.UnaryExpr:
			if x.Op == token.AND {
				if _, _, ok := rootField(x.X); ok {
					refuse("wrapper %s: takes the address of (a part of) the request", w.Name)
				}
			}
		case *ast.SelectorExpr:
			if _, id, ok := rootField(x); ok {
				allowed[id] = true
			}
		}
		return true
	})
	if lastCall == token.NoPos {
		refuse("wrapper %s never calls the inner handler", w.Name)
	}
	// every other mention of r as a whole is not understood
	ast.Inspect(lit.Body, func(n ast.Node) bool {
		if id, ok := n.(*ast.Ident); ok && id.Name == rn && !allowed[id] {
			refuse("wrapper %s: the request is used as a whole at line %d", w.Name, fset.Position(id.Pos()).Line)
		}
		return true
	})
	before, after := map[string]bool{}, map[string]bool{}
	for _, wr := range writes {
		if wr.pos < lastCall {
			before[wr.field] = true
		} else {
			after[wr.field] = true
		}
	}
	for k := range before {
		w.WritesBefore = append(w.WritesBefore, k)
	}
	for k := range after {
		w.WritesAfter = append(w.WritesAfter, k)
	}
	sort.Strings(w.WritesBefore)
	sort.Strings(w.WritesAfter)
	return w
}
