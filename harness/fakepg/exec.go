package fakepg

import (
	"encoding/binary"
	"fmt"
	"math/big"
	"sort"
	"strings"
)

type relCol struct {
	name string
	oid  uint32
}

type relRow struct {
	id   uint64
	vals []Value
}

type relation struct {
	cols []relCol
	rows []relRow
}

func (r *relation) colIndex(c ColRef) (int, error) {
	for i := range r.cols {
		if r.cols[i].name == c.Name {
			return i, nil
		}
	}
	return -1, &pgErr{code: "42703", msg: fmt.Sprintf("column %q does not exist", c.Name)}
}

// result of one statement
type result struct {
	tag      string
	cols     []relCol
	rows     [][]Value
	affected int
}

// Notification is a pg_notify call that became visible (at commit).
type Notification struct {
	Channel string
	Payload string
}

// execCtx evaluates one statement for one connection.  The server lock is held.
type execCtx struct {
	d      *database
	tx     *txn
	params []Value
	ctes   map[string]*relation
	// describe mode: no rows are read, parameters are typed instead
	ptypes map[int]uint32
	// others: the open transactions of the other sessions (Server.SetDetectWaits)
	others []*txn
}

// ---------------------------------------------------------------- relations

func (x *execCtx) sourceRelation(n TableName, withRows bool) (*relation, error) {
	if n.Schema == "public" {
		if r, ok := x.ctes[n.Name]; ok {
			return r, nil
		}
	}
	if n.Schema == "information_schema" && n.Name == "columns" {
		rel := &relation{cols: []relCol{{"table_schema", OIDText}, {"table_name", OIDText},
			{"column_name", OIDText}, {"data_type", OIDText}, {"ordinal_position", OIDInt4}}}
		if withRows {
			keys := make([]string, 0, len(x.d.tables))
			for k := range x.d.tables {
				keys = append(keys, k)
			}
			sort.Strings(keys)
			for _, k := range keys {
				t := x.d.tables[k]
				for i, c := range t.Cols {
					rel.rows = append(rel.rows, relRow{vals: []Value{t.Name.Schema, t.Name.Name, c.Name, c.Canon, big.NewInt(int64(i + 1))}})
				}
			}
		}
		return rel, nil
	}
	t, err := x.d.lookup(n)
	if err != nil {
		return nil, err
	}
	rel := &relation{}
	for _, c := range t.Cols {
		rel.cols = append(rel.cols, relCol{c.Name, c.OID})
	}
	if withRows {
		for _, r := range x.d.visible(t, x.tx) {
			vals := make([]Value, len(t.Cols))
			for i := range t.Cols {
				vals[i] = r.val(i)
			}
			rel.rows = append(rel.rows, relRow{id: r.ID, vals: vals})
		}
	}
	return rel, nil
}

// ---------------------------------------------------------------- expressions

func (x *execCtx) param(n int) (Value, error) {
	if n < 1 || n > len(x.params) {
		return nil, &pgErr{code: "08P01", msg: fmt.Sprintf("there is no parameter $%d", n)}
	}
	return x.params[n-1], nil
}

func (x *execCtx) eval(e Expr, rel *relation, r *relRow) (Value, error) {
	switch v := e.(type) {
	case Lit:
		return v.V, nil
	case ParamRef:
		return x.param(v.N)
	case ColRef:
		if rel == nil || r == nil {
			return nil, &pgErr{code: "42703", msg: fmt.Sprintf("column %q does not exist", v.Name)}
		}
		i, err := rel.colIndex(v)
		if err != nil {
			return nil, err
		}
		return r.vals[i], nil
	case NowCall:
		x.d.clock++
		return Stamp(x.d.clock), nil
	case SubSel:
		res, err := x.runSelect(v.S)
		if err != nil {
			return nil, err
		}
		switch len(res.rows) {
		case 0:
			return nil, nil
		case 1:
			if len(res.rows[0]) != 1 {
				return nil, &pgErr{code: "42601", msg: "subquery must return only one column"}
			}
			return res.rows[0][0], nil
		}
		return nil, &pgErr{code: "21000", msg: "more than one row returned by a subquery used as an expression"}
	case FuncCall:
		args := make([]Value, len(v.Args))
		for i := range v.Args {
			a, err := x.eval(v.Args[i], rel, r)
			if err != nil {
				return nil, err
			}
			args[i] = a
		}
		switch v.Name {
		case "pg_notify":
			if len(args) != 2 {
				return nil, &pgErr{code: "42883", msg: "pg_notify(text, text) expected"}
			}
			ch, _ := args[0].(string)
			pl, _ := args[1].(string)
			if x.tx != nil {
				x.tx.notifies = append(x.tx.notifies, Notification{ch, pl})
			}
			return "", nil
		case "pg_advisory_xact_lock", "pg_advisory_lock":
			if len(args) != 1 {
				return nil, &pgErr{code: "42883", msg: "pg_advisory_xact_lock(bigint) expected"}
			}
			b, ok := args[0].(*big.Int)
			if !ok {
				return nil, &pgErr{code: "42883", msg: "pg_advisory_xact_lock(bigint) expected"}
			}
			if x.tx != nil {
				x.tx.locks = append(x.tx.locks, b.Int64())
			}
			return "", nil
		case "current_database":
			return "fakepg", nil
		}
	}
	return nil, &pgErr{code: "0A000", msg: fmt.Sprintf("unsupported expression %T", e)}
}

func (x *execCtx) exprType(e Expr, rel *relation) (string, uint32, error) {
	switch v := e.(type) {
	case Lit:
		switch v.V.(type) {
		case bool:
			return "bool", OIDBool, nil
		case *big.Int:
			return "int4", OIDInt4, nil
		}
		return "text", OIDText, nil
	case ParamRef:
		return "?column?", OIDText, nil
	case ColRef:
		if rel == nil {
			return "", 0, &pgErr{code: "42703", msg: fmt.Sprintf("column %q does not exist", v.Name)}
		}
		i, err := rel.colIndex(v)
		if err != nil {
			return "", 0, err
		}
		return rel.cols[i].name, rel.cols[i].oid, nil
	case CountStar:
		return "count", OIDInt8, nil
	case NowCall:
		return "now", OIDTimestamptz, nil
	case SubSel:
		_, cols, err := x.selectShape(v.S)
		if err != nil {
			return "", 0, err
		}
		if len(cols) != 1 {
			return "", 0, &pgErr{code: "42601", msg: "subquery must return only one column"}
		}
		return cols[0].name, cols[0].oid, nil
	case FuncCall:
		if v.Name == "current_database" {
			return v.Name, OIDText, nil
		}
		return v.Name, OIDVoid, nil
	}
	return "", 0, &pgErr{code: "0A000", msg: fmt.Sprintf("unsupported expression %T", e)}
}

func cmpOp(op string, c int) bool {
	switch op {
	case "=":
		return c == 0
	case "<>":
		return c != 0
	case ">=":
		return c >= 0
	case ">":
		return c > 0
	case "<=":
		return c <= 0
	case "<":
		return c < 0
	}
	return false
}

func (x *execCtx) test(p Pred, rel *relation, r *relRow) (bool, error) {
	l, err := x.eval(p.L, rel, r)
	if err != nil {
		return false, err
	}
	switch p.Op {
	case "isnull":
		return l == nil, nil
	case "notnull":
		return l != nil, nil
	}
	rv, err := x.eval(p.R, rel, r)
	if err != nil {
		return false, err
	}
	if l == nil || rv == nil {
		return false, nil
	}
	if p.AnyArr {
		arr, ok := rv.([]Value)
		if !ok {
			return false, &pgErr{code: "42809", msg: "op ANY/ALL (array) requires array on right side"}
		}
		for _, el := range arr {
			if el == nil {
				continue
			}
			c, err := compareValues(l, el)
			if err != nil {
				return false, err
			}
			if cmpOp(p.Op, c) {
				return true, nil
			}
		}
		return false, nil
	}
	c, err := compareValues(l, rv)
	if err != nil {
		return false, err
	}
	return cmpOp(p.Op, c), nil
}

func (x *execCtx) filter(where []Pred, rel *relation) ([]relRow, error) {
	var out []relRow
	for i := range rel.rows {
		ok := true
		for _, p := range where {
			b, err := x.test(p, rel, &rel.rows[i])
			if err != nil {
				return nil, err
			}
			if !b {
				ok = false
				break
			}
		}
		if ok {
			out = append(out, rel.rows[i])
		}
	}
	return out, nil
}

// ---------------------------------------------------------------- select

// selectShape resolves the source relation (without rows) and the output columns.
func (x *execCtx) selectShape(s *SelectStmt) (*relation, []relCol, error) {
	saved := x.ctes
	defer func() { x.ctes = saved }()
	if len(s.With) > 0 {
		m := map[string]*relation{}
		for k, v := range saved {
			m[k] = v
		}
		x.ctes = m
		for _, c := range s.With {
			_, cols, err := x.selectShape(c.S)
			if err != nil {
				return nil, nil, err
			}
			x.ctes[c.Name] = &relation{cols: cols}
		}
	}
	var rel *relation
	if s.From != nil {
		r, err := x.sourceRelation(*s.From, false)
		if err != nil {
			return nil, nil, err
		}
		rel = &relation{cols: r.cols}
	}
	var cols []relCol
	for _, it := range s.Items {
		if _, ok := it.E.(Star); ok {
			if rel == nil {
				return nil, nil, synErr("SELECT * with no tables specified is not valid")
			}
			cols = append(cols, rel.cols...)
			continue
		}
		name, oid, err := x.exprType(it.E, rel)
		if err != nil {
			return nil, nil, err
		}
		if it.Alias != "" {
			name = it.Alias
		}
		cols = append(cols, relCol{name, oid})
	}
	// every column mentioned must exist (a planner would reject it)
	check := func(c ColRef) error {
		if rel == nil {
			return &pgErr{code: "42703", msg: fmt.Sprintf("column %q does not exist", c.Name)}
		}
		_, err := rel.colIndex(c)
		return err
	}
	for _, p := range s.Where {
		for _, e := range []Expr{p.L, p.R} {
			if c, ok := e.(ColRef); ok {
				if err := check(c); err != nil {
					return nil, nil, err
				}
			}
		}
	}
	for _, o := range s.OrderBy {
		if err := check(o.Col); err != nil {
			return nil, nil, err
		}
	}
	for _, c := range s.DistinctOn {
		if err := check(c); err != nil {
			return nil, nil, err
		}
	}
	return rel, cols, nil
}

func (x *execCtx) runSelect(s *SelectStmt) (*result, error) {
	saved := x.ctes
	defer func() { x.ctes = saved }()
	if len(s.With) > 0 {
		m := map[string]*relation{}
		for k, v := range saved {
			m[k] = v
		}
		x.ctes = m
		for _, c := range s.With {
			res, err := x.runSelect(c.S)
			if err != nil {
				return nil, err
			}
			rel := &relation{cols: res.cols}
			for _, r := range res.rows {
				rel.rows = append(rel.rows, relRow{vals: r})
			}
			x.ctes[c.Name] = rel
		}
	}
	_, cols, err := x.selectShape(s)
	if err != nil {
		return nil, err
	}
	var rel *relation
	var rows []relRow
	if s.From != nil {
		rel, err = x.sourceRelation(*s.From, true)
		if err != nil {
			return nil, err
		}
		rows, err = x.filter(s.Where, rel)
		if err != nil {
			return nil, err
		}
	} else {
		rows = []relRow{{}}
		if len(s.Where) > 0 {
			return nil, synErr("WHERE without FROM is not supported")
		}
	}
	if len(s.OrderBy) > 0 {
		idx := make([]int, len(s.OrderBy))
		for i, o := range s.OrderBy {
			if idx[i], err = rel.colIndex(o.Col); err != nil {
				return nil, err
			}
		}
		var sortErr error
		sort.SliceStable(rows, func(a, b int) bool {
			for i, o := range s.OrderBy {
				va, vb := rows[a].vals[idx[i]], rows[b].vals[idx[i]]
				var c int
				switch {
				case va == nil && vb == nil:
					c = 0
				case va == nil:
					c = 1 // NULLs sort as larger than everything
				case vb == nil:
					c = -1
				default:
					var err error
					c, err = compareValues(va, vb)
					if err != nil {
						sortErr = err
					}
				}
				if c == 0 {
					continue
				}
				if o.Desc {
					return c > 0
				}
				return c < 0
			}
			return false
		})
		if sortErr != nil {
			return nil, sortErr
		}
	}
	if len(s.DistinctOn) > 0 {
		idx := make([]int, len(s.DistinctOn))
		for i, c := range s.DistinctOn {
			if idx[i], err = rel.colIndex(c); err != nil {
				return nil, err
			}
		}
		seen := map[string]bool{}
		var keep []relRow
		for _, r := range rows {
			var sb strings.Builder
			for _, i := range idx {
				sb.WriteString(FormatValue(r.vals[i]))
				sb.WriteByte(0)
			}
			if !seen[sb.String()] {
				seen[sb.String()] = true
				keep = append(keep, r)
			}
		}
		rows = keep
	}
	res := &result{cols: cols}
	aggregate := false
	for _, it := range s.Items {
		if _, ok := it.E.(CountStar); ok {
			aggregate = true
		}
	}
	if aggregate {
		out := make([]Value, 0, len(s.Items))
		for _, it := range s.Items {
			switch e := it.E.(type) {
			case CountStar:
				out = append(out, big.NewInt(int64(len(rows))))
			case Lit, ParamRef, SubSel:
				v, err := x.eval(e, nil, nil)
				if err != nil {
					return nil, err
				}
				out = append(out, v)
			default:
				return nil, &pgErr{code: "42803", msg: "column must appear in the GROUP BY clause or be used in an aggregate function"}
			}
		}
		res.rows = [][]Value{out}
	} else {
		for i := range rows {
			var out []Value
			for _, it := range s.Items {
				if _, ok := it.E.(Star); ok {
					out = append(out, rows[i].vals...)
					continue
				}
				v, err := x.eval(it.E, rel, &rows[i])
				if err != nil {
					return nil, err
				}
				out = append(out, v)
			}
			res.rows = append(res.rows, out)
		}
	}
	if s.Limit != nil {
		v, err := x.eval(s.Limit, nil, nil)
		if err != nil {
			return nil, err
		}
		if v != nil {
			b, ok := v.(*big.Int)
			if !ok || b.Sign() < 0 {
				return nil, &pgErr{code: "2201W", msg: "LIMIT must not be negative"}
			}
			if b.IsInt64() && int(b.Int64()) < len(res.rows) {
				res.rows = res.rows[:b.Int64()]
			}
		}
	}
	res.tag = fmt.Sprintf("SELECT %d", len(res.rows))
	return res, nil
}

// ---------------------------------------------------------------- DML

func (x *execCtx) runInsert(s *InsertStmt) (*result, error) {
	t, err := x.d.lookup(s.Table)
	if err != nil {
		return nil, err
	}
	cols := s.Cols
	if len(cols) == 0 {
		for _, c := range t.Cols {
			cols = append(cols, c.Name)
		}
		cols = cols[:min(len(cols), len(s.Vals))]
	}
	if len(cols) != len(s.Vals) {
		return nil, synErr("INSERT has %d target columns but %d expressions", len(cols), len(s.Vals))
	}
	given := map[int]Value{}
	for i, c := range cols {
		ci := t.colIndex(c)
		if ci < 0 {
			return nil, &pgErr{code: "42703", msg: fmt.Sprintf("column %q of relation %q does not exist", c, t.Name.Name)}
		}
		v, err := x.eval(s.Vals[i], nil, nil)
		if err != nil {
			return nil, err
		}
		if v, err = coerce(t.Cols[ci].OID, v); err != nil {
			return nil, err
		}
		given[ci] = v
	}
	r, err := x.buildRow(t, given)
	if err != nil {
		return nil, err
	}
	if err := x.insertRow(t, r); err != nil {
		return nil, err
	}
	return &result{tag: "INSERT 0 1", affected: 1}, nil
}

func (x *execCtx) buildRow(t *table, given map[int]Value) (*row, error) {
	vals := make([]Value, len(t.Cols))
	for i, c := range t.Cols {
		v, ok := given[i]
		if !ok && c.Default != nil {
			dv, err := x.eval(c.Default, nil, nil)
			if err != nil {
				return nil, err
			}
			if v, err = coerce(c.OID, dv); err != nil {
				return nil, err
			}
		}
		if v == nil && c.NotNull {
			return nil, &pgErr{code: "23502", msg: fmt.Sprintf("null value in column %q violates not-null constraint", c.Name)}
		}
		vals[i] = v
	}
	x.d.nextID++
	return &row{ID: x.d.nextID, Vals: vals}, nil
}

func (x *execCtx) insertRow(t *table, r *row) error {
	if err := checkUnique(t, r, x.d.visible(t, x.tx)); err != nil {
		return err
	}
	k := t.Name.String()
	for _, o := range x.others {
		if err := checkUnique(t, r, o.inserted[k]); err != nil {
			return &pgErr{code: "55P03", msg: "the statement would WAIT for another session's open transaction, which holds an uncommitted row with the same unique key (" + err.Error() + ")"}
		}
	}
	x.tx.inserted[k] = append(x.tx.inserted[k], r)
	return nil
}

func (x *execCtx) runDelete(s *DeleteStmt) (*result, error) {
	rel, err := x.sourceRelation(s.Table, true)
	if err != nil {
		return nil, err
	}
	if s.Table.Schema == "information_schema" {
		return nil, &pgErr{code: "42809", msg: "cannot delete from a catalog view"}
	}
	// reject unknown columns like a planner would
	for _, p := range s.Where {
		for _, e := range []Expr{p.L, p.R} {
			if c, ok := e.(ColRef); ok {
				if _, err := rel.colIndex(c); err != nil {
					return nil, err
				}
			}
		}
	}
	rows, err := x.filter(s.Where, rel)
	if err != nil {
		return nil, err
	}
	for _, r := range rows {
		x.tx.deleted[r.id] = true
	}
	return &result{tag: fmt.Sprintf("DELETE %d", len(rows)), affected: len(rows)}, nil
}

// runPrune: keep the newest n cursor rows per (src_name, ig_name).
func (x *execCtx) runPrune() (*result, error) {
	t, err := x.d.lookup(TableName{"shovel", "task_updates"})
	if err != nil {
		return nil, err
	}
	nv, err := x.param(1)
	if err != nil {
		return nil, err
	}
	nb, ok := nv.(*big.Int)
	if !ok {
		return nil, &pgErr{code: "22023", msg: "prune: integer expected"}
	}
	si, ii, ni := t.colIndex("src_name"), t.colIndex("ig_name"), t.colIndex("num")
	if si < 0 || ii < 0 || ni < 0 {
		return nil, &pgErr{code: "42703", msg: "prune: task_updates lacks src_name/ig_name/num"}
	}
	groups := map[string][]*row{}
	for _, r := range x.d.visible(t, x.tx) {
		k := FormatValue(r.val(si)) + "\x00" + FormatValue(r.val(ii))
		groups[k] = append(groups[k], r)
	}
	n := 0
	for _, rows := range groups {
		sort.SliceStable(rows, func(a, b int) bool {
			va, _ := rows[a].val(ni).(*big.Int)
			vb, _ := rows[b].val(ni).(*big.Int)
			if va == nil || vb == nil {
				return va != nil
			}
			return va.Cmp(vb) > 0
		})
		for i, r := range rows {
			if int64(i) >= nb.Int64() {
				x.tx.deleted[r.ID] = true
				n++
			}
		}
	}
	return &result{tag: fmt.Sprintf("DELETE %d", n), affected: n}, nil
}

// ---------------------------------------------------------------- COPY

var copySig = []byte("PGCOPY\n\377\r\n\000")

// runCopy decodes a binary COPY stream and inserts the rows.
func (x *execCtx) runCopy(s *CopyStmt, data []byte) (*result, error) {
	t, err := x.d.lookup(s.Table)
	if err != nil {
		return nil, err
	}
	cols := s.Cols
	if len(cols) == 0 {
		for _, c := range t.Cols {
			cols = append(cols, c.Name)
		}
	}
	idx := make([]int, len(cols))
	for i, c := range cols {
		if idx[i] = t.colIndex(c); idx[i] < 0 {
			return nil, &pgErr{code: "42703", msg: fmt.Sprintf("column %q of relation %q does not exist", c, t.Name.Name)}
		}
	}
	bad := &pgErr{code: "22P04", msg: "invalid COPY file"}
	if len(data) < 19 || string(data[:11]) != string(copySig) {
		return nil, bad
	}
	ext := int(binary.BigEndian.Uint32(data[15:19]))
	pos := 19 + ext
	res := &result{}
	for i, c := range cols {
		res.cols = append(res.cols, relCol{c, t.Cols[idx[i]].OID})
	}
	// phase 1: decode the whole stream (the log shows every row that was sent,
	// also when the insert fails half way)
	var decoded []map[int]Value
	for {
		if pos == len(data) {
			break // pgx omits the trailer and ends the stream with CopyDone
		}
		if pos+2 > len(data) {
			return nil, bad
		}
		nf := int16(binary.BigEndian.Uint16(data[pos:]))
		pos += 2
		if nf == -1 {
			break
		}
		if int(nf) != len(cols) {
			return nil, &pgErr{code: "22P04", msg: fmt.Sprintf("row field count is %d, expected %d", nf, len(cols))}
		}
		given := map[int]Value{}
		vals := make([]Value, len(cols))
		for f := 0; f < int(nf); f++ {
			if pos+4 > len(data) {
				return nil, bad
			}
			l := int32(binary.BigEndian.Uint32(data[pos:]))
			pos += 4
			var field []byte
			if l >= 0 {
				if pos+int(l) > len(data) {
					return nil, bad
				}
				field = data[pos : pos+int(l)]
				pos += int(l)
			}
			v, err := decodeWire(t.Cols[idx[f]].OID, 1, field)
			if err != nil {
				return nil, &pgErr{code: "22P03", msg: fmt.Sprintf("column %q: %v", cols[f], err)}
			}
			if v, err = coerce(t.Cols[idx[f]].OID, v); err != nil {
				return nil, err
			}
			given[idx[f]] = v
			vals[f] = v
		}
		decoded = append(decoded, given)
		res.rows = append(res.rows, vals)
	}
	// phase 2: insert
	for _, given := range decoded {
		r, err := x.buildRow(t, given)
		if err != nil {
			return res, err
		}
		if err := x.insertRow(t, r); err != nil {
			return res, err
		}
	}
	res.affected = len(res.rows)
	res.tag = fmt.Sprintf("COPY %d", len(res.rows))
	return res, nil
}

// ---------------------------------------------------------------- DDL

func (x *execCtx) makeColumn(cd ColDef) (column, error) {
	oid, canon, ok := typeOID(cd.Type)
	if !ok {
		return column{}, &pgErr{code: "42704", msg: fmt.Sprintf("type %q does not exist", cd.Type)}
	}
	return column{Name: cd.Name, Decl: cd.Type, OID: oid, Canon: canon, NotNull: cd.NotNull, Default: cd.Default}, nil
}

func (x *execCtx) runDDL(st Stmt) (*result, error) {
	switch s := st.(type) {
	case *CreateTable:
		if _, ok := x.d.tables[s.Name.String()]; ok {
			if s.IfNotExists {
				return &result{tag: "CREATE TABLE"}, nil
			}
			return nil, &pgErr{code: "42P07", msg: fmt.Sprintf("relation %q already exists", s.Name.Name)}
		}
		t := &table{Name: s.Name}
		for _, cd := range s.Cols {
			if t.colIndex(cd.Name) >= 0 {
				return nil, &pgErr{code: "42701", msg: fmt.Sprintf("column %q specified more than once", cd.Name)}
			}
			c, err := x.makeColumn(cd)
			if err != nil {
				return nil, err
			}
			t.Cols = append(t.Cols, c)
		}
		x.d.tables[s.Name.String()] = t
		return &result{tag: "CREATE TABLE"}, nil
	case *CreateIndex:
		t, err := x.d.lookup(s.Table)
		if err != nil {
			return nil, err
		}
		// index names are unique per schema
		for _, ot := range x.d.tables {
			if ot.Name.Schema != t.Name.Schema {
				continue
			}
			for _, ix := range ot.Indexes {
				if ix.Name == s.Name {
					if s.IfNotExists {
						return &result{tag: "CREATE INDEX"}, nil
					}
					return nil, &pgErr{code: "42P07", msg: fmt.Sprintf("relation %q already exists", s.Name)}
				}
			}
		}
		for _, c := range s.Cols {
			if t.colIndex(c) < 0 {
				return nil, &pgErr{code: "42703", msg: fmt.Sprintf("column %q does not exist", c)}
			}
		}
		ix := index{Name: s.Name, Unique: s.Unique, Cols: append([]string{}, s.Cols...)}
		if s.Unique {
			probe := &table{Name: t.Name, Cols: t.Cols, Indexes: []index{ix}}
			for i, r := range t.Rows {
				if err := checkUnique(probe, r, t.Rows[:i]); err != nil {
					return nil, &pgErr{code: "23505", msg: fmt.Sprintf("could not create unique index %q", s.Name)}
				}
			}
		}
		t.Indexes = append(t.Indexes, ix)
		return &result{tag: "CREATE INDEX"}, nil
	case *DropIndex:
		for _, t := range x.d.tables {
			if t.Name.Schema != s.Name.Schema {
				continue
			}
			for i, ix := range t.Indexes {
				if ix.Name == s.Name.Name {
					t.Indexes = append(t.Indexes[:i:i], t.Indexes[i+1:]...)
					return &result{tag: "DROP INDEX"}, nil
				}
			}
		}
		if s.IfExists {
			return &result{tag: "DROP INDEX"}, nil
		}
		return nil, &pgErr{code: "42704", msg: fmt.Sprintf("index %q does not exist", s.Name.Name)}
	case *AlterAddColumn:
		t, err := x.d.lookup(s.Table)
		if err != nil {
			return nil, err
		}
		if t.colIndex(s.Col.Name) >= 0 {
			if s.IfNotExists {
				return &result{tag: "ALTER TABLE"}, nil
			}
			return nil, &pgErr{code: "42701", msg: fmt.Sprintf("column %q of relation %q already exists", s.Col.Name, t.Name.Name)}
		}
		c, err := x.makeColumn(s.Col)
		if err != nil {
			return nil, err
		}
		t.Cols = append(t.Cols, c)
		return &result{tag: "ALTER TABLE"}, nil
	case *AlterDropColumn:
		t, err := x.d.lookup(s.Table)
		if err != nil {
			return nil, err
		}
		ci := t.colIndex(s.Col)
		if ci < 0 {
			if s.IfExists {
				return &result{tag: "ALTER TABLE"}, nil
			}
			return nil, &pgErr{code: "42703", msg: fmt.Sprintf("column %q of relation %q does not exist", s.Col, t.Name.Name)}
		}
		drop := func(r *row) {
			if ci < len(r.Vals) {
				r.Vals = append(r.Vals[:ci:ci], r.Vals[ci+1:]...)
			}
		}
		for _, r := range t.Rows {
			drop(r)
		}
		if x.tx != nil {
			for _, r := range x.tx.inserted[t.Name.String()] {
				drop(r)
			}
		}
		t.Cols = append(t.Cols[:ci:ci], t.Cols[ci+1:]...)
		var keep []index
		for _, ix := range t.Indexes {
			uses := false
			for _, c := range ix.Cols {
				if c == s.Col {
					uses = true
				}
			}
			if !uses {
				keep = append(keep, ix)
			}
		}
		t.Indexes = keep
		return &result{tag: "ALTER TABLE"}, nil
	}
	return nil, &pgErr{code: "0A000", msg: fmt.Sprintf("unsupported statement %T", st)}
}

// run executes a parsed statement other than begin/commit/rollback/copy.
func (x *execCtx) run(st Stmt) (*result, error) {
	switch s := st.(type) {
	case *SelectStmt:
		return x.runSelect(s)
	case *InsertStmt:
		return x.runInsert(s)
	case *DeleteStmt:
		return x.runDelete(s)
	case *PruneStmt:
		return x.runPrune()
	case *SetStmt:
		return &result{tag: "SET"}, nil
	case *NoopStmt:
		return &result{tag: s.Tag}, nil
	}
	return x.runDDL(st)
}

// ---------------------------------------------------------------- describe

// describe computes parameter types and the result shape of a statement.
func (x *execCtx) describe(st Stmt, given []uint32) ([]uint32, []relCol, error) {
	x.ptypes = map[int]uint32{}
	for i, o := range given {
		if o != 0 {
			x.ptypes[i+1] = o
		}
	}
	setp := func(e Expr, oid uint32) {
		if p, ok := e.(ParamRef); ok {
			if _, done := x.ptypes[p.N]; !done {
				x.ptypes[p.N] = oid
			}
		}
	}
	var walkSelect func(s *SelectStmt) error
	typePreds := func(where []Pred, rel *relation) {
		for _, p := range where {
			colOID := func(e Expr) (uint32, bool) {
				c, ok := e.(ColRef)
				if !ok || rel == nil {
					return 0, false
				}
				i, err := rel.colIndex(c)
				if err != nil {
					return 0, false
				}
				return rel.cols[i].oid, true
			}
			if o, ok := colOID(p.L); ok {
				if p.AnyArr {
					setp(p.R, arrayOID(o))
				} else {
					setp(p.R, o)
				}
			}
			if o, ok := colOID(p.R); ok {
				setp(p.L, o)
			}
		}
	}
	walkExpr := func(e Expr) error {
		switch v := e.(type) {
		case SubSel:
			return walkSelect(v.S)
		case FuncCall:
			for _, a := range v.Args {
				switch v.Name {
				case "pg_advisory_xact_lock", "pg_advisory_lock":
					setp(a, OIDInt8)
				default:
					setp(a, OIDText)
				}
			}
		}
		return nil
	}
	walkSelect = func(s *SelectStmt) error {
		saved := x.ctes
		defer func() { x.ctes = saved }()
		if len(s.With) > 0 {
			m := map[string]*relation{}
			for k, v := range saved {
				m[k] = v
			}
			x.ctes = m
			for _, c := range s.With {
				if err := walkSelect(c.S); err != nil {
					return err
				}
				_, cols, err := x.selectShape(c.S)
				if err != nil {
					return err
				}
				x.ctes[c.Name] = &relation{cols: cols}
			}
		}
		rel, _, err := x.selectShape(s)
		if err != nil {
			return err
		}
		typePreds(s.Where, rel)
		for _, it := range s.Items {
			if err := walkExpr(it.E); err != nil {
				return err
			}
		}
		if s.Limit != nil {
			setp(s.Limit, OIDInt8)
		}
		return nil
	}
	var cols []relCol
	switch s := st.(type) {
	case *SelectStmt:
		if err := walkSelect(s); err != nil {
			return nil, nil, err
		}
		_, c, err := x.selectShape(s)
		if err != nil {
			return nil, nil, err
		}
		cols = c
	case *InsertStmt:
		t, err := x.d.lookup(s.Table)
		if err != nil {
			return nil, nil, err
		}
		names := s.Cols
		if len(names) == 0 {
			for _, c := range t.Cols {
				names = append(names, c.Name)
			}
		}
		for i, e := range s.Vals {
			if i >= len(names) {
				break
			}
			ci := t.colIndex(names[i])
			if ci < 0 {
				return nil, nil, &pgErr{code: "42703", msg: fmt.Sprintf("column %q of relation %q does not exist", names[i], t.Name.Name)}
			}
			setp(e, t.Cols[ci].OID)
		}
	case *DeleteStmt:
		rel, err := x.sourceRelation(s.Table, false)
		if err != nil {
			return nil, nil, err
		}
		for _, p := range s.Where {
			for _, e := range []Expr{p.L, p.R} {
				if c, ok := e.(ColRef); ok {
					if _, err := rel.colIndex(c); err != nil {
						return nil, nil, err
					}
				}
			}
		}
		typePreds(s.Where, rel)
	case *PruneStmt:
		x.ptypes[1] = OIDInt8
	}
	maxp := 0
	for n := range x.ptypes {
		if n > maxp {
			maxp = n
		}
	}
	if n := maxParam(st); n > maxp {
		maxp = n
	}
	oids := make([]uint32, maxp)
	for i := range oids {
		if o, ok := x.ptypes[i+1]; ok {
			oids[i] = o
		} else {
			oids[i] = OIDText
		}
	}
	return oids, cols, nil
}

// maxParam finds the highest $n mentioned anywhere in the statement.
func maxParam(st Stmt) int {
	m := 0
	var expr func(e Expr)
	var sel func(s *SelectStmt)
	preds := func(ps []Pred) {
		for _, p := range ps {
			expr(p.L)
			expr(p.R)
		}
	}
	expr = func(e Expr) {
		switch v := e.(type) {
		case ParamRef:
			if v.N > m {
				m = v.N
			}
		case SubSel:
			sel(v.S)
		case FuncCall:
			for _, a := range v.Args {
				expr(a)
			}
		}
	}
	sel = func(s *SelectStmt) {
		for _, c := range s.With {
			sel(c.S)
		}
		for _, it := range s.Items {
			expr(it.E)
		}
		preds(s.Where)
		if s.Limit != nil {
			expr(s.Limit)
		}
	}
	switch s := st.(type) {
	case *SelectStmt:
		sel(s)
	case *InsertStmt:
		for _, e := range s.Vals {
			expr(e)
		}
	case *DeleteStmt:
		preds(s.Where)
	case *PruneStmt:
		m = 1
	}
	return m
}
