// Package fakepg is a wire-level stand-in for Postgres: a TCP server speaking
// the v3 protocol through pgx's pgproto3, in-memory tables whose catalog is
// built from the DDL it receives, and a small SQL parser + interpreter that
// EXECUTES THE TEXT IT RECEIVES.  See README.md for the API.
package fakepg

import (
	"bytes"
	"encoding/hex"
	"fmt"
	"math/big"
	"strconv"
	"strings"
	"time"

	"github.com/jackc/pgx/v5/pgtype"
)

// Value is one SQL value held by the fake server:
//
//	nil         NULL
//	*big.Int    numeric, int2, int4, int8 (integers only)
//	string      text
//	[]byte      bytea
//	bool        boolean
//	Interval    interval (microseconds)
//	Stamp       timestamptz produced by now(): a logical counter, never wall time
//	JSON        json / jsonb text
//	[]Value     array parameter (only as the right side of = ANY($n))
type Value any

type Interval int64 // microseconds
type Stamp int64    // logical clock of the server (statement sequence), not wall time
type JSON string

// Type OIDs used by the catalog.
const (
	OIDBool        = 16
	OIDBytea       = 17
	OIDInt8        = 20
	OIDInt2        = 21
	OIDInt4        = 23
	OIDText        = 25
	OIDJSON        = 114
	OIDBoolArr     = 1000
	OIDByteaArr    = 1001
	OIDInt2Arr     = 1005
	OIDInt4Arr     = 1007
	OIDTextArr     = 1009
	OIDInt8Arr     = 1016
	OIDVarchar     = 1043
	OIDTimestamptz = 1184
	OIDInterval    = 1186
	OIDNumericArr  = 1231
	OIDNumeric     = 1700
	OIDVoid        = 2278
	OIDJSONB       = 3802
	OIDUnknown     = 705
)

// typeOID maps a column type as written in DDL to its OID and the name
// information_schema.columns.data_type reports for it.
func typeOID(decl string) (oid uint32, canonical string, ok bool) {
	t := strings.ToLower(strings.TrimSpace(decl))
	if i := strings.IndexByte(t, '('); i >= 0 { // numeric(78,0), varchar(32)
		t = strings.TrimSpace(t[:i])
	}
	switch t {
	case "bool", "boolean":
		return OIDBool, "boolean", true
	case "bytea":
		return OIDBytea, "bytea", true
	case "int8", "bigint", "bigserial":
		return OIDInt8, "bigint", true
	case "int2", "smallint":
		return OIDInt2, "smallint", true
	case "int", "int4", "integer", "serial":
		return OIDInt4, "integer", true
	case "text":
		return OIDText, "text", true
	case "varchar", "character varying":
		return OIDVarchar, "character varying", true
	case "numeric", "decimal":
		return OIDNumeric, "numeric", true
	case "interval":
		return OIDInterval, "interval", true
	case "timestamptz", "timestamp with time zone":
		return OIDTimestamptz, "timestamp with time zone", true
	case "json":
		return OIDJSON, "json", true
	case "jsonb":
		return OIDJSONB, "jsonb", true
	}
	return 0, "", false
}

func arrayOID(elem uint32) uint32 {
	switch elem {
	case OIDBool:
		return OIDBoolArr
	case OIDBytea:
		return OIDByteaArr
	case OIDInt2:
		return OIDInt2Arr
	case OIDInt4:
		return OIDInt4Arr
	case OIDInt8:
		return OIDInt8Arr
	case OIDNumeric:
		return OIDNumericArr
	default:
		return OIDTextArr
	}
}

func elemOID(arr uint32) (uint32, bool) {
	switch arr {
	case OIDBoolArr:
		return OIDBool, true
	case OIDByteaArr:
		return OIDBytea, true
	case OIDInt2Arr:
		return OIDInt2, true
	case OIDInt4Arr:
		return OIDInt4, true
	case OIDInt8Arr:
		return OIDInt8, true
	case OIDNumericArr:
		return OIDNumeric, true
	case OIDTextArr:
		return OIDText, true
	}
	return 0, false
}

var tmap = pgtype.NewMap()

// decodeWire turns a parameter / COPY field received from the client into a Value.
func decodeWire(oid uint32, format int16, src []byte) (Value, error) {
	if src == nil {
		return nil, nil
	}
	switch oid {
	case OIDText, OIDVarchar, OIDUnknown, 0:
		return string(src), nil
	case OIDBytea:
		var b []byte
		if err := tmap.Scan(oid, format, src, &b); err != nil {
			return nil, err
		}
		return append([]byte{}, b...), nil
	case OIDBool:
		var b bool
		if err := tmap.Scan(oid, format, src, &b); err != nil {
			return nil, err
		}
		return b, nil
	case OIDInt2, OIDInt4, OIDInt8:
		var n int64
		if err := tmap.Scan(oid, format, src, &n); err != nil {
			return nil, err
		}
		return big.NewInt(n), nil
	case OIDNumeric:
		var n pgtype.Numeric
		if err := tmap.Scan(oid, format, src, &n); err != nil {
			return nil, err
		}
		return numericToBig(n)
	case OIDInterval:
		var iv pgtype.Interval
		if err := tmap.Scan(oid, format, src, &iv); err != nil {
			return nil, err
		}
		return Interval(iv.Microseconds + int64(iv.Days)*86400e6 + int64(iv.Months)*30*86400e6), nil
	case OIDJSON, OIDJSONB:
		var b []byte
		if err := tmap.Scan(oid, format, src, &b); err != nil {
			return nil, err
		}
		return JSON(string(b)), nil
	case OIDTimestamptz:
		var t time.Time
		if err := tmap.Scan(oid, format, src, &t); err != nil {
			return nil, err
		}
		return Stamp(t.UnixMicro()), nil
	}
	if el, ok := elemOID(oid); ok {
		switch el {
		case OIDText:
			var xs []*string
			if err := tmap.Scan(oid, format, src, &xs); err != nil {
				return nil, err
			}
			out := make([]Value, len(xs))
			for i, x := range xs {
				if x != nil {
					out[i] = *x
				}
			}
			return out, nil
		case OIDBytea:
			var xs [][]byte
			if err := tmap.Scan(oid, format, src, &xs); err != nil {
				return nil, err
			}
			out := make([]Value, len(xs))
			for i, x := range xs {
				if x != nil {
					out[i] = append([]byte{}, x...)
				}
			}
			return out, nil
		case OIDBool:
			var xs []bool
			if err := tmap.Scan(oid, format, src, &xs); err != nil {
				return nil, err
			}
			out := make([]Value, len(xs))
			for i, x := range xs {
				out[i] = x
			}
			return out, nil
		case OIDNumeric:
			var xs []pgtype.Numeric
			if err := tmap.Scan(oid, format, src, &xs); err != nil {
				return nil, err
			}
			out := make([]Value, len(xs))
			for i, x := range xs {
				v, err := numericToBig(x)
				if err != nil {
					return nil, err
				}
				out[i] = v
			}
			return out, nil
		default:
			var xs []int64
			if err := tmap.Scan(oid, format, src, &xs); err != nil {
				return nil, err
			}
			out := make([]Value, len(xs))
			for i, x := range xs {
				out[i] = big.NewInt(x)
			}
			return out, nil
		}
	}
	return nil, fmt.Errorf("fakepg: cannot decode oid %d", oid)
}

func numericToBig(n pgtype.Numeric) (Value, error) {
	if !n.Valid {
		return nil, nil
	}
	if n.NaN || n.InfinityModifier != 0 || n.Int == nil {
		return nil, fmt.Errorf("fakepg: unsupported numeric (NaN/Inf)")
	}
	v := new(big.Int).Set(n.Int)
	switch {
	case n.Exp > 0:
		v.Mul(v, new(big.Int).Exp(big.NewInt(10), big.NewInt(int64(n.Exp)), nil))
	case n.Exp < 0:
		d := new(big.Int).Exp(big.NewInt(10), big.NewInt(int64(-n.Exp)), nil)
		q, r := new(big.Int).QuoRem(v, d, new(big.Int))
		if r.Sign() != 0 {
			return nil, fmt.Errorf("fakepg: fractional numeric unsupported")
		}
		v = q
	}
	return v, nil
}

// encodeWire renders a Value for a result column of the given type and format.
func encodeWire(oid uint32, format int16, v Value) ([]byte, error) {
	if v == nil {
		return nil, nil
	}
	var arg any
	switch x := v.(type) {
	case *big.Int:
		switch oid {
		case OIDNumeric:
			arg = pgtype.Numeric{Int: x, Valid: true}
		case OIDText, OIDVarchar:
			arg = x.String()
		default:
			if !x.IsInt64() {
				return nil, fmt.Errorf("fakepg: integer out of range")
			}
			arg = x.Int64()
		}
	case string:
		arg = x
	case []byte:
		arg = x
	case bool:
		arg = x
	case Interval:
		arg = pgtype.Interval{Microseconds: int64(x), Valid: true}
	case Stamp:
		arg = time.UnixMicro(int64(x)).UTC()
	case JSON:
		arg = []byte(x)
	default:
		return nil, fmt.Errorf("fakepg: cannot encode %T", v)
	}
	if oid == OIDVoid {
		return []byte{}, nil
	}
	buf, err := tmap.Encode(oid, format, arg, nil)
	if err != nil {
		return nil, fmt.Errorf("fakepg: encoding oid %d: %w", oid, err)
	}
	if buf == nil {
		buf = []byte{}
	}
	return buf, nil
}

// coerce converts a Value to the representation of a column of type oid
// (used when storing literals and admin-supplied Go values).
func coerce(oid uint32, v Value) (Value, error) {
	if v == nil {
		return nil, nil
	}
	switch oid {
	case OIDNumeric, OIDInt2, OIDInt4, OIDInt8:
		var b *big.Int
		switch x := v.(type) {
		case *big.Int:
			b = x
		case string:
			n, ok := new(big.Int).SetString(strings.TrimSpace(x), 10)
			if !ok {
				return nil, fmt.Errorf("invalid input syntax for type numeric: %q", x)
			}
			b = n
		case bool:
			return nil, fmt.Errorf("cannot cast boolean to numeric")
		default:
			return nil, fmt.Errorf("cannot store %T in a numeric column", v)
		}
		var lo, hi int64
		switch oid {
		case OIDInt2:
			lo, hi = -1<<15, 1<<15-1
		case OIDInt4:
			lo, hi = -1<<31, 1<<31-1
		case OIDInt8:
			lo, hi = -1<<63, 1<<63-1
		default:
			return b, nil
		}
		if b.Cmp(big.NewInt(lo)) < 0 || b.Cmp(big.NewInt(hi)) > 0 {
			return nil, &pgErr{code: "22003", msg: "integer out of range"}
		}
		return b, nil
	case OIDText, OIDVarchar:
		switch x := v.(type) {
		case string:
			return x, nil
		case *big.Int:
			return x.String(), nil
		case JSON:
			return string(x), nil
		}
	case OIDBytea:
		switch x := v.(type) {
		case []byte:
			return x, nil
		case string:
			if strings.HasPrefix(x, `\x`) {
				b, err := hex.DecodeString(x[2:])
				if err != nil {
					return nil, fmt.Errorf("invalid hexadecimal data")
				}
				return b, nil
			}
			return []byte(x), nil
		}
	case OIDBool:
		switch x := v.(type) {
		case bool:
			return x, nil
		case string:
			switch strings.ToLower(x) {
			case "t", "true", "1", "yes", "on":
				return true, nil
			case "f", "false", "0", "no", "off":
				return false, nil
			}
		}
	case OIDInterval:
		switch x := v.(type) {
		case Interval:
			return x, nil
		case *big.Int:
			return Interval(x.Int64()), nil
		case string:
			d, err := time.ParseDuration(x)
			if err == nil {
				return Interval(d.Microseconds()), nil
			}
			if n, err := strconv.ParseInt(x, 10, 64); err == nil {
				return Interval(n * 1e6), nil
			}
		}
	case OIDJSON, OIDJSONB:
		switch x := v.(type) {
		case JSON:
			return x, nil
		case string:
			return JSON(x), nil
		case []byte:
			return JSON(string(x)), nil
		}
	case OIDTimestamptz:
		switch x := v.(type) {
		case Stamp:
			return x, nil
		}
	}
	return nil, fmt.Errorf("fakepg: cannot store %T in a column of oid %d", v, oid)
}

// fromGo converts a Go value given to the admin API into a Value.
func fromGo(a any) (Value, error) {
	switch x := a.(type) {
	case nil:
		return nil, nil
	case *big.Int:
		return x, nil
	case int:
		return big.NewInt(int64(x)), nil
	case int64:
		return big.NewInt(x), nil
	case int32:
		return big.NewInt(int64(x)), nil
	case uint64:
		return new(big.Int).SetUint64(x), nil
	case uint32:
		return big.NewInt(int64(x)), nil
	case string:
		return x, nil
	case []byte:
		return append([]byte{}, x...), nil
	case bool:
		return x, nil
	case time.Duration:
		return Interval(x.Microseconds()), nil
	case Interval, Stamp, JSON:
		return x, nil
	case []string:
		out := make([]Value, len(x))
		for i := range x {
			out[i] = x[i]
		}
		return out, nil
	case []Value:
		return x, nil
	}
	return nil, fmt.Errorf("fakepg: unsupported admin argument %T", a)
}

// compareValues orders two non-NULL values of the same family.
func compareValues(a, b Value) (int, error) {
	switch x := a.(type) {
	case *big.Int:
		switch y := b.(type) {
		case *big.Int:
			return x.Cmp(y), nil
		case string:
			n, ok := new(big.Int).SetString(y, 10)
			if ok {
				return x.Cmp(n), nil
			}
		}
	case string:
		switch y := b.(type) {
		case string:
			return strings.Compare(x, y), nil
		case *big.Int:
			n, ok := new(big.Int).SetString(x, 10)
			if ok {
				return n.Cmp(y), nil
			}
		case JSON:
			return strings.Compare(x, string(y)), nil
		}
	case []byte:
		if y, ok := b.([]byte); ok {
			return bytes.Compare(x, y), nil
		}
	case bool:
		if y, ok := b.(bool); ok {
			switch {
			case x == y:
				return 0, nil
			case !x:
				return -1, nil
			default:
				return 1, nil
			}
		}
	case Interval:
		if y, ok := b.(Interval); ok {
			return cmpInt(int64(x), int64(y)), nil
		}
	case Stamp:
		if y, ok := b.(Stamp); ok {
			return cmpInt(int64(x), int64(y)), nil
		}
	case JSON:
		switch y := b.(type) {
		case JSON:
			return strings.Compare(string(x), string(y)), nil
		case string:
			return strings.Compare(string(x), y), nil
		}
	}
	return 0, &pgErr{code: "42883", msg: fmt.Sprintf("operator does not exist: %T vs %T", a, b)}
}

func cmpInt(a, b int64) int {
	switch {
	case a < b:
		return -1
	case a > b:
		return 1
	}
	return 0
}

// FormatValue renders a value canonically (used by Snapshot.String and the log).
func FormatValue(v Value) string {
	switch x := v.(type) {
	case nil:
		return "NULL"
	case *big.Int:
		return x.String()
	case string:
		return strconv.Quote(x)
	case []byte:
		return "0x" + hex.EncodeToString(x)
	case bool:
		if x {
			return "true"
		}
		return "false"
	case Interval:
		return fmt.Sprintf("interval(%dus)", int64(x))
	case Stamp:
		return fmt.Sprintf("stamp(%d)", int64(x))
	case JSON:
		return "json:" + string(x)
	case []Value:
		parts := make([]string, len(x))
		for i := range x {
			parts[i] = FormatValue(x[i])
		}
		return "{" + strings.Join(parts, ",") + "}"
	}
	return fmt.Sprintf("?%T", v)
}

// Uint64 returns v as a uint64 when it is a non-negative integer that fits.
func Uint64(v Value) (uint64, bool) {
	b, ok := v.(*big.Int)
	if !ok || !b.IsUint64() {
		return 0, false
	}
	return b.Uint64(), true
}

func cloneValue(v Value) Value {
	switch x := v.(type) {
	case *big.Int:
		return new(big.Int).Set(x)
	case []byte:
		return append([]byte{}, x...)
	}
	return v
}

// pgErr is an error that carries an SQLSTATE.
type pgErr struct {
	code string
	msg  string
}

func (e *pgErr) Error() string { return e.msg + " (SQLSTATE " + e.code + ")" }

func errCode(err error) string {
	if pe, ok := err.(*pgErr); ok {
		return pe.code
	}
	return "XX000"
}
