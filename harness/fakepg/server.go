package fakepg

import (
	"errors"
	"fmt"
	"net"
	"sort"
	"sync"

	"github.com/jackc/pgx/v5/pgproto3"
)

// FaultKind says what the server does with a statement instead of (or in
// addition to) executing it.
type FaultKind int

const (
	FaultNone       FaultKind = iota
	FaultError                // reply with an ErrorResponse; nothing is executed; an open transaction becomes aborted
	FaultDrop                 // close this connection before executing (its open write set is discarded)
	FaultDropAfter            // execute (a COMMIT takes effect), then close the connection without replying
	FaultCrash                // close ALL connections before executing (process death / database restart)
	FaultCrashAfter           // execute, then close all connections without replying
)

func (k FaultKind) String() string {
	return [...]string{"none", "error", "drop", "drop-after", "crash", "crash-after"}[k]
}

type Fault struct {
	Kind FaultKind
	Code string // SQLSTATE of FaultError, default XX000
}

// StmtInfo describes a statement that is about to be executed.
type StmtInfo struct {
	Seq    int    // global sequence number of the statement (1-based), also its index+1 in Log()
	Conn   int    // connection id (1-based, in accept order)
	Kind   string // begin commit rollback set select insert delete copy ddl noop invalid
	SQL    string // normalised text as received
	Table  string // schema.name of the main table, if any
	Params []Value
	InTx   bool // an explicit transaction is open on this connection
}

// Entry is one line of the statement log.
type Entry struct {
	StmtInfo
	Fault    string    // fault injected ("" = none)
	Outcome  string    // ok | error:<SQLSTATE> | dropped | dropped-after | crash | crash-after
	Err      string    // error message of the reply
	Tag      string    // command tag of the reply
	Cols     []string  // result / copied column names
	Rows     [][]Value // rows returned by a select, rows received by a copy
	Affected int       // rows deleted / inserted / copied
}

// Server is one fake Postgres instance.
type Server struct {
	mu    sync.Mutex
	cond  *sync.Cond
	ln    net.Listener
	db    *database
	conns map[int]*conn
	nconn int
	log   []Entry
	notes []Notification
	locks map[int64]int // advisory lock -> connection id (0 = admin)

	plan func(StmtInfo) Fault
	gate func(StmtInfo)
	obs  func(Entry)

	// detectWaits: an insert / COPY whose unique key is held by the UNCOMMITTED write set of
	// another session's open transaction is answered with 55P03 (see SetDetectWaits)
	detectWaits bool

	closed bool
	wg     sync.WaitGroup
}

type conn struct {
	id   int
	s    *Server
	nc   net.Conn
	be   *pgproto3.Backend
	tx   *txn
	dead bool

	prepared map[string]*prepared
	portals  map[string]*portal
	skip     bool // discard extended-protocol messages until Sync
}

type prepared struct {
	sql    string
	st     Stmt
	params []uint32
	cols   []relCol
}

type portal struct {
	ps      *prepared
	params  []Value
	formats []int16
}

// Start listens on 127.0.0.1 (ephemeral port).
func Start() (*Server, error) {
	ln, err := net.Listen("tcp", "127.0.0.1:0")
	if err != nil {
		return nil, err
	}
	s := &Server{ln: ln, db: newDatabase(), conns: map[int]*conn{}, locks: map[int64]int{}}
	s.cond = sync.NewCond(&s.mu)
	s.wg.Add(1)
	go s.acceptLoop()
	return s, nil
}

// URL is the connection string for pgxpool.New / wpg.NewPool.
func (s *Server) URL() string {
	return fmt.Sprintf("postgres://fake@%s/fake?sslmode=disable", s.ln.Addr())
}

// Close stops the listener and drops every connection.
func (s *Server) Close() {
	s.mu.Lock()
	if s.closed {
		s.mu.Unlock()
		return
	}
	s.closed = true
	s.ln.Close()
	s.dropAllLocked()
	s.mu.Unlock()
	s.wg.Wait()
}

// SetFaultPlan installs f; it is called (without the server lock) before
// every statement and decides its fate.  nil removes the plan.
func (s *Server) SetFaultPlan(f func(StmtInfo) Fault) {
	s.mu.Lock()
	s.plan = f
	s.mu.Unlock()
}

// SetGate installs g; it is called (without the server lock) before every
// statement, before the fault plan, and may block: the statement proceeds
// when g returns.  nil removes the gate.
func (s *Server) SetGate(g func(StmtInfo)) {
	s.mu.Lock()
	s.gate = g
	s.mu.Unlock()
}

// SetObserver installs o; it is called (without the server lock) after every
// statement has been executed or faulted and BEFORE the reply is sent (or the
// connection dropped), so that a recorder shared with other event sources sees
// the statement before anything the client does next.  nil removes it.
func (s *Server) SetObserver(o func(Entry)) {
	s.mu.Lock()
	s.obs = o
	s.mu.Unlock()
}

// observe reports the finished log entry idx to the observer.
func (s *Server) observe(idx int) {
	s.mu.Lock()
	o := s.obs
	var e Entry
	if o != nil && idx < len(s.log) {
		e = s.log[idx]
	}
	s.mu.Unlock()
	if o != nil {
		o(e)
	}
}

// Crash drops all connections; open write sets are discarded.
func (s *Server) Crash() {
	s.mu.Lock()
	s.dropAllLocked()
	s.mu.Unlock()
}

// Snapshot returns a deep copy of the committed state.
func (s *Server) Snapshot() Snapshot {
	s.mu.Lock()
	defer s.mu.Unlock()
	return s.db.snapshot()
}

// Log returns a copy of the statement log.
func (s *Server) Log() []Entry {
	s.mu.Lock()
	defer s.mu.Unlock()
	return append([]Entry{}, s.log...)
}

// LogLen is the number of statements seen so far; Log()[LogLen():] later
// yields the statements of the next step.
func (s *Server) LogLen() int {
	s.mu.Lock()
	defer s.mu.Unlock()
	return len(s.log)
}

// Notifications returns the pg_notify calls of committed transactions.
func (s *Server) Notifications() []Notification {
	s.mu.Lock()
	defer s.mu.Unlock()
	return append([]Notification{}, s.notes...)
}

// OpenConns is the number of live client connections.
func (s *Server) OpenConns() int {
	s.mu.Lock()
	defer s.mu.Unlock()
	return len(s.conns)
}

// OpenTransactions lists the connections (ids, ascending) that have an explicit
// transaction open right now (begun, neither committed nor rolled back; an aborted
// transaction that was not ended yet counts: it still holds its locks).
func (s *Server) OpenTransactions() []int {
	s.mu.Lock()
	defer s.mu.Unlock()
	var ids []int
	for id, c := range s.conns {
		if !c.dead && c.tx != nil && !c.tx.implicit {
			ids = append(ids, id)
		}
	}
	sort.Ints(ids)
	return ids
}

// SetDetectWaits: with on, an insert / COPY of a row whose unique key equals that of a
// row in the uncommitted write set of ANOTHER session's open transaction (aborted ones
// included: they keep their index entries until they end) is not executed: real Postgres
// would make the statement WAIT for that transaction; a single-threaded script cannot
// wait, so the statement fails with SQLSTATE 55P03 (lock_not_available) and a message
// naming the situation.  Off (the default): the collision surfaces at COMMIT only.
func (s *Server) SetDetectWaits(on bool) {
	s.mu.Lock()
	s.detectWaits = on
	s.mu.Unlock()
}

// Exec runs a script directly against the committed state (admin access:
// no gate, no fault plan, not logged).  Arguments are Go values: integers,
// string, []byte, bool, time.Duration, []string, *big.Int, nil.
func (s *Server) Exec(sql string, args ...any) (int, error) {
	res, err := s.admin(sql, args)
	if err != nil {
		return 0, err
	}
	return res.affected, nil
}

// Query is Exec for a single select; it returns column names and rows.
func (s *Server) Query(sql string, args ...any) ([]string, [][]Value, error) {
	res, err := s.admin(sql, args)
	if err != nil {
		return nil, nil, err
	}
	var names []string
	for _, c := range res.cols {
		names = append(names, c.name)
	}
	return names, res.rows, nil
}

func (s *Server) admin(sql string, args []any) (*result, error) {
	sts, err := ParseScript(sql)
	if err != nil {
		return nil, err
	}
	params := make([]Value, len(args))
	for i, a := range args {
		if params[i], err = fromGo(a); err != nil {
			return nil, err
		}
	}
	s.mu.Lock()
	defer s.mu.Unlock()
	var last *result
	for _, st := range sts {
		switch st.(type) {
		case *BeginStmt, *CommitStmt, *RollbackStmt, *CopyStmt:
			return nil, errors.New("fakepg: admin Exec does not take transaction control or copy")
		}
		tx := newTxn()
		x := &execCtx{d: s.db, tx: tx, params: params}
		res, err := x.run(st)
		if err != nil {
			return nil, err
		}
		if err := s.db.commit(tx); err != nil {
			return nil, err
		}
		s.notes = append(s.notes, tx.notifies...)
		last = res
	}
	if last == nil {
		last = &result{}
	}
	return last, nil
}

// ---------------------------------------------------------------- connections

func (s *Server) acceptLoop() {
	defer s.wg.Done()
	for {
		nc, err := s.ln.Accept()
		if err != nil {
			return
		}
		s.wg.Add(1)
		go func() {
			defer s.wg.Done()
			s.serve(nc)
		}()
	}
}

func (s *Server) dropAllLocked() {
	ids := make([]int, 0, len(s.conns))
	for id := range s.conns {
		ids = append(ids, id)
	}
	sort.Ints(ids)
	for _, id := range ids {
		s.dropLocked(s.conns[id])
	}
}

// dropLocked discards the connection's transaction and closes the socket.
func (s *Server) dropLocked(c *conn) {
	if c.dead {
		return
	}
	c.dead = true
	c.tx = nil
	delete(s.conns, c.id)
	s.releaseLocksLocked(c.id)
	c.nc.Close()
}

func (s *Server) releaseLocksLocked(id int) {
	for k, v := range s.locks {
		if v == id {
			delete(s.locks, k)
		}
	}
	s.cond.Broadcast()
}

func (s *Server) serve(nc net.Conn) {
	be := pgproto3.NewBackend(nc, nc)
	sm, err := be.ReceiveStartupMessage()
	if err != nil {
		nc.Close()
		return
	}
	switch sm.(type) {
	case *pgproto3.SSLRequest, *pgproto3.GSSEncRequest:
		nc.Write([]byte("N"))
		if sm, err = be.ReceiveStartupMessage(); err != nil {
			nc.Close()
			return
		}
	}
	if _, ok := sm.(*pgproto3.StartupMessage); !ok { // CancelRequest etc.
		nc.Close()
		return
	}
	s.mu.Lock()
	if s.closed {
		s.mu.Unlock()
		nc.Close()
		return
	}
	s.nconn++
	c := &conn{id: s.nconn, s: s, nc: nc, be: be, prepared: map[string]*prepared{}, portals: map[string]*portal{}}
	s.conns[c.id] = c
	s.mu.Unlock()

	be.Send(&pgproto3.AuthenticationOk{})
	for _, kv := range [][2]string{{"server_version", "14.2 (fakepg)"}, {"client_encoding", "UTF8"},
		{"standard_conforming_strings", "on"}, {"integer_datetimes", "on"}, {"DateStyle", "ISO, MDY"},
		{"TimeZone", "UTC"}, {"server_encoding", "UTF8"}} {
		be.Send(&pgproto3.ParameterStatus{Name: kv[0], Value: kv[1]})
	}
	be.Send(&pgproto3.BackendKeyData{ProcessID: uint32(c.id), SecretKey: 1})
	be.Send(&pgproto3.ReadyForQuery{TxStatus: 'I'})
	if be.Flush() != nil {
		s.mu.Lock()
		s.dropLocked(c)
		s.mu.Unlock()
		return
	}
	c.loop()
}

func (c *conn) status() byte {
	switch {
	case c.tx == nil:
		return 'I'
	case c.tx.failed:
		return 'E'
	}
	return 'T'
}

func (c *conn) loop() {
	s := c.s
	defer func() {
		s.mu.Lock()
		if !c.dead {
			had := c.tx != nil && c.tx.dirty()
			s.dropLocked(c)
			if had {
				s.log = append(s.log, Entry{StmtInfo: StmtInfo{Seq: len(s.log) + 1, Conn: c.id, Kind: "disconnect"},
					Outcome: "tx-discarded"})
				idx := len(s.log) - 1
				s.mu.Unlock()
				s.observe(idx)
				return
			}
		}
		s.mu.Unlock()
	}()
	for {
		m, err := c.be.Receive()
		if err != nil {
			return
		}
		alive := true
		switch m := m.(type) {
		case *pgproto3.Query:
			alive = c.simpleQuery(m.String)
		case *pgproto3.Parse:
			if !c.skip {
				c.parse(m)
			}
		case *pgproto3.Describe:
			if !c.skip {
				c.describe(m)
			}
		case *pgproto3.Bind:
			if !c.skip {
				c.bind(m)
			}
		case *pgproto3.Execute:
			if !c.skip {
				alive = c.execute(m)
			}
		case *pgproto3.Close:
			if !c.skip {
				if m.ObjectType == 'S' {
					delete(c.prepared, m.Name)
				} else {
					delete(c.portals, m.Name)
				}
				c.be.Send(&pgproto3.CloseComplete{})
			}
		case *pgproto3.Sync:
			c.skip = false
			s.mu.Lock()
			st := c.status()
			s.mu.Unlock()
			c.be.Send(&pgproto3.ReadyForQuery{TxStatus: st})
			alive = c.be.Flush() == nil
		case *pgproto3.Flush:
			alive = c.be.Flush() == nil
		case *pgproto3.Terminate:
			return
		case *pgproto3.CopyData, *pgproto3.CopyDone, *pgproto3.CopyFail:
			// stray copy traffic after a failed COPY: ignore
		default:
			c.sendErr(&pgErr{code: "08P01", msg: fmt.Sprintf("fakepg: unsupported message %T", m)})
			c.skip = true
		}
		if !alive {
			return
		}
	}
}

func (c *conn) sendErr(err error) {
	c.be.Send(&pgproto3.ErrorResponse{Severity: "ERROR", SeverityUnlocalized: "ERROR", Code: errCode(err), Message: err.Error()})
}

func (c *conn) fail(err error) {
	c.s.mu.Lock()
	if c.tx != nil && !c.tx.implicit {
		c.tx.failed = true
	}
	c.s.mu.Unlock()
	c.sendErr(err)
}

// ---------------------------------------------------------------- statements

func mainTable(st Stmt) string {
	switch s := st.(type) {
	case *SelectStmt:
		if s.From != nil {
			if len(s.With) > 0 && s.From.Schema == "public" {
				for _, c := range s.With {
					if c.Name == s.From.Name {
						return mainTable(c.S)
					}
				}
			}
			return s.From.String()
		}
	case *InsertStmt:
		return s.Table.String()
	case *DeleteStmt:
		return s.Table.String()
	case *PruneStmt:
		return "shovel.task_updates"
	case *CopyStmt:
		return s.Table.String()
	case *CreateTable:
		return s.Name.String()
	case *CreateIndex:
		return s.Table.String()
	case *AlterAddColumn:
		return s.Table.String()
	case *AlterDropColumn:
		return s.Table.String()
	}
	return ""
}

// admit runs gate and fault plan for a statement and appends its log entry.
// It returns the entry index and the fault to apply.
func (c *conn) admit(st Stmt, sql string, params []Value) (int, Fault) {
	s := c.s
	s.mu.Lock()
	info := StmtInfo{Seq: len(s.log) + 1, Conn: c.id, Kind: Kind(st), SQL: Normalize(sql), Table: mainTable(st),
		Params: params, InTx: c.tx != nil && !c.tx.implicit}
	s.log = append(s.log, Entry{StmtInfo: info, Outcome: "pending"})
	idx := len(s.log) - 1
	gate, plan := s.gate, s.plan
	s.mu.Unlock()
	if gate != nil {
		gate(info)
	}
	var f Fault
	if plan != nil {
		f = plan(info)
	}
	if f.Kind != FaultNone {
		s.mu.Lock()
		s.log[idx].Fault = f.Kind.String()
		s.mu.Unlock()
	}
	return idx, f
}

// finish records the outcome of a statement.
func (s *Server) finishLocked(idx int, res *result, err error, outcome string) {
	e := &s.log[idx]
	if outcome != "" {
		e.Outcome = outcome
	} else if err != nil {
		e.Outcome = "error:" + errCode(err)
		e.Err = err.Error()
	} else {
		e.Outcome = "ok"
	}
	if res != nil {
		e.Tag = res.tag
		e.Affected = res.affected
		e.Rows = res.rows
		e.Cols = nil
		for _, c := range res.cols {
			e.Cols = append(e.Cols, c.name)
		}
	}
}

// acquireLocksLocked blocks until the advisory locks a statement asks for are free.
func (c *conn) acquireLocksLocked(st Stmt, params []Value) {
	sel, ok := st.(*SelectStmt)
	if !ok {
		return
	}
	for _, it := range sel.Items {
		fc, ok := it.E.(FuncCall)
		if !ok || (fc.Name != "pg_advisory_xact_lock" && fc.Name != "pg_advisory_lock") || len(fc.Args) != 1 {
			continue
		}
		x := &execCtx{d: c.s.db, params: params}
		v, err := x.eval(fc.Args[0], nil, nil)
		if err != nil {
			continue
		}
		b, ok := v.(interface{ Int64() int64 })
		if !ok {
			continue
		}
		k := b.Int64()
		for {
			owner, held := c.s.locks[k]
			if !held || owner == c.id || c.dead {
				break
			}
			c.s.cond.Wait()
		}
		if !c.dead {
			c.s.locks[k] = c.id
		}
	}
}

// perform executes one admitted statement under the server lock and returns
// the result; transaction control is handled here.
func (c *conn) performLocked(st Stmt, params []Value, copyData []byte) (*result, error) {
	s := c.s
	switch st.(type) {
	case *BeginStmt:
		if c.tx != nil {
			return &result{tag: "BEGIN"}, nil // warning in Postgres
		}
		c.tx = newTxn()
		return &result{tag: "BEGIN"}, nil
	case *CommitStmt:
		tx := c.tx
		c.tx = nil
		s.releaseLocksLocked(c.id)
		if tx == nil {
			return &result{tag: "COMMIT"}, nil
		}
		if tx.failed {
			return &result{tag: "ROLLBACK"}, nil
		}
		if err := s.db.commit(tx); err != nil {
			return nil, err
		}
		s.notes = append(s.notes, tx.notifies...)
		return &result{tag: "COMMIT"}, nil
	case *RollbackStmt:
		c.tx = nil
		s.releaseLocksLocked(c.id)
		return &result{tag: "ROLLBACK"}, nil
	}
	if c.tx != nil && c.tx.failed {
		return nil, &pgErr{code: "25P02", msg: "current transaction is aborted, commands ignored until end of transaction block"}
	}
	implicit := c.tx == nil
	if implicit {
		c.tx = newTxn()
		c.tx.implicit = true
	}
	c.acquireLocksLocked(st, params)
	x := &execCtx{d: s.db, tx: c.tx, params: params}
	if s.detectWaits {
		ids := make([]int, 0, len(s.conns))
		for id := range s.conns {
			ids = append(ids, id)
		}
		sort.Ints(ids)
		for _, id := range ids {
			if o := s.conns[id]; id != c.id && !o.dead && o.tx != nil && !o.tx.implicit {
				x.others = append(x.others, o.tx)
			}
		}
	}
	var res *result
	var err error
	if cs, ok := st.(*CopyStmt); ok {
		res, err = x.runCopy(cs, copyData)
	} else {
		res, err = x.run(st)
	}
	if implicit {
		tx := c.tx
		c.tx = nil
		if err == nil {
			if err = s.db.commit(tx); err == nil {
				s.notes = append(s.notes, tx.notifies...)
			}
		}
		s.releaseLocksLocked(c.id)
		if err != nil {
			return failedResult(res), err
		}
		return res, nil
	}
	if err != nil {
		c.tx.failed = true
		return failedResult(res), err
	}
	return res, nil
}

// failedResult keeps what a failed statement had received (the rows of a
// COPY) for the log; nothing of it took effect.
func failedResult(res *result) *result {
	if res == nil {
		return nil
	}
	return &result{cols: res.cols, rows: res.rows}
}

// applyFault handles the "before" faults; it reports whether the statement
// must still be executed and whether the connection survives.
func (c *conn) applyFaultBefore(idx int, f Fault) (run, alive bool) {
	s := c.s
	switch f.Kind {
	case FaultError:
		code := f.Code
		if code == "" {
			code = "XX000"
		}
		err := &pgErr{code: code, msg: "fakepg: injected fault"}
		s.mu.Lock()
		st := s.log[idx].Kind
		switch {
		case st == "commit" || st == "rollback":
			c.tx = nil // a failed COMMIT leaves no transaction behind
			s.releaseLocksLocked(c.id)
		case c.tx != nil && !c.tx.implicit:
			c.tx.failed = true
		}
		s.finishLocked(idx, nil, err, "")
		s.mu.Unlock()
		s.observe(idx)
		c.sendErr(err)
		return false, true
	case FaultDrop:
		s.mu.Lock()
		s.finishLocked(idx, nil, nil, "dropped")
		s.mu.Unlock()
		s.observe(idx)
		s.mu.Lock()
		s.dropLocked(c)
		s.mu.Unlock()
		return false, false
	case FaultCrash:
		s.mu.Lock()
		s.finishLocked(idx, nil, nil, "crash")
		s.mu.Unlock()
		s.observe(idx)
		s.mu.Lock()
		s.dropAllLocked()
		s.mu.Unlock()
		return false, false
	}
	return true, true
}

// applyFaultAfter concludes an executed statement: it applies the "after"
// faults and tells the observer (before anything reaches the client).
func (c *conn) applyFaultAfter(idx int, f Fault) (alive bool) {
	s := c.s
	switch f.Kind {
	case FaultDropAfter:
		s.mu.Lock()
		s.log[idx].Outcome = "dropped-after(" + s.log[idx].Outcome + ")"
		s.mu.Unlock()
		s.observe(idx)
		s.mu.Lock()
		s.dropLocked(c)
		s.mu.Unlock()
		return false
	case FaultCrashAfter:
		s.mu.Lock()
		s.log[idx].Outcome = "crash-after(" + s.log[idx].Outcome + ")"
		s.mu.Unlock()
		s.observe(idx)
		s.mu.Lock()
		s.dropAllLocked()
		s.mu.Unlock()
		return false
	}
	s.observe(idx)
	return true
}

// simpleQuery handles a Query message (possibly several statements).
func (c *conn) simpleQuery(sql string) bool {
	s := c.s
	sts, err := ParseScript(sql)
	if err != nil {
		s.mu.Lock()
		s.log = append(s.log, Entry{StmtInfo: StmtInfo{Seq: len(s.log) + 1, Conn: c.id, Kind: "invalid", SQL: Normalize(sql)},
			Outcome: "error:" + errCode(err), Err: err.Error()})
		bad := len(s.log) - 1
		s.mu.Unlock()
		s.observe(bad)
		c.fail(err)
		return c.ready()
	}
	if len(sts) == 0 {
		c.be.Send(&pgproto3.EmptyQueryResponse{})
		return c.ready()
	}
	for i, st := range sts {
		text := sql
		if len(sts) > 1 {
			text = fmt.Sprintf("[%d/%d of script] %s", i+1, len(sts), describeStmt(st))
		}
		idx, f := c.admit(st, text, nil)
		var copyData []byte
		copyReceived := false
		if cs, ok := st.(*CopyStmt); ok && (f.Kind == FaultError || f.Kind == FaultDrop || f.Kind == FaultCrash) {
			// a faulted COPY fails AFTER its data stream was received (like a server that
			// dies or errors while copying), so that the log shows the rows that were sent
			data, err, alive := c.receiveCopy(cs)
			if !alive {
				return false
			}
			if err == nil {
				copyReceived = true
				s.mu.Lock()
				scratch := &execCtx{d: s.db, tx: newTxn()}
				if res, _ := scratch.runCopy(cs, data); res != nil {
					s.log[idx].Rows = res.rows
					for _, rc := range res.cols {
						s.log[idx].Cols = append(s.log[idx].Cols, rc.name)
					}
				}
				s.mu.Unlock()
			}
		}
		run, alive := c.applyFaultBefore(idx, f)
		if !alive {
			return false
		}
		if !run {
			break // error reply sent; rest of the script is skipped like Postgres does
		}
		if cs, ok := st.(*CopyStmt); ok && !copyReceived {
			data, err, alive := c.receiveCopy(cs)
			if !alive {
				return false
			}
			if err != nil {
				s.mu.Lock()
				if c.tx != nil && !c.tx.implicit {
					c.tx.failed = true
				}
				s.finishLocked(idx, nil, err, "")
				s.mu.Unlock()
				s.observe(idx)
				c.sendErr(err)
				break
			}
			copyData = data
		}
		s.mu.Lock()
		if c.dead {
			s.mu.Unlock()
			return false
		}
		res, err := c.performLocked(st, nil, copyData)
		s.finishLocked(idx, res, err, "")
		s.mu.Unlock()
		if !c.applyFaultAfter(idx, f) {
			return false
		}
		if err != nil {
			c.sendErr(err)
			break
		}
		if sel, ok := st.(*SelectStmt); ok && sel != nil {
			if !c.sendRows(res, nil, true) {
				break
			}
		}
		c.be.Send(&pgproto3.CommandComplete{CommandTag: []byte(res.tag)})
	}
	return c.ready()
}

func describeStmt(st Stmt) string {
	switch s := st.(type) {
	case *NoopStmt:
		return s.What
	case *CreateTable:
		return "create table " + s.Name.String()
	case *CreateIndex:
		return "create index " + s.Name + " on " + s.Table.String()
	case *DropIndex:
		return "drop index " + s.Name.String()
	case *AlterAddColumn:
		return "alter table " + s.Table.String() + " add column " + s.Col.Name
	case *AlterDropColumn:
		return "alter table " + s.Table.String() + " drop column " + s.Col
	}
	return Kind(st) + " " + mainTable(st)
}

func (c *conn) ready() bool {
	c.s.mu.Lock()
	st := c.status()
	dead := c.dead
	c.s.mu.Unlock()
	if dead {
		return false
	}
	c.be.Send(&pgproto3.ReadyForQuery{TxStatus: st})
	return c.be.Flush() == nil
}

// receiveCopy answers CopyInResponse and collects the data stream.
func (c *conn) receiveCopy(cs *CopyStmt) ([]byte, error, bool) {
	s := c.s
	s.mu.Lock()
	t, err := s.db.lookup(cs.Table)
	n := len(cs.Cols)
	if err == nil && n == 0 {
		n = len(t.Cols)
	}
	if err == nil && c.tx != nil && c.tx.failed {
		err = &pgErr{code: "25P02", msg: "current transaction is aborted, commands ignored until end of transaction block"}
	}
	s.mu.Unlock()
	if err != nil {
		return nil, err, true
	}
	fm := make([]uint16, n)
	for i := range fm {
		fm[i] = 1
	}
	c.be.Send(&pgproto3.CopyInResponse{OverallFormat: 1, ColumnFormatCodes: fm})
	if c.be.Flush() != nil {
		return nil, nil, false
	}
	var data []byte
	for {
		m, err := c.be.Receive()
		if err != nil {
			return nil, nil, false
		}
		switch m := m.(type) {
		case *pgproto3.CopyData:
			data = append(data, m.Data...)
		case *pgproto3.CopyDone:
			return data, nil, true
		case *pgproto3.CopyFail:
			return nil, &pgErr{code: "57014", msg: "COPY from stdin failed: " + m.Message}, true
		case *pgproto3.Flush, *pgproto3.Sync:
		default:
			return nil, &pgErr{code: "08P01", msg: fmt.Sprintf("unexpected message %T during COPY", m)}, true
		}
	}
}

func (c *conn) sendRows(res *result, formats []int16, withDesc bool) bool {
	if withDesc {
		c.be.Send(rowDescription(res.cols, formats))
	}
	for _, r := range res.rows {
		vals := make([][]byte, len(r))
		for i, v := range r {
			b, err := encodeWire(res.cols[i].oid, formatOf(formats, i), v)
			if err != nil {
				c.fail(err)
				return false
			}
			vals[i] = b
		}
		c.be.Send(&pgproto3.DataRow{Values: vals})
	}
	return true
}

func formatOf(formats []int16, i int) int16 {
	switch len(formats) {
	case 0:
		return 0
	case 1:
		return formats[0]
	}
	if i < len(formats) {
		return formats[i]
	}
	return 0
}

func rowDescription(cols []relCol, formats []int16) *pgproto3.RowDescription {
	rd := &pgproto3.RowDescription{}
	for i, c := range cols {
		rd.Fields = append(rd.Fields, pgproto3.FieldDescription{Name: []byte(c.name), DataTypeOID: c.oid,
			DataTypeSize: -1, TypeModifier: -1, Format: formatOf(formats, i)})
	}
	return rd
}

// ---------------------------------------------------------------- extended protocol

func (c *conn) parse(m *pgproto3.Parse) {
	s := c.s
	st, err := ParseOne(m.Query)
	var ps *prepared
	if err == nil {
		s.mu.Lock()
		x := &execCtx{d: s.db, tx: c.tx}
		oids, cols, derr := x.describe(st, m.ParameterOIDs)
		s.mu.Unlock()
		err = derr
		ps = &prepared{sql: m.Query, st: st, params: oids, cols: cols}
	}
	if err != nil {
		s.mu.Lock()
		s.log = append(s.log, Entry{StmtInfo: StmtInfo{Seq: len(s.log) + 1, Conn: c.id, Kind: "invalid", SQL: Normalize(m.Query)},
			Outcome: "error:" + errCode(err), Err: err.Error()})
		bad := len(s.log) - 1
		s.mu.Unlock()
		s.observe(bad)
		c.fail(err)
		c.skip = true
		return
	}
	c.prepared[m.Name] = ps
	c.be.Send(&pgproto3.ParseComplete{})
}

func (c *conn) describe(m *pgproto3.Describe) {
	switch m.ObjectType {
	case 'S':
		ps, ok := c.prepared[m.Name]
		if !ok {
			c.fail(&pgErr{code: "26000", msg: fmt.Sprintf("prepared statement %q does not exist", m.Name)})
			c.skip = true
			return
		}
		c.be.Send(&pgproto3.ParameterDescription{ParameterOIDs: ps.params})
		if _, ok := ps.st.(*SelectStmt); ok {
			c.be.Send(rowDescription(ps.cols, nil))
		} else {
			c.be.Send(&pgproto3.NoData{})
		}
	default:
		po, ok := c.portals[m.Name]
		if !ok {
			c.fail(&pgErr{code: "34000", msg: fmt.Sprintf("portal %q does not exist", m.Name)})
			c.skip = true
			return
		}
		if _, ok := po.ps.st.(*SelectStmt); ok {
			c.be.Send(rowDescription(po.ps.cols, po.formats))
		} else {
			c.be.Send(&pgproto3.NoData{})
		}
	}
}

func (c *conn) bind(m *pgproto3.Bind) {
	ps, ok := c.prepared[m.PreparedStatement]
	if !ok {
		c.fail(&pgErr{code: "26000", msg: fmt.Sprintf("prepared statement %q does not exist", m.PreparedStatement)})
		c.skip = true
		return
	}
	if len(m.Parameters) != len(ps.params) {
		c.fail(&pgErr{code: "08P01", msg: fmt.Sprintf("bind message supplies %d parameters, but prepared statement requires %d",
			len(m.Parameters), len(ps.params))})
		c.skip = true
		return
	}
	params := make([]Value, len(m.Parameters))
	for i, raw := range m.Parameters {
		v, err := decodeWire(ps.params[i], formatOf(m.ParameterFormatCodes, i), raw)
		if err != nil {
			c.fail(&pgErr{code: "22P02", msg: fmt.Sprintf("parameter $%d: %v", i+1, err)})
			c.skip = true
			return
		}
		params[i] = v
	}
	c.portals[m.DestinationPortal] = &portal{ps: ps, params: params, formats: append([]int16{}, m.ResultFormatCodes...)}
	c.be.Send(&pgproto3.BindComplete{})
}

func (c *conn) execute(m *pgproto3.Execute) bool {
	s := c.s
	po, ok := c.portals[m.Portal]
	if !ok {
		c.fail(&pgErr{code: "34000", msg: fmt.Sprintf("portal %q does not exist", m.Portal)})
		c.skip = true
		return true
	}
	st := po.ps.st
	idx, f := c.admit(st, po.ps.sql, po.params)
	if len(po.ps.cols) > 0 { // result shape known from Describe, also when the statement is faulted
		s.mu.Lock()
		for _, rc := range po.ps.cols {
			s.log[idx].Cols = append(s.log[idx].Cols, rc.name)
		}
		s.mu.Unlock()
	}
	run, alive := c.applyFaultBefore(idx, f)
	if !alive {
		return false
	}
	if !run {
		c.skip = true
		return true
	}
	if _, ok := st.(*CopyStmt); ok {
		err := &pgErr{code: "0A000", msg: "COPY is only supported through the simple protocol"}
		s.mu.Lock()
		s.finishLocked(idx, nil, err, "")
		s.mu.Unlock()
		s.observe(idx)
		c.fail(err)
		c.skip = true
		return true
	}
	s.mu.Lock()
	if c.dead {
		s.mu.Unlock()
		return false
	}
	res, err := c.performLocked(st, po.params, nil)
	s.finishLocked(idx, res, err, "")
	s.mu.Unlock()
	if !c.applyFaultAfter(idx, f) {
		return false
	}
	if err != nil {
		c.sendErr(err)
		c.skip = true
		return true
	}
	if _, ok := st.(*SelectStmt); ok {
		if !c.sendRows(res, po.formats, false) {
			c.skip = true
			return true
		}
	}
	c.be.Send(&pgproto3.CommandComplete{CommandTag: []byte(res.tag)})
	return true
}
