package fakepg

import (
	"context"
	"errors"
	"strings"
	"testing"
	"time"

	"github.com/indexsupply/shovel/shovel"
	"github.com/jackc/pgx/v5"
	"github.com/jackc/pgx/v5/pgconn"
	"github.com/jackc/pgx/v5/pgxpool"
)

func start(t *testing.T) (*Server, *pgxpool.Pool) {
	t.Helper()
	s, err := Start()
	if err != nil {
		t.Fatal(err)
	}
	p, err := pgxpool.New(context.Background(), s.URL())
	if err != nil {
		t.Fatal(err)
	}
	t.Cleanup(func() { p.Close(); s.Close() })
	return s, p
}

const insCursor = `
	insert into shovel.task_updates (
		chain_id, src_name, ig_name, num, hash, src_num, src_hash, stop, nblocks, nrows, latency
	)
	values ($1, $2, $3, $4, $5, $6, $7, $8, $9, $10, $11)
`

const latest = `
	select num, hash
	from shovel.task_updates
	where src_name = $1
	and ig_name = $2
	order by num desc
	limit 1
`

func TestSchemaAndCursorStatements(t *testing.T) {
	ctx := context.Background()
	s, p := start(t)
	if _, err := p.Exec(ctx, shovel.Schema); err != nil {
		t.Fatal(err)
	}
	tu := s.Snapshot().Table("shovel.task_updates")
	if tu == nil || tu.Col("ig_name") < 0 || tu.Col("chain_id") < 0 || tu.Col("backfill") >= 0 {
		t.Fatalf("catalog: %+v", tu)
	}
	if len(tu.Unique) != 1 || strings.Join(tu.Unique[0], ",") != "ig_name,src_name,num" {
		t.Fatalf("unique: %v", tu.Unique)
	}
	tx, err := p.Begin(ctx)
	if err != nil {
		t.Fatal(err)
	}
	var n uint64
	var h []byte
	err = tx.QueryRow(ctx, latest, "main", "ig").Scan(&n, &h)
	if !errors.Is(err, pgx.ErrNoRows) {
		t.Fatalf("want no rows, got %v", err)
	}
	for _, num := range []uint64{5, 9, 7} {
		_, err = tx.Exec(ctx, insCursor, uint64(1), "main", "ig", num, []byte{byte(num)}, num+1, []byte{1, 2}, uint64(0), uint64(2), int64(3), 5*time.Millisecond)
		if err != nil {
			t.Fatal(err)
		}
	}
	if err = tx.QueryRow(ctx, latest, "main", "ig").Scan(&n, &h); err != nil || n != 9 || h[0] != 9 {
		t.Fatalf("latest in tx: %d %x %v", n, h, err)
	}
	// not visible to others before commit
	err = p.QueryRow(ctx, latest, "main", "ig").Scan(&n, &h)
	if !errors.Is(err, pgx.ErrNoRows) {
		t.Fatalf("read committed violated: %v", err)
	}
	if err := tx.Commit(ctx); err != nil {
		t.Fatal(err)
	}
	if err = p.QueryRow(ctx, latest, "main", "ig").Scan(&n, &h); err != nil || n != 9 {
		t.Fatalf("latest: %d %v", n, err)
	}
	// unique violation
	_, err = p.Exec(ctx, insCursor, uint64(1), "main", "ig", uint64(9), []byte{0}, uint64(1), []byte{}, uint64(0), uint64(1), int64(0), time.Millisecond)
	var pe *pgconn.PgError
	if !errors.As(err, &pe) || pe.Code != "23505" {
		t.Fatalf("want 23505, got %v", err)
	}
	// delete >=
	ct, err := p.Exec(ctx, `delete from shovel.task_updates where src_name = $1 and ig_name = $2 and num >= $3`, "main", "ig", uint64(7))
	if err != nil || ct.RowsAffected() != 2 {
		t.Fatalf("delete: %v %v", ct, err)
	}
	if err = p.QueryRow(ctx, latest, "main", "ig").Scan(&n, &h); err != nil || n != 5 {
		t.Fatalf("latest after delete: %d %v", n, err)
	}
}

const latestDep = `
	with latest as (
		select distinct on (ig_name)
		ig_name, num, hash
		from shovel.task_updates
		where src_name = $1
		and ig_name = ANY($2)
		order by ig_name, num desc
	)
	select num, hash, (select count(*) from latest)
	from latest
	order by num asc
	limit 1;
`

func TestLatestDependency(t *testing.T) {
	ctx := context.Background()
	s, p := start(t)
	if _, err := p.Exec(ctx, shovel.Schema); err != nil {
		t.Fatal(err)
	}
	for _, r := range []struct {
		ig  string
		num int
	}{{"a", 3}, {"a", 8}, {"b", 6}, {"b", 2}, {"c", 1}} {
		if _, err := s.Exec(`insert into shovel.task_updates (src_name, ig_name, num, hash) values ($1, $2, $3, $4)`, "main", r.ig, r.num, []byte{byte(r.num)}); err != nil {
			t.Fatal(err)
		}
	}
	var n uint64
	var h []byte
	var cnt int64
	if err := p.QueryRow(ctx, latestDep, "main", []string{"a", "b", "zz"}).Scan(&n, &h, &cnt); err != nil {
		t.Fatal(err)
	}
	if n != 6 || h[0] != 6 || cnt != 2 {
		t.Fatalf("latestDep: %d %x %d", n, h, cnt)
	}
	err := p.QueryRow(ctx, latestDep, "other", []string{"a"}).Scan(&n, &h, &cnt)
	if !errors.Is(err, pgx.ErrNoRows) {
		t.Fatalf("want no rows: %v", err)
	}
}

func TestCopyAndIntegrationTable(t *testing.T) {
	ctx := context.Background()
	s, p := start(t)
	for _, q := range []string{
		`create table if not exists foo(ig_name text, src_name text, block_num numeric, tx_idx int, log_idx int, "from" bytea, v numeric)`,
		`create unique index if not exists u_foo on foo (ig_name, src_name, block_num, tx_idx, log_idx)`,
		`create index if not exists shovel_from on foo ("from")`,
	} {
		if _, err := p.Exec(ctx, q); err != nil {
			t.Fatal(q, err)
		}
	}
	rows, err := p.Query(ctx, `
		select column_name, data_type
		from information_schema.columns
		where table_schema = 'public'
		and table_name = $1
	`, "foo")
	if err != nil {
		t.Fatal(err)
	}
	var names []string
	for rows.Next() {
		var a, b string
		if err := rows.Scan(&a, &b); err != nil {
			t.Fatal(err)
		}
		names = append(names, a+":"+b)
	}
	if got := strings.Join(names, ","); got != "ig_name:text,src_name:text,block_num:numeric,tx_idx:integer,log_idx:integer,from:bytea,v:numeric" {
		t.Fatal(got)
	}
	if _, err := p.Exec(ctx, `alter table foo add column if not exists extra text`); err != nil {
		t.Fatal(err)
	}
	tx, _ := p.Begin(ctx)
	n, err := tx.CopyFrom(ctx, pgx.Identifier{"foo"}, []string{"ig_name", "src_name", "block_num", "tx_idx", "log_idx", "from", "v"},
		pgx.CopyFromRows([][]any{
			{"ig", "main", uint64(10), uint64(0), 1, []byte{0xaa}, "340282366920938463463374607431768211456"},
			{"ig", "main", uint64(11), uint64(2), 0, []byte{}, nil},
		}))
	if err != nil || n != 2 {
		t.Fatalf("copy: %d %v", n, err)
	}
	var ok bool
	if err := tx.QueryRow(ctx, `select true from foo where "from" = $1`, []byte{0xaa}).Scan(&ok); err != nil || !ok {
		t.Fatalf("ref lookup: %v %v", ok, err)
	}
	if _, err := tx.Exec(ctx, `select pg_notify('main-ig', $1)`, "1,2"); err != nil {
		t.Fatal(err)
	}
	if len(s.Snapshot().Table("foo").Rows) != 0 {
		t.Fatal("copy visible before commit")
	}
	if err := tx.Commit(ctx); err != nil {
		t.Fatal(err)
	}
	snap := s.Snapshot().Table("foo")
	if len(snap.Rows) != 2 || len(s.Notifications()) != 1 {
		t.Fatalf("after commit: %v %v", snap.Rows, s.Notifications())
	}
	// duplicate through COPY aborts the transaction
	tx, _ = p.Begin(ctx)
	_, err = tx.CopyFrom(ctx, pgx.Identifier{"foo"}, []string{"ig_name", "src_name", "block_num", "tx_idx", "log_idx"},
		pgx.CopyFromRows([][]any{{"ig", "main", uint64(10), uint64(0), 1}}))
	var pe *pgconn.PgError
	if !errors.As(err, &pe) || pe.Code != "23505" {
		t.Fatalf("want 23505: %v", err)
	}
	_, err = tx.Exec(ctx, `delete from foo where src_name = $1 and ig_name = $2 and block_num >= $3`, "main", "ig", uint64(0))
	if !errors.As(err, &pe) || pe.Code != "25P02" {
		t.Fatalf("want 25P02: %v", err)
	}
	tx.Rollback(ctx)
	ct, err := p.Exec(ctx, `delete from foo where src_name = $1 and ig_name = $2 and block_num >= $3`, "main", "ig", uint64(11))
	if err != nil || ct.RowsAffected() != 1 {
		t.Fatalf("delete: %v %v", ct, err)
	}
	if _, err := p.Exec(ctx, `delete from foo where nosuch = $1`, "x"); err == nil {
		t.Fatal("unknown column accepted")
	}
	if _, err := p.Exec(ctx, `update foo set v = 1`); !errors.As(err, &pe) || pe.Code != "42601" {
		t.Fatalf("unknown statement: %v", err)
	}
}

func TestFaultsAndGate(t *testing.T) {
	ctx := context.Background()
	s, p := start(t)
	if _, err := p.Exec(ctx, shovel.Schema); err != nil {
		t.Fatal(err)
	}
	ins := func(c interface {
		Exec(context.Context, string, ...any) (pgconn.CommandTag, error)
	}, n uint64) error {
		_, err := c.Exec(ctx, insCursor, uint64(1), "main", "ig", n, []byte{1}, n, []byte{}, uint64(0), uint64(1), int64(0), time.Millisecond)
		return err
	}
	// error reply on the insert: transaction aborted, commit turns into rollback
	s.SetFaultPlan(func(i StmtInfo) Fault {
		if i.Kind == "insert" {
			return Fault{Kind: FaultError}
		}
		return Fault{}
	})
	tx, _ := p.Begin(ctx)
	if err := ins(tx, 1); err == nil {
		t.Fatal("fault not delivered")
	}
	if err := tx.Commit(ctx); err == nil {
		t.Fatal("commit of aborted tx succeeded")
	}
	// connection drop on commit: nothing committed
	s.SetFaultPlan(func(i StmtInfo) Fault {
		if i.Kind == "commit" {
			return Fault{Kind: FaultDrop}
		}
		return Fault{}
	})
	tx, _ = p.Begin(ctx)
	if err := ins(tx, 2); err != nil {
		t.Fatal(err)
	}
	if err := tx.Commit(ctx); err == nil {
		t.Fatal("commit on dropped connection succeeded")
	}
	if n := len(s.Snapshot().Table("shovel.task_updates").Rows); n != 0 {
		t.Fatalf("rows after dropped commit: %d", n)
	}
	// drop after commit: committed although the client saw an error
	s.SetFaultPlan(func(i StmtInfo) Fault {
		if i.Kind == "commit" {
			return Fault{Kind: FaultDropAfter}
		}
		return Fault{}
	})
	tx, _ = p.Begin(ctx)
	if err := ins(tx, 3); err != nil {
		t.Fatal(err)
	}
	if err := tx.Commit(ctx); err == nil {
		t.Fatal("commit reply should have been lost")
	}
	if n := len(s.Snapshot().Table("shovel.task_updates").Rows); n != 1 {
		t.Fatalf("rows after drop-after commit: %d", n)
	}
	// crash: every connection goes, open write sets are discarded
	s.SetFaultPlan(nil)
	tx, _ = p.Begin(ctx)
	tx2, _ := p.Begin(ctx)
	ins(tx, 4)
	ins(tx2, 5)
	s.Crash()
	if err := tx.Commit(ctx); err == nil {
		t.Fatal("commit after crash succeeded")
	}
	tx2.Rollback(ctx)
	if n := len(s.Snapshot().Table("shovel.task_updates").Rows); n != 1 {
		t.Fatalf("rows after crash: %d", n)
	}
	// the pool recovers
	if err := ins(p, 6); err != nil {
		if err = ins(p, 6); err != nil {
			t.Fatal(err)
		}
	}
	// gate: hold the second of two concurrent inserts until released
	release := make(chan struct{})
	arrived := make(chan StmtInfo, 4)
	s.SetGate(func(i StmtInfo) {
		if i.Kind == "insert" {
			arrived <- i
			<-release
		}
	})
	done := make(chan error, 1)
	go func() { done <- ins(p, 7) }()
	i := <-arrived
	if u, _ := Uint64(i.Params[3]); u != 7 {
		t.Fatalf("gate saw %v", i.Params)
	}
	if n := len(s.Snapshot().Table("shovel.task_updates").Rows); n != 2 {
		t.Fatalf("gated insert ran early: %d", n)
	}
	close(release)
	if err := <-done; err != nil {
		t.Fatal(err)
	}
	s.SetGate(nil)
	var kinds []string
	for _, e := range s.Log() {
		kinds = append(kinds, e.Kind+":"+e.Outcome)
	}
	t.Log(strings.Join(kinds, " "))
}

func TestPruneAndSources(t *testing.T) {
	ctx := context.Background()
	s, p := start(t)
	if _, err := p.Exec(ctx, shovel.Schema); err != nil {
		t.Fatal(err)
	}
	for n := 1; n <= 5; n++ {
		for _, ig := range []string{"a", "b"} {
			if _, err := s.Exec(`insert into shovel.task_updates (src_name, ig_name, num) values ($1, $2, $3)`, "main", ig, n); err != nil {
				t.Fatal(err)
			}
		}
	}
	if err := shovel.PruneTask(ctx, p, 2); err != nil {
		t.Fatal(err)
	}
	if n := len(s.Snapshot().Table("shovel.task_updates").Rows); n != 4 {
		t.Fatalf("after prune: %d", n)
	}
	if _, err := p.Exec(ctx, `insert into shovel.sources(chain_id, name, url) values ($1, $2, $3)`, uint64(1), "main", "http://x"); err != nil {
		t.Fatal(err)
	}
	if _, err := p.Exec(ctx, `insert into shovel.integrations(name, conf) values ($1, $2)`, "ig", []byte(`{"name":"ig"}`)); err != nil {
		t.Fatal(err)
	}
	var name, url string
	var chain uint64
	if err := p.QueryRow(ctx, `select name, chain_id, url from shovel.sources`).Scan(&name, &chain, &url); err != nil || name != "main" || chain != 1 {
		t.Fatalf("sources: %v %v %v %v", name, chain, url, err)
	}
	var conf []byte
	if err := p.QueryRow(ctx, `select conf from shovel.integrations`).Scan(&conf); err != nil || string(conf) != `{"name":"ig"}` {
		t.Fatalf("integrations: %s %v", conf, err)
	}
	tx, _ := p.Begin(ctx)
	if _, err := tx.Exec(ctx, "select pg_advisory_xact_lock($1)", int64(42)); err != nil {
		t.Fatal(err)
	}
	if _, err := tx.Exec(ctx, shovel.Schema); err != nil {
		t.Fatal(err)
	}
	tx.Commit(ctx)
}

// An insert whose unique key is held by another session's uncommitted row: Postgres waits;
// with SetDetectWaits the statement fails with 55P03; OpenTransactions lists the sessions.
func TestOpenTransactionsAndDetectWaits(t *testing.T) {
	ctx := context.Background()
	s, p := start(t)
	if _, err := p.Exec(ctx, shovel.Schema); err != nil {
		t.Fatal(err)
	}
	args := []any{1, "main", "ig", 7, []byte{1}, 9, []byte{2}, 0, 1, 0, time.Second}
	a, err := p.Begin(ctx)
	if err != nil {
		t.Fatal(err)
	}
	if _, err := a.Exec(ctx, insCursor, args...); err != nil {
		t.Fatal(err)
	}
	if n := len(s.OpenTransactions()); n != 1 {
		t.Fatalf("open transactions: %d", n)
	}
	b, err := p.Begin(ctx)
	if err != nil {
		t.Fatal(err)
	}
	// off: the second writer is not stopped at the insert
	if _, err := b.Exec(ctx, insCursor, args...); err != nil {
		t.Fatalf("without detection: %v", err)
	}
	b.Rollback(ctx)
	s.SetDetectWaits(true)
	if b, err = p.Begin(ctx); err != nil {
		t.Fatal(err)
	}
	_, err = b.Exec(ctx, insCursor, args...)
	var pe *pgconn.PgError
	if !errors.As(err, &pe) || pe.Code != "55P03" {
		t.Fatalf("with detection: %v", err)
	}
	b.Rollback(ctx)
	a.Rollback(ctx)
	if n := len(s.OpenTransactions()); n != 0 {
		t.Fatalf("open transactions after rollback: %d", n)
	}
	if _, err := p.Exec(ctx, insCursor, args...); err != nil {
		t.Fatalf("after the holder ended: %v", err)
	}
}
