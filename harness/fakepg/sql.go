package fakepg

import (
	"fmt"
	"math/big"
	"strconv"
	"strings"
)

// ---------------------------------------------------------------- tokens

type tokKind int

const (
	tEOF tokKind = iota
	tIdent
	tQIdent // "quoted"
	tNum
	tStr
	tDollarStr // $$ ... $$
	tParam
	tPunct
)

type token struct {
	k tokKind
	s string // identifiers lower-cased unless quoted
	n int    // parameter number
}

func (t token) String() string {
	switch t.k {
	case tEOF:
		return "<end>"
	case tParam:
		return "$" + strconv.Itoa(t.n)
	case tStr:
		return "'" + t.s + "'"
	case tQIdent:
		return `"` + t.s + `"`
	}
	return t.s
}

func isIdentStart(c byte) bool {
	return c == '_' || (c >= 'a' && c <= 'z') || (c >= 'A' && c <= 'Z') || c >= 0x80
}
func isIdentPart(c byte) bool { return isIdentStart(c) || (c >= '0' && c <= '9') }

func synErr(format string, a ...any) error {
	return &pgErr{code: "42601", msg: "syntax error: " + fmt.Sprintf(format, a...)}
}

func lex(src string) ([]token, error) {
	var out []token
	i := 0
	for i < len(src) {
		c := src[i]
		switch {
		case c == ' ' || c == '\t' || c == '\n' || c == '\r':
			i++
		case c == '-' && i+1 < len(src) && src[i+1] == '-':
			for i < len(src) && src[i] != '\n' {
				i++
			}
		case c == '/' && i+1 < len(src) && src[i+1] == '*':
			j := strings.Index(src[i+2:], "*/")
			if j < 0 {
				return nil, synErr("unterminated comment")
			}
			i += j + 4
		case isIdentStart(c):
			j := i
			for j < len(src) && isIdentPart(src[j]) {
				j++
			}
			out = append(out, token{k: tIdent, s: strings.ToLower(src[i:j])})
			i = j
		case c >= '0' && c <= '9':
			j := i
			for j < len(src) && src[j] >= '0' && src[j] <= '9' {
				j++
			}
			out = append(out, token{k: tNum, s: src[i:j]})
			i = j
		case c == '"':
			j := i + 1
			var sb strings.Builder
			for {
				if j >= len(src) {
					return nil, synErr("unterminated quoted identifier")
				}
				if src[j] == '"' {
					if j+1 < len(src) && src[j+1] == '"' {
						sb.WriteByte('"')
						j += 2
						continue
					}
					break
				}
				sb.WriteByte(src[j])
				j++
			}
			out = append(out, token{k: tQIdent, s: sb.String()})
			i = j + 1
		case c == '\'':
			j := i + 1
			var sb strings.Builder
			for {
				if j >= len(src) {
					return nil, synErr("unterminated string")
				}
				if src[j] == '\'' {
					if j+1 < len(src) && src[j+1] == '\'' {
						sb.WriteByte('\'')
						j += 2
						continue
					}
					break
				}
				sb.WriteByte(src[j])
				j++
			}
			out = append(out, token{k: tStr, s: sb.String()})
			i = j + 1
		case c == '$':
			if i+1 < len(src) && src[i+1] >= '0' && src[i+1] <= '9' {
				j := i + 1
				for j < len(src) && src[j] >= '0' && src[j] <= '9' {
					j++
				}
				n, _ := strconv.Atoi(src[i+1 : j])
				out = append(out, token{k: tParam, n: n})
				i = j
				break
			}
			// dollar quoting: $tag$ ... $tag$
			j := i + 1
			for j < len(src) && isIdentPart(src[j]) {
				j++
			}
			if j >= len(src) || src[j] != '$' {
				return nil, synErr("at or near \"$\"")
			}
			tag := src[i : j+1]
			end := strings.Index(src[j+1:], tag)
			if end < 0 {
				return nil, synErr("unterminated dollar-quoted string")
			}
			out = append(out, token{k: tDollarStr, s: src[j+1 : j+1+end]})
			i = j + 1 + end + len(tag)
		default:
			two := ""
			if i+1 < len(src) {
				two = src[i : i+2]
			}
			switch two {
			case ">=", "<=", "<>", "!=", "::":
				out = append(out, token{k: tPunct, s: two})
				i += 2
				continue
			}
			switch c {
			case '(', ')', ',', ';', '*', '=', '>', '<', '.', '+', '-':
				out = append(out, token{k: tPunct, s: string(c)})
				i++
			default:
				return nil, synErr("at or near %q", string(c))
			}
		}
	}
	return out, nil
}

// Normalize collapses white space and comments; the log shows this form.
func Normalize(sql string) string {
	var sb strings.Builder
	space := false
	i := 0
	for i < len(sql) {
		c := sql[i]
		switch {
		case c == '-' && i+1 < len(sql) && sql[i+1] == '-':
			for i < len(sql) && sql[i] != '\n' {
				i++
			}
		case c == ' ' || c == '\t' || c == '\n' || c == '\r':
			space = true
			i++
		case c == '\'':
			if space && sb.Len() > 0 {
				sb.WriteByte(' ')
			}
			space = false
			j := i + 1
			for j < len(sql) && sql[j] != '\'' {
				j++
			}
			if j < len(sql) {
				j++
			}
			sb.WriteString(sql[i:j])
			i = j
		default:
			if space && sb.Len() > 0 {
				sb.WriteByte(' ')
			}
			space = false
			sb.WriteByte(c)
			i++
		}
	}
	return strings.TrimRight(strings.TrimSpace(sb.String()), "; ")
}

// ---------------------------------------------------------------- AST

type TableName struct{ Schema, Name string }

func (t TableName) String() string { return t.Schema + "." + t.Name }

type (
	ColRef    struct{ Qual, Name string }
	ParamRef  struct{ N int }
	Lit       struct{ V Value }
	Star      struct{}
	CountStar struct{}
	SubSel    struct{ S *SelectStmt }
	FuncCall  struct {
		Name string
		Args []Expr
	}
	NowCall struct{}
)

type Expr any

type Pred struct {
	L      Expr
	Op     string // = >= > <= < <>  | "isnull" | "notnull"
	R      Expr
	AnyArr bool // L op ANY(R)
}

type OrderItem struct {
	Col  ColRef
	Desc bool
}

type SelItem struct {
	E     Expr
	Alias string
}

type CTE struct {
	Name string
	S    *SelectStmt
}

type SelectStmt struct {
	With       []CTE
	DistinctOn []ColRef
	Items      []SelItem
	From       *TableName
	FromAlias  string
	Where      []Pred
	OrderBy    []OrderItem
	Limit      Expr
}

type ColDef struct {
	Name    string
	Type    string
	NotNull bool
	Default Expr
}

type (
	BeginStmt    struct{}
	CommitStmt   struct{}
	RollbackStmt struct{}
	SetStmt      struct{ Text string }
	NoopStmt     struct{ Tag, What string }
	CreateTable  struct {
		Name        TableName
		IfNotExists bool
		Cols        []ColDef
	}
	CreateIndex struct {
		Unique      bool
		IfNotExists bool
		Name        string
		Table       TableName
		Cols        []string
	}
	DropIndex struct {
		IfExists bool
		Name     TableName
	}
	AlterAddColumn struct {
		Table       TableName
		IfNotExists bool
		Col         ColDef
	}
	AlterDropColumn struct {
		Table    TableName
		IfExists bool
		Col      string
	}
	InsertStmt struct {
		Table TableName
		Cols  []string
		Vals  []Expr
	}
	DeleteStmt struct {
		Table TableName
		Where []Pred
	}
	CopyStmt struct {
		Table TableName
		Cols  []string
	}
	// PruneStmt is shovel.PruneTask's statement: keep the newest $1 cursor
	// rows of every (src_name, ig_name).  Recognised as a whole.
	PruneStmt struct{}
)

type Stmt any

// Kind classifies a statement for the log / fault plan.
func Kind(s Stmt) string {
	switch s.(type) {
	case *BeginStmt:
		return "begin"
	case *CommitStmt:
		return "commit"
	case *RollbackStmt:
		return "rollback"
	case *SetStmt:
		return "set"
	case *SelectStmt:
		return "select"
	case *InsertStmt:
		return "insert"
	case *DeleteStmt, *PruneStmt:
		return "delete"
	case *CopyStmt:
		return "copy"
	case *NoopStmt:
		return "noop"
	case nil:
		return "invalid"
	}
	return "ddl"
}

// ---------------------------------------------------------------- parser

type parser struct {
	toks []token
	pos  int
}

func (p *parser) peek() token {
	if p.pos < len(p.toks) {
		return p.toks[p.pos]
	}
	return token{k: tEOF}
}
func (p *parser) peekAt(d int) token {
	if p.pos+d < len(p.toks) {
		return p.toks[p.pos+d]
	}
	return token{k: tEOF}
}
func (p *parser) next() token { t := p.peek(); p.pos++; return t }
func (p *parser) isKw(w string) bool {
	t := p.peek()
	return t.k == tIdent && t.s == w
}
func (p *parser) isKwAt(d int, w string) bool {
	t := p.peekAt(d)
	return t.k == tIdent && t.s == w
}
func (p *parser) acceptKw(ws ...string) bool {
	for i, w := range ws {
		if !p.isKwAt(i, w) {
			return false
		}
	}
	p.pos += len(ws)
	return true
}
func (p *parser) expectKw(ws ...string) error {
	for _, w := range ws {
		if !p.isKw(w) {
			return synErr("expected %q at or near %q", w, p.peek().String())
		}
		p.pos++
	}
	return nil
}
func (p *parser) isPunct(s string) bool {
	t := p.peek()
	return t.k == tPunct && t.s == s
}
func (p *parser) acceptPunct(s string) bool {
	if p.isPunct(s) {
		p.pos++
		return true
	}
	return false
}
func (p *parser) expectPunct(s string) error {
	if !p.acceptPunct(s) {
		return synErr("expected %q at or near %q", s, p.peek().String())
	}
	return nil
}

var reserved = map[string]bool{
	"select": true, "from": true, "where": true, "and": true, "order": true, "by": true, "limit": true,
	"as": true, "on": true, "with": true, "distinct": true, "values": true, "into": true, "insert": true,
	"delete": true, "asc": true, "desc": true, "any": true, "or": true, "not": true, "is": true,
	"group": true, "having": true, "union": true, "join": true, "left": true, "using": true,
}

func (p *parser) ident() (string, error) {
	t := p.peek()
	switch t.k {
	case tQIdent:
		p.pos++
		return t.s, nil
	case tIdent:
		p.pos++
		return t.s, nil
	}
	return "", synErr("expected identifier at or near %q", t.String())
}

func (p *parser) tableName() (TableName, error) {
	a, err := p.ident()
	if err != nil {
		return TableName{}, err
	}
	if p.acceptPunct(".") {
		b, err := p.ident()
		if err != nil {
			return TableName{}, err
		}
		return TableName{a, b}, nil
	}
	return TableName{"public", a}, nil
}

// ParseScript splits a simple-protocol query string into statements.
func ParseScript(sql string) ([]Stmt, error) {
	toks, err := lex(sql)
	if err != nil {
		return nil, err
	}
	var out []Stmt
	start := 0
	flush := func(end int) error {
		if end > start {
			st, err := parseTokens(toks[start:end], sql)
			if err != nil {
				return err
			}
			out = append(out, st)
		}
		return nil
	}
	for i, t := range toks {
		if t.k == tPunct && t.s == ";" {
			if err := flush(i); err != nil {
				return nil, err
			}
			start = i + 1
		}
	}
	if err := flush(len(toks)); err != nil {
		return nil, err
	}
	return out, nil
}

// ParseOne parses exactly one statement (extended protocol).
func ParseOne(sql string) (Stmt, error) {
	sts, err := ParseScript(sql)
	if err != nil {
		return nil, err
	}
	switch len(sts) {
	case 0:
		return &NoopStmt{Tag: "", What: "empty"}, nil
	case 1:
		return sts[0], nil
	}
	return nil, &pgErr{code: "42601", msg: "cannot insert multiple commands into a prepared statement"}
}

func parseTokens(toks []token, whole string) (Stmt, error) {
	p := &parser{toks: toks}
	st, err := p.statement(whole)
	if err != nil {
		return nil, err
	}
	if p.peek().k != tEOF {
		return nil, synErr("unexpected %q", p.peek().String())
	}
	return st, nil
}

func (p *parser) statement(whole string) (Stmt, error) {
	t := p.peek()
	if t.k != tIdent {
		return nil, synErr("at or near %q", t.String())
	}
	switch t.s {
	case "begin", "start":
		p.pos = len(p.toks)
		return &BeginStmt{}, nil
	case "commit", "end":
		p.pos = len(p.toks)
		return &CommitStmt{}, nil
	case "rollback", "abort":
		p.pos = len(p.toks)
		return &RollbackStmt{}, nil
	case "set":
		var parts []string
		for p.peek().k != tEOF {
			parts = append(parts, p.next().String())
		}
		return &SetStmt{Text: strings.Join(parts, " ")}, nil
	case "do":
		p.pos++
		if p.peek().k != tDollarStr {
			return nil, synErr("expected dollar-quoted body after do")
		}
		p.pos++
		return &NoopStmt{Tag: "DO", What: "do-block (not interpreted)"}, nil
	case "create":
		return p.create()
	case "drop":
		return p.drop()
	case "alter":
		return p.alter()
	case "insert":
		return p.insert()
	case "delete":
		return p.delete()
	case "copy":
		return p.copy()
	case "select", "with":
		return p.selectStmt()
	}
	return nil, synErr("at or near %q", t.String())
}

func (p *parser) skipRest() {
	p.pos = len(p.toks)
}

func (p *parser) create() (Stmt, error) {
	p.pos++ // create
	switch {
	case p.acceptKw("schema"):
		p.skipRest()
		return &NoopStmt{Tag: "CREATE SCHEMA", What: "create schema"}, nil
	case p.isKw("or") || p.isKw("view"):
		p.skipRest()
		return &NoopStmt{Tag: "CREATE VIEW", What: "create view (views are not interpreted)"}, nil
	case p.acceptKw("table"):
		ct := &CreateTable{}
		if p.acceptKw("if", "not", "exists") {
			ct.IfNotExists = true
		}
		var err error
		if ct.Name, err = p.tableName(); err != nil {
			return nil, err
		}
		if err := p.expectPunct("("); err != nil {
			return nil, err
		}
		for {
			cd, err := p.colDef()
			if err != nil {
				return nil, err
			}
			ct.Cols = append(ct.Cols, cd)
			if p.acceptPunct(",") {
				continue
			}
			break
		}
		if err := p.expectPunct(")"); err != nil {
			return nil, err
		}
		return ct, nil
	case p.isKw("unique") || p.isKw("index"):
		ci := &CreateIndex{}
		if p.acceptKw("unique") {
			ci.Unique = true
		}
		if err := p.expectKw("index"); err != nil {
			return nil, err
		}
		if p.acceptKw("if", "not", "exists") {
			ci.IfNotExists = true
		}
		var err error
		if ci.Name, err = p.ident(); err != nil {
			return nil, err
		}
		if err := p.expectKw("on"); err != nil {
			return nil, err
		}
		if ci.Table, err = p.tableName(); err != nil {
			return nil, err
		}
		if p.acceptKw("using") {
			if _, err := p.ident(); err != nil {
				return nil, err
			}
		}
		if err := p.expectPunct("("); err != nil {
			return nil, err
		}
		for {
			c, err := p.ident()
			if err != nil {
				return nil, err
			}
			ci.Cols = append(ci.Cols, c)
			if !p.acceptKw("desc") {
				p.acceptKw("asc")
			}
			if p.acceptPunct(",") {
				continue
			}
			break
		}
		if err := p.expectPunct(")"); err != nil {
			return nil, err
		}
		return ci, nil
	}
	return nil, synErr("unsupported create at or near %q", p.peek().String())
}

func (p *parser) colDef() (ColDef, error) {
	var cd ColDef
	var err error
	if cd.Name, err = p.ident(); err != nil {
		return cd, err
	}
	// type: one or more identifiers, optional (n[,m])
	var ty []string
	for p.peek().k == tIdent && !p.isKw("not") && !p.isKw("default") && !p.isKw("null") &&
		!p.isKw("primary") && !p.isKw("unique") && !p.isKw("references") {
		ty = append(ty, p.next().s)
	}
	if len(ty) == 0 {
		return cd, synErr("missing type for column %q", cd.Name)
	}
	cd.Type = strings.Join(ty, " ")
	if p.acceptPunct("(") {
		for !p.isPunct(")") && p.peek().k != tEOF {
			p.pos++
		}
		if err := p.expectPunct(")"); err != nil {
			return cd, err
		}
	}
	for {
		switch {
		case p.acceptKw("not", "null"):
			cd.NotNull = true
		case p.acceptKw("null"):
		case p.acceptKw("default"):
			e, err := p.operand()
			if err != nil {
				return cd, err
			}
			cd.Default = e
		default:
			if _, _, ok := typeOID(cd.Type); !ok {
				return cd, &pgErr{code: "42704", msg: fmt.Sprintf("type %q does not exist", cd.Type)}
			}
			return cd, nil
		}
	}
}

func (p *parser) drop() (Stmt, error) {
	p.pos++
	switch {
	case p.acceptKw("index"):
		di := &DropIndex{}
		if p.acceptKw("if", "exists") {
			di.IfExists = true
		}
		var err error
		if di.Name, err = p.tableName(); err != nil {
			return nil, err
		}
		return di, nil
	case p.acceptKw("view"):
		p.skipRest()
		return &NoopStmt{Tag: "DROP VIEW", What: "drop view"}, nil
	}
	return nil, synErr("unsupported drop at or near %q", p.peek().String())
}

func (p *parser) alter() (Stmt, error) {
	p.pos++
	if err := p.expectKw("table"); err != nil {
		return nil, err
	}
	tn, err := p.tableName()
	if err != nil {
		return nil, err
	}
	switch {
	case p.acceptKw("add"):
		p.acceptKw("column")
		a := &AlterAddColumn{Table: tn}
		if p.acceptKw("if", "not", "exists") {
			a.IfNotExists = true
		}
		if a.Col, err = p.colDef(); err != nil {
			return nil, err
		}
		return a, nil
	case p.acceptKw("drop"):
		p.acceptKw("column")
		d := &AlterDropColumn{Table: tn}
		if p.acceptKw("if", "exists") {
			d.IfExists = true
		}
		if d.Col, err = p.ident(); err != nil {
			return nil, err
		}
		return d, nil
	}
	return nil, synErr("unsupported alter table at or near %q", p.peek().String())
}

func (p *parser) insert() (Stmt, error) {
	p.pos++
	if err := p.expectKw("into"); err != nil {
		return nil, err
	}
	ins := &InsertStmt{}
	var err error
	if ins.Table, err = p.tableName(); err != nil {
		return nil, err
	}
	if p.acceptPunct("(") {
		for {
			c, err := p.ident()
			if err != nil {
				return nil, err
			}
			ins.Cols = append(ins.Cols, c)
			if p.acceptPunct(",") {
				continue
			}
			break
		}
		if err := p.expectPunct(")"); err != nil {
			return nil, err
		}
	}
	if err := p.expectKw("values"); err != nil {
		return nil, err
	}
	if err := p.expectPunct("("); err != nil {
		return nil, err
	}
	for {
		e, err := p.operand()
		if err != nil {
			return nil, err
		}
		ins.Vals = append(ins.Vals, e)
		if p.acceptPunct(",") {
			continue
		}
		break
	}
	if err := p.expectPunct(")"); err != nil {
		return nil, err
	}
	return ins, nil
}

func (p *parser) delete() (Stmt, error) {
	p.pos++
	if err := p.expectKw("from"); err != nil {
		return nil, err
	}
	d := &DeleteStmt{}
	var err error
	if d.Table, err = p.tableName(); err != nil {
		return nil, err
	}
	if p.acceptKw("where") {
		// shovel.PruneTask: where (src_name, ig_name, num) not in ( ... row_number() over ... )
		if p.isPunct("(") {
			for _, t := range p.toks[p.pos:] {
				if t.k == tIdent && t.s == "row_number" {
					p.skipRest()
					if d.Table != (TableName{"shovel", "task_updates"}) {
						return nil, synErr("unsupported row-value delete on %s", d.Table)
					}
					return &PruneStmt{}, nil
				}
			}
		}
		if d.Where, err = p.conjunction(); err != nil {
			return nil, err
		}
	}
	return d, nil
}

func (p *parser) copy() (Stmt, error) {
	p.pos++
	c := &CopyStmt{}
	var err error
	if c.Table, err = p.tableName(); err != nil {
		return nil, err
	}
	if p.acceptPunct("(") {
		for {
			col, err := p.ident()
			if err != nil {
				return nil, err
			}
			c.Cols = append(c.Cols, col)
			if p.acceptPunct(",") {
				continue
			}
			break
		}
		if err := p.expectPunct(")"); err != nil {
			return nil, err
		}
	}
	if err := p.expectKw("from", "stdin", "binary"); err != nil {
		return nil, err
	}
	return c, nil
}

func (p *parser) selectStmt() (*SelectStmt, error) {
	s := &SelectStmt{}
	if p.acceptKw("with") {
		for {
			name, err := p.ident()
			if err != nil {
				return nil, err
			}
			if err := p.expectKw("as"); err != nil {
				return nil, err
			}
			if err := p.expectPunct("("); err != nil {
				return nil, err
			}
			sub, err := p.selectStmt()
			if err != nil {
				return nil, err
			}
			if err := p.expectPunct(")"); err != nil {
				return nil, err
			}
			s.With = append(s.With, CTE{Name: name, S: sub})
			if p.acceptPunct(",") {
				continue
			}
			break
		}
	}
	if err := p.expectKw("select"); err != nil {
		return nil, err
	}
	if p.acceptKw("distinct") {
		if err := p.expectKw("on"); err != nil {
			return nil, err
		}
		if err := p.expectPunct("("); err != nil {
			return nil, err
		}
		for {
			c, err := p.colRef()
			if err != nil {
				return nil, err
			}
			s.DistinctOn = append(s.DistinctOn, c)
			if p.acceptPunct(",") {
				continue
			}
			break
		}
		if err := p.expectPunct(")"); err != nil {
			return nil, err
		}
	}
	for {
		var it SelItem
		if p.acceptPunct("*") {
			it.E = Star{}
		} else {
			e, err := p.operand()
			if err != nil {
				return nil, err
			}
			it.E = e
			if p.acceptKw("as") {
				a, err := p.ident()
				if err != nil {
					return nil, err
				}
				it.Alias = a
			} else if t := p.peek(); (t.k == tIdent && !reserved[t.s]) || t.k == tQIdent {
				p.pos++
				it.Alias = t.s
			}
		}
		s.Items = append(s.Items, it)
		if p.acceptPunct(",") {
			continue
		}
		break
	}
	if p.acceptKw("from") {
		tn, err := p.tableName()
		if err != nil {
			return nil, err
		}
		s.From = &tn
		if p.acceptKw("as") {
			if s.FromAlias, err = p.ident(); err != nil {
				return nil, err
			}
		} else if t := p.peek(); t.k == tIdent && !reserved[t.s] {
			p.pos++
			s.FromAlias = t.s
		}
	}
	if p.acceptKw("where") {
		var err error
		if s.Where, err = p.conjunction(); err != nil {
			return nil, err
		}
	}
	if p.acceptKw("order") {
		if err := p.expectKw("by"); err != nil {
			return nil, err
		}
		for {
			c, err := p.colRef()
			if err != nil {
				return nil, err
			}
			it := OrderItem{Col: c}
			if p.acceptKw("desc") {
				it.Desc = true
			} else {
				p.acceptKw("asc")
			}
			s.OrderBy = append(s.OrderBy, it)
			if p.acceptPunct(",") {
				continue
			}
			break
		}
	}
	if p.acceptKw("limit") {
		e, err := p.operand()
		if err != nil {
			return nil, err
		}
		s.Limit = e
	}
	return s, nil
}

func (p *parser) colRef() (ColRef, error) {
	a, err := p.ident()
	if err != nil {
		return ColRef{}, err
	}
	if p.acceptPunct(".") {
		b, err := p.ident()
		if err != nil {
			return ColRef{}, err
		}
		if p.acceptPunct(".") { // schema.table.col
			c, err := p.ident()
			if err != nil {
				return ColRef{}, err
			}
			return ColRef{Qual: a + "." + b, Name: c}, nil
		}
		return ColRef{Qual: a, Name: b}, nil
	}
	return ColRef{Name: a}, nil
}

func (p *parser) conjunction() ([]Pred, error) {
	var out []Pred
	for {
		pr, err := p.pred()
		if err != nil {
			return nil, err
		}
		out = append(out, pr)
		if p.acceptKw("and") {
			continue
		}
		if p.isKw("or") {
			return nil, synErr("OR is not supported by the fake server")
		}
		return out, nil
	}
}

func (p *parser) pred() (Pred, error) {
	l, err := p.operand()
	if err != nil {
		return Pred{}, err
	}
	if p.acceptKw("is") {
		if p.acceptKw("not", "null") {
			return Pred{L: l, Op: "notnull"}, nil
		}
		if p.acceptKw("null") {
			return Pred{L: l, Op: "isnull"}, nil
		}
		return Pred{}, synErr("expected null after is")
	}
	t := p.peek()
	if t.k != tPunct {
		return Pred{}, synErr("expected comparison at or near %q", t.String())
	}
	op := t.s
	switch op {
	case "=", ">=", ">", "<=", "<", "<>":
	case "!=":
		op = "<>"
	default:
		return Pred{}, synErr("expected comparison at or near %q", t.String())
	}
	p.pos++
	if p.acceptKw("any") {
		if err := p.expectPunct("("); err != nil {
			return Pred{}, err
		}
		r, err := p.operand()
		if err != nil {
			return Pred{}, err
		}
		if err := p.expectPunct(")"); err != nil {
			return Pred{}, err
		}
		return Pred{L: l, Op: op, R: r, AnyArr: true}, nil
	}
	r, err := p.operand()
	if err != nil {
		return Pred{}, err
	}
	return Pred{L: l, Op: op, R: r}, nil
}

func (p *parser) operand() (Expr, error) {
	t := p.peek()
	var e Expr
	switch t.k {
	case tParam:
		p.pos++
		e = ParamRef{N: t.n}
	case tNum:
		p.pos++
		n, _ := new(big.Int).SetString(t.s, 10)
		e = Lit{V: n}
	case tStr:
		p.pos++
		e = Lit{V: t.s}
	case tPunct:
		switch t.s {
		case "-":
			if p.peekAt(1).k == tNum {
				p.pos += 2
				n, _ := new(big.Int).SetString("-"+p.toks[p.pos-1].s, 10)
				e = Lit{V: n}
				break
			}
			return nil, synErr("at or near %q", t.String())
		case "(":
			p.pos++
			if p.isKw("select") || p.isKw("with") {
				sub, err := p.selectStmt()
				if err != nil {
					return nil, err
				}
				if err := p.expectPunct(")"); err != nil {
					return nil, err
				}
				e = SubSel{S: sub}
				break
			}
			inner, err := p.operand()
			if err != nil {
				return nil, err
			}
			if err := p.expectPunct(")"); err != nil {
				return nil, err
			}
			e = inner
		default:
			return nil, synErr("at or near %q", t.String())
		}
	case tIdent, tQIdent:
		if t.k == tIdent {
			switch t.s {
			case "true":
				p.pos++
				e = Lit{V: true}
			case "false":
				p.pos++
				e = Lit{V: false}
			case "null":
				p.pos++
				e = Lit{V: nil}
			}
			if e != nil {
				break
			}
			if reserved[t.s] {
				return nil, synErr("at or near %q", t.String())
			}
			if p.peekAt(1).k == tPunct && p.peekAt(1).s == "(" {
				p.pos += 2
				name := t.s
				if name == "count" && p.isPunct("*") {
					p.pos++
					if err := p.expectPunct(")"); err != nil {
						return nil, err
					}
					e = CountStar{}
					break
				}
				var args []Expr
				if !p.isPunct(")") {
					for {
						a, err := p.operand()
						if err != nil {
							return nil, err
						}
						args = append(args, a)
						if p.acceptPunct(",") {
							continue
						}
						break
					}
				}
				if err := p.expectPunct(")"); err != nil {
					return nil, err
				}
				switch name {
				case "now":
					e = NowCall{}
				case "pg_notify", "pg_advisory_xact_lock", "pg_advisory_lock", "current_database":
					e = FuncCall{Name: name, Args: args}
				default:
					return nil, &pgErr{code: "42883", msg: fmt.Sprintf("function %s does not exist in the fake server", name)}
				}
				break
			}
		}
		c, err := p.colRef()
		if err != nil {
			return nil, err
		}
		e = c
	default:
		return nil, synErr("at or near %q", t.String())
	}
	// optional cast: expr::type  (type is ignored except for literals)
	for p.acceptPunct("::") {
		ty, err := p.ident()
		if err != nil {
			return nil, err
		}
		if l, ok := e.(Lit); ok {
			if oid, _, ok := typeOID(ty); ok {
				v, err := coerce(oid, l.V)
				if err != nil {
					return nil, err
				}
				e = Lit{V: v}
			}
		}
	}
	return e, nil
}
