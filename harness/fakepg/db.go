package fakepg

import (
	"fmt"
	"sort"
	"strings"
)

type column struct {
	Name    string
	Decl    string
	OID     uint32
	Canon   string // information_schema data_type
	NotNull bool
	Default Expr
}

type index struct {
	Name   string
	Unique bool
	Cols   []string
}

type row struct {
	ID   uint64 // ghost identity: global insert order, never reused
	Vals []Value
}

func (r *row) val(i int) Value {
	if i < len(r.Vals) {
		return r.Vals[i]
	}
	return nil // column added after the row was written
}

type table struct {
	Name    TableName
	Cols    []column
	Indexes []index
	Rows    []*row // committed rows in commit order
}

func (t *table) colIndex(name string) int {
	for i := range t.Cols {
		if t.Cols[i].Name == name {
			return i
		}
	}
	return -1
}

type database struct {
	tables map[string]*table
	nextID uint64
	clock  int64
}

func newDatabase() *database {
	return &database{tables: map[string]*table{}}
}

func (d *database) lookup(n TableName) (*table, error) {
	t, ok := d.tables[n.String()]
	if !ok {
		return nil, &pgErr{code: "42P01", msg: fmt.Sprintf("relation %q does not exist", n.String())}
	}
	return t, nil
}

// txn is the write set of one open transaction (read committed: every
// statement reads the committed state of that moment plus this write set).
type txn struct {
	deleted  map[uint64]bool
	inserted map[string][]*row // by table key, in statement order
	notifies []Notification
	locks    []int64
	failed   bool
	implicit bool
}

func newTxn() *txn {
	return &txn{deleted: map[uint64]bool{}, inserted: map[string][]*row{}}
}

func (x *txn) dirty() bool {
	return len(x.deleted) > 0 || len(x.inserted) > 0
}

// visible returns the rows of t this transaction sees.
func (d *database) visible(t *table, x *txn) []*row {
	if x == nil {
		return t.Rows
	}
	out := make([]*row, 0, len(t.Rows))
	for _, r := range t.Rows {
		if !x.deleted[r.ID] {
			out = append(out, r)
		}
	}
	for _, r := range x.inserted[t.Name.String()] {
		if !x.deleted[r.ID] {
			out = append(out, r)
		}
	}
	return out
}

func uniqueKey(t *table, ix index, r *row) (string, bool) {
	var sb strings.Builder
	for _, c := range ix.Cols {
		i := t.colIndex(c)
		if i < 0 {
			return "", false
		}
		v := r.val(i)
		if v == nil {
			return "", false // NULLs never collide
		}
		sb.WriteString(FormatValue(v))
		sb.WriteByte(0)
	}
	return sb.String(), true
}

// checkUnique reports a 23505 error when r collides with one of rows.
func checkUnique(t *table, r *row, rows []*row) error {
	for _, ix := range t.Indexes {
		if !ix.Unique {
			continue
		}
		k, ok := uniqueKey(t, ix, r)
		if !ok {
			continue
		}
		for _, o := range rows {
			if o.ID == r.ID {
				continue
			}
			if ko, ok := uniqueKey(t, ix, o); ok && ko == k {
				return &pgErr{code: "23505", msg: fmt.Sprintf("duplicate key value violates unique constraint %q", ix.Name)}
			}
		}
	}
	return nil
}

// commit applies the write set atomically; a unique collision with rows
// committed by others in the meantime fails the commit as a whole.
func (d *database) commit(x *txn) error {
	if x == nil || !x.dirty() {
		return nil
	}
	next := map[string][]*row{}
	touched := map[string]bool{}
	for k := range x.inserted {
		touched[k] = true
	}
	if len(x.deleted) > 0 {
		for k, t := range d.tables {
			for _, r := range t.Rows {
				if x.deleted[r.ID] {
					touched[k] = true
					break
				}
			}
		}
	}
	keys := make([]string, 0, len(touched))
	for k := range touched {
		keys = append(keys, k)
	}
	sort.Strings(keys)
	for _, k := range keys {
		t, ok := d.tables[k]
		if !ok {
			continue
		}
		rows := make([]*row, 0, len(t.Rows)+len(x.inserted[k]))
		for _, r := range t.Rows {
			if !x.deleted[r.ID] {
				rows = append(rows, r)
			}
		}
		for _, r := range x.inserted[k] {
			if x.deleted[r.ID] {
				continue
			}
			if err := checkUnique(t, r, rows); err != nil {
				return err
			}
			rows = append(rows, r)
		}
		next[k] = rows
	}
	for k, rows := range next {
		d.tables[k].Rows = rows
	}
	return nil
}

// ---------------------------------------------------------------- snapshot

// Snapshot is a deep copy of the committed state.
type Snapshot struct {
	Tables []TableSnap
}

type TableSnap struct {
	Name    string // schema.name
	Columns []string
	Types   []string
	Unique  [][]string
	Rows    []RowSnap // canonical order: by rendered values, then ghost id
}

type RowSnap struct {
	ID   uint64
	Vals []Value
}

// Get returns the value of the named column.
func (t *TableSnap) Col(name string) int {
	for i, c := range t.Columns {
		if c == name {
			return i
		}
	}
	return -1
}

func (s Snapshot) Table(name string) *TableSnap {
	if !strings.Contains(name, ".") {
		name = "public." + name
	}
	for i := range s.Tables {
		if s.Tables[i].Name == name {
			return &s.Tables[i]
		}
	}
	return nil
}

func rowString(vals []Value) string {
	parts := make([]string, len(vals))
	for i, v := range vals {
		parts[i] = FormatValue(v)
	}
	return strings.Join(parts, " | ")
}

// String renders the snapshot canonically (ghost ids omitted; the
// insert_at column of now() stamps is rendered like every other value).
func (s Snapshot) String() string {
	var sb strings.Builder
	for _, t := range s.Tables {
		fmt.Fprintf(&sb, "%s (%s)\n", t.Name, strings.Join(t.Columns, ", "))
		for _, r := range t.Rows {
			sb.WriteString("  " + rowString(r.Vals) + "\n")
		}
	}
	return sb.String()
}

func (d *database) snapshot() Snapshot {
	var s Snapshot
	keys := make([]string, 0, len(d.tables))
	for k := range d.tables {
		keys = append(keys, k)
	}
	sort.Strings(keys)
	for _, k := range keys {
		t := d.tables[k]
		ts := TableSnap{Name: k}
		for _, c := range t.Cols {
			ts.Columns = append(ts.Columns, c.Name)
			ts.Types = append(ts.Types, c.Canon)
		}
		for _, ix := range t.Indexes {
			if ix.Unique {
				ts.Unique = append(ts.Unique, append([]string{}, ix.Cols...))
			}
		}
		for _, r := range t.Rows {
			vals := make([]Value, len(t.Cols))
			for i := range t.Cols {
				vals[i] = cloneValue(r.val(i))
			}
			ts.Rows = append(ts.Rows, RowSnap{ID: r.ID, Vals: vals})
		}
		sort.SliceStable(ts.Rows, func(i, j int) bool {
			a, b := rowString(ts.Rows[i].Vals), rowString(ts.Rows[j].Vals)
			if a != b {
				return a < b
			}
			return ts.Rows[i].ID < ts.Rows[j].ID
		})
		s.Tables = append(s.Tables, ts)
	}
	return s
}
