package tasksim

import (
	"fmt"
	"math/big"
	"sort"
	"strings"
)

// Direct property oracles.  They look only at what was observed (committed
// database snapshots, operations, outcomes) and at what the generator
// intended (chain versions and the rows each integration should derive);
// they do not use the Coq model.

type pairKey struct{ src, ig int }

func (w *World) pair(t *TaskH) pairKey {
	return pairKey{w.Names.SrcID(t.Info.SrcName), w.Names.IGID(t.Info.IGName)}
}

func newestCur(d *DbView, p pairKey) (CurID, bool) {
	var best CurID
	ok := false
	for _, c := range d.Curs {
		if c.Src == p.src && c.IG == p.ig && (!ok || c.Num > best.Num) {
			best, ok = c, true
		}
	}
	return best, ok
}

func pairCurs(d *DbView, p pairKey) []CurID {
	var out []CurID
	for _, c := range d.Curs {
		if c.Src == p.src && c.IG == p.ig {
			out = append(out, c)
		}
	}
	return out
}

func pairRows(d *DbView, p pairKey) []RowID {
	var out []RowID
	for _, r := range d.Rows {
		if r.Src == p.src && r.IG == p.ig {
			out = append(out, r)
		}
	}
	return out
}

func rowKeyStr(r RowID) string { return fmt.Sprintf("%d/%d/%d/%d", r.Tbl, r.BNum, r.Key, r.Val) }

// multisetDiff describes how got differs from want ("" = equal).
func multisetDiff(got, want []string) string {
	m := map[string]int{}
	for _, g := range got {
		m[g]++
	}
	for _, x := range want {
		m[x]--
	}
	var extra, missing []string
	for k, v := range m {
		for ; v > 0; v-- {
			extra = append(extra, k)
		}
		for ; v < 0; v++ {
			missing = append(missing, k)
		}
	}
	if len(extra) == 0 && len(missing) == 0 {
		return ""
	}
	sort.Strings(extra)
	sort.Strings(missing)
	trim := func(xs []string) string {
		if len(xs) > 6 {
			return strings.Join(xs[:6], " ") + fmt.Sprintf(" (+%d)", len(xs)-6)
		}
		return strings.Join(xs, " ")
	}
	return fmt.Sprintf("unexpected rows [%s] missing rows [%s] (tbl/block/key/val)", trim(extra), trim(missing))
}

// rowContents spells out the content (columns other than stamps and keys, in sorted column
// order) of the first unexpected and the first missing row of a multiset difference.
func (w *World) rowContents(got, want []string) string {
	m := map[string]int{}
	for _, g := range got {
		m[g]++
	}
	for _, x := range want {
		m[x]--
	}
	var extra, missing []string
	for k, v := range m {
		if v > 0 {
			extra = append(extra, k)
		}
		if v < 0 {
			missing = append(missing, k)
		}
	}
	sort.Strings(extra)
	sort.Strings(missing)
	content := func(k string) string {
		var tbl, bn, key, val int
		if _, err := fmt.Sscanf(k, "%d/%d/%d/%d", &tbl, &bn, &key, &val); err != nil {
			return "?"
		}
		c := w.Names.ValStr(val)
		if len(c) > 160 {
			c = c[:160] + "..."
		}
		return fmt.Sprintf("block %d key %s: %s", bn, w.Names.KeyStr(key), c)
	}
	out := ""
	if len(extra) > 0 {
		out += "; first unexpected row = " + content(extra[0])
	}
	if len(missing) > 0 {
		out += "; first missing row = " + content(missing[0])
	}
	return out
}

func (w *World) blockRows(t *TaskH, b BlkID) []string {
	tbl := w.Names.TblID(t.Info.Table)
	var out []string
	for _, kv := range b.Rows {
		out = append(out, fmt.Sprintf("%d/%d/%d/%d", tbl, b.Num, kv[0], kv[1]))
	}
	return out
}

// ---------------------------------------------------------------- TaskInv, directly

// InvOracle checks on every recorded snapshot, for every task: no row of the
// pair lies beyond its newest cursor (none without a cursor), the position
// only ever advances onto the last block of a load the task was served and
// whose first block follows the previous position, and the rows of the pair
// are exactly the intended rows of the blocks indexed so far (served blocks
// of converged steps, minus what a committed unwind removed).
func (r *Run) InvOracle() []string {
	w := r.W
	var bad []string
	type st struct {
		shadow []BlkID
		load   []BlkID
	}
	state := map[int]*st{}
	for _, t := range w.Tasks {
		state[t.ID] = &st{}
	}
	seen := map[string]bool{}
	report := func(i int, format string, a ...any) {
		m := fmt.Sprintf(format, a...)
		if len(bad) < 6 && !seen[m] {
			seen[m] = true
			bad = append(bad, fmt.Sprintf("event %d: ", i)+m)
		}
	}
	for i, e := range w.Rec.Events {
		switch e.Kind {
		case "start":
			state[w.Rep(e.Tid).ID].load = nil
		case "op":
			if e.Op.Name == "RGet" {
				s := state[w.Rep(e.Tid).ID]
				s.load = nil
				ok := len(e.Op.Segs) > 0
				for _, sg := range e.Op.Segs {
					if sg.Fail != "" {
						ok = false
					}
				}
				if ok {
					for _, sg := range e.Op.Segs {
						s.load = append(s.load, sg.Blocks...)
					}
					sort.SliceStable(s.load, func(a, b int) bool { return s.load[a].Num < s.load[b].Num })
				}
			}
		case "snap":
			for _, rw := range e.Db.Rows {
				if rw.Null != "" {
					report(i, "a committed row of table %s has NULL in%s: it belongs to no (source, integration, block), so no task's reorg deletion (src_name = .. and ig_name = .. and block_num >= ..) can ever remove it", w.Names.rev(w.Names.Tbl, rw.Tbl), rw.Null)
					break
				}
			}
			for _, t := range w.Tasks {
				s, p := state[t.ID], w.pair(t)
				rows := pairRows(e.Db, p)
				cur, has := newestCur(e.Db, p)
				if !has {
					s.shadow = nil
					if len(rows) > 0 {
						report(i, "task %d has %d rows but no recorded position", t.ID, len(rows))
					}
					continue
				}
				top := uint64(0)
				if n := len(s.shadow); n > 0 {
					top = s.shadow[n-1].Num
				}
				// a position that existed before the case started stands for an
				// unknown indexed prefix (its rows are the initial rows of the pair)
				base, hasBase := newestCur(&w.Init, p)
				if hasBase && len(s.shadow) == 0 {
					top = base.Num
				}
				switch {
				case hasBase && len(s.shadow) == 0 && cur.Num == base.Num:
					// still at the initial position
				case (len(s.shadow) == 0 && !hasBase) || cur.Num > top:
					if len(s.load) == 0 || s.load[len(s.load)-1].Num != cur.Num ||
						((len(s.shadow) > 0 || hasBase) && s.load[0].Num != top+1) {
						report(i, "task %d: position moved to %d without a load ending there that follows %d", t.ID, cur.Num, top)
						s.shadow = append(s.shadow, s.load...)
					} else {
						if s.load[len(s.load)-1].Hash != cur.Hash {
							report(i, "task %d: position %d recorded with hash %d, last loaded block has %d", t.ID, cur.Num, cur.Hash, s.load[len(s.load)-1].Hash)
						}
						s.shadow = append(s.shadow, s.load...)
					}
					s.load = nil
				case cur.Num < top:
					var keep []BlkID
					for _, b := range s.shadow {
						if b.Num <= cur.Num {
							keep = append(keep, b)
						}
					}
					s.shadow = keep
				}
				var want []string
				for _, rw := range pairRows(&w.Init, p) {
					if rw.BNum <= cur.Num {
						want = append(want, rowKeyStr(rw))
					}
				}
				for k, b := range s.shadow {
					if k > 0 && b.Num != s.shadow[k-1].Num+1 {
						report(i, "task %d: indexed blocks not contiguous at %d", t.ID, b.Num)
					}
					want = append(want, w.blockRows(t, b)...)
				}
				var got []string
				for _, rw := range rows {
					if rw.BNum > cur.Num {
						report(i, "task %d: row of block %d lies beyond the recorded position %d", t.ID, rw.BNum, cur.Num)
					}
					if rw.Tbl != w.Names.TblID(t.Info.Table) {
						report(i, "task %d: row in table %d, expected %d", t.ID, rw.Tbl, w.Names.TblID(t.Info.Table))
					}
					got = append(got, rowKeyStr(rw))
				}
				if d := multisetDiff(got, want); d != "" {
					report(i, "task %d at position %d: rows do not cover exactly the indexed blocks: %s%s", t.ID, cur.Num, d, w.rowContents(got, want))
				}
			}
		}
	}
	return bad
}

// ---------------------------------------------------------------- C01 / C03: table = projection of the chain

// firstIndexed is the first block task t is supposed to index: its start, or,
// with no start configured, the head it saw at its most recent contact that
// found no recorded position (a contact whose step failed afterwards does not
// count: the next one may see a higher head; once a position is recorded the
// task never asks Latest(0) again).
func (r *Run) firstIndexed(t *TaskH) (uint64, bool) {
	if t.Info.Start > 0 {
		return t.Info.Start, true
	}
	var sawNone, found bool
	var head uint64
	for _, e := range r.W.Rec.Events {
		if e.Kind != "op" || !r.W.SamePair(e.Tid, t) {
			continue
		}
		switch {
		case e.Op.Name == "QLatest" && e.Op.Fail == "" && !e.Op.Some:
			sawNone = true
		case e.Op.Name == "RLatest" && sawNone && e.Op.N == 0 && e.Op.Fail == "":
			head, found = e.Op.RNum, true
		case e.Op.Name == "QLatest":
			sawNone = false
		}
	}
	return head, found
}

// ProjectionOracle compares, at snapshot db, the rows of task t with the
// projection of chain ch over [first, newest cursor] and the cursor hash with
// the chain's.
func (r *Run) projectionAt(t *TaskH, db *DbView, ch *Chain, first uint64) string {
	w := r.W
	p := w.pair(t)
	cur, has := newestCur(db, p)
	rows := pairRows(db, p)
	if !has {
		if len(rows) > 0 {
			return fmt.Sprintf("%d rows without a recorded position", len(rows))
		}
		return ""
	}
	if cur.Num < first {
		return fmt.Sprintf("recorded position %d before the first block to index %d", cur.Num, first)
	}
	if ch.At(cur.Num) == nil {
		return fmt.Sprintf("recorded position %d beyond the chain head %d", cur.Num, ch.Head().Num)
	}
	want := []string{}
	for n := first; n <= cur.Num; n++ {
		want = append(want, w.blockRows(t, w.chainBlk(t, ch, ch.At(n)))...)
	}
	var got []string
	for _, rw := range rows {
		got = append(got, rowKeyStr(rw))
	}
	if d := multisetDiff(got, want); d != "" {
		return fmt.Sprintf("table is not the projection of blocks %d..%d of version %d: %s", first, cur.Num, ch.Ver, d)
	}
	if exp := w.chainBlk(t, ch, ch.At(cur.Num)).Hash; exp != cur.Hash {
		return fmt.Sprintf("position %d recorded with hash %d, version %d has %d", cur.Num, cur.Hash, ch.Ver, exp)
	}
	return ""
}

// GrowthOracle (C01): every version extends the previous one.  On every
// snapshot the table of each task is the projection of the final chain over
// [first, position]; every converged step advanced the position by 1..batch
// blocks; at the end (the script is expected to end with enough fault-free
// steps) the position is min(head, stop).
func (r *Run) GrowthOracle(expectQuiescent bool) []string {
	w := r.W
	var bad []string
	for _, t := range w.Tasks {
		final := w.Nodes[t.Info.SrcName].Hist.Last()
		first, known := uint64(0), false
		var prev *CurID
		var last *DbView
		for i, e := range w.Rec.Events {
			if e.Kind != "snap" {
				continue
			}
			last = e.Db
			cur, has := newestCur(e.Db, w.pair(t))
			if has && !known {
				// the first recorded position fixes the first indexed block
				if t.Info.Start > 0 {
					first = t.Info.Start
				} else if f, ok := r.headAtContact(t, i); ok {
					first = f
				}
				known = true
			}
			if known {
				if d := r.projectionAt(t, e.Db, final, first); d != "" && len(bad) < 6 {
					bad = append(bad, fmt.Sprintf("event %d task %d: %s", i, t.ID, d))
				}
			}
			if has {
				if prev != nil && cur.Num != prev.Num {
					if cur.Num < prev.Num {
						bad = append(bad, fmt.Sprintf("event %d task %d: position went back from %d to %d on a growing chain", i, t.ID, prev.Num, cur.Num))
					} else if cur.Num-prev.Num > uint64(w.MaxBatch(t)) {
						bad = append(bad, fmt.Sprintf("event %d task %d: position advanced by %d > batch %d", i, t.ID, cur.Num-prev.Num, w.MaxBatch(t)))
					}
				}
				c := cur
				prev = &c
			} else if prev != nil {
				bad = append(bad, fmt.Sprintf("event %d task %d: recorded position disappeared", i, t.ID))
				prev = nil
			}
		}
		if expectQuiescent && last != nil {
			want := final.Head().Num
			if t.Info.Stop > 0 && t.Info.Stop < want {
				want = t.Info.Stop
			}
			cur, has := newestCur(last, w.pair(t))
			begin := t.Info.Start
			if begin == 0 {
				switch f, ok := r.firstIndexed(t); {
				case known:
					begin = first
				case ok:
					begin = f
				default:
					begin = want + 1
				}
			}
			// begin > want: empty range (start beyond stop or beyond the head)
			if begin <= want && (!has || cur.Num != want) {
				got := "none"
				if has {
					got = fmt.Sprint(cur.Num)
				}
				why := r.lastStepNote(t)
				bad = append(bad, fmt.Sprintf("task %d: after the faults stopped the position is %s, expected %d%s", t.ID, got, want, why))
			}
		}
	}
	return bad
}

// lastStepNote: when the last step of t's pair did not end normally, what it ended with
// (quoted in the "position expected" messages at quiescence, where no fault is injected any more).
func (r *Run) lastStepNote(t *TaskH) string {
	for k := len(r.Steps) - 1; k >= 0; k-- {
		st := r.Steps[k]
		if !r.W.SamePair(st.Tid, t) {
			continue
		}
		e := st.Err
		if len(e) > 200 {
			e = e[:200]
		}
		switch st.Outcome {
		case "OFailed":
			return fmt.Sprintf(" (the task's last step, with no fault injected, failed: %s)", e)
		case "OReorgLimit":
			return fmt.Sprintf(" (the task's last step gave up unwinding and rolled back: %s; every retry starts from the same position)", e)
		case "OPanicked":
			return " (the task's last step panicked)"
		}
		return ""
	}
	return ""
}

// headAtContact: the head returned by the Latest(0) call of the step that
// recorded the first position visible at snapshot event upto.
func (r *Run) headAtContact(t *TaskH, upto int) (uint64, bool) {
	// walk back from the snapshot to the start of the step that produced it
	evs := r.W.Rec.Events
	for i := upto; i >= 0; i-- {
		e := evs[i]
		if e.Kind == "op" && r.W.SamePair(e.Tid, t) && e.Op.Name == "RLatest" && e.Op.N == 0 && e.Op.Fail == "" {
			// Latest(0) is issued only for the initial position (a later Latest(local) with local = 0 cannot happen with start = 0)
			return e.Op.RNum, true
		}
		if e.Kind == "start" && r.W.SamePair(e.Tid, t) && i < upto {
			// reached the start of the committing step without Latest(0): keep looking in earlier steps
			continue
		}
	}
	return 0, false
}

// ReorgOracle (C03), evaluated at quiescence: the table of every task with a
// hash plan is the projection of the final chain over [first, head], the
// position is the final head with its hash.  protect lists, per reorg, the
// event index at which it happened and the fork point.
func (r *Run) ReorgOracle(forks []ForkMark) []string {
	w := r.W
	var bad []string
	var last *DbView
	for _, e := range w.Rec.Events {
		if e.Kind == "snap" {
			last = e.Db
		}
	}
	if last == nil {
		return []string{"no snapshot recorded"}
	}
	for _, t := range w.Tasks {
		final := w.Nodes[t.Info.SrcName].Hist.Last()
		first := t.Info.Start
		if first == 0 {
			if f, ok := r.firstIndexed(t); ok {
				first = f
			}
		}
		want := final.Head().Num
		if t.Info.Stop > 0 && t.Info.Stop < want {
			want = t.Info.Stop
		}
		cur, has := newestCur(last, w.pair(t))
		if !has || cur.Num != want {
			got := "none"
			if has {
				got = fmt.Sprint(cur.Num)
			}
			bad = append(bad, fmt.Sprintf("task %d: at quiescence the position is %s, expected the final head %d%s", t.ID, got, want, r.lastStepNote(t)))
			continue
		}
		if d := r.projectionAt(t, last, final, first); d != "" {
			bad = append(bad, fmt.Sprintf("task %d at quiescence: %s", t.ID, d))
		}
	}
	bad = append(bad, r.untouchedBelowFork(forks)...)
	return bad
}

// ForkMark: a reorg that replaced blocks >= Fork of source Src became
// possible to observe from event index At on.
type ForkMark struct {
	At   int
	Src  string
	Fork uint64
}

// untouchedBelowFork: rows of blocks at or below the newest recorded position
// that lies below the fork (positions exist only at batch ends, so this is
// the finest "below the fork" the mechanism can know) keep their identity:
// they are never deleted or rewritten.
func (r *Run) untouchedBelowFork(forks []ForkMark) []string {
	w := r.W
	var bad []string
	for _, t := range w.Tasks {
		p := w.pair(t)
		limit := ^uint64(0) // protected: rows with block <= limit
		var prev *DbView
		fi := 0
		for i, e := range w.Rec.Events {
			for fi < len(forks) && forks[fi].At <= i {
				f := forks[fi]
				fi++
				if f.Src != t.Info.SrcName {
					continue
				}
				lim := uint64(0)
				if prev != nil {
					for _, c := range pairCurs(prev, p) {
						if c.Num < f.Fork && c.Num > lim {
							lim = c.Num
						}
					}
				}
				if lim < limit {
					limit = lim
				}
			}
			if e.Kind != "snap" {
				continue
			}
			if prev != nil {
				now := map[uint64]bool{}
				for _, rw := range pairRows(e.Db, p) {
					now[rw.Ghost] = true
				}
				for _, rw := range pairRows(prev, p) {
					if rw.BNum <= limit && !now[rw.Ghost] && len(bad) < 4 {
						bad = append(bad, fmt.Sprintf("event %d task %d: row of block %d (at or below position %d, below every fork so far) was deleted or rewritten", i, t.ID, rw.BNum, limit))
					}
				}
			}
			prev = e.Db
		}
	}
	return bad
}

// ---------------------------------------------------------------- C04 isolation

// IsolationOracle: between two consecutive snapshots that enclose operations
// of exactly one task, every other pair's cursors and rows are unchanged
// (same values, same row identities); every row a task copies and every
// cursor it inserts carries the task's own source and integration.
// Scenarios for this oracle record a snapshot after every statement.
func (r *Run) IsolationOracle() []string {
	w := r.W
	var bad []string
	var prev *DbView
	actors := map[int]bool{}
	byID := map[int]*TaskH{}
	for _, t := range w.All {
		byID[t.ID] = t
	}
	sig := func(d *DbView, p pairKey) string {
		var sb strings.Builder
		for _, c := range pairCurs(d, p) {
			fmt.Fprintf(&sb, "c%d:%d;", c.Num, c.Hash)
		}
		for _, rw := range pairRows(d, p) {
			fmt.Fprintf(&sb, "r%d:%s;", rw.Ghost, rowKeyStr(rw))
		}
		return sb.String()
	}
	for i, e := range w.Rec.Events {
		switch e.Kind {
		case "op":
			if isRPC(e.Op.Name) {
				continue
			}
			actors[e.Tid] = true
			t := byID[e.Tid]
			p := w.pair(t)
			switch e.Op.Name {
			case "CopyRows":
				for _, rw := range e.Op.Rows {
					if rw.Src != p.src || rw.IG != p.ig {
						bad = append(bad, fmt.Sprintf("event %d: task %d copied a row stamped (src %d, ig %d), its own pair is (%d, %d): the row says src_name = %s, ig_name = %s, the task is %s / %s", i, e.Tid, rw.Src, rw.IG, p.src, p.ig,
							w.Names.rev(w.Names.Src, rw.Src), w.Names.rev(w.Names.IG, rw.IG), t.Info.SrcName, t.Info.IGName))
					}
					if rw.Tbl != w.Names.TblID(t.Info.Table) {
						bad = append(bad, fmt.Sprintf("event %d: task %d copied into table %d, its table is %d", i, e.Tid, rw.Tbl, w.Names.TblID(t.Info.Table)))
					}
				}
			case "InsCursor":
				if e.Op.Cur.Src != p.src || e.Op.Cur.IG != p.ig {
					bad = append(bad, fmt.Sprintf("event %d: task %d recorded a position for pair (%d, %d), its own is (%d, %d)", i, e.Tid, e.Op.Cur.Src, e.Op.Cur.IG, p.src, p.ig))
				}
			}
		case "crash":
			actors = map[int]bool{}
		case "snap":
			if prev != nil {
				// pairs seen in either snapshot
				pairs := map[pairKey]bool{}
				for _, d := range []*DbView{prev, e.Db} {
					for _, c := range d.Curs {
						pairs[pairKey{c.Src, c.IG}] = true
					}
					for _, rw := range d.Rows {
						pairs[pairKey{rw.Src, rw.IG}] = true
					}
				}
				for p := range pairs {
					if sig(prev, p) == sig(e.Db, p) {
						continue
					}
					// changed: it must belong to one of the tasks that acted
					owner := false
					for tid := range actors {
						if w.pair(byID[tid]) == p {
							owner = true
						}
					}
					if !owner && len(bad) < 6 {
						var who []string
						for tid := range actors {
							who = append(who, fmt.Sprint(tid))
						}
						sort.Strings(who)
						bad = append(bad, fmt.Sprintf("event %d: rows or positions of pair (src %d, ig %d) changed while only task(s) %s acted", i, p.src, p.ig, strings.Join(who, ",")))
					}
				}
			}
			prev = e.Db
			actors = map[int]bool{}
		}
	}
	return bad
}

// ---------------------------------------------------------------- C05 dependencies

// DepOracle: whenever a task with dependencies records position c, every
// integration it references had, in the committed database at the moment the
// step read the dependency position, a recorded position >= c for the same
// source; when the step unwound a reorg AFTER that read (a new iteration of
// its loop: other tasks may have committed in between, read committed makes
// that visible) the committed database at the beginning of that iteration is
// what counts; a step that finds a referenced integration without any position
// ends with nothing-new and writes nothing.
// depsOf: the integrations task t must wait for: what its declaration
// references (independent of the implementation) plus whatever the
// implementation put into Dependencies.
func depsOf(t *TaskH) []string {
	out := append([]string{}, t.Spec.DeclaredRefs()...)
	for _, d := range t.Info.Deps {
		dup := false
		for _, o := range out {
			if o == d {
				dup = true
			}
		}
		if !dup {
			out = append(out, d)
		}
	}
	return out
}

func (r *Run) DepOracle() []string {
	w := r.W
	var bad []string
	byID := map[int]*TaskH{}
	for _, t := range w.All {
		byID[t.ID] = t
	}
	var cur *DbView = &w.Init
	atRead := map[int]*DbView{}    // committed database when the step last read the dependency position
	stale := map[int]bool{}        // the step unwound since that read: a new iteration of its loop began
	iterStart := map[int]*DbView{} // committed database when that iteration began (own position re-read)
	readNum := map[int]uint64{}
	wrote := map[int]bool{}
	missing := map[int]bool{}
	for i, e := range w.Rec.Events {
		switch e.Kind {
		case "snap":
			cur = e.Db
		case "start":
			delete(atRead, e.Tid)
			delete(wrote, e.Tid)
			delete(missing, e.Tid)
			delete(stale, e.Tid)
			delete(iterStart, e.Tid)
		case "op":
			t := byID[e.Tid]
			if len(depsOf(t)) == 0 {
				continue
			}
			switch e.Op.Name {
			case "QLatest":
				if stale[e.Tid] {
					iterStart[e.Tid] = cur
				}
			case "QLatestDep":
				atRead[e.Tid] = cur
				readNum[e.Tid] = e.Op.RNum
				stale[e.Tid] = false
				src := w.Names.SrcID(t.Info.SrcName)
				missing[e.Tid] = false
				for _, d := range depsOf(t) {
					if _, ok := newestCur(cur, pairKey{src, w.Names.IGID(d)}); !ok {
						missing[e.Tid] = true
					}
				}
			case "CopyRows", "InsCursor", "DelCursors", "DelRows":
				if e.Op.Fail == "" {
					wrote[e.Tid] = true
				}
				if e.Op.Name == "DelCursors" && e.Op.Fail == "" {
					// an unwind: the loop starts over and has to look at the dependencies again
					stale[e.Tid] = true
					delete(iterStart, e.Tid)
				}
				if e.Op.Name == "InsCursor" && e.Op.Fail == "" {
					d := atRead[e.Tid]
					if d == nil {
						bad = append(bad, fmt.Sprintf("event %d: task %d recorded position %d without reading its dependencies", i, e.Tid, e.Op.Cur.Num))
						continue
					}
					when := "when the step read the dependency position"
					if stale[e.Tid] {
						// the position was read before the step's last unwind; what counts is the
						// committed state when the loop iteration that produced this position began
						d = iterStart[e.Tid]
						if d == nil {
							d = cur
						}
						when = fmt.Sprintf("when this iteration of the step's loop began (the dependency position %d had been read before the step unwound)", readNum[e.Tid])
					}
					src := w.Names.SrcID(t.Info.SrcName)
					for _, dep := range depsOf(t) {
						c, ok := newestCur(d, pairKey{src, w.Names.IGID(dep)})
						if !ok {
							bad = append(bad, fmt.Sprintf("event %d: task %d recorded position %d although referenced integration %q had not started", i, e.Tid, e.Op.Cur.Num, dep))
						} else if c.Num < e.Op.Cur.Num {
							bad = append(bad, fmt.Sprintf("event %d: task %d recorded position %d, referenced integration %q was only at %d %s", i, e.Tid, e.Op.Cur.Num, dep, c.Num, when))
						}
					}
				}
			}
		case "end":
			if missing[e.Tid] {
				if e.Out != "ONothingNew" && e.Out != "OFailed" {
					bad = append(bad, fmt.Sprintf("event %d: task %d ended %s although a referenced integration has no position", i, e.Tid, e.Out))
				}
				// whatever the step wrote before (an unwind of an earlier iteration) must not be committed
				t := byID[e.Tid]
				if d := atRead[e.Tid]; wrote[e.Tid] && d != nil {
					p := w.pair(t)
					if fmt.Sprint(pairCurs(d, p), len(pairRows(d, p))) != fmt.Sprint(pairCurs(cur, p), len(pairRows(cur, p))) {
						bad = append(bad, fmt.Sprintf("event %d: task %d committed changes although a referenced integration has no position", i, e.Tid))
					}
				}
			}
		}
	}
	return bad
}

// ---------------------------------------------------------------- C06 start / stop / resume

// RangeOracle: every row and position lies in [first, stop]; Done iff the
// position had reached a non-zero stop when the step began, such a step
// issues only Begin/QLatest/Rollback and changes nothing; with a recorded
// position the first block loaded is position+1, with none it is start (or
// the head at first contact when start = 0); no step panics.
func (r *Run) RangeOracle() []string {
	w := r.W
	var bad []string
	byID := map[int]*TaskH{}
	for _, t := range w.All {
		byID[t.ID] = t
	}
	cur := &w.Init
	type stepSt struct {
		atStart *DbView
		ops     []string
		head0   *uint64 // head returned by Latest(0) in this step
		loaded  bool
		failed  bool // an operation of the step failed (injected fault)
	}
	steps := map[int]*stepSt{}
	firstSeen := map[int]uint64{}
	for i, e := range w.Rec.Events {
		switch e.Kind {
		case "snap":
			cur = e.Db
			for _, t := range w.Tasks {
				p := w.pair(t)
				lo := t.Info.Start
				if lo == 0 {
					lo = firstSeen[t.ID]
				}
				initial := map[string]bool{}
				for _, c := range pairCurs(&w.Init, p) {
					initial[c.Coq()] = true
				}
				for _, rw := range pairRows(&w.Init, p) {
					initial[rw.Coq()] = true
				}
				for _, c := range pairCurs(e.Db, p) {
					if initial[c.Coq()] {
						continue // recorded by a prior run, not by this one
					}
					if c.Num < lo || (t.Info.Stop > 0 && c.Num > t.Info.Stop) {
						bad = append(bad, fmt.Sprintf("event %d task %d: position %d outside [%d, %d]", i, t.ID, c.Num, lo, t.Info.Stop))
					}
				}
				for _, rw := range pairRows(e.Db, p) {
					if initial[rw.Coq()] {
						continue
					}
					if rw.BNum < lo || (t.Info.Stop > 0 && rw.BNum > t.Info.Stop) {
						bad = append(bad, fmt.Sprintf("event %d task %d: row of block %d outside [%d, %d]", i, t.ID, rw.BNum, lo, t.Info.Stop))
					}
				}
			}
		case "start":
			steps[e.Tid] = &stepSt{atStart: cur}
		case "op":
			s := steps[e.Tid]
			if s == nil {
				continue
			}
			t := byID[e.Tid]
			s.ops = append(s.ops, e.Op.Name)
			if e.Op.Fail != "" {
				s.failed = true
			}
			if e.Op.Name == "RLatest" && e.Op.N == 0 && e.Op.Fail == "" && t.Info.Start == 0 {
				if _, has := newestCur(s.atStart, w.pair(t)); !has {
					h := e.Op.RNum
					s.head0 = &h
				}
			}
			if e.Op.Name == "RGet" {
				bad = append(bad, getLimit(i, t.ID, e.Op)...)
			}
			if e.Op.Name == "RGet" && !s.loaded && len(e.Op.Parts) > 0 {
				s.loaded = true
				got := e.Op.Parts[0][0]
				c, has := newestCur(s.atStart, w.pair(t))
				var want uint64
				switch {
				case has:
					want = c.Num + 1
				case t.Info.Start > 0:
					want = t.Info.Start
				case s.head0 != nil:
					want = *s.head0
				default:
					continue
				}
				if got != want {
					bad = append(bad, fmt.Sprintf("event %d task %d: first loaded block is %d, expected %d (position %v, start %d)", i, t.ID, got, want, has, t.Info.Start))
				}
				if !has && t.Info.Start == 0 && s.head0 != nil {
					if _, ok := firstSeen[t.ID]; !ok {
						firstSeen[t.ID] = *s.head0
					}
				}
			}
		case "end":
			s := steps[e.Tid]
			t := byID[e.Tid]
			if s == nil {
				continue
			}
			c, has := newestCur(s.atStart, w.pair(t))
			reached := t.Info.Stop > 0 && has && c.Num >= t.Info.Stop
			// empty range: no position yet and the initial position (start-1, or
			// head-1 at first contact) is already at or beyond stop
			if t.Info.Stop > 0 && !has {
				switch {
				case t.Info.Start > 0:
					reached = t.Info.Start-1 >= t.Info.Stop
				case s.head0 != nil && *s.head0 > 0:
					reached = *s.head0-1 >= t.Info.Stop
				}
			}
			if e.Out == "OPanicked" {
				bad = append(bad, fmt.Sprintf("event %d task %d: the step panicked", i, t.ID))
			}
			switch {
			case e.Out == "ODone" && !reached:
				bad = append(bad, fmt.Sprintf("event %d task %d: reported completion with stop %d and position %v/%d at the start of the step", i, t.ID, t.Info.Stop, has, c.Num))
			case reached && e.Out != "ODone" && !(e.Out == "OFailed" && s.failed):
				bad = append(bad, fmt.Sprintf("event %d task %d: outcome %s although the stop block %d was recorded (position %d)", i, t.ID, e.Out, t.Info.Stop, c.Num))
			}
			if e.Out == "ODone" {
				for _, o := range s.ops {
					if !has && (o == "RHash" || o == "RLatest") {
						continue // empty range: the initial position has to be computed first (reads only)
					}
					if o != "Begin" && o != "QLatest" && o != "Rollback" {
						bad = append(bad, fmt.Sprintf("event %d task %d: a completed task issued %s", i, t.ID, o))
					}
				}
			}
			if reached {
				before, after := s.atStart, cur
				if fmt.Sprint(pairCurs(before, w.pair(t)), pairRows(before, w.pair(t))) != fmt.Sprint(pairCurs(after, w.pair(t)), pairRows(after, w.pair(t))) {
					bad = append(bad, fmt.Sprintf("event %d task %d: wrote after the stop block was recorded", i, t.ID))
				}
			}
			delete(steps, e.Tid)
		}
	}
	if len(bad) > 8 {
		bad = bad[:8]
	}
	return bad
}

// getLimit: the stop, the batch size and the dependency bound reach the source only as the
// limit of Get: every successful Source.Get(start, limit) is answered with exactly limit
// blocks beginning at start.
func getLimit(i, tid int, op *Op) []string {
	var bad []string
	for k, sg := range op.Segs {
		if sg.Fail != "" || k >= len(op.Parts) || len(sg.Blocks) == 0 {
			continue
		}
		pt := op.Parts[k]
		if uint64(len(sg.Blocks)) != pt[1] || sg.Blocks[0].Num != pt[0] {
			bad = append(bad, fmt.Sprintf("event %d task %d: Source.Get(start %d, limit %d) was answered with %d blocks %d..%d", i, tid, pt[0], pt[1], len(sg.Blocks), sg.Blocks[0].Num, sg.Blocks[len(sg.Blocks)-1].Num))
		}
	}
	return bad
}

// GetLimitOracle applies getLimit to every load of the run.
func (r *Run) GetLimitOracle() []string {
	var bad []string
	for i, e := range r.W.Rec.Events {
		if e.Kind == "op" && e.Op.Name == "RGet" && len(bad) < 4 {
			bad = append(bad, getLimit(i, e.Tid, e.Op)...)
		}
	}
	return bad
}

// FinalState renders the last snapshot without row identities (for comparing runs).
func (r *Run) FinalState() string {
	var last *DbView
	for _, e := range r.W.Rec.Events {
		if e.Kind == "snap" {
			last = e.Db
		}
	}
	if last == nil {
		return ""
	}
	return last.Coq()
}

// DepWindows lists the steps of dependent tasks in which a referenced
// integration committed an unwind (its newest position decreased or vanished)
// between the step's dependency read and its COPY: the reference lookups of
// that step ran against a referenced table that no longer held the data the
// dependency position promised.  The mechanism cannot exclude this (the read
// and the lookups are not atomic with respect to other tasks' commits).
func (r *Run) DepWindows() []string {
	w := r.W
	var out []string
	cur := &w.Init
	type win struct {
		open bool
		at   map[string]uint64 // dep name -> position at the dependency read
		snap *DbView           // committed database at the dependency read
		hit  string
	}
	wins := map[int]*win{}
	for i, e := range w.Rec.Events {
		switch e.Kind {
		case "snap":
			cur = e.Db
			for tid, wn := range wins {
				if !wn.open || wn.hit != "" {
					continue
				}
				t := w.Task(tid)
				src := w.Names.SrcID(t.Info.SrcName)
				for dep, n0 := range wn.at {
					c, ok := newestCur(cur, pairKey{src, w.Names.IGID(dep)})
					if !ok || c.Num < n0 {
						wn.hit = fmt.Sprintf("event %d: %q went back below %d", i, dep, n0)
					}
				}
			}
		case "start", "end":
			delete(wins, e.Tid)
		case "crash":
			wins = map[int]*win{}
		case "op":
			t := w.Task(e.Tid)
			if t == nil || len(depsOf(t)) == 0 || e.Op.Fail != "" {
				continue
			}
			switch e.Op.Name {
			case "QLatestDep":
				wn := &win{open: true, at: map[string]uint64{}, snap: cur}
				src := w.Names.SrcID(t.Info.SrcName)
				for _, dep := range depsOf(t) {
					if c, ok := newestCur(cur, pairKey{src, w.Names.IGID(dep)}); ok {
						wn.at[dep] = c.Num
					}
				}
				wins[e.Tid] = wn
			case "RGet":
				// a reference whose recorded position is a block of ANOTHER chain version than the
				// one this step is served (the reference has not unwound yet): its table still
				// describes the orphaned blocks
				wn := wins[e.Tid]
				if wn == nil || wn.hit != "" || wn.snap == nil {
					continue
				}
				ver := 0
				for _, sg := range e.Op.Segs {
					for _, b := range sg.Blocks {
						if b.Ver > ver {
							ver = b.Ver
						}
					}
				}
				node := w.Nodes[t.Info.SrcName]
				if ver < 1 || ver > len(node.Hist.Versions) {
					continue
				}
				ch := node.Hist.Versions[ver-1]
				src := w.Names.SrcID(t.Info.SrcName)
				for _, dep := range depsOf(t) {
					c, ok := newestCur(wn.snap, pairKey{src, w.Names.IGID(dep)})
					if !ok || c.Hash == 0 {
						continue
					}
					if b := ch.At(c.Num); b == nil || w.Names.HashID(b.Hash) != c.Hash {
						wn.hit = fmt.Sprintf("event %d: the position (%d, hash %d) of %q is not a block of version %d served to the step", i, c.Num, c.Hash, dep, ver)
					}
				}
			case "CopyRows":
				if wn := wins[e.Tid]; wn != nil && wn.hit != "" {
					out = append(out, fmt.Sprintf("task %d copied at event %d after %s", e.Tid, i, wn.hit))
				}
				delete(wins, e.Tid)
			}
		}
	}
	return out
}

// ---------------------------------------------------------------- C01: rows only of the declared event

// eventKind: the generator's log kind that the event of a log-indexing shape selects.
func (ig *IGSpec) eventKind() string {
	switch ig.Shape {
	case "log", "lognh", "logr", "dep", "depbd":
		return "transfer"
	case "appr":
		return "decoy-topic"
	case "created":
		return "created"
	case "tags":
		return "tags"
	}
	return ""
}

// ForeignLogOracle ("nothing else is present", said per row): in the last
// snapshot every row of a log-indexing integration sits on a log (block,
// tx_idx, log_idx) of the final chain that IS a log of the declared event and
// passes the declared address filter.  A row on a log of another event (same
// topic count or not), or on no log at all, is reported with the kind of log
// it was derived from.  Growth-only histories (the final chain contains every
// block ever served).
func (r *Run) ForeignLogOracle() []string {
	w := r.W
	var last *DbView
	for _, e := range w.Rec.Events {
		if e.Kind == "snap" {
			last = e.Db
		}
	}
	if last == nil {
		return nil
	}
	var bad []string
	for _, t := range w.Tasks {
		want := t.Spec.eventKind()
		if want == "" {
			continue
		}
		final := w.Nodes[t.Info.SrcName].Hist.Last()
		n := 0
		for _, rw := range pairRows(last, w.pair(t)) {
			var txi, li uint64
			key := w.Names.KeyStr(rw.Key)
			if _, err := fmt.Sscanf(key, "%d/%d/", &txi, &li); err != nil {
				bad = append(bad, fmt.Sprintf("task %d (%s): row of block %d with key %s is not keyed by a log", t.ID, t.Spec.Shape, rw.BNum, key))
				continue
			}
			var found *Log
			if b := final.At(rw.BNum); b != nil {
				for _, tx := range b.Txs {
					for _, l := range tx.Logs {
						if tx.Idx == txi && l.Idx == li {
							found = l
						}
					}
				}
			}
			msg := ""
			switch {
			case found == nil:
				msg = "no log of the chain"
			case found.Kind != want:
				name := map[string]string{"transfer": "Transfer", "decoy-topic": "Approval", "decoy-count": "four-topic Transfer", "created": "Created",
					"tags": "Tags", "decoy-nodata": "OwnershipTransferred", "decoy-short": "Ping"}[found.Kind]
				msg = fmt.Sprintf("a%s %s log (kind %s: %d topics, %d bytes of data), not a log of the declared event", map[bool]string{true: "n"}[name == "Approval" || name == "OwnershipTransferred"], name, found.Kind, len(found.Topics), len(found.Data))
			case want == "transfer" && !t.Spec.accepts(found):
				msg = "a log that the declared filters (address / recipient, under the declared aggregation) reject"
				if t.Spec.AddrFlt {
					msg += fmt.Sprintf(": emitted by contract %x, the log_addr filter admits %x", found.Addr[16:], t.Spec.fltAddr()[16:])
				}
			case want != "transfer" && t.Spec.AddrFlt && string(found.Addr) != string(TokenAddr):
				msg = "a log of another contract than the declared address filter admits"
			}
			if msg != "" {
				if n++; n <= 3 {
					bad = append(bad, fmt.Sprintf("task %d (integration %q, shape %s): the table has a row for block %d tx %d log %d, which is %s",
						t.ID, t.Info.IGName, t.Spec.Shape, rw.BNum, txi, li, msg))
				}
			}
		}
		if n > 3 {
			bad = append(bad, fmt.Sprintf("task %d: %d such rows in all", t.ID, n))
		}
		// and the converse for the plain log shapes: every log of the indexed range that the
		// declaration accepts has its row
		switch t.Spec.Shape {
		case "log", "lognh", "logr", "appr", "created":
		default:
			continue
		}
		cur, has := newestCur(last, w.pair(t))
		if !has || t.Info.Start == 0 {
			continue
		}
		have := map[string]bool{}
		for _, rw := range pairRows(last, w.pair(t)) {
			var txi, li uint64
			if _, err := fmt.Sscanf(w.Names.KeyStr(rw.Key), "%d/%d/", &txi, &li); err == nil {
				have[fmt.Sprintf("%d/%d/%d", rw.BNum, txi, li)] = true
			}
		}
		m := 0
		for bn := t.Info.Start; bn <= cur.Num; bn++ {
			b := final.At(bn)
			if b == nil {
				break
			}
			for _, rv := range t.Spec.Project(final, b, t.Info.SrcName) {
				txi, _ := rv["tx_idx"].(*big.Int)
				li, _ := rv["log_idx"].(*big.Int)
				if txi == nil || li == nil || have[fmt.Sprintf("%d/%s/%s", bn, txi, li)] {
					continue
				}
				if m++; m <= 3 {
					from := ""
					for _, tx := range b.Txs {
						for _, l := range tx.Logs {
							if l.Idx == li.Uint64() {
								from = fmt.Sprintf(" (emitted by contract %x, recipient / second topic %x)", l.Addr[16:], l.To[min(16, len(l.To)):])
							}
						}
					}
					bad = append(bad, fmt.Sprintf("task %d (integration %q, shape %s) at position %d: no row for block %d tx %s log %s%s, a log of the declared event that the declared filters accept",
						t.ID, t.Info.IGName, t.Spec.Shape, cur.Num, bn, txi, li, from))
				}
			}
		}
		if m > 3 {
			bad = append(bad, fmt.Sprintf("task %d: %d such logs in all", t.ID, m))
		}
	}
	return bad
}
