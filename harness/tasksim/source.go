package tasksim

import (
	"bytes"
	"context"
	"errors"
	"fmt"
	"sync"

	"github.com/holiman/uint256"
	"github.com/indexsupply/shovel/eth"
	"github.com/indexsupply/shovel/jrpc2"
	"github.com/indexsupply/shovel/shovel/glf"
)

// Call identifies one node call of a step: content (kind + arguments) and
// how many identical calls the same task made earlier in the same step.
// Decisions are keyed by this identity, never by arrival order, so that runs
// with concurrency > 1 are deterministic.
type Call struct {
	Task   int
	Kind   string // latest | hash | get
	N      uint64 // latest / hash argument
	Start  uint64 // get
	Limit  uint64 // get
	Occur  int
	Occur2 int // occurrence count of the relative identity (kind [+ offset])
	// Off: for get, Start - (argument of the step's last Latest call + 1):
	// the offset of the partition inside its load.
	Off uint64
	// Idx: canonical position of the call among the node calls of the step:
	// sequential calls count 1 each; the partitions of one load are ordered by
	// offset (Idx = index of the load's first call + Off), whatever order the
	// goroutines arrive in.
	Idx int
}

// Key is the exact identity of the call.
func (c Call) Key() string {
	return fmt.Sprintf("%s/%d/%d/%d#%d", c.Kind, c.N, c.Start, c.Limit, c.Occur)
}

// RelKey identifies the call without knowing block numbers: "latest#k" /
// "hash#k" = the k-th such call of the step, "get@off#k" = the partition at
// offset off of the k-th load that has such a partition.
func (c Call) RelKey() string {
	if c.Kind == "get" {
		return fmt.Sprintf("get@%d#%d", c.Off, c.Occur2)
	}
	return fmt.Sprintf("%s#%d", c.Kind, c.Occur2)
}

// Decision says how the node answers one call.
type Decision struct {
	Ver  int  // 0 = the node's current version, else 1-based version number
	Fail bool // answer with an error
}

// per-task call bookkeeping of the current step
type taskCalls struct {
	lastLatest uint64
	haveLatest bool
	seq        int // canonical index of the next sequential call
	inLoad     bool
	loadBase   int
	loadMax    uint64
	// switchAt: calls with Idx >= switchAt are answered from switchVer (0 = off)
	switchAt  int
	switchVer int
}

// Node is the scripted chain node shared by the tasks of a world.
type Node struct {
	mu     sync.Mutex
	Hist   *History
	cur    int                 // 1-based version served by default
	lag    uint64              // blocks of the current version the node does not have yet
	plan   func(Call) Decision // nil = always current version, no failure
	counts map[string]int
	tc     map[int]*taskCalls
	rec    *Recorder
	calls  []Call
	sim    *simState // real-client mode: the HTTP node behind the jrpc2 client
}

func NewNode(h *History, rec *Recorder) *Node {
	return &Node{Hist: h, cur: 1, counts: map[string]int{}, tc: map[int]*taskCalls{}, rec: rec}
}

// SetVersion switches the default version (1-based).
func (n *Node) SetVersion(v int) {
	n.mu.Lock()
	n.cur = v
	n.mu.Unlock()
	n.syncSim()
	n.rec.Ver(v)
}

func (n *Node) Version() int {
	n.mu.Lock()
	defer n.mu.Unlock()
	return n.cur
}

// SetLag hides the top k blocks of whatever version answers.
func (n *Node) SetLag(k uint64) {
	n.mu.Lock()
	n.lag = k
	n.mu.Unlock()
	n.syncSim()
}

func (n *Node) SetPlan(p func(Call) Decision) {
	n.mu.Lock()
	n.plan = p
	n.mu.Unlock()
}

// beginStep resets the occurrence counters of a task.
func (n *Node) beginStep(tid int) {
	n.beginStepSim()
	n.mu.Lock()
	prefix := fmt.Sprintf("%d:", tid)
	for k := range n.counts {
		if len(k) >= len(prefix) && k[:len(prefix)] == prefix {
			delete(n.counts, k)
		}
	}
	sw := n.tc[tid]
	n.tc[tid] = &taskCalls{}
	if sw != nil && sw.switchVer != 0 && sw.seq == 0 && !sw.inLoad { // armed for the step that begins now
		n.tc[tid].switchAt, n.tc[tid].switchVer = sw.switchAt, sw.switchVer
	}
	n.mu.Unlock()
}

// SwitchAt: in task tid's NEXT step, node calls with canonical index >= k
// are answered from version ver (earlier ones from the current version).
func (n *Node) SwitchAt(tid, k, ver int) {
	n.mu.Lock()
	n.tc[tid] = &taskCalls{switchAt: k, switchVer: ver}
	n.mu.Unlock()
}

// Calls returns every call made so far.
func (n *Node) Calls() []Call {
	n.mu.Lock()
	defer n.mu.Unlock()
	return append([]Call{}, n.calls...)
}

// decide registers the call and picks the version that answers it.
func (n *Node) decide(c Call) (Call, *Chain, uint64, bool) {
	n.mu.Lock()
	tc := n.tc[c.Task]
	if tc == nil {
		tc = &taskCalls{}
		n.tc[c.Task] = tc
	}
	if c.Kind == "get" {
		if tc.haveLatest && c.Start > tc.lastLatest {
			c.Off = c.Start - (tc.lastLatest + 1)
		}
		if !tc.inLoad {
			tc.inLoad, tc.loadBase, tc.loadMax = true, tc.seq, 0
		}
		if c.Off > tc.loadMax {
			tc.loadMax = c.Off
		}
		c.Idx = tc.loadBase + int(c.Off)
	} else {
		if tc.inLoad {
			tc.inLoad = false
			tc.seq = tc.loadBase + int(tc.loadMax) + 1
		}
		c.Idx = tc.seq
		tc.seq++
		if c.Kind == "latest" {
			tc.lastLatest, tc.haveLatest = c.N, true
		}
	}
	k := fmt.Sprintf("%d:%s/%d/%d/%d", c.Task, c.Kind, c.N, c.Start, c.Limit)
	c.Occur = n.counts[k]
	n.counts[k]++
	rk := fmt.Sprintf("%d:rel:%s", c.Task, c.Kind)
	if c.Kind == "get" {
		rk = fmt.Sprintf("%d:rel:get@%d", c.Task, c.Off)
	}
	c.Occur2 = n.counts[rk]
	n.counts[rk]++
	n.calls = append(n.calls, c)
	plan, cur, lag := n.plan, n.cur, n.lag
	if tc.switchVer != 0 && c.Idx >= tc.switchAt {
		cur = tc.switchVer
	}
	n.mu.Unlock()
	var d Decision
	if plan != nil {
		d = plan(c)
	}
	v := d.Ver
	if v == 0 {
		v = cur
	}
	if v < 1 || v > len(n.Hist.Versions) {
		v = cur
	}
	ch := n.Hist.Versions[v-1]
	head := ch.Head().Num
	if lag < head {
		head -= lag
	} else {
		head = 0
	}
	return c, ch, head, d.Fail
}

var errNode = errors.New("scripted node: injected failure")

// TaskSource is the shovel.Source handed to one task.
type TaskSource struct {
	node *Node
	tid  int
	ig   *IGSpec
	src  string
	url  *jrpc2.URL
}

func (n *Node) SourceFor(tid int, ig *IGSpec, srcName string) *TaskSource {
	return &TaskSource{node: n, tid: tid, ig: ig, src: srcName, url: jrpc2.MustURL("http://" + srcName + ".node.invalid")}
}

func (s *TaskSource) NextURL() *jrpc2.URL { return s.url }

func (s *TaskSource) Latest(ctx context.Context, url string, n uint64) (uint64, []byte, error) {
	c, ch, head, fail := s.node.decide(Call{Task: s.tid, Kind: "latest", N: n})
	if fail {
		s.node.rec.RPCLatest(c, 0, nil, errNode)
		return 0, nil, errNode
	}
	b := ch.At(head)
	s.node.rec.RPCLatest(c, b.Num, b.Hash, nil)
	return b.Num, append([]byte{}, b.Hash...), nil
}

func (s *TaskSource) Hash(ctx context.Context, url string, n uint64) ([]byte, error) {
	c, ch, head, fail := s.node.decide(Call{Task: s.tid, Kind: "hash", N: n})
	if fail {
		s.node.rec.RPCHash(c, nil, errNode)
		return nil, errNode
	}
	if n > head {
		err := fmt.Errorf("scripted node: block %d not found (head %d)", n, head)
		s.node.rec.RPCHash(c, nil, err)
		return nil, err
	}
	b := ch.At(n)
	s.node.rec.RPCHash(c, b.Hash, nil)
	return append([]byte{}, b.Hash...), nil
}

func (s *TaskSource) Get(ctx context.Context, url string, f *glf.Filter, start, limit uint64) ([]eth.Block, error) {
	c, ch, head, fail := s.node.decide(Call{Task: s.tid, Kind: "get", Start: start, Limit: limit})
	if fail {
		s.node.rec.RPCGet(c, nil, nil, errNode)
		return nil, errNode
	}
	if limit == 0 || start+limit-1 > head {
		err := fmt.Errorf("scripted node: blocks %d..%d not available (head %d)", start, start+limit-1, head)
		s.node.rec.RPCGet(c, nil, nil, err)
		return nil, err
	}
	out := make([]eth.Block, limit)
	served := make([]ServedBlock, limit)
	for i := uint64(0); i < limit; i++ {
		b := ch.At(start + i)
		BuildEthBlock(&out[i], b, f, s.ig)
		served[i] = ServedBlock{Chain: ch, B: b, Hash: append([]byte{}, out[i].Header.Hash...), Parent: append([]byte{}, out[i].Header.Parent...)}
	}
	s.node.rec.RPCGet(c, s, served, nil)
	return out, nil
}

// ServedBlock remembers which block of which version a Get returned and the
// hash / parent the task saw.
type ServedBlock struct {
	Chain  *Chain
	B      *Block
	Hash   []byte
	Parent []byte
}

// BuildEthBlock fills dst with what jrpc2.Client.Get would assemble for the
// plan f: header fields only when the plan fetches headers or blocks,
// transactions only with blocks / receipts, logs filtered like eth_getLogs
// (address list and topic0) and the block hash taken from the logs when no
// header was fetched, trace actions with the traces plan.
func BuildEthBlock(dst *eth.Block, b *Block, f *glf.Filter, ig *IGSpec) {
	dst.Header.Number = eth.Uint64(b.Num)
	switch {
	case f.UseBlocks:
		dst.Header.Hash = append(eth.Bytes{}, b.Hash...)
		dst.Header.Parent = append(eth.Bytes{}, b.Parent...)
		dst.Header.Time = eth.Uint64(b.Time)
		for _, tx := range b.Txs {
			t := dst.Tx(tx.Idx)
			t.PrecompHash = append(eth.Bytes{}, tx.Hash...)
			t.From = append(eth.Bytes{}, tx.From...)
			t.To = append(eth.Bytes{}, tx.To...)
			t.Value = *uint256.NewInt(tx.Value)
			t.Type = 2
		}
	case f.UseHeaders:
		dst.Header.Hash = append(eth.Bytes{}, b.Hash...)
		dst.Header.Parent = append(eth.Bytes{}, b.Parent...)
		dst.Header.Time = eth.Uint64(b.Time)
	}
	copyLog := func(l *Log) eth.Log {
		el := eth.Log{Idx: eth.Uint64(l.Idx), Address: append(eth.Bytes{}, l.Addr...), Data: append(eth.Bytes{}, l.Data...)}
		for _, t := range l.Topics {
			el.Topics = append(el.Topics, append(eth.Bytes{}, t...))
		}
		return el
	}
	switch {
	case f.UseReceipts:
		if len(b.Txs) > 0 {
			dst.Header.Hash = append(eth.Bytes{}, b.Hash...)
		}
		for _, tx := range b.Txs {
			t := dst.Tx(tx.Idx)
			t.PrecompHash = append(eth.Bytes{}, tx.Hash...)
			t.From = append(eth.Bytes{}, tx.From...)
			t.To = append(eth.Bytes{}, tx.To...)
			t.Status = 1
			t.Logs = nil
			for _, l := range tx.Logs {
				t.Logs = append(t.Logs, copyLog(l))
			}
		}
	case f.UseLogs:
		for _, tx := range b.Txs {
			for _, l := range tx.Logs {
				if !nodeMatches(f, l) {
					continue
				}
				dst.Header.Hash = append(dst.Header.Hash[:0], b.Hash...)
				t := dst.Tx(tx.Idx)
				t.PrecompHash = append(eth.Bytes{}, tx.Hash...)
				t.Logs = append(t.Logs, copyLog(l))
			}
		}
	case f.UseTraces:
		for _, tx := range b.Txs {
			if len(tx.Traces) == 0 {
				continue
			}
			dst.Header.Hash = append(dst.Header.Hash[:0], b.Hash...)
			t := dst.Tx(tx.Idx)
			t.PrecompHash = append(eth.Bytes{}, tx.Hash...)
			t.TraceActions = nil
			for i, ta := range tx.Traces {
				t.TraceActions = append(t.TraceActions, eth.TraceAction{Idx: uint64(i), From: append(eth.Bytes{}, ta.From...),
					To: append(eth.Bytes{}, ta.To...), Value: *uint256.NewInt(ta.Value), CallType: ta.CallType})
			}
		}
	}
}

// nodeMatches applies the eth_getLogs filter of the plan (addresses, topic0 alternatives).
func nodeMatches(f *glf.Filter, l *Log) bool {
	if addrs := f.Addresses(); len(addrs) > 0 {
		ok := false
		for _, a := range addrs {
			if bytes.Equal(eth.DecodeHex(a), l.Addr) {
				ok = true
			}
		}
		if !ok {
			return false
		}
	}
	if ts := f.Topics(); len(ts) > 0 && len(ts[0]) > 0 {
		ok := false
		for _, t := range ts[0] {
			if len(l.Topics) > 0 && bytes.Equal(eth.DecodeHex(t), l.Topics[0]) {
				ok = true
			}
		}
		if !ok {
			return false
		}
	}
	return true
}
