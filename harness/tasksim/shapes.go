package tasksim

import (
	"bytes"
	"encoding/hex"
	"encoding/json"
	"fmt"
	"math/big"
	"sort"
	"strings"

	"github.com/indexsupply/shovel/shovel/config"

	"verif/harness/fakepg"
)

// IGSpec declares one integration of a world.
//
// Shapes (all are real dig integrations built from JSON by config.ValidateFix):
//
//	log      Transfer(address indexed from, address indexed to, uint256 value), all selected,
//	         plus block_time  -> plan: logs + headers  (hashes = true)
//	lognh    the same without block_time -> plan: logs only (hashes = false)
//	logr     Transfer as in log, plus block fields tx_status, block_time -> plan: headers + RECEIPTS
//	         (hashes = true): eth_getBlockReceipts hands EVERY log of every transaction to dig
//	appr     Approval(address indexed owner, address indexed spender, uint256 value), all selected
//	         (same topic count and data size as Transfer); logs only, with Hdr: logs + headers
//	tx       block fields tx_to, tx_value  -> plan: blocks (hashes = true); one row per transaction
//	txr      block fields tx_status, block_time -> plan: headers + receipts (hashes = true); one row per transaction
//	trace    block fields trace_action_from/to/value -> plan: blocks + traces; one row per trace action
//	created  Created(address indexed addr) selected, no data -> logs only (hashes = false);
//	         with Hdr: plus block_time (hashes = true).  Target of filter references.
//	tags     Tags(string[] tags) selected -> logs only; one row per array element (abi_idx), elements may be empty strings
//	dep      like log/lognh, but input "from" carries filter_ref {integration: Ref, column: addr}
//	depbd    like log/lognh, but the reference sits on block field log_addr (column addr of Ref)
//	deptup   Order((address maker, uint256 amt) o): both COMPONENTS of the tuple input selected; the
//	         reference {integration: Ref, column: addr} sits on component maker (with RefTable:
//	         plus a user-supplied table name)
type IGSpec struct {
	Name    string
	Shape   string
	Table   string
	Hdr     bool // add block_time (forces headers into the plan) for lognh-like shapes
	AddrFlt bool // log shapes: filter log_addr contains TokenAddr (pushed down to eth_getLogs)
	// RefNeg (dep, depbd, deptup): the reference lookups use the NEGATED operator "!contains":
	// a row is accepted when the value is NOT in the referenced table
	RefNeg bool `json:",omitempty"`
	// AddrOther: the address filter names OtherAddr instead of TokenAddr (used with AddrFlt)
	AddrOther bool `json:",omitempty"`
	// TxVal (Transfer shapes): also select block field tx_value -> plan: blocks + logs
	TxVal    bool     `json:",omitempty"`
	ToFlt    []byte   // tx shape: keep transactions whose tx_to contains this address
	Ref      string   // dep shapes: referenced integration
	Ref2     string   // dep shape: second referenced integration (on input "to")
	RefBD    string   // dep shape: further referenced integration, on block field log_addr
	RefTable string   `json:",omitempty"` // deptup: "table" written by the user into the filter_ref
	RefLo    uint64   // dep shapes: first block the referenced integration(s) index (their start)
	Sources  []SrcRef // which sources, with start/stop
	Disable  bool
	// OrTo (Transfer shapes): a second filter, on event input "to": contains one of
	// OrToArgs.  Together with AddrFlt the declaration has two active filters, combined
	// by Agg: "" (filter_agg omitted: OR, like "or") | "or" | "and".
	OrTo bool   `json:",omitempty"`
	Agg  string `json:",omitempty"`
	// PreCols: required columns (ig_name, src_name, block_num, tx_idx, log_idx) that the
	// user's table.columns ALREADY lists, with the type AddRequiredFields would give them and
	// - like every ordinary configuration - without a block entry (a configuration written
	// from the schema of an existing / shared table)
	PreCols []string `json:",omitempty"`
}

type SrcRef struct {
	Name        string
	Start, Stop uint64
	// StartText / StopText: how the configuration SPELLS the value (JSON text put in place of
	// the bare number): a quoted decimal `"100"`, a zero-padded one `"0100"`, an environment
	// reference `"$C06_START"` (Scenario.Env).  Start / Stop remain the decimal value meant.
	StartText string `json:",omitempty"`
	StopText  string `json:",omitempty"`
}

// spelled returns the JSON text of a number field: the given spelling, else the bare number.
func spelled(text string, v uint64) any {
	if text != "" {
		return json.RawMessage(text)
	}
	return v
}

// SrcSpec declares one source.
type SrcSpec struct {
	Name        string
	ChainID     uint64
	ChainIDText string `json:",omitempty"` // spelling of chain_id (see SrcRef.StartText)
	Batch, Conc int    // 0 = leave unset (defaults 1)
	URL         string
	Poll        string `json:",omitempty"` // poll_duration
}

func hex0x(b []byte) string { return "0x" + hex.EncodeToString(b) }

// OrToArgs: the recipients the OrTo filter accepts (half of the generator's recipients).
var OrToArgs = [][]byte{Addr(10), Addr(11), Addr(12)}

// accepts: the declared filters of a Transfer shape (address filter, recipient filter)
// under the declared aggregation.
// fltAddr: the contract the address filter admits.
func (ig *IGSpec) fltAddr() []byte {
	if ig.AddrOther {
		return OtherAddr
	}
	return TokenAddr
}

func (ig *IGSpec) accepts(l *Log) bool {
	addrOK := bytes.Equal(l.Addr, ig.fltAddr())
	toOK := false
	for _, a := range OrToArgs {
		if bytes.Equal(l.To, a) {
			toOK = true
		}
	}
	switch {
	case ig.AddrFlt && ig.OrTo && ig.Agg == "and":
		return addrOK && toOK
	case ig.AddrFlt && ig.OrTo:
		return addrOK || toOK
	case ig.AddrFlt:
		return addrOK
	case ig.OrTo:
		return toOK
	}
	return true
}

type jcol struct {
	Name string `json:"name"`
	Type string `json:"type"`
}

func (ig *IGSpec) hashes() bool {
	if ig.TxVal {
		return true
	}
	switch ig.Shape {
	case "log", "logr", "tx", "txr", "trace":
		return true
	}
	return ig.Hdr
}

// jsonConfig renders the integration as the JSON a user would write.
func (ig *IGSpec) jsonConfig() map[string]any {
	var cols []jcol
	var block []map[string]any
	var event map[string]any
	addBD := func(name, typ string, extra map[string]any) {
		cols = append(cols, jcol{name, typ})
		m := map[string]any{"name": name, "column": name}
		for k, v := range extra {
			m[k] = v
		}
		block = append(block, m)
	}
	input := func(indexed bool, name, typ, col string, extra map[string]any) map[string]any {
		m := map[string]any{"indexed": indexed, "name": name, "type": typ}
		if col != "" {
			m["column"] = col
		}
		for k, v := range extra {
			m[k] = v
		}
		return m
	}
	refOp := "contains"
	if ig.RefNeg {
		refOp = "!contains"
	}
	ref := func(r string) map[string]any {
		return map[string]any{"filter_op": refOp, "filter_ref": map[string]any{"integration": r, "column": "addr"}}
	}
	switch ig.Shape {
	case "log", "lognh", "logr", "dep", "depbd":
		cols = append(cols, jcol{"f", "bytea"}, jcol{"t", "bytea"}, jcol{"v", "numeric"})
		var fromExtra, toExtra map[string]any
		if ig.Shape == "dep" {
			fromExtra = ref(ig.Ref)
			if ig.Ref2 != "" {
				toExtra = ref(ig.Ref2)
			}
		}
		if ig.OrTo {
			var args []string
			for _, a := range OrToArgs {
				args = append(args, hex0x(a))
			}
			toExtra = map[string]any{"filter_op": "contains", "filter_arg": args}
		}
		event = map[string]any{"name": "Transfer", "type": "event", "anonymous": false, "inputs": []any{
			input(true, "from", "address", "f", fromExtra),
			input(true, "to", "address", "t", toExtra),
			input(false, "value", "uint256", "v", nil),
		}}
		if ig.Shape == "logr" {
			addBD("tx_status", "int", nil)
		}
		if ig.Shape == "log" || ig.Shape == "logr" || ig.Hdr {
			addBD("block_time", "numeric", nil)
		}
		if ig.TxVal {
			addBD("tx_value", "numeric", nil)
		}
		if ig.AddrFlt {
			addBD("log_addr", "bytea", map[string]any{"filter_op": "contains", "filter_arg": []string{hex0x(ig.fltAddr())}})
		}
		if ig.Shape == "depbd" {
			addBD("log_addr", "bytea", ref(ig.Ref))
		}
		if ig.Shape == "dep" && ig.RefBD != "" {
			addBD("log_addr", "bytea", ref(ig.RefBD))
		}
	case "deptup":
		cols = append(cols, jcol{"maker", "bytea"}, jcol{"amt", "numeric"})
		fr := map[string]any{"integration": ig.Ref, "column": "addr"}
		if ig.RefTable != "" {
			fr["table"] = ig.RefTable
		}
		maker := input(false, "maker", "address", "maker", map[string]any{"filter_op": refOp, "filter_ref": fr})
		amt := input(false, "amt", "uint256", "amt", nil)
		event = map[string]any{"name": "Order", "type": "event", "anonymous": false, "inputs": []any{
			map[string]any{"indexed": false, "name": "o", "type": "tuple", "components": []any{maker, amt}},
		}}
		if ig.Hdr {
			addBD("block_time", "numeric", nil)
		}
	case "appr":
		cols = append(cols, jcol{"o", "bytea"}, jcol{"s", "bytea"}, jcol{"v", "numeric"})
		event = map[string]any{"name": "Approval", "type": "event", "anonymous": false, "inputs": []any{
			input(true, "owner", "address", "o", nil),
			input(true, "spender", "address", "s", nil),
			input(false, "value", "uint256", "v", nil),
		}}
		if ig.Hdr {
			addBD("block_time", "numeric", nil)
		}
		if ig.AddrFlt {
			addBD("log_addr", "bytea", map[string]any{"filter_op": "contains", "filter_arg": []string{hex0x(TokenAddr)}})
		}
	case "created":
		cols = append(cols, jcol{"addr", "bytea"})
		event = map[string]any{"name": "Created", "type": "event", "anonymous": false, "inputs": []any{
			input(true, "addr", "address", "addr", nil),
		}}
		if ig.Hdr {
			addBD("block_time", "numeric", nil)
		}
	case "tags":
		cols = append(cols, jcol{"tag", "text"})
		event = map[string]any{"name": "Tags", "type": "event", "anonymous": false, "inputs": []any{
			input(false, "tags", "string[]", "tag", nil),
		}}
		if ig.Hdr {
			addBD("block_time", "numeric", nil)
		}
	case "tx":
		var flt map[string]any
		if ig.ToFlt != nil {
			flt = map[string]any{"filter_op": "contains", "filter_arg": []string{hex0x(ig.ToFlt)}}
		}
		addBD("tx_to", "bytea", flt)
		addBD("tx_value", "numeric", nil)
	case "txr":
		addBD("tx_status", "int", nil)
		addBD("block_time", "numeric", nil)
	case "trace":
		addBD("trace_action_from", "bytea", nil)
		addBD("trace_action_to", "bytea", nil)
		addBD("trace_action_value", "numeric", nil)
	default:
		panic("tasksim: unknown shape " + ig.Shape)
	}
	var srcs []map[string]any
	for _, s := range ig.Sources {
		srcs = append(srcs, map[string]any{"name": s.Name, "start": spelled(s.StartText, s.Start), "stop": spelled(s.StopText, s.Stop)})
	}
	if len(ig.PreCols) > 0 {
		pre := []jcol{}
		for _, c := range ig.PreCols {
			typ, ok := map[string]string{"ig_name": "text", "src_name": "text", "block_num": "numeric", "tx_idx": "int", "log_idx": "int"}[c]
			if !ok {
				panic("tasksim: PreCols: " + c)
			}
			pre = append(pre, jcol{c, typ})
		}
		cols = append(pre, cols...)
	}
	m := map[string]any{
		"name":    ig.Name,
		"enabled": !ig.Disable,
		"sources": srcs,
		"table":   map[string]any{"name": ig.Table, "columns": cols},
	}
	if ig.Agg != "" {
		m["filter_agg"] = ig.Agg
	}
	if block != nil {
		m["block"] = block
	}
	if event != nil {
		m["event"] = event
	}
	return m
}

// DeclaredRefs lists the integrations the declaration references through
// filter_ref (on inputs and block fields), without duplicates, in order.
func (ig *IGSpec) DeclaredRefs() []string {
	var out []string
	add := func(n string) {
		for _, o := range out {
			if o == n {
				return
			}
		}
		if n != "" {
			out = append(out, n)
		}
	}
	switch ig.Shape {
	case "dep":
		add(ig.Ref)
		add(ig.Ref2)
		add(ig.RefBD)
	case "depbd", "deptup":
		add(ig.Ref)
	}
	return out
}

// BuildConfig renders sources + integrations to JSON, decodes it the way
// cmd/shovel does and runs config.ValidateFix.
func BuildConfig(srcs []SrcSpec, igs []IGSpec) (config.Root, string, error) {
	var js []map[string]any
	for _, s := range srcs {
		m := map[string]any{"name": s.Name, "chain_id": spelled(s.ChainIDText, s.ChainID), "url": s.URL}
		if s.Batch != 0 {
			m["batch_size"] = s.Batch
		}
		if s.Conc != 0 {
			m["concurrency"] = s.Conc
		}
		if s.Poll != "" {
			m["poll_duration"] = s.Poll
		}
		js = append(js, m)
	}
	var ji []map[string]any
	for i := range igs {
		ji = append(ji, igs[i].jsonConfig())
	}
	raw, err := json.Marshal(map[string]any{"pg_url": "fake", "eth_sources": js, "integrations": ji})
	if err != nil {
		return config.Root{}, "", err
	}
	var root config.Root
	if err := json.Unmarshal(raw, &root); err != nil {
		return root, string(raw), fmt.Errorf("decoding config: %w", err)
	}
	if err := config.ValidateFix(&root); err != nil {
		return root, string(raw), fmt.Errorf("ValidateFix: %w", err)
	}
	return root, string(raw), nil
}

// ---------------------------------------------------------------- intended rows

// RowVals is one intended row: column -> value (columns the integration does
// not write are absent = NULL).
type RowVals map[string]fakepg.Value

func u64(v uint64) *big.Int { return new(big.Int).SetUint64(v) }

// matchesNode says whether the node's eth_getLogs (address list + topic0 of
// the integration's event) returns the log.
func (ig *IGSpec) matchesNode(l *Log) bool {
	var sig string
	switch ig.Shape {
	case "log", "lognh", "logr", "dep", "depbd":
		sig = SigTransfer
	case "appr":
		sig = SigApproval
	case "deptup":
		sig = SigOrder
	case "created":
		sig = SigCreated
	case "tags":
		sig = SigTags
	default:
		return false
	}
	if !bytes.Equal(l.Topics[0], Topic0(sig)) {
		return false
	}
	if ig.AddrFlt && !bytes.Equal(l.Addr, TokenAddr) {
		return false
	}
	return true
}

// Project lists the rows the generator intends integration ig (running for
// source src) to derive from block b of chain c, in dig's emission order.
// For dep shapes the referenced table is intended to hold the addresses
// created in blocks RefLo..b.Num when the block is processed (the generator
// never uses an address before the block that creates it, so rows the
// referenced integration has indexed beyond b cannot match).
func (ig *IGSpec) Project(c *Chain, b *Block, src string) []RowVals {
	var out []RowVals
	stamp := func(r RowVals) RowVals {
		r["ig_name"], r["src_name"], r["block_num"] = ig.Name, src, u64(b.Num)
		return r
	}
	var created map[string]bool
	if ig.Shape == "dep" || ig.Shape == "depbd" || ig.Shape == "deptup" {
		created = c.CreatedIn(ig.RefLo, b.Num)
	}
	for _, tx := range b.Txs {
		switch ig.Shape {
		case "log", "lognh", "logr", "dep", "depbd":
			for _, l := range tx.Logs {
				if l.Kind != "transfer" {
					continue
				}
				if !ig.accepts(l) {
					continue
				}
				look := func(a []byte) bool { return created[string(a)] != ig.RefNeg } // lookup, negated with "!contains"
				if ig.Shape == "dep" {
					ok := look(l.From)
					if ig.Ref2 != "" { // default aggregation of filters is "or"
						ok = ok || look(l.To)
					}
					if ig.RefBD != "" {
						ok = ok || look(l.Addr)
					}
					if !ok {
						continue
					}
				}
				if ig.Shape == "depbd" && !look(l.Addr) {
					continue
				}
				r := stamp(RowVals{"tx_idx": u64(tx.Idx), "log_idx": u64(l.Idx), "abi_idx": u64(0),
					"f": l.From, "t": l.To, "v": u64(l.Value)})
				if ig.Shape == "log" || ig.Shape == "logr" || ig.Hdr {
					r["block_time"] = u64(b.Time)
				}
				if ig.Shape == "logr" {
					r["tx_status"] = u64(1)
				}
				if ig.TxVal {
					r["tx_value"] = u64(tx.Value)
				}
				if ig.AddrFlt || ig.Shape == "depbd" || (ig.Shape == "dep" && ig.RefBD != "") {
					r["log_addr"] = l.Addr
				}
				out = append(out, r)
			}
		case "deptup":
			for _, l := range tx.Logs {
				if l.Kind != "order" || created[string(l.From)] == ig.RefNeg {
					continue
				}
				r := stamp(RowVals{"tx_idx": u64(tx.Idx), "log_idx": u64(l.Idx), "abi_idx": u64(0), "maker": l.From, "amt": u64(l.Value)})
				if ig.Hdr {
					r["block_time"] = u64(b.Time)
				}
				out = append(out, r)
			}
		case "appr":
			for _, l := range tx.Logs {
				if l.Kind != "decoy-topic" { // the generator's Approval logs
					continue
				}
				if ig.AddrFlt && !bytes.Equal(l.Addr, TokenAddr) {
					continue
				}
				r := stamp(RowVals{"tx_idx": u64(tx.Idx), "log_idx": u64(l.Idx), "abi_idx": u64(0),
					"o": l.From, "s": l.To, "v": u64(l.Value)})
				if ig.Hdr {
					r["block_time"] = u64(b.Time)
				}
				if ig.AddrFlt {
					r["log_addr"] = l.Addr
				}
				out = append(out, r)
			}
		case "created":
			for _, l := range tx.Logs {
				if l.Kind != "created" {
					continue
				}
				r := stamp(RowVals{"tx_idx": u64(tx.Idx), "log_idx": u64(l.Idx), "addr": l.Made})
				if ig.Hdr {
					r["block_time"] = u64(b.Time)
				}
				out = append(out, r)
			}
		case "tags":
			for _, l := range tx.Logs {
				if l.Kind != "tags" {
					continue
				}
				for i, tag := range l.Tags {
					r := stamp(RowVals{"tx_idx": u64(tx.Idx), "log_idx": u64(l.Idx), "abi_idx": u64(uint64(i)), "tag": tag})
					if ig.Hdr {
						r["block_time"] = u64(b.Time)
					}
					out = append(out, r)
				}
			}
		case "tx":
			if ig.ToFlt != nil && !bytes.Contains(tx.To, ig.ToFlt) {
				continue
			}
			out = append(out, stamp(RowVals{"tx_idx": u64(tx.Idx), "tx_to": tx.To, "tx_value": u64(tx.Value)}))
		case "txr":
			out = append(out, stamp(RowVals{"tx_idx": u64(tx.Idx), "tx_status": u64(1), "block_time": u64(b.Time)}))
		case "trace":
			for i, ta := range tx.Traces {
				out = append(out, stamp(RowVals{"tx_idx": u64(tx.Idx), "trace_action_idx": u64(uint64(i)),
					"trace_action_from": ta.From, "trace_action_to": ta.To, "trace_action_value": u64(ta.Value)}))
			}
		}
	}
	return out
}

// ---------------------------------------------------------------- canonical rows

var keyCols = []string{"tx_idx", "log_idx", "abi_idx", "trace_action_idx"}

func isStamp(c string) bool { return c == "ig_name" || c == "src_name" || c == "block_num" }
func isKey(c string) bool {
	for _, k := range keyCols {
		if k == c {
			return true
		}
	}
	return false
}

// CanonRow splits a row of a table with the given columns into stamps, a key
// string (position inside the block under the generated unique index) and a
// value string (remaining content, in table column order).
func CanonRow(cols []string, get func(string) fakepg.Value) (src, ig fakepg.Value, bnum fakepg.Value, key, val string) {
	var ks, vs []string
	for _, k := range keyCols {
		ks = append(ks, fakepg.FormatValue(get(k)))
	}
	sorted := append([]string{}, cols...)
	sort.Strings(sorted)
	for _, c := range sorted {
		if isStamp(c) || isKey(c) {
			continue
		}
		vs = append(vs, fakepg.FormatValue(get(c)))
	}
	return get("src_name"), get("ig_name"), get("block_num"), strings.Join(ks, "/"), strings.Join(vs, "|")
}
