package tasksim

import (
	"fmt"
	"os"
	"sync"

	"verif/harness/fakepg"
	"verif/harness/lib"
)

// Scenario is a complete, re-runnable description of one case: the world,
// the seed of the chain generator and a script of actions.  It is what the
// drivers put into Case.Desc.
type Scenario struct {
	Name string    `json:"name"`
	Seed uint64    `json:"seed"`
	Srcs []SrcSpec `json:"srcs"`
	IGs  []IGSpec  `json:"igs"`
	Head int       `json:"head"` // initial head of every source's chain
	Gen  GenOpts   `json:"gen"`
	Acts []Act     `json:"acts"`
	// SnapEvery: record the committed database after every database statement
	SnapEvery bool `json:"snap_every,omitempty"`
	// Preload: positions recorded before the tasks start (a prior run)
	Preload []PreCur `json:"preload,omitempty"`
	// Real: real jrpc2.Client + HTTP simnode instead of the scripted Source
	Real bool `json:"real,omitempty"`
	// DBRows: integrations saved in shovel.integrations instead of the configuration file
	DBRows []DBRow `json:"db_rows,omitempty"`
	// Env: environment variables (upper-case names) set while the scenario runs: the values
	// of "$NAME" references in the configuration
	Env map[string]string `json:"env,omitempty"`
}

// PreCur is a recorded position that exists before the case starts; its hash
// is the one the task's plan would have recorded for that block of version 1
// (an unrelated hash when the block does not exist).
type PreCur struct {
	Tid int    `json:"tid"`
	Num uint64 `json:"num"`
}

// Act is one action of a script.
//
//	step     run one Converge of task Tid to completion
//	stepall  one whole step of every loaded task, in id order (not in interleaved mode)
//	adv      (interleaved mode) let task Tid run to its next database statement / end of step
//	advuntil (interleaved mode) advance task Tid until it has executed the operation named Call (K more times), or its step ends
//	drain    (interleaved mode) finish every step in flight
//	grow     the chain of source Src grows by K blocks; the node serves the new version
//	reorg    new version of Src's chain: blocks >= Fork replaced by Len fresh ones; served from now on
//	makever  like reorg / grow (Len=0: grow by K) but the node keeps serving the old version
//	setver   node of Src serves version Ver from now on
//	lag      node of Src hides its K newest blocks
//	fault    the At-th database statement (0-based) of Tid's next step gets Kind
//	         (error | drop | drop-after | crash | crash-after)
//	switchat in Tid's next step, node calls with canonical index >= K are answered from version Ver
//	rpcfail  the node call Call (Call.Key or Call.RelKey form) of Tid's next step fails
//	rpcver   the node call Call of Tid's next step is answered from version Ver
//	rpccrash the process dies when Tid's next step makes node call Call
//	xfail    (real-client mode) the K-th HTTP exchange of the next step gets status 500
//	xlag     (real-client mode) in the next step, HTTP exchanges with index >= K come from a node Len blocks behind
//	xswitch  (real-client mode) in the next step, HTTP exchanges with index >= K are answered from version Ver
//	restart  process restart (pool and tasks rebuilt); an ECrash is recorded
//	reconfig process restart with batch size K and concurrency Len for source Src ("" = all): the
//	         tasks get new ids (old id + 10); Tid in later acts may be ANY id of the pair (the
//	         current task of that pair runs)
//	clear    forget armed faults / call plans
type Act struct {
	Do   string `json:"do"`
	Tid  int    `json:"tid,omitempty"`
	Src  string `json:"src,omitempty"`
	K    int    `json:"k,omitempty"`
	Fork uint64 `json:"fork,omitempty"`
	Len  int    `json:"len,omitempty"`
	Ver  int    `json:"ver,omitempty"`
	At   int    `json:"at,omitempty"`
	Kind string `json:"kind,omitempty"`
	Call string `json:"call,omitempty"`
}

// EventBudget bounds the events of one scenario (a healthy one stays far below).
const EventBudget = 12000

// Run is an executed scenario.
type Run struct {
	Sc    *Scenario
	W     *World
	Steps []StepResult
	// Restarts[i] = index into W.Rec.Events where the i-th restart happened
	Restarts []int
	// Forks: every reorg of the script with the event index at which it happened
	Forks []ForkMark
}

type armed struct {
	tid   int
	at    int
	kind  fakepg.FaultKind
	count int
	live  bool
}

type callPlan struct {
	fail  bool
	ver   int
	crash bool
}

// Exec runs the scenario.
func (sc *Scenario) Exec() (*Run, error) {
	for k, v := range sc.Env {
		os.Setenv(k, v)
		defer os.Unsetenv(k)
	}
	rng := lib.NewRNG(sc.Seed)
	hist := map[string]*History{}
	for i, s := range sc.Srcs {
		o := sc.Gen
		o.AddrBase = i * 20_000_000
		hist[s.Name] = NewHistory(rng.Fork(), sc.Head, o)
	}
	w, err := NewWorld(WorldSpec{Srcs: sc.Srcs, IGs: sc.IGs, Hist: hist, Real: sc.Real, DBRows: sc.DBRows})
	if err != nil {
		return nil, err
	}
	w.Rec.SnapEvery = sc.SnapEvery
	run := &Run{Sc: sc, W: w}
	for _, pc := range sc.Preload {
		t := w.Task(pc.Tid)
		if t == nil {
			return run, fmt.Errorf("preload: no task %d", pc.Tid)
		}
		ch := hist[t.Info.SrcName].Versions[0]
		hash := HashBytes(7, pc.Num)
		if b := ch.At(pc.Num); b != nil {
			hash = nil
			if t.Spec.hashes() {
				hash = b.Hash
			} else {
				for _, tx := range b.Txs {
					for _, l := range tx.Logs {
						if nodeMatches(&t.Info.Filter, l) {
							hash = b.Hash
						}
					}
				}
			}
		}
		if _, err := w.PG.Exec(`insert into shovel.task_updates (chain_id, src_name, ig_name, num, hash) values ($1, $2, $3, $4, $5)`,
			t.Info.ChainID, t.Info.SrcName, t.Info.IGName, pc.Num, hash); err != nil {
			return run, fmt.Errorf("preload: %w", err)
		}
	}
	if len(sc.Preload) > 0 {
		w.Init = w.Rec.View(w.PG.Snapshot())
	}
	var mu sync.Mutex
	var arm armed
	plans := map[int]map[string]callPlan{} // tid -> call key -> plan
	w.PG.SetFaultPlan(func(i fakepg.StmtInfo) fakepg.Fault {
		mu.Lock()
		defer mu.Unlock()
		if !arm.live || i.Kind == "set" {
			return fakepg.Fault{}
		}
		w.Rec.mu.Lock()
		running, muted := w.Rec.running, w.Rec.muted
		w.Rec.mu.Unlock()
		if muted || running != arm.tid {
			return fakepg.Fault{}
		}
		arm.count++
		if arm.count-1 == arm.at {
			arm.live = false
			return fakepg.Fault{Kind: arm.kind}
		}
		return fakepg.Fault{}
	})
	for _, n := range w.Nodes {
		n := n
		n.SetPlan(func(c Call) Decision {
			mu.Lock()
			p, ok := plans[c.Task][c.Key()]
			if !ok {
				p, ok = plans[c.Task][c.RelKey()]
			}
			mu.Unlock()
			if !ok {
				return Decision{}
			}
			if p.crash {
				w.PG.Crash()
				var ids []int
				for _, t := range w.Tasks {
					ids = append(ids, t.ID)
				}
				w.Rec.CrashAt(ids)
				return Decision{Fail: true}
			}
			return Decision{Ver: p.ver, Fail: p.fail}
		})
	}
	srcOf := func(a Act) string {
		if a.Src != "" {
			return a.Src
		}
		return sc.Srcs[0].Name
	}
	var sched *Sched
	afterStep := func(r StepResult) error {
		run.Steps = append(run.Steps, r)
		if r.Outcome == "OHung" {
			return fmt.Errorf("%s", w.StepAnomalies[len(w.StepAnomalies)-1])
		}
		mu.Lock()
		if arm.tid == r.Tid {
			arm.live = false
		}
		delete(plans, r.Tid)
		mu.Unlock()
		if r.Crashed {
			if sched != nil { // the other steps in flight died with the process
				for _, k := range sched.Drain() {
					k.Outcome = "killed"
					run.Steps = append(run.Steps, k)
				}
				w.Rec.Crashed()
			}
			run.Restarts = append(run.Restarts, len(w.Rec.Events))
			return w.Restart(true)
		}
		return nil
	}
	for ai, a := range sc.Acts {
		fail := func(err error) (*Run, error) {
			return run, fmt.Errorf("act %d (%s): %w", ai, a.Do, err)
		}
		if a.Tid != 0 && w.Task(a.Tid) != nil {
			a.Tid = w.Rep(a.Tid).ID // after a reconfiguration the pair's current task
		}
		if len(w.Rec.Events) > EventBudget {
			return fail(fmt.Errorf("more than %d events recorded: a step keeps looping (reorg loop that never settles?)", EventBudget))
		}
		switch a.Do {
		case "step":
			if w.Task(a.Tid) == nil {
				return fail(fmt.Errorf("no task %d", a.Tid))
			}
			a.Tid = w.Rep(a.Tid).ID
			if sched != nil {
				// statement-level mode: other steps may be held at the gate; run this one
				// to its end through the scheduler
				for guard := 0; guard < 100000; guard++ {
					ended, r := sched.Advance(a.Tid)
					if ended {
						r.Crashed = w.Rec.Crashed()
						if err := afterStep(r); err != nil {
							return fail(err)
						}
						break
					}
				}
				break
			}
			if err := afterStep(w.Step(a.Tid)); err != nil {
				return fail(err)
			}
		case "stepall":
			// one step of every task loadTasks built, in id order
			for _, t := range append([]*TaskH{}, w.Tasks...) {
				if err := afterStep(w.Step(t.ID)); err != nil {
					return fail(err)
				}
			}
		case "adv":
			if sched == nil {
				sched = w.NewSched()
			}
			if w.Task(a.Tid) == nil {
				return fail(fmt.Errorf("no task %d", a.Tid))
			}
			a.Tid = w.Rep(a.Tid).ID
			ended, r := sched.Advance(a.Tid)
			if ended {
				r.Crashed = w.Rec.Crashed()
				if err := afterStep(r); err != nil {
					return fail(err)
				}
			}
		case "advuntil":
			// advance task Tid until the database operation it executed last is named Call
			// for the K-th time (K = 0: first) within this act, or its step ends
			if sched == nil {
				sched = w.NewSched()
			}
			if w.Task(a.Tid) == nil {
				return fail(fmt.Errorf("no task %d", a.Tid))
			}
			seen := 0
			for guard := 0; guard < 400; guard++ {
				n0 := len(w.Rec.Events)
				ended, r := sched.Advance(a.Tid)
				hit := false
				for _, e := range w.Rec.Events[n0:] {
					if e.Kind == "op" && e.Tid == a.Tid && e.Op.Name == a.Call {
						seen++
						hit = true
					}
				}
				if ended {
					r.Crashed = w.Rec.Crashed()
					if err := afterStep(r); err != nil {
						return fail(err)
					}
					break
				}
				if hit && seen > a.K {
					break
				}
			}
		case "drain":
			if sched != nil {
				for _, r := range sched.Drain() {
					if err := afterStep(r); err != nil {
						return fail(err)
					}
				}
			}
		case "grow":
			h := hist[srcOf(a)]
			c := h.Grow(rng, a.K)
			w.Nodes[srcOf(a)].SetVersion(c.Ver)
		case "reorg":
			h := hist[srcOf(a)]
			run.Forks = append(run.Forks, ForkMark{At: len(w.Rec.Events), Src: srcOf(a), Fork: max(a.Fork, 1)})
			c := h.Reorg(rng, a.Fork, a.Len)
			w.Nodes[srcOf(a)].SetVersion(c.Ver)
		case "makever":
			h := hist[srcOf(a)]
			if a.Len == 0 {
				h.Grow(rng, a.K)
			} else {
				run.Forks = append(run.Forks, ForkMark{At: len(w.Rec.Events), Src: srcOf(a), Fork: max(a.Fork, 1)})
				h.Reorg(rng, a.Fork, a.Len)
			}
		case "setver":
			w.Nodes[srcOf(a)].SetVersion(a.Ver)
		case "lag":
			w.Nodes[srcOf(a)].SetLag(uint64(a.K))
		case "fault":
			k, ok := map[string]fakepg.FaultKind{"error": fakepg.FaultError, "drop": fakepg.FaultDrop, "drop-after": fakepg.FaultDropAfter,
				"crash": fakepg.FaultCrash, "crash-after": fakepg.FaultCrashAfter}[a.Kind]
			if !ok {
				return fail(fmt.Errorf("unknown fault kind %q", a.Kind))
			}
			mu.Lock()
			arm = armed{tid: a.Tid, at: a.At, kind: k, live: true}
			mu.Unlock()
		case "rpcfail", "rpcver", "rpccrash":
			mu.Lock()
			if plans[a.Tid] == nil {
				plans[a.Tid] = map[string]callPlan{}
			}
			plans[a.Tid][a.Call] = callPlan{fail: a.Do == "rpcfail", ver: a.Ver, crash: a.Do == "rpccrash"}
			mu.Unlock()
		case "xfail":
			if !sc.Real {
				return fail(fmt.Errorf("xfail needs real-client mode"))
			}
			w.Nodes[srcOf(a)].XFail(a.K)
		case "xlag":
			if !sc.Real {
				return fail(fmt.Errorf("xlag needs real-client mode"))
			}
			w.Nodes[srcOf(a)].XLag(a.K, uint64(a.Len))
		case "xswitch":
			if !sc.Real {
				return fail(fmt.Errorf("xswitch needs real-client mode"))
			}
			w.Nodes[srcOf(a)].XSwitch(a.K, a.Ver)
		case "switchat":
			w.Nodes[srcOf(a)].SwitchAt(a.Tid, a.K, a.Ver)
		case "reconfig":
			// restart with another batch size (K) and concurrency (Len) for source Src ("" = all)
			if sched != nil && sched.AnyActive() {
				return fail(fmt.Errorf("reconfig with steps in flight"))
			}
			run.Restarts = append(run.Restarts, len(w.Rec.Events))
			if err := w.Reconfigure(a.Src, a.K, a.Len); err != nil {
				return fail(err)
			}
		case "restart":
			if sched != nil && sched.AnyActive() {
				return fail(fmt.Errorf("restart with steps in flight"))
			}
			run.Restarts = append(run.Restarts, len(w.Rec.Events))
			if err := w.Restart(false); err != nil {
				return fail(err)
			}
		case "clear":
			mu.Lock()
			arm.live = false
			plans = map[int]map[string]callPlan{}
			mu.Unlock()
		default:
			return fail(fmt.Errorf("unknown action"))
		}
	}
	if sched != nil {
		for _, r := range sched.Drain() {
			if err := afterStep(r); err != nil {
				return run, err
			}
		}
		sched.Close()
	}
	return run, nil
}

// Close releases the world.
func (r *Run) Close() {
	if r != nil && r.W != nil {
		r.W.Close()
	}
}

// StepEvents returns the events of step i.
func (r *Run) StepEvents(i int) []Event {
	s := r.Steps[i]
	return r.W.Rec.Events[s.First:s.Last]
}

// DBOps counts the database operations among events.
func DBOps(evs []Event) int {
	n := 0
	for _, e := range evs {
		if e.Kind == "op" && !isRPC(e.Op.Name) {
			n++
		}
	}
	return n
}

func isRPC(name string) bool { return name == "RLatest" || name == "RHash" || name == "RGet" }
